#!/usr/bin/env python3
"""Regenerates harness/go.mod and go.sum from the repository's own go.mod/go.sum so that the harness
links against /repo with exactly the repository's dependency versions and replace directives."""
import sys, os, re
repo = sys.argv[1] if len(sys.argv) > 1 else "/repo"
here = os.path.dirname(os.path.abspath(__file__))
src = open(os.path.join(repo, "go.mod")).read()
gover = re.search(r"^go\s+(\S+)", src, re.M).group(1)
body = []
# keep require blocks and replace directives verbatim
for m in re.finditer(r"^(require\s*\((?:.|\n)*?^\)|require\s+\S+\s+\S+.*$|replace\s+.*$|replace\s*\((?:.|\n)*?^\))", src, re.M):
    body.append(m.group(1))
out = "module verif/harness\n\ngo %s\n\nrequire github.com/codenotary/immudb v0.0.0\n\n%s\n\nreplace github.com/codenotary/immudb => %s\n" % (gover, "\n\n".join(body), repo)
p = os.path.join(here, "go.mod")
if not os.path.exists(p) or open(p).read() != out:
    open(p, "w").write(out)
sumsrc = open(os.path.join(repo, "go.sum")).read()
ps = os.path.join(here, "go.sum")
if not os.path.exists(ps) or open(ps).read() != sumsrc:
    open(ps, "w").write(sumsrc)
