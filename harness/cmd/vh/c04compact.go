package main

// C04 — compaction stage: index compaction INTERLEAVED with writers.
//
// `TBtree.Compact` dumps a snapshot of the tree without holding the tree lock, so that the indexer keeps
// inserting into the live tree; `indexer.CompactIndex` then restarts the index from the dump and the indexer
// resumes from `Ts()+1` of the reloaded tree.  The store cases of c04run.go only compact a quiescent index
// (dump ts = live ts).  Here the dump window is made wide DETERMINISTICALLY: the store is opened with an
// appendable factory (`store.Options.WithAppFactory`) whose history-log / node-log appendables call back into
// the harness when they are used from inside the dump (`fullDumpTo` calls `hLog.Sync()` after the nodes have
// been written and before the commit entry and the TIMESTAMP file of the dump are; node reads of
// `Snapshot.WriteTo` go through the old node log).  Two schedules:
//   gate : the dump stops at that point until the harness has committed k >= 0 transactions and (bounded) waited
//          for them to be indexed by the live tree — the transactions "committed AND indexed during the dump";
//   free : a writer goroutine commits continuously while the main goroutine runs {FlushIndexes; CompactIndexes}
//          repeatedly, every dump being held for a few milliseconds at the same point.
// Oracle: at QUIESCENT points only (writers joined, compaction returned, every index polled up to the last
// committed tx — `SnapshotMustIncludeTxID(prefix, n)` succeeds only when the tree's ts >= n, unlike
// WaitForIndexingUpto whose wait hub is not receded by the restart: known finding C06 …index-regressed-by-compaction,
// a TRANSIENT regress) the whole index content must equal the log and every read API must agree with it; and
// once more after Close/Open.  A difference there is permanent: nothing is left to be indexed.
// Tie: `c04 compact <i> <s>` — the model restarts index i from the dump of the snapshot root at ts s with the
// claimed ts the code writes (Lean `compactRestart`); the implementation's answer is the content of the
// TIMESTAMP<s> file of the dump, read before anything else can rewrite it.

import (
	"context"
	"encoding/binary"
	"errors"
	"fmt"
	"os"
	"path/filepath"
	"regexp"
	"runtime"
	"sort"
	"strconv"
	"strings"
	"sync"
	"sync/atomic"
	"time"

	"github.com/codenotary/immudb/embedded/appendable"
	"github.com/codenotary/immudb/embedded/appendable/multiapp"
	"github.com/codenotary/immudb/embedded/store"
	"github.com/codenotary/immudb/embedded/tbtree"

	"verif/harness/internal/hx"
)

const (
	c04SigCompactErr  = "C04:compaction:unexpected-error"
	c04SigCompactHook = "C04:harness:compaction-dump-hook-never-reached"
	c04SigCompactHung = "C04:harness:compact-case-hung"
	// genuine defects of the unchanged repository that only a compaction racing with the indexer exposes
	// (known_findings.json); both are recognised by their CAUSE, not by "some deviation after a compaction":
	// D1: indexer.restartIndex -> stop() does not wait for the doIndexing goroutine; resume() installs a new ctx /
	//     state=running and starts a second goroutine.  A goroutine that was inside indexSince survives, shares
	//     idx.tx / idx._kvs with the new one and inserts the bulk it prepared against the OLD tree into the reopened
	//     dump (ts jumps over transactions: lost for good; keys of one tx filed under the bytes of another).
	//     Witness: two goroutines in (*indexer).doIndexing with the same receiver, persistently.
	c04SigRestartRace = "C04:indexer.restartIndex:old-indexing-goroutine-survives-restart"
	// D2: the wait hub of a restarted index is not receded (C06 …index-regressed-by-compaction), so an injective
	//     indexer's WaitForIndexingUpto(txID-1) on its SOURCE index returns at once and GetBetween(sourceKey,1,txID-1)
	//     reads the regressed source: the tombstone is built from an older row version (or omitted) — permanent.
	//     Fingerprint: every deviating tx of the injective index holds exactly the KVTs of the code with the lookup
	//     as of an older tx >= the ts of a dump the case restarted an index from.
	c04SigRegressedSrc = "C04:indexer.indexSince:injective-prev-lookup-on-source-regressed-by-compaction"
	// D3: doIndexing returns on tbtree.ErrAlreadyClosed whatever tree reported it.  An injective indexer calls
	//     sourceIndexer.index.GetBetween without any lock of the source indexer; when restartIndex of the SOURCE closes
	//     that tree meanwhile the lookup fails with ErrAlreadyClosed and the goroutine of the DEPENDENT index returns:
	//     nothing restarts it, the index stays behind for good, Commit (which waits for indexing) never returns.
	//     Witness: fewer doIndexing goroutines than indexes while an index does not catch up.
	c04SigIndexerGone = "C04:indexer.doIndexing:indexing-goroutine-gone-after-compaction-of-source-index"
	// D4: TBtree.Compact dumps `snap := t.newSnapshot(0, t.root)` WITHOUT registering it in t.snapshots.  flushTree, run by
	//     the indexer's BulkInsert (FlushThld) while the dump is being written without the tree lock, protects only the
	//     registered snapshots when a synced flush discards the node-log chunks below the new root's minimum offset
	//     (`for _, snap := range t.snapshots`): the chunk files the dumped root still points into are removed, the dump's
	//     node read gets io.EOF (multiapp.ReadAt maps a missing chunk file to EOF) and Compact fails with
	//     "dumping index … returned: EOF".  Nothing is lost: CompactIndex returns before restartIndex, the live tree only
	//     references newer offsets, the half-written nodes<ts>/commit<ts> folders are discarded by the next Open; a later
	//     compaction works.  Recognised by its cause: the node-log appendable of the index received DiscardUpto while a
	//     dump of that index was reading (hook), and the error names that index and is EOF.  The oracle then goes on and
	//     requires the index to hold the log and later compactions to work.
	c04SigDumpDiscard = "C04:tbtree.Compact:dump-fails-eof-node-log-chunk-discarded-by-concurrent-flush"
)

var c04DoIndexingRe = regexp.MustCompile(`store\.\(\*indexer\)\.doIndexing\((0x[0-9a-f]+)`)

// receivers of (*indexer).doIndexing -> number of goroutines running it right now (whole process)
func c04IndexingReceivers() map[string]int {
	buf := make([]byte, 1<<20)
	for {
		n := runtime.Stack(buf, true)
		if n < len(buf) {
			buf = buf[:n]
			break
		}
		buf = make([]byte, 2*len(buf))
	}
	cnt := map[string]int{}
	for _, m := range c04DoIndexingRe.FindAllSubmatch(buf, -1) {
		cnt[string(m[1])]++
	}
	return cnt
}

// the indexers of the store of this case: every receiver that was not there before the store was opened
func (c *c04Case) ownIndexingGoroutines() (all map[string]int, dup map[string]int) {
	all, dup = map[string]int{}, map[string]int{}
	for k, v := range c04IndexingReceivers() {
		if c.foreign[k] {
			continue
		}
		all[k] = v
		if v > 1 {
			dup[k] = v
		}
	}
	return
}

// D1, second witness: BulkInsert / IncreaseTs of an indexer rejected because the tree's ts was already beyond the bulk.
// With ONE inserter per tree (what the code intends) that cannot happen: indexSince always starts at Ts()+1.
func (c *c04Case) foreignInsertLogged() string {
	var errs []string
	errs = append(errs, c.oldErrs...)
	if c.log != nil {
		c.log.mu.Lock()
		errs = append(errs, c.log.errs...)
		c.log.mu.Unlock()
	}
	for _, e := range errs {
		if strings.Contains(e, "specific timestamp is older than root's current timestamp") || strings.HasSuffix(e, "due to error: tbtree: illegal arguments") {
			return fmt.Sprintf("%q", e)
		}
	}
	return ""
}

// D3 witness: the store has fewer indexing goroutines than indexes, persistently — an indexer whose goroutine returned
// (doIndexing returns on tbtree.ErrAlreadyClosed; an injective indexer gets that error from the lookup in its SOURCE
// index when a compaction restarts the source) and that nothing restarts: the index stops for good
func (c *c04Case) indexerGone() (string, bool) {
	var all map[string]int
	for k := 0; k < 3; k++ {
		all, _ = c.ownIndexingGoroutines()
		if len(all) >= len(c.defs) {
			return "", false
		}
		time.Sleep(30 * time.Millisecond)
	}
	return fmt.Sprintf("the store has %d indexes but only %d indexing goroutine(s) (%v)", len(c.defs), len(all), all), true
}

// D1, third witness (restartCensus): reported as soon as a restart met a busy indexing goroutine
func (c *c04Case) busyRestartWitness(when string) bool {
	if c.raceSig != "" || c.hook == nil {
		return false
	}
	w := c.hook.takeBusy()
	if w == "" {
		return false
	}
	c.r.OracleChecks++
	desc := fmt.Sprintf("%s: %s — stop() does not wait for it: the bulk it is preparing against the closed tree is inserted into the reopened dump (idx.index is read when the call is made) and, once resume() has started the new goroutine, two goroutines run indexSince on the shared idx.tx/idx._kvs (a tx indexed with the entries of another: part of its keys missing, ReadTxEntry(prevTx, key of another tx) = 'key not found'); whether the old goroutine stays (two doIndexing goroutines), returns on the cancelled ctx or is removed later by ErrAlreadyClosed only decides what is left to be seen", when, w)
	c.op("WITNESS %s", desc)
	c.r.Count("compact.witness.restart-met-busy-indexer." + c.cfg.Mode)
	c.r.Fail(c04SigRestartRace, desc, c.replay(desc))
	c.lines = nil
	c.dropped = true
	c.raceSig = c04SigRestartRace
	c.raceWhy = "restartIndex ran while the indexing goroutine of that indexer was still at work (" + w + ")"
	return true
}

// D1 witness: an indexer served by two doIndexing goroutines, persistently
func (c *c04Case) checkRestartRace(when string) {
	if c.raceSig != "" {
		return
	}
	if c.busyRestartWitness(when) {
		return
	}
	// 5 samples over 120 ms (the goroutine started by resume() may not have run yet at the first one); a witness is a
	// surplus goroutine seen in two consecutive samples (one that is merely on its way out after stop() is not)
	var dup map[string]int
	consecutive := 0
	for k := 0; k < 5 && consecutive < 2; k++ {
		if k > 0 {
			time.Sleep(30 * time.Millisecond)
		}
		_, d := c.ownIndexingGoroutines()
		if len(d) > 0 {
			consecutive++
			dup = d
		} else {
			consecutive = 0
		}
	}
	if consecutive < 2 {
		return
	}
	c.r.OracleChecks++
	desc := fmt.Sprintf("%s: %d indexer(s) of the store are served by more than one doIndexing goroutine (receiver -> goroutines: %v): restartIndex started a new indexing goroutine while the previous one was still inside indexSince; both share idx.tx/idx._kvs and the old one inserts the bulk it prepared against the closed tree into the reopened dump", when, len(dup), dup)
	c.op("WITNESS %s", desc)
	c.r.Count("compact.witness.duplicate-indexing-goroutine")
	c.r.Fail(c04SigRestartRace, desc, c.replay(desc))
	c.lines = nil // what the trees hold from now on is not a function of the log
	c.dropped = true
	c.raceSig = c04SigRestartRace
	c.raceWhy = "the store had two indexing goroutines for one index after a compaction restart (" + when + ")"
}

// ---------------------------------------------------------------- the hook inside the dump

type c04DumpHit struct {
	idxPath string
	point   string
}

type c04DumpHook struct {
	on      int32 // 0 off, 1 gate, 2 delay
	atRead  int32 // 1: also stop at the first node read of the dump
	atReopen int32 // 1: (probes) stop inside restartIndex between Close of the live tree and the reopening of the dump
	noDump  int32 // 1: (probes) do not stop inside the dump
	mu      sync.Mutex
	fired   map[string]bool
	hits    chan c04DumpHit
	release chan struct{}
	delay   time.Duration
	nHits   int32
	busy    []string // restarts during which the indexer's own goroutine was still at work (restartCensus)
	atStart  int32             // 1: (probe) stop the dump before it reads its first node (cLog.Metadata() at the top of fullDump)
	dumping  map[string]bool   // index path -> a dump of it is reading nodes (from fullDump's start to its hLog.Sync())
	discards map[string]int64  // index path -> highest DiscardUpto offset its node log received while it was being dumped
}

func newC04DumpHook() *c04DumpHook {
	return &c04DumpHook{fired: map[string]bool{}, hits: make(chan c04DumpHit), release: make(chan struct{}), dumping: map[string]bool{}, discards: map[string]int64{}}
}

func (h *c04DumpHook) arm(mode int32, atRead bool, delay time.Duration) {
	h.mu.Lock()
	h.fired = map[string]bool{}
	h.delay = delay
	h.dumping = map[string]bool{}
	h.discards = map[string]int64{}
	h.mu.Unlock()
	if atRead {
		atomic.StoreInt32(&h.atRead, 1)
	} else {
		atomic.StoreInt32(&h.atRead, 0)
	}
	atomic.StoreInt32(&h.on, mode)
}

func (h *c04DumpHook) disarm() { atomic.StoreInt32(&h.on, 0) }

// is the caller running inside TBtree.fullDump / fullDumpTo (the lock-free part of Compact)?
func c04InDump() bool { return c04InStack("tbtree.(*TBtree).fullDump") }

func c04InStack(fn string) bool {
	var pcs [64]uintptr
	n := runtime.Callers(3, pcs[:])
	frames := runtime.CallersFrames(pcs[:n])
	for {
		f, more := frames.Next()
		if strings.Contains(f.Function, fn) {
			return true
		}
		if !more {
			return false
		}
	}
}

func (h *c04DumpHook) at(idxPath, point string) {
	mode := atomic.LoadInt32(&h.on)
	if mode == 0 {
		return
	}
	h.mu.Lock()
	if h.fired[idxPath] {
		h.mu.Unlock()
		return
	}
	h.fired[idxPath] = true
	d := h.delay
	h.mu.Unlock()
	atomic.AddInt32(&h.nHits, 1)
	if mode == 1 {
		h.hits <- c04DumpHit{idxPath, point}
		<-h.release
		return
	}
	time.Sleep(d)
}

type c04HookApp struct {
	appendable.Appendable
	h       *c04DumpHook
	idxPath string
	kind    string // history | nodes
}

// cLog.Metadata() is the first thing fullDump asks for: the dump of this index starts reading nodes now
func (a *c04HookApp) Metadata() []byte {
	if a.kind == "commit" && atomic.LoadInt32(&a.h.on) != 0 && c04InDump() {
		a.h.mu.Lock()
		a.h.dumping[a.idxPath] = true
		a.h.mu.Unlock()
		if atomic.LoadInt32(&a.h.atStart) != 0 {
			a.h.at(a.idxPath, "dump-start")
		}
	}
	return a.Appendable.Metadata()
}

// flushTree discarding node-log chunks: did it happen while a dump of the same index was reading its nodes?
func (a *c04HookApp) DiscardUpto(off int64) error {
	if a.kind == "nodes" {
		a.h.mu.Lock()
		if a.h.dumping[a.idxPath] && off > a.h.discards[a.idxPath] {
			a.h.discards[a.idxPath] = off
		}
		a.h.mu.Unlock()
	}
	return a.Appendable.DiscardUpto(off)
}

func (h *c04DumpHook) takeDiscard(idxPath string) (int64, bool) {
	h.mu.Lock()
	defer h.mu.Unlock()
	off, ok := h.discards[idxPath]
	delete(h.discards, idxPath)
	return off, ok
}

func (a *c04HookApp) Sync() error {
	if a.kind == "history" && c04InDump() {
		a.h.mu.Lock()
		delete(a.h.dumping, a.idxPath) // the nodes of the dump have been written
		a.h.mu.Unlock()
	}
	if a.kind == "history" && atomic.LoadInt32(&a.h.on) != 0 && atomic.LoadInt32(&a.h.noDump) == 0 && c04InDump() {
		a.h.at(a.idxPath, "hlog-sync")
	}
	return a.Appendable.Sync()
}

func (a *c04HookApp) ReadAt(bs []byte, off int64) (int, error) {
	if a.kind == "nodes" && atomic.LoadInt32(&a.h.on) != 0 && atomic.LoadInt32(&a.h.atRead) != 0 && c04InDump() {
		a.h.at(a.idxPath, "nlog-read")
	}
	return a.Appendable.ReadAt(bs, off)
}

var c04RestartIndexRe = regexp.MustCompile(`store\.\(\*indexer\)\.restartIndex\((0x[0-9a-f]+)`)

// D1, third witness — the CAUSE itself, observed synchronously from inside restartIndex (the appendable factory is called
// by tbtree.Open between `idx.index.Close()` and `idx.index = index`): the doIndexing goroutine of the indexer that is
// being restarted (same receiver as the restartIndex frame of the calling goroutine) is not parked in doIndexing's own
// commitWHub.WaitFor but still inside indexSince / handleWriteStalling / an error back-off, long after stop().  It
// cannot enter indexSince anew once stop() has run (cancelled ctx, state=stopped), so it has been there since before,
// and the bulk it is preparing against the closed tree goes to `idx.index` = the reopened dump; from resume() on it runs
// concurrently with the new goroutine on the shared idx.tx / idx._kvs.
func (h *c04DumpHook) restartCensus(idxPath string) {
	buf := make([]byte, 1<<20)
	for {
		n := runtime.Stack(buf, true)
		if n < len(buf) {
			buf = buf[:n]
			break
		}
		buf = make([]byte, 2*len(buf))
	}
	gs := strings.Split(string(buf), "\n\n")
	recv := ""
	for _, g := range gs {
		if strings.Contains(g, "c04DumpHook).restartCensus") {
			if m := c04RestartIndexRe.FindStringSubmatch(g); m != nil {
				recv = m[1]
			}
			break
		}
	}
	if recv == "" {
		return
	}
	for _, g := range gs {
		if !strings.Contains(g, "store.(*indexer).doIndexing("+recv) {
			continue
		}
		where := ""
		switch {
		case strings.Contains(g, "store.(*indexer).indexSince("):
			where = "inside indexSince"
			if m := regexp.MustCompile(`indexSince\(0x[0-9a-f]+, (0x[0-9a-f]+)`).FindStringSubmatch(g); m != nil {
				if v, err := strconv.ParseUint(m[1], 0, 64); err == nil {
					where = fmt.Sprintf("inside indexSince(%d)", v)
				}
			}
		case strings.Contains(g, "store.(*indexer).handleWriteStalling("):
			where = "inside handleWriteStalling"
		case strings.Contains(g, "time.Sleep("):
			where = "in its error back-off"
		}
		if where != "" {
			h.mu.Lock()
			h.busy = append(h.busy, fmt.Sprintf("restartIndex of %s had closed the live tree and was reopening the dump while the indexing goroutine of that indexer was still %s", filepath.Base(idxPath), where))
			h.mu.Unlock()
		}
	}
}

func (h *c04DumpHook) takeBusy() string {
	h.mu.Lock()
	defer h.mu.Unlock()
	if len(h.busy) == 0 {
		return ""
	}
	w := h.busy[0]
	if len(h.busy) > 1 {
		w += fmt.Sprintf(" (and %d more such restarts)", len(h.busy)-1)
	}
	h.busy = nil
	return w
}

func (h *c04DumpHook) factory() store.AppFactoryFunc {
	return func(rootPath, subPath string, opts *multiapp.Options) (appendable.Appendable, error) {
		// restartIndex: the live tree has been closed, tbtree.Open is about to reload the dump (idx.index still points
		// to the closed tree)
		if subPath == "history" && atomic.LoadInt32(&h.on) == 1 && atomic.LoadInt32(&h.atReopen) != 0 && c04InStack("store.(*indexer).restartIndex") {
			h.at(rootPath+"#reopen", "reopen")
		}
		// restartIndex, last appendable of tbtree.Open (the commit log of the dump): the live tree was closed a while ago,
		// `idx.index = index` and resume() are next.  Is the indexing goroutine of THIS indexer still at work?
		if strings.HasPrefix(subPath, "commit") && strings.HasPrefix(filepath.Base(rootPath), "index") && c04InStack("store.(*indexer).restartIndex") {
			h.restartCensus(rootPath)
		}
		app, err := multiapp.Open(filepath.Join(rootPath, subPath), opts)
		if err != nil {
			return nil, err
		}
		if strings.HasPrefix(filepath.Base(rootPath), "index") {
			switch {
			case subPath == "history":
				return &c04HookApp{Appendable: app, h: h, idxPath: rootPath, kind: "history"}, nil
			case strings.HasPrefix(subPath, "nodes"):
				return &c04HookApp{Appendable: app, h: h, idxPath: rootPath, kind: "nodes"}, nil
			case strings.HasPrefix(subPath, "commit"):
				return &c04HookApp{Appendable: app, h: h, idxPath: rootPath, kind: "commit"}, nil
			}
		}
		return app, nil
	}
}

// ---------------------------------------------------------------- what a compaction left on disk

func (c *c04Case) idxPath(d c04IdxDef) string {
	if len(d.Tgt) == 0 {
		return filepath.Join(c.dir, "index")
	}
	return filepath.Join(c.dir, "index_"+hx.Hex(d.Tgt))
}

func (c *c04Case) idxOfPath(p string) int {
	for i, d := range c.defs {
		if c.idxPath(d) == p {
			return i
		}
	}
	return -1
}

// ids of the full snapshots (dumps) present in an index folder: `commit<id>` folders, 0 = the initial one
func c04SnapIDs(idxPath string) []uint64 {
	fis, err := os.ReadDir(idxPath)
	if err != nil {
		return nil
	}
	var ids []uint64
	for _, f := range fis {
		if !f.IsDir() || !strings.HasPrefix(f.Name(), "commit") {
			continue
		}
		s := strings.TrimPrefix(f.Name(), "commit")
		if s == "" {
			ids = append(ids, 0)
			continue
		}
		if id, err := strconv.ParseUint(s, 10, 64); err == nil {
			ids = append(ids, id)
		}
	}
	sort.Slice(ids, func(i, j int) bool { return ids[i] < ids[j] })
	return ids
}

func c04MaxSnapID(idxPath string) uint64 {
	ids := c04SnapIDs(idxPath)
	if len(ids) == 0 {
		return 0
	}
	return ids[len(ids)-1]
}

// content of TIMESTAMP<id> (the ts the dump CLAIMS to cover); ok=false when there is no such file
func c04ClaimedTs(idxPath string, id uint64) (uint64, bool) {
	name := "TIMESTAMP"
	if id != 0 {
		name = fmt.Sprintf("TIMESTAMP%016d", id)
	}
	bs, err := os.ReadFile(filepath.Join(idxPath, name))
	if err != nil || len(bs) != 8 {
		return 0, false
	}
	return binary.BigEndian.Uint64(bs), true
}

type c04Compaction struct {
	idx     int
	snapTs  uint64
	claimed string
}

// ---------------------------------------------------------------- the case

func (c *c04Case) op(f string, a ...interface{}) {
	if len(c.ops) < 400 {
		c.ops = append(c.ops, fmt.Sprintf(f, a...))
	}
}

func (c *c04Case) commitOne(tx c04Tx, async bool) error {
	id, err := c04Commit(c.st, tx, async)
	if err != nil {
		return fmt.Errorf("commit: %w", err)
	}
	if id != c.n+1 {
		return fmt.Errorf("tx ids not consecutive (%d after %d)", id, c.n)
	}
	tx.ID = id
	c.n = id
	c.ref.apply(tx)
	c.emit(tx.line(), fmt.Sprintf("ok %d", len(tx.Ents)))
	c.r.Count("compact.tx")
	return nil
}

// quiescent point: no writer, no compaction running; poll every index until its tree has reached the last
// committed tx (twice: the ts must stay there).  WaitForIndexingUpto alone is not enough after a compaction.
func (c *c04Case) settle() bool {
	start := time.Now()
	deadline := start.Add(60 * time.Second)
	if c.raceSig != "" {
		// two indexing goroutines fail each other's inserts and back off up to 60 s each time: do not wait that out
		deadline = start.Add(8 * time.Second)
	}
	var lastErr error
	nextGoneCheck := start.Add(1500 * time.Millisecond)
	for i, d := range c.defs {
		stable := 0
		for stable < 2 {
			if c.raceSig == "" && time.Now().After(nextGoneCheck) {
				nextGoneCheck = time.Now().Add(3 * time.Second)
				if why, gone := c.indexerGone(); gone {
					c.r.OracleChecks++
					c.r.Count("compact.witness.indexing-goroutine-gone")
					c.op("WITNESS %s", why)
					c.fail(c04SigIndexerGone, fmt.Sprintf("index %d (%x) stays at a ts below the last committed tx %d after the compaction had finished: %s; last logged error: %s; goroutines inside store/tbtree:\n%s", i, d.Tgt, c.n, why, c.log.last(), c04StoreStacks()))
					return false
				}
			}
			if time.Now().After(deadline) {
				c.fail(c04SigStuck, fmt.Sprintf("index %d (%x) did not reach the last committed tx %d within %.0f s after the writers and the compaction had finished: %v; last logged error: %s; goroutines inside store/tbtree:\n%s", i, d.Tgt, c.n, time.Since(start).Seconds(), lastErr, c.log.last(), c04StoreStacks()))
				return false
			}
			ctx, cancel := context.WithTimeout(context.Background(), 500*time.Millisecond)
			snap, err := c.st.SnapshotMustIncludeTxID(ctx, d.Tgt, c.n)
			cancel()
			if err != nil {
				lastErr = err
				stable = 0
				time.Sleep(2 * time.Millisecond)
				continue
			}
			ts := snap.Ts()
			snap.Close()
			if ts > c.n {
				c.fail(c04SigContent, fmt.Sprintf("index %d (%x) is at ts %d, beyond the last committed tx %d", i, d.Tgt, ts, c.n))
				return false
			}
			if ts < c.n {
				lastErr = fmt.Errorf("snapshot at ts %d", ts)
				stable = 0
				time.Sleep(2 * time.Millisecond)
				continue
			}
			stable++
			if stable < 2 {
				time.Sleep(time.Millisecond)
			}
		}
	}
	return true
}

// what the compactions of this round left behind, per index: (snapshot ts of the dump, claimed ts)
func (c *c04Case) collectCompactions(before []uint64) []c04Compaction {
	var out []c04Compaction
	for i, d := range c.defs {
		p := c.idxPath(d)
		id := c04MaxSnapID(p)
		if id == before[i] {
			continue
		}
		ts, ok := c04ClaimedTs(p, id)
		if !ok {
			// fullDump writes the TIMESTAMP file only when the dump succeeded: a folder without one is what a FAILED
			// compaction left behind (the index was not restarted; the next Open discards the folder)
			if !c.failedDumps[p][id] {
				if c.failedDumps == nil {
					c.failedDumps = map[string]map[uint64]bool{}
				}
				if c.failedDumps[p] == nil {
					c.failedDumps[p] = map[uint64]bool{}
				}
				c.failedDumps[p][id] = true
				c.r.Count("compact.failed-dump-folder-left-behind")
			}
			continue
		}
		cl := fmt.Sprintf("ok %d", ts)
		out = append(out, c04Compaction{idx: i, snapTs: id, claimed: cl})
		before[i] = id
	}
	return out
}

func (c *c04Case) emitCompactions(cs []c04Compaction) {
	for _, x := range cs {
		c.emit(fmt.Sprintf("c04 compact %d %d", x.idx, x.snapTs), x.claimed)
		c.op("index %d (%x) restarted from the dump of the snapshot at ts %d; TIMESTAMP file of the dump: %s", x.idx, c.defs[x.idx].Tgt, x.snapTs, x.claimed)
		c.r.Count("compact.restarted-from-dump")
	}
}

func c04CompactErrOK(err error) bool {
	return err == nil || c04ErrClass(err) != "other"
}

// one CompactIndexes() with every dump stopped at the hook until the harness has committed (and, bounded, seen
// indexed) the transactions of the window
func (c *c04Case) gatedCompaction(g *c04Gen, atRead bool) error {
	rng := c.rng
	c.hook.arm(1, atRead, 0)
	defer c.hook.disarm()
	done := make(chan error, 1)
	go func() {
		defer func() {
			if p := recover(); p != nil {
				done <- fmt.Errorf("panic in CompactIndexes: %v", p)
			}
		}()
		done <- c.st.CompactIndexes()
	}()
	c.op("CompactIndexes() started at committed tx %d", c.n)
	var werr error
	for {
		select {
		case hit := <-c.hook.hits:
			i := c.idxOfPath(hit.idxPath)
			k := []int{0, 1, 1, 2, 3, 6}[rng.Intn(6)]
			c.r.Count("compact.gate." + hit.point)
			// the indexes restarted earlier in this CompactIndexes() are re-indexing (their wait hubs say "done"):
			// commit only once they are back at the last committed tx — the transient regress is not this schedule's subject
			healed := c.healOthers(i)
			first := c.n + 1
			for j := 0; j < k && werr == nil; j++ {
				werr = c.commitOne(g.tx(), true)
			}
			indexed := "none committed"
			if k > 0 && werr == nil {
				ctx, cancel := context.WithTimeout(context.Background(), 1000*time.Millisecond)
				err := c.st.WaitForIndexingUpto(ctx, c.n)
				cancel()
				if err == nil {
					indexed = "all indexed by the live trees before the dump went on"
					c.r.Count("compact.window.txs-indexed-during-dump")
				} else {
					indexed = "not all indexed within 1 s (" + err.Error() + ")"
					c.unsafeRestart = true
					c.r.Count("compact.window.indexing-not-finished")
				}
			} else {
				c.r.Count("compact.window.empty")
			}
			c.op("dump of index %d (%s) stopped at %s (other indexes back at tx %d: %v); txs %d..%d committed meanwhile: %s", i, hit.idxPath[len(c.dir):], hit.point, first-1, healed, first, c.n, indexed)
			c.hook.release <- struct{}{}
		case err := <-done:
			if werr != nil {
				return werr
			}
			if err != nil && c.compactErrClass(err) == "other" {
				c.fail(c04SigCompactErr, fmt.Sprintf("CompactIndexes interleaved with commits: %v", err))
				return errors.New("stuck")
			}
			if err != nil {
				if cl := c04ErrClass(err); cl != "other" {
					c.r.Count("compact.result." + cl)
				}
			} else {
				c.r.Count("compact.result.ok")
			}
			c.op("CompactIndexes() returned %v at committed tx %d", err, c.n)
			c.checkRestartRace("after CompactIndexes() returned")
			return nil
		}
	}
}

// poll every index but `except` (whose compaction mutex is held by the running dump) up to the last committed tx
func (c *c04Case) healOthers(except int) bool {
	deadline := time.Now().Add(10 * time.Second)
	for j, d := range c.defs {
		if j == except {
			continue
		}
		for {
			ctx, cancel := context.WithTimeout(context.Background(), 500*time.Millisecond)
			snap, err := c.st.SnapshotMustIncludeTxID(ctx, d.Tgt, c.n)
			cancel()
			if err == nil {
				snap.Close()
				break
			}
			if time.Now().After(deadline) {
				c.r.Count("compact.gate.others-not-healed")
				return false
			}
			time.Sleep(time.Millisecond)
		}
	}
	return true
}

var c04DumpErrRe = regexp.MustCompile(`dumping index '([^']+)' \{ts=(\d+)\} returned: EOF$`)

// classification of a CompactIndexes() error; D4 is recognised by its cause and reported, the case goes on
func (c *c04Case) compactErrClass(err error) string {
	cl := c04ErrClass(err)
	if cl != "other" || c.hook == nil {
		return cl
	}
	m := c04DumpErrRe.FindStringSubmatch(err.Error())
	if m == nil {
		return cl
	}
	off, ok := c.hook.takeDiscard(m[1])
	if !ok {
		return cl
	}
	i := c.idxOfPath(m[1])
	c.r.OracleChecks++
	desc := fmt.Sprintf("CompactIndexes() = %q: while the snapshot of index %d (%s) at ts %s was being dumped (without the tree lock) the node log of that index received DiscardUpto(%d) from a concurrent synced flush (the indexer's BulkInsert reaching FlushThld) — Compact's snapshot is not registered in t.snapshots, so flushTree removed the chunk files the dumped root still points into and the dump's node read hit a missing file (io.EOF). The index is not restarted; the oracle goes on: content = log at the next quiescent point, later compactions must work", err.Error(), i, m[1][len(c.dir):], m[2], off)
	c.op("KNOWN %s", desc)
	c.r.Count("compact.result.dump-chunk-discarded")
	c.r.Fail(c04SigDumpDiscard, desc, c.replay(desc))
	return "dump-chunk-discarded"
}

func c04ErrClass(err error) string {
	switch {
	case errors.Is(err, tbtree.ErrCompactionThresholdNotReached):
		return "thld-not-reached"
	case errors.Is(err, tbtree.ErrTargetPathAlreadyExists), strings.Contains(err.Error(), tbtree.ErrTargetPathAlreadyExists.Error()):
		// Compact wraps the error of fullDump with %v; a second compaction at the ts of the previous dump is refused
		return "target-exists"
	}
	return "other"
}

// a writer goroutine commits `txs` while the main goroutine flushes and compacts; every dump is held `delay`
func (c *c04Case) freeCompaction(txs []c04Tx, before []uint64) ([]c04Compaction, error) {
	rng := c.rng
	delay := time.Duration(2+rng.Intn(8)) * time.Millisecond
	pace := time.Duration(100+rng.Intn(900)) * time.Microsecond
	c.hook.arm(2, false, delay)
	defer c.hook.disarm()
	var wdone int32
	var werr error
	var got []c04Tx
	var wg sync.WaitGroup
	// AsyncCommit only: Commit waits for the indexers with no deadline and never returns once an indexer is gone (D3)
	asyncs := make([]bool, len(txs))
	for i := range asyncs {
		asyncs[i] = true
	}
	wg.Add(1)
	go func() {
		defer wg.Done()
		defer atomic.StoreInt32(&wdone, 1)
		defer func() {
			if p := recover(); p != nil {
				werr = fmt.Errorf("panic in writer: %v", p)
			}
		}()
		for i, tx := range txs {
			id, err := c04Commit(c.st, tx, asyncs[i])
			if err != nil {
				werr = err
				return
			}
			tx.ID = id
			got = append(got, tx)
			time.Sleep(pace)
		}
	}()
	c.unsafeRestart = true // the indexers are busy whenever a restart happens
	c.op("writer goroutine commits %d txs (pace %v) while the main goroutine runs {FlushIndexes; CompactIndexes} with every dump held %v at hlog-sync", len(txs), pace, delay)
	var comps []c04Compaction
	var cerr error
	for round := 0; round < 8 && cerr == nil; round++ {
		if rng.Chance(60) {
			if err := c.st.FlushIndexes([]float32{0, 10, 100}[rng.Intn(3)], rng.Bool()); err != nil {
				cerr = fmt.Errorf("FlushIndexes: %w", err)
				break
			}
		}
		c.hook.mu.Lock()
		c.hook.fired = map[string]bool{}
		c.hook.dumping = map[string]bool{}
		c.hook.discards = map[string]int64{}
		c.hook.mu.Unlock()
		err := c.st.CompactIndexes()
		if err != nil && c.compactErrClass(err) == "other" {
			cerr = fmt.Errorf("CompactIndexes: %w", err)
			break
		}
		if err != nil {
			if cl := c04ErrClass(err); cl != "other" {
				c.r.Count("compact.result." + cl)
			}
		} else {
			c.r.Count("compact.result.ok")
		}
		comps = append(comps, c.collectCompactions(before)...)
		c.checkRestartRace(fmt.Sprintf("after CompactIndexes() no. %d returned, writer still running", round+1))
		if atomic.LoadInt32(&wdone) == 1 {
			break
		}
	}
	wg.Wait()
	if werr != nil {
		return nil, fmt.Errorf("writer: %w", werr)
	}
	for _, tx := range got {
		if tx.ID != c.n+1 {
			return nil, fmt.Errorf("tx ids not consecutive (%d after %d)", tx.ID, c.n)
		}
		c.n = tx.ID
		c.ref.apply(tx)
		c.emit(tx.line(), fmt.Sprintf("ok %d", len(tx.Ents)))
		c.r.Count("compact.tx")
	}
	if cerr != nil {
		c.fail(c04SigCompactErr, cerr.Error()+" (interleaved with a writer)")
		return nil, errors.New("stuck")
	}
	// how many committed txs fell into a dump window (snapshot ts of a dump < tx id <= ts when the dump ended) is
	// not observable from outside; the distance between consecutive dumps is a lower bound witness
	for _, x := range comps {
		if x.snapTs < c.n {
			c.r.Count("compact.free.dump-older-than-final-tx")
		}
	}
	return comps, nil
}

// runs one case under a watchdog: a case that hangs (a deadlock of the code under test) must not freeze the check
func c04CompactCase(r *hx.Result, rng *hx.Rng, caseNo int, thorough bool, f1 bool) bool {
	seed := rng.U64()
	done := make(chan struct{})
	go func() {
		defer close(done)
		c04CompactCaseSeed(r, seed, caseNo, thorough, f1)
	}()
	select {
	case <-done:
		return true
	case <-time.After(5 * time.Minute):
		r.Fail(c04SigCompactHung, "compaction case did not finish within 5 minutes; goroutines inside store/tbtree:\n"+c04StoreStacks(),
			c04Replay{Kind: "compact-case", Seed: seed, CaseNo: caseNo})
		return false
	}
}

// stacks of the goroutines that are inside embedded/store or embedded/tbtree (diagnosis of a stuck indexer)
func c04StoreStacks() string {
	buf := make([]byte, 1<<22)
	buf = buf[:runtime.Stack(buf, true)]
	var keep []string
	for _, g := range strings.Split(string(buf), "\n\n") {
		if strings.Contains(g, "embedded/store.") || strings.Contains(g, "embedded/tbtree.") {
			var fns []string
			for _, l := range strings.Split(g, "\n") {
				if !strings.HasPrefix(l, "\t") {
					if i := strings.LastIndex(l, "("); i > 0 && !strings.HasPrefix(l, "goroutine") {
						l = l[:i]
					}
					fns = append(fns, strings.TrimPrefix(l, "github.com/codenotary/immudb/embedded/"))
				}
			}
			if len(fns) > 14 {
				fns = fns[:14]
			}
			keep = append(keep, strings.Join(fns, " < "))
		}
	}
	if len(keep) > 16 {
		keep = keep[:16]
	}
	return strings.Join(keep, "\n")
}

// D2 fingerprint: every deviating tx of injective index i holds exactly the KVTs of the code with the previous row
// version looked up as of an OLDER tx (>= the ts of the oldest dump an index was restarted from in this case)
func (c *c04Case) explainedByRegressedSource(i int, real c04Content) (string, bool) {
	if len(c.comps) == 0 || !c.defs[i].Inj {
		return "", false
	}
	minDump := c.comps[0].snapTs
	for _, x := range c.comps {
		if x.snapTs < minDump {
			minDump = x.snapTs
		}
	}
	realTx := byTx(real)
	cont := func(j int) c04Content { return c.ref.idx[j] }
	first, n := "", 0
	for _, tx := range c.ref.log {
		got := realTx[tx.ID]
		delete(realTx, tx.ID)
		exp := c.ref.kvts(i, tx, tx.ID-1, cont)
		if sameVersions(got, exp) {
			continue
		}
		// every entry of the tx is looked up on its own while the source index re-indexes: per entry, the main KVT
		// plus the tombstone the code writes with the lookup as of SOME tx in [oldest dump, tx-1] (possibly none)
		used := make([]bool, len(got))
		take := func(kv c04KVT) bool {
			for gi, g := range got {
				if !used[gi] && g.Key == string(kv.Key) && g.Ver == kv.Ver {
					used[gi] = true
					return true
				}
			}
			return false
		}
		ok := true
		stale := uint64(0)
		for _, e := range tx.Ents {
			one := c04Tx{ID: tx.ID, Ents: []c04Ent{e}}
			base := c.ref.kvts(i, one, 0, cont) // main KVT only (no lookup)
			if len(base) == 0 {
				continue
			}
			if !take(base[0]) {
				ok = false
				break
			}
			matched, noneAllowed := false, false
			for asOf := int64(tx.ID) - 1; asOf >= int64(minDump) && asOf >= 0 && !matched; asOf-- {
				ks := c.ref.kvts(i, one, uint64(asOf), cont)
				if len(ks) == 1 {
					noneAllowed = true
					continue
				}
				if len(ks) == 2 && take(ks[1]) {
					matched = true
					if uint64(asOf) < tx.ID-1 && stale == 0 {
						stale = uint64(asOf)
					}
				}
			}
			if !matched && !noneAllowed {
				ok = false
				break
			}
		}
		for gi := range got {
			ok = ok && used[gi]
		}
		if !ok {
			return "", false
		}
		if first == "" {
			first = fmt.Sprintf("tx %d: versions %v = main KVTs + tombstones of previous row versions looked up as of older txs (e.g. tx %d); the log (lookup as of tx %d) prescribes %v", tx.ID, fmtKVs(got), stale, tx.ID-1, fmtKVTs(exp))
		}
		n++
	}
	for _, got := range realTx {
		if len(got) > 0 {
			return "", false
		}
	}
	if n == 0 {
		return "", false
	}
	d := c.defs[i]
	return fmt.Sprintf("index %d (%x), injective: %d tx(s) were indexed with a stale lookup of the previous row version in the source index, which a compaction had just restarted from an older dump (its wait hub still said done) — %s", i, d.Tgt, n, first), true
}

func c04CompactCaseSeed(r *hx.Result, seed uint64, caseNo int, thorough bool, f1 bool) {
	crng := hx.NewRng(seed)
	cfg := c04GenCfg(crng, 2) // burst-like options (short bulk preparation timeout)
	cfg.Mode = "compact-gate"
	if caseNo%3 == 2 {
		cfg.Mode = "compact-free"
	}
	// the indexer must be able to go on while a dump is held: a stalled write (MaxBufferedDataSize) makes it call
	// FlushIndexes, which waits for the compaction — explored, but rarely
	if !crng.Chance(15) {
		cfg.MaxBuffered = 1 << 20
	}
	cfg.MaxGlobalBuffered = 1 << 30
	cfg.Layout = []string{"default", "two-plain", "rows+inj", "rows+noninj+inj", "sql-like", "catalog+rows", "sub-prefix"}[(caseNo/3+crng.Intn(2)*3)%7]
	c := &c04Case{r: r, rng: crng, no: r.NextCase(), seed: seed, cfg: cfg, thorough: thorough, f1: f1}
	c.defs = c04Layout(cfg.Layout)
	c.ref = newC04Ref(c.defs)
	c.exact = false
	c.hook = newC04DumpHook()
	c.ops = []string{}
	c.kind = "compact-case"
	c.caseNo = caseNo
	c.dir = hx.TempDir("c04c")
	defer os.RemoveAll(c.dir)
	if m, ok := r.Extra["case_seeds"].(map[string]interface{}); ok {
		m[fmt.Sprint(c.no)] = map[string]interface{}{"seed": fmt.Sprint(seed), "caseNo": caseNo, "mode": cfg.Mode, "layout": cfg.Layout, "bulk": cfg.Bulk}
	}
	r.Count("compact.case." + cfg.Mode)
	r.Count("compact.cfg.layout." + cfg.Layout)
	tCase := time.Now()
	defer func() {
		if d := time.Since(tCase); d > 4*time.Second {
			sl, _ := r.Extra["slow_compact_cases"].([]string)
			last := ""
			if len(c.ops) > 0 {
				last = c.ops[len(c.ops)-1]
			}
			if len(last) > 300 {
				last = last[:300]
			}
			r.Extra["slow_compact_cases"] = append(sl, fmt.Sprintf("case %d %s/%s: %.1fs (race %q; last op: %s)", c.no, cfg.Mode, cfg.Layout, d.Seconds(), c.raceSig, last))
		}
	}()
	defer func() {
		if p := recover(); p != nil {
			c.fail("C04:panic:compact-case", fmt.Sprintf("panic: %v", p))
		}
		if c.st != nil {
			c.st.Close()
		}
		for _, l := range c.lines {
			r.Corr(l[0], l[1])
		}
	}()
	if err := c.open(); err != nil {
		c.fail("C04:harness:open", err.Error())
		return
	}
	c.emit("c04 new", "ok")
	c.emit(c04Q.line(), "ok")
	for i, d := range c.defs {
		c.emit(d.line(), fmt.Sprint(i))
	}
	g := newC04Gen(crng, cfg, c.defs)
	before := make([]uint64, len(c.defs))
	rounds := 1 + crng.Intn(3)
	if thorough {
		rounds = 2 + crng.Intn(5)
	}
	bail := func(where string, err error) {
		if err.Error() != "stuck" {
			c.fail("C04:harness:compact-case", where+": "+err.Error())
		}
	}
	for round := 0; round < rounds; round++ {
		// some history before the compaction (the first round needs one: nothing flushed = threshold not reached)
		nPre := 2 + crng.Intn(8)
		if round > 0 && crng.Chance(30) {
			nPre = 0
		}
		for j := 0; j < nPre; j++ {
			if err := c.commitOne(g.tx(), true); err != nil {
				bail("commit", err)
				return
			}
		}
		if nPre > 0 {
			c.op("txs %d..%d committed", c.n-uint64(nPre)+1, c.n)
		}
		if crng.Chance(75) {
			// a backlog at the start of the compaction is a schedule of its own: settle only most of the time
			if !c.wait() {
				return
			}
		} else if nPre > 0 {
			c.unsafeRestart = true
			c.op("(compaction starts with a backlog of up to %d txs to index)", nPre)
		}
		if crng.Chance(70) {
			cp, sy := []float32{0, 10, 50, 100}[crng.Intn(4)], crng.Bool()
			if err := c.st.FlushIndexes(cp, sy); err != nil {
				bail("FlushIndexes", err)
				return
			}
			c.op("FlushIndexes(%v, %v)", cp, sy)
		}
		for i, d := range c.defs {
			before[i] = c04MaxSnapID(c.idxPath(d))
		}
		var comps []c04Compaction
		if cfg.Mode == "compact-gate" {
			if err := c.gatedCompaction(g, crng.Chance(20)); err != nil {
				bail("gated compaction", err)
				return
			}
			comps = c.collectCompactions(before)
		} else {
			n := 12 + crng.Intn(30)
			if thorough {
				n = 30 + crng.Intn(90)
			}
			txs := make([]c04Tx, n)
			for i := range txs {
				txs[i] = g.tx()
			}
			var err error
			comps, err = c.freeCompaction(txs, before)
			if err != nil {
				bail("free compaction", err)
				return
			}
		}
		c.comps = append(c.comps, comps...)
		if len(comps) > 0 {
			r.Count("compact.round.with-restart")
		} else {
			r.Count("compact.round.without-restart")
		}
		nPost := crng.Intn(4)
		if nPost > 0 && crng.Chance(70) {
			// mostly let the restarted indexes catch up first; otherwise these commits race the transient regress
			if !c.settle() {
				return
			}
		}
		for j := 0; j < nPost; j++ {
			if err := c.commitOne(g.tx(), true); err != nil {
				bail("commit", err)
				return
			}
		}
		if nPost > 0 {
			c.op("txs %d..%d committed after the compaction", c.n-uint64(nPost)+1, c.n)
		}
		if !c.settle() {
			return
		}
		c.op("quiescent: writers stopped, compaction finished, every index polled at ts %d", c.n)
		c.emitCompactions(comps)
		c.emit("c04 index owned 1", c.okTs())
		final := round == rounds-1
		if final || crng.Chance(50) {
			if err := c.checkpoint(false); err != nil {
				bail("checkpoint", err)
				return
			}
		}
		if final || crng.Chance(30) {
			if err := c.st.Close(); err != nil {
				bail("Close", err)
				return
			}
			c.st = nil
			if err := c.open(); err != nil {
				bail("reopen", err)
				return
			}
			c.op("Close(); Open()")
			r.Count("compact.reopen")
			if !c.settle() {
				return
			}
			if err := c.checkpoint(final); err != nil {
				bail("checkpoint after reopen", err)
				return
			}
		}
	}
}

// the stage: fails (harness signature) when no dump ever reached the hook — the exploration would be vacuous
func c04CompactStage(r *hx.Result, rng *hx.Rng, thorough bool, f1 bool, deadline time.Time, n int) error {
	t0 := time.Now()
	defer func() { r.Extra["compact_stage_s"] = time.Since(t0).Seconds() }()
	c04CompactProbes(r)
	r.Extra["compact_probes_s"] = time.Since(t0).Seconds()
	for i := 0; i < n && (i < 6 || time.Now().Before(deadline)); i++ {
		if !c04CompactCase(r, rng, i, thorough, f1) {
			return nil // a hung case keeps its goroutines: stop the stage
		}
		if i%6 == 5 {
			if err := r.Flush(); err != nil {
				return err
			}
		}
	}
	if err := r.Flush(); err != nil {
		return err
	}
	if r.Distribution["compact.gate.hlog-sync"]+r.Distribution["compact.gate.nlog-read"] == 0 {
		r.Fail(c04SigCompactHook, "no dump of a compaction ever reached the hook of the appendable factory (TBtree.fullDump renamed, or dumps no longer go through hLog.Sync): the interleaved-compaction stage explored nothing", c04Replay{Kind: "compact-stage"})
	}
	for _, k := range []string{"compact.case.compact-gate", "compact.case.compact-free", "compact.window.txs-indexed-during-dump", "compact.restarted-from-dump", "compact.reopen"} {
		if r.Distribution[k] == 0 {
			r.Inconclusive = append(r.Inconclusive, "generator never produced "+k)
		}
	}
	return nil
}
