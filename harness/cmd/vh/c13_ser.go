package main

// C13 — serializability of concurrent DML transactions (added for the seeded change c13-c).
//
// The multi-session histories of c13.go run over one generated table (a secondary index in 40 % of the
// cases, UNIQUE with probability 0.3 per index), draw every statement from the general generator and judge a
// COMMIT by MERGING the session's writes into the reference (last writer wins); whenever the reference rejects
// what the engine accepted the session is marked `unknown` ("C12's business") and the reference adopts the
// engine's table.  "The committed outcome equals a serial order of the committed transactions" was evaluated on
// the DDL schedules only (c13_ddl.go).  This part evaluates it on DML histories, in C13's own terms:
//
//   - tables with a primary key (INTEGER / composite / VARCHAR), 0–2 UNIQUE indexes (single- and multi-column)
//     and non-unique indexes;
//   - 2–4 sessions with explicit BEGIN … COMMIT / ROLLBACK, scheduled deterministically from the seed: lock-step
//     rounds (all BEGINs, the statements interleaved, then the COMMITs in random order: every read precedes the
//     first COMMIT) and free interleavings;
//   - every transaction is "reads, then writes": reads are point SELECTs by key, ranges over the key, equality /
//     ranges through a secondary index (USE INDEX), COUNT(*) and COUNT(*) … WHERE EXISTS (subquery); writes are
//     addressed by primary key (INSERT 1–2 rows, INSERT … ON CONFLICT DO NOTHING, UPSERT, UPDATE, DELETE);
//   - overlapping transactions are biased to conflict in every way the MVCC validation has to detect: the same
//     primary key; the same UNIQUE tuple under different keys; a read (of each kind) of rows / keys / index
//     values ANOTHER OPEN session writes; write skew (two sessions read the same two rows and each updates one).
//
// ORACLE (model independent): the transactions whose COMMIT the engine acknowledged are replayed, in commit
// order, on the Go reference table (`refTable`): every statement result recorded inside the transaction — the
// rows / count a SELECT returned, the affected rows of a write — must equal the reference's result at the
// transaction's position in the commit order, every write must be valid there, and the committed table (read
// through the primary key and through every index by a fresh reader) must equal the reference after every
// COMMIT: `C13:commit:not-serializable-in-commit-order:<what differs>`.  A transaction without effective
// writes commits without MVCC validation and is serialised at its snapshot: it must leave the table unchanged.
// A COMMIT that fails (read conflict / duplicate key) and a ROLLBACK leave no trace; the engine may refuse more
// than it must (a refused transaction simply is not part of the history).
//
// Known root causes are kept out by construction, as in C12's race mode: a transaction never writes a row, a
// secondary-index tuple or a tuple it vacated twice (R1, R4), reads only before its first write (R1 and the C05
// findings about reads answered by own writes), no AUTO_INCREMENT keys (R9; c13.go / c13_ddl.go drive those), no
// savepoints (K1, R6*).  R2 (a deleted entry under a UNIQUE tuple hides a live one) is attributed by its exact
// condition (`tomb`: the tuple had a committed entry that was deleted or changed) and the generator does not
// choose such tuples.
//
// Lean tie: the cases WITHOUT reads are exactly the statement fragment of ImmuModel/Sql/Sessions.lean (namespace
// Mv); they are sent to the driver ops `c12 mv …`: statement outcomes, COMMIT decisions (ok / err:read-conflict)
// and the committed rows after every COMMIT.

import (
	"fmt"
	"os"
	"strconv"
	"strings"

	"github.com/codenotary/immudb/embedded/sql"

	"verif/harness/internal/hx"
)

type c13sWrite struct {
	ixn   int
	tuple []c15Val
	key   string // ixn|vals
	pk    string
}

type c13sRead struct {
	kind  string // point pk-range index-eq index-range count count-all exists
	pred  *pexp  // nil: every row
	count bool   // one row holding the number of matching rows
	exist bool   // COUNT(*) … WHERE EXISTS (SELECT … WHERE pred): every row, if a matching row exists
	q     sqlText
}

type c13sOp struct {
	d   *dml
	rd  *c13sRead
	txt string
	upd int    // affected rows the engine reported inside the transaction
	got string // canonical result of the read inside the transaction
}

type c13sSess struct {
	tx       *sql.SQLTx
	ops      []c13sOp
	began    int // number of acknowledged commits at BEGIN
	pks      map[string]bool
	tuples   map[string]bool // secondary-index tuples written or vacated by the open transaction
	snap     *refTable       // the committed reference at the transaction's first statement
	writes   []c13sWrite
	rowsW    [][]c15Val // images of the rows written (what other sessions aim their reads at)
	pksW     [][]c15Val // keys written or deleted
	readRows [][]c15Val // committed rows read by key (write-skew candidates)
	aims     [][]c15Val // the row images the reads were aimed at (what other sessions' writes aim at)
	nReads   int        // reads the transaction wants to issue before its first write
	nWrites  int
	openUpd  int
	wrote    bool
}

type c13sCommit struct {
	n, began, sess int
	writes         []c13sWrite
	pks            map[string]bool
	rows           [][]c15Val
}

type c13sCase struct {
	r       *hx.Result
	rng     *hx.Rng
	env     *sqlEnv
	sc      *sqlSchema
	ref     *refTable
	script  []string
	tomb    map[string]bool
	broken  bool
	nextPK  int64
	nextU   int64
	sess    []*c13sSess
	commits []c13sCommit
	nCommit int
	uniq    []int
	payload []int
	reads   bool // the case issues SELECTs (outside the Lean fragment)
	// episodes: forced choices of the generators
	forceKind   string
	forceAim    []c15Val
	forceTarget []c15Val
	forceK      int // branch of genWrite (0 = none)
	corr        bool
}

func (c *c13sCase) log(s string) { c.script = append(c.script, s) }

func (c *c13sCase) replay(detail string) c11Replay {
	sc := c.script
	if len(sc) > 160 {
		sc = append(append([]string{}, sc[:20]...), append([]string{fmt.Sprintf("… (%d lines omitted; rerun with the seed)", len(sc)-120)}, sc[len(sc)-100:]...)...)
	}
	return c11Replay{Script: append([]string{}, sc...), Detail: detail}
}

func (c *c13sCase) fail(sig, desc string) { c.r.Fail(sig, desc, c.replay(desc)) }

func (c *c13sCase) logStmt(si int, q sqlText, err string) {
	st := "ok"
	if err != "" {
		st = "ERR " + err
	}
	c.log(fmt.Sprintf("[s%d] %s   => %s", si, q.String(), st))
}

// ---------------------------------------------------------------- schema

func c13sSchema(rng *hx.Rng) *sqlSchema {
	sc := &sqlSchema{Name: "t"}
	col := func(name string, ty sql.SQLValueType, ml int, nn bool) sqlCol {
		return sqlCol{Name: name, Ty: ty, MaxLen: ml, NotNull: nn}
	}
	switch k := rng.Intn(8); {
	case k < 5:
		sc.Cols = append(sc.Cols, col("id", sql.IntegerType, 0, rng.Bool()))
		sc.PK = []int{0}
	case k < 7:
		sc.Cols = append(sc.Cols, col("k1", sql.IntegerType, 0, false), col("k2", sql.VarcharType, 3, rng.Bool()))
		sc.PK = []int{0, 1}
	default:
		sc.Cols = append(sc.Cols, col("id", sql.VarcharType, 8, false))
		sc.PK = []int{0}
	}
	base := len(sc.Cols)
	ty := func() (sql.SQLValueType, int) {
		if rng.Intn(5) < 3 {
			return sql.IntegerType, 0
		}
		return sql.VarcharType, []int{4, 6, 10}[rng.Intn(3)]
	}
	for _, n := range []string{"u", "v", "w"} {
		t, ml := ty()
		sc.Cols = append(sc.Cols, col(n, t, ml, rng.Intn(100) < 40))
	}
	sc.Cols = append(sc.Cols, col("n", sql.VarcharType, 12, rng.Intn(100) < 30))
	u, v, w, n := base, base+1, base+2, base+3
	switch rng.Intn(10) {
	case 0:
		sc.Idx = []sqlIdx{{Cols: []int{u}, Unique: true}}
	case 1:
		sc.Idx = []sqlIdx{{Cols: []int{v, w}, Unique: true}}
	case 2:
		sc.Idx = []sqlIdx{{Cols: []int{u}, Unique: true}, {Cols: []int{v, w}, Unique: true}}
	case 3:
		sc.Idx = []sqlIdx{{Cols: []int{u}, Unique: true}, {Cols: []int{w}}}
	case 4:
		sc.Idx = []sqlIdx{{Cols: []int{u, v}, Unique: true}, {Cols: []int{w}, Unique: true}}
	case 5:
		sc.Idx = []sqlIdx{{Cols: []int{w, v, u}, Unique: true}}
	case 6:
		sc.Idx = []sqlIdx{{Cols: []int{n}}, {Cols: []int{u}, Unique: true}}
	case 7:
		sc.Idx = []sqlIdx{{Cols: []int{v}, Unique: true}, {Cols: []int{u}, Unique: true}, {Cols: []int{w, n}}}
	case 8:
		sc.Idx = []sqlIdx{{Cols: []int{w}}} // no UNIQUE index at all
	default:
		sc.Idx = []sqlIdx{{Cols: []int{u, w}}, {Cols: []int{v}, Unique: true}}
	}
	return sc
}

func (c *c13sCase) setup() bool {
	r := c.r
	env, err := sqlOpenEnv("c13s")
	if err != nil {
		r.Inconclusive = append(r.Inconclusive, "cannot open store: "+err.Error())
		return false
	}
	c.env = env
	c.sc = c13sSchema(c.rng)
	c.ref = &refTable{sc: c.sc}
	c.tomb = map[string]bool{}
	stmts := []string{c.sc.createTable("t")}
	for _, ix := range c.sc.Idx {
		stmts = append(stmts, c.sc.createIndex("t", ix))
	}
	for _, q := range stmts {
		res := sqlExec(env.eng, nil, sqlPlain(q))
		c.logStmt(0, sqlPlain(q), res.Err)
		if res.Err != "" {
			r.Count("ser.setup.err." + res.Err)
			r.Notes = append(r.Notes, "C13 serial-order schedules: setup failed: "+c.script[len(c.script)-1])
			env.close()
			return false
		}
	}
	c.nextPK, c.nextU = int64(1+c.rng.Intn(5)), int64(10+c.rng.Intn(50))
	inUnique := map[int]bool{}
	nu, multi, nn := 0, 0, 0
	for ixn, ix := range c.sc.Idx {
		if !ix.Unique {
			nn++
			continue
		}
		c.uniq = append(c.uniq, ixn)
		nu++
		if len(ix.Cols) > 1 {
			multi++
		}
		for _, ci := range ix.Cols {
			inUnique[ci] = true
		}
	}
	for ci := range c.sc.Cols {
		if !c.sc.isPK(ci) && !inUnique[ci] {
			c.payload = append(c.payload, ci)
		}
	}
	r.Count(fmt.Sprintf("ser.schema.pk%d.unique%d.multicol%d.nonunique%d", len(c.sc.PK), nu, multi, nn))
	return true
}

// ---------------------------------------------------------------- values

func (c *c13sCase) freshVal(col sqlCol) c15Val {
	c.nextU++
	if col.Ty == sql.IntegerType {
		return c15Val{ty: col.Ty, i: c.nextU}
	}
	return c15Val{ty: col.Ty, s: strconv.FormatInt(c.nextU, 36)}
}

func (c *c13sCase) freshTuple(ixn int) []c15Val {
	ix := c.sc.Idx[ixn]
	out := make([]c15Val, len(ix.Cols))
	f := c.rng.Intn(len(ix.Cols))
	for i, ci := range ix.Cols {
		if i == f {
			out[i] = c.freshVal(c.sc.Cols[ci])
		} else {
			out[i] = c12SmallVal(c.rng, c.sc.Cols[ci])
		}
	}
	return out
}

// the tuple a session writes into unique index ixn: what another OPEN session (or a transaction that committed
// after this one began) has written under a different key, what a committed row holds, NULL, or a fresh one
func (c *c13sCase) pickTuple(s *c13sSess, ixn int) []c15Val {
	rng := c.rng
	ix := c.sc.Idx[ixn]
	var hot, live [][]c15Val
	for _, o := range c.sess {
		if o == s || o.tx == nil {
			continue
		}
		for _, w := range o.writes {
			if w.ixn == ixn && !s.tuples[w.key] && !c.tomb[w.key] {
				hot = append(hot, w.tuple)
			}
		}
	}
	for i := len(c.commits) - 1; i >= 0 && c.commits[i].n > s.began; i-- {
		for _, w := range c.commits[i].writes {
			if w.ixn == ixn && !s.tuples[w.key] && !c.tomb[w.key] {
				hot = append(hot, w.tuple)
			}
		}
	}
	for _, row := range c.ref.rows {
		t := c12Tuple(row, ix.Cols)
		k := c12Key(ixn, t)
		if !s.tuples[k] && !c.tomb[k] {
			live = append(live, t)
		}
	}
	switch k := rng.Intn(100); {
	case k < 50:
		if len(hot) > 0 {
			c.r.Count("ser.tuple.hot")
			return hot[rng.Intn(len(hot))]
		}
	case k < 58 && len(live) > 0:
		c.r.Count("ser.tuple.committed")
		return live[rng.Intn(len(live))]
	case k < 62 && len(ix.Cols) == 1 && !c.sc.Cols[ix.Cols[0]].NotNull && !s.tuples[c12Key(ixn, []c15Val{sqlNull(c.sc.Cols[ix.Cols[0]].Ty)})] && !c.tomb[c12Key(ixn, []c15Val{sqlNull(c.sc.Cols[ix.Cols[0]].Ty)})]:
		c.r.Count("ser.tuple.null")
		return []c15Val{sqlNull(c.sc.Cols[ix.Cols[0]].Ty)}
	}
	c.r.Count("ser.tuple.fresh")
	return c.freshTuple(ixn)
}

func (c *c13sCase) freshPK() []c15Val {
	c.nextPK++
	out := make([]c15Val, len(c.sc.PK))
	for i, ci := range c.sc.PK {
		col := c.sc.Cols[ci]
		switch {
		case col.Ty == sql.IntegerType && i == 0:
			out[i] = c15Val{ty: col.Ty, i: c.nextPK}
		case col.Ty == sql.IntegerType:
			out[i] = c15Val{ty: col.Ty, i: int64(c.rng.Intn(2))}
		case i == 0:
			out[i] = c15Val{ty: col.Ty, s: "k" + strconv.FormatInt(c.nextPK, 36)}
		default:
			out[i] = c15Val{ty: col.Ty, s: []string{"x", "y"}[c.rng.Intn(2)]}
		}
	}
	return out
}

func (c *c13sCase) pkWhere(pk []c15Val) *pexp {
	var p *pexp
	for i, ci := range c.sc.PK {
		a := &pexp{K: "cmp", Col: ci, Op: "=", V: pk[i]}
		if p == nil {
			p = a
		} else {
			p = &pexp{K: "and", L: p, R: a}
		}
	}
	return p
}

// a committed row the session may write: not touched by it, none of its index tuples touched by it. Preference:
// a row the session READ (write skew: read two rows, update one), a row another open session read or wrote.
func (c *c13sCase) target(s *c13sSess) []c15Val {
	var free, own, contended [][]c15Val
	if c.forceTarget != nil {
		return c.forceTarget
	}
	for _, row := range c.ref.rows {
		pk := sqlRowTok(c.ref.pkOf(row))
		if s.pks[pk] {
			continue
		}
		if s.snap != nil {
			// the version the transaction reads is the one of its snapshot: it must be the committed one, else the tuples
			// the statement vacates are not the ones booked here
			at := s.snap.find(c.ref.pkOf(row))
			if at < 0 || sqlRowTok(s.snap.rows[at]) != sqlRowTok(row) {
				continue
			}
		}
		clash := false
		for ixn, ix := range c.sc.Idx {
			if s.tuples[c12Key(ixn, c12Tuple(row, ix.Cols))] {
				clash = true
			}
		}
		if clash {
			continue
		}
		mine, busy := false, false
		for _, rr := range s.readRows {
			if sqlRowTok(c.ref.pkOf(rr)) == pk {
				mine = true
			}
		}
		for _, o := range c.sess {
			if o == s || o.tx == nil {
				continue
			}
			if o.pks[pk] {
				busy = true
			}
			for _, rr := range o.readRows {
				if sqlRowTok(c.ref.pkOf(rr)) == pk {
					busy = true
				}
			}
			for _, op := range o.ops {
				if op.rd != nil && op.rd.pred != nil {
					if v, n, e := op.rd.pred.eval(c.sc, row); e == "" && !n && v {
						busy = true
					}
				}
			}
		}
		switch {
		case mine:
			own = append(own, row)
		case busy:
			contended = append(contended, row)
		default:
			free = append(free, row)
		}
	}
	k := c.rng.Intn(10)
	switch {
	case len(own) > 0 && k < 6:
		c.r.Count("ser.target.row-read-by-this-transaction")
		return own[c.rng.Intn(len(own))]
	case len(contended) > 0 && (k < 8 || len(free) == 0):
		c.r.Count("ser.target.row-read-or-written-by-open-session")
		return contended[c.rng.Intn(len(contended))]
	case len(free) > 0:
		return free[c.rng.Intn(len(free))]
	case len(own) > 0:
		return own[c.rng.Intn(len(own))]
	}
	return nil
}

// ---------------------------------------------------------------- reads

func (r *c13sRead) eval(t *refTable) string {
	var rows [][]c15Val
	for _, row := range t.rows {
		if r.pred != nil {
			if v, n, e := r.pred.eval(t.sc, row); e != "" || n || !v {
				continue
			}
		}
		rows = append(rows, row)
	}
	switch {
	case r.exist:
		n := 0
		if len(rows) > 0 {
			n = len(t.rows)
		}
		return sqlQRes{Rows: [][]c15Val{{{ty: sql.IntegerType, i: int64(n)}}}}.bag()
	case r.count:
		return sqlQRes{Rows: [][]c15Val{{{ty: sql.IntegerType, i: int64(len(rows))}}}}.bag()
	}
	return sqlQRes{Rows: rows}.bag()
}

func c13sAnd(ps ...*pexp) *pexp {
	var p *pexp
	for _, a := range ps {
		if a == nil {
			continue
		}
		if p == nil {
			p = a
		} else {
			p = &pexp{K: "and", L: p, R: a}
		}
	}
	return p
}

// lo <= col <= hi around v (INTEGER: v-1 … v+1; else the value itself)
func c13sAround(col int, v c15Val) *pexp {
	if v.ty == sql.IntegerType {
		lo, hi := v, v
		lo.i, hi.i = v.i-1, v.i+1
		return c13sAnd(&pexp{K: "cmp", Col: col, Op: ">=", V: lo}, &pexp{K: "cmp", Col: col, Op: "<=", V: hi})
	}
	return c13sAnd(&pexp{K: "cmp", Col: col, Op: ">=", V: v}, &pexp{K: "cmp", Col: col, Op: "<=", V: v})
}

// one SELECT for the open transaction, aimed at what other sessions write
func (c *c13sCase) genRead(s *c13sSess) *c13sRead {
	rng, sc := c.rng, c.sc
	// rows / keys written by other open sessions and by transactions that committed after this one began
	var hotRows, hotPKs, skew [][]c15Val
	var aimed []c15Val
	for _, o := range c.sess {
		if o == s || o.tx == nil {
			continue
		}
		hotRows = append(hotRows, o.rowsW...)
		hotPKs = append(hotPKs, o.pksW...)
		skew = append(skew, o.readRows...)
	}
	for i := len(c.commits) - 1; i >= 0 && c.commits[i].n > s.began; i-- {
		hotRows = append(hotRows, c.commits[i].rows...)
	}
	pick := func() (out []c15Val) { // a full row image to aim at
		defer func() { aimed = out }()
		if c.forceAim != nil {
			return c.forceAim
		}
		k := rng.Intn(10)
		switch {
		case len(hotRows) > 0 && k < 6:
			c.r.Count("ser.read.aim.row-written-by-open-or-overlapping-transaction")
			return hotRows[rng.Intn(len(hotRows))]
		case len(c.ref.rows) > 0 && k < 8:
			c.r.Count("ser.read.aim.committed-row")
			return c.ref.rows[rng.Intn(len(c.ref.rows))]
		}
		c.r.Count("ser.read.aim.fresh")
		row := make([]c15Val, len(sc.Cols))
		for ci, col := range sc.Cols {
			row[ci] = c12SmallVal(rng, sqlCol{Ty: col.Ty, NotNull: true})
		}
		for i, v := range c.freshPK() {
			row[sc.PK[i]] = v
		}
		return row
	}
	rd := &c13sRead{}
	sel := "SELECT * FROM t"
	alias := ""
	idxPred := func(eq bool) (*pexp, string) {
		if len(sc.Idx) == 0 {
			return nil, ""
		}
		ix := sc.Idx[rng.Intn(len(sc.Idx))]
		row := pick()
		var ps []*pexp
		for i, ci := range ix.Cols {
			if row[ci].null {
				break
			}
			if !eq && i == 0 {
				ps = append(ps, c13sAround(ci, row[ci]))
				break
			}
			ps = append(ps, &pexp{K: "cmp", Col: ci, Op: "=", V: row[ci]})
			if rng.Intn(3) == 0 {
				break // a prefix of the index columns
			}
		}
		if len(ps) == 0 {
			return nil, ""
		}
		return c13sAnd(ps...), " USE INDEX ON (" + sc.colNames(ix.Cols) + ")"
	}
	hint := ""
	if c.forceAim != nil {
		hotPKs, skew = nil, nil
	}
	kind := "exists"
	switch k := rng.Intn(100); {
	case k < 30:
		kind = "point"
	case k < 45:
		kind = "pk-range"
	case k < 60:
		kind = "index-eq"
	case k < 70:
		kind = "index-range"
	case k < 85:
		kind = "count"
	}
	if c.forceKind != "" {
		kind = c.forceKind
	}
	switch kind {
	case "point":
		rd.kind = "point"
		var pk []c15Val
		kk := rng.Intn(10)
		switch {
		case len(skew) > 0 && kk < 3:
			pk = c.ref.pkOf(skew[rng.Intn(len(skew))])
		case len(hotPKs) > 0 && kk < 7:
			pk = hotPKs[rng.Intn(len(hotPKs))]
		default:
			pk = c.ref.pkOf(pick())
		}
		rd.pred = c.pkWhere(pk)
	case "pk-range":
		rd.kind = "pk-range"
		var pk []c15Val
		if len(hotPKs) > 0 && rng.Intn(3) > 0 {
			pk = hotPKs[rng.Intn(len(hotPKs))]
		} else {
			pk = c.ref.pkOf(pick())
		}
		rd.pred = c13sAround(sc.PK[0], pk[0])
	case "index-eq":
		rd.kind = "index-eq"
		rd.pred, hint = idxPred(true)
	case "index-range":
		rd.kind = "index-range"
		rd.pred, hint = idxPred(false)
	case "count", "count-all":
		rd.kind, rd.count = "count", true
		sel = "SELECT COUNT(*) FROM t"
		sub := rng.Intn(4)
		if kind == "count-all" {
			sub = 0
		} else if c.forceKind != "" {
			sub = 1 + rng.Intn(3)
		}
		switch sub {
		case 0:
			rd.kind = "count-all"
		case 1:
			rd.pred = c13sAround(sc.PK[0], c.ref.pkOf(pick())[0])
		default:
			rd.pred, hint = idxPred(rng.Bool())
		}
	default:
		rd.kind, rd.exist = "exists", true
		alias = "o"
		if rng.Bool() {
			rd.pred, _ = idxPred(true)
		}
		if rd.pred == nil {
			rd.pred = c.pkWhere(c.ref.pkOf(pick()))
		}
	}
	if rd.pred == nil && rd.kind != "count-all" {
		rd.kind = "point"
		rd.pred = c.pkWhere(c.ref.pkOf(pick()))
		hint = ""
	}
	// (parameters are not passed into an EXISTS subquery — `ExistsBoolExp.substitute` returns the expression as it is, the
	// subquery then fails with "missing parameter": observation `c13sProbeExistsParams` — so these are rendered with literals)
	ps := &sqlParams{noParams: rd.exist}
	prng := hx.NewRng(rng.U64())
	q := sel + hint
	switch {
	case rd.exist:
		q = "SELECT COUNT(*) FROM t WHERE EXISTS (SELECT * FROM t AS " + alias + " WHERE " + rd.pred.render(sc, alias, ps, prng) + ")"
	case rd.pred != nil:
		q += " WHERE " + rd.pred.render(sc, "", ps, prng)
	}
	rd.q = ps.text(q)
	if aimed != nil {
		s.aims = append(s.aims, aimed)
	}
	return rd
}

// ---------------------------------------------------------------- writes

// one write for the session's open transaction (never a row / index tuple of the same transaction twice)
func (c *c13sCase) genWrite(s *c13sSess) *dml {
	rng, sc := c.rng, c.sc
	payload := func(row []c15Val) {
		for _, ci := range c.payload {
			col := sc.Cols[ci]
			if !col.NotNull && rng.Intn(4) == 0 {
				row[ci] = sqlNull(col.Ty)
			} else {
				row[ci] = c12SmallVal(rng, sqlCol{Ty: col.Ty, NotNull: true})
			}
		}
	}
	fill := func(row []c15Val, only int) {
		for _, ixn := range c.uniq {
			if only >= 0 && ixn != only {
				continue
			}
			t := c.pickTuple(s, ixn)
			for i, ci := range sc.Idx[ixn].Cols {
				row[ci] = t[i]
			}
		}
	}
	// what the reads of the other open sessions were aimed at: a new row with these values (phantom for an equality / range /
	// COUNT / EXISTS read), a new row with this key (phantom for a point read)
	var aims [][]c15Val
	for _, o := range c.sess {
		if o != s && o.tx != nil {
			aims = append(aims, o.aims...)
		}
	}
	newRow := func(pk []c15Val) []c15Val {
		row := make([]c15Val, len(sc.Cols))
		for ci := range row {
			row[ci] = sqlNull(sc.Cols[ci].Ty)
		}
		for i, ci := range sc.PK {
			row[ci] = pk[i]
		}
		payload(row)
		fill(row, -1)
		if len(aims) > 0 && rng.Intn(2) == 0 {
			a := aims[rng.Intn(len(aims))]
			c.r.Count("ser.write.aim.values-read-by-open-session")
			keepU := rng.Intn(3) == 0 // keep the unique tuples chosen above
			for ci := range row {
				if sc.isPK(ci) || (keepU && !c.isPayload(ci)) || (a[ci].null && sc.Cols[ci].NotNull) {
					continue
				}
				row[ci] = a[ci]
			}
			// not a tuple with a deleted entry (R2 territory)
			for _, ixn := range c.uniq {
				if c.tomb[c12Key(ixn, c12Tuple(row, sc.Idx[ixn].Cols))] {
					for i, v := range c.freshTuple(ixn) {
						if !v.null || !sc.Cols[sc.Idx[ixn].Cols[i]].NotNull {
							row[sc.Idx[ixn].Cols[i]] = v
						}
					}
				}
			}
		}
		c.fixNonUnique(s, row)
		return row
	}
	insertOf := func(kind string, rows ...[]c15Val) *dml {
		d := &dml{K: kind}
		for ci := range sc.Cols {
			d.Cols = append(d.Cols, ci)
		}
		for _, row := range rows {
			d.Rows = append(d.Rows, c12Tuple(row, d.Cols))
		}
		return d
	}
	pkFor := func() []c15Val {
		// the key a read of another open session was aimed at (phantom for a point / key-range read)
		if len(aims) > 0 && rng.Intn(4) == 0 {
			pk := c.ref.pkOf(aims[rng.Intn(len(aims))])
			if !s.pks[sqlRowTok(pk)] && c.ref.find(pk) < 0 && (s.snap == nil || s.snap.find(pk) < 0) {
				c.r.Count("ser.pk.read-by-open-session")
				return pk
			}
		}
		// the key another open session inserts (primary key race), else a fresh one
		if rng.Intn(6) == 0 {
			for _, o := range c.sess {
				if o != s && o.tx != nil {
					for _, pk := range o.pksW {
						if !s.pks[sqlRowTok(pk)] && c.ref.find(pk) < 0 && (s.snap == nil || s.snap.find(pk) < 0) {
							c.r.Count("ser.pk.same-as-open-session")
							return pk
						}
					}
				}
			}
		}
		return c.freshPK()
	}
	k := rng.Intn(100)
	if len(c.ref.rows) == 0 && k >= 40 && k < 88 {
		k = 0
	}
	if len(s.readRows) > 0 && rng.Intn(2) == 0 {
		k = 50 // write skew / read-modify-write: update a row the transaction read
	}
	if c.forceK > 0 {
		k = c.forceK
	}
	switch {
	case k < 34:
		return insertOf("insert", newRow(pkFor()))
	case k < 40:
		a := newRow(pkFor())
		s.noteRow(c, a, nil)
		b := newRow(pkFor())
		if sqlRowTok(c.ref.pkOf(a)) == sqlRowTok(c.ref.pkOf(b)) {
			return insertOf("insert", a)
		}
		return insertOf("insert", a, b)
	case k < 72:
		old := c.target(s)
		if old == nil {
			return insertOf("insert", newRow(pkFor()))
		}
		d := &dml{K: "update", Where: c.pkWhere(c.ref.pkOf(old))}
		row := append([]c15Val(nil), old...)
		if len(c.payload) > 0 && (len(c.uniq) == 0 || rng.Intn(3) == 0) {
			ci := c.payload[rng.Intn(len(c.payload))]
			row[ci] = c12SmallVal(rng, sqlCol{Ty: sc.Cols[ci].Ty, NotNull: true})
			if row[ci].tok() == old[ci].tok() {
				row[ci] = c.freshVal(sc.Cols[ci])
			}
			c.fixNonUnique(s, row)
			for _, pc := range c.payload {
				if pc == ci || row[pc].tok() != old[pc].tok() {
					d.Set = append(d.Set, dmlSet{Col: pc, V: row[pc]})
				}
			}
			return d
		}
		if len(c.uniq) == 0 {
			return insertOf("insert", newRow(pkFor()))
		}
		ixn := c.uniq[rng.Intn(len(c.uniq))]
		fill(row, ixn)
		c.fixNonUnique(s, row)
		for ci := range sc.Cols {
			if row[ci].tok() != old[ci].tok() {
				d.Set = append(d.Set, dmlSet{Col: ci, V: row[ci]})
			}
		}
		if len(d.Set) == 0 {
			for _, ci := range sc.Idx[ixn].Cols {
				d.Set = append(d.Set, dmlSet{Col: ci, V: row[ci]})
			}
		}
		return d
	case k < 82:
		if old := c.target(s); old != nil && rng.Intn(3) != 0 {
			row := newRow(c.ref.pkOf(old))
			if rng.Bool() && len(c.uniq) > 1 {
				keep := c.uniq[rng.Intn(len(c.uniq))]
				for _, ci := range sc.Idx[keep].Cols {
					row[ci] = old[ci]
				}
			}
			return insertOf("upsert", row)
		}
		return insertOf("upsert", newRow(pkFor()))
	case k < 88:
		if old := c.target(s); old != nil {
			return &dml{K: "delete", Where: c.pkWhere(c.ref.pkOf(old))}
		}
		return insertOf("insert", newRow(pkFor()))
	default:
		if old := c.target(s); old != nil && rng.Intn(3) == 0 {
			return insertOf("insert-ocn", newRow(c.ref.pkOf(old)))
		}
		return insertOf("insert-ocn", newRow(pkFor()))
	}
}

func (c *c13sCase) isPayload(ci int) bool {
	for _, p := range c.payload {
		if p == ci {
			return true
		}
	}
	return false
}

func (s *c13sSess) init() {
	if s.pks == nil {
		s.pks, s.tuples = map[string]bool{}, map[string]bool{}
	}
}

// what the open transaction has written so far (keys and index tuples, incl. the vacated ones)
func (s *c13sSess) noteRow(c *c13sCase, row, old []c15Val) {
	s.init()
	pk := sqlRowTok(c.ref.pkOf(row))
	s.pks[pk] = true
	for ixn, ix := range c.sc.Idx {
		t := c12Tuple(row, ix.Cols)
		k := c12Key(ixn, t)
		if old != nil {
			ok := c12Key(ixn, c12Tuple(old, ix.Cols))
			s.tuples[ok] = true
			if ok == k {
				continue
			}
		}
		s.tuples[k] = true
		if ix.Unique {
			s.writes = append(s.writes, c13sWrite{ixn: ixn, tuple: t, key: k, pk: pk})
		}
	}
}

func (s *c13sSess) noteVacated(c *c13sCase, old []c15Val) {
	s.init()
	for ixn, ix := range c.sc.Idx {
		s.tuples[c12Key(ixn, c12Tuple(old, ix.Cols))] = true
	}
}

// the transient entries of an open transaction are keyed by the index values alone (finding R1), for NON-unique
// indexes too: no two writes of one transaction may share the tuple of any secondary index
func (c *c13sCase) fixNonUnique(s *c13sSess, row []c15Val) {
	for ixn, ix := range c.sc.Idx {
		if ix.Unique {
			continue
		}
		for try := 0; try < 4 && s.tuples[c12Key(ixn, c12Tuple(row, ix.Cols))]; try++ {
			ci := ix.Cols[c.rng.Intn(len(ix.Cols))]
			if c.sc.isPK(ci) {
				break
			}
			row[ci] = c.freshVal(c.sc.Cols[ci])
		}
	}
}

// does the statement keep the generator's promise (no row, no index tuple of the transaction twice)?
func (c *c13sCase) promiseKept(s *c13sSess, d *dml) bool {
	sc := c.sc
	seenPK, seenT := map[string]bool{}, map[string]bool{}
	check := func(row, old []c15Val) bool {
		pk := sqlRowTok(c.ref.pkOf(row))
		if s.pks[pk] || seenPK[pk] {
			return false
		}
		seenPK[pk] = true
		for ixn, ix := range sc.Idx {
			k := c12Key(ixn, c12Tuple(row, ix.Cols))
			if old != nil && c12Key(ixn, c12Tuple(old, ix.Cols)) == k {
				continue
			}
			if s.tuples[k] || seenT[k] {
				return false
			}
			seenT[k] = true
		}
		return true
	}
	switch d.K {
	case "insert", "upsert", "insert-ocn":
		for _, vals := range d.Rows {
			row := make([]c15Val, len(sc.Cols))
			for i, ci := range d.Cols {
				row[ci] = vals[i]
			}
			var old []c15Val
			if s.snap != nil {
				if at := s.snap.find(s.snap.pkOf(row)); at >= 0 {
					old = s.snap.rows[at]
				}
			}
			if !check(row, old) {
				return false
			}
		}
	}
	return true
}

func (s *c13sSess) note(c *c13sCase, d *dml) {
	sc := c.sc
	s.init()
	switch d.K {
	case "insert", "upsert", "insert-ocn":
		for _, vals := range d.Rows {
			row := make([]c15Val, len(sc.Cols))
			for i, ci := range d.Cols {
				row[ci] = vals[i]
			}
			var old []c15Val
			if at := s.snap.find(s.snap.pkOf(row)); at >= 0 {
				old = s.snap.rows[at]
			}
			s.pksW = append(s.pksW, c.ref.pkOf(row))
			if d.K == "insert-ocn" && old != nil {
				s.pks[sqlRowTok(c.ref.pkOf(row))] = true
				continue // the row is skipped
			}
			s.noteRow(c, row, old)
			s.rowsW = append(s.rowsW, row)
			if old != nil {
				s.noteVacated(c, old)
			}
		}
	case "update", "delete":
		// the version of the row the transaction READ is the one of its snapshot
		for _, old := range s.snap.rows {
			if v, n, e := d.Where.eval(sc, old); e != "" || n || !v {
				continue
			}
			s.pksW = append(s.pksW, c.ref.pkOf(old))
			s.noteVacated(c, old)
			if d.K == "delete" {
				s.pks[sqlRowTok(c.ref.pkOf(old))] = true
				continue
			}
			row := append([]c15Val(nil), old...)
			for _, st := range d.Set {
				row[st.Col] = st.V
			}
			s.noteRow(c, row, old)
			s.rowsW = append(s.rowsW, row)
		}
	}
}

// ---------------------------------------------------------------- session operations

func (c *c13sCase) begin(si int) {
	s := c.sess[si]
	q := sqlPlain("BEGIN TRANSACTION")
	res := sqlExec(c.env.eng, nil, q)
	c.logStmt(si, q, res.Err)
	if res.Err != "" || res.Tx == nil {
		c.r.Count("ser.begin.err." + res.Err)
		return
	}
	*s = c13sSess{tx: res.Tx, began: c.nCommit, nWrites: 1}
	s.init()
	switch k := c.rng.Intn(10); {
	case k >= 9:
		s.nWrites = 3
	case k >= 6:
		s.nWrites = 2
	}
	if c.reads {
		s.nReads = []int{0, 1, 1, 2, 2, 3}[c.rng.Intn(6)]
		if c.rng.Intn(12) == 0 {
			s.nWrites = 0 // a reader
			if s.nReads == 0 {
				s.nReads = 1
			}
		}
	}
	c.r.Count("ser.begin")
	if c.corr {
		c.r.Corr(fmt.Sprintf("c12 mv begin %d", si), "ok")
	}
}

func (s *c13sSess) done() bool {
	nr, nw := 0, 0
	for _, op := range s.ops {
		if op.rd != nil {
			nr++
		} else {
			nw++
		}
	}
	return nr >= s.nReads && nw >= s.nWrites
}

func (c *c13sCase) abort(si int) {
	s := c.sess[si]
	if s.tx != nil {
		s.tx.Cancel()
	}
	s.tx = nil
}

func (c *c13sCase) stmt(si int) {
	s := c.sess[si]
	if s.snap == nil {
		s.snap = c.ref.clone()
	}
	nr := 0
	for _, op := range s.ops {
		if op.rd != nil {
			nr++
		}
	}
	if !s.wrote && nr < s.nReads {
		c.doRead(si, c.genRead(s))
		return
	}
	c.doWrite(si, nil)
}

func (c *c13sCase) doRead(si int, rd *c13sRead) {
	s := c.sess[si]
	r := c.r
	if s.snap == nil {
		s.snap = c.ref.clone()
	}
	{
		res := sqlQuery(c.env.eng, s.tx, rd.q)
		c.log(fmt.Sprintf("[s%d] %s (Query)   => %s", si, rd.q.String(), sqlQueryOutcome(res)))
		r.Count("ser.read." + rd.kind)
		if res.Err != "" {
			r.Count("ser.read.err." + res.Err)
			if strings.HasPrefix(res.Err, "panic:") {
				c.fail("C13:concurrent:panic", res.Err+" in "+rd.q.String())
			} else {
				c.fail("C13:intx:read-fails", fmt.Sprintf("session %d: %s fails with %s inside a transaction that has not written yet", si, rd.q.String(), res.Err))
			}
			c.abort(si)
			c.log(fmt.Sprintf("[s%d] -- session closed", si))
			return
		}
		s.ops = append(s.ops, c13sOp{rd: rd, txt: rd.q.String(), got: res.bag()})
		if rd.kind == "point" {
			// committed rows read by key: candidates for "read two rows, update one"
			for _, row := range c.ref.rows {
				if v, n, e := rd.pred.eval(c.sc, row); e == "" && !n && v {
					if at := s.snap.find(c.ref.pkOf(row)); at >= 0 && sqlRowTok(s.snap.rows[at]) == sqlRowTok(row) {
						s.readRows = append(s.readRows, row)
					}
				}
			}
		}
		return
	}
}

// d == nil: a generated write
func (c *c13sCase) doWrite(si int, d *dml) {
	s := c.sess[si]
	r := c.r
	if s.snap == nil {
		s.snap = c.ref.clone()
	}
	if d == nil {
		// the bookkeeping of a two-row INSERT is provisional inside genWrite: restore it
		nw, tuples, pks := len(s.writes), map[string]bool{}, map[string]bool{}
		for k := range s.tuples {
			tuples[k] = true
		}
		for k := range s.pks {
			pks[k] = true
		}
		d = c.genWrite(s)
		s.writes, s.tuples, s.pks = s.writes[:nw], tuples, pks
	}
	if d == nil || !c.promiseKept(s, d) {
		r.Count("ser.dml.skipped")
		s.nWrites = 0 // nothing sensible left for this transaction
		return
	}
	txt := d.text(c.sc, "t", c.rng.U64())
	res := sqlExec(c.env.eng, s.tx, txt)
	c.logStmt(si, txt, res.Err)
	r.Count("ser.dml." + d.K)
	if strings.HasPrefix(res.Err, "panic:") {
		c.fail("C13:concurrent:panic", res.Err+" in "+txt.String())
	}
	if c.corr {
		ans := "ok " + strconv.Itoa(res.OpenUpd-s.openUpd)
		if res.Err != "" {
			ans = "err:" + res.Err
		}
		c.r.Corr(fmt.Sprintf("c12 mv stmt %d ", si)+strings.Join(c12StmtToks(d), " "), ans)
	}
	if res.Err != "" {
		// a statement failure aborts the transaction (the engine cancelled it)
		r.Count("ser.dml.err." + res.Err)
		s.tx = nil
		return
	}
	s.tx = res.Tx
	s.ops = append(s.ops, c13sOp{d: d, txt: txt.String(), upd: res.OpenUpd - s.openUpd})
	s.openUpd = res.OpenUpd
	s.wrote = true
	s.note(c, d)
}

// the committed transaction this one conflicts with (it overlaps: committed after this one began)
func (c *c13sCase) partner(s *c13sSess) (string, string) {
	for i := len(c.commits) - 1; i >= 0 && c.commits[i].n > s.began; i-- {
		o := c.commits[i]
		for _, w := range s.writes {
			for _, ow := range o.writes {
				if w.key == ow.key && w.pk != ow.pk {
					return fmt.Sprintf("commit #%d of session %d wrote the same tuple of UNIQUE INDEX (%s) under primary key %s (this transaction: %s) after this transaction began (at commit #%d)", o.n, o.sess, c.sc.colNames(c.sc.Idx[w.ixn].Cols), ow.pk, w.pk, s.began), "unique"
				}
			}
		}
	}
	for i := len(c.commits) - 1; i >= 0 && c.commits[i].n > s.began; i-- {
		o := c.commits[i]
		for pk := range s.pks {
			if o.pks[pk] {
				return fmt.Sprintf("commit #%d of session %d wrote primary key %s after this transaction began (at commit #%d)", o.n, o.sess, pk, s.began), "pk"
			}
		}
	}
	return "", ""
}

// committed table through the primary key and every index, by a fresh reader
func (c *c13sCase) checkTable(where string, want *refTable, sig string) bool {
	r := c.r
	got := sqlScan(c.env.eng, nil, c.sc, "t", c.sc.PK)
	r.OracleChecks++
	r.Eval("ser|"+where+"|"+strconv.Itoa(r.Case())+"|"+strconv.Itoa(c.nCommit), len(got.Rows) > 0)
	ok := true
	if w := (sqlQRes{Rows: want.rows}); got.bag() != w.bag() {
		c.fail(sig, fmt.Sprintf("%s: committed table = %s %s, the reference (the acknowledged transactions applied in commit order) = %s", where, got.Err, sqlRowsShow(got.Rows, 10), sqlRowsShow(want.sorted(), 10)))
		ok = false
	}
	for _, ix := range c.sc.Idx {
		sx := sqlScan(c.env.eng, nil, c.sc, "t", ix.Cols)
		r.OracleChecks++
		if sx.bag() != got.bag() {
			c.fail("C13:commit:index-scan-differs-from-pk-scan", fmt.Sprintf("%s: through (%s): %s %s, through the primary key: %s", where, c.sc.colNames(ix.Cols), sx.Err, sqlRowsShow(sx.Rows, 10), sqlRowsShow(got.Rows, 10)))
			ok = false
		}
	}
	return ok
}

func (c *c13sCase) noteTombs(before, after *refTable) {
	for ixn, ix := range c.sc.Idx {
		if !ix.Unique {
			continue
		}
		for _, row := range before.rows {
			at := after.find(after.pkOf(row))
			if at < 0 || c12Key(ixn, c12Tuple(after.rows[at], ix.Cols)) != c12Key(ixn, c12Tuple(row, ix.Cols)) {
				c.tomb[c12Key(ixn, c12Tuple(row, ix.Cols))] = true
			}
		}
	}
}

func (c *c13sCase) corrScan() {
	pk := sqlScan(c.env.eng, nil, c.sc, "t", c.sc.PK)
	ts := make([]string, len(pk.Rows))
	for i, row := range pk.Rows {
		ts[i] = sqlRowTok(row)
	}
	c.r.Corr("c12 mv scan", "rows "+strconv.Itoa(len(ts))+" "+strings.Join(ts, ";"))
}

// which of the transaction's reads no longer hold on the committed reference (another transaction committed in between)
func (c *c13sCase) staleReads(s *c13sSess) []string {
	var out []string
	for _, op := range s.ops {
		if op.rd != nil && op.rd.eval(c.ref) != op.got {
			out = append(out, op.rd.kind)
		}
	}
	return out
}

func (c *c13sCase) commit(si int, rollback bool) {
	r := c.r
	s := c.sess[si]
	const sigNS = "C13:commit:not-serializable-in-commit-order"
	if rollback {
		q := sqlPlain("ROLLBACK")
		res := sqlExec(c.env.eng, s.tx, q)
		c.logStmt(si, q, res.Err)
		s.tx = nil
		r.Count("ser.rollback")
		if c.corr {
			c.r.Corr(fmt.Sprintf("c12 mv rollback %d", si), "ok")
		}
		c.checkTable(fmt.Sprintf("after ROLLBACK of session %d", si), c.ref, "C13:rollback:left-trace")
		return
	}
	wrote := 0
	for _, op := range s.ops {
		wrote += op.upd
	}
	stale := c.staleReads(s)
	pdesc, pkind := c.partner(s)
	q := sqlPlain("COMMIT")
	res := sqlExec(c.env.eng, s.tx, q)
	c.logStmt(si, q, res.Err)
	s.tx = nil
	if c.corr {
		ans := "ok"
		if res.Err != "" {
			ans = "err:" + res.Err
		}
		c.r.Corr(fmt.Sprintf("c12 mv commit %d", si), ans)
	}
	// what kind of overlap did this COMMIT have to decide?
	cls := "no-overlap"
	switch {
	case wrote == 0:
		cls = "no-effective-write"
	case pkind == "unique":
		cls = "same-unique-tuple-under-different-keys"
	case pkind == "pk":
		cls = "same-primary-key"
	case len(stale) > 0:
		cls = "stale-read." + stale[0]
	}
	if res.Err != "" {
		r.Count("ser.commit.refused." + cls)
		r.Count("ser.commit.err." + res.Err)
		if res.Err != "read-conflict" && res.Err != "dup-key" {
			c.fail("C13:commit:fails-with-unexpected-error", "COMMIT of a transaction of valid statements failed with "+res.Err+" (expected: success, or a read conflict / duplicate key when a concurrent transaction interferes)")
		}
		c.checkTable(fmt.Sprintf("after the failed COMMIT (%s) of session %d", res.Err, si), c.ref, "C13:failed-commit:left-trace")
		return
	}
	r.Count("ser.commit.ok." + cls)
	if wrote == 0 {
		// no entries: no validation; the transaction is serialised at its snapshot and must leave the table as it is
		c.checkTable(fmt.Sprintf("after COMMIT of session %d (no rows affected)", si), c.ref, sigNS+":transaction-without-writes-changed-the-table")
		if c.corr {
			c.corrScan()
		}
		return
	}
	// replay at the commit point
	tmp := c.ref.clone()
	unknown, attributed := false, false
	tombCause := func(d *dml) string {
		for _, w := range s.writes {
			if c.tomb[w.key] {
				return ":deleted-entry-hides-live-one"
			}
		}
		return ""
	}
	for _, op := range s.ops {
		r.OracleChecks++
		if op.rd != nil {
			if want := op.rd.eval(tmp); want != op.got {
				c.fail(sigNS+":read-differs:"+op.rd.kind, fmt.Sprintf("COMMIT of session %d was acknowledged (it wrote %d rows) although its read [%s] returned %s inside the transaction and returns %s at the transaction's position in the commit order (%s)", si, wrote, op.txt, op.got, want, pdesc))
				unknown = true
				break
			}
			continue
		}
		o := tmp.exec(op.d)
		if o.Err != "" {
			cz := ""
			if o.Err == "dup-key" {
				cz = tombCause(op.d)
			}
			switch {
			case cz != "":
				attributed = true
				c.fail(sigNS+cz, fmt.Sprintf("session %d committed, but at its commit point [%s] fails with %s (a deleted entry under the UNIQUE tuple hides the live one: R2)", si, op.txt, o.Err))
			case pkind == "unique":
				c.fail(sigNS+":unique-tuple-committed-twice", fmt.Sprintf("COMMIT of session %d was acknowledged although %s; in commit order [%s] fails with %s: no serial order of the two committed transactions produces this table", si, pdesc, op.txt, o.Err))
			case pkind == "pk":
				c.fail(sigNS+":primary-key-written-by-both", fmt.Sprintf("COMMIT of session %d was acknowledged although %s; in commit order [%s] fails with %s", si, pdesc, op.txt, o.Err))
			default:
				c.fail(sigNS+":statement-invalid-at-commit-point:"+o.Err, fmt.Sprintf("session %d committed, but at its position in the commit order [%s] fails with %s", si, op.txt, o.Err))
			}
			unknown = true
			break
		}
		if o.Updated != op.upd {
			c.fail(sigNS+":affected-rows-differ", fmt.Sprintf("session %d committed; [%s] affected %d rows inside the transaction but %d at its position in the commit order (%s)", si, op.txt, op.upd, o.Updated, pdesc))
			unknown = true
			break
		}
	}
	c.nCommit++
	c.commits = append(c.commits, c13sCommit{n: c.nCommit, began: s.began, sess: si, writes: s.writes, pks: s.pks, rows: s.rowsW})
	where := fmt.Sprintf("after COMMIT #%d (session %d)", c.nCommit, si)
	if unknown {
		if !attributed {
			c.broken = true
		}
		cur := sqlScan(c.env.eng, nil, c.sc, "t", c.sc.PK)
		old := c.ref.clone()
		c.ref.rows = cur.Rows
		c.noteTombs(old, c.ref)
	} else {
		c.noteTombs(c.ref, tmp)
		c.ref = tmp
		if !c.checkTable(where, c.ref, sigNS+":final-table-differs") {
			c.broken = true
		}
	}
	if c.corr {
		c.corrScan()
	}
}

// ---------------------------------------------------------------- episodes

// A forced mini-schedule of two sessions, so that every kind of conflict is put before a COMMIT in every run:
//   - read-vs-write: A reads (one kind of SELECT, aimed at a committed row or at a row that does not exist yet), B changes
//     what that read returns (UPDATE / DELETE of the row, INSERT of the missing one), A writes an unrelated row; the
//     COMMITs in either order (B first: A's read is stale, A must be refused; A first: both may commit);
//   - write skew: A and B both read the committed rows P and Q, A updates P, B updates Q: the second COMMIT must be refused.
func (c *c13sCase) episode() {
	rng, r := c.rng, c.r
	a := rng.Intn(len(c.sess))
	b := (a + 1 + rng.Intn(len(c.sess)-1)) % len(c.sess)
	for _, si := range []int{a, b} {
		c.begin(si)
		if c.sess[si].tx == nil {
			return
		}
		c.sess[si].nReads, c.sess[si].nWrites = 0, 0
	}
	defer func() { c.forceKind, c.forceAim, c.forceTarget, c.forceK = "", nil, nil, 0 }()
	alive := func() bool { return c.sess[a].tx != nil && c.sess[b].tx != nil && !c.broken }
	finish := func(first, second int) {
		for _, si := range []int{first, second} {
			if c.sess[si].tx != nil && !c.broken {
				c.commit(si, false)
			}
		}
	}
	if len(c.ref.rows) >= 2 && rng.Intn(4) == 0 {
		r.Count("ser.episode.write-skew")
		i := rng.Intn(len(c.ref.rows))
		j := (i + 1 + rng.Intn(len(c.ref.rows)-1)) % len(c.ref.rows)
		P, Q := c.ref.rows[i], c.ref.rows[j]
		readers := []int{a, b}
		if rng.Bool() {
			readers = []int{b, a}
		}
		for _, si := range readers {
			for _, row := range [][]c15Val{P, Q} {
				if c.sess[si].tx != nil {
					c.forceKind, c.forceAim = "point", row
					c.doRead(si, c.genRead(c.sess[si]))
				}
			}
		}
		c.forceKind, c.forceAim = "", nil
		for k, si := range []int{a, b} {
			if alive() {
				c.forceTarget, c.forceK = [][]c15Val{P, Q}[k], 50
				c.doWrite(si, nil)
			}
		}
		c.forceTarget, c.forceK = nil, 0
		if rng.Bool() {
			finish(a, b)
		} else {
			finish(b, a)
		}
		return
	}
	kind := []string{"point", "pk-range", "index-eq", "index-range", "count", "count-all", "exists"}[rng.Intn(7)]
	r.Count("ser.episode.read-vs-write." + kind)
	var X []c15Val
	committed := len(c.ref.rows) > 0 && rng.Bool()
	if committed {
		X = c.ref.rows[rng.Intn(len(c.ref.rows))]
	} else {
		// a row that does not exist yet: fresh key, fresh unique tuples
		X = make([]c15Val, len(c.sc.Cols))
		for ci, col := range c.sc.Cols {
			X[ci] = c12SmallVal(rng, sqlCol{Ty: col.Ty, NotNull: true})
		}
		for i, v := range c.freshPK() {
			X[c.sc.PK[i]] = v
		}
		for _, ixn := range c.uniq {
			for i, v := range c.freshTuple(ixn) {
				if !v.null {
					X[c.sc.Idx[ixn].Cols[i]] = v
				}
			}
		}
	}
	c.forceKind, c.forceAim = kind, X
	c.doRead(a, c.genRead(c.sess[a]))
	c.forceKind, c.forceAim = "", nil
	bWrite := func() {
		if !alive() {
			return
		}
		if committed {
			c.forceTarget, c.forceK = X, 50 // UPDATE
			if kind == "count" || kind == "count-all" || kind == "exists" || rng.Intn(3) == 0 {
				c.forceK = 85 // DELETE
			}
			c.doWrite(b, nil)
			c.forceTarget, c.forceK = nil, 0
			return
		}
		d := &dml{K: "insert"}
		for ci := range c.sc.Cols {
			d.Cols = append(d.Cols, ci)
		}
		d.Rows = [][]c15Val{append([]c15Val(nil), X...)}
		c.doWrite(b, d)
	}
	aWrite := func() {
		if alive() {
			c.forceK = 1 // INSERT of a new row
			c.doWrite(a, nil)
			c.forceK = 0
		}
	}
	if rng.Bool() {
		bWrite()
		aWrite()
	} else {
		aWrite()
		bWrite()
	}
	if rng.Intn(3) > 0 {
		finish(b, a)
	} else {
		finish(a, b)
	}
}

// Observation (not C13's property; reported by `C13:intx:read-fails` when the reads were first generated with parameters):
// a parameter inside an EXISTS subquery is never bound.
func c13sProbeExistsParams(r *hx.Result) {
	r.NextCase()
	env, err := sqlOpenEnv("c13sp")
	if err != nil {
		return
	}
	defer env.close()
	script := []string{"CREATE TABLE t (id INTEGER, PRIMARY KEY id)", "INSERT INTO t(id) VALUES (8)"}
	for _, q := range script {
		sqlExec(env.eng, nil, sqlPlain(q))
	}
	q := sqlText{SQL: "SELECT COUNT(*) FROM t WHERE EXISTS (SELECT * FROM t AS o WHERE o.id = @p1)", Params: map[string]interface{}{"p1": int64(8)}, PToks: []string{"@p1=i:8"}}
	res := sqlQuery(env.eng, nil, q)
	r.OracleChecks++
	r.Count("probe.exists-subquery-parameter")
	if res.Err != "" {
		r.Fail("C13:intx:read-fails:parameter-in-exists-subquery-not-bound", "SELECT COUNT(*) FROM t WHERE EXISTS (SELECT * FROM t AS o WHERE o.id = @p1) with p1 = 8 fails with "+res.Err+" (the same query with the literal 8 returns 1): ExistsBoolExp.substitute returns the expression unchanged, the subquery is resolved without the statement's parameters", c11Replay{Script: append(script, q.String()+" (Query)   => ERR "+res.Err)})
	}
}

// ---------------------------------------------------------------- schedules

func (c *c13sCase) run(thorough bool, variant int) {
	r, rng := c.r, c.rng
	r.NextCase()
	if !c.setup() {
		return
	}
	defer c.env.close()
	c.reads = variant%3 != 2
	c.corr = !c.reads
	if c.corr {
		r.Count("ser.case.writes-only-with-lean-tie")
		c.r.Corr("c12 mv tbl "+c12SchemaToks(c.sc, c.sc.Idx), "ok")
	} else {
		r.Count("ser.case.reads-and-writes")
	}
	nSess := 2 + rng.Intn(3)
	c.sess = make([]*c13sSess, nSess)
	for i := range c.sess {
		c.sess[i] = &c13sSess{}
	}
	// a few committed rows
	reads := c.reads
	c.reads = false
	for i := 0; i < 3+rng.Intn(4); i++ {
		c.begin(0)
		if c.sess[0].tx == nil {
			return
		}
		c.sess[0].nWrites = 1
		c.stmt(0)
		if c.sess[0].tx != nil {
			c.commit(0, false)
		}
	}
	c.reads = reads
	if variant%2 == 0 {
		r.Count("ser.schedule.lock-step")
		rounds := 5 + rng.Intn(5)
		if thorough {
			rounds *= 3
		}
		for rd := 0; rd < rounds && !c.broken; rd++ {
			if c.reads && rng.Intn(2) == 0 {
				c.episode()
				continue
			}
			order := make([]int, nSess)
			for i := range order {
				order[i] = i
			}
			rngShuffle(rng, nSess, func(i, j int) { order[i], order[j] = order[j], order[i] })
			parts := order[:2+rng.Intn(nSess-1)]
			var queue []int
			for _, si := range parts {
				c.begin(si)
				for k := 0; k < c.sess[si].nReads+c.sess[si].nWrites; k++ {
					queue = append(queue, si)
				}
			}
			// every session reads before it writes; the sessions are interleaved at random
			rngShuffle(rng, len(queue), func(i, j int) { queue[i], queue[j] = queue[j], queue[i] })
			for _, si := range queue {
				if c.sess[si].tx != nil && !c.sess[si].done() {
					c.stmt(si)
				}
			}
			if c.broken {
				break
			}
			rngShuffle(rng, len(parts), func(i, j int) { parts[i], parts[j] = parts[j], parts[i] })
			for _, si := range parts {
				if c.sess[si].tx != nil && !c.broken {
					c.commit(si, rng.Intn(14) == 0)
				}
			}
		}
	} else {
		r.Count("ser.schedule.free")
		steps := 60 + rng.Intn(50)
		if thorough {
			steps *= 3
		}
		for st := 0; st < steps && !c.broken; st++ {
			si := rng.Intn(nSess)
			s := c.sess[si]
			switch {
			case s.tx == nil:
				c.begin(si)
			case s.done() || (len(s.ops) > 0 && rng.Intn(6) == 0):
				c.commit(si, rng.Intn(14) == 0)
			default:
				c.stmt(si)
			}
		}
	}
	for si, s := range c.sess {
		if s.tx != nil {
			s.tx.Cancel()
			s.tx = nil
			c.log(fmt.Sprintf("[s%d] -- session closed", si))
		}
	}
	if !c.broken {
		c.checkTable("after all sessions were closed", c.ref, "C13:rollback:left-trace")
	}
	if c.reads && len(r.Samples) < 6 {
		r.Sample(map[string]interface{}{"case": r.Case(), "mode": "serial-order", "script_head": c.script[:min(len(c.script), 16)], "lines": len(c.script)})
	}
}

func runC13Ser(r *hx.Result, rng *hx.Rng, thorough bool) error {
	cases := 24
	if thorough {
		cases = 180
	}
	if n, err := strconv.Atoi(os.Getenv("VERIF_C13_SER_CASES")); err == nil && n > 0 {
		cases = n // development aid
	}
	c13sProbeExistsParams(r)
	for i := 0; i < cases; i++ {
		c := &c13sCase{r: r, rng: rng.Fork()}
		c.run(thorough, i)
		if i%6 == 5 {
			if err := r.Flush(); err != nil {
				return err
			}
		}
	}
	need := []string{"ser.read.point", "ser.read.pk-range", "ser.read.index-eq", "ser.read.count", "ser.read.exists",
		"ser.schedule.lock-step", "ser.schedule.free", "ser.case.writes-only-with-lean-tie"}
	for _, k := range need {
		if r.Distribution[k] == 0 {
			r.Inconclusive = append(r.Inconclusive, "serial-order schedules never produced class "+k)
		}
	}
	// every kind of overlap must have been put before a COMMIT (refused or not)
	for _, k := range []string{"same-unique-tuple-under-different-keys", "same-primary-key", "stale-read."} {
		n := 0
		for key, v := range r.Distribution {
			if strings.HasPrefix(key, "ser.commit.refused."+k) || strings.HasPrefix(key, "ser.commit.ok."+k) {
				n += v
			}
		}
		if n == 0 {
			r.Inconclusive = append(r.Inconclusive, "serial-order schedules: no COMMIT had to decide an overlap of kind "+k)
		}
	}
	return r.Flush()
}
