package main

// C07 — liveness bounds. Every call of the code under test that can block (a waiter on one of the store's watermark
// hubs, a lock held by such a waiter, a Set that waits for acknowledgements …) is made under a watchdog: when the call
// does not return within c07Bound() the oracle failure `C07:<api>:hang` is recorded with the operation trace of the
// running scenario as replay, and the scenario is abandoned (panic with c07Hang, recovered by c07Guard). The stuck
// goroutine is left behind (it cannot be cancelled); closing the store afterwards is bounded too and never panics.
// Nothing here touches the hx.Result from another goroutine than the caller's.

import (
	"context"
	"errors"
	"fmt"
	"os"
	"strconv"
	"strings"
	"sync"
	"time"

	"github.com/codenotary/immudb/embedded/store"
	"github.com/codenotary/immudb/pkg/api/schema"
	"github.com/codenotary/immudb/pkg/database"

	"verif/harness/internal/hx"
)

// c07Hang is the panic value that abandons a scenario after a reported hang.
type c07Hang struct{ api string }

var errC07Hung = errors.New("C07: a call of the code under test did not return within the liveness bound")

var (
	c07Hangs   int      // hangs reported so far in this run
	c07Trace   []string // operation trace of the running scenario (reset by c07Guard)
	c07MaxHang = 3      // after this many abandoned scenarios the run stops (every hang costs one bound)
)

// c07Bound: liveness bound of one call (default 20 s; C07_BOUND_MS overrides it, used to test the watchdog).
func c07Bound() time.Duration {
	if v := os.Getenv("C07_BOUND_MS"); v != "" {
		if n, err := strconv.Atoi(v); err == nil && n > 0 {
			return time.Duration(n) * time.Millisecond
		}
	}
	return 20 * time.Second
}

func c07T(format string, a ...interface{}) {
	s := fmt.Sprintf(format, a...)
	if len(s) > 160 {
		s = s[:160] + "…"
	}
	c07Trace = append(c07Trace, s)
	if len(c07Trace) > 4000 {
		c07Trace = append(c07Trace[:0:0], c07Trace[len(c07Trace)-2000:]...)
	}
}

func c07TraceTail(n int) []string {
	t := c07Trace
	if len(t) > n {
		t = t[len(t)-n:]
	}
	return append([]string(nil), t...)
}

// c07ReportHang records the oracle failure for a call that did not return.
func c07ReportHang(r *hx.Result, api, detail string) {
	c07Hangs++
	r.Count("liveness.hang." + api)
	r.Fail("C07:"+api+":hang", fmt.Sprintf("%s did not return within %v%s; the last operations of the scenario are in the replay (the last one is the call that hangs)", api, c07Bound(), detail),
		map[string]interface{}{"ops": c07TraceTail(80), "case": r.Case(), "bound": c07Bound().String()})
}

// c07Live runs f under the liveness bound (f must not touch the hx.Result). A panic of f is re-raised on the caller.
func c07Live[T any](r *hx.Result, api, args string, f func() T) T {
	c07T("%s(%s)", api, args)
	ch := make(chan T, 1)
	pch := make(chan interface{}, 1)
	go func() {
		defer func() {
			if x := recover(); x != nil {
				pch <- x
			}
		}()
		ch <- f()
	}()
	t := time.NewTimer(c07Bound())
	defer t.Stop()
	select {
	case v := <-ch:
		return v
	case x := <-pch:
		panic(x)
	case <-t.C:
		c07ReportHang(r, api, "")
		panic(c07Hang{api})
	}
}

// c07Quiet runs f under the bound without verdict and without panic (closing after a hang, cleaning up): false = stuck.
func c07Quiet(d time.Duration, f func()) bool {
	done := make(chan struct{})
	go func() {
		defer close(done)
		defer func() { recover() }()
		f()
	}()
	select {
	case <-done:
		return true
	case <-time.After(d):
		return false
	}
}

// c07CloseBounded closes something of the code under test. A Close that hangs on its own is a failure; after a hang that
// was already reported it is a consequence (the stuck goroutine holds a lock) and only counted.
func c07CloseBounded(r *hx.Result, api string, f func()) {
	d := c07Bound()
	if c07Hangs > 0 && d > 3*time.Second {
		d = 3 * time.Second
	}
	if c07Quiet(d, f) {
		return
	}
	r.Count("liveness.close-stuck." + api)
	if c07Hangs == 0 {
		c07T("%s()", api)
		c07ReportHang(r, api, "")
	}
}

// c07Guard runs one scenario: a reported hang abandons it (errC07Hung), everything else is as before.
func c07Guard(r *hx.Result, name string, f func() error) (err error) {
	c07Trace = c07Trace[:0]
	c07T("scenario %s", name)
	defer func() {
		if x := recover(); x != nil {
			if h, ok := x.(c07Hang); ok {
				r.Count("liveness.scenario-abandoned")
				r.Notes = append(r.Notes, fmt.Sprintf("scenario %s abandoned: %s did not return", name, h.api))
				err = fmt.Errorf("%w (%s in %s)", errC07Hung, h.api, name)
				return
			}
			panic(x)
		}
	}()
	return f()
}

// c07Run = c07Guard for the runner: a hang is not a harness error; ok=false tells the caller to stop using whatever the
// scenario shared (a database cluster), stop=true that the whole run should end (too many hangs).
func c07Run(r *hx.Result, name string, f func() error) (err error, hung bool) {
	err = c07Guard(r, name, f)
	if errors.Is(err, errC07Hung) {
		return nil, true
	}
	return err, false
}

func c07TooManyHangs() bool { return c07Hangs >= c07MaxHang }

// ------------------------------------------------------------------ store under the watchdog

// c07Store: the methods of *store.ImmuStore the C07 harness uses, each under the liveness bound. Only for use on the
// goroutine that owns the hx.Result; other goroutines use raw with a context that ends.
type c07Store struct {
	r   *hx.Result
	raw *store.ImmuStore
}

func c07Wrap(r *hx.Result, st *store.ImmuStore) *c07Store {
	if st == nil {
		return nil
	}
	return &c07Store{r: r, raw: st}
}

type c07IDAlh struct {
	id  uint64
	alh [32]byte
}

func (w *c07Store) CommittedAlh() (uint64, [32]byte) {
	v := c07Live(w.r, "CommittedAlh", "", func() c07IDAlh { id, a := w.raw.CommittedAlh(); return c07IDAlh{id, a} })
	return v.id, v.alh
}

func (w *c07Store) PrecommittedAlh() (uint64, [32]byte) {
	v := c07Live(w.r, "PrecommittedAlh", "", func() c07IDAlh { id, a := w.raw.PrecommittedAlh(); return c07IDAlh{id, a} })
	return v.id, v.alh
}

func (w *c07Store) LastPrecommittedTxID() uint64 {
	// polled in loops: kept out of the trace
	ch := make(chan uint64, 1)
	go func() { ch <- w.raw.LastPrecommittedTxID() }()
	select {
	case v := <-ch:
		return v
	case <-time.After(c07Bound()):
		c07T("LastPrecommittedTxID()")
		c07ReportHang(w.r, "LastPrecommittedTxID", "")
		panic(c07Hang{"LastPrecommittedTxID"})
	}
}

type c07HdrErr struct {
	h   *store.TxHeader
	err error
}

func (w *c07Store) ReadTxHeader(id uint64, allowPre, skip bool) (*store.TxHeader, error) {
	v := c07Live(w.r, "ReadTxHeader", fmt.Sprint(id), func() c07HdrErr { h, err := w.raw.ReadTxHeader(id, allowPre, skip); return c07HdrErr{h, err} })
	return v.h, v.err
}

func (w *c07Store) Sync() error {
	return c07Live(w.r, "Sync", "", func() error { return w.raw.Sync() })
}

type c07IntErr struct {
	n   int
	err error
}

func (w *c07Store) DiscardPrecommittedTxsSince(id uint64) (int, error) {
	v := c07Live(w.r, "DiscardPrecommittedTxsSince", fmt.Sprint(id), func() c07IntErr { n, err := w.raw.DiscardPrecommittedTxsSince(id); return c07IntErr{n, err} })
	return v.n, v.err
}

func (w *c07Store) AllowCommitUpto(id uint64) error {
	return c07Live(w.r, "AllowCommitUpto", fmt.Sprint(id), func() error { return w.raw.AllowCommitUpto(id) })
}

// Close never panics (it runs in deferred clean-ups, possibly while a c07Hang is travelling up).
func (w *c07Store) Close() error {
	var err error
	c07CloseBounded(w.r, "Close", func() { err = w.raw.Close() })
	return err
}

type c07BytesErr struct {
	b   []byte
	err error
}

func (w *c07Store) ExportTx(id uint64, allowPre, skip bool, tx *store.Tx) ([]byte, error) {
	v := c07Live(w.r, "ExportTx", fmt.Sprint(id), func() c07BytesErr {
		defer c07ExportEnter(w.raw)()
		b, err := w.raw.ExportTx(id, allowPre, skip, tx)
		return c07BytesErr{b, err}
	})
	return v.b, v.err
}

// ------------------------------------------------------------------ measurement: ExportTx calls in flight per store
//
// How many ExportTx calls run AT THE SAME TIME on one store is what decides whether the check explores the sharing of
// store-wide state between exports at all (the scratch buffer `_valBs`, the Tx holder pool, the value cache). Every
// ExportTx call of the C07 harness goes through c07ExportEnter (any goroutine); the maximum is reported in the evidence
// (`export_max_in_flight_per_store`) and the run is inconclusive when it stays below 2.

var (
	c07ExpMu       sync.Mutex
	c07ExpInFlight = map[interface{}]int{}
	c07ExpMax      int   // max over all stores of the calls in flight on that store
	c07ExpCalls    int64 // all ExportTx calls
	c07ExpOverlap  int64 // calls that started while another call on the same store was in flight
)

// c07ExportEnter registers the start of an ExportTx call on store st (the key is only compared); the returned function
// registers its end.
func c07ExportEnter(st interface{}) func() {
	c07ExpMu.Lock()
	c07ExpInFlight[st]++
	n := c07ExpInFlight[st]
	if n > c07ExpMax {
		c07ExpMax = n
	}
	c07ExpCalls++
	if n > 1 {
		c07ExpOverlap++
	}
	c07ExpMu.Unlock()
	return func() {
		c07ExpMu.Lock()
		if c07ExpInFlight[st]--; c07ExpInFlight[st] == 0 {
			delete(c07ExpInFlight, st)
		}
		c07ExpMu.Unlock()
	}
}

// c07ExportRecord merges the measurement of a scenario that counts its own calls with atomics (c07cx.go: no global mutex
// on the path of the concurrent exporters).
func c07ExportRecord(max int, calls, overlapping int64) {
	c07ExpMu.Lock()
	defer c07ExpMu.Unlock()
	if max > c07ExpMax {
		c07ExpMax = max
	}
	c07ExpCalls += calls
	c07ExpOverlap += overlapping
}

func c07ExportMeasure() (max int, calls, overlapping int64) {
	c07ExpMu.Lock()
	defer c07ExpMu.Unlock()
	return c07ExpMax, c07ExpCalls, c07ExpOverlap
}

func (w *c07Store) ReadTx(id uint64, skip bool, tx *store.Tx) error {
	return c07Live(w.r, "ReadTx", fmt.Sprint(id), func() error { return w.raw.ReadTx(id, skip, tx) })
}

func (w *c07Store) ReadValue(e *store.TxEntry) ([]byte, error) {
	v := c07Live(w.r, "ReadValue", "", func() c07BytesErr { b, err := w.raw.ReadValue(e); return c07BytesErr{b, err} })
	return v.b, v.err
}

func (w *c07Store) WaitForIndexingUpto(ctx context.Context, id uint64) error {
	// the context of the callers ends after 60 s: the watchdog gets its own, shorter one
	return c07Live(w.r, "WaitForIndexingUpto", fmt.Sprint(id), func() error {
		c, cancel := context.WithTimeout(ctx, c07Bound()*2/3)
		defer cancel()
		return w.raw.WaitForIndexingUpto(c, id)
	})
}

type c07ProofErr struct {
	p   *store.DualProof
	err error
}

func (w *c07Store) DualProof(s, t *store.TxHeader) (*store.DualProof, error) {
	v := c07Live(w.r, "DualProof", fmt.Sprintf("%d,%d", s.ID, t.ID), func() c07ProofErr { p, err := w.raw.DualProof(s, t); return c07ProofErr{p, err} })
	return v.p, v.err
}

type c07RefErr struct {
	ref store.ValueRef
	err error
}

func (w *c07Store) Get(ctx context.Context, key []byte) (store.ValueRef, error) {
	v := c07Live(w.r, "Get", hx.Hex(key), func() c07RefErr { ref, err := w.raw.Get(ctx, key); return c07RefErr{ref, err} })
	return v.ref, v.err
}

// WaitForTx with an already cancelled context: a non-blocking probe of the durable-precommit / commit watermark
// (watchers.WaitFor answers nil at once when the watermark has reached txID and ctx.Err() otherwise).
func (w *c07Store) Reached(txID uint64, allowPrecommitted bool) (bool, error) {
	type be struct {
		b   bool
		err error
	}
	v := c07Live(w.r, "WaitForTx", fmt.Sprintf("%d,%v", txID, allowPrecommitted), func() be {
		ctx, cancel := context.WithCancel(context.Background())
		cancel()
		err := w.raw.WaitForTx(ctx, txID, allowPrecommitted)
		if err == nil {
			return be{true, nil}
		}
		if errors.Is(err, context.Canceled) {
			return be{false, nil}
		}
		return be{false, err}
	})
	return v.b, v.err
}

// c07OpenStore: store.Open under the bound.
func c07OpenStore(r *hx.Result, path string, opts *store.Options) (*c07Store, error) {
	type se struct {
		st  *store.ImmuStore
		err error
	}
	v := c07Live(r, "Open", "", func() se { st, err := store.Open(path, opts); return se{st, err} })
	return c07Wrap(r, v.st), v.err
}

// ------------------------------------------------------------------ database under the watchdog

type c07DBw struct {
	r   *hx.Result
	raw database.DB
	tag string
}

func c07WrapDB(r *hx.Result, db database.DB, tag string) *c07DBw {
	if db == nil {
		return nil
	}
	return &c07DBw{r: r, raw: db, tag: tag}
}

type c07StateErr struct {
	s   *schema.ImmutableState
	err error
}

func (w *c07DBw) CurrentState() (*schema.ImmutableState, error) {
	v := c07Live(w.r, "db.CurrentState", w.tag, func() c07StateErr { s, err := w.raw.CurrentState(); return c07StateErr{s, err} })
	if v.s != nil {
		c07T("  %s: committed=%d precommitted=%d", w.tag, v.s.TxId, v.s.PrecommittedTxId)
	}
	return v.s, v.err
}

type c07ExpRes struct {
	bs     []byte
	mayID  uint64
	mayAlh [32]byte
	err    error
}

func (w *c07DBw) ExportTxByID(ctx context.Context, req *schema.ExportTxRequest) ([]byte, uint64, [32]byte, error) {
	args := fmt.Sprintf("%s tx=%d", w.tag, req.Tx)
	if rs := req.ReplicaState; rs != nil {
		args += fmt.Sprintf(" replica=%s committed=%d precommitted=%d", rs.UUID, rs.CommittedTxID, rs.PrecommittedTxID)
	}
	v := c07Live(w.r, "db.ExportTxByID", args, func() c07ExpRes {
		c, cancel := context.WithTimeout(ctx, c07Bound()*2)
		defer cancel()
		defer c07ExportEnter(w.raw)()
		bs, id, alh, err := w.raw.ExportTxByID(c, req)
		return c07ExpRes{bs, id, alh, err}
	})
	return v.bs, v.mayID, v.mayAlh, v.err
}

type c07PHdrErr struct {
	h   *schema.TxHeader
	err error
}

func (w *c07DBw) ReplicateTx(ctx context.Context, bs []byte, skip, wait bool) (*schema.TxHeader, error) {
	v := c07Live(w.r, "db.ReplicateTx", fmt.Sprintf("%s tx=%d", w.tag, c07HdrID(bs)), func() c07PHdrErr {
		c, cancel := context.WithTimeout(ctx, c07Bound()*2)
		defer cancel()
		h, err := w.raw.ReplicateTx(c, bs, skip, wait)
		return c07PHdrErr{h, err}
	})
	return v.h, v.err
}

func (w *c07DBw) AllowCommitUpto(id uint64, alh [32]byte) error {
	return c07Live(w.r, "db.AllowCommitUpto", fmt.Sprintf("%s %d", w.tag, id), func() error { return w.raw.AllowCommitUpto(id, alh) })
}

func (w *c07DBw) AsReplica(asReplica, syncReplication bool, syncAcks int) {
	c07Live(w.r, "db.AsReplica", fmt.Sprintf("%s %v %v %d", w.tag, asReplica, syncReplication, syncAcks), func() bool {
		w.raw.AsReplica(asReplica, syncReplication, syncAcks)
		return true
	})
}

func (w *c07DBw) DiscardPrecommittedTxsSince(id uint64) error {
	return c07Live(w.r, "db.DiscardPrecommittedTxsSince", fmt.Sprintf("%s %d", w.tag, id), func() error { return w.raw.DiscardPrecommittedTxsSince(id) })
}

func (w *c07DBw) Set(ctx context.Context, req *schema.SetRequest) (*schema.TxHeader, error) {
	v := c07Live(w.r, "db.Set", w.tag, func() c07PHdrErr { h, err := w.raw.Set(ctx, req); return c07PHdrErr{h, err} })
	return v.h, v.err
}

type c07EntryErr struct {
	e   *schema.Entry
	err error
}

func (w *c07DBw) Get(ctx context.Context, req *schema.KeyRequest) (*schema.Entry, error) {
	v := c07Live(w.r, "db.Get", fmt.Sprintf("%s %s", w.tag, req.Key), func() c07EntryErr {
		c, cancel := context.WithTimeout(ctx, c07Bound()*2/3)
		defer cancel()
		e, err := w.raw.Get(c, req)
		return c07EntryErr{e, err}
	})
	return v.e, v.err
}

func (w *c07DBw) Close() error {
	var err error
	c07CloseBounded(w.r, "db.Close", func() { err = w.raw.Close() })
	return err
}

// c07Short shortens a hex string for the trace.
func c07Short(s string) string {
	if len(s) > 24 {
		return s[:24] + "…(" + strconv.Itoa(len(s)/2) + " bytes)"
	}
	return s
}

var _ = strings.HasPrefix
