package main

// C04 — store stage: real embedded/store with index options crossed over histories, three commit modes
// (sync: every commit waits for the indexer; backlog: indexers closed while a batch is committed, so the
// bulk partition is exactly "chunks of MaxBulkSize"; burst: concurrent AsyncCommit writers, partition unknown),
// interleaved flush / compaction / snapshots / close+reopen, and every key read through every read API.

import (
	"context"
	"errors"
	"fmt"
	"os"
	"sort"
	"strings"
	"sync"
	"time"

	"github.com/codenotary/immudb/embedded/store"
	"github.com/codenotary/immudb/embedded/tbtree"

	"verif/harness/internal/hx"
)

type c04Cfg struct {
	Mode              string // sync | backlog | burst
	Bulk              int
	Adaptive          bool
	TimeoutMs         int
	FlushThld         int
	SyncThld          int
	NodeSize          int
	CacheSize         int
	MaxBuffered       int
	MaxGlobalBuffered int
	MaxKeyLen         int
	MaxTxEntries      int
	Synced            bool
	Writers           int
	Embedded          bool
	Layout            string
	CompactionThld    int `json:",omitempty"` // 0 = 1
}

func c04RequiredNodeSize(maxKeyLen int) int {
	const maxValueSize = 4 + 8 + 32 + 2 + 268 + 2 + 11
	a := 2 * (29 + maxKeyLen)
	b := 31 + maxKeyLen + maxValueSize
	if a > b {
		return a
	}
	return b
}

// logger that keeps the last error messages of the store (the indexer reports its failures only there)
type c04Logger struct {
	mu   sync.Mutex
	errs []string
}

func (l *c04Logger) Errorf(f string, a ...interface{}) {
	l.mu.Lock()
	if len(l.errs) < 50 {
		l.errs = append(l.errs, fmt.Sprintf(f, a...))
	}
	l.mu.Unlock()
	if os.Getenv("VH_LOG") != "" {
		fmt.Fprintf(os.Stderr, "ERROR: "+f+"\n", a...)
	}
}
func (l *c04Logger) Warningf(string, ...interface{}) {}
func (l *c04Logger) Infof(string, ...interface{})    {}
func (l *c04Logger) Debugf(string, ...interface{})   {}
func (l *c04Logger) Close() error                    { return nil }
func (l *c04Logger) has(sub string) bool {
	l.mu.Lock()
	defer l.mu.Unlock()
	for _, e := range l.errs {
		if strings.Contains(e, sub) {
			return true
		}
	}
	return false
}
func (l *c04Logger) last() string {
	l.mu.Lock()
	defer l.mu.Unlock()
	if len(l.errs) == 0 {
		return "no error logged"
	}
	return l.errs[len(l.errs)-1]
}

func (c c04Cfg) options() *store.Options {
	thld := c.CompactionThld
	if thld == 0 {
		thld = 1
	}
	io := store.DefaultIndexOptions().
		WithMaxBulkSize(c.Bulk).WithAdaptiveBulkSize(c.Adaptive).
		WithBulkPreparationTimeout(time.Duration(c.TimeoutMs) * time.Millisecond).
		WithFlushThld(c.FlushThld).WithSyncThld(c.SyncThld).
		WithMaxNodeSize(c.NodeSize).WithCacheSize(c.CacheSize).
		WithMaxBufferedDataSize(c.MaxBuffered).WithMaxGlobalBufferedDataSize(c.MaxGlobalBuffered).
		WithCompactionThld(thld).WithDelayDuringCompaction(0)
	return store.DefaultOptions().WithIndexOptions(io).WithLogger(quietLogger()).
		WithMultiIndexing(true).WithSynced(c.Synced).WithSyncFrequency(2 * time.Millisecond).
		WithMaxKeyLen(c.MaxKeyLen).WithMaxTxEntries(c.MaxTxEntries).WithMaxValueLen(1 << 12).
		WithMaxConcurrency(8).WithMaxActiveTransactions(64).WithEmbeddedValues(c.Embedded).
		WithFileSize(1 << 16)
}

func c04GenCfg(rng *hx.Rng, caseNo int) c04Cfg {
	c := c04Cfg{}
	switch caseNo % 5 {
	case 0, 3:
		c.Mode = "sync"
	case 1, 4:
		c.Mode = "backlog"
	default:
		c.Mode = "burst"
	}
	c.Bulk = 1 + rng.Intn(16)
	if rng.Chance(20) {
		c.Bulk = 1
	}
	if c.Mode != "sync" && c.Bulk == 1 && rng.Chance(70) {
		c.Bulk = 2 + rng.Intn(15)
	}
	c.Adaptive = rng.Bool()
	c.TimeoutMs = 1 + rng.Intn(3)
	if c.Mode == "backlog" {
		c.Adaptive = !rng.Chance(12)
		c.TimeoutMs = 10000
		if !c.Adaptive {
			c.TimeoutMs = 1500 // the tail bulk waits this long; a full bulk must be gathered within it (machine load!)
		}
	}
	if c.Mode == "burst" {
		c.TimeoutMs = 2 + rng.Intn(20)
	}
	c.FlushThld = []int{1, 2, 3, 7, 50, 100000}[rng.Intn(6)]
	c.SyncThld = c.FlushThld * (1 + rng.Intn(3))
	c.MaxKeyLen = []int{24, 32, 48, 64}[rng.Intn(4)]
	req := c04RequiredNodeSize(c.MaxKeyLen)
	c.NodeSize = req + []int{0, 1, 40, 200, 4096}[rng.Intn(5)]
	c.CacheSize = []int{1, 2, 5, 100, 100000}[rng.Intn(5)]
	c.MaxBuffered = []int{1, 200, 4096, 1 << 20}[rng.Intn(4)]
	c.MaxGlobalBuffered = 1 << 30
	if c.Mode != "backlog" && rng.Chance(40) {
		c.MaxGlobalBuffered = []int{1 << 16, 1 << 17, 1 << 20}[rng.Intn(3)]
	}
	if c.MaxBuffered > c.MaxGlobalBuffered {
		c.MaxBuffered = c.MaxGlobalBuffered
	}
	c.MaxTxEntries = []int{8, 16, 64}[rng.Intn(3)]
	c.Synced = rng.Chance(15)
	c.Writers = 2 + rng.Intn(3)
	c.Embedded = rng.Chance(30)
	c.Layout = []string{"default", "two-plain", "rows+inj", "rows+noninj+inj", "sql-like", "catalog+rows", "sub-prefix"}[rng.Intn(7)]
	return c
}

func c04Layout(name string) []c04IdxDef {
	switch name {
	case "default":
		return []c04IdxDef{{Src: nil, Tgt: nil, SMap: "none", TMap: "none"}}
	case "two-plain":
		return []c04IdxDef{{Src: []byte("a"), Tgt: []byte("a"), SMap: "none", TMap: "none"},
			{Src: []byte("b"), Tgt: []byte("b"), SMap: "none", TMap: "none"}}
	case "rows+inj":
		return []c04IdxDef{{Src: []byte("r"), Tgt: []byte("r"), SMap: "none", TMap: "none"},
			{Src: []byte("r"), Tgt: []byte("m"), SMap: "none", TMap: "pv:6d", Inj: true}}
	case "rows+noninj+inj":
		return []c04IdxDef{{Src: []byte("r"), Tgt: []byte("r"), SMap: "none", TMap: "none"},
			{Src: []byte("r"), Tgt: []byte("n"), SMap: "none", TMap: "pv:6e"},
			{Src: []byte("r"), Tgt: []byte("m"), SMap: "none", TMap: "pv:6d", Inj: true},
			{Src: []byte("q"), Tgt: []byte("q"), SMap: "none", TMap: "none"}}
	case "sql-like":
		return []c04IdxDef{{Src: []byte("r"), Tgt: []byte("p"), SMap: "none", TMap: "pk:70", Inj: true},
			{Src: []byte("r"), Tgt: []byte("s"), SMap: "pk:70", TMap: "pv:73", Inj: true}}
	case "catalog+rows":
		return []c04IdxDef{{Src: []byte("c"), Tgt: []byte("c"), SMap: "none", TMap: "none", Inj: true},
			{Src: []byte("r"), Tgt: []byte("r"), SMap: "none", TMap: "none"}}
	default: // sub-prefix: the secondary only covers part of the rows
		return []c04IdxDef{{Src: []byte("r"), Tgt: []byte("r"), SMap: "none", TMap: "none"},
			{Src: []byte("ra"), Tgt: []byte("m"), SMap: "none", TMap: "pv:6d", Inj: true}}
	}
}

// ---------------------------------------------------------------- history generator

type c04Gen struct {
	rng    *hx.Rng
	cfg    c04Cfg
	rows   [][]byte // key universe
	now    int64
	nextID uint64
	injMapped bool
}

func newC04Gen(rng *hx.Rng, cfg c04Cfg, defs []c04IdxDef) *c04Gen {
	g := &c04Gen{rng: rng, cfg: cfg, now: c04Now()}
	maxRow := cfg.MaxKeyLen - 3 // room for mapper prefix + value byte (and the pk prefix of the sql-like layout)
	srcs := map[string]bool{}
	for _, d := range defs {
		srcs[string(d.Src)] = true
		if d.Inj && d.TMap != "none" {
			g.injMapped = true
		}
	}
	long := make([]byte, 0, maxRow)
	for len(long) < maxRow-2 {
		long = append(long, 'x')
	}
	for s := range srcs {
		p := []byte(s)
		suffixes := [][]byte{{'1'}, {'2'}, {'1', '1'}, {'1', 0}, {0xff}, {0xff, 0xff}, {0}, []byte("k3"), []byte("k4")}
		// long shared prefixes and max-length keys
		for _, c := range []byte{'a', 'b', 0xff} {
			l := append(append([]byte{}, long[:maxRow-len(p)-1]...), c)
			suffixes = append(suffixes, l)
		}
		suffixes = append(suffixes, long[:(maxRow-len(p))/2])
		if len(p) == 0 {
			suffixes = append(suffixes, []byte("a1"), []byte("b1"))
		}
		n := 4 + rng.Intn(len(suffixes)-3)
		perm := c04Perm(rng, len(suffixes))
		for _, i := range perm[:n] {
			k := append(append([]byte{}, p...), suffixes[i]...)
			if len(k) > 0 && len(k) <= maxRow {
				g.rows = append(g.rows, k)
			}
		}
	}
	// keys no index covers (unless the default index is configured)
	g.rows = append(g.rows, []byte("zz-unindexed"), []byte("y"))
	sort.Slice(g.rows, func(i, j int) bool { return string(g.rows[i]) < string(g.rows[j]) })
	return g
}

func c04Perm(rng *hx.Rng, n int) []int {
	p := make([]int, n)
	for i := range p {
		p[i] = i
	}
	for i := n - 1; i > 0; i-- {
		j := rng.Intn(i + 1)
		p[i], p[j] = p[j], p[i]
	}
	return p
}

func (g *c04Gen) value() []byte {
	rng := g.rng
	switch rng.Intn(10) {
	case 0:
		return nil
	case 1:
		return []byte{byte('a' + rng.Intn(3))}
	case 2:
		v := rng.Bytes(200 + rng.Intn(300))
		v[0] = byte('a' + rng.Intn(3))
		return v
	default:
		v := rng.Bytes(1 + rng.Intn(24))
		v[0] = byte('a' + rng.Intn(4))
		return v
	}
}

func (g *c04Gen) tx() c04Tx {
	rng := g.rng
	n := 1 + rng.Intn(3)
	if rng.Chance(12) {
		n = 1 + rng.Intn(g.cfg.MaxTxEntries)
	}
	// an injective mapped index emits up to two KVTs per entry; idx._kvs has 2*MaxTxEntries*MaxBulkSize slots, so a
	// full transaction fits.  Only when c04ProbeKvsOverflow (child process) saw the overrun panic of a tree with the
	// old MaxTxEntries*MaxBulkSize buffer stay below it: the panic would take this harness down.
	if c04KvsPanicPresent && g.injMapped && n > g.cfg.MaxTxEntries/2 {
		n = g.cfg.MaxTxEntries / 2
	}
	if n > len(g.rows) {
		n = len(g.rows)
	}
	perm := c04Perm(rng, len(g.rows))
	tx := c04Tx{}
	for _, i := range perm[:n] {
		e := c04Ent{Key: g.rows[i], Val: g.value()}
		switch {
		case rng.Chance(12):
			e.Deleted = true
			if rng.Bool() {
				e.Val = nil
			}
		case rng.Chance(6):
			e.NonIdx = true
		}
		if rng.Chance(10) {
			if rng.Bool() {
				e.Exp = g.now - 1000000 - int64(rng.Intn(1000))
			} else {
				e.Exp = g.now + 1000000 + int64(rng.Intn(1000))
			}
		}
		tx.Ents = append(tx.Ents, e)
	}
	return tx
}

// ---------------------------------------------------------------- the case

type c04Case struct {
	r       *hx.Result
	rng     *hx.Rng
	no      int
	seed    uint64
	cfg     c04Cfg
	defs    []c04IdxDef
	ref     *c04Ref
	st      *store.ImmuStore
	dir     string
	lines   [][2]string // buffered correspondence lines of this case
	exact   bool        // Lean predicts the real content exactly (partition known)
	tainted bool
	f1      bool
	n       uint64 // committed txs
	thorough bool
	dropped bool
	log     *c04Logger
	// compaction stage (c04compact.go)
	hook   *c04DumpHook // hook of the appendable factory inside the dump of a compaction (nil: default appendables)
	ops    []string     // executed operations, for the replay of a failure
	kind   string       // replay kind ("" = store-case)
	caseNo int
	comps  []c04Compaction // every restart from a dump so far
	// set once a genuine, registered race of the repository has been WITNESSED in this case (c04compact.go): what the
	// oracle finds from then on is reported as a consequence of it
	raceSig, raceWhy string
	foreign          map[string]bool // receivers of doIndexing goroutines that are not this store's (present before Open)
	failedDumps      map[string]map[uint64]bool // index path -> ids of dump folders a failed compaction left behind
	oldErrs          []string        // errors the store logged before the last reopen
	unsafeRestart    bool            // a restart from a dump happened while an indexing goroutine may have been inside indexSince
}

func (c *c04Case) emit(op, impl string) {
	if !c.dropped {
		c.lines = append(c.lines, [2]string{op, impl})
	}
}

func (c *c04Case) replay(detail string) c04Replay {
	if c.kind != "" {
		return c04Replay{Kind: c.kind, Case: c.no, Seed: c.seed, CaseNo: c.caseNo, Cfg: c.cfg, Detail: detail, Ops: append([]string{}, c.ops...)}
	}
	return c04Replay{Kind: "store-case", Case: c.no, Seed: c.seed, Cfg: c.cfg, Detail: detail}
}

func (c *c04Case) fail(sig, desc string) {
	if c.raceSig != "" && !strings.HasPrefix(sig, "C04:harness:") && sig != c.raceSig {
		c.r.Count("compact.consequence-of-witnessed-race." + sig)
		desc = fmt.Sprintf("consequence of %s — observed as %s: %s", c.raceWhy, sig, desc)
		sig = c.raceSig
	} else if c.kind == "compact-case" && !strings.HasPrefix(sig, "C04:harness:") && sig != c04SigRestartRace && sig != c04SigIndexerGone && sig != c04SigRegressedSrc {
		if c.busyRestartWitness("found when a deviation was about to be reported") {
			c.fail(sig, desc)
			return
		}
		if why := c.foreignInsertLogged(); why != "" && c.unsafeRestart {
			// D1, second witness (see c04compact.go): the tree rejected an insert of the indexer because ANOTHER
			// inserter had moved its ts on
			c.r.OracleChecks++
			c.r.Count("compact.witness.foreign-insert-logged")
			c.raceSig = c04SigRestartRace
			c.raceWhy = "an indexing goroutine that outlived restartIndex inserted its bulk into the reopened dump (the store logged: " + why + ")"
			c.op("WITNESS %s", c.raceWhy)
			c.r.Fail(c04SigRestartRace, "the store logged "+why+": the tree of an index rejected the bulk of its indexer because another inserter had already moved the tree's ts beyond it — the indexing goroutine that restartIndex did not wait for inserted the bulk it had prepared against the closed tree into the reopened dump (between `idx.index = index` and resume() it still sees the cancelled ctx afterwards and returns: no second goroutine is left to be seen)", c.replay(c.raceWhy))
			c.lines = nil
			c.dropped = true
			c.fail(sig, desc)
			return
		}
		all, dup := c.ownIndexingGoroutines()
		var errs []string
		if c.log != nil {
			c.log.mu.Lock()
			errs = append(errs, c.log.errs...)
			c.log.mu.Unlock()
		}
		if len(errs) > 6 {
			errs = errs[len(errs)-6:]
		}
		desc += fmt.Sprintf(" [diagnosis: indexing goroutines %v, duplicated %v, %d indexes; errors logged by the store: %q]", all, dup, len(c.defs), errs)
	}
	c.r.Fail(sig, desc, c.replay(desc))
}

func mkMd(e c04Ent) *store.KVMetadata {
	if !e.Deleted && !e.NonIdx && e.Exp == 0 {
		return nil
	}
	md := store.NewKVMetadata()
	if e.Deleted {
		md.AsDeleted(true)
	}
	if e.NonIdx {
		md.AsNonIndexable(true)
	}
	if e.Exp != 0 {
		md.ExpiresAt(time.Unix(e.Exp, 0))
	}
	return md
}

func c04Commit(st *store.ImmuStore, tx c04Tx, async bool) (uint64, error) {
	otx, err := st.NewWriteOnlyTx(context.Background())
	if err != nil {
		return 0, err
	}
	for _, e := range tx.Ents {
		if err := otx.Set(e.Key, mkMd(e), e.Val); err != nil {
			otx.Cancel()
			return 0, err
		}
	}
	var hdr *store.TxHeader
	if async {
		hdr, err = otx.AsyncCommit(context.Background())
	} else {
		hdr, err = otx.Commit(context.Background())
	}
	if err != nil {
		return 0, err
	}
	return hdr.ID, nil
}

func (c *c04Case) open() error {
	if c.log != nil {
		c.log.mu.Lock()
		c.oldErrs = append(c.oldErrs, c.log.errs...)
		c.log.mu.Unlock()
	}
	c.log = &c04Logger{}
	opts := c.cfg.options().WithLogger(c.log)
	if c.hook != nil {
		opts.WithAppFactory(c.hook.factory())
		c.foreign = map[string]bool{}
		for k := range c04IndexingReceivers() {
			c.foreign[k] = true
		}
	}
	st, err := store.Open(c.dir, opts)
	if err != nil {
		return err
	}
	c.st = st
	return c.initIndexes()
}

func (c *c04Case) initIndexes() error {
	for _, d := range c.defs {
		if err := c.st.InitIndexing(d.spec()); err != nil {
			return fmt.Errorf("InitIndexing(%x): %w", d.Tgt, err)
		}
	}
	return nil
}

func (c *c04Case) closeIndexes() error {
	for _, d := range c.defs {
		if err := c.st.CloseIndexing(d.Tgt); err != nil {
			return fmt.Errorf("CloseIndexing(%x): %w", d.Tgt, err)
		}
	}
	return nil
}

func (c *c04Case) wait() bool {
	to := 45 * time.Second
	// poll: an indexer that logged ErrKeyNotFound never recovers (see the attributions below); do not wait it out
	var err error
	for start := time.Now(); time.Since(start) < to; {
		ctx, cancel := context.WithTimeout(context.Background(), 500*time.Millisecond)
		err = c.st.WaitForIndexingUpto(ctx, c.n)
		cancel()
		if err == nil {
			return true
		}
		if c.log != nil && c.log.has("key not found") && time.Since(start) > 1500*time.Millisecond {
			break
		}
	}
	// Attribution: with the key aliasing present, a version filed under a foreign key in the source index makes
	// `ReadTxEntry(prevTxID, key)` of a dependent injective indexer fail; indexSince returns the error and the
	// indexer retries the same bulk forever.
	if c.f1 && c.cfg.Bulk > 1 && c.cfg.Mode != "sync" {
		hasInj := false
		for _, d := range c.defs {
			hasInj = hasInj || d.Inj
		}
		for i, d := range c.defs {
			if !hasInj || d.SMap != "none" || d.TMap != "none" {
				continue
			}
			real, derr := realDump(c.st, d.Tgt, c.n, 1000000)
			if derr != nil {
				continue
			}
			diff := c.ref.classify(i, real, c.cfg.Bulk, false)
			if diff.sigs[c04SigAlias] != "" && diff.sigs[c04SigContent] == "" {
				c.r.Count("store.stuck.mapped-indexer-behind-aliased-source")
				c.fail(c04SigAlias, fmt.Sprintf("%s — consequence: a dependent injective indexer is stuck for good (WaitForIndexingUpto(%d): %v; mode %s, MaxBulkSize=%d)", diff.sigs[c04SigAlias], c.n, err, c.cfg.Mode, c.cfg.Bulk))
				c.lines = nil
				c.dropped = true
				return false
			}
		}
	}
	// Attribution 2: the source lookup of an injective indexer (GetBetween(sourceKey, 1, asOf)) answers with a
	// foreign version (history-log chain overrun); ReadTxEntry(foreignTx, key) then fails and the indexer never advances.
	if desc := c.stuckByForeignLookup(); desc != "" {
		c.r.Count("store.stuck.injective-indexer-foreign-prev-lookup")
		c.fail(c04SigGetBtwHL, desc+fmt.Sprintf(" — consequence: the injective indexer is stuck for good (WaitForIndexingUpto(%d): %v; mode %s, MaxBulkSize=%d)", c.n, err, c.cfg.Mode, c.cfg.Bulk))
		c.lines = nil
		c.dropped = true
		return false
	}
	// Attribution 3: the indexer reports ErrKeyNotFound.  In indexSince that can only come from
	// ReadTxEntry(prevTxID, key) of the injective branch: the source index holds, for that source key, a version
	// whose tx never wrote the key — a relocated version (aliasing, needs MaxBulkSize>1) or a foreign version
	// returned by GetBetween after the history-log chain.
	if c.log != nil && c.log.has("key not found") {
		lag := false
		for _, d := range c.defs {
			if d.Inj {
				lag = true
			}
		}
		if lag {
			sig := c04SigGetBtwHL
			why := "the source lookup GetBetween(sourceKey,1,asOf) answered with a version of a foreign transaction"
			if c.f1 && c.cfg.Bulk > 1 && c.cfg.Mode != "sync" {
				sig = c04SigAlias
				why = "the source index holds a relocated version (key aliasing) or GetBetween answered with a foreign version"
			}
			c.r.Count("store.stuck.injective-indexer-readtxentry-keynotfound")
			c.fail(sig, fmt.Sprintf("injective indexer fails with %q and retries the same bulk with growing back-off (WaitForIndexingUpto(%d): %v; mode %s, MaxBulkSize=%d): %s", c.log.last(), c.n, err, c.cfg.Mode, c.cfg.Bulk, why))
			c.lines = nil
			c.dropped = true
			return false
		}
	}
	pos := " last logged error: " + c.log.last() + ";"
	for _, d := range c.defs {
		ctx, cancel := context.WithTimeout(context.Background(), 2*time.Second)
		if snap, serr := c.st.SnapshotMustIncludeTxID(ctx, d.Tgt, 0); serr == nil {
			pos += fmt.Sprintf(" index %x at ts %d;", d.Tgt, snap.Ts())
			snap.Close()
		} else {
			pos += fmt.Sprintf(" index %x: %v;", d.Tgt, serr)
		}
		cancel()
	}
	c.fail(c04SigStuck, fmt.Sprintf("WaitForIndexingUpto(%d): %v (mode %s, bulk %d);%s", c.n, err, c.cfg.Mode, c.cfg.Bulk, pos))
	return false
}

func (c *c04Case) stuckByForeignLookup() string {
	for _, d := range c.defs {
		if !d.Inj {
			continue
		}
		ctx, cancel := context.WithTimeout(context.Background(), 5*time.Second)
		snap, err := c.st.SnapshotMustIncludeTxID(ctx, d.Tgt, 0)
		cancel()
		if err != nil {
			continue
		}
		ts := snap.Ts()
		snap.Close()
		if ts >= c.n {
			continue
		}
		for _, tx := range c.ref.log {
			if tx.ID <= ts || tx.ID > ts+uint64(c.cfg.Bulk) {
				continue
			}
			for _, e := range tx.Ents {
				if e.NonIdx || !c04HasPrefix(e.Key, d.Src) {
					continue
				}
				sk := c04ApplyMap(d.SMap, e.Key, e.Val)
				if ts == 0 {
					continue
				}
				v, err := c.st.GetBetween(context.Background(), sk, 1, ts)
				if err != nil {
					continue
				}
				// is tx v.Tx() a transaction that wrote this row at all?
				ptx := c.ref.txByID(v.Tx())
				has := false
				if ptx != nil {
					for _, pe := range ptx.Ents {
						if string(pe.Key) == string(e.Key) {
							has = true
						}
					}
				}
				if !has {
					return fmt.Sprintf("index %x is stuck at tx %d; its next lookup GetBetween(%x, 1, %d) on the source index answers tx %d (revision %d), a transaction that never wrote that key", d.Tgt, ts, sk, ts, v.Tx(), v.HC())
				}
			}
		}
	}
	return ""
}

func (c *c04Case) leanMode() string {
	if c.f1 {
		return "aliased"
	}
	return "owned"
}

func (c *c04Case) okTs() string {
	xs := make([]string, len(c.defs))
	for i := range xs {
		xs[i] = fmt.Sprint(c.n)
	}
	return "ok " + c04List(xs)
}

// one batch of transactions in the mode of the case
func (c *c04Case) batch(txsIn []c04Tx) error {
	nTx := len(txsIn)
	switch c.cfg.Mode {
	case "sync":
		for i := 0; i < nTx; i++ {
			tx := txsIn[i]
			id, err := c04Commit(c.st, tx, false)
			if err != nil {
				return fmt.Errorf("commit: %w", err)
			}
			tx.ID = id
			c.n = id
			c.ref.apply(tx)
			c.emit(tx.line(), fmt.Sprintf("ok %d", len(tx.Ents)))
			c.r.Count("store.tx.sync")
		}
		if !c.wait() {
			return errors.New("stuck")
		}
		c.emit("c04 index "+c.leanMode()+" 1", c.okTs())
	case "backlog":
		if err := c.closeIndexes(); err != nil {
			return err
		}
		for i := 0; i < nTx; i++ {
			tx := txsIn[i]
			id, err := c04Commit(c.st, tx, c.rng.Bool())
			if err != nil {
				return fmt.Errorf("commit: %w", err)
			}
			tx.ID = id
			c.n = id
			c.ref.apply(tx)
			c.emit(tx.line(), fmt.Sprintf("ok %d", len(tx.Ents)))
			c.r.Count("store.tx.backlog")
		}
		if err := c.st.WaitForTx(context.Background(), c.n, false); err != nil {
			return err
		}
		if err := c.initIndexes(); err != nil {
			return err
		}
		if !c.wait() {
			return errors.New("stuck")
		}
		c.emit(fmt.Sprintf("c04 index %s %d", c.leanMode(), c.cfg.Bulk), c.okTs())
	default: // burst
		var mu sync.Mutex
		var wg sync.WaitGroup
		var got []c04Tx
		var firstErr error
		txs := make([][]c04Tx, c.cfg.Writers)
		for i, tx := range txsIn {
			txs[i%c.cfg.Writers] = append(txs[i%c.cfg.Writers], tx)
		}
		for w := 0; w < c.cfg.Writers; w++ {
			wg.Add(1)
			go func(w int) {
				defer wg.Done()
				defer func() {
					if p := recover(); p != nil {
						mu.Lock()
						firstErr = fmt.Errorf("panic in writer: %v", p)
						mu.Unlock()
					}
				}()
				for _, tx := range txs[w] {
					id, err := c04Commit(c.st, tx, true)
					mu.Lock()
					if err != nil {
						if firstErr == nil {
							firstErr = err
						}
					} else {
						tx.ID = id
						got = append(got, tx)
					}
					mu.Unlock()
				}
			}(w)
		}
		wg.Wait()
		if firstErr != nil {
			return fmt.Errorf("burst commit: %w", firstErr)
		}
		sort.Slice(got, func(i, j int) bool { return got[i].ID < got[j].ID })
		for _, tx := range got {
			if tx.ID != c.n+1 {
				return fmt.Errorf("burst: tx ids not consecutive (%d after %d)", tx.ID, c.n)
			}
			c.n = tx.ID
			c.ref.apply(tx)
			c.emit(tx.line(), fmt.Sprintf("ok %d", len(tx.Ents)))
			c.r.Count("store.tx.burst")
		}
		if !c.wait() {
			return errors.New("stuck")
		}
		c.emit("c04 index owned 1", c.okTs())
	}
	return nil
}

func (c *c04Case) maintenance() error {
	rng := c.rng
	switch rng.Intn(6) {
	case 0:
		c.r.Count("store.op.flush")
		if err := c.st.FlushIndexes([]float32{0, 10, 50, 100}[rng.Intn(4)], rng.Bool()); err != nil {
			return fmt.Errorf("FlushIndexes: %w", err)
		}
	case 1:
		c.r.Count("store.op.compact")
		err := c.st.CompactIndexes()
		if err != nil && !errors.Is(err, tbtree.ErrCompactionThresholdNotReached) {
			return fmt.Errorf("CompactIndexes: %w", err)
		}
		if err != nil {
			c.r.Count("store.op.compact.thld-not-reached")
		}
	case 2:
		c.r.Count("store.op.reopen")
		if err := c.st.Close(); err != nil {
			return fmt.Errorf("Close: %w", err)
		}
		if err := c.open(); err != nil {
			return fmt.Errorf("reopen: %w", err)
		}
		if !c.wait() {
			return errors.New("stuck after reopen")
		}
	case 3:
		c.r.Count("store.op.flush+compact")
		if err := c.st.FlushIndexes(100, true); err != nil {
			return fmt.Errorf("FlushIndexes: %w", err)
		}
		err := c.st.CompactIndexes()
		if err != nil && !errors.Is(err, tbtree.ErrCompactionThresholdNotReached) {
			return fmt.Errorf("CompactIndexes: %w", err)
		}
	default:
		c.r.Count("store.op.none")
	}
	return nil
}

// checkpoint: dump every index, classify content deviations, read everything through every API
func (c *c04Case) checkpoint(final bool) error {
	now := c04Now()
	if !c.wait() {
		return errors.New("stuck")
	}
	taintedIdx := make([]bool, len(c.defs))
	noLean := make([]bool, len(c.defs))
	var reals []c04Content
	for i, d := range c.defs {
		real, err := realDump(c.st, d.Tgt, c.n, 1000000)
		if err != nil {
			return fmt.Errorf("dump index %d: %w", i, err)
		}
		reals = append(reals, real)
		// is the source index of an injective index tainted?
		srcTainted := false
		if d.Inj {
			for j, d2 := range c.defs {
				if j != i && taintedIdx[j] {
					// d2 covers the source keys of d ?
					sk := c04ApplyMap(d.SMap, append(append([]byte{}, d.Src...), 'x'), []byte{'a'})
					if c04HasPrefix(sk, d2.Tgt) {
						srcTainted = true
					}
				}
			}
		}
		diff := c.ref.classify(i, real, c.cfg.Bulk, srcTainted)
		if c.kind == "compact-case" && srcTainted && diff.sigs[c04SigAlias] != "" {
			// (the store cases attribute this to the key aliasing; here the source deviates for another reason)
			diff = c04Diff{tainted: true}
			diff.add(c04SigContent, fmt.Sprintf("index %d (%x), injective: differs from the log downstream of a source index that differs from the log", i, d.Tgt))
		}
		if diff.sigs != nil && c.kind == "compact-case" && c.raceSig == "" && d.Inj {
			// compaction stage: an injective indexer that read its source index while a compaction had regressed it
			if desc, ok := c.explainedByRegressedSource(i, real); ok {
				diff = c04Diff{tainted: true}
				diff.add(c04SigRegressedSrc, desc)
			}
		}
		c.r.OracleChecks++
		c.r.Eval(fmt.Sprintf("content/%s/%s/b%d/i%d", c.cfg.Mode, c.cfg.Layout, c.cfg.Bulk, i), len(c.ref.idx[i]) > 1)
		if diff.sigs != nil {
			c.r.Count("store.content.deviates")
			for sig, desc := range diff.sigs {
				c.fail(sig, desc)
			}
			if diff.tainted || diff.sigs[c04SigContent] != "" {
				taintedIdx[i] = true
			}
			if srcTainted || diff.sigs[c04SigGetBtwHL] != "" {
				noLean[i] = true
			}
		} else {
			c.r.Count("store.content.equal-to-log")
		}
		// one live mapped key per row (oracle on the real content)
		if d.Inj && d.TMap != "none" {
			c.checkOneLive(i, real, now, diff)
		}
	}
	for i := range c.defs {
		if taintedIdx[i] {
			c.tainted = true
		}
	}
	for i, d := range c.defs {
		// the Lean model predicts the content exactly when the bulk partition is known (sync/backlog) — except for
		// indexes whose content depends on physical state the model does not have (lookups in an aliased source
		// tree hitting the history-log overrun)
		sendLean := (c.exact && !noLean[i]) || (!c.exact && !c.tainted)
		c.readAll(i, d, reals[i], now, sendLean, final)
	}
	return nil
}

func (c *c04Case) checkOneLive(i int, real c04Content, now int64, diff c04Diff) {
	d := c.defs[i]
	rows := map[string]map[string]bool{} // source key -> live target keys
	for _, tx := range c.ref.log {
		for _, e := range tx.Ents {
			if e.NonIdx || !c04HasPrefix(e.Key, d.Src) {
				continue
			}
			sk := c04ApplyMap(d.SMap, e.Key, e.Val)
			tk := c04ApplyMap(d.TMap, sk, e.Val)
			vs := real[string(tk)]
			if len(vs) > 0 && !vs[len(vs)-1].Deleted {
				if rows[string(sk)] == nil {
					rows[string(sk)] = map[string]bool{}
				}
				rows[string(sk)][string(tk)] = true
			}
		}
	}
	c.r.OracleChecks++
	for sk, live := range rows {
		if len(live) > 1 {
			if diff.sigs[c04SigInjBulk] != "" || diff.sigs[c04SigTombMd] != "" || diff.sigs[c04SigAlias] != "" || diff.sigs[c04SigRegressedSrc] != "" {
				c.r.Count("store.onelive.violated-by-known-finding")
				return
			}
			c.fail(c04SigStaleMap, fmt.Sprintf("index %d (%x): row %x has %d live mapped keys", i, d.Tgt, []byte(sk), len(live)))
			return
		}
	}
}

func (c *c04Case) cmp(sig, what, impl, want string) {
	c.r.OracleChecks++
	if impl != want {
		c.fail(sig, fmt.Sprintf("%s: got %q, the index content says %q", what, impl, want))
	}
}

func (c *c04Case) readAll(i int, d c04IdxDef, real c04Content, now int64, sendLean bool, final bool) {
	rng := c.rng
	st := c.st
	lean := func(op, impl string) {
		if sendLean {
			c.emit(op, impl)
		} else {
			c.r.Count("store.lean.skipped-partition-unknown")
		}
	}
	// probe keys: everything in the index, everything the log says should be there, some absent ones
	keyset := map[string]bool{}
	for k := range real {
		keyset[k] = true
	}
	for k := range c.ref.idx[i] {
		keyset[k] = true
	}
	keyset[string(append(append([]byte{}, d.Tgt...), []byte("absent")...))] = true
	keyset[string(append(append([]byte{}, d.Tgt...), 0))] = true
	keys := make([]string, 0, len(keyset))
	for k := range keyset {
		// the store routes a key to the index whose target prefix it carries; versions the aliasing defect filed
		// under a foreign prefix are unreachable by key (they still count in the content comparison above)
		if c04HasPrefix([]byte(k), d.Tgt) {
			keys = append(keys, k)
		} else {
			c.r.Count("store.content.key-with-foreign-prefix")
		}
	}
	sort.Strings(keys)
	budget := 40
	if c.thorough {
		budget = 200
	}
	if len(keys) > budget {
		p := c04Perm(rng, len(keys))[:budget]
		sort.Ints(p)
		ks2 := make([]string, 0, budget)
		for _, x := range p {
			ks2 = append(ks2, keys[x])
		}
		keys = ks2
	}
	snap, err := st.SnapshotMustIncludeTxID(context.Background(), d.Tgt, c.n)
	if err != nil {
		c.fail(c04SigScan, fmt.Sprintf("SnapshotMustIncludeTxID: %v", err))
		return
	}
	defer snap.Close()
	for _, ks := range keys {
		k := []byte(ks)
		if len(k) == 0 {
			continue
		}
		vs := real[ks]
		hc := uint64(len(vs))
		// Get
		g := realGet(st, k)
		c.cmp(c04SigGet, fmt.Sprintf("Get(%x) index %d", k, i), g, c04Get(real, now, k))
		lean(fmt.Sprintf("c04 get %d %d %s", i, now, hx.Hex(k)), g)
		c.r.Count("store.read.get." + c04Class(g))
		// Snapshot.Get
		if v, err := snap.Get(context.Background(), k); err != nil {
			c.cmp(c04SigSnapGet, fmt.Sprintf("Snapshot.Get(%x)", k), c04Err(err), c04Get(real, now, k))
		} else {
			c.cmp(c04SigSnapGet, fmt.Sprintf("Snapshot.Get(%x)", k), c04RefOf(v), c04Get(real, now, k))
		}
		// GetBetween
		pairs := [][2]uint64{{1, c.n}, {0, 0}, {5, 3}}
		if hc > 0 {
			t := vs[rng.Intn(len(vs))].Tx
			pairs = append(pairs, [2]uint64{t, t}, [2]uint64{1, t}, [2]uint64{t + 1, c.n + 3}, [2]uint64{0, t})
			if t > 1 {
				pairs = append(pairs, [2]uint64{1, t - 1})
			}
		}
		for _, p := range pairs {
			gb := realGetBetween(st, k, p[0], p[1])
			want := c04GetBetween(real, k, p[0], p[1])
			c.r.Count("store.read.getbetween." + c04Class(gb))
			if gb != want && want == "err:notfound" && c04Class(gb) == "ok" && !ownVersion(vs, gb) {
				// tbtree lastUpdateBetween walked past the key's history-log chain and returned a version of another key
				c.r.OracleChecks++
				c.fail(c04SigGetBtwHL, fmt.Sprintf("GetBetween(%x,%d,%d) index %d: the key has no version in the range (its versions: %s) but %q was returned", k, p[0], p[1], i, txsOf(vs), gb))
				c.r.Count("store.lean.skipped-getbetween-history-log-overrun")
				continue
			}
			c.cmp(c04SigGetBtw, fmt.Sprintf("GetBetween(%x,%d,%d) index %d", k, p[0], p[1], i), gb, want)
			lean(fmt.Sprintf("c04 getb %d %s %d %d", i, hx.Hex(k), p[0], p[1]), gb)
		}
		// History: all offsets 0..hc+1, both orders, several limits (sampled when long)
		type hq struct {
			off   uint64
			desc  bool
			limit int
		}
		var hqs []hq
		for off := uint64(0); off <= hc+1; off++ {
			for _, desc := range []bool{false, true} {
				for _, lim := range []int{1, 2, int(hc) + 1} {
					hqs = append(hqs, hq{off, desc, lim})
				}
			}
		}
		hqs = append(hqs, hq{0, false, 0}, hq{0, true, 3})
		maxH := 14
		if c.thorough {
			maxH = 60
		}
		if len(hqs) > maxH {
			p := c04Perm(rng, len(hqs))[:maxH]
			h2 := make([]hq, 0, maxH)
			for _, x := range p {
				h2 = append(h2, hqs[x])
			}
			hqs = h2
		}
		for qi, q := range hqs {
			h := realHistory(st, k, q.off, q.desc, q.limit)
			c.cmp(c04SigHist, fmt.Sprintf("History(%x,off=%d,desc=%v,limit=%d) index %d", k, q.off, q.desc, q.limit, i), h, c04History(real, k, q.off, q.desc, q.limit))
			lean(fmt.Sprintf("c04 hist %d %s %d %s %d", i, hx.Hex(k), q.off, b01(q.desc), q.limit), h)
			c.r.Count("store.read.history." + c04Class(h))
			if qi < 4 && q.limit > 0 {
				svs, shc, serr := snap.History(k, q.off, q.desc, q.limit)
				sh := fmtHist(svs, shc, serr)
				c.r.OracleChecks++
				if sh != c04History(real, k, q.off, q.desc, q.limit) {
					c.fail(c04SigSnapHist, fmt.Sprintf("Snapshot.History(%x,off=%d,desc=%v,limit=%d): got %q, expected %q", k, q.off, q.desc, q.limit, sh, c04History(real, k, q.off, q.desc, q.limit)))
				}
				// `shist` = the model of Snapshot.History itself (key_reader.go)
				lean(fmt.Sprintf("c04 shist %d %s %d %s %d", i, hx.Hex(k), q.off, b01(q.desc), q.limit), sh)
			}
		}
		// GetWithPrefix
		for _, pl := range []int{len(d.Tgt), len(k), (len(d.Tgt) + len(k) + 1) / 2} {
			if pl > len(k) {
				pl = len(k)
			}
			pfx := k[:pl]
			var neq []byte
			switch rng.Intn(4) {
			case 0:
				neq = k
			case 1:
				neq = []byte(keys[rng.Intn(len(keys))])
			}
			gw := realGetWithPrefix(st, pfx, neq)
			c.cmp(c04SigGwp, fmt.Sprintf("GetWithPrefix(%x,%x) index %d", pfx, neq, i), gw, c04GetWithPrefix(real, now, pfx, neq))
			lean(fmt.Sprintf("c04 gwp %d %d %s %s", i, now, hx.Hex(pfx), hx.Hex(neq)), gw)
			c.r.Count("store.read.getwithprefix." + c04Class(gw))
		}
	}
	// key readers
	nScan := 14
	if c.thorough {
		nScan = 50
	}
	pick := func() []byte {
		switch rng.Intn(5) {
		case 0:
			return nil
		case 1:
			k := []byte(keys[rng.Intn(len(keys))])
			if len(k) > 1 {
				return k[:1+rng.Intn(len(k))]
			}
			return k
		default:
			return []byte(keys[rng.Intn(len(keys))])
		}
	}
	for s := 0; s < nScan; s++ {
		rg := c04Range{Pfx: d.Tgt, Desc: rng.Bool(), InclSeek: rng.Bool(), InclEnd: rng.Bool(),
			Filters: []string{"", "d", "e", "ed", "de"}[rng.Intn(5)]}
		switch {
		case s == 0:
			rg = c04Range{Pfx: d.Tgt, Filters: "ed"}
		case s == 1:
			rg = c04Range{Pfx: d.Tgt, Desc: true}
		case s == 2:
			rg = c04Range{Pfx: d.Tgt, Hist: true, Desc: rng.Bool()}
		default:
			rg.Seek = pick()
			rg.End = pick()
			if rng.Chance(30) {
				p := pick()
				if c04HasPrefix(p, d.Tgt) {
					rg.Pfx = p
				}
			}
			if rng.Chance(25) {
				rg.Offset = uint64(rng.Intn(5))
			}
			rg.Hist = rng.Chance(15)
		}
		if len(rg.Pfx) == 0 && len(d.Tgt) == 0 && rng.Chance(50) {
			rg.Pfx = nil
		}
		out, err := realScan(snap, rg, 1000000)
		if err != nil {
			c.fail(c04SigScan, fmt.Sprintf("index %d %+v: %v", i, rg, err))
			continue
		}
		c.cmp(c04SigScan, fmt.Sprintf("KeyReader index %d %s", i, rg.line(i, now)), out, c04Scan(real, now, rg))
		lean(rg.line(i, now), out)
		c.r.Count("store.read.scan")
		if out == "_" {
			c.r.Count("store.read.scan.empty")
		}
	}
}

// is the answer "tx:hc:vlen:hval:…" one of the key's own versions?
func ownVersion(vs []c04Ver, ans string) bool {
	for j, v := range vs {
		if v.ref(j+1) == ans {
			return true
		}
	}
	return false
}

func txsOf(vs []c04Ver) string {
	var o []string
	for _, v := range vs {
		o = append(o, fmt.Sprint(v.Tx))
	}
	return "[" + strings.Join(o, " ") + "]"
}

func c04Class(s string) string {
	if len(s) >= 4 && s[:4] == "err:" {
		if len(s) > 24 {
			return s[:24]
		}
		return s
	}
	return "ok"
}

func c04StoreCase(r *hx.Result, rng *hx.Rng, caseNo int, thorough bool, f1 bool, forced *c04Cfg, script [][]c04Tx) {
	c04StoreCaseSeed(r, rng.U64(), caseNo, thorough, f1, forced, script)
}

func c04StoreCaseSeed(r *hx.Result, seed uint64, caseNo int, thorough bool, f1 bool, forced *c04Cfg, script [][]c04Tx) {
	crng := hx.NewRng(seed)
	cfg := c04GenCfg(crng, caseNo)
	if forced != nil {
		cfg = *forced
	}
	c := &c04Case{r: r, rng: crng, no: r.NextCase(), seed: seed, cfg: cfg, thorough: thorough, f1: f1}
	c.defs = c04Layout(cfg.Layout)
	c.ref = newC04Ref(c.defs)
	c.exact = cfg.Mode != "burst"
	c.dir = hx.TempDir("c04")
	defer os.RemoveAll(c.dir)
	if m, ok := r.Extra["case_seeds"].(map[string]interface{}); ok {
		m[fmt.Sprint(c.no)] = map[string]interface{}{"seed": fmt.Sprint(seed), "caseNo": caseNo, "mode": cfg.Mode, "layout": cfg.Layout, "bulk": cfg.Bulk}
	}
	r.Count("store.case." + cfg.Mode)
	r.Count(fmt.Sprintf("store.cfg.bulk.%02d", cfg.Bulk))
	r.Count("store.cfg.layout." + cfg.Layout)
	r.Count(fmt.Sprintf("store.cfg.flushThld.%d", cfg.FlushThld))
	r.Count(fmt.Sprintf("store.cfg.cache.%d", cfg.CacheSize))
	r.Count(fmt.Sprintf("store.cfg.nodeSizeSlack.%d", cfg.NodeSize-c04RequiredNodeSize(cfg.MaxKeyLen)))
	r.Count(fmt.Sprintf("store.cfg.maxBuffered.%d", cfg.MaxBuffered))
	if cfg.Adaptive {
		r.Count("store.cfg.adaptive")
	}
	t0 := time.Now()
	defer func() {
		if p := recover(); p != nil {
			c.fail("C04:panic:store-case", fmt.Sprintf("panic: %v", p))
		}
		if c.st != nil {
			c.st.Close()
		}
		if d := time.Since(t0); d > 4*time.Second {
			c.r.Count("store.case.slow(>4s)")
			if sl, ok := r.Extra["slow_cases"].([]string); ok || r.Extra["slow_cases"] == nil {
				r.Extra["slow_cases"] = append(sl, fmt.Sprintf("case %d %s/%s bulk %d adaptive %v timeoutMs %d: %.1fs (last log: %s)", c.no, cfg.Mode, cfg.Layout, cfg.Bulk, cfg.Adaptive, cfg.TimeoutMs, d.Seconds(), c.log.last()))
			}
		}
		// flush the buffered correspondence lines of this case
		for _, l := range c.lines {
			r.Corr(l[0], l[1])
		}
	}()
	if err := c.open(); err != nil {
		c.fail("C04:harness:open", err.Error())
		return
	}
	c.emit("c04 new", "ok")
	c.emit(c04Q.line(), "ok")
	for i, d := range c.defs {
		c.emit(d.line(), fmt.Sprint(i))
	}
	g := newC04Gen(crng, cfg, c.defs)
	phases := 1 + crng.Intn(3)
	if script != nil {
		phases = len(script)
	}
	for ph := 0; ph < phases; ph++ {
		nTx := 3 + crng.Intn(14)
		if thorough {
			nTx = 5 + crng.Intn(40)
		}
		var txs []c04Tx
		if script != nil {
			txs = script[ph]
		} else {
			for i := 0; i < nTx; i++ {
				txs = append(txs, g.tx())
			}
		}
		if err := c.batch(txs); err != nil {
			if err.Error() != "stuck" {
				c.fail("C04:harness:batch", err.Error())
			}
			return
		}
		if script == nil {
			if err := c.maintenance(); err != nil {
				c.fail("C04:maintenance:error", err.Error())
				return
			}
		}
		if ph == phases-1 || crng.Chance(40) {
			if err := c.checkpoint(ph == phases-1); err != nil {
				if err.Error() != "stuck" {
					c.fail("C04:harness:checkpoint", err.Error())
				}
				return
			}
		}
	}
	if len(r.Samples) < 3 {
		r.Sample(map[string]interface{}{"case": c.no, "cfg": cfg, "txs": c.n, "indexes": len(c.defs), "lines": len(c.lines)})
	}
}
