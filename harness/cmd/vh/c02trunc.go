package main

// C02: maintenance operations as ordinary ops of the histories (strengthening for the seeded change c02-b).
//
// "Once a transaction has been reported committed, its … VALUES … never change … not after index flush or
// compaction, … or value-log truncation", quantified over "all maintenance operations interleaved with" the
// committers.  The first version of the check issued TruncateUptoTx only inside strictly sequential histories,
// where the order of the values in a value log IS the order of the tx ids, so every cut is trivially safe.  What
// makes truncation delicate is that a committer appends its values to a value log BEFORE its tx id is assigned:
// with concurrent committers (or replicated txs arriving out of order) a later tx can own values that lie BELOW
// those of an earlier one, and the cut must look at every committed tx at or after the cut point.
//
// This file adds
//  (1) inversion episodes, deterministic and through the public API only, as ops of the histories:
//      own flavour    – a CommitWith whose callback is parked inside the commit critical section (its values are
//                       written only after the callback returns) while 1…3 ordinary committers append their values
//                       and queue for the critical section; released, the parked tx gets the lowest id and the
//                       HIGHEST value offsets, the queued ones follow in any order;
//      replica flavour – ReplicateTx of a tx L = last+1+d (d ≥ 1) is started early: its values go to a value log,
//                       then it waits for tx L-1; the txs last+1 … L-1 are replicated in order meanwhile, with
//                       maintenance ops (truncation included: this is the in-flight-writer race, C14's K6) between
//                       them; then L commits as the LAST tx with the LOWEST offsets.
//      The state signal "the values are in a value log" is a counter of Append calls on the value logs (an
//      AppFactory wrapper): no sleeps decide the schedule.
//  (2) maintenance ops everywhere: TruncateUptoTx(n) for n = frontier, frontier-1, the ids of the last episode,
//      random, 0 and frontier+1 (must delete nothing), repeated / older cuts; FlushIndexes; CompactIndexes (with a
//      compaction threshold that makes it real); index reopen (CloseIndexing + InitIndexing on the live store);
//      close/reopen — in the sequential, replica and concurrent histories (a maintenance goroutine racing the
//      writers).  After every one of them c.after() re-reads the WHOLE history, values included (c02ref.go).
//  (3) the tie of the truncation with the Lean model (Store/Truncate.lean through the driver's `c14 …` ops, the
//      run-level theorem is Props/C02.lean `committed_values_survive_maintenance`): placement of every committed
//      tx as the tx log records it, geometry of the value logs as on disk; compared: outcome class of the
//      truncation, surviving chunk files of every value log, per-entry readability of every committed tx.

import (
	"context"
	"errors"
	"fmt"
	"os"
	"path/filepath"
	"sort"
	"strconv"
	"strings"
	"sync"
	"sync/atomic"
	"time"

	"github.com/codenotary/immudb/embedded/appendable"
	"github.com/codenotary/immudb/embedded/appendable/multiapp"
	"github.com/codenotary/immudb/embedded/store"

	"verif/harness/internal/hx"
)

const c02SigInflight = "C02:truncate:inflight-writer-values-deleted"

// ---------- value-log instrumentation ----------

type c02VTie struct {
	cnt  atomic.Int64 // Append calls on the value logs
	tie  bool         // send the truncations to the truncation model
	sent uint64       // committed txs already sent to it
	vEnd map[int]int64
	// ids of the last inversion episode (cut points of interest)
	invLo, invHi uint64
	indexGone    bool // CloseIndexing succeeded, InitIndexing did not
}

type c02CountingApp struct {
	appendable.Appendable
	n *atomic.Int64
}

func (a *c02CountingApp) Append(bs []byte) (int64, int, error) {
	off, n, err := a.Appendable.Append(bs)
	a.n.Add(1)
	return off, n, err
}

func (vt *c02VTie) wrapOptions(o *store.Options) *store.Options {
	o = o.WithAppFactory(func(root, sub string, ao *multiapp.Options) (appendable.Appendable, error) {
		a, err := multiapp.Open(filepath.Join(root, sub), ao)
		if err == nil && strings.HasPrefix(sub, "val_") {
			return &c02CountingApp{Appendable: a, n: &vt.cnt}, nil
		}
		return a, err
	})
	// a compaction threshold that lets CompactIndexes do something on these small histories
	o.WithIndexOptions(store.DefaultIndexOptions().WithCompactionThld(1).WithFlushThld(4).WithSyncThld(8).
		WithDelayDuringCompaction(0))
	return o
}

// configuration of the truncation histories: values in value logs, chunk files small against the values
func genC02TruncCfg(rng *hx.Rng) *c02Cfg {
	c := genC02Cfg(rng)
	c.embedded = false
	c.ext = false
	c.fileSize = []int{160, 256, 256, 512, 512, 1024, 4096}[rng.Intn(7)]
	c.maxValueLen = []int{300, 1500, 1500}[rng.Intn(3)]
	c.ioConc = []int{1, 1, 1, 2, 3}[rng.Intn(5)]
	if c.maxActive < 8 {
		c.maxActive = 8 + rng.Intn(12)
	}
	return c
}

func nonEmptyValues(es []c02Entry) int64 {
	n := int64(0)
	for _, e := range es {
		if len(e.value) > 0 {
			n++
		}
	}
	return n
}

// entries of the txs of an episode: 1…3 entries, first value non-empty and comparable with the chunk size
func (vt *c02VTie) genEntries(c *c02Case) []c02Entry {
	n := 1 + c.rng.Intn(c02MinI(c.cfg.maxTxEntries, 3))
	F := c.cfg.fileSize
	var es []c02Entry
	for i := 0; i < n; i++ {
		c.keyN++
		k := []byte(fmt.Sprintf("t%d", c.keyN))
		if len(k) > c.cfg.maxKeyLen {
			k = k[:c.cfg.maxKeyLen]
		}
		lo, hi := F/3, 2*F
		if hi > c.cfg.maxValueLen {
			hi = c.cfg.maxValueLen
		}
		if lo >= hi {
			lo = hi / 2
		}
		ln := lo + c.rng.Intn(hi-lo+1)
		if ln < 1 {
			ln = 1
		}
		if i > 0 && c.rng.Chance(25) {
			ln = c.rng.Intn(8) // small or empty values behind the first one
		}
		es = append(es, c02Entry{key: k, value: c.rng.Bytes(ln)})
	}
	return es
}

func (vt *c02VTie) waitStaged(before, want int64, done func() bool) bool {
	for k := 0; k < 40000; k++ {
		if vt.cnt.Load() >= before+want {
			return true
		}
		if done != nil && done() {
			return false
		}
		time.Sleep(250 * time.Microsecond)
	}
	return false
}

// ---------- tie with the truncation model ----------

func c02DecodeVOff(vOff int64) (int, int64) { return int(byte(vOff >> 56)), vOff & ((1 << 55) - 1) }

func (c *c02Case) chunkFiles(v int) []int {
	var ids []int
	es, _ := os.ReadDir(filepath.Join(c.dir, fmt.Sprintf("val_%d", v-1)))
	for _, e := range es {
		if n := e.Name(); strings.HasSuffix(n, ".val") {
			if k, err := strconv.Atoi(strings.TrimSuffix(n, ".val")); err == nil {
				ids = append(ids, k)
			}
		}
	}
	sort.Ints(ids)
	return ids
}

func c02Ints(xs []int) string {
	if len(xs) == 0 {
		return "_"
	}
	s := make([]string, len(xs))
	for i, x := range xs {
		s[i] = strconv.Itoa(x)
	}
	return strings.Join(s, ",")
}

func (c *c02Case) tieOn() bool { return c.vt != nil && c.vt.tie && !c.noCorr && !c.cfg.embedded }

func (c *c02Case) tieStart() {
	if c.tieOn() {
		c.vt.vEnd = map[int]int64{}
		c.r.Corr(fmt.Sprintf("c14 new %d %d 0", c.cfg.fileSize, c.cfg.ioConc), "ok")
	}
}

// placement of the committed txs not yet sent (what the tx log records) and the geometry of the value logs as on disk
func (c *c02Case) tieSync() bool {
	if !c.tieOn() {
		return false
	}
	cid, _ := c.st.CommittedAlh()
	tx := store.NewTx(c.cfg.maxTxEntries+1, c.cfg.maxKeyLen)
	for id := c.vt.sent + 1; id <= cid; id++ {
		if err := c.st.ReadTx(id, false, tx); err != nil {
			return false // reported by the history oracle
		}
		var toks []string
		for _, e := range tx.Entries() {
			v, o := c02DecodeVOff(e.VOff())
			toks = append(toks, fmt.Sprintf("%d:%d:%d", v, o, e.VLen()))
			if end := o + int64(e.VLen()); end > c.vt.vEnd[v] {
				c.vt.vEnd[v] = end
			}
		}
		line := "_"
		if len(toks) > 0 {
			line = strings.Join(toks, ",")
		}
		c.r.Corr("c14 tx "+line, strconv.FormatUint(id, 10))
		c.vt.sent = id
	}
	for v := 1; v <= c.cfg.ioConc; v++ {
		files := c.chunkFiles(v)
		cur := 0
		if len(files) > 0 {
			cur = files[len(files)-1]
		}
		c.r.Corr(fmt.Sprintf("c14 vlog %d %d %d %s", v, cur, c.vt.vEnd[v], c02Ints(files)), "ok")
	}
	return true
}

func c02TruncClass(err error) string {
	if err == nil {
		return "ok"
	}
	var cl []string
	if errors.Is(err, store.ErrIllegalArguments) || errors.Is(err, multiapp.ErrIllegalArguments) {
		cl = append(cl, "illegal")
	}
	if errors.Is(err, store.ErrTxNotFound) {
		cl = append(cl, "txnotfound")
	}
	if errors.Is(err, store.ErrUnexpectedError) {
		cl = append(cl, "unexpected")
	}
	if len(cl) == 0 {
		return "err:other"
	}
	sort.Strings(cl)
	return "err:" + strings.Join(cl, "+")
}

// after a truncation: surviving chunk files and per-entry readability of every committed tx
func (c *c02Case) tieAfterTruncate(n uint64, class string) {
	c.r.Corr(fmt.Sprintf("c14 trunc %d", n), class)
	for v := 1; v <= c.cfg.ioConc; v++ {
		c.r.Corr(fmt.Sprintf("c14 chunks %d", v), c02Ints(c.chunkFiles(v)))
	}
	cid := c.vt.sent
	tx := store.NewTx(c.cfg.maxTxEntries+1, c.cfg.maxKeyLen)
	for id := uint64(1); id <= cid; id++ {
		if err := c.st.ReadTx(id, false, tx); err != nil {
			return
		}
		var bits strings.Builder
		for _, e := range tx.Entries() {
			if _, err := c.st.ReadValue(e); err == nil {
				bits.WriteByte('1')
			} else {
				bits.WriteByte('0')
			}
		}
		b := bits.String()
		if b == "" {
			b = "_"
		}
		c.r.Corr(fmt.Sprintf("c14 readable %d", id), b)
	}
}

// ---------- maintenance operations ----------

// TruncateUptoTx(n) as a step of the history. Not a step of the commit machine: its state line must be unchanged.
func (c *c02Case) doTruncate(n uint64, kind string) {
	c.r.Count("op.maint.truncate." + kind)
	cid, _ := c.st.CommittedAlh()
	valid := n >= 1 && n <= cid
	c.hist.noteTrunc(n, cid, valid)
	tied := c.tieSync()
	before := map[int][]int{}
	if !c.cfg.embedded {
		for v := 1; v <= c.cfg.ioConc; v++ {
			before[v] = c.chunkFiles(v)
		}
	}
	var err error
	func() {
		defer func() {
			if e := recover(); e != nil {
				err = fmt.Errorf("panic: %v", e)
				c.r.Fail("C02:maintenance:panic", fmt.Sprintf("TruncateUptoTx(%d): %v", n, e), c.replay())
			}
		}()
		err = c.st.TruncateUptoTx(n)
	}()
	class := c02TruncClass(err)
	removed := 0
	for v, b := range before {
		a := c.chunkFiles(v)
		removed += len(b) - len(a)
		c.r.OracleChecks++
		if !valid && len(a) != len(b) {
			c.r.Fail("C02:truncate:invalid-cut-deleted-chunks", fmt.Sprintf("TruncateUptoTx(%d) with committed=%d -> %v removed chunk files of vlog %d: %v -> %v", n, cid, err, v, b, a), c.replay())
		}
	}
	c.log("truncate upto %d (%s, committed=%d) -> %s, %d chunk files removed", n, kind, cid, class, removed)
	if removed > 0 {
		c.r.Count("op.maint.truncate.removed-chunks")
	}
	c.r.Eval(fmt.Sprintf("truncate|%s|%s|removed=%v|%s", kind, class, removed > 0, c.cfg.label()), removed > 0)
	if tied && !strings.HasPrefix(class, "err:other") {
		c.tieAfterTruncate(n, class)
	}
	c.after("truncate")
}

func (c *c02Case) opTruncate() {
	cid, _ := c.st.CommittedAlh()
	if cid == 0 {
		c.doTruncate(1, "empty-store")
		return
	}
	c.hist.mu.Lock()
	cut := c.hist.truncBelow
	c.hist.mu.Unlock()
	kind, n := "random", 1+uint64(c.rng.Intn(int(cid)))
	switch x := c.rng.Intn(100); {
	case x < 22:
		kind, n = "frontier", cid
	case x < 34 && cid > 1:
		kind, n = "frontier-1", cid-1
	case x < 62 && c.vt != nil && c.vt.invLo > 0 && c.vt.invLo <= cid:
		// at / just below / inside the ids of the last inversion episode
		kind = "episode"
		lo := c.vt.invLo
		if lo > 1 && c.rng.Chance(25) {
			lo--
		}
		hi := c.vt.invHi
		if hi > cid {
			hi = cid
		}
		n = lo
		if hi > lo && c.rng.Chance(30) {
			n = lo + uint64(c.rng.Intn(int(hi-lo)+1))
		}
	case x < 70 && cut > 1:
		kind, n = "older-cut", 1+uint64(c.rng.Intn(int(cut)))
	case x < 75:
		kind, n = "beyond", cid+1+uint64(c.rng.Intn(2))
	case x < 78:
		kind, n = "zero", 0
	}
	c.doTruncate(n, kind)
}

// a cut at / just below / inside the ids of the last inversion episode
func (c *c02Case) opTruncateNearEpisode() {
	cid, _ := c.st.CommittedAlh()
	if c.vt == nil || c.vt.invLo == 0 || c.vt.invLo > cid {
		c.opTruncate()
		return
	}
	lo, hi := c.vt.invLo, c.vt.invHi
	if hi > cid {
		hi = cid
	}
	n := lo
	switch x := c.rng.Intn(100); {
	case x < 45:
	case x < 60 && lo > 1:
		n = lo - 1
	case x < 75 && hi > lo:
		n = hi - 1
	case hi > lo:
		n = lo + uint64(c.rng.Intn(int(hi-lo)))
	}
	c.doTruncate(n, "episode")
}

// index reopen on the live store
func (c *c02Case) opReindex() {
	err := c.st.CloseIndexing(nil)
	if err == nil {
		err = c.st.InitIndexing(&store.IndexSpec{})
		if err != nil {
			c.r.Fail("C02:maintenance:index-reopen-failed", err.Error(), c.replay())
		}
	}
	c.log("reindex -> %v", err)
}

func (c *c02Case) opMaintenance() {
	kinds := []string{"flush", "flush", "compact", "truncate", "reindex"}
	if c.vt != nil {
		kinds = []string{"flush", "compact", "reindex", "truncate", "truncate", "truncate"}
	}
	kind := kinds[c.rng.Intn(len(kinds))]
	if kind == "truncate" {
		c.opTruncate()
		return
	}
	c.r.Count("op.maint." + kind)
	var err error
	func() {
		defer func() {
			if e := recover(); e != nil {
				c.r.Fail("C02:maintenance:panic", fmt.Sprintf("%s: %v", kind, e), c.replay())
			}
		}()
		switch kind {
		case "flush":
			err = c.st.FlushIndexes(float32(c.rng.Intn(100)), c.rng.Bool())
			c.log("flush -> %v", err)
		case "compact":
			err = c.st.CompactIndexes()
			c.log("compact -> %v", err)
		case "reindex":
			c.opReindex()
		}
	}()
	c.r.Count("op.maint." + kind + "." + c02MaintClass(err))
	// not a step of the commit machine: the model state must be unchanged
	c.after(kind)
}

func c02MaintClass(err error) string {
	switch {
	case err == nil:
		return "ok"
	case strings.Contains(err.Error(), "threshold"):
		return "below-threshold"
	case strings.Contains(err.Error(), "already in progress"):
		return "in-progress"
	}
	return "err"
}

// ---------- inversion episodes ----------

type c02Acked struct {
	hdr *store.TxHeader
	es  []c02Entry
	err error
}

// modelOwn: the model line of an own commit that was acknowledged with this header
func (c *c02Case) modelOwn(a c02Acked) {
	alh := a.hdr.Alh()
	c.corr(fmt.Sprintf("own %d %s %s 0 1", a.hdr.Ts, hx.Hex(nil), entriesTok(a.es)), fmt.Sprintf("tx %d %s", a.hdr.ID, hex32(alh)))
	if c.cfg.synced {
		c.corr("sync", "ok")
	}
}

// own flavour: a parked CommitWith + k queued committers
func (c *c02Case) opInversionOwn() {
	if c.vt == nil || c.cfg.ext || c.closed || c.cfg.embedded || len(c.pending) > 0 {
		c.opOwn()
		return
	}
	cidBefore, _ := c.st.CommittedAlh()
	if c.st.LastPrecommittedTxID() != cidBefore {
		c.opOwn()
		return
	}
	k := 1 + c.rng.Intn(3)
	c.r.Count(fmt.Sprintf("op.inversion.own.k=%d", k))
	esB := c.vt.genEntries(c)
	entered := make(chan struct{})
	release := make(chan struct{})
	doneB := make(chan c02Acked, 1)
	ctx := context.Background()
	go func() {
		var a c02Acked
		a.es = esB
		defer func() {
			if e := recover(); e != nil {
				a.err = fmt.Errorf("panic: %v", e)
			}
			doneB <- a
		}()
		a.hdr, a.err = c.st.CommitWith(ctx, func(txID uint64, _ store.KeyIndex) ([]*store.EntrySpec, []store.Precondition, error) {
			close(entered)
			<-release
			specs := make([]*store.EntrySpec, len(esB))
			for i, e := range esB {
				specs[i] = &store.EntrySpec{Key: e.key, Value: e.value}
			}
			return specs, nil, nil
		}, false)
	}()
	select {
	case <-entered:
	case a := <-doneB:
		close(release)
		c.log("inversion-own: CommitWith returned before its callback ran: %v", a.err)
		c.r.Count("op.inversion.own.not-entered")
		c.after("inversion-own")
		return
	case <-time.After(20 * time.Second):
		close(release)
		c.r.Fail("C02:op:hang", "CommitWith did not reach its callback within 20s", c.replay())
		return
	}
	before := c.vt.cnt.Load()
	doneA := make(chan c02Acked, k)
	want := int64(0)
	for i := 0; i < k; i++ {
		es := c.vt.genEntries(c)
		want += nonEmptyValues(es)
		go func() {
			a := c02Acked{es: es}
			defer func() {
				if e := recover(); e != nil {
					a.err = fmt.Errorf("panic: %v", e)
				}
				doneA <- a
			}()
			tx, err := c.st.NewWriteOnlyTx(ctx)
			if err != nil {
				a.err = err
				return
			}
			for _, e := range es {
				if err := tx.Set(e.key, nil, e.value); err != nil {
					a.err = err
					return
				}
			}
			a.hdr, a.err = tx.AsyncCommit(ctx)
		}()
	}
	if !c.vt.waitStaged(before, want, nil) {
		c.r.Count("op.inversion.own.not-staged")
	}
	close(release)
	var acks []c02Acked
	collect := func(ch chan c02Acked) bool {
		select {
		case a := <-ch:
			acks = append(acks, a)
			return true
		case <-time.After(20 * time.Second):
			c.r.Fail("C02:op:hang", "a committer of an inversion episode did not return within 20s", c.replay())
			return false
		}
	}
	if !collect(doneB) {
		return
	}
	for i := 0; i < k; i++ {
		if !collect(doneA) {
			return
		}
	}
	c.episodeAcked("inversion-own", acks, cidBefore)
}

// what follows an episode of concurrent own commits: acks in id order to the model and to the ack oracle
func (c *c02Case) episodeAcked(what string, acks []c02Acked, cidBefore uint64) {
	var ok []c02Acked
	for _, a := range acks {
		if a.err != nil || a.hdr == nil {
			c.r.Count("op." + what + ".commit." + c02ErrClass(a.err))
			if a.err != nil && strings.HasPrefix(a.err.Error(), "panic:") {
				c.r.Fail("C02:commit:panic", a.err.Error(), c.replay())
			}
			// a failed commit of an episode is not sent to the model: from here the case is oracle-only
			c.noCorr = true
			continue
		}
		ok = append(ok, a)
	}
	sort.Slice(ok, func(i, j int) bool { return ok[i].hdr.ID < ok[j].hdr.ID })
	cnow, _ := c.st.CommittedAlh()
	// record what the history shows first, then the acks must agree
	c.hist.verify(c.r, c.st, c.cfg, c.replay, "at-ack")
	seen := map[uint64]bool{}
	for _, a := range ok {
		c.r.OracleChecks++
		if seen[a.hdr.ID] {
			c.r.Fail("C02:ack:id-assigned-twice", fmt.Sprintf("two commits were acknowledged with id %d", a.hdr.ID), c.replay())
		}
		seen[a.hdr.ID] = true
		c.hist.ack(c.r, a.hdr, cnow, c.replay)
		c.modelOwn(a)
	}
	if len(ok) > 0 {
		c.vt.invLo, c.vt.invHi = ok[0].hdr.ID, ok[len(ok)-1].hdr.ID
		c.spillRisk = false
	}
	c.countInversion(what, cidBefore)
	var ids []string
	for _, a := range ok {
		ids = append(ids, strconv.FormatUint(a.hdr.ID, 10))
	}
	c.log("%s: %d committers -> txs [%s] (first listed = the parked one)", what, len(acks), strings.Join(ids, " "))
	c.r.Eval(fmt.Sprintf("%s|n=%d|%s", what, len(ok), c.cfg.label()), true)
	c.after(what)
}

// how the episode came out: is there a pair i < j of its txs in one value log with the first value of j below that of i
func (c *c02Case) countInversion(what string, from uint64) {
	cid, _ := c.st.CommittedAlh()
	type fo struct {
		v   int
		off int64
	}
	var fs []fo
	tx := store.NewTx(c.cfg.maxTxEntries+1, c.cfg.maxKeyLen)
	for id := from + 1; id <= cid; id++ {
		if err := c.st.ReadTx(id, false, tx); err != nil || len(tx.Entries()) == 0 {
			return
		}
		v, o := c02DecodeVOff(tx.Entries()[0].VOff())
		fs = append(fs, fo{v, o})
	}
	inv, lower := false, false
	for i := range fs {
		for j := i + 1; j < len(fs); j++ {
			if fs[i].v == fs[j].v && fs[j].off < fs[i].off {
				inv = true
				if fs[j].off/int64(c.cfg.fileSize) < fs[i].off/int64(c.cfg.fileSize) {
					lower = true
				}
			}
		}
	}
	switch {
	case lower:
		c.r.Count("op." + what + ".later-tx-in-lower-chunk")
	case inv:
		c.r.Count("op." + what + ".inverted-same-chunk")
	default:
		c.r.Count("op." + what + ".not-inverted")
	}
}

// replica flavour: ReplicateTx of tx last+1+d started first
func (c *c02Case) opInversionRep() {
	if c.vt == nil || c.prim == nil || c.cfg.ext || c.closed || c.cfg.embedded {
		c.opRepPrimary()
		return
	}
	pid := c.st.LastPrecommittedTxID()
	cidBefore, _ := c.st.CommittedAlh()
	if pid != cidBefore {
		c.opRepPrimary()
		return
	}
	maxD := c02MinI(c.cfg.maxActive-1, 4)
	if maxD < 1 {
		c.opRepPrimary()
		return
	}
	d := 1 + c.rng.Intn(maxD)
	if d == 1 && maxD > 1 && c.rng.Chance(50) {
		d = 2 + c.rng.Intn(maxD-1)
	}
	L := pid + 1 + uint64(d)
	c.r.Count(fmt.Sprintf("op.inversion.rep.depth=%d", d))
	pc, _ := c.prim.CommittedAlh()
	expL, hL, esL, ok := c.primaryExport(L, pc)
	if !ok {
		return
	}
	type repRes struct {
		hdr *store.TxHeader
		err error
	}
	late := make(chan repRes, 1)
	before := c.vt.cnt.Load()
	go func() {
		var r repRes
		defer func() {
			if e := recover(); e != nil {
				r.err = fmt.Errorf("panic: %v", e)
			}
			late <- r
		}()
		r.hdr, r.err = c.st.ReplicateTx(context.Background(), expL, false, false)
	}()
	staged := c.vt.waitStaged(before, nonEmptyValues(esL), func() bool { return len(late) > 0 })
	if len(late) > 0 {
		// refused before it waited (the model sees the same op in the same state)
		r := <-late
		c.r.Count("op.rep.primary.late-early-return")
		c.replicated("primary.late", toRefHdr(hL), esL, false, r.hdr, r.err)
		return
	}
	if !staged {
		c.r.Count("op.inversion.rep.not-staged")
	}
	c.log("inversion-rep: ReplicateTx(%d) started with last tx %d, values staged=%v", L, pid, staged)
	// last+1 … L-2 in order, each a full step; maintenance while the late committer's values are staged and its tx
	// is not committed
	for id := pid + 1; id+1 < L; id++ {
		pc, _ = c.prim.CommittedAlh()
		exp, h, es, ok := c.primaryExport(id, pc)
		if !ok {
			return
		}
		c.replicate("primary.next", exp, toRefHdr(h), es, false, id-1)
		if c.st == nil {
			return
		}
		if c.rng.Chance(45) {
			if c.rng.Chance(65) {
				cid, _ := c.st.CommittedAlh()
				if cid > 0 {
					n := cid
					if c.rng.Chance(40) {
						n = 1 + uint64(c.rng.Intn(int(cid)))
					}
					c.doTruncate(n, "late-writer-staged")
				}
			} else {
				c.opMaintenance()
			}
		}
	}
	// L-1 lets L go: the two commits are one step (L may be committed before the call for L-1 has returned)
	pc, _ = c.prim.CommittedAlh()
	exp1, h1, es1, ok := c.primaryExport(L-1, pc)
	if !ok {
		return
	}
	var r1, r repRes
	if e := withTimeout(20*time.Second, func() (e error) {
		defer func() {
			if p := recover(); p != nil {
				r1.err = fmt.Errorf("panic: %v", p)
			}
		}()
		r1.hdr, r1.err = c.st.ReplicateTx(context.Background(), exp1, false, false)
		return nil
	}); e == errHang {
		c.r.Fail("C02:op:hang", fmt.Sprintf("ReplicateTx(%d) did not return within 20s", L-1), c.replay())
		return
	}
	select {
	case r = <-late:
	case <-time.After(20 * time.Second):
		c.r.Fail("C02:op:hang", fmt.Sprintf("the early ReplicateTx(%d) did not return within 20s after tx %d was committed", L, L-1), c.replay())
		return
	}
	c.vt.invLo, c.vt.invHi = pid+1, L
	c.r.Count("op.rep.primary.late")
	cnow, _ := c.st.CommittedAlh()
	c.hist.verify(c.r, c.st, c.cfg, c.replay, "at-ack")
	if r1.err == nil {
		c.hist.ack(c.r, r1.hdr, cnow, c.replay)
	}
	if r.err == nil {
		c.hist.ack(c.r, r.hdr, cnow, c.replay)
	}
	c.replicatedLine("primary.next", toRefHdr(h1), es1, false, r1.hdr, r1.err)
	c.replicatedLine("primary.late", toRefHdr(hL), esL, false, r.hdr, r.err)
	c.countInversion("inversion-rep", cidBefore)
	c.after("inversion-rep")
}

// ---------- case drivers ----------

func (c *c02Case) runTrunc(steps int) {
	defer c.finish()
	c.stable = true
	c.repNextOnly = true
	if err := c.open(); err != nil {
		c.r.Fail("C02:harness:open", err.Error(), c.replay())
		return
	}
	c.corr(fmt.Sprintf("new %s %d", c.cfg.tok(), b2i(c.cfg.ext)), "ok")
	c.tieStart()
	c.after("open")
	replica := c.prim != nil
	for i := 0; i < steps && c.st != nil; i++ {
		x := c.rng.Intn(100)
		switch {
		case x < 28:
			if replica {
				c.opRepPrimary()
			} else {
				c.opOwn()
			}
		case x < 52:
			if replica {
				c.opInversionRep()
			} else {
				c.opInversionOwn()
			}
			// maintenance right behind a burst of concurrent committers (the last committed tx is then, more often than
			// not, one whose values lie below those of its predecessors)
			if c.st != nil && !c.closed && c.rng.Chance(60) {
				if c.rng.Chance(75) {
					c.opTruncateNearEpisode()
				} else {
					c.opMaintenance()
				}
			}
		case x < 84:
			c.opMaintenance()
		case x < 88:
			c.opSync()
		case x < 91 && !replica:
			c.opRepSynth()
		default:
			c.opReopen()
		}
	}
	// everything at or after the largest cut is still there after a final restart
	if c.st != nil && !c.closed {
		c.opTruncate()
	}
	if c.st != nil && !c.closed {
		c.opReopen()
	}
}

// maintenance racing the writers of a concurrent case
func (c *c02Case) concurrentMaintenance(rng *hx.Rng, stop chan struct{}, wg *sync.WaitGroup) {
	defer wg.Done()
	defer func() {
		if e := recover(); e != nil {
			c.r.Fail("C02:maintenance:panic", fmt.Sprint(e), nil)
		}
	}()
	for {
		select {
		case <-stop:
			return
		default:
		}
		time.Sleep(time.Duration(200+rng.Intn(3000)) * time.Microsecond)
		switch rng.Intn(6) {
		case 0:
			err := c.st.FlushIndexes(float32(rng.Intn(100)), rng.Bool())
			c.r.Count("concurrent.maint.flush." + c02MaintClass(err))
		case 1:
			err := c.st.CompactIndexes()
			c.r.Count("concurrent.maint.compact." + c02MaintClass(err))
		default:
			cid, _ := c.st.CommittedAlh()
			if cid == 0 {
				continue
			}
			n := cid
			if rng.Chance(50) {
				n = 1 + uint64(rng.Intn(int(cid)))
			}
			c.hist.noteTrunc(n, cid, true)
			err := c.st.TruncateUptoTx(n)
			c.r.Count("concurrent.maint.truncate." + c02TruncClass(err))
		}
	}
}
