package main

// C03 correspondence: the recorded storage-op log of a workload is translated into the micro-step trace of the Lean model
// (record granularity), and for every crash image that was opened by the real store.Open the model must predict the
// recovered (committedTxID, precommittedTxID) or the error class.
//
//	tx-log Append of a record         -> c03 val ; c03 pre            (answer: the new precommitted id)
//	implicit fsync inside an op       -> c03 autosync tx|cl           (buffer-full autoSync / chunk rotation; emitted BEFORE the op)
//	first value-log Flush/Sync of a   -> [c03 allow t] ; c03 syncbegin   (AT ITS REAL POSITION in the trace: a tx record appended between
//	  durability round                                                  the value-log fsyncs and the tx-log fsync of one round is a
//	                                                                    `c03 pre` the model answers with "disabled": in the model
//	                                                                    performPrecommit and sync() exclude each other)
//	explicit tx-log Sync (= sync())   -> ([c03 allow t] ; c03 syncbegin when the round has no value-log part: embedded values) ; c03 synctx
//	commit-log SetOffset/Append/Sync  -> c03 closet ; c03 clapp (answer: number of entries) ; c03 clsync ; c03 ack (answer: committed id)
//	harness mark "ack id"             -> c03 isacked id               (answer: true)
//	crash image                       -> c03 crash 0 kt kc 0 0 tc     (answer: "committed,precommitted" | err:class)
//
// kt / kc = how many of the model's volatile tx records / commit-log entries are completely present in the image.

import (
	"bytes"
	"encoding/binary"
	"fmt"
	"strings"

	"verif/harness/internal/crashfs"
	"verif/harness/internal/hx"
)

const c03CLogEntry = 44 // cLogEntrySizeV2: offset(8) + size(4) + alh(32)

type c03Rec struct {
	off  int64
	data []byte
	id   uint64
}

type c03Trace struct {
	cfg       c03Cfg
	started   bool
	recs      []c03Rec // tx records in model order
	txDurable int      // model: number of durable tx records
	clTotal   int      // model: commit-log entries (durable + volatile)
	clDurable int
	committed int
	roundOpen bool // syncbegin emitted, synctx not yet (the value-log part of a durability round is under way)
	inSync    bool // between closet and clsync
	clapped   bool
	alhs      map[[32]byte]bool
	broken    bool
}

func newC03Trace(cfg c03Cfg) *c03Trace { return &c03Trace{cfg: cfg} }


func (t *c03Trace) init(r *hx.Result, run *c03Run) {
	t.alhs = map[[32]byte]bool{}
	for _, op := range run.Log {
		if op.Kind == crashfs.KAppend && op.File == "aht/data" && op.Len == 32 {
			var a [32]byte
			copy(a[:], op.Data)
			t.alhs[a] = true
		}
	}
	r.Corr(fmt.Sprintf("c03 reset %s %s", b01(t.cfg.Allowance), b01(t.cfg.Embedded)), "ok")
}

func (t *c03Trace) isRecord(op *crashfs.Op) bool {
	if op.File != "tx" || op.Kind != crashfs.KAppend || op.Len < 124 {
		return false
	}
	var a [32]byte
	copy(a[:], op.Data[op.Len-32:])
	return t.alhs[a] && binary.BigEndian.Uint64(op.Data) == uint64(len(t.recs)+1)
}

// step: op k of the log has just been applied
func (t *c03Trace) step(r *hx.Result, run *c03Run, k int) {
	if t.broken {
		return
	}
	op := run.Log[k]
	if !t.started {
		if op.Kind == crashfs.KMark && op.Note == "opened" {
			t.started = true
			t.init(r, run)
		}
		return
	}
	if op.Kind == crashfs.KMark {
		if op.Note == "ack" {
			r.Corr(fmt.Sprintf("c03 isacked %d", op.Arg), "true")
		}
		return
	}
	implicitSync := strings.Contains(op.Auto, "autosync") || strings.Contains(op.Auto, "rotate")
	switch op.File {
	case "tx":
		if implicitSync {
			r.Corr("c03 autosync tx", "ok")
			r.Count("trace.autosync-tx")
			t.txDurable = len(t.recs)
		}
		switch {
		case t.isRecord(&op):
			id := binary.BigEndian.Uint64(op.Data)
			t.recs = append(t.recs, c03Rec{off: op.Off, data: op.Data, id: id})
			r.Corr("c03 val", "ok")
			r.Corr("c03 pre", fmt.Sprint(id))
			r.Count("trace.pre")
		case op.Kind == crashfs.KSync:
			if !t.roundOpen && !t.beginRound(r, run, k) {
				return
			}
			r.Corr("c03 synctx", "ok")
			r.Count("trace.sync")
			t.roundOpen = false
			t.txDurable = len(t.recs)
		}
	case "commit":
		t.stepCommit(r, run, k, op, implicitSync)
	default:
		if strings.HasPrefix(op.File, "val_") && (op.Kind == crashfs.KFlush || op.Kind == crashfs.KSync) && !t.roundOpen {
			// value logs are flushed+fsynced only by sync(): this is where the durability round really begins
			if t.beginRound(r, run, k) {
				r.Count("trace.round-begins-at-value-log-flush")
			}
		}
	}
}

func (t *c03Trace) stepCommit(r *hx.Result, run *c03Run, k int, op crashfs.Op, implicitSync bool) {
	{
		// an implicit fsync of the commit log can only happen in the middle of the batch the model appends in ONE step
		// (clapp): it is not replayed, the model then holds FEWER entries for durable than the implementation, which is
		// sound because kc is counted from the image
		if implicitSync {
			r.Count("trace.autosync-cl-inside-batch.not-replayed")
		}
		switch op.Kind {
		case crashfs.KSetOffset:
			r.Corr("c03 closet", "ok")
			t.inSync, t.clapped = true, false
		case crashfs.KAppend:
			if t.inSync && !t.clapped {
				n := 0
				for j := k; j < len(run.Log); j++ {
					o := run.Log[j]
					if o.File == "commit" && o.Kind == crashfs.KSync {
						break
					}
					if o.File == "commit" && o.Kind == crashfs.KAppend {
						n += o.Len / c03CLogEntry
					}
				}
				r.Corr("c03 clapp", fmt.Sprint(n))
				t.clTotal += n
				t.clapped = true
			}
		case crashfs.KSync:
			if t.inSync {
				r.Corr("c03 clsync", "ok")
				t.clDurable = t.clTotal
				t.committed = t.clTotal
				r.Corr("c03 ack", fmt.Sprint(t.committed))
				t.inSync = false
				r.Count("trace.commit")
			}
		}
	}
}

// beginRound: the first storage op of a durability round (sync()) is op k.  Looks ahead for the commit-log entries this round
// appends (same critical section), emits the external allowance it implies and `syncbegin`.  false: nothing precommitted.
func (t *c03Trace) beginRound(r *hx.Result, run *c03Run, k int) bool {
	j := k
	for j < len(run.Log) && !(run.Log[j].File == "tx" && run.Log[j].Kind == crashfs.KSync) {
		j++
	}
	n := 0
	for j++; j < len(run.Log); j++ {
		o := run.Log[j]
		if o.File == "tx" || (o.File == "commit" && o.Kind == crashfs.KSync) {
			break
		}
		if o.File == "commit" && o.Kind == crashfs.KAppend {
			n += o.Len / c03CLogEntry
		}
	}
	if len(t.recs) == t.committed {
		r.Count("trace.sync-with-nothing-precommitted")
		return false
	}
	if t.cfg.Allowance && n > 0 {
		r.Corr(fmt.Sprintf("c03 allow %d", t.committed+n), fmt.Sprint(t.committed+n))
	}
	r.Corr("c03 syncbegin", "ok")
	t.roundOpen = true
	return true
}

func c03ErrClass(e string) string {
	switch {
	case strings.Contains(e, "size is too small"):
		return "err:too-small"
	case strings.Contains(e, "could not read the last transaction"):
		return "err:unreadable"
	case strings.Contains(e, "digest mismatch"):
		return "err:digest"
	}
	return "err:other"
}

// image: the crash image taken after the first k ops was opened by the real store (obs); the model must predict it.
func (t *c03Trace) image(r *hx.Result, run *c03Run, k int, img *crashfs.Image, obs *c03Obs) {
	if t.broken || !t.started {
		return
	}
	var txc, clc []byte
	if f := img.Files["tx"]; f != nil {
		txc = f.Content
	}
	if f := img.Files["commit"]; f != nil {
		clc = f.Content
	}
	present := 0
	for _, rec := range t.recs {
		end := rec.off + int64(len(rec.data))
		if end > int64(len(txc)) || !bytes.Equal(txc[rec.off:end], rec.data) {
			break
		}
		present++
	}
	kt := present - t.txDurable
	clPresent := len(clc) / c03CLogEntry
	if clPresent > t.clTotal {
		clPresent = t.clTotal
	}
	kc := clPresent - t.clDurable
	if kt < 0 || kc < 0 {
		// the image lacks something the model holds for durable: report through the correspondence
		r.Corr(fmt.Sprintf("c03 state"), fmt.Sprintf("image lacks model-durable data: tx present %d < %d or cl present %d < %d", present, t.txDurable, clPresent, t.clDurable))
		return
	}
	want := fmt.Sprintf("%d,%d", obs.Committed, obs.Precomm)
	if obs.OpenErr != "" {
		want = c03ErrClass(obs.OpenErr)
	}
	r.Corr(fmt.Sprintf("c03 crash 0 %d %d 0 0 %s", kt, kc, b01(len(clc)%c03CLogEntry != 0)), want)
	r.Count("trace.crash-predictions")
	if obs.Precomm > obs.Committed {
		r.Count("trace.crash-predictions.with-reloaded-precommitted")
	}
}
