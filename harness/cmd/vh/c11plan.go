package main

// C11 — queries shaped RELATIVE TO THE EXISTING INDEXES, shape counters, observation of the chosen plan.
//
// The general generator (c11.go genQuery) draws predicates, ORDER BY and GROUP BY columns independently, so
// the combinations that make the planner take a decision — "this index already delivers the requested
// order, drop the sort step / stream-aggregate" — on an index that was NOT picked for its order are rare.
// genIdxRelQuery builds them on purpose:
//   * predicate relative to one index: equality on its m leading columns (several spellings that all yield
//     a point range: `c = v`, `c IN (v)`, `c >= v AND c <= v`, `c IS NULL`; and `v = c`, which yields none),
//     a range on the next index column, a random extra conjunct; constants taken from rows that exist
//     (preferably the most frequent leading tuple, so that several rows match);
//   * ORDER BY / GROUP BY relative to the primary key and to every index: PK prefix, full PK, the index columns
//     after the bound ones, the index prefix, another index, uncovered columns, each ASC / DESC / mixed,
//     with and without LIMIT/OFFSET;
//   * data: a bulk unit inserts rows whose leading index columns (and first PK column of a composite PK) come
//     from two or three "hot" values, so that the (index columns, pk) order differs from the pk order.
// Every oracle of checkQuery runs on the unhinted (auto-chosen) plan first and then under every hint.
// The plan the engine chose (ScanSpecs().Index / DescOrder, presence of a sortRowReader in the reader
// chain) is OBSERVED and compared with the Lean planner model (`c11 plan`), the rows with `c11 pq`.

import (
	"context"
	"fmt"
	"reflect"
	"sort"
	"strconv"
	"strings"

	"github.com/codenotary/immudb/embedded/sql"
)

// ---------------------------------------------------------------- shape of a query w.r.t. the live indexes

// columns bound by a point range through the top-level conjuncts of p
func c11EqCols(p *pexp) map[int]bool {
	eq := map[int]bool{}
	ge, le := map[int][]c15Val{}, map[int][]c15Val{}
	var walk func(p *pexp)
	walk = func(p *pexp) {
		if p == nil {
			return
		}
		switch p.K {
		case "and":
			walk(p.L)
			walk(p.R)
		case "cmp":
			if p.Left {
				return
			}
			switch p.Op {
			case "=":
				eq[p.Col] = true
			case ">=":
				ge[p.Col] = append(ge[p.Col], p.V)
			case "<=":
				le[p.Col] = append(le[p.Col], p.V)
			}
		case "isnull":
			eq[p.Col] = true
		case "in":
			if p.Neg || len(p.Vs) == 0 {
				return
			}
			same := true
			for _, v := range p.Vs[1:] {
				if sqlCmpVal(v, p.Vs[0]) != 0 {
					same = false
				}
			}
			if same {
				eq[p.Col] = true
			}
		}
	}
	walk(p)
	for c, gs := range ge {
		for _, g := range gs {
			for _, l := range le[c] {
				if sqlCmpVal(g, l) == 0 {
					eq[c] = true
				}
			}
		}
	}
	return eq
}

func c11IsPrefix(pre, of []int) bool {
	if len(pre) > len(of) {
		return false
	}
	for i := range pre {
		if pre[i] != of[i] {
			return false
		}
	}
	return true
}

// counters of the query shapes the planner decisions depend on (evaluated for every generated query on the
// unhinted plan, outside transactions, while c.snap is the current content of t)
func (c *c11Case) countShape(q *c11Query) {
	r, sc := c.r, c.sc
	list, what := q.OrdCols, "order"
	if len(q.GrpCols) > 0 {
		list, what = q.GrpCols, "group"
	}
	if len(list) > 0 {
		r.Count("shape." + what + "-by")
		if c11IsPrefix(list, sc.PK) {
			r.Count("shape." + what + "-by.pk-prefix")
		}
	}
	if q.WhereAll == nil {
		return
	}
	eq := c11EqCols(q.WhereAll)
	// the live composite index with the most leading columns bound by equality (what selectINLJIndex looks at)
	var best *sqlIdx
	bestM := 0
	for i := range c.idxLive {
		ix := &c.idxLive[i]
		m := 0
		for _, col := range ix.Cols {
			if !eq[col] {
				break
			}
			m++
		}
		if m > 0 && len(ix.Cols) == 1 {
			r.Count("shape.eq-lead.single-col-index")
		}
		if len(ix.Cols) >= 2 && m > bestM {
			best, bestM = ix, m
		}
	}
	if best == nil {
		return
	}
	key := "shape.eq-lead.composite-index"
	r.Count(key)
	if len(list) == 0 {
		return
	}
	key += "+" + what + "-by"
	r.Count(key)
	if c11IsPrefix(list, sc.PK) {
		r.Count(key + ".pk-prefix")
	}
	// delivered by that index: the list is a prefix of its columns from some position j ≤ m
	covered := false
	for j := 0; j <= bestM && j <= len(best.Cols); j++ {
		if c11IsPrefix(list, best.Cols[j:]) {
			covered = true
		}
	}
	if covered {
		r.Count(key + ".covered-by-that-index")
		return
	}
	r.Count(key + ".not-covered")
	if !c.snapOK || !q.WhereAll.inFragment(sc) {
		return
	}
	// data: matching rows whose order in that index differs from the requested one
	var rows [][]c15Val
	for _, row := range c.snap {
		v, n, e := q.WhereAll.eval(sc, row)
		if e != "" {
			return
		}
		if v && !n {
			rows = append(rows, row)
		}
	}
	if len(rows) >= 2 {
		r.Count(key + ".not-covered.2+rows")
	}
	ixCols := append(append([]int{}, best.Cols...), sc.PK...)
	pick := func(row []c15Val, cols []int) []c15Val {
		out := make([]c15Val, len(cols))
		for i, cc := range cols {
			out[i] = row[cc]
		}
		return out
	}
	sort.SliceStable(rows, func(i, j int) bool { return sqlCmpTuple(pick(rows[i], ixCols), pick(rows[j], ixCols)) < 0 })
	differs := false
	if what == "order" {
		for i := 1; i < len(rows) && !differs; i++ {
			for k, cc := range q.OrdCols {
				cm := sqlCmpVal(rows[i-1][cc], rows[i][cc])
				if k < len(q.OrdDesc) && q.OrdDesc[k] {
					cm = -cm
				}
				if cm < 0 {
					break
				}
				if cm > 0 {
					differs = true
					break
				}
			}
		}
	} else {
		seen := map[string]bool{}
		last := ""
		for _, row := range rows {
			g := sqlRowTok(pick(row, q.GrpCols))
			if g != last && seen[g] {
				differs = true
			}
			seen[g], last = true, g
		}
	}
	if differs {
		r.Count(key + ".not-covered.index-order-differs")
	}
}

// ---------------------------------------------------------------- index-relative generator

// values of the columns `cols` taken from a row of the current table: two times out of three from the most
// frequent tuple (several rows match), otherwise from a random row; nil when the table is empty
func (c *c11Case) witness(cols []int) []c15Val {
	if len(c.snap) == 0 {
		return nil
	}
	rng := c.rng
	if rng.Intn(3) == 0 {
		return c.snap[rng.Intn(len(c.snap))]
	}
	cnt := map[string]int{}
	best, bestN := 0, 0
	for i, row := range c.snap {
		ts := make([]c15Val, len(cols))
		for k, cc := range cols {
			ts[k] = row[cc]
		}
		t := sqlRowTok(ts)
		cnt[t]++
		if cnt[t] > bestN {
			best, bestN = i, cnt[t]
		}
	}
	return c.snap[best]
}

func c11And(ps []*pexp) *pexp {
	var p *pexp
	for _, a := range ps {
		if p == nil {
			p = a
		} else {
			p = &pexp{K: "and", L: p, R: a}
		}
	}
	return p
}

// `col = v` in one of the spellings that bind the column to a point (and one that does not)
func (c *c11Case) eqAtom(ci int, v c15Val) *pexp {
	rng := c.rng
	if v.null {
		return &pexp{K: "isnull", Col: ci}
	}
	switch k := rng.Intn(100); {
	case k < 68:
		return &pexp{K: "cmp", Col: ci, Op: "=", V: v}
	case k < 78:
		return &pexp{K: "in", Col: ci, Vs: []c15Val{v}}
	case k < 82:
		return &pexp{K: "in", Col: ci, Vs: []c15Val{v, v}}
	case k < 93:
		return &pexp{K: "and", L: &pexp{K: "cmp", Col: ci, Op: ">=", V: v}, R: &pexp{K: "cmp", Col: ci, Op: "<=", V: v}}
	default:
		return &pexp{K: "cmp", Col: ci, Op: "=", V: v, Left: true}
	}
}

func (c *c11Case) aggList() []string {
	rng, sc := c.rng, c.sc
	aggs := []string{"COUNT(*)"}
	for _, col := range sc.Cols {
		if col.Ty == sql.IntegerType && rng.Intn(3) == 0 {
			small := true
			for _, v := range col.Pool {
				if v.i > 1<<40 || v.i < -(1<<40) {
					small = false
				}
			}
			fns := []string{"MIN", "MAX"}
			if small {
				fns = append(fns, "SUM")
			}
			aggs = append(aggs, fns[rng.Intn(len(fns))]+"("+col.Name+")")
		}
	}
	return aggs
}

// a list of 1..n distinct columns chosen relative to the primary key, the predicate's index `pi` (m leading
// columns bound) and the other indexes; the returned tag names the choice (counted)
func (c *c11Case) relCols(pi sqlIdx, m int, maxN int) ([]int, string) {
	rng, sc := c.rng, c.sc
	all := append([]sqlIdx{{Cols: sc.PK}}, c.idxLive...)
	var cols []int
	tag := ""
	pre := func(l []int) []int {
		if len(l) == 0 {
			return nil
		}
		return l[:1+rng.Intn(len(l))]
	}
	switch k := rng.Intn(100); {
	case k < 32:
		tag, cols = "pk-prefix", pre(sc.PK)
	case k < 40:
		tag, cols = "pk-full", sc.PK
	case k < 55:
		tag, cols = "index-suffix", pre(pi.Cols[min(m, len(pi.Cols)):])
	case k < 63:
		tag, cols = "index-prefix", pre(pi.Cols)
	case k < 75:
		tag, cols = "other-index", pre(all[rng.Intn(len(all))].Cols)
	case k < 83:
		tag, cols = "index-suffix+pk", append(append([]int{}, pi.Cols[min(m, len(pi.Cols)):]...), sc.PK...)
	case k < 90:
		tag, cols = "pk-prefix+other", append(append([]int{}, pre(sc.PK)...), rng.Intn(len(sc.Cols)))
	default:
		tag = "random"
		for n := 1 + rng.Intn(2); n > 0; n-- {
			cols = append(cols, rng.Intn(len(sc.Cols)))
		}
	}
	if len(cols) == 0 {
		tag, cols = "pk-prefix", pre(sc.PK)
	}
	seen := map[int]bool{}
	var out []int
	for _, cc := range cols {
		if !seen[cc] && len(out) < maxN {
			seen[cc] = true
			out = append(out, cc)
		}
	}
	return out, tag
}

func (c *c11Case) genIdxRelQuery() *c11Query {
	rng, sc := c.rng, c.sc
	q := &c11Query{PS: &sqlParams{}, Limit: -1, Offset: -1, Kind: "simple", Gen: "idxrel"}
	// the index the predicate is written for: composite secondary indexes first
	var comp []sqlIdx
	for _, ix := range c.idxLive {
		if len(ix.Cols) >= 2 {
			comp = append(comp, ix)
		}
	}
	pi := sqlIdx{Cols: sc.PK}
	switch {
	case len(comp) > 0 && rng.Intn(10) < 7:
		pi = comp[rng.Intn(len(comp))]
	case len(c.idxLive) > 0 && rng.Intn(10) < 8:
		pi = c.idxLive[rng.Intn(len(c.idxLive))]
	}
	m := 1
	if len(pi.Cols) > 1 && rng.Intn(10) < 4 {
		m = 1 + rng.Intn(len(pi.Cols))
	}
	var wit []c15Val
	if rng.Intn(8) != 0 {
		wit = c.witness(pi.Cols[:m])
	}
	val := func(ci int) c15Val {
		if wit != nil {
			return wit[ci]
		}
		return sqlGenConst(rng, sc.Cols[ci], pexpOpts{})
	}
	var conj []*pexp
	for j := 0; j < m; j++ {
		conj = append(conj, c.eqAtom(pi.Cols[j], val(pi.Cols[j])))
	}
	if m < len(pi.Cols) && rng.Intn(10) < 4 {
		// range on the next index column
		ci := pi.Cols[m]
		v := val(ci)
		if rng.Intn(2) == 0 {
			v = sqlNeighbour(rng, sc.Cols[ci], v)
		}
		if rng.Intn(3) == 0 {
			hi := sqlGenConst(rng, sc.Cols[ci], pexpOpts{})
			conj = append(conj, &pexp{K: "cmp", Col: ci, Op: []string{">", ">="}[rng.Intn(2)], V: v},
				&pexp{K: "cmp", Col: ci, Op: []string{"<", "<="}[rng.Intn(2)], V: hi})
		} else {
			conj = append(conj, &pexp{K: "cmp", Col: ci, Op: []string{"<", "<=", ">", ">="}[rng.Intn(4)], V: v})
		}
	}
	if rng.Intn(4) == 0 {
		conj = append(conj, sqlGenAtom(rng, sc, pexpOpts{}, nil))
	}
	if rng.Intn(4) == 0 {
		rngShuffle(rng, len(conj), func(i, j int) { conj[i], conj[j] = conj[j], conj[i] })
	}
	p := c11And(conj)
	q.WhereAll = p
	w := " WHERE " + p.render(sc, "", q.PS, rng)
	c.r.Count(fmt.Sprintf("idxrel.pred.index-cols%d.eq%d", min(len(pi.Cols), 3), min(m, 3)))

	dirs := func(n int) []bool {
		out := make([]bool, n)
		switch k := rng.Intn(100); {
		case k < 50:
		case k < 82:
			for i := range out {
				out[i] = true
			}
		default:
			for i := range out {
				out[i] = rng.Bool()
			}
		}
		return out
	}
	ordText := func(cols []int, desc []bool) string {
		obs := make([]string, len(cols))
		for i, ci := range cols {
			obs[i] = sc.Cols[ci].Name
			if desc[i] {
				obs[i] += " DESC"
			} else if rng.Intn(4) == 0 {
				obs[i] += " ASC"
			}
		}
		return strings.Join(obs, ", ")
	}
	hasAllPK := func(cols []int) bool {
		for _, pc := range sc.PK {
			found := false
			for _, cc := range cols {
				if cc == pc {
					found = true
				}
			}
			if !found {
				return false
			}
		}
		return true
	}

	switch k := rng.Intn(100); {
	case k < 66: // ORDER BY
		ocols, tag := c.relCols(pi, m, 4)
		desc := dirs(len(ocols))
		if !hasAllPK(ocols) && tag != "pk-prefix" && rng.Intn(2) == 0 {
			// make the order total
			for _, pc := range sc.PK {
				dup := false
				for _, cc := range ocols {
					if cc == pc {
						dup = true
					}
				}
				if !dup {
					ocols = append(ocols, pc)
					desc = append(desc, desc[0])
				}
			}
		}
		c.r.Count("idxrel.order-by." + tag)
		// target list: * or a projection that contains the ORDER BY columns
		targets, pos := "*", map[int]int{}
		for i := range sc.Cols {
			pos[i] = i
		}
		q.Star = true
		if rng.Intn(5) == 0 {
			var cs []int
			in := map[int]bool{}
			for _, cc := range ocols {
				if !in[cc] {
					in[cc] = true
					cs = append(cs, cc)
				}
			}
			for i := range sc.Cols {
				if !in[i] && rng.Intn(2) == 0 {
					in[i] = true
					cs = append(cs, i)
				}
			}
			if rng.Bool() {
				rngShuffle(rng, len(cs), func(i, j int) { cs[i], cs[j] = cs[j], cs[i] })
			}
			pos = map[int]int{}
			for j, ci := range cs {
				pos[ci] = j
			}
			targets, q.Star = sc.colNames(cs), false
		}
		q.Select, q.Where = targets, p
		q.OrdCols, q.OrdDesc = ocols, desc
		for _, ci := range ocols {
			q.Ord = append(q.Ord, pos[ci])
		}
		q.Total = hasAllPK(ocols)
		s := "SELECT " + targets + " FROM {T} {H}" + w + " ORDER BY " + ordText(ocols, desc)
		q.NoLimit = s
		if rng.Intn(10) < 4 {
			q.Limit = 1 + rng.Intn(4)
			s += " LIMIT " + strconv.Itoa(q.Limit)
			if rng.Intn(2) == 0 {
				q.Offset = rng.Intn(4)
				s += " OFFSET " + strconv.Itoa(q.Offset)
			}
		}
		q.Tmpl = s
	case k < 90: // GROUP BY
		gcols, tag := c.relCols(pi, m, 2)
		c.r.Count("idxrel.group-by." + tag)
		q.Kind, q.GrpCols, q.GroupN = "group", gcols, len(gcols)
		aggs := c.aggList()
		gn := sc.colNames(gcols)
		s := "SELECT " + gn + ", " + strings.Join(aggs, ", ") + " FROM {T} {H}" + w + " GROUP BY " + gn
		if rng.Intn(5) == 0 {
			s += " HAVING COUNT(*) > " + strconv.Itoa(rng.Intn(3))
		} else {
			q.NoLimit = "SELECT " + strings.Join(aggs, ", ") + " FROM {T} {H}" + w
			q.Select = strings.Join(aggs, ",")
		}
		if rng.Intn(2) == 0 {
			n := 1 + rng.Intn(len(gcols))
			desc := dirs(n)
			q.OrdCols, q.OrdDesc = gcols[:n], desc
			for i := 0; i < n; i++ {
				q.Ord = append(q.Ord, i)
			}
			q.Total = n == len(gcols)
			s += " ORDER BY " + ordText(gcols[:n], desc)
		}
		q.Tmpl = s
	default: // no ORDER BY
		c.r.Count("idxrel.plain")
		q.Select, q.Where, q.Star = "*", p, true
		s := "SELECT * FROM {T} {H}" + w
		q.NoLimit = s
		if rng.Intn(3) == 0 {
			q.Limit = 1 + rng.Intn(4)
			s += " LIMIT " + strconv.Itoa(q.Limit)
		}
		q.Tmpl = s
	}
	q.Mixed = p.hasMixedNumeric(sc)
	return q
}

// ---------------------------------------------------------------- data: bulk rows with hot leading values

// one INSERT … ON CONFLICT DO NOTHING / UPSERT of a few rows whose leading columns of the composite indexes
// (and the first column of a composite primary key) are drawn from c.hot: many rows share them, in an order
// unrelated to the primary key
func (c *c11Case) genBulk() *dml {
	rng, sc := c.rng, c.sc
	if c.hot == nil {
		c.hot = map[int][]c15Val{}
		mark := func(ci int) {
			col := sc.Cols[ci]
			if _, ok := c.hot[ci]; ok || col.AutoInc || len(col.Pool) == 0 {
				return
			}
			n := 2 + rng.Intn(2)
			var vs []c15Val
			for i := 0; i < n; i++ {
				vs = append(vs, col.Pool[rng.Intn(len(col.Pool))])
			}
			c.hot[ci] = vs
		}
		for _, ix := range sc.Idx {
			if len(ix.Cols) >= 2 && !ix.Unique {
				mark(ix.Cols[0])
				if len(ix.Cols) >= 3 && rng.Intn(2) == 0 {
					mark(ix.Cols[1])
				}
			}
		}
		if len(sc.PK) > 1 {
			mark(sc.PK[0])
		}
	}
	d := &dml{K: "insert-ocn"}
	if rng.Intn(3) == 0 {
		d.K = "upsert"
	}
	for ci, col := range sc.Cols {
		if !col.AutoInc {
			d.Cols = append(d.Cols, ci)
		}
	}
	for n := 2 + rng.Intn(3); n > 0; n-- {
		row := make([]c15Val, len(d.Cols))
		for i, ci := range d.Cols {
			col := sc.Cols[ci]
			switch hv := c.hot[ci]; {
			case len(hv) > 0 && rng.Intn(8) != 0:
				row[i] = hv[rng.Intn(len(hv))]
			case sc.isPK(ci):
				// a wide domain for key columns: the table must be able to grow
				if rng.Intn(3) != 0 {
					col.Pool = nil
				}
				row[i] = sqlGenVal(rng, col, sqlGenOpts{}, true)
			default:
				row[i] = sqlGenVal(rng, col, sqlGenOpts{Exotic: true}, false)
			}
		}
		d.Rows = append(d.Rows, row)
	}
	return d
}

// ---------------------------------------------------------------- GROUP BY: every group appears once

func (c *c11Case) checkGroups(q *c11Query, qt sqlText, res sqlQRes) {
	if q.Kind != "group" || res.Err != "" {
		return
	}
	n := q.GroupN
	if n == 0 {
		n = 1
	}
	c.r.OracleChecks++
	seen := map[string]bool{}
	for _, row := range res.Rows {
		if len(row) < n {
			return
		}
		g := sqlRowTok(row[:n])
		if seen[g] {
			c.r.Fail("C11:groupby:duplicate-group"+c.cause(q, res, res), fmt.Sprintf("[%s] returns the group (%s) more than once: %s", qt.String(), g, sqlRowsShow(res.Rows, 12)), c.replay(qt.String(), "", "duplicate group"))
			return
		}
		seen[g] = true
	}
}

// LIMIT/OFFSET under an ORDER BY that is not total: WHICH rows are returned is not determined, but their ORDER BY
// keys are — they are the keys at positions [offset, offset+limit) of the sorted unlimited result
func (c *c11Case) checkLimitKeys(q *c11Query, qt, nt sqlText, base, full sqlQRes) {
	if q.Total || len(q.Ord) == 0 || q.Limit <= 0 || base.Err != "" || full.Err != "" || q.Kind != "simple" {
		return
	}
	keys := func(rows [][]c15Val) []string {
		out := make([]string, len(rows))
		for i, row := range rows {
			k := make([]c15Val, len(q.Ord))
			for j, pos := range q.Ord {
				if pos >= len(row) {
					return nil
				}
				k[j] = row[pos]
			}
			out[i] = sqlRowTok(k)
		}
		return out
	}
	all := append([][]c15Val{}, full.Rows...)
	sort.SliceStable(all, func(i, j int) bool {
		for k, pos := range q.Ord {
			cm := sqlCmpVal(all[i][pos], all[j][pos])
			if q.OrdDesc[k] {
				cm = -cm
			}
			if cm != 0 {
				return cm < 0
			}
		}
		return false
	})
	off := max(q.Offset, 0)
	lo, hi := min(off, len(all)), min(off+q.Limit, len(all))
	c.r.OracleChecks++
	c.r.Count("variant.limit-keys")
	if strings.Join(keys(base.Rows), ";") != strings.Join(keys(all[lo:hi]), ";") {
		c.fail("C11:limit-offset:order-keys-differ", q, qt, nt, base, full, "ORDER BY keys of the LIMIT/OFFSET result are not the keys at these positions of the sorted unlimited result")
	}
}

// ---------------------------------------------------------------- observation of the chosen plan

type c11Plan struct {
	Err   string
	Idx   []int // columns of ScanSpecs().Index
	Desc  bool  // ScanSpecs().DescOrder
	Sort  bool  // a sortRowReader is part of the reader chain
	Chain string
}

func (p c11Plan) String() string {
	ix := make([]string, len(p.Idx))
	for i, c := range p.Idx {
		ix[i] = strconv.Itoa(c)
	}
	return "idx=" + strings.Join(ix, ",") + " desc=" + b01s(p.Desc) + " sort=" + b01s(p.Sort)
}

// names of the reader types from the outermost reader down to the scan (unexported fields are only READ)
func c11ReaderChain(rd sql.RowReader) []string {
	var out []string
	v := reflect.ValueOf(rd)
	var inner func(s reflect.Value) reflect.Value
	inner = func(s reflect.Value) reflect.Value {
		for i := 0; i < s.NumField(); i++ {
			f, ft := s.Field(i), s.Type().Field(i)
			switch {
			case ft.Name == "rowReader" || ft.Name == "rawReader":
				return f
			case ft.Anonymous:
				e := f
				for e.Kind() == reflect.Ptr && !e.IsNil() {
					e = e.Elem()
				}
				if e.Kind() == reflect.Struct {
					if n := inner(e); n.IsValid() {
						return n
					}
				}
			}
		}
		return reflect.Value{}
	}
	for depth := 0; depth < 16; depth++ {
		for v.IsValid() && v.Kind() == reflect.Interface {
			v = v.Elem()
		}
		if !v.IsValid() || v.Kind() != reflect.Ptr || v.IsNil() {
			break
		}
		out = append(out, v.Type().Elem().Name())
		s := v.Elem()
		if s.Kind() != reflect.Struct {
			break
		}
		v = inner(s)
	}
	return out
}

func (c *c11Case) observePlan(tx *sql.SQLTx, qt sqlText) (pl c11Plan) {
	defer func() {
		if p := recover(); p != nil {
			pl = c11Plan{Err: fmt.Sprintf("panic:%v", p)}
		}
	}()
	rd, err := c.env.eng.Query(context.Background(), tx, qt.SQL, qt.Params)
	if err != nil {
		return c11Plan{Err: sqlErrClass(err)}
	}
	defer rd.Close()
	chain := c11ReaderChain(rd)
	pl.Chain = strings.Join(chain, ">")
	for _, n := range chain {
		if n == "sortRowReader" {
			pl.Sort = true
		}
	}
	specs := rd.ScanSpecs()
	if specs == nil || specs.Index == nil {
		return c11Plan{Err: "no-scan-specs", Chain: pl.Chain}
	}
	pl.Desc = specs.DescOrder
	for _, col := range specs.Index.Cols() {
		found := -1
		for i, sc := range c.sc.Cols {
			if sc.Name == col.Name() {
				found = i
			}
		}
		if found < 0 {
			return c11Plan{Err: "unknown-column:" + col.Name(), Chain: pl.Chain}
		}
		pl.Idx = append(pl.Idx, found)
	}
	return pl
}

// the Lean driver gets the current rows of t (the engine's own PK scan) once per table state
func (c *c11Case) sendTable(data sqlQRes) bool {
	if c.tblSent {
		return true
	}
	if data.Err != "" {
		return false
	}
	sc := c.sc
	var cols []string
	for _, col := range sc.Cols {
		cols = append(cols, fmt.Sprintf("%s:%d", c15TyName(col.Ty), col.keyLen()))
	}
	pk := make([]string, len(sc.PK))
	for i, p := range sc.PK {
		pk[i] = strconv.Itoa(p)
	}
	c.r.Corr(fmt.Sprintf("c11 tbl %d %s pk %d %s", len(cols), strings.Join(cols, " "), len(pk), strings.Join(pk, " ")), "ok")
	for _, row := range data.Rows {
		ts := make([]string, len(row))
		for i, v := range row {
			ts[i] = v.tok()
		}
		c.r.Corr("c11 row "+strings.Join(ts, " "), "ok")
	}
	c.tblSent = true
	return true
}

// Lean planner correspondence of a `SELECT * … WHERE p [ORDER BY …] [LIMIT] [OFFSET]` query (unhinted or under
// the hint `hint`): the plan the engine chose vs `planOf`, and — when the output order is determined (total
// ORDER BY, or no sort step: index order) — the row list vs `runPlan`.
func (c *c11Case) planCorr(q *c11Query, tx *sql.SQLTx, hint []int, res sqlQRes) {
	sc := c.sc
	if tx != nil || q.Kind != "simple" || !q.Star || q.WhereAll == nil || !q.WhereAll.inFragment(sc) || c.negZero || res.Err != "" {
		return
	}
	if len(q.Ord) != len(q.OrdCols) {
		return
	}
	h := ""
	if hint != nil {
		h = c.hint(hint)
	}
	qt := q.text(q.Tmpl, "t", "r", h)
	pl := c.observePlan(nil, qt)
	if pl.Err != "" {
		c.r.Count("plan.unobserved." + pl.Err)
		return
	}
	c.r.Count("plan.chain." + pl.Chain)
	if !c.tblSent {
		if !c.sendTable(sqlScan(c.env.eng, nil, sc, "t", sc.PK)) {
			return
		}
	}
	nats := func(l []int) string {
		out := []string{strconv.Itoa(len(l))}
		for _, x := range l {
			out = append(out, strconv.Itoa(x))
		}
		return strings.Join(out, " ")
	}
	args := []string{strconv.Itoa(len(c.idxLive))}
	for _, ix := range c.idxLive {
		args = append(args, nats(ix.Cols))
	}
	if hint == nil {
		args = append(args, "-1")
	} else {
		args = append(args, nats(hint))
	}
	args = append(args, strconv.Itoa(len(q.OrdCols)))
	for i, oc := range q.OrdCols {
		args = append(args, strconv.Itoa(oc), b01s(q.OrdDesc[i]))
	}
	args = append(args, strconv.Itoa(q.Limit), strconv.Itoa(q.Offset))
	args = append(args, q.WhereAll.toks()...)
	line := strings.Join(args, " ")
	c.r.Corr("c11 plan "+line, pl.String())
	c.r.Count("plan.corr")
	if pl.Sort {
		c.r.Count("plan.sort-step")
	} else if len(q.OrdCols) > 0 {
		c.r.Count("plan.order-by-without-sort-step")
	}
	if q.Total || !pl.Sort {
		c.r.Corr("c11 pq "+line, "rows "+strings.Join(res.rowToks(), ";"))
		c.r.Count("plan.rows-corr")
	}
}
