package main

// C19 (g), second part: document proofs for EVERY relation between the client's known state and the transaction of
// the proved revision (no state / older / equal / newer), and a family of COHERENT forgeries built from the genuine
// proof with the functions the verifier itself uses (payload swapped + entry hash + entries digest rebuilt, headers
// moved between the ends of the dual proof, another transaction presented under the proved id, …).
//
// ORACLE (ground truth, independent of the Lean model).  The harness knows every stored revision with its
// transaction and — from the server's honest answers — the accumulated hash (Alh) of the transactions involved.
// An ACCEPTED proof is legitimate only if
//   (a) the presented document equals a stored, non-deleted revision written by the transaction whose header is
//       shipped with the entries (Tx.Header.Id),
//   (b) that header hashes to the genuine Alh of that transaction,
//   (c) the returned state is not older than the known state (same tx ⇒ same hash) and is genuine;
// the only exception to (a)/(b): the shipped header belongs to a transaction the client holds no state for
// (newer than the known state) and the RETURNED state is exactly that header's hash — the server equivocated about a
// transaction the client cannot check yet, the client's new state records the fork (counted, not a failure).
// The genuine proof must be accepted for every relation.  Every round is also sent to the Lean model of
// VerifyDocument (`c19 vdoc …`, lean/ImmuModel/Doc/Verify.lean) and must get the same verdict.

import (
	"bytes"
	"crypto/sha256"
	"errors"
	"fmt"
	"sort"
	"strings"

	"github.com/codenotary/immudb/embedded/document"
	"github.com/codenotary/immudb/embedded/htree"
	"github.com/codenotary/immudb/embedded/sql"
	"github.com/codenotary/immudb/embedded/store"
	"github.com/codenotary/immudb/pkg/api/protomodel"
	"github.com/codenotary/immudb/pkg/api/schema"
	"google.golang.org/protobuf/proto"
	"google.golang.org/protobuf/types/known/structpb"

	"verif/harness/internal/hx"
)

// what the harness has learnt from the server's honest answers
type c19PF struct {
	alh map[uint64][32]byte // tx id -> accumulated hash
}

func (cs *c19Case) pfCtx() *c19PF {
	if cs.pf == nil {
		cs.pf = &c19PF{alh: map[uint64][32]byte{}}
	}
	return cs.pf
}

func (cs *c19Case) noteAlh(tx uint64, a [32]byte, from string) {
	pf := cs.pfCtx()
	if tx == 0 {
		return
	}
	if old, ok := pf.alh[tx]; ok && old != a {
		cs.fail("C19:proof:state-not-genuine", fmt.Sprintf("the database gave two different accumulated hashes for tx %d: %x and %x (%s)", tx, old, a, from))
		return
	}
	pf.alh[tx] = a
}

// the current state of the database (stage 2 only)
func (cs *c19Case) noteState() {
	st := cs.api.State()
	if st == nil || len(st.TxHash) != 32 {
		return
	}
	var a [32]byte
	copy(a[:], st.TxHash)
	cs.noteAlh(st.TxId, a, "CurrentState")
}

func c19HdrAlh(h *schema.TxHeader) (a [32]byte, ok bool) {
	defer func() {
		if recover() != nil {
			ok = false
		}
	}()
	if h == nil {
		return a, false
	}
	return schema.TxHeaderFromProto(h).Alh(), true
}

func (cs *c19Case) noteHdr(h *schema.TxHeader, from string) {
	if a, ok := c19HdrAlh(h); ok {
		cs.noteAlh(h.Id, a, from)
	}
}

// encodedKeyForDocument of pkg/verification (unexported there), from the exported pieces
func c19EncDocKey(collectionID uint32, documentID string) ([]byte, error) {
	docID, err := document.NewDocumentIDFromHexEncodedString(documentID)
	if err != nil {
		return nil, err
	}
	encVal, _, err := sql.EncodeRawValueAsKey(sql.NewBlob(docID[:]).RawValue(), sql.BLOBType, document.MaxDocumentIDLength)
	if err != nil {
		return nil, err
	}
	return sql.MapKey([]byte{3}, sql.RowPrefix, sql.EncodeID(1), sql.EncodeID(collectionID), sql.EncodeID(sql.PKIndexID), encVal), nil
}

// the decode + compare step of VerifyDocument (same functions, same order): same | differs | undecodable | out-of-range
func c19DocCheck(enc []byte, doc *structpb.Struct) (res string) {
	defer func() {
		if recover() != nil {
			res = "out-of-range"
		}
	}()
	voff := sql.EncLenLen + sql.EncIDLen
	if len(enc) < voff {
		return "out-of-range" // since the repair of finding 10: ErrInvalidProof (was: slice bounds panic)
	}
	_, n, err := sql.DecodeValue(enc[voff:], sql.BLOBType)
	if err != nil {
		return "undecodable"
	}
	if n > document.MaxDocumentIDLength {
		return "differs"
	}
	voff += n + sql.EncIDLen
	if len(enc) < voff {
		return "out-of-range"
	}
	v, _, err := sql.DecodeValue(enc[voff:], sql.BLOBType)
	if err != nil {
		return "undecodable"
	}
	pd := &structpb.Struct{}
	if err := proto.Unmarshal(v.RawValue().([]byte), pd); err != nil {
		return "undecodable"
	}
	if !proto.Equal(doc, pd) {
		return "differs"
	}
	return "same"
}

// the encoded row with the document column replaced
func c19ReencodeDoc(enc []byte, nd *structpb.Struct) ([]byte, error) {
	voff := sql.EncLenLen + sql.EncIDLen
	if len(enc) < voff {
		return nil, fmt.Errorf("short row")
	}
	_, n, err := sql.DecodeValue(enc[voff:], sql.BLOBType)
	if err != nil {
		return nil, err
	}
	voff += n + sql.EncIDLen
	if len(enc) < voff {
		return nil, fmt.Errorf("short row")
	}
	_, n2, err := sql.DecodeValue(enc[voff:], sql.BLOBType)
	if err != nil {
		return nil, err
	}
	blob, err := proto.Marshal(nd)
	if err != nil {
		return nil, err
	}
	eb, err := sql.EncodeValue(sql.NewBlob(blob), sql.BLOBType, 0)
	if err != nil {
		return nil, err
	}
	out := append([]byte{}, enc[:voff]...)
	out = append(out, eb...)
	return append(out, enc[voff+n2:]...), nil
}

// entries digest over the shipped entries, exactly as the verifier computes it
func c19EntriesRoot(tx *schema.Tx) ([32]byte, bool) {
	var z [32]byte
	if tx == nil || tx.Header == nil || len(tx.Entries) == 0 {
		return z, false
	}
	tree, err := htree.New(len(tx.Entries))
	if err != nil {
		return z, false
	}
	df, err := store.EntrySpecDigestFor(int(tx.Header.Version))
	if err != nil {
		return z, false
	}
	ds := make([][sha256.Size]byte, len(tx.Entries))
	for i, e := range tx.Entries {
		ds[i] = df(&store.EntrySpec{Key: e.Key, Metadata: schema.KVMetadataFromProto(e.Metadata), HashValue: schema.DigestFromProto(e.HValue), IsValueTruncated: true})
	}
	if err := tree.BuildWith(ds); err != nil {
		return z, false
	}
	return tree.Root(), true
}

func c19FixEH(p *protomodel.ProofDocumentResponse) bool {
	r, ok := c19EntriesRoot(p.VerifiableTx.Tx)
	if ok {
		p.VerifiableTx.Tx.Header.EH = append([]byte{}, r[:]...)
	}
	return ok
}

// the hash of the entry (entries) holding the document key follows the encoded document
func c19FixHValue(p *protomodel.ProofDocumentResponse, key []byte) int {
	h := sha256.Sum256(p.EncodedDocument)
	n := 0
	for _, e := range p.VerifiableTx.Tx.Entries {
		if bytes.Equal(e.Key, key) {
			e.HValue = append([]byte{}, h[:]...)
			n++
		}
	}
	return n
}

func c19VerdictTok(st *schema.ImmutableState, err error, pan interface{}, dc string) string {
	if pan != nil {
		return "panic"
	}
	if err == nil {
		return fmt.Sprintf("ok %d %s", st.TxId, hx.Hex(st.TxHash))
	}
	msg := err.Error()
	switch {
	case errors.Is(err, store.ErrInvalidProof):
		return "err:invalid-proof"
	case dc == "undecodable":
		return "err:decode"
	case errors.Is(err, store.ErrUnsupportedTxVersion):
		return "err:version"
	case errors.Is(err, store.ErrUnexpectedLinkingError):
		return "err:dual:linking"
	case errors.Is(err, store.ErrSourceTxNewerThanTargetTx):
		return "err:dual:source-newer"
	case errors.Is(err, store.ErrIllegalArguments):
		return "err:dual:illegal"
	case strings.Contains(msg, "inclusion proof does NOT validate"):
		return "err:dual:inclusion"
	case strings.Contains(msg, "consistency proof does NOT validate"):
		return "err:dual:consistency"
	}
	return "err:other:" + msg
}

// one line for the Lean model of VerifyDocument; false when the round is outside what the model takes as input
func c19VdocLine(p *protomodel.ProofDocumentResponse, key []byte, dc string, known *schema.ImmutableState) (string, bool) {
	vt := p.VerifiableTx
	if vt == nil || vt.Tx == nil || vt.Tx.Header == nil || vt.DualProof == nil || vt.DualProof.SourceTxHeader == nil || vt.DualProof.TargetTxHeader == nil {
		return "", false
	}
	ents := make([]string, 0, len(vt.Tx.Entries))
	for _, e := range vt.Tx.Entries {
		if len(e.HValue) != 32 {
			return "", false
		}
		var md []byte
		if m := schema.KVMetadataFromProto(e.Metadata); m != nil {
			md = m.Bytes()
		}
		ents = append(ents, hx.Hex(e.Key)+":"+hx.Hex(md)+":"+hx.Hex(e.HValue))
	}
	et := "_"
	if len(ents) > 0 {
		et = strings.Join(ents, ";")
	}
	kTx, kHash := uint64(0), "-"
	if known != nil && known.TxId != 0 {
		if len(known.TxHash) != 32 {
			return "", false
		}
		kTx, kHash = known.TxId, hx.Hex(known.TxHash)
	}
	dp := schema.DualProofV2FromProto(vt.DualProof)
	return fmt.Sprintf("c19 vdoc %d %s %s %s %s %s %s %s %s %s %s", kTx, kHash, hx.Hex(key), dc, hx.Hex(p.EncodedDocument), et,
		hdrTok(schema.TxHeaderFromProto(vt.Tx.Header)), hdrTok(dp.SourceTxHeader), hdrTok(dp.TargetTxHeader),
		hx.Csv32(dp.InclusionProof), hx.Csv32(dp.ConsistencyProof)), true
}

type c19Forged struct {
	what string
	p    *protomodel.ProofDocumentResponse
	doc  *structpb.Struct // the document presented to the verifier
}

// one proved revision and everything the rounds need
type c19ProofSubject struct {
	c      *c19Coll
	d      *c19Doc
	revIdx int
	tx     uint64
	doc    *structpb.Struct
	key    []byte
}

func (cs *c19Case) opProofRelations() {
	rng := cs.rng
	c := cs.C
	if rng.Bool() {
		c = cs.T
	}
	var live []*c19Doc
	for _, d := range c.Docs {
		if d.Live() && d.Cur().TxID != 0 {
			live = append(live, d)
		}
	}
	if len(live) == 0 {
		return
	}
	d := live[rng.Intn(len(live))]
	revIdx := len(d.Revs) - 1
	if rng.Chance(35) {
		if j := rng.Intn(len(d.Revs)); !d.Revs[j].Deleted && d.Revs[j].TxID != 0 {
			revIdx = j
		}
	}
	pf := cs.pfCtx()
	cs.noteState()
	T := d.Revs[revIdx].TxID
	// the "newer" relation needs a state after the proved transaction: further documents are inserted
	for try := 0; try < 3; try++ {
		newer := false
		for tx := range pf.alh {
			if tx > T {
				newer = true
			}
		}
		if newer {
			break
		}
		cs.r.Count("proofrel.insert-to-get-a-newer-state")
		cs.opInsert()
		cs.noteState()
	}
	if !d.Live() {
		return
	}
	// reads of the latest revision do not wait for the indexer (known finding stale-read-after-write): a query does
	cs.api.Count(&protomodel.Query{CollectionName: c.Name})
	s := &c19ProofSubject{c: c, d: d, revIdx: revIdx, tx: T, doc: d.Revs[revIdx].Doc}
	for _, rel := range []string{"none", "older", "equal", "newer"} {
		cs.proofRound(s, rel)
	}
}

func (cs *c19Case) pickTx(lo, hi uint64) (uint64, bool) { // a tx with a known hash in [lo, hi]
	var cand []uint64
	for tx := range cs.pfCtx().alh {
		if tx >= lo && tx <= hi {
			cand = append(cand, tx)
		}
	}
	if len(cand) == 0 {
		return 0, false
	}
	sort.Slice(cand, func(i, j int) bool { return cand[i] < cand[j] })
	switch cs.rng.Intn(3) {
	case 0:
		return cand[0], true
	case 1:
		return cand[len(cand)-1], true
	}
	return cand[cs.rng.Intn(len(cand))], true
}

func (cs *c19Case) proofRound(s *c19ProofSubject, rel string) {
	pf := cs.pfCtx()
	T := s.tx
	var known *schema.ImmutableState
	var X uint64
	ok := true
	switch rel {
	case "older":
		X, ok = cs.pickTx(1, T-1)
	case "equal":
		X = T
		_, ok = pf.alh[T]
	case "newer":
		X, ok = cs.pickTx(T+1, ^uint64(0))
	}
	if !ok {
		cs.r.Count("proofrel." + rel + ".no-such-state")
		return
	}
	if rel != "none" {
		a := pf.alh[X]
		known = &schema.ImmutableState{Db: "db", TxId: X, TxHash: append([]byte{}, a[:]...)}
	}
	req := &protomodel.ProofDocumentRequest{CollectionName: s.c.Name, DocumentId: s.d.ID, TransactionId: T, ProofSinceTransactionId: X}
	if s.revIdx == len(s.d.Revs)-1 && cs.rng.Bool() {
		req.TransactionId = 0 // the latest revision
	}
	cs.r.OracleChecks++
	cs.log("proof-relations %s/%s revision-tx=%d known-state=%s(tx %d) request{tx=%d since=%d}", s.c.Name, s.d.ID, T, rel, X, req.TransactionId, req.ProofSinceTransactionId)
	g, err := cs.api.Proof(proto.Clone(req).(*protomodel.ProofDocumentRequest))
	if req.TransactionId == 0 && (err != nil || g == nil || g.VerifiableTx == nil || g.VerifiableTx.Tx == nil || g.VerifiableTx.Tx.Header == nil || g.VerifiableTx.Tx.Header.Id != T) {
		// the read of the latest revision does not wait for the indexer (known finding stale-read-after-write,
		// reported by opProof): ask for the transaction explicitly, which does
		cs.r.Count("proofrel.stale-latest-revision(asked again with the tx id)")
		req.TransactionId = T
		g, err = cs.api.Proof(proto.Clone(req).(*protomodel.ProofDocumentRequest))
	}
	if err != nil || g == nil || g.VerifiableTx == nil || g.VerifiableTx.Tx == nil || g.VerifiableTx.Tx.Header == nil || g.VerifiableTx.DualProof == nil {
		cs.fail("C19:proof:rejects-genuine:known-"+rel, fmt.Sprintf("ProofDocument(%s/%s tx=%d since=%d): %v", s.c.Name, s.d.ID, req.TransactionId, X, err))
		return
	}
	if g.VerifiableTx.Tx.Header.Id != T {
		cs.fail("C19:proof:wrong-revision", fmt.Sprintf("ProofDocument(%s/%s tx=%d since=%d) answers with tx %d", s.c.Name, s.d.ID, req.TransactionId, X, g.VerifiableTx.Tx.Header.Id))
		return
	}
	dp := g.VerifiableTx.DualProof
	cs.noteHdr(g.VerifiableTx.Tx.Header, "ProofDocument.Tx.Header")
	cs.noteHdr(dp.SourceTxHeader, "ProofDocument.SourceTxHeader")
	cs.noteHdr(dp.TargetTxHeader, "ProofDocument.TargetTxHeader")
	side := "doc-tx-is-target"
	switch {
	case dp.SourceTxHeader != nil && dp.TargetTxHeader != nil && dp.SourceTxHeader.Id == T && dp.TargetTxHeader.Id == T:
		side = "doc-tx-is-both-ends"
	case dp.SourceTxHeader != nil && dp.SourceTxHeader.Id == T:
		side = "doc-tx-is-source"
	}
	cs.r.Count("proofrel.known-" + rel + "." + side)
	key, kerr := c19EncDocKey(g.CollectionId, s.d.ID)
	if kerr != nil {
		cs.r.Count("proofrel.key-not-computable")
		return
	}
	s.key = key

	// ---- the genuine proof must verify
	if !cs.judge(s, rel, known, c19Forged{what: "genuine", p: g, doc: s.doc}) {
		return
	}
	cs.r.Eval(fmt.Sprintf("proofrel|%s|%s|%d|%s", s.c.Name, s.d.ID, s.revIdx, rel), true)
	for _, f := range cs.forgeries(s, g, req) {
		cs.judge(s, rel, known, f)
	}
}

// the family of forgeries built from the genuine proof g
func (cs *c19Case) forgeries(s *c19ProofSubject, g *protomodel.ProofDocumentResponse, req *protomodel.ProofDocumentRequest) (out []c19Forged) {
	rng := cs.rng
	T := s.tx
	clone := func() *protomodel.ProofDocumentResponse { return proto.Clone(g).(*protomodel.ProofDocumentResponse) }
	add := func(what string, p *protomodel.ProofDocumentResponse, doc *structpb.Struct) {
		out = append(out, c19Forged{what: what, p: p, doc: doc})
	}
	otherEnd := func(p *protomodel.ProofDocumentResponse) uint64 {
		if id := p.VerifiableTx.DualProof.SourceTxHeader.Id; id != T {
			return id
		}
		return p.VerifiableTx.DualProof.TargetTxHeader.Id
	}
	intoProof := func(p *protomodel.ProofDocumentResponse) { // the shipped header also replaces the proof header(s) with its id
		h := p.VerifiableTx.Tx.Header
		if p.VerifiableTx.DualProof.SourceTxHeader.Id == h.Id {
			p.VerifiableTx.DualProof.SourceTxHeader = proto.Clone(h).(*schema.TxHeader)
		}
		if p.VerifiableTx.DualProof.TargetTxHeader.Id == h.Id {
			p.VerifiableTx.DualProof.TargetTxHeader = proto.Clone(h).(*schema.TxHeader)
		}
	}
	swapEnds := func(p *protomodel.ProofDocumentResponse) {
		dp := p.VerifiableTx.DualProof
		dp.SourceTxHeader, dp.TargetTxHeader = dp.TargetTxHeader, dp.SourceTxHeader
	}
	if g.VerifiableTx.DualProof.SourceTxHeader == nil || g.VerifiableTx.DualProof.TargetTxHeader == nil {
		return
	}

	// (1) another payload, coherently: encoded row, entry hash, entries digest
	var ad *structpb.Struct
	var how string
	for i := 0; i < 4; i++ {
		how, ad = cs.alterDoc(s.doc)
		if !proto.Equal(ad, s.doc) {
			break
		}
	}
	payload := func(fixH, fixEH bool) *protomodel.ProofDocumentResponse {
		p := clone()
		enc, err := c19ReencodeDoc(p.EncodedDocument, ad)
		if err != nil {
			return nil
		}
		p.EncodedDocument = enc
		if fixH && c19FixHValue(p, s.key) == 0 {
			return nil
		}
		if fixEH && !c19FixEH(p) {
			return nil
		}
		return p
	}
	if ad != nil && !proto.Equal(ad, s.doc) {
		if p := payload(false, false); p != nil {
			add("payload("+how+")", p, ad)
		}
		if p := payload(true, false); p != nil {
			add("payload+hvalue", p, ad)
		}
		if p := payload(true, true); p != nil {
			add("payload+hvalue+eh", p, ad)
		}
		// (2) … and the proof header with the same id follows (what the forger can still make consistent)
		if p := payload(true, true); p != nil {
			intoProof(p)
			add("payload+hvalue+eh+proof-header", p, ad)
		}
		if p := payload(true, true); p != nil {
			if o := otherEnd(p); o != T {
				p.VerifiableTx.Tx.Header.Id = o
				add("payload+hvalue+eh+id-of-other-end", p, ad)
			}
		}
		// (4) the ends of the dual proof swapped
		if p := payload(true, true); p != nil {
			swapEnds(p)
			add("payload+hvalue+eh+ends-swapped", p, ad)
		}
	}
	{
		p := clone()
		swapEnds(p)
		add("ends-swapped", p, s.doc)
	}

	// (3) the transaction of another revision / another document, with the dual proof of the original
	var others []*c19ProofSubject
	for j := range s.d.Revs {
		if j != s.revIdx && !s.d.Revs[j].Deleted && s.d.Revs[j].TxID != 0 && s.d.Revs[j].TxID != T {
			others = append(others, &c19ProofSubject{c: s.c, d: s.d, revIdx: j, tx: s.d.Revs[j].TxID, doc: s.d.Revs[j].Doc})
			break
		}
	}
	for _, o := range s.c.Docs {
		if o.ID != s.d.ID && o.Live() && o.Cur().TxID != 0 && o.Cur().TxID != T {
			others = append(others, &c19ProofSubject{c: s.c, d: o, revIdx: len(o.Revs) - 1, tx: o.Cur().TxID, doc: o.Cur().Doc})
			break
		}
	}
	for _, o := range others {
		op, err := cs.api.Proof(&protomodel.ProofDocumentRequest{CollectionName: o.c.Name, DocumentId: o.d.ID, TransactionId: o.tx, ProofSinceTransactionId: req.ProofSinceTransactionId})
		if err != nil || op == nil || op.VerifiableTx == nil || op.VerifiableTx.Tx == nil || op.VerifiableTx.Tx.Header == nil || op.VerifiableTx.Tx.Header.Id != o.tx {
			continue
		}
		cs.noteHdr(op.VerifiableTx.Tx.Header, "ProofDocument.Tx.Header")
		kind := "other-revision"
		if o.d != s.d {
			kind = "other-document"
		}
		p := clone()
		p.VerifiableTx.Tx = proto.Clone(op.VerifiableTx.Tx).(*schema.Tx)
		p.EncodedDocument = append([]byte{}, op.EncodedDocument...)
		add(kind+"-tx", p, o.doc)
		p2 := proto.Clone(p).(*protomodel.ProofDocumentResponse)
		p2.VerifiableTx.Tx.Header.Id = T
		add(kind+"-tx+id-rewritten", p2, o.doc)
		if o.d == s.d && !proto.Equal(o.doc, s.doc) {
			// the other revision's content spliced into the proved transaction, coherently
			p3 := clone()
			if enc, err := c19ReencodeDoc(p3.EncodedDocument, o.doc); err == nil {
				p3.EncodedDocument = enc
				if c19FixHValue(p3, s.key) > 0 && c19FixEH(p3) {
					add("other-revision-payload+hvalue+eh", p3, o.doc)
				}
			}
		}
	}

	// (5) same id, another accumulated hash: one Alh-relevant field of the shipped header changed, entries untouched
	fields := []string{"ts", "bltxid", "blroot", "prevalh", "nentries", "version-flip", "version-2", "metadata"}
	for k := 0; k < 2; k++ {
		f := fields[rng.Intn(len(fields))]
		p := clone()
		h := p.VerifiableTx.Tx.Header
		switch f {
		case "ts":
			h.Ts++
		case "bltxid":
			h.BlTxId++
		case "blroot":
			if len(h.BlRoot) == 32 {
				h.BlRoot[rng.Intn(32)] ^= 1 << uint(rng.Intn(8))
			} else {
				h.BlRoot = make([]byte, 32)
				h.BlRoot[0] = 1
			}
		case "prevalh":
			if len(h.PrevAlh) == 32 {
				h.PrevAlh[rng.Intn(32)] ^= 1 << uint(rng.Intn(8))
			} else {
				h.PrevAlh = make([]byte, 32)
				h.PrevAlh[0] = 1
			}
		case "nentries":
			h.Nentries++
		case "version-flip":
			h.Version = 1 - h.Version
		case "version-2":
			h.Version = 2
		case "metadata":
			if h.Metadata == nil {
				h.Metadata = &schema.TxMetadata{Extra: []byte{1}}
			} else {
				h.Metadata = nil
			}
		}
		add("same-id-other-alh:"+f, p, s.doc)
	}

	// entries added / removed with the digest rebuilt; a too short encoded row with its hash rebuilt
	{
		p := clone()
		var de *schema.TxEntry
		for _, e := range p.VerifiableTx.Tx.Entries {
			if bytes.Equal(e.Key, s.key) {
				de = e
			}
		}
		if de != nil {
			p.VerifiableTx.Tx.Entries = append(p.VerifiableTx.Tx.Entries, proto.Clone(de).(*schema.TxEntry))
			if c19FixEH(p) {
				add("document-entry-twice+eh", p, s.doc)
			}
		}
		if p2 := clone(); len(p2.VerifiableTx.Tx.Entries) > 1 {
			var keep []*schema.TxEntry
			dropped := false
			for _, e := range p2.VerifiableTx.Tx.Entries {
				if !dropped && !bytes.Equal(e.Key, s.key) {
					dropped = true
					continue
				}
				keep = append(keep, e)
			}
			p2.VerifiableTx.Tx.Entries = keep
			if c19FixEH(p2) {
				add("entry-removed+eh", p2, s.doc)
			}
		}
	}
	{
		// cut inside / right after the fixed-size prefix, inside the id column, right after it, inside the payload
		cuts := []int{0, 3, sql.EncLenLen + sql.EncIDLen - 1, sql.EncLenLen + sql.EncIDLen, sql.EncLenLen + sql.EncIDLen + 2}
		if _, n, err := sql.DecodeValue(g.EncodedDocument[sql.EncLenLen+sql.EncIDLen:], sql.BLOBType); err == nil {
			after := sql.EncLenLen + sql.EncIDLen + n
			cuts = append(cuts, after, after+sql.EncIDLen-1, after+sql.EncIDLen, after+sql.EncIDLen+2, len(g.EncodedDocument)-1)
		}
		cut := cuts[rng.Intn(len(cuts))]
		if cut >= 0 && cut < len(g.EncodedDocument) {
			p := clone()
			p.EncodedDocument = p.EncodedDocument[:cut]
			if c19FixHValue(p, s.key) > 0 && c19FixEH(p) {
				add(fmt.Sprintf("encoded-row-cut+hvalue+eh(%s)", c19CutClass(cut, g.EncodedDocument)), p, s.doc)
			}
		}
	}
	return
}

func c19CutClass(cut int, enc []byte) string {
	pre := sql.EncLenLen + sql.EncIDLen
	if cut < pre {
		return "inside-fixed-prefix"
	}
	_, n, err := sql.DecodeValue(enc[pre:], sql.BLOBType)
	if err != nil {
		return "?"
	}
	switch {
	case cut < pre+n:
		return "inside-id-column"
	case cut < pre+n+sql.EncIDLen:
		return "before-document-column"
	}
	return "inside-document-column"
}

// judge runs one round: the real verifier, the Lean line, the ground-truth oracle.  Returns whether the proof was accepted.
func (cs *c19Case) judge(s *c19ProofSubject, rel string, known *schema.ImmutableState, f c19Forged) bool {
	pf := cs.pfCtx()
	genuine := f.what == "genuine"
	cs.r.OracleChecks++
	var ks *schema.ImmutableState
	if known != nil {
		ks = proto.Clone(known).(*schema.ImmutableState)
	}
	key := s.key
	if id := f.doc.GetFields()["_id"].GetStringValue(); id != s.d.ID {
		if k, err := c19EncDocKey(f.p.CollectionId, id); err == nil {
			key = k
		}
	}
	dc := c19DocCheck(f.p.EncodedDocument, f.doc)
	line, haveLine := c19VdocLine(f.p, key, dc, known)
	st, verr, pan := c19Verify(proto.Clone(f.p).(*protomodel.ProofDocumentResponse), c19CloneStruct(f.doc), ks)
	verdict := c19VerdictTok(st, verr, pan, dc)
	if haveLine {
		cs.r.Corr(line, verdict)
	}
	what := f.what
	if i := strings.IndexByte(what, '('); i > 0 {
		what = what[:i]
	}
	where := fmt.Sprintf("document %s/%s revision of tx %d, known state %s", s.c.Name, s.d.ID, s.tx, rel)
	if known != nil {
		where += fmt.Sprintf(" (tx %d)", known.TxId)
	}
	hdr := f.p.VerifiableTx.Tx.Header
	dp := f.p.VerifiableTx.DualProof
	shape := fmt.Sprintf("Tx.Header{id %d eH %x} DualProof{source %d, target %d}", hdr.Id, hdr.EH, dp.SourceTxHeader.GetId(), dp.TargetTxHeader.GetId())
	if pan != nil {
		cs.r.Count("proofrel.forged." + what + ".panic")
		cs.fail("C19:proof:panic:"+what, fmt.Sprintf("VerifyDocument panics on %s (%s; %s; EncodedDocument %d bytes): %v", f.what, where, shape, len(f.p.EncodedDocument), pan))
		return false
	}
	if genuine {
		if verr != nil {
			cs.fail("C19:proof:rejects-genuine:known-"+rel, fmt.Sprintf("genuine proof of %s = %s refused: %v (%s)", where, c19DocTok(f.doc), verr, shape))
			return false
		}
	} else if verr != nil {
		cs.r.Count("proofrel.forged." + what + ".rejected")
		return false
	}
	// accepted: is that legitimate?
	xAlh, xok := c19HdrAlh(hdr)
	gAlh, gKnown := pf.alh[hdr.Id]
	stored := false
	if d := s.c.ByID[f.doc.GetFields()["_id"].GetStringValue()]; d != nil {
		for _, r := range d.Revs {
			if !r.Deleted && r.TxID == hdr.Id && proto.Equal(r.Doc, f.doc) {
				stored = true
			}
		}
	}
	hdrGenuine := xok && gKnown && xAlh == gAlh
	fork := xok && st.TxId == hdr.Id && bytes.Equal(st.TxHash, xAlh[:]) && (known == nil || known.TxId < hdr.Id) && !hdrGenuine
	var bad []string
	if !fork {
		if !stored {
			bad = append(bad, fmt.Sprintf("the presented document %s is not what tx %d stored for this id", c19DocTok(f.doc), hdr.Id))
		}
		if !hdrGenuine {
			bad = append(bad, fmt.Sprintf("the shipped header of tx %d hashes to %x, the database's tx %d has %x", hdr.Id, xAlh, hdr.Id, gAlh))
		}
		if a, ok := pf.alh[st.TxId]; ok && !bytes.Equal(st.TxHash, a[:]) {
			bad = append(bad, fmt.Sprintf("the returned state tx %d has hash %x, the database says %x", st.TxId, st.TxHash, a))
		}
	}
	if known != nil && (st.TxId < known.TxId || (st.TxId == known.TxId && !bytes.Equal(st.TxHash, known.TxHash))) {
		bad = append(bad, fmt.Sprintf("the returned state (tx %d, %x) goes back behind / contradicts the known state (tx %d, %x)", st.TxId, st.TxHash, known.TxId, known.TxHash))
	}
	if genuine {
		want := hdr.Id
		if known != nil && known.TxId > want {
			want = known.TxId
		}
		if st.TxId != want {
			bad = append(bad, fmt.Sprintf("the returned state is at tx %d, expected the newer of document tx and known state = %d", st.TxId, want))
		}
	}
	if len(bad) > 0 {
		sig := "C19:proof:accepts-forged:" + what + ":known-" + rel
		if genuine {
			sig = "C19:proof:state-not-genuine:known-" + rel
		}
		cs.fail(sig, fmt.Sprintf("VerifyDocument ACCEPTED %s for %s; stored %s; %s; %s", f.what, where, c19DocTok(s.doc), shape, strings.Join(bad, "; ")))
		return true
	}
	switch {
	case genuine:
	case fork:
		cs.r.Count("proofrel.forged." + what + ".accepted-as-fork(no state held for that tx; new state records it)")
	default:
		cs.r.Count("proofrel.forged." + what + ".accepted(document and header genuine)")
	}
	return true
}
