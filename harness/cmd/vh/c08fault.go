package main

// C08, fault histories: the ahtree runs on its REAL multiapp files, wrapped (Options.WithAppFactory) by
// faultapp.App so that one call of Sync/Flush/Append/SetOffset/ReadAt/Size on the payload ("data"), digest
// ("tree") or commit log fails once, at a seeded point, while an ordinary operation of the history runs.
//
// Oracle (model independent): AN OPERATION THAT RETURNED AN ERROR LEAVES THE TREE AS IT WAS.  After every
// failed Append/ResetSize/Sync/DataAt/RootAt/proof call the observable state – Size, Root, RootAt for all
// sizes, DataAt for all indexes, sampled inclusion/consistency proofs, "nothing beyond the size is served" –
// equals the reference Merkle tree over exactly the successfully appended (and not rolled back) payloads; the
// tree stays usable (the next append gets the next index and the reference root); Close/Open preserves it.
//
// Two generators: (1) a deterministic sweep over every fault point of Append (x mode x sync threshold 1..4 x
// position relative to the threshold x continuation), (2) random lives in which faults are ordinary ops.

import (
	"errors"
	"fmt"
	"os"
	"path/filepath"
	"strings"
	"time"

	"github.com/codenotary/immudb/embedded/ahtree"
	"github.com/codenotary/immudb/embedded/appendable"
	"github.com/codenotary/immudb/embedded/appendable/multiapp"

	"verif/harness/internal/faultapp"
	"verif/harness/internal/hx"
)

var errC08LifeOver = errors.New("c08: life over")

type c08FL struct {
	r    *hx.Result
	rng  *hx.Rng
	dir  string
	path string
	plan *faultapp.Plan
	t    *ahtree.AHtree

	thld     int
	fileSize int
	dSlots   int // 0 = random small

	payloads [][]byte
	leaves   [][32]byte
	hw       int // commit-log entries that may physically exist on disk (stale tail: known finding)

	ops      []string // replayable description of the life
	faults   int      // failed operations so far
	lastFail string   // "<Op>:fault@<log>.<Method>" of the last failed operation
	lastLost []byte   // payload of the last failed Append
	gen      string
	dead     bool // an oracle failure was reported: the life ends (later symptoms are consequences)
}

func (l *c08FL) opts() *ahtree.Options {
	ds := l.dSlots
	if ds == 0 {
		ds = 1 + l.rng.Intn(6)
	}
	return ahtree.DefaultOptions().WithSyncThld(l.thld).
		WithDataCacheSlots(1 + l.rng.Intn(4)).WithDigestsCacheSlots(ds).
		WithFileSize(l.fileSize).
		WithAppFactory(func(rootPath, subPath string, mopts *multiapp.Options) (appendable.Appendable, error) {
			app, err := multiapp.Open(filepath.Join(rootPath, subPath), mopts)
			if err != nil {
				return nil, err
			}
			return faultapp.Wrap(app, subPath, l.plan), nil
		})
}

func (l *c08FL) open() error {
	t, err := ahtree.Open(l.path, l.opts())
	if err != nil {
		return err
	}
	l.t = t
	return nil
}

func (l *c08FL) replay() c08Replay {
	return c08Replay{Kind: "fault-life/" + l.gen, Ops: append([]string{}, l.ops...),
		Detail: "ahtree on real multiapp files; 'fault=<log>.<Method>#<skip>/<mode>' = that call fails once during the op (harness/internal/faultapp); payloads hex"}
}

func (l *c08FL) ctx() string {
	if l.lastFail == "" {
		return "C08:ahtree.faultlife"
	}
	return "C08:ahtree." + l.lastFail
}

func (l *c08FL) fail(class, desc string) {
	l.dead = true
	l.r.Fail(l.ctx()+":"+class, desc, l.replay())
}

func (l *c08FL) alive(err error) error {
	if err == nil && l.dead {
		return errC08LifeOver
	}
	return err
}

func (l *c08FL) sizeRoot() string {
	sz := l.t.Size()
	if sz == 0 {
		return "0 err:empty"
	}
	n, rt, err := l.t.Root()
	if err != nil {
		return fmt.Sprintf("%d %s", sz, ahtErr(err))
	}
	if n != sz {
		return fmt.Sprintf("%d/%d %s", sz, n, hx.Hex(rt[:]))
	}
	return fmt.Sprintf("%d %s", n, hx.Hex(rt[:]))
}

// check: the observable state equals the reference tree over l.payloads.  No fault is armed here.
func (l *c08FL) check(stage string, full bool) (ok bool) {
	r, t := l.r, l.t
	N := len(l.payloads)
	// all discrepancies of one check are ONE failure: signature = the first class observed, description = all
	bad := 0
	var first string
	var descs []string
	flag := func(class, desc string) {
		bad++
		if bad == 1 {
			first = class
		}
		if bad <= 6 {
			descs = append(descs, "["+class+"] "+desc)
		}
	}
	defer func() {
		if e := recover(); e != nil {
			l.fail("panic", fmt.Sprintf("%s: panic in a read: %v", stage, e))
			ok = false
			return
		}
		if bad > 0 {
			l.fail(first, fmt.Sprintf("%s: %s (%d discrepancies)", stage, strings.Join(descs, "; "), bad))
		}
	}()
	r.OracleChecks++
	r.Count("fault.check." + map[bool]string{true: "full", false: "light"}[full])
	if sz := t.Size(); int(sz) != N {
		flag("size-changed", fmt.Sprintf("Size() = %d, the successfully appended payloads are %d", sz, N))
	}
	n, rt, err := t.Root()
	if N == 0 {
		if !errors.Is(err, ahtree.ErrEmptyTree) {
			flag("root-differs", fmt.Sprintf("Root() of the empty tree: n=%d err=%v", n, err))
		}
	} else if err != nil || int(n) != N || rt != refMth(l.leaves) {
		flag("root-differs", fmt.Sprintf("Root() = (%d, %s, %v), reference (%d, %s)", n, hx.Hex(rt[:4]), err, N, func() string { x := refMth(l.leaves); return hx.Hex(x[:4]) }()))
	}
	// nothing beyond the size is served
	if _, err := t.RootAt(uint64(N + 1)); err == nil {
		flag("ghost-leaf-served", fmt.Sprintf("RootAt(%d) served although only %d payloads were appended successfully", N+1, N))
	}
	if d, err := t.DataAt(uint64(N + 1)); err == nil {
		flag("ghost-leaf-served", fmt.Sprintf("DataAt(%d) = %s served although only %d payloads were appended successfully", N+1, hx.Hex(d), N))
	}
	roots := make([][32]byte, N+1)
	for m := 1; m <= N && int(t.Size()) >= m; m++ {
		roots[m] = refMth(l.leaves[:m])
		r.OracleChecks++
		got, err := t.RootAt(uint64(m))
		if err != nil {
			flag("read-error", fmt.Sprintf("RootAt(%d): %v", m, err))
		} else if got != roots[m] {
			flag("rootAt-differs", fmt.Sprintf("RootAt(%d) differs from the reference root of the first %d surviving payloads", m, m))
		}
	}
	np := 6
	if full {
		np = 16
	}
	for k := 0; k < np && N > 0 && int(t.Size()) >= N; k++ {
		j := 1 + l.rng.Intn(N)
		if k == 0 {
			j = N
		}
		i := 1 + l.rng.Intn(j)
		r.OracleChecks++
		ip, err := t.InclusionProof(uint64(i), uint64(j))
		if err != nil {
			flag("read-error", fmt.Sprintf("InclusionProof(%d,%d): %v", i, j, err))
		} else if !ahtree.VerifyInclusion(ip, uint64(i), uint64(j), l.leaves[i-1], roots[j]) {
			flag("proof-does-not-verify", fmt.Sprintf("InclusionProof(%d,%d) does not verify against the reference root", i, j))
		}
		cp, err := t.ConsistencyProof(uint64(i), uint64(j))
		if err != nil {
			flag("read-error", fmt.Sprintf("ConsistencyProof(%d,%d): %v", i, j, err))
		} else if !ahtree.VerifyConsistency(cp, uint64(i), uint64(j), roots[i], roots[j]) {
			flag("proof-does-not-verify", fmt.Sprintf("ConsistencyProof(%d,%d) does not verify against the reference roots", i, j))
		}
	}
	if full {
		// (DataAt beyond the synced part flushes the buffered commit-log entries: only in "full" checks)
		for m := 1; m <= N && int(t.Size()) >= m; m++ {
			r.OracleChecks++
			d, err := t.DataAt(uint64(m))
			if err != nil {
				flag("read-error", fmt.Sprintf("DataAt(%d): %v", m, err))
			} else if string(d) != string(l.payloads[m-1]) {
				flag("dataAt-differs", fmt.Sprintf("DataAt(%d) = %s, appended %s", m, hx.Hex(d), hx.Hex(l.payloads[m-1])))
			}
		}
	}
	return bad == 0
}

func (l *c08FL) arm(f *faultapp.Fault) {
	if f != nil {
		l.plan.Arm(*f)
	}
}

func (l *c08FL) disarm(f *faultapp.Fault) (fired bool, note string) {
	if f == nil {
		return false, ""
	}
	fired, _ = l.plan.Disarm()
	if fired {
		return true, " fault=" + f.String() + " FIRED"
	}
	return false, " fault=" + f.String() + " not-reached"
}

// unexpected: an error with no injected failure behind it.
func (l *c08FL) unexpected(op string, err error) error {
	if l.faults > 0 {
		l.fail("tree-unusable-after-failed-op", fmt.Sprintf("%s fails although no fault is injected now: %v", op, err))
		return errC08LifeOver
	}
	return fmt.Errorf("c08 fault life: %s: %w (ops %v)", op, err, l.ops)
}

func (l *c08FL) failed(op string, f *faultapp.Fault, full bool) {
	l.faults++
	l.lastFail = op + ":fault@" + f.Point()
	l.r.Count("fault.failed." + op + "@" + f.Point())
	l.r.Eval("fault "+op+" "+f.String()+fmt.Sprintf(" thld=%d size=%d", l.thld, len(l.payloads)), true)
	l.check("after failed "+op, full)
}

func (l *c08FL) doAppend(d []byte, f *faultapp.Fault) (err error) {
	var n uint64
	var h [32]byte
	l.arm(f)
	panicked := false
	func() {
		defer func() {
			if e := recover(); e != nil {
				panicked = true
				l.plan.Disarm()
				l.ops = append(l.ops, "append "+hx.Hex(d)+" => PANIC")
				l.fail("panic", fmt.Sprintf("Append panicked: %v", e))
			}
		}()
		n, h, err = l.t.Append(d)
	}()
	if panicked {
		return errC08LifeOver
	}
	fired, note := l.disarm(f)
	if err != nil {
		l.ops = append(l.ops, fmt.Sprintf("append %s%s => %s", hx.Hex(d), note, ahtErr(err)))
		if !fired {
			return l.unexpected("Append", err)
		}
		if len(l.payloads)+1 > l.hw {
			l.hw = len(l.payloads) + 1 // its commit-log entry may have reached the file
		}
		l.lastLost = d
		l.r.Corr("c08 aht.appendfail "+hx.Hex(d), l.sizeRoot())
		l.failed("Append", f, l.rng.Chance(40))
		return nil
	}
	l.ops = append(l.ops, fmt.Sprintf("append %s%s => %d", hx.Hex(d), note, n))
	if fired {
		l.r.Count("fault.swallowed.Append@" + f.Point())
		l.lastFail = "Append:fault@" + f.Point()
		l.fail("error-swallowed", fmt.Sprintf("Append returned nil although %s failed", f.String()))
	}
	l.payloads = append(l.payloads, d)
	l.leaves = append(l.leaves, refLeaf(d))
	if len(l.payloads) > l.hw {
		l.hw = len(l.payloads)
	}
	l.r.Corr("c08 aht.append "+hx.Hex(d), fmt.Sprintf("%d %s", n, hx.Hex(h[:])))
	l.r.Count("fault.aht.append")
	l.r.OracleChecks++
	if int(n) != len(l.payloads) {
		l.fail("append-misnumbered", fmt.Sprintf("Append returned index %d, it is successful append number %d of the surviving sequence", n, len(l.payloads)))
	} else if h != refMth(l.leaves) {
		l.fail("append-root-differs", fmt.Sprintf("root returned by Append %d differs from the reference root of the surviving payloads", n))
	}
	return nil
}

func (l *c08FL) doReset(m int, f *faultapp.Fault) error {
	l.arm(f)
	err := l.t.ResetSize(uint64(m))
	fired, note := l.disarm(f)
	l.ops = append(l.ops, fmt.Sprintf("reset %d%s => %s", m, note, ahtErr(err)))
	if err != nil && fired {
		synced := 0
		if f.Method == "ReadAt" || f.Method == "Size" {
			synced = 1 // the failing call comes after ResetSize's own sync
		}
		l.r.Corr(fmt.Sprintf("c08 aht.resetfail %d %d", m, synced), l.sizeRoot())
		l.failed("ResetSize", f, l.rng.Chance(40))
		return nil
	}
	if err != nil && !errors.Is(err, ahtree.ErrCannotResetToLargerSize) {
		return l.unexpected("ResetSize", err)
	}
	if fired {
		l.lastFail = "ResetSize:fault@" + f.Point()
		l.fail("error-swallowed", fmt.Sprintf("ResetSize returned %v although %s failed", err, f.String()))
	}
	l.r.Corr(fmt.Sprintf("c08 aht.reset %d", m), ahtErr(err))
	l.r.Count("fault.aht.reset")
	l.r.OracleChecks++
	if err == nil {
		if m > len(l.payloads) {
			l.fail("reset-to-larger-accepted", fmt.Sprintf("ResetSize(%d) accepted at size %d", m, len(l.payloads)))
		} else {
			l.payloads, l.leaves = l.payloads[:m], l.leaves[:m]
		}
	} else if m <= len(l.payloads) {
		l.fail("reset-refused", fmt.Sprintf("ResetSize(%d) refused at size %d", m, len(l.payloads)))
	}
	return nil
}

func (l *c08FL) doSync(f *faultapp.Fault) error {
	l.arm(f)
	err := l.t.Sync()
	fired, note := l.disarm(f)
	l.ops = append(l.ops, fmt.Sprintf("sync%s => %s", note, ahtErr(err)))
	if err != nil {
		if !fired {
			return l.unexpected("Sync", err)
		}
		l.r.Corr("c08 aht.syncfail", l.sizeRoot())
		l.failed("Sync", f, l.rng.Chance(40))
		return nil
	}
	if fired {
		l.lastFail = "Sync:fault@" + f.Point()
		l.fail("error-swallowed", fmt.Sprintf("Sync returned nil although %s failed", f.String()))
	}
	l.r.Corr("c08 aht.sync", "ok")
	l.r.Count("fault.aht.sync")
	return nil
}

// doData: DataAt (which syncs when the entry is still buffered) under a fault.
func (l *c08FL) doData(m int, f *faultapp.Fault) error {
	l.arm(f)
	d, err := l.t.DataAt(uint64(m))
	fired, note := l.disarm(f)
	l.ops = append(l.ops, fmt.Sprintf("data %d%s => %s", m, note, ahtErr(err)))
	inRange := m >= 1 && m <= len(l.payloads)
	if err != nil && fired {
		l.r.Corr("c08 aht.readfail", l.sizeRoot())
		l.failed("DataAt", f, false)
		return nil
	}
	if err != nil && inRange {
		return l.unexpected(fmt.Sprintf("DataAt(%d)", m), err)
	}
	l.r.OracleChecks++
	s := ahtErr(err)
	if err == nil && !inRange {
		l.fail("ghost-leaf-served", fmt.Sprintf("DataAt(%d) served at size %d", m, len(l.payloads)))
		return nil
	} else if err == nil {
		s = hx.Hex(d)
		if string(d) != string(l.payloads[m-1]) {
			l.fail("dataAt-differs", fmt.Sprintf("DataAt(%d) = %s, appended %s", m, hx.Hex(d), hx.Hex(l.payloads[m-1])))
		}
	}
	l.r.Corr(fmt.Sprintf("c08 aht.data %d", m), s)
	return nil
}

// doRead: RootAt / proofs while a digest-log read fails.
func (l *c08FL) doRead(f *faultapp.Fault) error {
	N := len(l.payloads)
	if N == 0 {
		return nil
	}
	j := 1 + l.rng.Intn(N)
	i := 1 + l.rng.Intn(j)
	kind := l.rng.Intn(3)
	l.arm(f)
	var err error
	var op, ans string
	switch kind {
	case 0:
		var rt [32]byte
		rt, err = l.t.RootAt(uint64(j))
		op, ans = fmt.Sprintf("c08 aht.root %d", j), hx.Hex(rt[:])
		if err == nil && rt != refMth(l.leaves[:j]) {
			l.fail("rootAt-differs", fmt.Sprintf("RootAt(%d) differs from the reference", j))
		}
	case 1:
		var p [][32]byte
		p, err = l.t.InclusionProof(uint64(i), uint64(j))
		op, ans = fmt.Sprintf("c08 aht.iproof %d %d", i, j), hx.Csv32(p)
		if err == nil && !ahtree.VerifyInclusion(p, uint64(i), uint64(j), l.leaves[i-1], refMth(l.leaves[:j])) {
			l.fail("proof-does-not-verify", fmt.Sprintf("InclusionProof(%d,%d)", i, j))
		}
	default:
		var p [][32]byte
		p, err = l.t.ConsistencyProof(uint64(i), uint64(j))
		op, ans = fmt.Sprintf("c08 aht.cproof %d %d", i, j), hx.Csv32(p)
		if err == nil && !ahtree.VerifyConsistency(p, uint64(i), uint64(j), refMth(l.leaves[:i]), refMth(l.leaves[:j])) {
			l.fail("proof-does-not-verify", fmt.Sprintf("ConsistencyProof(%d,%d)", i, j))
		}
	}
	fired, note := l.disarm(f)
	l.ops = append(l.ops, fmt.Sprintf("%s%s => %s", strings.TrimPrefix(op, "c08 aht."), note, ahtErr(err)))
	l.r.OracleChecks++
	if err != nil {
		if !fired {
			return l.unexpected(op, err)
		}
		l.r.Corr("c08 aht.readfail", l.sizeRoot())
		l.failed("Read", f, false)
		return nil
	}
	l.r.Corr(op, ans)
	return nil
}

// doReopen: Close/Open.  evalStale: evaluate the oracle also when entries of a rolled-back suffix / of a failed
// append may physically be in the commit log (the known stale-tail family); otherwise such a reopen is skipped.
func (l *c08FL) doReopen(evalStale bool) error {
	stale := len(l.payloads) < l.hw
	if stale && !evalStale {
		return nil
	}
	if err := l.t.Close(); err != nil {
		l.ops = append(l.ops, "close => "+ahtErr(err))
		return l.unexpected("Close", err)
	}
	l.thld = 1 + l.rng.Intn(4)
	if err := l.open(); err != nil {
		l.ops = append(l.ops, "close; open => "+ahtErr(err))
		return l.unexpected("Open", err)
	}
	sz := int(l.t.Size())
	l.ops = append(l.ops, fmt.Sprintf("close; open thld=%d => size %d", l.thld, sz))
	l.r.Count("fault.aht.reopen")
	l.r.OracleChecks++
	if stale {
		// the model has no stale tails: a divergence here is judged by the oracle only and ends the life
		l.r.Count("fault.aht.reopen.stale-possible")
		if sz != len(l.payloads) {
			class := "reopen-changed-tree"
			if l.lastLost != nil && sz == len(l.payloads)+1 && l.faults > 0 && strings.HasPrefix(l.lastFail, "Append:") {
				if d, err := l.t.DataAt(uint64(sz)); err == nil && string(d) == string(l.lastLost) {
					class = "failed-append-reappears-after-reopen"
				}
			}
			l.fail(class, fmt.Sprintf("size %d after Close/Open, %d payloads were appended successfully (and not rolled back)", sz, len(l.payloads)))
			return errC08LifeOver
		}
		l.hw = len(l.payloads)
		// no stale entry came back: the model's reopen (sync, then what the commit log holds) gives the same size
		l.r.Corr(fmt.Sprintf("c08 aht.reopen %d", l.thld), fmt.Sprint(sz))
	} else {
		l.r.Corr(fmt.Sprintf("c08 aht.reopen %d", l.thld), fmt.Sprint(sz))
		if sz != len(l.payloads) {
			l.fail("reopen-changed-tree", fmt.Sprintf("size %d after Close/Open, %d before", sz, len(l.payloads)))
			return errC08LifeOver
		}
	}
	if !l.check("after Close/Open", true) {
		return errC08LifeOver
	}
	return nil
}

// final: tie the end state to the model (all roots, a few proofs).
func (l *c08FL) final() {
	N := len(l.payloads)
	if !l.check("end of life", true) {
		return
	}
	l.r.Corr("c08 aht.size", fmt.Sprint(l.t.Size()))
	for m := 0; m <= N+1; m++ {
		rt, err := l.t.RootAt(uint64(m))
		s := ahtErr(err)
		if err == nil {
			s = hx.Hex(rt[:])
		}
		l.r.Corr(fmt.Sprintf("c08 aht.root %d", m), s)
	}
	for k := 0; k < 4 && N > 0; k++ {
		j := 1 + l.rng.Intn(N)
		i := 1 + l.rng.Intn(j)
		if ip, err := l.t.InclusionProof(uint64(i), uint64(j)); err == nil {
			l.r.Corr(fmt.Sprintf("c08 aht.iproof %d %d", i, j), hx.Csv32(ip))
		}
		if cp, err := l.t.ConsistencyProof(uint64(i), uint64(j)); err == nil {
			l.r.Corr(fmt.Sprintf("c08 aht.cproof %d %d", i, j), hx.Csv32(cp))
		}
	}
}

func c08NewFL(r *hx.Result, rng *hx.Rng, gen string, thld, dSlots int) (*c08FL, error) {
	r.NextCase()
	dir := hx.TempDir("c08f")
	l := &c08FL{r: r, rng: rng, dir: dir, path: filepath.Join(dir, "aht"), plan: faultapp.NewPlan(),
		thld: thld, fileSize: 64 + rng.Intn(512), dSlots: dSlots, gen: gen}
	if err := l.open(); err != nil {
		os.RemoveAll(dir)
		return nil, err
	}
	l.ops = append(l.ops, fmt.Sprintf("open thld=%d fileSize=%d", thld, l.fileSize))
	r.Corr(fmt.Sprintf("c08 aht.new %d", thld), "ok")
	return l, nil
}

func (l *c08FL) done() {
	if l.t != nil {
		l.t.Close()
	}
	os.RemoveAll(l.dir)
}

func (l *c08FL) payload() []byte {
	switch l.rng.Intn(6) {
	case 0:
		return []byte{}
	case 1:
		return l.rng.Bytes(32)
	}
	return l.rng.Bytes(1 + l.rng.Intn(40))
}

// fault points reachable from the operations (log, method, max skip)
type c08FP struct {
	log, method string
	maxSkip     int
}

var c08SyncFPs = []c08FP{
	{"data", "Flush", 0}, {"data", "Sync", 0}, {"tree", "Flush", 0}, {"tree", "Sync", 0},
	{"commit", "SetOffset", 0}, {"commit", "Append", 0}, {"commit", "Flush", 0}, {"commit", "Sync", 0},
}

var c08AppendFPs = append([]c08FP{
	{"data", "SetOffset", 0}, {"data", "Append", 1}, {"tree", "ReadAt", 2}, {"tree", "SetOffset", 0}, {"tree", "Append", 0},
}, c08SyncFPs...)

var c08ResetFPs = append([]c08FP{{"commit", "ReadAt", 0}, {"data", "Size", 0}, {"tree", "Size", 0}}, c08SyncFPs...)
var c08DataFPs = append([]c08FP{{"commit", "ReadAt", 0}, {"data", "ReadAt", 0}}, c08SyncFPs...)
var c08ReadFPs = []c08FP{{"tree", "ReadAt", 3}}

func c08PickFault(rng *hx.Rng, fps []c08FP) *faultapp.Fault {
	fp := fps[rng.Intn(len(fps))]
	return &faultapp.Fault{Log: fp.log, Method: fp.method, Skip: rng.Intn(fp.maxSkip + 1), Post: rng.Bool()}
}

// c08FaultSweep: every fault point of Append x mode x threshold x position x continuation (deterministic
// apart from payload bytes and cache sizes).
func c08FaultSweep(r *hx.Result, rng *hx.Rng) error {
	for thld := 1; thld <= 4; thld++ {
		for _, fp := range c08AppendFPs {
			// number of successful appends before the faulted one: the faulted append reaches the threshold for the
			// first time (thld-1), again after an earlier successful sync (2*thld-1), or does not reach it (thld, for
			// thld > 1); a digest-log read happens only where the 1-slot digest cache misses (sizes 4, 6, 8)
			pres := []int{thld - 1, 2*thld - 1, thld}
			if fp.method == "ReadAt" {
				pres = []int{3, 5, 7}
			}
			for skip := 0; skip <= fp.maxSkip; skip++ {
				for _, post := range []bool{false, true} {
					for _, pre := range pres {
						for variant := 0; variant < 2; variant++ {
							f := &faultapp.Fault{Log: fp.log, Method: fp.method, Skip: skip, Post: post}
							ds := 0
							if fp.method == "ReadAt" {
								ds = 1
							}
							if err := c08SweepLife(r, rng.Fork(), thld, ds, pre, f, variant); err != nil {
								return err
							}
						}
					}
				}
			}
		}
		if err := r.Flush(); err != nil {
			return err
		}
	}
	return nil
}

func c08SweepLife(r *hx.Result, rng *hx.Rng, thld, dSlots, pre int, f *faultapp.Fault, variant int) error {
	l, err := c08NewFL(r, rng, "sweep", thld, dSlots)
	if err != nil {
		return err
	}
	defer l.done()
	r.Count("fault.sweep.lives")
	steps := func() error {
		for k := 0; k < pre; k++ {
			if err := l.alive(l.doAppend(l.payload(), nil)); err != nil {
				return err
			}
		}
		before := l.faults
		if err := l.alive(l.doAppend(l.payload(), f)); err != nil {
			return err
		}
		if l.faults == before {
			r.Count("fault.sweep.not-reached." + f.Point())
		}
		if variant == 1 {
			if err := l.alive(l.doReopen(true)); err != nil {
				return err
			}
		}
		for k := 0; k < l.thld+1+variant; k++ {
			if err := l.alive(l.doAppend(l.payload(), nil)); err != nil {
				return err
			}
		}
		l.check("after further appends", true)
		if err := l.alive(l.doReopen(true)); err != nil {
			return err
		}
		return l.alive(l.doAppend(l.payload(), nil))
	}
	if err := steps(); err != nil {
		if err == errC08LifeOver {
			return nil
		}
		return err
	}
	l.final()
	return nil
}

// c08FaultLife: a random history in which injected failures are ordinary operations.
func c08FaultLife(r *hx.Result, rng *hx.Rng, nOps int) error {
	l, err := c08NewFL(r, rng, "random", 1+rng.Intn(4), 0)
	if err != nil {
		return err
	}
	defer l.done()
	r.Count("fault.random.lives")
	pFault := 20 + rng.Intn(40)
	steps := func() error {
		for s := 0; s < nOps; s++ {
			withFault := rng.Chance(pFault)
			pick := func(fps []c08FP) *faultapp.Fault {
				if !withFault {
					return nil
				}
				return c08PickFault(rng, fps)
			}
			var err error
			switch k := rng.Intn(100); {
			case k < 60:
				err = l.doAppend(l.payload(), pick(c08AppendFPs))
			case k < 68 && len(l.payloads) > 0:
				err = l.doReset(rng.Intn(len(l.payloads)+2), pick(c08ResetFPs))
			case k < 76:
				err = l.doSync(pick(c08SyncFPs))
			case k < 84 && len(l.payloads) > 0:
				err = l.doData(rng.Intn(len(l.payloads)+2), pick(c08DataFPs))
			case k < 90:
				err = l.doRead(pick(c08ReadFPs))
			case k < 95:
				err = l.doReopen(false)
			case k < 97:
				l.check("spot check", true)
			default:
				err = l.doAppend(l.payload(), nil)
			}
			if err = l.alive(err); err != nil {
				return err
			}
		}
		return nil
	}
	if err := steps(); err != nil {
		if err == errC08LifeOver {
			return nil
		}
		return err
	}
	l.final()
	if len(l.payloads) > 0 {
		r.Sample(map[string]interface{}{"kind": "ahtree-fault-life", "size": len(l.payloads), "failed_ops": l.faults, "ops": len(l.ops)})
	}
	return nil
}

func c08FaultRun(r *hx.Result, rng *hx.Rng, thorough bool) error {
	// scratch on tmpfs when available (as C03 does): with SyncThld 1..4 nearly every append fsyncs three files; the
	// faults are injected above the files, durability of the medium is not what is examined here
	if fi, err := os.Stat("/dev/shm"); err == nil && fi.IsDir() {
		if base, err := os.MkdirTemp("/dev/shm", "vh-c08f-"); err == nil {
			old := os.Getenv("VERIF_SCRATCH")
			os.Setenv("VERIF_SCRATCH", base)
			defer func() { os.Setenv("VERIF_SCRATCH", old); os.RemoveAll(base) }()
		}
	}
	t0 := time.Now()
	if os.Getenv("C08_FAULT_SKIP_SWEEP") == "" { // development aid: judge the random lives on their own
		if err := c08FaultSweep(r, rng.Fork()); err != nil {
			return err
		}
	}
	r.Extra["c08_fault_sweep_s"] = time.Since(t0).Seconds()
	t1 := time.Now()
	defer func() { r.Extra["c08_fault_random_s"] = time.Since(t1).Seconds() }()
	lives, nOps := 160, 50
	if thorough {
		lives, nOps = 1500, 120
	}
	for k := 0; k < lives; k++ {
		if err := c08FaultLife(r, rng.Fork(), nOps/2+rng.Intn(nOps)); err != nil {
			return err
		}
		if k%20 == 19 {
			if err := r.Flush(); err != nil {
				return err
			}
		}
	}
	return r.Flush()
}
