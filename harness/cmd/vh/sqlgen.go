package main

// Shared SQL generator + engine driver for C11 (plan independence), C12 (integrity constraints)
// and C13 (transactions).  Everything here drives the REAL embedded/sql engine of /repo on an
// embedded store opened the way the repo's own tests do (store.Open + sql.NewEngine).
//
//   values     c15Val (shared with C15): typed Go values, canonical tokens (N, i:…, s:hex, b:0/1,
//              x:hex, u:hex, t:sec:nsec, f:IEEE-bits) — the same tokens the Lean driver parses
//   schema     sqlSchema: typed nullable columns, single/composite PK, AUTO_INCREMENT, secondary
//              composite and UNIQUE indexes, optional CHECK
//   predicates pexp: typed AST rendered to SQL text, evaluated in Go with the engine's comparison
//              semantics (NULL is the smallest value, comparisons are two-valued), and serialised
//              for the Lean model
//   DML        dml: INSERT / UPSERT / INSERT … ON CONFLICT DO NOTHING / UPDATE / DELETE with a Go
//              reference interpreter (refTable.exec) used by the C12 and C13 oracles
//   engine     sqlEnv: open/reopen, exec, query with panic recovery and error CLASSES

import (
	"bytes"
	"context"
	"errors"
	"fmt"
	"math"
	"os"
	"reflect"
	"runtime/debug"
	"sort"
	"strconv"
	"strings"
	"time"

	"github.com/codenotary/immudb/embedded/sql"
	"github.com/codenotary/immudb/embedded/store"
	"github.com/google/uuid"

	"verif/harness/internal/hx"
)

// ---------------------------------------------------------------- types and values

type sqlCol struct {
	Name    string
	Ty      sql.SQLValueType
	MaxLen  int // declared length of VARCHAR/BLOB (0 = none)
	NotNull bool
	AutoInc bool
	Pool    []c15Val // small domain the generators draw from (collisions wanted)
}

type sqlIdx struct {
	Cols   []int
	Unique bool
}

type sqlCheck struct {
	P *pexp
}

type sqlSchema struct {
	Name  string
	Cols  []sqlCol
	PK    []int
	Idx   []sqlIdx
	Check *sqlCheck
}

func (c sqlCol) typeDecl() string {
	switch c.Ty {
	case sql.IntegerType:
		return "INTEGER"
	case sql.VarcharType:
		if c.MaxLen > 0 {
			return fmt.Sprintf("VARCHAR[%d]", c.MaxLen)
		}
		return "VARCHAR"
	case sql.BooleanType:
		return "BOOLEAN"
	case sql.BLOBType:
		if c.MaxLen > 0 {
			return fmt.Sprintf("BLOB[%d]", c.MaxLen)
		}
		return "BLOB"
	case sql.TimestampType:
		return "TIMESTAMP"
	case sql.Float64Type:
		return "FLOAT"
	case sql.UUIDType:
		return "UUID"
	}
	return "INTEGER"
}

// key width parameter of the column as the key codec sees it (Column.MaxLen()).
func (c sqlCol) keyLen() int {
	switch c.Ty {
	case sql.VarcharType, sql.BLOBType:
		return c.MaxLen
	}
	return c15FixedLen(c.Ty)
}

func (sc *sqlSchema) colNames(ix []int) string {
	ns := make([]string, len(ix))
	for i, c := range ix {
		ns[i] = sc.Cols[c].Name
	}
	return strings.Join(ns, ", ")
}

func (sc *sqlSchema) isPK(c int) bool {
	for _, p := range sc.PK {
		if p == c {
			return true
		}
	}
	return false
}

func (sc *sqlSchema) autoInc() bool {
	return len(sc.PK) == 1 && sc.Cols[sc.PK[0]].AutoInc
}

// CREATE TABLE text for the table called `name` (twins share the schema under another name).
func (sc *sqlSchema) createTable(name string) string {
	var parts []string
	for _, c := range sc.Cols {
		s := c.Name + " " + c.typeDecl()
		if c.NotNull {
			s += " NOT NULL"
		}
		if c.AutoInc {
			s += " AUTO_INCREMENT"
		}
		parts = append(parts, s)
	}
	if sc.Check != nil {
		ps := &sqlParams{noParams: true}
		parts = append(parts, "CHECK ("+sc.Check.P.render(sc, "", ps, nil)+")")
	}
	pk := sc.colNames(sc.PK)
	if len(sc.PK) > 1 {
		pk = "(" + pk + ")"
	}
	parts = append(parts, "PRIMARY KEY "+pk)
	return fmt.Sprintf("CREATE TABLE %s (%s)", name, strings.Join(parts, ", "))
}

func (sc *sqlSchema) createIndex(name string, ix sqlIdx) string {
	u := ""
	if ix.Unique {
		u = "UNIQUE "
	}
	return fmt.Sprintf("CREATE %sINDEX ON %s(%s)", u, name, sc.colNames(ix.Cols))
}

// ---- SQL comparison of two values of one column, as the engine's Compare methods define it

func sqlCmpVal(a, b c15Val) int {
	if a.null && b.null {
		return 0
	}
	if a.null {
		return -1
	}
	if b.null {
		return 1
	}
	switch a.ty {
	case sql.IntegerType:
		switch {
		case a.i == b.i:
			return 0
		case a.i > b.i:
			return 1
		}
		return -1
	case sql.VarcharType:
		return strings.Compare(a.s, b.s)
	case sql.BooleanType:
		switch {
		case a.b == b.b:
			return 0
		case a.b:
			return 1
		}
		return -1
	case sql.BLOBType:
		return bytes.Compare(a.x, b.x)
	case sql.UUIDType:
		return bytes.Compare(a.u[:], b.u[:])
	case sql.TimestampType:
		switch {
		case a.t.Before(b.t):
			return -1
		case a.t.After(b.t):
			return 1
		}
		return 0
	case sql.Float64Type:
		x, y := math.Float64frombits(a.f), math.Float64frombits(b.f)
		switch {
		case x == y:
			return 0
		case x > y:
			return 1
		}
		return -1
	}
	return 0
}

func sqlCmpTuple(a, b []c15Val) int {
	for i := range a {
		if c := sqlCmpVal(a[i], b[i]); c != 0 {
			return c
		}
	}
	return 0
}

// value read back from the engine
func sqlFromTyped(tv sql.TypedValue) c15Val {
	if tv == nil {
		return c15Val{null: true}
	}
	v := c15Val{ty: tv.Type()}
	if tv.IsNull() {
		v.null = true
		return v
	}
	switch x := tv.RawValue().(type) {
	case int64:
		v.ty, v.i = sql.IntegerType, x
	case string:
		v.ty, v.s = sql.VarcharType, x
	case bool:
		v.ty, v.b = sql.BooleanType, x
	case []byte:
		v.ty, v.x = sql.BLOBType, x
	case uuid.UUID:
		v.ty, v.u = sql.UUIDType, x
	case time.Time:
		v.ty, v.t = sql.TimestampType, x.UTC()
	case float64:
		v.ty, v.f = sql.Float64Type, math.Float64bits(x)
	default:
		v.ty, v.s = sql.VarcharType, fmt.Sprintf("?%T:%v", x, x)
	}
	return v
}

func sqlRowTok(row []c15Val) string {
	ts := make([]string, len(row))
	for i, v := range row {
		ts[i] = v.tok()
	}
	return strings.Join(ts, ",")
}

// human-readable rendering used in failure descriptions
func sqlValShow(v c15Val) string {
	if v.null {
		return "NULL"
	}
	switch v.ty {
	case sql.IntegerType:
		return strconv.FormatInt(v.i, 10)
	case sql.VarcharType:
		return strconv.Quote(v.s)
	case sql.BooleanType:
		return strconv.FormatBool(v.b)
	case sql.BLOBType:
		return "x'" + hexs(v.x) + "'"
	case sql.UUIDType:
		return v.u.String()
	case sql.TimestampType:
		return v.t.UTC().Format(time.RFC3339Nano)
	case sql.Float64Type:
		return fmt.Sprintf("%v(bits %016x)", math.Float64frombits(v.f), v.f)
	}
	return "?"
}

func sqlRowsShow(rows [][]c15Val, max int) string {
	var sb strings.Builder
	for i, r := range rows {
		if i >= max {
			fmt.Fprintf(&sb, " …(+%d)", len(rows)-max)
			break
		}
		ss := make([]string, len(r))
		for j, v := range r {
			ss[j] = sqlValShow(v)
		}
		sb.WriteString("(" + strings.Join(ss, ",") + ")")
	}
	if len(rows) == 0 {
		return "∅"
	}
	return sb.String()
}

// ---------------------------------------------------------------- SQL text with parameters

type sqlText struct {
	SQL      string
	Params   map[string]interface{}
	PToks    []string // "@p1=tok" for replays
	ViaQuery bool     // replay only: the line was executed through Engine.Query
}

func (t sqlText) String() string {
	if len(t.PToks) == 0 {
		return t.SQL
	}
	return t.SQL + "   -- " + strings.Join(t.PToks, " ")
}

func sqlPlain(s string) sqlText { return sqlText{SQL: s} }

type sqlParams struct {
	m        map[string]interface{}
	toks     []string
	noParams bool // render literals only (DDL)
	n        int
}

func (p *sqlParams) add(v c15Val) string {
	if p.m == nil {
		p.m = map[string]interface{}{}
	}
	p.n++
	name := fmt.Sprintf("p%d", p.n)
	p.m[name] = v.raw()
	p.toks = append(p.toks, "@"+name+"="+v.tok())
	return "@" + name
}

func (p *sqlParams) text(s string) sqlText { return sqlText{SQL: s, Params: p.m, PToks: p.toks} }

func sqlPlainASCII(s string) bool {
	for i := 0; i < len(s); i++ {
		if s[i] < 0x20 || s[i] > 0x7e {
			return false
		}
	}
	return true
}

// literal (or parameter when no faithful literal exists / by chance) for a value
func sqlLit(v c15Val, p *sqlParams, rng *hx.Rng) string {
	if v.null {
		return "NULL"
	}
	asParam := !p.noParams && rng != nil && rng.Intn(8) == 0
	switch v.ty {
	case sql.IntegerType:
		if v.i == math.MinInt64 {
			if p.noParams {
				return "(-9223372036854775807 - 1)"
			}
			return p.add(v)
		}
		if asParam {
			return p.add(v)
		}
		return strconv.FormatInt(v.i, 10)
	case sql.VarcharType:
		if !sqlPlainASCII(v.s) || asParam {
			if !p.noParams {
				return p.add(v)
			}
		}
		return "'" + strings.ReplaceAll(v.s, "'", "''") + "'"
	case sql.BooleanType:
		if asParam {
			return p.add(v)
		}
		return strconv.FormatBool(v.b)
	case sql.BLOBType:
		if asParam {
			return p.add(v)
		}
		return "x'" + hexs(v.x) + "'"
	case sql.UUIDType: // uuid.UUID is not a supported parameter type
		return "CAST('" + v.u.String() + "' AS UUID)"
	case sql.TimestampType:
		if asParam || v.t.Year() < 1 || v.t.Year() > 9999 {
			if !p.noParams {
				return p.add(v)
			}
		}
		return "CAST('" + v.t.UTC().Format("2006-01-02 15:04:05.000000") + "' AS TIMESTAMP)"
	case sql.Float64Type:
		f := math.Float64frombits(v.f)
		if math.IsNaN(f) || math.IsInf(f, 0) || (f == 0 && math.Signbit(f)) || asParam {
			if !p.noParams {
				return p.add(v)
			}
		}
		s := strconv.FormatFloat(math.Abs(f), 'f', -1, 64)
		if !strings.Contains(s, ".") {
			s += ".0"
		}
		if back, err := strconv.ParseFloat(s, 64); err != nil || back != math.Abs(f) || len(s) > 40 {
			if !p.noParams {
				return p.add(v)
			}
		}
		if f < 0 {
			return "-" + s
		}
		return s
	}
	return "NULL"
}

// ---------------------------------------------------------------- predicates (typed AST)

type pexp struct {
	K    string // cmp in isnull notnull boolcol not and or like const
	Col  int
	Op   string // = <> < <= > >=
	V    c15Val
	Left bool // constant on the left-hand side: V op col
	Vs   []c15Val
	Neg  bool // NOT IN / NOT LIKE
	Pat  string
	L, R *pexp
	B    bool // const
	Sp   *sqlSpelt // cmp: another spelling of V (c12_spell.go); nil = sqlLit
}

var sqlCmpOps = []string{"=", "<>", "<", "<=", ">", ">="}

func sqlOpHolds(c int, op string) bool {
	switch op {
	case "=":
		return c == 0
	case "<>", "!=":
		return c != 0
	case "<":
		return c < 0
	case "<=":
		return c <= 0
	case ">":
		return c > 0
	case ">=":
		return c >= 0
	}
	return false
}

func (p *pexp) render(sc *sqlSchema, alias string, ps *sqlParams, rng *hx.Rng) string {
	col := func(c int) string {
		if alias != "" {
			return alias + "." + sc.Cols[c].Name
		}
		return sc.Cols[c].Name
	}
	switch p.K {
	case "cmp":
		if p.Sp != nil {
			if p.Left {
				return p.Sp.render(ps) + " " + p.Op + " " + col(p.Col)
			}
			return col(p.Col) + " " + p.Op + " " + p.Sp.render(ps)
		}
		if p.Left {
			return sqlLit(p.V, ps, rng) + " " + p.Op + " " + col(p.Col)
		}
		return col(p.Col) + " " + p.Op + " " + sqlLit(p.V, ps, rng)
	case "in":
		vs := make([]string, len(p.Vs))
		for i, v := range p.Vs {
			vs[i] = sqlLit(v, ps, rng)
		}
		n := ""
		if p.Neg {
			n = "NOT "
		}
		return col(p.Col) + " " + n + "IN (" + strings.Join(vs, ", ") + ")"
	case "isnull":
		return col(p.Col) + " IS NULL"
	case "notnull":
		return col(p.Col) + " IS NOT NULL"
	case "boolcol":
		return col(p.Col)
	case "like":
		n := ""
		if p.Neg {
			n = "NOT "
		}
		return col(p.Col) + " " + n + "LIKE '" + strings.ReplaceAll(p.Pat, "'", "''") + "'"
	case "not":
		return "NOT (" + p.L.render(sc, alias, ps, rng) + ")"
	case "and":
		return "(" + p.L.render(sc, alias, ps, rng) + " AND " + p.R.render(sc, alias, ps, rng) + ")"
	case "or":
		return "(" + p.L.render(sc, alias, ps, rng) + " OR " + p.R.render(sc, alias, ps, rng) + ")"
	case "const":
		return strconv.FormatBool(p.B)
	}
	return "true"
}

// inFragment: the predicate belongs to the fragment shared with the Lean model and the Go
// reference evaluator (constants of the column's own type, no LIKE).
func (p *pexp) inFragment(sc *sqlSchema) bool {
	switch p.K {
	case "cmp":
		return p.V.null || p.V.ty == sc.Cols[p.Col].Ty
	case "in":
		for _, v := range p.Vs {
			if !v.null && v.ty != sc.Cols[p.Col].Ty {
				return false
			}
		}
		return true
	case "like":
		return false
	case "not":
		return p.L.inFragment(sc)
	case "and", "or":
		return p.L.inFragment(sc) && p.R.inFragment(sc)
	}
	return true
}

// eval with the engine's semantics: (value, isNull, errClass)
func (p *pexp) eval(sc *sqlSchema, row []c15Val) (bool, bool, string) {
	switch p.K {
	case "cmp":
		var c int
		if p.Left {
			c = sqlCmpVal(p.V, row[p.Col])
		} else {
			c = sqlCmpVal(row[p.Col], p.V)
		}
		return sqlOpHolds(c, p.Op), false, ""
	case "in":
		for _, v := range p.Vs {
			if sqlCmpVal(row[p.Col], v) == 0 {
				return !p.Neg, false, ""
			}
		}
		return p.Neg, false, ""
	case "isnull":
		return row[p.Col].null, false, ""
	case "notnull":
		return !row[p.Col].null, false, ""
	case "boolcol":
		if row[p.Col].null {
			return false, true, ""
		}
		return row[p.Col].b, false, ""
	case "not":
		v, n, e := p.L.eval(sc, row)
		if e != "" {
			return false, false, e
		}
		if n {
			return false, false, "invalid-condition"
		}
		return !v, false, ""
	case "and", "or":
		l, n, e := p.L.eval(sc, row)
		if e != "" {
			return false, false, e
		}
		if n {
			return false, false, "invalid-value"
		}
		if (l && p.K == "or") || (!l && p.K == "and") {
			return l, false, ""
		}
		r, n, e := p.R.eval(sc, row)
		if e != "" {
			return false, false, e
		}
		if n {
			return false, false, "invalid-value"
		}
		return r, false, ""
	case "const":
		return p.B, false, ""
	}
	return false, false, "unsupported"
}

// prefix-notation tokens for the Lean driver
func (p *pexp) toks() []string {
	switch p.K {
	case "cmp":
		side := "r"
		if p.Left {
			side = "l"
		}
		return []string{"cmp", strconv.Itoa(p.Col), sqlOpTok(p.Op), side, p.V.tok()}
	case "in":
		out := []string{"in", strconv.Itoa(p.Col), b01s(p.Neg), strconv.Itoa(len(p.Vs))}
		for _, v := range p.Vs {
			out = append(out, v.tok())
		}
		return out
	case "isnull":
		return []string{"isnull", strconv.Itoa(p.Col)}
	case "notnull":
		return []string{"notnull", strconv.Itoa(p.Col)}
	case "boolcol":
		return []string{"boolcol", strconv.Itoa(p.Col)}
	case "not":
		return append([]string{"not"}, p.L.toks()...)
	case "and", "or":
		return append(append([]string{p.K}, p.L.toks()...), p.R.toks()...)
	case "const":
		return []string{"const", b01s(p.B)}
	}
	return []string{"unsupported"}
}

func b01s(b bool) string {
	if b {
		return "1"
	}
	return "0"
}

func sqlOpTok(op string) string {
	switch op {
	case "=":
		return "eq"
	case "<>":
		return "ne"
	case "<":
		return "lt"
	case "<=":
		return "le"
	case ">":
		return "gt"
	case ">=":
		return "ge"
	}
	return "eq"
}

func (p *pexp) cols(acc map[int]bool) {
	switch p.K {
	case "cmp", "in", "isnull", "notnull", "boolcol", "like":
		acc[p.Col] = true
	case "not":
		p.L.cols(acc)
	case "and", "or":
		p.L.cols(acc)
		p.R.cols(acc)
	}
}

func (p *pexp) hasMixedNumeric(sc *sqlSchema) bool {
	switch p.K {
	case "cmp":
		return !p.V.null && p.V.ty != sc.Cols[p.Col].Ty
	case "in":
		for _, v := range p.Vs {
			if !v.null && v.ty != sc.Cols[p.Col].Ty {
				return true
			}
		}
	case "not":
		return p.L.hasMixedNumeric(sc)
	case "and", "or":
		return p.L.hasMixedNumeric(sc) || p.R.hasMixedNumeric(sc)
	}
	return false
}

// a -0.0 FLOAT constant anywhere in the predicate (equal to +0.0 under Float64.Compare, different as an index key)
func (p *pexp) hasNegZero() bool {
	if p == nil {
		return false
	}
	isNZ := func(v c15Val) bool { return !v.null && v.ty == sql.Float64Type && v.f == 1<<63 }
	switch p.K {
	case "cmp":
		return isNZ(p.V)
	case "in":
		for _, v := range p.Vs {
			if isNZ(v) {
				return true
			}
		}
	case "not":
		return p.L.hasNegZero()
	case "and", "or":
		return p.L.hasNegZero() || p.R.hasNegZero()
	}
	return false
}

// the columns the predicate compares with a -0.0 FLOAT constant
func (p *pexp) negZeroCols(acc map[int]bool) {
	if p == nil {
		return
	}
	isNZ := func(v c15Val) bool { return !v.null && v.ty == sql.Float64Type && v.f == 1<<63 }
	switch p.K {
	case "cmp":
		if isNZ(p.V) {
			acc[p.Col] = true
		}
	case "in":
		for _, v := range p.Vs {
			if isNZ(v) {
				acc[p.Col] = true
			}
		}
	case "not":
		p.L.negZeroCols(acc)
	case "and", "or":
		p.L.negZeroCols(acc)
		p.R.negZeroCols(acc)
	}
}

func (p *pexp) hasBoolCol() bool {
	switch p.K {
	case "boolcol":
		return true
	case "not":
		return p.L.hasBoolCol()
	case "and", "or":
		return p.L.hasBoolCol() || p.R.hasBoolCol()
	}
	return false
}

// ---------------------------------------------------------------- generators: schema, values

type sqlGenOpts struct {
	Exotic     bool // -0.0 / ±Inf floats, non-ASCII strings
	BadValues  bool // too long strings/blobs, NULL into NOT NULL (C12/C13 want failing statements)
	Check      bool // allow a CHECK constraint
	NoAutoInc  bool
	MaxIdx     int
	UniqueProb int
}

func sqlSmallInts(rng *hx.Rng) []int64 {
	base := []int64{0, 1, -1, 2, 3, 5, 7, 10, -3, 100}
	rngShuffle(rng, len(base), func(i, j int) { base[i], base[j] = base[j], base[i] })
	out := base[:4+rng.Intn(4)]
	if rng.Intn(4) == 0 {
		out = append(out, []int64{math.MaxInt64, math.MinInt64, math.MaxInt64 - 1, math.MinInt64 + 1, 1 << 53, (1 << 53) + 1}[rng.Intn(6)])
	}
	return out
}

func rngShuffle(rng *hx.Rng, n int, swap func(i, j int)) {
	for i := n - 1; i > 0; i-- {
		swap(i, rng.Intn(i+1))
	}
}

func sqlGenPool(rng *hx.Rng, c sqlCol, o sqlGenOpts) []c15Val {
	var out []c15Val
	switch c.Ty {
	case sql.IntegerType:
		for _, i := range sqlSmallInts(rng) {
			out = append(out, c15Val{ty: c.Ty, i: i})
		}
	case sql.VarcharType:
		alpha := []string{"a", "b", "A", " ", "%", "_", "'", "ab", "z"}
		ml := c.MaxLen
		if ml == 0 {
			ml = 12
		}
		seen := map[string]bool{}
		add := func(s string) {
			if len(s) <= ml && !seen[s] {
				seen[s] = true
				out = append(out, c15Val{ty: c.Ty, s: s})
			}
		}
		add("")
		add(strings.Repeat("a", ml))
		add(strings.Repeat("a", ml-1))
		for k := 0; k < 5; k++ {
			n := rng.Intn(ml + 1)
			s := ""
			for len(s) < n {
				s += alpha[rng.Intn(len(alpha))]
			}
			add(s[:n])
		}
		if o.Exotic && rng.Intn(3) == 0 {
			b := []byte{0, 0xff, 'a', 0}
			add(string(b[:1+rng.Intn(min(len(b), ml))]))
		}
	case sql.BooleanType:
		out = append(out, c15Val{ty: c.Ty, b: false}, c15Val{ty: c.Ty, b: true})
	case sql.BLOBType:
		ml := c.MaxLen
		if ml == 0 {
			ml = 6
		}
		seen := map[string]bool{}
		add := func(b []byte) {
			if len(b) <= ml && !seen[string(b)] {
				seen[string(b)] = true
				out = append(out, c15Val{ty: c.Ty, x: b})
			}
		}
		add([]byte{})
		add([]byte{0})
		add(bytes.Repeat([]byte{0xff}, ml))
		for k := 0; k < 4; k++ {
			b := rng.Bytes(rng.Intn(ml + 1))
			for i := range b {
				b[i] = []byte{0, 1, 0xff, 'a'}[int(b[i])%4]
			}
			add(b)
		}
	case sql.TimestampType:
		mk := func(s, us int64) c15Val { return c15Val{ty: c.Ty, t: time.Unix(s, us*1000).UTC()} }
		cands := []c15Val{mk(0, 0), mk(0, 1), mk(-1, 999999), mk(1609556645, 123456), mk(1609556645, 123457), mk(-86400*365*30, 5), mk(4102444800, 0), mk(951782400, 0)}
		rngShuffle(rng, len(cands), func(i, j int) { cands[i], cands[j] = cands[j], cands[i] })
		out = cands[:4+rng.Intn(3)]
	case sql.Float64Type:
		cands := []float64{0, 1.5, -2.5, 3, -1, 0.1, 1e10, 2.5, 1e-3, 100}
		rngShuffle(rng, len(cands), func(i, j int) { cands[i], cands[j] = cands[j], cands[i] })
		for _, f := range cands[:4+rng.Intn(3)] {
			out = append(out, c15Val{ty: c.Ty, f: math.Float64bits(f)})
		}
		if o.Exotic {
			switch rng.Intn(6) {
			case 0:
				out = append(out, c15Val{ty: c.Ty, f: math.Float64bits(math.Copysign(0, -1))}, c15Val{ty: c.Ty, f: 0})
			case 1:
				out = append(out, c15Val{ty: c.Ty, f: math.Float64bits(math.Inf(1))}, c15Val{ty: c.Ty, f: math.Float64bits(math.Inf(-1))})
			}
		}
	case sql.UUIDType:
		us := c15UUIDs(rng, 5)
		for _, u := range us {
			out = append(out, c15Val{ty: c.Ty, u: u})
		}
	}
	return out
}

func sqlNull(ty sql.SQLValueType) c15Val { return c15Val{null: true, ty: ty} }

// a value for the column: mostly from the pool, sometimes NULL, sometimes (BadValues) illegal
func sqlGenVal(rng *hx.Rng, c sqlCol, o sqlGenOpts, forPK bool) c15Val {
	if !forPK {
		if !c.NotNull && rng.Intn(6) == 0 {
			return sqlNull(c.Ty)
		}
		if c.NotNull && o.BadValues && rng.Intn(14) == 0 {
			return sqlNull(c.Ty)
		}
	} else if o.BadValues && rng.Intn(40) == 0 {
		return sqlNull(c.Ty)
	}
	if o.BadValues && c.MaxLen > 0 && rng.Intn(14) == 0 {
		switch c.Ty {
		case sql.VarcharType:
			return c15Val{ty: c.Ty, s: strings.Repeat("x", c.MaxLen+1+rng.Intn(2))}
		case sql.BLOBType:
			return c15Val{ty: c.Ty, x: bytes.Repeat([]byte{7}, c.MaxLen+1)}
		}
	}
	if len(c.Pool) > 0 && rng.Intn(10) != 0 {
		return c.Pool[rng.Intn(len(c.Pool))]
	}
	switch c.Ty {
	case sql.IntegerType:
		return c15Val{ty: c.Ty, i: int64(rng.Intn(40)) - 10}
	case sql.VarcharType:
		ml := c.MaxLen
		if ml == 0 {
			ml = 12
		}
		n := rng.Intn(ml + 1)
		b := make([]byte, n)
		for i := range b {
			b[i] = "abcz AB%_"[rng.Intn(9)]
		}
		return c15Val{ty: c.Ty, s: string(b)}
	case sql.BooleanType:
		return c15Val{ty: c.Ty, b: rng.Bool()}
	case sql.BLOBType:
		ml := c.MaxLen
		if ml == 0 {
			ml = 6
		}
		return c15Val{ty: c.Ty, x: rng.Bytes(rng.Intn(ml + 1))}
	case sql.TimestampType:
		return c15Val{ty: c.Ty, t: time.Unix(int64(rng.Intn(2000000000))-100000000, int64(rng.Intn(1000000))*1000).UTC()}
	case sql.Float64Type:
		return c15Val{ty: c.Ty, f: math.Float64bits(float64(int64(rng.Intn(400))-200) / 8)}
	case sql.UUIDType:
		var u uuid.UUID
		copy(u[:], rng.Bytes(16))
		return c15Val{ty: c.Ty, u: u}
	}
	return sqlNull(c.Ty)
}

var sqlColTypes = []sql.SQLValueType{sql.IntegerType, sql.IntegerType, sql.VarcharType, sql.VarcharType, sql.BooleanType, sql.BLOBType, sql.TimestampType, sql.Float64Type, sql.UUIDType}

func sqlNewCol(rng *hx.Rng, name string, ty sql.SQLValueType, o sqlGenOpts) sqlCol {
	c := sqlCol{Name: name, Ty: ty}
	switch ty {
	case sql.VarcharType:
		c.MaxLen = []int{1, 3, 8, 20}[rng.Intn(4)]
	case sql.BLOBType:
		c.MaxLen = []int{1, 4, 16}[rng.Intn(3)]
	}
	c.Pool = sqlGenPool(rng, c, o)
	return c
}

func sqlGenSchema(rng *hx.Rng, name string, o sqlGenOpts) *sqlSchema {
	sc := &sqlSchema{Name: name}
	switch k := rng.Intn(100); {
	case k < 45:
		c := sqlNewCol(rng, "id", sql.IntegerType, o)
		if !o.NoAutoInc && rng.Intn(100) < 45 {
			c.AutoInc = true
		}
		sc.Cols = append(sc.Cols, c)
		sc.PK = []int{0}
	case k < 58:
		c := sqlNewCol(rng, "id", sql.VarcharType, o)
		sc.Cols = append(sc.Cols, c)
		sc.PK = []int{0}
	case k < 80:
		pairs := [][2]sql.SQLValueType{{sql.IntegerType, sql.VarcharType}, {sql.VarcharType, sql.IntegerType}, {sql.IntegerType, sql.IntegerType}, {sql.BooleanType, sql.IntegerType}, {sql.IntegerType, sql.TimestampType}}
		p := pairs[rng.Intn(len(pairs))]
		sc.Cols = append(sc.Cols, sqlNewCol(rng, "k1", p[0], o), sqlNewCol(rng, "k2", p[1], o))
		sc.PK = []int{0, 1}
	default:
		tys := []sql.SQLValueType{sql.TimestampType, sql.UUIDType, sql.Float64Type, sql.BLOBType}
		sc.Cols = append(sc.Cols, sqlNewCol(rng, "id", tys[rng.Intn(len(tys))], o))
		sc.PK = []int{0}
	}
	for _, p := range sc.PK {
		if rng.Intn(3) == 0 || sc.Cols[p].AutoInc {
			sc.Cols[p].NotNull = !sc.Cols[p].AutoInc && true
		}
	}
	n := 2 + rng.Intn(4)
	for i := 0; i < n; i++ {
		c := sqlNewCol(rng, string(rune('a'+i)), sqlColTypes[rng.Intn(len(sqlColTypes))], o)
		c.NotNull = rng.Intn(100) < 30
		if c.Ty == sql.VarcharType && rng.Intn(8) == 0 {
			c.MaxLen = 0 // unbounded, never indexed
			c.Pool = sqlGenPool(rng, c, o)
		}
		sc.Cols = append(sc.Cols, c)
	}
	maxIdx := o.MaxIdx
	if maxIdx == 0 {
		maxIdx = 4
	}
	seen := map[string]bool{sc.colNames(sc.PK): true}
	for k := rng.Intn(maxIdx + 1); k > 0; k-- {
		var cols []int
		used := map[int]bool{}
		for j := 1 + rng.Intn(3); j > 0; j-- {
			c := rng.Intn(len(sc.Cols))
			if used[c] || ((sc.Cols[c].Ty == sql.VarcharType || sc.Cols[c].Ty == sql.BLOBType) && sc.Cols[c].MaxLen == 0) {
				continue
			}
			used[c] = true
			cols = append(cols, c)
		}
		if len(cols) == 0 || seen[sc.colNames(cols)] {
			continue
		}
		seen[sc.colNames(cols)] = true
		sc.Idx = append(sc.Idx, sqlIdx{Cols: cols, Unique: rng.Intn(100) < o.UniqueProb})
	}
	if o.Check && rng.Intn(3) == 0 {
		// CHECK over one non-key INTEGER column: col op const
		for c := range sc.Cols {
			if sc.Cols[c].Ty == sql.IntegerType && !sc.isPK(c) {
				sc.Check = &sqlCheck{P: &pexp{K: "cmp", Col: c, Op: []string{">=", "<>", "<"}[rng.Intn(3)], V: c15Val{ty: sql.IntegerType, i: int64(rng.Intn(5)) - 1}}}
				break
			}
		}
	}
	return sc
}

// ---------------------------------------------------------------- predicate generator

type pexpOpts struct {
	Mixed   bool // constants of another numeric type
	Like    bool
	BoolCol bool
	Depth   int
	LongStr bool // string constants longer than the column
}

func sqlNeighbour(rng *hx.Rng, c sqlCol, v c15Val) c15Val {
	if v.null {
		return v
	}
	switch c.Ty {
	case sql.IntegerType:
		d := int64(rng.Intn(3)) - 1
		if (d > 0 && v.i == math.MaxInt64) || (d < 0 && v.i == math.MinInt64) {
			return v
		}
		v.i += d
	case sql.VarcharType:
		switch rng.Intn(3) {
		case 0:
			if len(v.s) > 0 {
				v.s = v.s[:len(v.s)-1]
			}
		case 1:
			if c.MaxLen == 0 || len(v.s) < c.MaxLen {
				v.s += "a"
			}
		}
	case sql.TimestampType:
		v.t = v.t.Add(time.Duration(rng.Intn(3)-1) * time.Microsecond)
	case sql.Float64Type:
		f := math.Float64frombits(v.f)
		if !math.IsInf(f, 0) && !math.IsNaN(f) {
			v.f = math.Float64bits(f + float64(rng.Intn(3)-1)*0.5)
		}
	}
	return v
}

func sqlGenConst(rng *hx.Rng, c sqlCol, o pexpOpts) c15Val {
	if rng.Intn(25) == 0 {
		return sqlNull(c.Ty)
	}
	var v c15Val
	if len(c.Pool) > 0 {
		v = c.Pool[rng.Intn(len(c.Pool))]
	} else {
		v = sqlGenVal(rng, c, sqlGenOpts{}, true)
	}
	if rng.Intn(3) == 0 {
		v = sqlNeighbour(rng, c, v)
	}
	if o.Mixed && !v.null && rng.Intn(5) == 0 {
		switch c.Ty {
		case sql.IntegerType:
			if v.i > -(1<<50) && v.i < 1<<50 {
				return c15Val{ty: sql.Float64Type, f: math.Float64bits(float64(v.i) + []float64{0, 0.5, -0.5}[rng.Intn(3)])}
			}
		case sql.Float64Type:
			f := math.Float64frombits(v.f)
			if f > -1e15 && f < 1e15 {
				return c15Val{ty: sql.IntegerType, i: int64(f)}
			}
		}
	}
	if o.LongStr && c.Ty == sql.VarcharType && c.MaxLen > 0 && rng.Intn(12) == 0 {
		return c15Val{ty: c.Ty, s: strings.Repeat("a", c.MaxLen) + "b"}
	}
	return v
}

func sqlGenAtom(rng *hx.Rng, sc *sqlSchema, o pexpOpts, prefer []int) *pexp {
	ci := rng.Intn(len(sc.Cols))
	if len(prefer) > 0 && rng.Intn(3) != 0 {
		ci = prefer[rng.Intn(len(prefer))]
	}
	c := sc.Cols[ci]
	switch k := rng.Intn(100); {
	case k < 55:
		return &pexp{K: "cmp", Col: ci, Op: sqlCmpOps[rng.Intn(len(sqlCmpOps))], V: sqlGenConst(rng, c, o), Left: rng.Intn(5) == 0}
	case k < 70:
		n := 1 + rng.Intn(4)
		vs := make([]c15Val, n)
		for i := range vs {
			vs[i] = sqlGenConst(rng, c, pexpOpts{Mixed: false})
		}
		return &pexp{K: "in", Col: ci, Vs: vs, Neg: rng.Intn(4) == 0}
	case k < 80:
		return &pexp{K: "isnull", Col: ci}
	case k < 88:
		return &pexp{K: "notnull", Col: ci}
	case k < 94:
		if o.Like && c.Ty == sql.VarcharType {
			pats := []string{"%", "a%", "%a", "_", "a_", "%b%", "", "ab", "\\%%"}
			return &pexp{K: "like", Col: ci, Pat: pats[rng.Intn(len(pats))], Neg: rng.Intn(4) == 0}
		}
		fallthrough
	default:
		if o.BoolCol && c.Ty == sql.BooleanType {
			return &pexp{K: "boolcol", Col: ci}
		}
		// double bound with different strictness on one column
		lo, hi := sqlGenConst(rng, c, pexpOpts{}), sqlGenConst(rng, c, pexpOpts{})
		return &pexp{K: "and",
			L: &pexp{K: "cmp", Col: ci, Op: []string{">", ">="}[rng.Intn(2)], V: lo},
			R: &pexp{K: "cmp", Col: ci, Op: []string{"<", "<="}[rng.Intn(2)], V: hi}}
	}
}

func sqlGenPred(rng *hx.Rng, sc *sqlSchema, o pexpOpts, prefer []int) *pexp {
	if o.Depth <= 0 || rng.Intn(3) == 0 {
		return sqlGenAtom(rng, sc, o, prefer)
	}
	o2 := o
	o2.Depth--
	switch rng.Intn(7) {
	case 0:
		o3 := o2
		o3.BoolCol = false // NOT of a NULL boolean is an evaluation error in the engine
		return &pexp{K: "not", L: sqlGenPred(rng, sc, o3, prefer)}
	case 1, 2, 3:
		return &pexp{K: "and", L: sqlGenPred(rng, sc, o2, prefer), R: sqlGenPred(rng, sc, o2, prefer)}
	default:
		o3 := o2
		o3.BoolCol = false
		l := sqlGenPred(rng, sc, o3, prefer)
		// OR of ranges over the same column (overlapping or disjoint)
		if l.K == "cmp" && rng.Intn(2) == 0 {
			return &pexp{K: "or", L: l, R: &pexp{K: "cmp", Col: l.Col, Op: sqlCmpOps[rng.Intn(len(sqlCmpOps))], V: sqlGenConst(rng, sc.Cols[l.Col], o)}}
		}
		return &pexp{K: "or", L: l, R: sqlGenPred(rng, sc, o3, prefer)}
	}
}

// ---------------------------------------------------------------- DML

type dmlSet struct {
	Col  int
	V    c15Val
	Incr bool // col = col + V (INTEGER)
	Sp   *sqlSpelt // another spelling of V (c12_spell.go); nil = sqlLit
}

type dml struct {
	K     string // insert upsert insert-ocn update delete
	Cols  []int
	Rows  [][]c15Val
	Set   []dmlSet
	Where *pexp
	Spell map[[2]int]*sqlSpelt // (row, column index) -> another spelling of that VALUES entry (c12_spell.go)
}

func (d *dml) render(sc *sqlSchema, table string, ps *sqlParams, rng *hx.Rng) string {
	switch d.K {
	case "insert", "upsert", "insert-ocn":
		var rows []string
		for ri, r := range d.Rows {
			vs := make([]string, len(r))
			for i, v := range r {
				if sp := d.Spell[[2]int{ri, d.Cols[i]}]; sp != nil {
					vs[i] = sp.render(ps)
					continue
				}
				vs[i] = sqlLit(v, ps, rng)
			}
			rows = append(rows, "("+strings.Join(vs, ", ")+")")
		}
		verb := "INSERT"
		if d.K == "upsert" {
			verb = "UPSERT"
		}
		s := fmt.Sprintf("%s INTO %s(%s) VALUES %s", verb, table, sc.colNames(d.Cols), strings.Join(rows, ", "))
		if d.K == "insert-ocn" {
			s += " ON CONFLICT DO NOTHING"
		}
		return s
	case "update":
		var sets []string
		for _, s := range d.Set {
			if s.Incr {
				sets = append(sets, fmt.Sprintf("%s = %s + %s", sc.Cols[s.Col].Name, sc.Cols[s.Col].Name, sqlLit(s.V, ps, rng)))
			} else if s.Sp != nil {
				sets = append(sets, fmt.Sprintf("%s = %s", sc.Cols[s.Col].Name, s.Sp.render(ps)))
			} else {
				sets = append(sets, fmt.Sprintf("%s = %s", sc.Cols[s.Col].Name, sqlLit(s.V, ps, rng)))
			}
		}
		s := fmt.Sprintf("UPDATE %s SET %s", table, strings.Join(sets, ", "))
		if d.Where != nil {
			s += " WHERE " + d.Where.render(sc, "", ps, rng)
		}
		return s
	case "delete":
		s := "DELETE FROM " + table
		if d.Where != nil {
			s += " WHERE " + d.Where.render(sc, "", ps, rng)
		}
		return s
	}
	return "SELECT 1"
}

// one textual rendering shared by all tables the statement is applied to (twins): the same
// literal/parameter choices, so that the executions differ in the table name only
func (d *dml) text(sc *sqlSchema, table string, seed uint64) sqlText {
	ps := &sqlParams{}
	return ps.text(d.render(sc, table, ps, hx.NewRng(seed)))
}

type dmlOpts struct {
	G         sqlGenOpts
	P         pexpOpts
	UpdateKey bool // try UPDATE of PK columns (must fail)
}

func sqlGenDML(rng *hx.Rng, sc *sqlSchema, o dmlOpts) *dml {
	k := rng.Intn(100)
	switch {
	case k < 50:
		d := &dml{K: "insert"}
		switch j := rng.Intn(10); {
		case j < 2:
			d.K = "upsert"
		case j < 4:
			d.K = "insert-ocn"
		}
		for c := range sc.Cols {
			col := sc.Cols[c]
			switch {
			case col.AutoInc:
				if rng.Intn(5) == 0 {
					d.Cols = append(d.Cols, c)
				}
			case sc.isPK(c):
				if !(o.G.BadValues && rng.Intn(30) == 0) {
					d.Cols = append(d.Cols, c)
				}
			case col.NotNull:
				if !(o.G.BadValues && rng.Intn(20) == 0) {
					d.Cols = append(d.Cols, c)
				}
			default:
				if rng.Intn(6) != 0 {
					d.Cols = append(d.Cols, c)
				}
			}
		}
		if len(d.Cols) == 0 {
			d.Cols = append(d.Cols, len(sc.Cols)-1)
		}
		if rng.Bool() {
			rngShuffle(rng, len(d.Cols), func(i, j int) { d.Cols[i], d.Cols[j] = d.Cols[j], d.Cols[i] })
		}
		nrows := 1
		if rng.Intn(3) == 0 {
			nrows = 2 + rng.Intn(3)
		}
		for r := 0; r < nrows; r++ {
			row := make([]c15Val, len(d.Cols))
			for i, c := range d.Cols {
				row[i] = sqlGenVal(rng, sc.Cols[c], o.G, sc.isPK(c))
				if sc.Cols[c].AutoInc && !row[i].null {
					row[i] = c15Val{ty: sql.IntegerType, i: int64(1 + rng.Intn(14))}
				}
			}
			d.Rows = append(d.Rows, row)
		}
		return d
	case k < 80:
		d := &dml{K: "update"}
		n := 1
		if rng.Intn(4) == 0 {
			n = 2
		}
		used := map[int]bool{}
		for ; n > 0; n-- {
			c := rng.Intn(len(sc.Cols))
			if used[c] {
				continue
			}
			if sc.isPK(c) && !(o.UpdateKey && rng.Intn(6) == 0) {
				continue
			}
			used[c] = true
			s := dmlSet{Col: c, V: sqlGenVal(rng, sc.Cols[c], o.G, false)}
			if sc.Cols[c].Ty == sql.IntegerType && !s.V.null && rng.Intn(4) == 0 && !sc.isPK(c) {
				s.Incr, s.V = true, c15Val{ty: sql.IntegerType, i: int64(1 + rng.Intn(3))}
			}
			d.Set = append(d.Set, s)
		}
		if len(d.Set) == 0 {
			for c := len(sc.Cols) - 1; c >= 0; c-- {
				if !sc.isPK(c) {
					d.Set = append(d.Set, dmlSet{Col: c, V: sqlGenVal(rng, sc.Cols[c], o.G, false)})
					break
				}
			}
		}
		if rng.Intn(8) != 0 {
			d.Where = sqlGenPred(rng, sc, o.P, sc.PK)
		}
		return d
	default:
		d := &dml{K: "delete"}
		if rng.Intn(12) != 0 {
			d.Where = sqlGenPred(rng, sc, o.P, sc.PK)
		}
		return d
	}
}

// ---------------------------------------------------------------- Go reference interpreter (textbook semantics)

type refTable struct {
	sc    *sqlSchema
	rows  [][]c15Val // live rows, in no particular order
	maxPK int64      // auto-increment high-water mark (max key ever present)
}

func (t *refTable) clone() *refTable {
	n := &refTable{sc: t.sc, maxPK: t.maxPK, rows: make([][]c15Val, len(t.rows))}
	for i, r := range t.rows {
		n.rows[i] = append([]c15Val(nil), r...)
	}
	return n
}

func (t *refTable) pkOf(row []c15Val) []c15Val {
	out := make([]c15Val, len(t.sc.PK))
	for i, c := range t.sc.PK {
		out[i] = row[c]
	}
	return out
}

func (t *refTable) find(pk []c15Val) int {
	for i, r := range t.rows {
		if sqlCmpTuple(t.pkOf(r), pk) == 0 {
			return i
		}
	}
	return -1
}

// sorted by primary key (SQL order)
func (t *refTable) sorted() [][]c15Val {
	out := append([][]c15Val(nil), t.rows...)
	sort.SliceStable(out, func(i, j int) bool { return sqlCmpTuple(t.pkOf(out[i]), t.pkOf(out[j])) < 0 })
	return out
}

type refOut struct {
	Err      string // "" or error class
	Updated  int
	LastPK   int64
	HasLast  bool
	FirstPK  int64
	OrderDep bool // outcome may depend on the scan order (not compared)
	FailRow  int  // INSERT family: index of the VALUES row at which the reference failed (valid when Err != "")
}

// value as stored in the column (INTEGER literal into FLOAT column is widened)
func refStore(c sqlCol, v c15Val) c15Val {
	if v.null {
		return sqlNull(c.Ty)
	}
	if c.Ty == sql.Float64Type && v.ty == sql.IntegerType {
		return c15Val{ty: sql.Float64Type, f: math.Float64bits(float64(v.i))}
	}
	return v
}

func refFits(c sqlCol, v c15Val) bool {
	if v.null || c.MaxLen == 0 {
		return true
	}
	switch c.Ty {
	case sql.VarcharType:
		return len(v.s) <= c.MaxLen
	case sql.BLOBType:
		return len(v.x) <= c.MaxLen
	}
	return true
}

// unique indexes: a row conflicts with another LIVE row having SQL-equal values in all index
// columns (the engine treats NULLs as equal: the index key of NULL is one key)
func (t *refTable) uniqueConflict(row []c15Val, except int) bool {
	for _, ix := range t.sc.Idx {
		if !ix.Unique {
			continue
		}
		for i, r := range t.rows {
			if i == except {
				continue
			}
			same := true
			for _, c := range ix.Cols {
				if sqlCmpVal(r[c], row[c]) != 0 {
					same = false
					break
				}
			}
			if same {
				return true
			}
		}
	}
	return false
}

func (t *refTable) checkOK(row []c15Val) bool {
	if t.sc.Check == nil {
		return true
	}
	v, n, e := t.sc.Check.P.eval(t.sc, row)
	return e == "" && !n && v
}

// exec applies the statement; on error the table is unchanged (the caller aborts the tx).
func (t *refTable) exec(d *dml) refOut {
	sc := t.sc
	work := t.clone()
	out := refOut{}
	fail := func(cls string) refOut { return refOut{Err: cls} }
	switch d.K {
	case "insert", "upsert", "insert-ocn":
		for ri, vals := range d.Rows {
			fail := func(cls string) refOut { return refOut{Err: cls, FailRow: ri} }
			row := make([]c15Val, len(sc.Cols))
			spec := map[int]bool{}
			for c := range sc.Cols {
				row[c] = sqlNull(sc.Cols[c].Ty)
			}
			for i, c := range d.Cols {
				row[c] = refStore(sc.Cols[c], vals[i])
				spec[c] = true
			}
			pkMustExist := false
			for c, col := range sc.Cols {
				if !spec[c] {
					if col.NotNull && !col.AutoInc {
						return fail("not-null")
					}
					if col.AutoInc && d.K != "upsert" {
						work.maxPK++
						row[c] = c15Val{ty: sql.IntegerType, i: work.maxPK}
						if !out.HasLast {
							out.FirstPK = work.maxPK
						}
						out.HasLast, out.LastPK = true, work.maxPK
					}
					continue
				}
				if row[c].null {
					if col.NotNull || col.AutoInc {
						return fail("not-null")
					}
					continue
				}
				if col.AutoInc {
					pkMustExist = row[c].i <= work.maxPK
					if !out.HasLast {
						out.FirstPK = row[c].i
					}
					out.HasLast, out.LastPK = true, row[c].i
				}
			}
			if !work.checkOK(row) {
				return fail("check")
			}
			// encodedKey: the key columns in order, the first problem decides
			for _, c := range sc.PK {
				if row[c].null {
					return fail("pk-null")
				}
				if !refFits(sc.Cols[c], row[c]) {
					return fail("max-len")
				}
			}
			at := work.find(work.pkOf(row))
			if at < 0 && pkMustExist {
				return fail("invalid-value")
			}
			if d.K != "upsert" && at >= 0 {
				if d.K == "insert-ocn" {
					continue
				}
				return fail("dup-key")
			}
			for c := range sc.Cols {
				if !refFits(sc.Cols[c], row[c]) {
					return fail("max-len")
				}
			}
			if work.uniqueConflict(row, at) {
				return fail("dup-key")
			}
			if at >= 0 {
				work.rows[at] = row
			} else {
				work.rows = append(work.rows, row)
			}
			if sc.autoInc() && row[sc.PK[0]].i > work.maxPK {
				work.maxPK = row[sc.PK[0]].i // textbook: generated keys stay above every key ever stored
			}
			out.Updated++
		}
	case "update":
		for _, s := range d.Set {
			if sc.isPK(s.Col) {
				return fail("pk-update")
			}
		}
		var hit []int
		for i, r := range work.rows {
			ok := true
			if d.Where != nil {
				v, n, e := d.Where.eval(sc, r)
				if e != "" {
					return fail(e)
				}
				ok = v && !n
			}
			if ok {
				hit = append(hit, i)
			}
		}
		// scan order of the engine: primary key order
		sort.SliceStable(hit, func(a, b int) bool {
			return sqlCmpTuple(work.pkOf(work.rows[hit[a]]), work.pkOf(work.rows[hit[b]])) < 0
		})
		touchesUnique := false
		for _, s := range d.Set {
			for _, ix := range sc.Idx {
				if ix.Unique {
					for _, c := range ix.Cols {
						if c == s.Col {
							touchesUnique = true
						}
					}
				}
			}
		}
		for _, i := range hit {
			row := append([]c15Val(nil), work.rows[i]...)
			for _, s := range d.Set {
				col := sc.Cols[s.Col]
				if s.Incr {
					if row[s.Col].null {
						return fail("incr-null")
					}
					row[s.Col] = c15Val{ty: sql.IntegerType, i: row[s.Col].i + s.V.i}
					continue
				}
				v := refStore(col, s.V)
				if v.null && col.NotNull {
					return fail("not-null")
				}
				row[s.Col] = v
			}
			if !work.checkOK(row) {
				return fail("check")
			}
			for c := range sc.Cols {
				if !refFits(sc.Cols[c], row[c]) {
					return fail("max-len")
				}
			}
			if work.uniqueConflict(row, i) {
				if touchesUnique && len(hit) > 1 {
					out.OrderDep = true
				}
				return refOut{Err: "dup-key", OrderDep: out.OrderDep}
			}
			work.rows[i] = row
			out.Updated++
		}
		if touchesUnique && len(hit) > 1 {
			for _, s := range d.Set {
				if s.Incr {
					out.OrderDep = true
				}
			}
		}
	case "delete":
		var keep [][]c15Val
		for _, r := range work.rows {
			ok := true
			if d.Where != nil {
				v, n, e := d.Where.eval(sc, r)
				if e != "" {
					return fail(e)
				}
				ok = v && !n
			}
			if ok {
				out.Updated++
			} else {
				keep = append(keep, r)
			}
		}
		work.rows = keep
	}
	t.rows, t.maxPK = work.rows, work.maxPK
	return out
}

// ---------------------------------------------------------------- engine driver

type sqlEnv struct {
	dir string
	st  *store.ImmuStore
	eng *sql.Engine
}

func sqlStoreOpts() *store.Options {
	// small buffers/caches: the defaults (4 MB write buffers, 1M-entry AHT sync buffer, …) make
	// every Open clear hundreds of MB
	o := store.DefaultOptions().WithMultiIndexing(true).WithSynced(false).WithFileSize(1 << 20).WithMaxConcurrency(6).
		WithWriteBufferSize(1 << 16).WithMaxTxEntries(128).WithTxLogCacheSize(64).WithMaxActiveTransactions(64).WithMaxWaitees(64)
	o = o.WithAHTOptions(store.DefaultAHTOptions().WithWriteBufferSize(1 << 14).WithSyncThld(1000))
	o = o.WithIndexOptions(store.DefaultIndexOptions().WithCacheSize(512).WithFlushBufferSize(1 << 14).WithMaxActiveSnapshots(32))
	return o.WithLogger(quietLogger())
}

func sqlOpenEnv(tag string) (*sqlEnv, error) {
	v := &sqlEnv{dir: hx.TempDir(tag)}
	if err := v.open(); err != nil {
		os.RemoveAll(v.dir)
		return nil, err
	}
	return v, nil
}

func (v *sqlEnv) open() error {
	st, err := store.Open(v.dir, sqlStoreOpts())
	if err != nil {
		return err
	}
	e, err := sql.NewEngine(st, sql.DefaultOptions().WithPrefix([]byte("sql")))
	if err != nil {
		st.Close()
		return err
	}
	v.st, v.eng = st, e
	return nil
}

// a second engine over the same store (e.g. with a tiny sort buffer): only for queries
func (v *sqlEnv) engineWith(sortBuf int) (*sql.Engine, error) {
	return sql.NewEngine(v.st, sql.DefaultOptions().WithPrefix([]byte("sql")).WithSortBufferSize(sortBuf))
}

func (v *sqlEnv) reopen() error {
	if v.st != nil {
		if err := v.st.Close(); err != nil {
			return err
		}
		v.st = nil
	}
	return v.open()
}

func (v *sqlEnv) close() {
	if v.st != nil {
		v.st.Close()
		v.st = nil
	}
	os.RemoveAll(v.dir)
}

// 0 = no limit. A runner may bound every query (sqlQuery) and autocommit call (sqlExec) it makes (C12: an index whose
// indexer never catches up makes every later read wait forever; the call then fails with class "timeout").
var sqlOpTimeout time.Duration

func sqlOpCtx() (context.Context, context.CancelFunc) {
	if sqlOpTimeout > 0 {
		return context.WithTimeout(context.Background(), sqlOpTimeout)
	}
	return context.Background(), func() {}
}

func sqlErrClass(err error) string {
	if err == nil {
		return ""
	}
	switch {
	case errors.Is(err, context.DeadlineExceeded):
		return "timeout"
	case errors.Is(err, store.ErrKeyAlreadyExists):
		return "dup-key"
	case errors.Is(err, sql.ErrNotNullableColumnCannotBeNull):
		return "not-null"
	case errors.Is(err, sql.ErrPKCanNotBeNull):
		return "pk-null"
	case errors.Is(err, sql.ErrPKCanNotBeUpdated):
		return "pk-update"
	case errors.Is(err, sql.ErrMaxLengthExceeded):
		return "max-len"
	case errors.Is(err, sql.ErrMaxKeyLengthExceeded):
		return "max-key-len"
	case errors.Is(err, sql.ErrCheckConstraintViolation):
		return "check"
	case errors.Is(err, sql.ErrNotComparableValues):
		return "not-comparable"
	case errors.Is(err, sql.ErrInvalidCondition):
		return "invalid-condition"
	case errors.Is(err, sql.ErrInvalidTypes):
		return "invalid-types"
	case errors.Is(err, sql.ErrNoOngoingTx):
		return "no-ongoing-tx"
	case errors.Is(err, sql.ErrNestedTxNotSupported):
		return "nested-tx"
	case errors.Is(err, store.ErrTxReadConflict):
		return "read-conflict"
	case errors.Is(err, store.ErrAlreadyClosed):
		return "closed"
	case errors.Is(err, sql.ErrLimitedIndexCreation):
		return "limited-index-creation"
	case errors.Is(err, sql.ErrIndexAlreadyExists):
		return "index-exists"
	case errors.Is(err, sql.ErrTableAlreadyExists):
		return "table-exists"
	case errors.Is(err, sql.ErrColumnDoesNotExist):
		return "no-column"
	case errors.Is(err, sql.ErrTableDoesNotExist):
		return "no-table"
	case errors.Is(err, sql.ErrParsingError):
		return "parse"
	case errors.Is(err, sql.ErrInvalidValue):
		return "invalid-value"
	case errors.Is(err, sql.ErrIllegalArguments):
		return "illegal-arguments"
	case errors.Is(err, store.ErrKeyNotFound):
		return "key-not-found"
	case strings.Contains(err.Error(), "savepoint"):
		return "no-savepoint"
	}
	m := err.Error()
	if len(m) > 80 {
		m = m[:80]
	}
	return "other:" + m
}

type sqlQRes struct {
	Err  string
	Cols []string
	Rows [][]c15Val
}

func (q sqlQRes) rowToks() []string {
	out := make([]string, len(q.Rows))
	for i, r := range q.Rows {
		out[i] = sqlRowTok(r)
	}
	return out
}

// multiset fingerprint
func (q sqlQRes) bag() string {
	ts := q.rowToks()
	sort.Strings(ts)
	return q.Err + "|" + strings.Join(ts, ";")
}

func (q sqlQRes) list() string { return q.Err + "|" + strings.Join(q.rowToks(), ";") }

func sqlQuery(e *sql.Engine, tx *sql.SQLTx, q sqlText) (res sqlQRes) {
	defer func() {
		if p := recover(); p != nil {
			res = sqlQRes{Err: fmt.Sprintf("panic:%v at %s", p, sqlPanicSite())}
		}
	}()
	ctx, cancel := sqlOpCtx()
	defer cancel()
	rd, err := e.Query(ctx, tx, q.SQL, q.Params)
	if err != nil {
		return sqlQRes{Err: sqlErrClass(err)}
	}
	defer rd.Close()
	cols, err := rd.Columns(ctx)
	if err == nil {
		for _, c := range cols {
			res.Cols = append(res.Cols, c.Column)
		}
	}
	for n := 0; ; n++ {
		row, err := rd.Read(ctx)
		if errors.Is(err, sql.ErrNoMoreRows) {
			break
		}
		if err != nil {
			return sqlQRes{Err: sqlErrClass(err)}
		}
		r := make([]c15Val, len(row.ValuesByPosition))
		for i, tv := range row.ValuesByPosition {
			r[i] = sqlFromTyped(tv)
		}
		res.Rows = append(res.Rows, r)
		if n > 200000 {
			return sqlQRes{Err: "runaway-result"}
		}
	}
	return res
}

type sqlXRes struct {
	Err       string
	Tx        *sql.SQLTx // open explicit tx after the call (nil = none)
	Committed int
	Updated   int              // sum over the txs committed by this call
	LastPK    map[string]int64 // of the last committed tx of the call
	FirstPK   map[string]int64
	OpenUpd   int // UpdatedRows() of the still open tx
	TxIDs     []uint64
}

// first functions of the code under test on the panicking goroutine's stack
func sqlPanicSite() string {
	var out []string
	for _, l := range strings.Split(string(debug.Stack()), "\n") {
		if strings.HasPrefix(l, "\t") || !strings.Contains(l, "codenotary/immudb/") {
			continue
		}
		l = l[strings.LastIndex(l, "/")+1:]
		if j := strings.LastIndex(l, "("); j > 0 {
			l = l[:j]
		}
		out = append(out, l)
		if len(out) == 3 {
			break
		}
	}
	return strings.Join(out, " < ")
}

func sqlExec(e *sql.Engine, tx *sql.SQLTx, q sqlText) (res sqlXRes) {
	defer func() {
		if p := recover(); p != nil {
			res = sqlXRes{Err: fmt.Sprintf("panic:%v at %s", p, sqlPanicSite())}
		}
	}()
	// sqlOpTimeout only for autocommit calls: the context of the call that opens an explicit transaction stays with the
	// transaction (OngoingTx.ctx), and so must not be cancelled when the call returns
	ctx := context.Background()
	if tx == nil && sqlOpTimeout > 0 && !strings.Contains(strings.ToUpper(q.SQL), "BEGIN") {
		c, cancel := sqlOpCtx()
		defer cancel()
		ctx = c
	}
	ntx, ctxs, err := e.Exec(ctx, tx, q.SQL, q.Params)
	res.Err = sqlErrClass(err)
	res.Tx = ntx
	res.Committed = len(ctxs)
	for _, c := range ctxs {
		res.Updated += c.UpdatedRows()
		res.LastPK = c.LastInsertedPKs()
		res.FirstPK = c.FirstInsertedPKs()
		if h := c.TxHeader(); h != nil {
			res.TxIDs = append(res.TxIDs, h.ID)
		}
	}
	if ntx != nil {
		res.OpenUpd = ntx.UpdatedRows()
	}
	return res
}

// full scan of a table through a given index (nil = no hint), canonical rows
func sqlScan(e *sql.Engine, tx *sql.SQLTx, sc *sqlSchema, table string, ix []int) sqlQRes {
	q := "SELECT * FROM " + table
	if ix != nil {
		q += " USE INDEX ON (" + sc.colNames(ix) + ")"
	}
	return sqlQuery(e, tx, sqlPlain(q))
}

// single-row statements (the part of the DML model that does not depend on the transient index
// entries of an open transaction): INSERT/UPSERT of one row, UPDATE/DELETE of the row with a given key
func sqlGenDML1(rng *hx.Rng, sc *sqlSchema, o dmlOpts, live [][]c15Val) *dml {
	d := sqlGenDML(rng, sc, o)
	switch d.K {
	case "insert", "upsert", "insert-ocn":
		d.Rows = d.Rows[:1]
	case "update", "delete":
		// WHERE pk1 = v1 AND pk2 = v2 [AND atom]
		var key []c15Val
		if len(live) > 0 && rng.Intn(4) != 0 {
			row := live[rng.Intn(len(live))]
			for _, c := range sc.PK {
				key = append(key, row[c])
			}
		} else {
			for _, c := range sc.PK {
				key = append(key, sqlGenVal(rng, sc.Cols[c], sqlGenOpts{}, true))
			}
		}
		var p *pexp
		for i, c := range sc.PK {
			a := &pexp{K: "cmp", Col: c, Op: "=", V: key[i]}
			if p == nil {
				p = a
			} else {
				p = &pexp{K: "and", L: p, R: a}
			}
		}
		if rng.Intn(4) == 0 {
			p = &pexp{K: "and", L: p, R: sqlGenAtom(rng, sc, pexpOpts{}, nil)}
		}
		d.Where = p
	}
	return d
}

// the engine's auto-increment high-water mark of a table as a fresh read-write transaction loads it
// (Table.maxPK is unexported: read through reflection, never written). Used ONLY to put the reference
// back in step after a reported (known) divergence; ok=false when it cannot be read.
func sqlEngineMaxPK(e *sql.Engine, table string) (mx int64, ok bool) {
	defer func() {
		if recover() != nil {
			ok = false
		}
	}()
	tx, err := e.NewTx(context.Background(), sql.DefaultTxOptions())
	if err != nil {
		return 0, false
	}
	defer tx.Cancel()
	t, err := tx.Catalog().GetTableByName(table)
	if err != nil {
		return 0, false
	}
	f := reflect.ValueOf(t).Elem().FieldByName("maxPK")
	if !f.IsValid() || f.Kind() != reflect.Int64 {
		return 0, false
	}
	return f.Int(), true
}
