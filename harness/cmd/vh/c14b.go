package main

// C14, second part: deterministic recipes (F4 lock leak and lost wake-up: repaired, kept as regression probes; K6 in-flight
// writer: open), truncation racing
// writers and readers, and the pkg/database level (vlog truncator incl. CopySQLCatalog, SQL tables,
// a document collection, restart).

import (
	"bytes"
	"context"
	"fmt"
	"os"
	"path/filepath"
	"reflect"
	"strings"
	"sync"
	"sync/atomic"
	"time"
	"unsafe"

	"github.com/codenotary/immudb/embedded/sql"
	"github.com/codenotary/immudb/embedded/store"
	"github.com/codenotary/immudb/pkg/api/protomodel"
	"github.com/codenotary/immudb/pkg/api/schema"
	"github.com/codenotary/immudb/pkg/database"
	"google.golang.org/protobuf/types/known/structpb"

	"verif/harness/internal/hx"
)

func c14Val(n int, b byte) []byte { return bytes.Repeat([]byte{b}, n) }

func c14NewCase(r *hx.Result, label, dir string, F, io int) *c14Case {
	return &c14Case{r: r, label: label, dir: dir, F: F, io: io, lg: &c14Logger{}, whole: true,
		specs: map[uint64]*c14Spec{}, locs: map[uint64][]c14Loc{}, hdrs: map[uint64]*store.TxHeader{}, alhs: map[uint64][32]byte{},
		ents: map[uint64]string{}, duals: map[[2]uint64]*store.DualProof{}}
}

// F4 (repaired in /repo; the recipes stay and fail with c14SigLeak if the mutex is left held again): the
// deterministic recipes, sequential writer, one value log, chunk size 64.
func c14LeakProbes(r *hx.Result) error {
	recipes := []struct {
		name string
		txs  [][]int // value lengths per tx
		cut  uint64
	}{
		// tx1's third value lies in chunk 1, the first two in chunk 0: truncate(2) removes chunk 0 only
		{"straddling-tx", [][]int{{60, 10, 30}, {10}, {100}}, 2},
		// tx1 wholly in the removed chunk, but it has an empty value after a non-empty one
		{"empty-after-nonempty", [][]int{{30, 0}, {60}, {60}}, 3},
		// … or before
		{"empty-before-nonempty", [][]int{{0, 30}, {60}, {60}, {60}}, 3},
	}
	for i, rc := range recipes {
		r.NextCase()
		dir := hx.TempDir("c14leak")
		c := c14NewCase(r, "leak-probe:"+rc.name+" F=64 io=1 lens="+fmt.Sprint(rc.txs)+fmt.Sprintf(" TruncateUptoTx(%d); ExportTx(1); ExportTx(any)", rc.cut), filepath.Join(dir, "st"), 64, 1)
		if err := c.open(); err != nil {
			os.RemoveAll(dir)
			return err
		}
		r.Corr("c14 new 64 1 0", "ok")
		for t, lens := range rc.txs {
			sp := &c14Spec{}
			for j, ln := range lens {
				sp.ents = append(sp.ents, c14Entry{[]byte(fmt.Sprintf("p%d-%d-%d", i, t, j)), c14Val(ln, byte(1+t))})
			}
			id, err := c14CommitSpec(c.st, sp)
			if err != nil {
				c.st.Close()
				os.RemoveAll(dir)
				return err
			}
			c.specs[id] = sp
		}
		if err := c.observe(); err != nil {
			return err
		}
		c.syncVLogs()
		removed, _ := c.truncate(rc.cut)
		r.Eval(c.label, removed > 0)
		r.Count("probe.leak." + rc.name)
		c.checkAll("leak-probe-" + rc.name)
		c.st.Close()
		os.RemoveAll(dir)
	}
	return nil
}

// Effectiveness gap (not a safety issue, not an oracle failure): a committed tx >= cut whose FIRST value is
// empty is recorded at offset 0 of its vlog and pins the whole log — Lean: empty_first_value_blocks_truncation.
func c14PinProbe(r *hx.Result) error {
	r.NextCase()
	dir := hx.TempDir("c14pin")
	defer os.RemoveAll(dir)
	c := c14NewCase(r, "pin-probe F=64 io=1 lens=[[70] [70] [0 70] [70] [70]] TruncateUptoTx(3)", filepath.Join(dir, "st"), 64, 1)
	if err := c.open(); err != nil {
		return err
	}
	defer c.st.Close()
	r.Corr("c14 new 64 1 0", "ok")
	for t, lens := range [][]int{{70}, {70}, {0, 70}, {70}, {70}} {
		sp := &c14Spec{}
		for j, ln := range lens {
			sp.ents = append(sp.ents, c14Entry{[]byte(fmt.Sprintf("pin-%d-%d", t, j)), c14Val(ln, byte(1+t))})
		}
		id, err := c14CommitSpec(c.st, sp)
		if err != nil {
			return err
		}
		c.specs[id] = sp
	}
	if err := c.observe(); err != nil {
		return err
	}
	c.syncVLogs()
	removed, class := c.truncate(3)
	r.Eval(c.label, true)
	r.Count(fmt.Sprintf("probe.pin.class=%s.removed-chunks=%d", class, removed))
	if removed == 0 && class == "ok" {
		r.Notes = append(r.Notes, "pin probe: TruncateUptoTx(3) removed no chunk although tx1, tx2 (140 bytes, chunks 0-1) lie wholly below every value of txs >= 3: tx3's first value is empty => tombstone 0 (effectiveness gap, see empty_first_value_blocks_truncation)")
	}
	c.checkAll("pin-probe")
	return nil
}

// K6, deterministic through the replication path: ReplicateTx(tx k+2) appends its values and then
// waits for tx k+1 (precommit: values first, ordering wait afterwards). Meanwhile tx k commits further
// up in the value log and TruncateUptoTx(k) removes the chunk holding the waiting tx's values.
func c14InflightProbe(r *hx.Result) error {
	r.NextCase()
	dir := hx.TempDir("c14inflight")
	defer os.RemoveAll(dir)
	const F = 64
	label := "inflight-probe F=64 io=1: primary tx1..tx4 of 50 bytes; replica: ReplicateTx(1); go ReplicateTx(4) [values at 50, waits for tx3]; ReplicateTx(2) [values at 100]; TruncateUptoTx(2); ReplicateTx(3); read tx4"
	prim, err := store.Open(filepath.Join(dir, "primary"), c14Options(F, 1, false, nil, true, nil))
	if err != nil {
		return err
	}
	defer prim.Close()
	vals := map[uint64][]byte{}
	for t := 1; t <= 4; t++ {
		sp := &c14Spec{ents: []c14Entry{{[]byte(fmt.Sprintf("r-%d", t)), c14Val(50, byte(t))}}}
		id, err := c14CommitSpec(prim, sp)
		if err != nil {
			return err
		}
		vals[id] = sp.ents[0].val
	}
	exp := map[uint64][]byte{}
	for id := uint64(1); id <= 4; id++ {
		tx := store.NewTx(prim.MaxTxEntries(), prim.MaxKeyLen())
		bs, err := prim.ExportTx(id, false, false, tx)
		if err != nil {
			return err
		}
		exp[id] = bs
	}
	rdir := filepath.Join(dir, "replica")
	rep, err := store.Open(rdir, c14Options(F, 1, false, nil, true, nil))
	if err != nil {
		return err
	}
	defer rep.Close()
	ctx := context.Background()
	if _, err := rep.ReplicateTx(ctx, exp[1], false, false); err != nil {
		return fmt.Errorf("replicate 1: %w", err)
	}
	done4 := make(chan error, 1)
	go func() { _, err := rep.ReplicateTx(ctx, exp[4], false, false); done4 <- err }()
	// wait until tx4's values are in the replica's value log: its 50 bytes at offset 50 cross into chunk 1,
	// so the chunk file 00000001.val appears (a state signal, not a timing assumption)
	ok := false
	for i := 0; i < 400; i++ {
		if _, err := os.Stat(filepath.Join(rdir, "val_0", "00000001.val")); err == nil {
			ok = true
			break
		}
		time.Sleep(5 * time.Millisecond)
	}
	if !ok {
		r.Count("probe.inflight.not-staged")
		r.Notes = append(r.Notes, "inflight probe: the waiting ReplicateTx did not append its values in time; probe skipped")
		// let the waiting call finish
		rep.ReplicateTx(ctx, exp[2], false, false)
		rep.ReplicateTx(ctx, exp[3], false, false)
		<-done4
		return nil
	}
	if _, err := rep.ReplicateTx(ctx, exp[2], false, false); err != nil {
		return fmt.Errorf("replicate 2: %w", err)
	}
	terr := rep.TruncateUptoTx(2)
	if _, err := rep.ReplicateTx(ctx, exp[3], false, false); err != nil {
		return fmt.Errorf("replicate 3: %w", err)
	}
	select {
	case err := <-done4:
		if err != nil {
			return fmt.Errorf("replicate 4: %w", err)
		}
	case <-time.After(c14Liveness):
		r.Fail("C14:ReplicateTx:blocks-after-truncation", label, label)
		return nil
	}
	r.Count("probe.inflight.staged")
	bad := 0
	for id := uint64(2); id <= 4; id++ {
		tx := store.NewTx(rep.MaxTxEntries(), rep.MaxKeyLen())
		if err := rep.ReadTx(id, false, tx); err != nil {
			return err
		}
		for _, e := range tx.Entries() {
			r.OracleChecks++
			v, err := rep.ReadValue(e)
			_, off := c14Decode(e.VOff())
			if err != nil || !bytes.Equal(v, vals[id]) {
				bad++
				r.Fail(c14SigInflight, fmt.Sprintf("TruncateUptoTx(2) returned %v; tx %d (>= 2, committed after the truncation, values appended at offset %d before it) ReadValue: %v", terr, id, off, err), label)
			}
		}
	}
	r.Eval(label, true)
	r.Count(fmt.Sprintf("probe.inflight.unreadable=%d", bad))
	return nil
}

// truncation racing committers and readers on one store
func c14Race(r *hx.Result, rng *hx.Rng, thorough bool, no int) error {
	r.NextCase()
	F := []int{64, 128, 256}[rng.Intn(3)]
	io := 1 + rng.Intn(3)
	writers := 3 + rng.Intn(6)
	per := 25
	if thorough {
		per = 120
	}
	dir := hx.TempDir("c14race")
	defer os.RemoveAll(dir)
	label := fmt.Sprintf("race#%d F=%d io=%d writers=%d x %d txs, TruncateUptoTx(LastCommittedTxID()) in a loop, readers", no, F, io, writers, per)
	st, err := store.Open(filepath.Join(dir, "st"), c14Options(F, io, false, nil, false, nil))
	if err != nil {
		return err
	}
	defer func() {
		cd := make(chan struct{})
		go func() { st.Close(); close(cd) }()
		select {
		case <-cd:
		case <-time.After(c14Liveness):
		}
	}()
	var mu sync.Mutex
	vals := map[uint64][][]byte{}
	var wg sync.WaitGroup
	seeds := make([]*hx.Rng, writers)
	for w := range seeds {
		seeds[w] = rng.Fork()
	}
	for w := 0; w < writers; w++ {
		wg.Add(1)
		go func(w int) {
			defer wg.Done()
			g := seeds[w]
			for i := 0; i < per; i++ {
				sp := &c14Spec{}
				ne := 1 + g.Intn(3)
				var vs [][]byte
				for j := 0; j < ne; j++ {
					ln := 1 + g.Intn(F)
					if g.Chance(15) {
						ln = 0
					}
					v := g.Bytes(ln)
					sp.ents = append(sp.ents, c14Entry{[]byte(fmt.Sprintf("w%d-%d-%d", w, i, j)), v})
					vs = append(vs, v)
				}
				id, err := c14CommitSpec(st, sp)
				if err != nil {
					r.Fail("C14:Commit:fails-while-truncating", err.Error(), label)
					return
				}
				mu.Lock()
				vals[id] = vs
				mu.Unlock()
			}
		}(w)
	}
	done := make(chan struct{})
	go func() { wg.Wait(); close(done) }()
	// reader: keeps reading the newest committed tx
	var rg sync.WaitGroup
	rg.Add(1)
	go func() {
		defer rg.Done()
		for {
			select {
			case <-done:
				return
			default:
			}
			id := st.LastCommittedTxID()
			if id == 0 {
				continue
			}
			tx := store.NewTx(st.MaxTxEntries(), st.MaxKeyLen())
			if err := st.ReadTx(id, false, tx); err == nil {
				for _, e := range tx.Entries() {
					st.ReadValue(e)
				}
			}
		}
	}()
	check := func(n uint64) int {
		bad := 0
		last := st.LastCommittedTxID()
		for id := n; id <= last; id++ {
			tx := store.NewTx(st.MaxTxEntries(), st.MaxKeyLen())
			if err := st.ReadTx(id, false, tx); err != nil {
				continue
			}
			for i, e := range tx.Entries() {
				r.OracleChecks++
				v, err := st.ReadValue(e)
				mu.Lock()
				want, known := vals[id]
				mu.Unlock()
				_, off := c14Decode(e.VOff())
				if err != nil {
					bad++
					r.Fail(c14SigInflight, fmt.Sprintf("after TruncateUptoTx(%d) (= LastCommittedTxID at the call): tx %d entry %d (offset %d, len %d) ReadValue: %v", n, id, i, off, e.VLen(), err), label)
				} else if known && !bytes.Equal(v, want[i]) {
					bad++
					r.Fail("C14:ReadValue:different-value-at-or-after-cut", fmt.Sprintf("race: cut %d tx %d entry %d", n, id, i), label)
				}
			}
		}
		return bad
	}
	rounds, bad := 0, 0
	var lastN uint64
	abandoned := false
loop:
	for {
		select {
		case <-done:
			break loop
		default:
		}
		n := st.LastCommittedTxID()
		if n == 0 || n == lastN {
			continue
		}
		var terr error
		tdone := make(chan error, 1)
		go func() {
			defer func() {
				if p := recover(); p != nil {
					r.Fail("C14:TruncateUptoTx:panic", fmt.Sprintf("race: TruncateUptoTx(%d): %v", n, p), label)
					tdone <- nil
				}
			}()
			tdone <- st.TruncateUptoTx(n)
		}()
		select {
		case terr = <-tdone:
		case <-time.After(c14Liveness):
			// the store is stuck: diagnose (lost wake-up on vLogsCond?), report, abandon the store
			sig, desc := c14DiagnoseStuckTruncation(st, tdone, n, c14Liveness)
			r.Fail(sig, "race: "+desc, label)
			abandoned = true
			break loop
		}
		if terr != nil {
			r.Count("race.trunc." + c14ErrClass(terr))
		}
		lastN = n
		rounds++
		bad += check(n)
	}
	if abandoned {
		<-done
		r.Eval(label, rounds > 0)
		r.Count("race.abandoned-stuck-store")
		return nil
	}
	rg.Wait()
	bad += check(lastN)
	// liveness afterwards
	c := &c14Case{r: r, st: st}
	cls, _ := c.export(st.LastCommittedTxID(), c14Liveness)
	r.OracleChecks++
	if cls != "values" {
		// In this scenario truncation runs against in-flight writers: a value of the last tx that was staged before a
		// truncation and deleted by it is the known weakness K6 (the export then goes out by digest / fails); only when
		// every value of the tx is readable is a non-full export something else.
		last := st.LastCommittedTxID()
		k6 := false
		ltx := store.NewTx(st.MaxTxEntries(), st.MaxKeyLen())
		if err := st.ReadTx(last, false, ltx); err == nil {
			for _, e := range ltx.Entries() {
				if _, err := st.ReadValue(e); err != nil {
					k6 = true
				}
			}
		}
		if k6 {
			r.Fail(c14SigInflight, fmt.Sprintf("race: ExportTx(%d) = %s: values of the last tx were staged before a racing truncation and deleted by it", last, cls), label)
		} else {
			r.Fail("C14:ExportTx:not-full-at-or-after-cut", "race: ExportTx(last) = "+cls, label)
		}
	}
	r.Eval(label, rounds > 0)
	r.CountN("race.truncations", rounds)
	r.CountN("race.unreadable-entries", bad)
	r.Count(fmt.Sprintf("race.io=%d", io))
	return nil
}

// the store's condition variable guarding the value logs (unexported): its ticket counter tells exactly when a
// goroutine has started waiting in fetchVLog/fetchAnyVLog
func c14VLogsCond(st *store.ImmuStore) (*sync.Cond, *uint32) {
	f := reflect.ValueOf(st).Elem().FieldByName("vLogsCond")
	if !f.IsValid() || f.IsNil() {
		return nil, nil
	}
	cond := (*sync.Cond)(unsafe.Pointer(f.Pointer()))
	w := reflect.ValueOf(cond).Elem().FieldByName("notify").FieldByName("wait")
	if !w.IsValid() {
		return cond, nil
	}
	return cond, (*uint32)(unsafe.Pointer(w.UnsafeAddr()))
}

const c14SigLostWakeup = "C14:TruncateUptoTx:blocks-on-free-vlog-lost-wakeup"

// a TruncateUptoTx that does not return: if a Broadcast on vLogsCond alone lets it finish, it was parked in
// fetchVLog for a vlog that is free — releaseVLog's Signal() went to a waiter of another vlog
func c14DiagnoseStuckTruncation(st *store.ImmuStore, tdone chan error, n uint64, waited time.Duration) (string, string) {
	cond, _ := c14VLogsCond(st)
	if cond != nil {
		cond.Broadcast()
		select {
		case err := <-tdone:
			return c14SigLostWakeup, fmt.Sprintf("TruncateUptoTx(%d) did not return within %v; after an external vLogsCond.Broadcast() it returned %v: it was waiting in fetchVLog for a value log that was already released (releaseVLog uses Signal, which woke a waiter of a different vlog)", n, waited, err)
		case <-time.After(c14Liveness):
		}
	}
	return "C14:TruncateUptoTx:blocks-racing-writers-readers", fmt.Sprintf("TruncateUptoTx(%d) did not return within %v (Broadcast on vLogsCond did not help)", n, waited)
}

// Deterministic recipe for the lost wake-up (MaxIOConcurrency = 2): reader R1 is held inside ReadAt of vlog 1
// (owns vlog 1); TruncateUptoTx fetches vlog 2 first (Go map order: retried until it does) and is held inside its
// DiscardUpto; reader R2 starts waiting for vlog 2; the truncation goes on to wait for vlog 1; R1 finishes and
// releases vlog 1: Signal() wakes the OLDEST waiter = R2 (vlog 2 still owned by the truncation) — the truncation sleeps on.
func c14LostWakeupProbe(r *hx.Result) error {
	for attempt := 0; attempt < 10; attempt++ {
		hit, err := c14LostWakeupAttempt(r, attempt)
		if err != nil {
			return err
		}
		if hit {
			return nil
		}
	}
	r.Count("probe.lostwakeup.not-staged")
	return nil
}

func c14LostWakeupAttempt(r *hx.Result, attempt int) (bool, error) {
	r.NextCase()
	dir := hx.TempDir("c14wake")
	defer os.RemoveAll(dir)
	label := "lost-wakeup-probe F=64 io=2: 8 sequential txs of one 100-byte value (vlogs alternate); R1 = ReadValue(tx in vlog 1) held in ReadAt; TruncateUptoTx(n = a tx of vlog 2) held in DiscardUpto(vlog 2); R2 = ReadValue(tx in vlog 2) waits; truncation waits for vlog 1; R1 finishes"
	gates := &c14Gates{readAt: map[int]*c14Gate{1: newC14Gate()}, discard: map[int]*c14Gate{2: newC14Gate()}}
	st, err := store.Open(filepath.Join(dir, "st"), c14OptionsG(64, 2, false, nil, false, &atomic.Int64{}, gates))
	if err != nil {
		return false, err
	}
	closeSt := func() {
		cd := make(chan struct{})
		go func() { st.Close(); close(cd) }()
		select {
		case <-cd:
		case <-time.After(c14Liveness):
		}
	}
	for t := 1; t <= 8; t++ {
		if _, err := c14CommitSpec(st, &c14Spec{ents: []c14Entry{{[]byte(fmt.Sprintf("w-%d", t)), c14Val(100, byte(t))}}}); err != nil {
			closeSt()
			return false, err
		}
	}
	// cut n = a tx whose values are in vlog 2: the back walk inserts vlog 2 first into the tombstone map, which makes Go's
	// map iteration start with vlog 2 in most runs (7 of 8 for a 2-entry map); e1/e2 = entries of txs >= n in vlog 1 / vlog 2
	var e1, e2 *store.TxEntry
	var n uint64
	for id := uint64(4); id <= 8; id++ {
		tx := store.NewTx(st.MaxTxEntries(), st.MaxKeyLen())
		if err := st.ReadTx(id, false, tx); err != nil {
			closeSt()
			return false, err
		}
		e := tx.Entries()[0]
		v, _ := c14Decode(e.VOff())
		if n == 0 {
			if v == 2 {
				n = id
				e2 = e
			}
			continue
		}
		if v == 1 && e1 == nil {
			e1 = e
		}
	}
	cond, tickets := c14VLogsCond(st)
	if e1 == nil || e2 == nil || cond == nil || tickets == nil {
		closeSt()
		r.Count("probe.lostwakeup.unsupported")
		return true, nil
	}
	waitTicket := func(want uint32) bool {
		for i := 0; i < 2000; i++ {
			if atomic.LoadUint32(tickets) >= want {
				return true
			}
			time.Sleep(time.Millisecond)
		}
		return false
	}
	g1, g2 := gates.readAt[1], gates.discard[2]
	// R1 owns vlog 1, held inside ReadAt
	g1.armed.Store(true)
	r1 := make(chan error, 1)
	go func() { _, err := st.ReadValue(e1); r1 <- err }()
	select {
	case <-g1.entered:
	case <-time.After(c14Liveness):
		closeSt()
		return false, fmt.Errorf("lost-wakeup probe: R1 did not reach ReadAt")
	}
	// truncation: fetches vlog 2 first (then held in DiscardUpto) or vlog 1 first (then it simply waits: void attempt)
	g2.armed.Store(true)
	t0 := atomic.LoadUint32(tickets)
	tdone := make(chan error, 1)
	go func() { tdone <- st.TruncateUptoTx(n) }()
	staged := false
	for i := 0; i < 4000 && !staged; i++ {
		select {
		case <-g2.entered:
			staged = true
		default:
			if atomic.LoadUint32(tickets) > t0 {
				i = 4000 // it waits for vlog 1 without owning vlog 2
			} else {
				time.Sleep(time.Millisecond)
			}
		}
	}
	if !staged {
		g2.armed.Store(false)
		close(g1.release)
		<-r1
		select {
		case <-tdone:
		case <-time.After(c14Liveness):
		}
		closeSt()
		r.Count("probe.lostwakeup.void-attempt(vlog1-fetched-first)")
		return false, nil
	}
	// R2 starts waiting for vlog 2 (owned by the truncation)
	t1 := atomic.LoadUint32(tickets)
	r2 := make(chan error, 1)
	go func() { _, err := st.ReadValue(e2); r2 <- err }()
	okA := waitTicket(t1 + 1)
	// the truncation leaves DiscardUpto(vlog 2) and starts waiting for vlog 1 (owned by R1)
	close(g2.release)
	okB := waitTicket(t1 + 2)
	// R1 finishes: releaseVLog(1) -> Signal()
	close(g1.release)
	<-r1
	r.OracleChecks++
	var terr error
	stuck := false
	select {
	case terr = <-tdone:
	case <-time.After(3 * time.Second):
		stuck = true
	}
	r.Eval(label, true)
	if !stuck {
		r.Count(fmt.Sprintf("probe.lostwakeup.returned(staged=%v,%v)", okA, okB))
		<-r2
		closeSt()
		_ = terr
		return okA && okB, nil
	}
	sig, desc := c14DiagnoseStuckTruncation(st, tdone, n, 3*time.Second)
	r.Count("probe.lostwakeup.stuck")
	r.Fail(sig, desc+fmt.Sprintf(" [attempt %d; vlog 1 had been released by the reader before]", attempt), label)
	select {
	case <-r2:
	case <-time.After(c14Liveness):
	}
	closeSt()
	return true, nil
}

// ---------- pkg/database level ----------

type c14MultiDB struct{}

func (c14MultiDB) ListDatabases(ctx context.Context) ([]string, error) { return nil, sql.ErrNoSupported }
func (c14MultiDB) CreateDatabase(ctx context.Context, db string, ifNotExists bool) error {
	return sql.ErrNoSupported
}
func (c14MultiDB) UseDatabase(ctx context.Context, db string) error { return sql.ErrNoSupported }
type c14User struct{}

func (c14User) Username() string           { return "default" }
func (c14User) Permission() sql.Permission { return sql.PermissionAdmin }
func (c14User) SQLPrivileges() []sql.SQLPrivilege {
	return sql.DefaultSQLPrivilegesForPermission(sql.PermissionAdmin)
}

func (c14MultiDB) GetLoggedUser(ctx context.Context) (sql.User, error) { return c14User{}, nil }
func (c14MultiDB) ListUsers(ctx context.Context) ([]sql.User, error) { return nil, sql.ErrNoSupported }
func (c14MultiDB) CreateUser(ctx context.Context, username, password string, permission sql.Permission) error {
	return sql.ErrNoSupported
}
func (c14MultiDB) AlterUser(ctx context.Context, username, password string, permission sql.Permission) error {
	return sql.ErrNoSupported
}
func (c14MultiDB) GrantSQLPrivileges(ctx context.Context, database, username string, privileges []sql.SQLPrivilege) error {
	return sql.ErrNoSupported
}
func (c14MultiDB) RevokeSQLPrivileges(ctx context.Context, database, username string, privileges []sql.SQLPrivilege) error {
	return sql.ErrNoSupported
}
func (c14MultiDB) DropUser(ctx context.Context, username string) error { return sql.ErrNoSupported }
func (c14MultiDB) ExecPreparedStmts(ctx context.Context, opts *sql.TxOptions, stmts []sql.SQLStmt, params map[string]interface{}) (*sql.SQLTx, []*sql.SQLTx, error) {
	return nil, nil, sql.ErrNoSupported
}

func c14Database(r *hx.Result, rng *hx.Rng, no int) (err error) {
	r.NextCase()
	defer func() {
		if p := recover(); p != nil {
			r.Fail("C14:database:panic", fmt.Sprint(p), fmt.Sprintf("db-case#%d", no))
		}
	}()
	F := []int{256, 512, 1024}[rng.Intn(3)]
	io := 1 + rng.Intn(3)
	root := hx.TempDir("c14db")
	defer os.RemoveAll(root)
	label := fmt.Sprintf("db-case#%d F=%d io=%d", no, F, io)
	mkOpts := func() *database.Options {
		so := c14Options(F, io, false, nil, false, nil).WithMaxTxEntries(store.DefaultMaxTxEntries).WithMaxKeyLen(store.DefaultMaxKeyLen).
			WithIndexOptions(store.DefaultIndexOptions().WithCompactionThld(2))
		return database.DefaultOptions().WithDBRootPath(root).WithStoreOptions(so)
	}
	db, err := database.NewDB("db", c14MultiDB{}, mkOpts(), quietLogger())
	if err != nil {
		return err
	}
	closed := false
	defer func() {
		if !closed {
			db.Close()
		}
	}()
	ctx := context.Background()
	fail := func(sig, desc string) { r.Fail(sig, desc, label) }
	exec := func(stmt string) bool {
		r.OracleChecks++
		_, _, err := db.SQLExec(ctx, nil, &schema.SQLExecRequest{Sql: stmt})
		if err != nil {
			fail("C14:database.SQLExec:fails", fmt.Sprintf("%s: %v", stmt, err))
			return false
		}
		return true
	}
	query := func(phase, stmt string, want int) {
		r.OracleChecks++
		rows, err := db.SQLQueryAll(ctx, nil, &schema.SQLQueryRequest{Sql: stmt})
		if err != nil {
			fail("C14:database.SQLQuery:fails-"+phase, fmt.Sprintf("%s: %v", stmt, err))
			return
		}
		if len(rows) != want {
			fail("C14:database.SQLQuery:wrong-rows-"+phase, fmt.Sprintf("%s: %d rows, want %d", stmt, len(rows), want))
		}
	}
	searchDocs := func(phase string, lo, hi int) {
		r.OracleChecks++
		rd, err := db.SearchDocuments(ctx, &protomodel.Query{CollectionName: "docs", Expressions: []*protomodel.QueryExpression{{FieldComparisons: []*protomodel.FieldComparison{
			{Field: "n", Operator: protomodel.ComparisonOperator_GE, Value: structpb.NewNumberValue(float64(lo))},
			{Field: "n", Operator: protomodel.ComparisonOperator_LT, Value: structpb.NewNumberValue(float64(hi))}}}},
			OrderBy: []*protomodel.OrderByClause{{Field: "n"}}}, 0)
		if err != nil {
			fail("C14:database.SearchDocuments:fails-"+phase, err.Error())
			return
		}
		defer rd.Close()
		docs, err := rd.ReadN(ctx, hi-lo+5)
		if err != nil && len(docs) != hi-lo {
			fail("C14:database.SearchDocuments:fails-"+phase, fmt.Sprintf("ReadN: %d docs, %v", len(docs), err))
			return
		}
		if len(docs) != hi-lo {
			fail("C14:database.SearchDocuments:wrong-docs-"+phase, fmt.Sprintf("%d docs, want %d", len(docs), hi-lo))
			return
		}
		for _, d := range docs {
			n := int(d.Document.Fields["n"].GetNumberValue())
			if n < lo || n >= hi || !strings.HasPrefix(d.Document.Fields["pad"].GetStringValue(), fmt.Sprintf("doc-%d-", n)) {
				fail("C14:database.SearchDocuments:wrong-docs-"+phase, fmt.Sprintf("doc n=%d", n))
			}
		}
	}
	pad := func(n int) string { return strings.Repeat("x", n) }
	if !exec("CREATE TABLE t1 (id INTEGER, name VARCHAR[64], body VARCHAR[2000], PRIMARY KEY id)") || !exec("CREATE INDEX ON t1 (name)") {
		return nil
	}
	if _, err := db.CreateCollection(ctx, "admin", &protomodel.CreateCollectionRequest{Name: "docs",
		Fields:  []*protomodel.Field{{Name: "n", Type: protomodel.FieldType_DOUBLE}, {Name: "pad", Type: protomodel.FieldType_STRING}},
		Indexes: []*protomodel.Index{{Fields: []string{"n"}}}}); err != nil {
		fail("C14:database.CreateCollection:fails", err.Error())
		return nil
	}
	insertRows := func(lo, hi int) {
		for i := lo; i < hi; i++ {
			exec(fmt.Sprintf("INSERT INTO t1(id, name, body) VALUES (%d, 'name-%d', '%s')", i, i, pad(20+rng.Intn(F))))
			if _, err := db.InsertDocuments(ctx, "admin", &protomodel.InsertDocumentsRequest{CollectionName: "docs", Documents: []*structpb.Struct{{Fields: map[string]*structpb.Value{
				"n": structpb.NewNumberValue(float64(i)), "pad": structpb.NewStringValue(fmt.Sprintf("doc-%d-%s", i, pad(10+rng.Intn(200))))}}}}); err != nil {
				fail("C14:database.InsertDocuments:fails", err.Error())
			}
			if _, err := db.Set(ctx, &schema.SetRequest{KVs: []*schema.KeyValue{{Key: []byte(fmt.Sprintf("kv-%d", i)), Value: []byte(pad(1 + rng.Intn(2*F)))}}}); err != nil {
				fail("C14:database.Set:fails", err.Error())
			}
		}
	}
	pre := 4 + rng.Intn(6)
	insertRows(0, pre)
	exec("ALTER TABLE t1 ADD COLUMN extra VARCHAR[20]")
	// the cut: the last pre-cut KV set; everything inserted from here on must stay usable
	hdr, err := db.Set(ctx, &schema.SetRequest{KVs: []*schema.KeyValue{{Key: []byte("cut-marker"), Value: []byte(pad(F))}}})
	if err != nil {
		return err
	}
	cut := hdr.Id
	post := 4 + rng.Intn(6)
	insertRows(pre, pre+post)
	exec(fmt.Sprintf("UPDATE t1 SET extra = 'e' WHERE id = %d", pre))
	st0, _ := db.CurrentState()
	tr := database.NewVlogTruncator(db, quietLogger())
	truncate := func(phase string, n uint64) {
		r.OracleChecks++
		done := make(chan error, 1)
		go func() {
			defer func() {
				if p := recover(); p != nil {
					done <- fmt.Errorf("panic: %v", p)
				}
			}()
			done <- tr.TruncateUptoTx(ctx, n)
		}()
		select {
		case err := <-done:
			if err != nil {
				fail("C14:database.TruncateUptoTx:fails-"+phase, fmt.Sprintf("TruncateUptoTx(%d): %v", n, err))
			}
		case <-time.After(c14Liveness):
			fail("C14:database.TruncateUptoTx:blocks-"+phase, fmt.Sprintf("TruncateUptoTx(%d)", n))
		}
	}
	verify := func(phase string) {
		query(phase, fmt.Sprintf("SELECT id, name, body FROM t1 WHERE id >= %d", pre), post)
		query(phase, fmt.Sprintf("SELECT id, extra FROM t1 WHERE id = %d AND extra = 'e'", pre), 1)
		query(phase, fmt.Sprintf("SELECT id FROM t1 WHERE name = 'name-%d'", pre+post-1), 1)
		searchDocs(phase, pre, pre+post)
		for i := pre; i < pre+post; i++ {
			r.OracleChecks++
			if e, err := db.Get(ctx, &schema.KeyRequest{Key: []byte(fmt.Sprintf("kv-%d", i))}); err != nil || len(e.Value) == 0 {
				fail("C14:database.Get:fails-"+phase, fmt.Sprintf("kv-%d: %v", i, err))
			}
		}
		r.OracleChecks++
		if _, err := db.TxByID(ctx, &schema.TxRequest{Tx: cut}); err != nil {
			fail("C14:database.TxByID:fails-"+phase, err.Error())
		}
	}
	verify("before")
	truncate("first", cut)
	r.OracleChecks++
	if st1, err := db.CurrentState(); err != nil || st1.TxId != st0.TxId+1 {
		fail("C14:database.CopySQLCatalog:no-catalog-tx", fmt.Sprintf("state %v err %v", st1, err))
	}
	verify("after-truncate")
	// new rows/documents/DDL through the copied catalog
	insertRows(pre+post, pre+post+2)
	post += 2
	exec("CREATE TABLE t2 (id INTEGER AUTO_INCREMENT, v VARCHAR, PRIMARY KEY id)")
	exec("INSERT INTO t2(v) VALUES ('a')")
	verify("after-truncate-and-writes")
	truncate("repeat", cut)
	verify("after-repeat")
	// restart
	if err := db.Close(); err != nil {
		fail("C14:database.Close:fails", err.Error())
	}
	closed = true
	db, err = database.OpenDB("db", c14MultiDB{}, mkOpts(), quietLogger())
	if err != nil {
		fail("C14:database.OpenDB:fails-after-truncation", err.Error())
		return nil
	}
	closed = false
	tr = database.NewVlogTruncator(db, quietLogger())
	verify("after-restart")
	query("after-restart", "SELECT id FROM t2", 1)
	insertRows(pre+post, pre+post+1)
	post++
	verify("after-restart-and-writes")
	// a later cut through the truncator again
	if h2, err := db.Set(ctx, &schema.SetRequest{KVs: []*schema.KeyValue{{Key: []byte("cut-marker-2"), Value: []byte("m")}}}); err == nil {
		truncate("second", h2.Id)
		r.OracleChecks++
		if e, err := db.Get(ctx, &schema.KeyRequest{Key: []byte("cut-marker-2")}); err != nil || string(e.Value) != "m" {
			fail("C14:database.Get:fails-after-second-cut", fmt.Sprint(err))
		}
		exec("INSERT INTO t2(v) VALUES ('b')")
		query("after-second-cut", "SELECT id FROM t2 WHERE id >= 2", 1)
	}
	r.Eval(label+fmt.Sprintf(" cut=%d", cut), true)
	r.Count(fmt.Sprintf("db.io=%d", io))
	r.Count("db.cases")
	return nil
}

func runC14(r *hx.Result, rng *hx.Rng, thorough bool, replay string) error {
	r.Rule = "cases: (a) real stores, FileSize 48..1000, MaxIOConcurrency 1..4, embedded values on/off, 1..6 concurrent committers, 6..58 txs of 1..10 entries with empty / tiny / chunk-sized / multi-chunk values, ascending cut points incl. 0, repeats, last, last+1, an older cut after a newer one, commits between cuts, close/reopen; (a') late committers: history replicated in id order with the ReplicateTx call of 1..3 late txs started arbitrarily early (values staged, waiting for the predecessor), so that value-log order and id order differ by more than MaxConcurrency (2..6; MaxActiveTransactions from the exact minimum), all committed, then TruncateUptoTx(n) for every n (or an ascending subsequence), reopen; a heavy committer (512-entry txs) racing light ones with MaxConcurrency 2..4; (b) deterministic witnesses for the ExportTx lock leak (3 recipes) and the in-flight writer (replication path); (c) truncation racing 3..8 committers and a reader; (d) pkg/database: NewDB + SQL table with index and ALTER + document collection + KV, vlog truncator (CopySQLCatalog + TruncateUptoTx), writes, repeat, restart, second cut; (e) pkg/database with the catalog copy FAILING as well as succeeding: 1..6 tables (+ secondary indexes, added columns, 0..2 document collections), every DDL its own tx, MaxTxEntries 8..1024 (the copy needs one tx for the whole catalog), fillers of one chunk each so that the original catalog values lie below the cut, then 2..5 truncations through the vlog truncator with a plain / cancelled / expiring-at-its-k-th-poll context or with a DDL executed at the k-th poll of the copy (between two of its reads), ascending / repeated / last+1 cuts, writes + DDL in between, Close/OpenDB; a free-running DDL writer next to repeated truncations; whatever the truncator answers the reference schema, rows / documents / KV written at tx >= cut, new INSERTs and new DDL must work, error => no chunk file removed, nil => a catalog copy tx exists. Non-trivial = the truncation removed at least one chunk file (store cases; late-committer cases: and a tx more than MaxConcurrency ids later needs a lower chunk) / ran at least one truncation round (race) ; distinct by case label + cut."
	nStore, nRace, nDB := 38, 3, 2
	nOvt, nHeavy := 10, 2
	if thorough {
		nStore, nRace, nDB = 220, 10, 6
		nOvt, nHeavy = 70, 8
	}
	t0 := time.Now()
	lap := func(k string) {
		r.Extra["phase_s."+k] = time.Since(t0).Seconds()
		t0 = time.Now()
	}
	if os.Getenv("VH_C14_ONLY") == "dbcat" { // development aid: only the database-catalog families
		return c14CatalogFamilies(r, rng, thorough, lap)
	}
	if err := c14LeakProbes(r); err != nil {
		return err
	}
	lap("leak-probes")
	if err := r.Flush(); err != nil {
		return err
	}
	if err := c14InflightProbe(r); err != nil {
		return err
	}
	if err := c14PinProbe(r); err != nil {
		return err
	}
	if err := c14LostWakeupProbe(r); err != nil {
		return err
	}
	lap("inflight-probe")
	for i := 0; i < nStore; i++ {
		if err := c14StoreCase(r, rng.Fork(), thorough, i); err != nil {
			return err
		}
		if i%10 == 9 {
			if err := r.Flush(); err != nil {
				return err
			}
		}
	}
	if err := r.Flush(); err != nil {
		return err
	}
	lap("store-cases")
	for i := 0; i < nOvt; i++ {
		if err := c14OvertakeCase(r, rng.Fork(), thorough, i); err != nil {
			return err
		}
		if i%4 == 3 {
			if err := r.Flush(); err != nil {
				return err
			}
		}
	}
	if err := r.Flush(); err != nil {
		return err
	}
	lap("overtake-cases")
	for i := 0; i < nHeavy; i++ {
		if err := c14HeavyCase(r, rng.Fork(), thorough, i); err != nil {
			return err
		}
	}
	if err := r.Flush(); err != nil {
		return err
	}
	lap("heavy-committer-cases")
	for i := 0; i < nRace; i++ {
		if err := c14Race(r, rng.Fork(), thorough, i); err != nil {
			return err
		}
	}
	lap("race")
	for i := 0; i < nDB; i++ {
		if err := c14Database(r, rng.Fork(), i); err != nil {
			return err
		}
	}
	lap("database")
	return c14CatalogFamilies(r, rng, thorough, lap)
}

func c14CatalogFamilies(r *hx.Result, rng *hx.Rng, thorough bool, lap func(string)) error {
	// database level, catalog copy succeeding AND failing (c14d.go)
	nCat, nCatRace := 7, 1
	if thorough {
		nCat, nCatRace = 40, 4
	}
	for i := 0; i < nCat; i++ {
		if err := c14CatalogCase(r, rng.Fork(), thorough, i); err != nil {
			return err
		}
	}
	for i := 0; i < nCatRace; i++ {
		if err := c14CatalogRaceCase(r, rng.Fork(), thorough, i); err != nil {
			return err
		}
	}
	if err := c14SnapshotLeakProbe(r); err != nil {
		return err
	}
	if err := r.Flush(); err != nil {
		return err
	}
	lap("database-catalog")
	return nil
}
