package main

// C06 — the key-value API (pkg/database) is linearizable; conditional writes are atomic.
//
// N goroutines issue Set / multi-key Set / ExecAll / Delete / SetReference / ZAdd / Get (plain, SinceTx, AtTx,
// AtRevision) / GetAll / Scan / ZScan / History / Count and conditional writes against one real database while index
// flushes and compactions run; every call is stamped with logical call / return times from one atomic counter.
//
// ORACLE (independent of the Lean model).  Every applied write returns its transaction id, so the write order of any
// linearization is fixed; linearizability of the recorded history is then EXACTLY the existence of a version
// assignment: every observer (read, rejected conditional write, failed Delete/SetReference/ZAdd) gets a version t such
// that its result is the one the sequential KV model gives on state(t), t lies between the last write that returned
// before its call and the last write invoked before its return, and observers ordered in real time get non-decreasing
// versions (checked greedily — exact).  Plus the direct rule for conditional writes: applied  <=>  preconditions hold on
// state(id-1).  A small WGL search (no use of the ids) cross-checks the checker on the small single-key histories and on
// seeded non-linearizable histories.
// Multi-key reads as atomic snapshots (group probes, per-entry validity intervals): c06snap.go.
// CORRESPONDENCE: the writes (in id order, with their preconditions) and the reads (at the version the oracle assigned)
// are replayed through the Lean model (`c06 …`), which must reproduce every verdict and every answer.

import (
	"bytes"
	"context"
	"encoding/binary"
	"errors"
	"fmt"
	"math"
	"os"
	"sort"
	"strings"
	"sync"
	"sync/atomic"
	"time"

	"github.com/codenotary/immudb/embedded/store"
	"github.com/codenotary/immudb/pkg/api/schema"
	"github.com/codenotary/immudb/pkg/database"

	"verif/harness/internal/hx"
)

func init() { runners["C06"] = runC06 }

type c6pre struct {
	Kind string // e n m
	Key  []byte
	Tx   uint64
}

type c6rec struct {
	Client    int
	Call, Ret int64
	Kind      string   // set execall del setref zadd | get getall scan zscan history count
	Keys      [][]byte // user-level keys
	Vals      [][]byte
	Pre       []c6pre
	Set       []byte
	Score     float64
	SinceTx   uint64
	AtTx      uint64
	AtRev     int64
	Spec      c5spec // scan (user-level seek/end/prefix)
	Limit     int
	Offset    int
	Desc      bool
	// outcome
	Err     string  // "" | nf | pre | conflict | final-key | ref-is-ref | tx-nf | bad-rev | illegal | other:<msg>
	ID      uint64  // applied writes
	Entries []c5row // store-level entries of an applied write
	Res     string  // canonical answer of a read
	Rows    []c6row // structured answer of a multi-key read (input of the atomic-snapshot oracle, c06snap.go)
	N       int     // answer of Count
	ZAll    bool    // execall: one ZAdd (set Set, score Score+i) for EVERY key written, not only for the first
	// assigned by the oracle
	Ver    int
	Lo, Hi uint64 // real-time window of versions: last write returned before the call .. last write invoked before the return
}

// one entry of a multi-key answer, store-level
type c6row struct {
	Key   []byte // store-level key of the entry
	Tx    uint64
	Val   []byte // store-level value
	Del   bool   // History only
	ZKey  []byte // ZScan: the sorted-set index key of the member
	IsRef bool   // the entry was reached through a reference
}

func (o *c6rec) isWrite() bool {
	switch o.Kind {
	case "set", "execall", "del", "setref", "zadd":
		return true
	}
	return false
}

func (o *c6rec) String() string {
	var b strings.Builder
	fmt.Fprintf(&b, "c%d [%d,%d] %s", o.Client, o.Call, o.Ret, o.Kind)
	for i, k := range o.Keys {
		if len(o.Keys) > 12 && i >= 4 && i < len(o.Keys)-2 {
			if i == 4 {
				fmt.Fprintf(&b, " …(%d keys)…", len(o.Keys)-6)
			}
			continue
		}
		fmt.Fprintf(&b, " %s", k)
		if i < len(o.Vals) {
			fmt.Fprintf(&b, "=%s", o.Vals[i])
		}
	}
	for _, p := range o.Pre {
		fmt.Fprintf(&b, " pre:%s:%s:%d", p.Kind, p.Key, p.Tx)
	}
	if o.SinceTx > 0 || o.AtTx > 0 || o.AtRev != 0 {
		fmt.Fprintf(&b, " since=%d at=%d rev=%d", o.SinceTx, o.AtTx, o.AtRev)
	}
	if o.Kind == "scan" {
		fmt.Fprintf(&b, " %s limit=%d", o.Spec.tokens(true), o.Limit)
	}
	if o.isWrite() && o.Err == "" {
		fmt.Fprintf(&b, " -> id %d", o.ID)
	} else if o.Err != "" {
		fmt.Fprintf(&b, " -> err:%s", o.Err)
	} else if len(o.Res) > 600 {
		fmt.Fprintf(&b, " -> %s…(%d bytes)", o.Res[:600], len(o.Res))
	} else {
		fmt.Fprintf(&b, " -> %s", o.Res)
	}
	return b.String()
}

func c6errClass(err error) string {
	switch {
	case err == nil:
		return ""
	case errors.Is(err, store.ErrPreconditionFailed):
		return "pre"
	case errors.Is(err, store.ErrTxReadConflict):
		return "conflict"
	case errors.Is(err, database.ErrFinalKeyCannotBeConvertedIntoReference):
		return "final-key"
	case errors.Is(err, database.ErrReferencedKeyCannotBeAReference):
		return "ref-is-ref"
	case errors.Is(err, store.ErrTxNotFound):
		return "tx-nf"
	case errors.Is(err, database.ErrInvalidRevision):
		return "bad-rev"
	case errors.Is(err, store.ErrNoMoreEntries):
		return "no-more"
	case errors.Is(err, store.ErrKeyNotFound):
		return "nf"
	case errors.Is(err, store.ErrIllegalArguments):
		return "illegal"
	}
	return "other:" + err.Error()
}

// ---------- canonical answers (store-level keys/values, same format as lean/Driver/C06.lean) ----------

func sk(k []byte) []byte { return database.EncodeKey(k) }
func sv(v []byte) []byte { return database.WrapWithPrefix(v, database.PlainValuePrefix) }

func c6entryStr(e *schema.Entry) string {
	var refTx uint64
	if e.ReferencedBy != nil {
		refTx = e.ReferencedBy.Tx
	}
	return fmt.Sprintf("e %s:%d:%s:0 %d", hx.Hex(sk(e.Key)), e.Tx, hx.Hex(sv(e.Value)), refTx)
}

func c6entriesStr(es []*schema.Entry) string {
	if len(es) == 0 {
		return "es _"
	}
	ss := make([]string, len(es))
	for i, e := range es {
		ss[i] = fmt.Sprintf("%s:%d:%s:0", hx.Hex(sk(e.Key)), e.Tx, hx.Hex(sv(e.Value)))
	}
	return "es " + strings.Join(ss, ";")
}

// ---------- the sequential KV model (Go) ----------

type c6model struct {
	st  *c5state
	max uint64
}

func (m *c6model) count(t uint64, key []byte) int {
	n := 0
	for _, v := range m.st.hist[string(key)] {
		if v.Tx <= t {
			n++
		}
	}
	return n
}

func (m *c6model) exact(tx uint64, key []byte) *c5ver {
	for i, v := range m.st.hist[string(key)] {
		if v.Tx == tx {
			return &m.st.hist[string(key)][i]
		}
	}
	return nil
}

func isRef(v *c5ver) bool { return len(v.Val) >= 9 && v.Val[0] == database.ReferenceValuePrefix }

// resolve mirrors getAtTx(atTx=0)+resolveValue on ONE state: (store key, version, referencing tx, ok)
func (m *c6model) resolve(t uint64, skey []byte) ([]byte, *c5ver, uint64, bool) {
	v := m.st.at(t, skey)
	if v == nil || v.Del {
		return nil, nil, 0, false
	}
	if !isRef(v) {
		return skey, v, 0, true
	}
	atTx := binary.BigEndian.Uint64(v.Val[1:9])
	rk := v.Val[9:]
	var tv *c5ver
	if atTx == 0 {
		tv = m.st.at(t, rk)
	} else {
		tv = m.exact(atTx, rk)
	}
	if tv == nil || tv.Del {
		return nil, nil, 0, false
	}
	return rk, tv, v.Tx, true
}

func verStr(k []byte, v *c5ver) string {
	return fmt.Sprintf("%s:%d:%s:%s", hx.Hex(k), v.Tx, hx.Hex(v.Val), b01(v.Del))
}

func (m *c6model) preHolds(t uint64, p c6pre) bool {
	v := m.st.at(t, sk(p.Key))
	switch p.Kind {
	case "e":
		return v != nil && !v.Del
	case "n":
		return v == nil || v.Del
	default:
		return v == nil || v.Tx <= p.Tx
	}
}

func (m *c6model) presHold(t uint64, ps []c6pre) bool {
	for _, p := range ps {
		if !m.preHolds(t, p) {
			return false
		}
	}
	return true
}

// zset members at t: (score, store key of the member, atTx), ascending by index key
type c6zent struct {
	zkey  []byte
	score float64
	key   []byte
	atTx  uint64
}

func (m *c6model) zmembers(t uint64, set []byte) []c6zent {
	prefix := make([]byte, 9+len(set))
	prefix[0] = database.SortedSetKeyPrefix
	binary.BigEndian.PutUint64(prefix[1:], uint64(len(set)))
	copy(prefix[9:], set)
	var out []c6zent
	for _, k := range m.st.keys() {
		if !bytes.HasPrefix(k, prefix) {
			continue
		}
		v := m.st.at(t, k)
		if v == nil || v.Del {
			continue
		}
		off := len(prefix)
		score := math.Float64frombits(binary.BigEndian.Uint64(k[off:]))
		key := k[off+16 : len(k)-8]
		atTx := binary.BigEndian.Uint64(k[len(k)-8:])
		out = append(out, c6zent{zkey: k, score: score, key: key, atTx: atTx})
	}
	return out
}

// answer of a read / verdict of an observer on state(t); "" means "this observation is impossible at t"
func (m *c6model) observe(t uint64, o *c6rec) string {
	switch o.Kind {
	case "get":
		switch {
		case o.AtTx > 0:
			if o.AtTx > t {
				return "err:tx-nf"
			}
			v := m.exact(o.AtTx, sk(o.Keys[0]))
			if v == nil || v.Del {
				return "err:nf"
			}
			if isRef(v) {
				return "skip"
			}
			return fmt.Sprintf("e %s 0", verStr(sk(o.Keys[0]), v))
		case o.AtRev != 0:
			h := m.st.hist[string(sk(o.Keys[0]))]
			n := m.count(t, sk(o.Keys[0]))
			var idx int
			if o.AtRev > 0 {
				idx = int(o.AtRev) - 1
			} else {
				idx = n - 1 + int(o.AtRev)
			}
			if n == 0 {
				return "err:nf"
			}
			if idx < 0 || idx >= n {
				return "err:bad-rev"
			}
			v := &h[idx]
			if v.Del {
				return "err:nf"
			}
			if isRef(v) {
				return "skip"
			}
			return fmt.Sprintf("e %s 0", verStr(sk(o.Keys[0]), v))
		}
		k, v, refTx, ok := m.resolve(t, sk(o.Keys[0]))
		if !ok {
			return "err:nf"
		}
		return fmt.Sprintf("e %s %d", verStr(k, v), refTx)
	case "getall":
		var ss []string
		for _, key := range o.Keys {
			if k, v, _, ok := m.resolve(t, sk(key)); ok {
				ss = append(ss, verStr(k, v))
			}
		}
		if len(ss) == 0 {
			return "es _"
		}
		return "es " + strings.Join(ss, ";")
	case "scan":
		sp := o.Spec
		ssp := c5spec{Pfx: sk(sp.Pfx), InclSeek: sp.InclSeek, InclEnd: sp.InclEnd, Desc: sp.Desc}
		if len(sp.Seek) > 0 {
			ssp.Seek = sk(sp.Seek)
		}
		if len(sp.End) > 0 {
			ssp.End = sk(sp.End)
		}
		rows := m.st.rawRows(t, nil, ssp)
		var ss []string
		skipped, taken := 0, 0
		limit := o.Limit
		if limit == 0 {
			limit = 1 << 30
		}
		for _, r := range rows {
			if r.Del {
				continue
			}
			if skipped < o.Offset {
				skipped++
				continue
			}
			if taken >= limit {
				break
			}
			taken++ // a row whose reference cannot be resolved still uses a limit slot
			if k, v, _, ok := m.resolve(t, r.Key); ok {
				ss = append(ss, verStr(k, v))
			}
		}
		if len(ss) == 0 {
			return "es _"
		}
		return "es " + strings.Join(ss, ";")
	case "zscan":
		return m.observeZ(t, t, o)
	case "history":
		h := m.st.hist[string(sk(o.Keys[0]))]
		n := m.count(t, sk(o.Keys[0]))
		if n == 0 {
			return "err:nf"
		}
		var idxs []int
		for i := 0; i < n; i++ {
			idxs = append(idxs, i)
		}
		if o.Desc {
			for i, j := 0, len(idxs)-1; i < j; i, j = i+1, j-1 {
				idxs[i], idxs[j] = idxs[j], idxs[i]
			}
		}
		if o.Offset == len(idxs) {
			return "err:no-more" // History(offset == number of versions) answers ErrNoMoreEntries
		}
		if o.Offset > len(idxs) {
			return "es _" // ErrOffsetOutOfRange is swallowed
		}
		idxs = idxs[o.Offset:]
		if o.Limit > 0 && len(idxs) > o.Limit {
			idxs = idxs[:o.Limit]
		}
		var ss []string
		for _, i := range idxs {
			ss = append(ss, verStr(sk(o.Keys[0]), &h[i]))
		}
		return "es " + strings.Join(ss, ";")
	case "count":
		n := 0
		for _, k := range m.st.keys() {
			if bytes.HasPrefix(k, sk(o.Keys[0])) && m.st.at(t, k) != nil {
				n++
			}
		}
		return fmt.Sprintf("n %d", n)
	// observers that are failed writes
	case "set", "execall":
		if m.presHold(t, o.Pre) {
			return ""
		}
		return "err:pre"
	case "del":
		for _, k := range o.Keys { // every key of a (multi-key) Delete must exist
			v := m.st.at(t, sk(k))
			if v == nil || v.Del {
				return "err:nf"
			}
		}
		return ""
	case "zadd":
		v := m.st.at(t, sk(o.Keys[0]))
		if v == nil || v.Del {
			return "err:nf"
		}
		if isRef(v) {
			return "err:ref-is-ref"
		}
		return ""
	case "setref":
		v := m.st.at(t, sk(o.Keys[0]))
		if v != nil && !v.Del && !isRef(v) {
			return "err:final-key"
		}
		tv := m.st.at(t, sk(o.Keys[1]))
		if tv == nil || tv.Del {
			return "err:nf"
		}
		if isRef(tv) {
			return "err:ref-is-ref"
		}
		return ""
	}
	return "?"
}

// observeZ: the answer of ZScan when the members are read on state(t1) and their entries on state(t2).  The code takes
// TWO snapshots (sorted-set index, then key index); the specification is t1 = t2.
func (m *c6model) observeZ(t1, t2 uint64, o *c6rec) string {
	zs := m.zmembers(t1, o.Set)
	if o.Desc {
		for i, j := 0, len(zs)-1; i < j; i, j = i+1, j-1 {
			zs[i], zs[j] = zs[j], zs[i]
		}
	}
	var ss []string
	for _, z := range zs {
		var v *c5ver
		if z.atTx == 0 {
			v = m.st.at(t2, z.key)
		} else {
			v = m.exact(z.atTx, z.key)
		}
		if v == nil || v.Del {
			continue
		}
		ss = append(ss, fmt.Sprintf("%s@%x:%s", hx.Hex(z.key), math.Float64bits(z.score), verStr(z.key, v)))
	}
	return "zs " + strings.Join(ss, ";")
}

func (o *c6rec) observed() string {
	if o.Err != "" {
		return "err:" + o.Err
	}
	return o.Res
}

// ---------- the linearizability check ----------

type c6verdict struct {
	Sig, Desc string
	Ret       int64 // return time of the operation the verdict is about (0 = not about one operation)
}

// c6diagCap: after this many verdicts of one c6check run the search for "where else does the answer match" (a scan over
// ALL versions, only needed to tell stale from never-existed) is restricted to 64 versions around the window.
var c6diagCap = 1 << 30

func c6check(recs []*c6rec, log map[uint64][]c5row) (*c6model, []c6verdict) {
	st, max := newC5State(log)
	m := &c6model{st: st, max: max}
	var out []c6verdict
	var writes, observers []*c6rec
	for _, o := range recs {
		if o.isWrite() && o.Err == "" {
			writes = append(writes, o)
		} else if o.Err != "conflict" && !strings.HasPrefix(o.Err, "other:") && !strings.HasPrefix(o.Err, "panic:") && o.Err != "illegal" {
			observers = append(observers, o)
		}
	}
	// ids are exactly 1..max
	if uint64(len(writes)) != max {
		out = append(out, c6verdict{"C06:linearizability:violation", fmt.Sprintf("%d writes acknowledged but ids go up to %d", len(writes), max), 0})
	}
	// (W) real-time order among writes (a write with a larger id never returned before one with a smaller id was invoked),
	// and the direct rule for conditional writes
	sort.Slice(writes, func(i, j int) bool { return writes[i].ID < writes[j].ID })
	minRet := int64(math.MaxInt64)
	var minRetW *c6rec
	for i := len(writes) - 1; i >= 0; i-- {
		a := writes[i]
		if minRetW != nil && minRet < a.Call {
			out = append(out, c6verdict{"C06:linearizability:violation", fmt.Sprintf("write order against real time: %s returned before %s was invoked", minRetW, a), 0})
		}
		if a.Ret < minRet {
			minRet, minRetW = a.Ret, a
		}
		if len(a.Pre) > 0 && !m.presHold(a.ID-1, a.Pre) {
			out = append(out, c6verdict{"C06:precondition:applied-when-false", fmt.Sprintf("%s applied although a precondition is false on state(%d)", a, a.ID-1), a.Ret})
		}
		// implicit conditions of Delete / SetReference / ZAdd (check and write are one critical section)
		if (a.Kind == "del" || a.Kind == "zadd" || a.Kind == "setref") && m.observe(a.ID-1, a) != "" {
			out = append(out, c6verdict{"C06:linearizability:violation", fmt.Sprintf("%s applied although on state(%d) it must answer %s", a, a.ID-1, m.observe(a.ID-1, a)), a.Ret})
		}
	}
	// lo(o) = max id among writes that returned before o was called ; hi(o) = (min id among writes called after o returned) - 1
	byRet := append([]*c6rec{}, writes...)
	sort.Slice(byRet, func(i, j int) bool { return byRet[i].Ret < byRet[j].Ret })
	preMax := make([]uint64, len(byRet)+1)
	for i, w := range byRet {
		preMax[i+1] = preMax[i]
		if w.ID > preMax[i+1] {
			preMax[i+1] = w.ID
		}
	}
	byCall := append([]*c6rec{}, writes...)
	sort.Slice(byCall, func(i, j int) bool { return byCall[i].Call < byCall[j].Call })
	sufMin := make([]uint64, len(byCall)+1)
	sufMin[len(byCall)] = max + 1
	for i := len(byCall) - 1; i >= 0; i-- {
		sufMin[i] = sufMin[i+1]
		if byCall[i].ID < sufMin[i] {
			sufMin[i] = byCall[i].ID
		}
	}
	// (O) observers: version windows + monotone assignment, greedy in call order (exact)
	sort.Slice(observers, func(i, j int) bool { return observers[i].Call < observers[j].Call })
	obsByRet := append([]*c6rec{}, observers...)
	sort.Slice(obsByRet, func(i, j int) bool { return obsByRet[i].Ret < obsByRet[j].Ret })
	rp, runMax := 0, uint64(0)
	for _, o := range observers {
		lo := preMax[sort.Search(len(byRet), func(i int) bool { return byRet[i].Ret >= o.Call })]
		hi := sufMin[sort.Search(len(byCall), func(i int) bool { return byCall[i].Call > o.Ret })] - 1
		if o.SinceTx > lo {
			lo = o.SinceTx
		}
		o.Lo, o.Hi = lo, hi
		for rp < len(obsByRet) && obsByRet[rp].Ret < o.Call {
			if v := obsByRet[rp].Ver; v >= 0 && uint64(v) > runMax {
				runMax = uint64(v)
			}
			rp++
		}
		floor := lo
		if runMax > floor {
			floor = runMax
		}
		o.Ver = -1
		want := o.observed()
		skip := false
		for t := floor; t <= hi; t++ {
			got := m.observe(t, o)
			if got == "skip" {
				skip = true
				break
			}
			if got == want {
				o.Ver = int(t)
				break
			}
		}
		if skip || o.Ver >= 0 {
			continue
		}
		// no version in the window explains the observation: where (if anywhere) does it match?
		below, anyAt, inWin := -1, -1, false
		from, to := uint64(0), max
		if len(out) >= c6diagCap {
			if lo > 64 {
				from = lo - 64
			}
			if hi+64 < max {
				to = hi + 64
			}
		}
		for t := from; t <= to; t++ {
			if m.observe(t, o) == want {
				anyAt = int(t)
				if t < lo {
					below = int(t)
				} else if t <= hi {
					inWin = true // explained by a state of the real-time window, but older than what an earlier read saw
				}
			}
		}
		switch {
		case o.isWrite() && o.Err == "pre":
			out = append(out, c6verdict{"C06:precondition:rejected-when-true", fmt.Sprintf("%s rejected although the preconditions hold on every state in [%d,%d]", o, floor, hi), o.Ret})
		case below >= 0:
			out = append(out, c6verdict{"C06:read-after-write:stale", fmt.Sprintf("%s matches state(%d), but write %d had returned before the call", o, below, lo), o.Ret})
		case o.Kind == "zscan" && o.Err == "" && !inWin && m.zTwoSnapshots(o, lo, hi) != "":
			// ZScan takes two snapshots (sorted-set index, then key index): members of one state with the entries of another.
			// In the code as it is this cannot happen: ZScan holds d.mutex.RLock for the whole call and every operation that
			// adds a member (ZAdd, ExecAll) takes d.mutex.Lock, so the member set is the same in both snapshots (30 s of
			// 8 readers against a writer adding one member per transaction: 0 cases).  The class is kept to name the cause
			// should that exclusion ever go away.
			out = append(out, c6verdict{"C06:atomic-snapshot:zscan:members-and-entries-from-two-snapshots", fmt.Sprintf("%s matches no single state in [%d,%d], but it is %s", o, floor, hi, m.zTwoSnapshots(o, lo, hi)), o.Ret})
		default:
			out = append(out, c6verdict{"C06:linearizability:violation" + c6classify(o), fmt.Sprintf("%s matches no state in [%d,%d] (lower bound from completed writes %d, from earlier reads %d; it matches state %d)", o, floor, hi, lo, runMax, anyAt), o.Ret})
		}
	}
	return m, out
}

// zTwoSnapshots: is the ZScan answer the members of state(t1) with the entries of state(t2) for SOME t1 ≠ t2 in the window?
func (m *c6model) zTwoSnapshots(o *c6rec, lo, hi uint64) string {
	if hi > lo+200 {
		hi = lo + 200
	}
	for t1 := lo; t1 <= hi; t1++ {
		for t2 := lo; t2 <= hi; t2++ {
			if t1 != t2 && m.observeZ(t1, t2, o) == o.Res {
				return fmt.Sprintf("the members of state(%d) with the entries of state(%d)", t1, t2)
			}
		}
	}
	return ""
}

// a Get that went through a reference is two index reads in the code: flagged separately
func c6classify(o *c6rec) string {
	if o.Kind == "get" && o.AtTx == 0 && o.AtRev == 0 && strings.HasPrefix(o.Res, "e ") && !strings.HasSuffix(o.Res, " 0") {
		return ":get-through-reference-torn"
	}
	return ""
}

// ---------- running a history on the real database ----------

type c6run struct {
	d     database.DB
	dir   string
	clock int64
	mu    sync.Mutex
	recs  []*c6rec
	log   map[uint64][]c5row
	// logical start times of the CompactIndex calls that succeeded (each one reopens the index from a dump taken earlier)
	compactStarts []int64
}

// after a successful compaction the index is reopened from a dump that misses the bulks indexed meanwhile while the
// "indexed up to" watcher still reports them done: failures after such a point are a separate, known class
func (r *c6run) afterCompaction(ret int64) bool {
	r.mu.Lock()
	defer r.mu.Unlock()
	for _, t := range r.compactStarts {
		if ret == 0 || t < ret {
			return true
		}
	}
	return false
}

func (r *c6run) compact() error {
	t := atomic.LoadInt64(&r.clock)
	err := r.d.CompactIndex()
	if err == nil {
		r.mu.Lock()
		r.compactStarts = append(r.compactStarts, t)
		r.mu.Unlock()
	}
	return err
}

func c6open(synced bool) (*c6run, error) {
	dir := hx.TempDir("c06")
	io := store.DefaultIndexOptions().WithMaxBulkSize(1).WithCacheSize(64).WithFlushBufferSize(1 << 16).
		WithMaxBufferedDataSize(1 << 20).WithMaxGlobalBufferedDataSize(1 << 22).WithCompactionThld(1).WithMaxActiveSnapshots(200)
	so := store.DefaultOptions().WithLogger(quietLogger()).WithIndexOptions(io).WithSynced(synced).WithMaxConcurrency(24).
		WithMaxTxEntries(16).WithMaxKeyLen(64).WithMaxValueLen(64).WithVLogCacheSize(0).WithTxLogCacheSize(16).
		WithWriteBufferSize(1 << 16).WithFileSize(1 << 20)
	opts := database.DefaultOptions().WithDBRootPath(dir).WithStoreOptions(so)
	d, err := database.NewDB("db", nil, opts, quietLogger())
	if err != nil {
		removeAll(dir)
		return nil, err
	}
	return &c6run{d: d, dir: dir, log: map[uint64][]c5row{}}, nil
}

func (r *c6run) close() {
	r.d.Close()
	removeAll(r.dir)
}

func (r *c6run) tick() int64 { return atomic.AddInt64(&r.clock, 1) }

func specEntries(es ...*store.EntrySpec) []c5row {
	var out []c5row
	for _, e := range es {
		out = append(out, c5row{Key: e.Key, Val: e.Value, Del: e.Metadata != nil && e.Metadata.Deleted()})
	}
	return out
}

func protoPre(ps []c6pre) []*schema.Precondition {
	var out []*schema.Precondition
	for _, p := range ps {
		switch p.Kind {
		case "e":
			out = append(out, schema.PreconditionKeyMustExist(p.Key))
		case "n":
			out = append(out, schema.PreconditionKeyMustNotExist(p.Key))
		default:
			out = append(out, schema.PreconditionKeyNotModifiedAfterTX(p.Key, p.Tx))
		}
	}
	return out
}

// do executes one operation; panics of the code under test are reported as Err = "panic:…"
func (r *c6run) do(o *c6rec) {
	ctx := context.Background()
	defer func() {
		if p := recover(); p != nil {
			o.Err = fmt.Sprintf("panic:%v", p)
			o.Ret = r.tick()
		}
		r.mu.Lock()
		r.recs = append(r.recs, o)
		if o.isWrite() && o.Err == "" {
			r.log[o.ID] = o.Entries
		}
		r.mu.Unlock()
	}()
	d := r.d
	o.Call = r.tick()
	var hdr *schema.TxHeader
	var err error
	switch o.Kind {
	case "set":
		req := &schema.SetRequest{Preconditions: protoPre(o.Pre)}
		var es []*store.EntrySpec
		for i, k := range o.Keys {
			req.KVs = append(req.KVs, &schema.KeyValue{Key: k, Value: o.Vals[i]})
			es = append(es, database.EncodeEntrySpec(k, nil, o.Vals[i]))
		}
		hdr, err = d.Set(ctx, req)
		o.Entries = specEntries(es...)
	case "execall":
		req := &schema.ExecAllRequest{Preconditions: protoPre(o.Pre)}
		var es []*store.EntrySpec
		for i, k := range o.Keys {
			req.Operations = append(req.Operations, &schema.Op{Operation: &schema.Op_Kv{Kv: &schema.KeyValue{Key: k, Value: o.Vals[i]}}})
			es = append(es, database.EncodeEntrySpec(k, nil, o.Vals[i]))
		}
		if len(o.Set) > 0 {
			// a sorted-set entry for the first key (ZAll: for every key) written in the same transaction (no existence check needed)
			for i, k := range o.Keys {
				if i > 0 && !o.ZAll {
					break
				}
				req.Operations = append(req.Operations, &schema.Op{Operation: &schema.Op_ZAdd{ZAdd: &schema.ZAddRequest{Set: o.Set, Score: o.Score + float64(i), Key: k}}})
				es = append(es, database.EncodeZAdd(o.Set, o.Score+float64(i), database.EncodeKey(k), 0))
			}
		}
		hdr, err = d.ExecAll(ctx, req)
		o.Entries = specEntries(es...)
	case "del":
		hdr, err = d.Delete(ctx, &schema.DeleteKeysRequest{Keys: o.Keys})
		o.Entries = nil
		for _, k := range o.Keys {
			o.Entries = append(o.Entries, c5row{Key: sk(k), Del: true})
		}
	case "setref":
		hdr, err = d.SetReference(ctx, &schema.ReferenceRequest{Key: o.Keys[0], ReferencedKey: o.Keys[1]})
		o.Entries = specEntries(database.EncodeReference(o.Keys[0], nil, o.Keys[1], 0))
	case "zadd":
		hdr, err = d.ZAdd(ctx, &schema.ZAddRequest{Set: o.Set, Score: o.Score, Key: o.Keys[0]})
		o.Entries = specEntries(database.EncodeZAdd(o.Set, o.Score, database.EncodeKey(o.Keys[0]), 0))
	case "get":
		var e *schema.Entry
		e, err = d.Get(ctx, &schema.KeyRequest{Key: o.Keys[0], SinceTx: o.SinceTx, AtTx: o.AtTx, AtRevision: o.AtRev})
		if err == nil {
			o.Res = c6entryStr(e)
		}
	case "getall":
		var es *schema.Entries
		es, err = d.GetAll(ctx, &schema.KeyListRequest{Keys: o.Keys, SinceTx: o.SinceTx})
		if err == nil {
			o.Res = c6entriesStr(es.Entries)
			o.Rows = c6rowsOf(es.Entries)
		}
	case "scan":
		var es *schema.Entries
		es, err = d.Scan(ctx, &schema.ScanRequest{Prefix: o.Spec.Pfx, SeekKey: o.Spec.Seek, EndKey: o.Spec.End, Desc: o.Spec.Desc,
			InclusiveSeek: o.Spec.InclSeek, InclusiveEnd: o.Spec.InclEnd, Limit: uint64(o.Limit), Offset: uint64(o.Offset)})
		if err == nil {
			o.Res = c6entriesStr(es.Entries)
			o.Rows = c6rowsOf(es.Entries)
		}
	case "zscan":
		var zs *schema.ZEntries
		zs, err = d.ZScan(ctx, &schema.ZScanRequest{Set: o.Set, Desc: o.Desc})
		if err == nil {
			var ss []string
			for _, z := range zs.Entries {
				ss = append(ss, fmt.Sprintf("%s@%x:%s:%d:%s:0", hx.Hex(sk(z.Key)), math.Float64bits(z.Score), hx.Hex(sk(z.Entry.Key)), z.Entry.Tx, hx.Hex(sv(z.Entry.Value))))
				o.Rows = append(o.Rows, c6row{Key: sk(z.Entry.Key), Tx: z.Entry.Tx, Val: sv(z.Entry.Value),
					ZKey: database.EncodeZAdd(o.Set, z.Score, sk(z.Key), z.AtTx).Key})
			}
			o.Res = "zs " + strings.Join(ss, ";")
		}
	case "history":
		var es *schema.Entries
		es, err = d.History(ctx, &schema.HistoryRequest{Key: o.Keys[0], Offset: uint64(o.Offset), Limit: int32(o.Limit), Desc: o.Desc})
		if err == nil {
			var ss []string
			for _, e := range es.Entries {
				del := e.Metadata != nil && e.Metadata.Deleted
				val := e.Value
				var sval []byte
				if !del || len(val) > 0 {
					sval = sv(val)
				}
				if isRefProto(e) {
					sval = nil
				}
				ss = append(ss, fmt.Sprintf("%s:%d:%s:%s", hx.Hex(sk(e.Key)), e.Tx, hx.Hex(sval), b01(del)))
				o.Rows = append(o.Rows, c6row{Key: sk(e.Key), Tx: e.Tx, Val: sval, Del: del})
			}
			if len(ss) == 0 {
				o.Res = "es _"
			} else {
				o.Res = "es " + strings.Join(ss, ";")
			}
		}
	case "count":
		var c *schema.EntryCount
		c, err = d.Count(ctx, &schema.KeyPrefix{Prefix: o.Keys[0]})
		if err == nil {
			o.Res = fmt.Sprintf("n %d", c.Count)
			o.N = int(c.Count)
		}
	}
	o.Ret = r.tick()
	o.Err = c6errClass(err)
	if hdr != nil {
		o.ID = hdr.Id
	}
}

func isRefProto(e *schema.Entry) bool { return false }

func c6rowsOf(es []*schema.Entry) []c6row {
	out := make([]c6row, len(es))
	for i, e := range es {
		out[i] = c6row{Key: sk(e.Key), Tx: e.Tx, Val: sv(e.Value), IsRef: e.ReferencedBy != nil}
	}
	return out
}

// ---------- generation ----------

type c6gen struct {
	rng    *hx.Rng
	keys   [][]byte // plain keys  k*
	refs   [][]byte // reference keys r*
	sets   [][]byte
	simple bool // only plain set / del / get (the WGL cross-check applies)
}

func newC6Gen(rng *hx.Rng) *c6gen {
	g := &c6gen{rng: rng}
	for i, n := 0, 3+rng.Intn(5); i < n; i++ {
		g.keys = append(g.keys, []byte(fmt.Sprintf("k%d", i)))
	}
	g.refs = [][]byte{[]byte("r0"), []byte("r1")}
	g.sets = [][]byte{[]byte("z")}
	return g
}

func (g *c6gen) key() []byte { return g.keys[g.rng.Intn(len(g.keys))] }

// distinct: n different keys in random order (n capped by the number of keys)
func (g *c6gen) distinct(n int) [][]byte {
	ks := append([][]byte{}, g.keys...)
	for i := len(ks) - 1; i > 0; i-- {
		j := g.rng.Intn(i + 1)
		ks[i], ks[j] = ks[j], ks[i]
	}
	if n > len(ks) {
		n = len(ks)
	}
	return ks[:n]
}

func (g *c6gen) pres(hint int) []c6pre {
	var ps []c6pre
	for n := 1 + g.rng.Intn(2); n > 0; n-- {
		switch g.rng.Intn(3) {
		case 0:
			ps = append(ps, c6pre{Kind: "e", Key: g.key()})
		case 1:
			ps = append(ps, c6pre{Kind: "n", Key: g.key()})
		default:
			ps = append(ps, c6pre{Kind: "m", Key: g.key(), Tx: uint64(1 + g.rng.Intn(hint+1))})
		}
	}
	return ps
}

func (g *c6gen) op(client, seq, hint int) *c6rec {
	val := []byte(fmt.Sprintf("c%d.%d", client, seq))
	o := &c6rec{Client: client}
	if g.simple {
		switch x := g.rng.Intn(10); {
		case x < 4:
			o.Kind, o.Keys, o.Vals = "set", [][]byte{g.key()}, [][]byte{val}
		case x < 6:
			o.Kind, o.Keys = "del", [][]byte{g.key()}
		default:
			o.Kind, o.Keys = "get", [][]byte{g.key()}
		}
		return o
	}
	switch x := g.rng.Intn(100); {
	case x < 14:
		o.Kind, o.Keys, o.Vals = "set", [][]byte{g.key()}, [][]byte{val}
	case x < 22: // conditional set
		o.Kind, o.Keys, o.Vals, o.Pre = "set", [][]byte{g.key()}, [][]byte{val}, g.pres(hint)
	case x < 28: // multi-key set: 2 .. all keys get the same marker in ONE transaction
		o.Kind, o.Keys = "set", g.distinct(2+g.rng.Intn(len(g.keys)))
		for range o.Keys {
			o.Vals = append(o.Vals, val)
		}
	case x < 34:
		o.Kind, o.Keys = "execall", g.distinct(1+g.rng.Intn(3)*g.rng.Intn(2))
		for range o.Keys {
			o.Vals = append(o.Vals, val)
		}
		if g.rng.Chance(50) {
			o.Pre = g.pres(hint)
		}
		if g.rng.Chance(40) {
			o.Set, o.Score = g.sets[0], float64(g.rng.Intn(5))
		}
	case x < 41:
		o.Kind, o.Keys = "del", [][]byte{g.key()}
		if g.rng.Chance(20) {
			o.Keys = g.distinct(2)
		}
	case x < 46:
		o.Kind, o.Keys = "setref", [][]byte{g.refs[g.rng.Intn(len(g.refs))], g.key()}
	case x < 50:
		o.Kind, o.Keys, o.Set, o.Score = "zadd", [][]byte{g.key()}, g.sets[0], float64(g.rng.Intn(5))
	case x < 64:
		o.Kind, o.Keys = "get", [][]byte{g.key()}
		switch g.rng.Intn(6) {
		case 0:
			o.SinceTx = uint64(g.rng.Intn(hint + 1))
		case 1:
			o.AtTx = uint64(1 + g.rng.Intn(hint+1))
		case 2:
			o.AtRev = int64(g.rng.Intn(5)) - 2
			if o.AtRev == 0 {
				o.AtRev = 1
			}
		}
	case x < 69:
		o.Kind, o.Keys = "get", [][]byte{g.refs[g.rng.Intn(len(g.refs))]}
	case x < 77:
		o.Kind = "getall"
		if g.rng.Chance(45) {
			o.Keys = g.distinct(len(g.keys)) // every key, random order
		} else {
			for n := 2 + g.rng.Intn(3); n > 0; n-- {
				o.Keys = append(o.Keys, g.key())
			}
		}
		if g.rng.Chance(20) {
			o.Keys = append(o.Keys, g.refs[0])
		}
	case x < 86:
		o.Kind = "scan"
		o.Spec = c5spec{Pfx: []byte("k"), Desc: g.rng.Chance(30), InclSeek: g.rng.Bool(), InclEnd: g.rng.Bool()}
		if g.rng.Chance(40) {
			o.Spec.Seek = g.key()
		}
		if g.rng.Chance(30) {
			o.Spec.End = g.key()
		}
		if g.rng.Chance(30) {
			o.Limit = 1 + g.rng.Intn(3)
		}
		if g.rng.Chance(20) {
			o.Offset = 1
		}
		if g.rng.Chance(15) {
			o.Spec.Pfx = nil // includes the reference keys
		}
	case x < 90:
		o.Kind, o.Set, o.Desc = "zscan", g.sets[0], g.rng.Bool()
	case x < 96:
		o.Kind, o.Keys, o.Desc = "history", [][]byte{g.key()}, g.rng.Chance(30)
		if g.rng.Chance(30) {
			o.Offset, o.Limit = g.rng.Intn(2), g.rng.Intn(3)
		}
	default:
		o.Kind, o.Keys = "count", [][]byte{[]byte("k")}
	}
	return o
}

// ---------- one history ----------

func runC06History(r *hx.Result, rng *hx.Rng, name string, clients, opsPer int, synced, compaction bool) error {
	r.NextCase()
	run, err := c6open(synced)
	if err != nil {
		return err
	}
	defer run.close()
	g := newC6Gen(rng.Fork())
	if clients*opsPer <= 12 {
		g.simple = true
		g.keys = g.keys[:2]
	}
	// seed content, sequentially
	seq := 0
	for _, k := range g.keys {
		if rng.Chance(60) && !g.simple {
			run.do(&c6rec{Client: -1, Kind: "set", Keys: [][]byte{k}, Vals: [][]byte{[]byte(fmt.Sprintf("i%d", seq))}})
			seq++
		}
	}
	progs := make([][]*c6rec, clients)
	for c := range progs {
		for i := 0; i < opsPer; i++ {
			progs[c] = append(progs[c], g.op(c, i, seq+clients*opsPer/2))
		}
	}
	var wg sync.WaitGroup
	var stop int32
	wg.Add(1)
	go func() { // maintenance: index flush + compaction while clients run
		defer wg.Done()
		for i := 0; atomic.LoadInt32(&stop) == 0; i++ {
			if i%3 == 2 && compaction {
				if run.compact() == nil {
					r.Count("maintenance.compactions")
				}
			} else {
				run.d.FlushIndex(&schema.FlushIndexRequest{CleanupPercentage: float32(i%4) * 25, Synced: i%2 == 0})
			}
			time.Sleep(2 * time.Millisecond)
		}
	}()
	var cw sync.WaitGroup
	for c := range progs {
		cw.Add(1)
		go func(ops []*c6rec) {
			defer cw.Done()
			for _, o := range ops {
				run.do(o)
			}
		}(progs[c])
	}
	cw.Wait()
	atomic.StoreInt32(&stop, 1)
	wg.Wait()

	recs := run.recs
	sort.Slice(recs, func(i, j int) bool { return recs[i].Call < recs[j].Call })
	replay := func() interface{} {
		var ss []string
		for _, o := range recs {
			ss = append(ss, o.String())
		}
		return map[string]interface{}{"history": name, "ops": ss}
	}
	for _, o := range recs {
		r.Count("op." + o.Kind)
		if o.Err != "" {
			cls := o.Err
			if strings.HasPrefix(cls, "other:") {
				cls = "other"
				r.Notes = append(r.Notes, name+": "+o.String())
			}
			r.Count("err." + o.Kind + "." + cls)
		}
		if len(o.Pre) > 0 {
			if o.Err == "" {
				r.Count("conditional.applied")
			} else if o.Err == "pre" {
				r.Count("conditional.rejected")
			}
		}
		if strings.HasPrefix(o.Err, "panic:") {
			r.Fail("C06:panic:database-api", o.String(), replay())
		}
	}
	m, verdicts := c6check(recs, run.log)
	r.OracleChecks += len(recs)
	flagged := map[int64]string{}
	for _, v := range verdicts {
		if v.Ret != 0 {
			flagged[v.Ret] = v.Sig
		}
	}
	sverdicts, sst := c6snapshotOracle(m, recs, flagged)
	verdicts = append(verdicts, sverdicts...)
	r.OracleChecks += sst.Checked
	r.CountN("snapshot-oracle.checked", sst.Checked)
	r.CountN("snapshot-oracle.window>1-version", sst.Nontrivial)
	r.CountN("history.multi-key-reads-with-multi-key-write-inside-window", sst.Concurrent)
	for _, v := range verdicts {
		sig := v.Sig
		if run.afterCompaction(v.Ret) {
			sig += ":index-regressed-by-compaction"
		}
		r.Fail(sig, name+": "+v.Desc, replay())
	}
	if compaction {
		r.Count("history.with-compaction")
	}
	overlap := false
	for _, a := range recs {
		for _, b := range recs {
			if a != b && a.Call < b.Call && b.Call < a.Ret && a.isWrite() {
				overlap = true
			}
		}
	}
	r.Eval(fmt.Sprintf("%s/%d", name, r.Case()), overlap)
	r.Count("history")
	if overlap {
		r.Count("history.with-overlapping-writes")
	}
	// WGL cross-check on the single-key part of small histories
	if len(recs) <= 14 {
		if ok, used := c6wglCross(recs); used {
			r.Count("wgl.cross-checked")
			if !ok && len(verdicts) == 0 {
				r.Fail("C06:linearizability:violation", name+": WGL search finds no linearization of the single-key projection", replay())
			}
		}
	}
	c6corrHistory(r, m, recs, run.log)
	if r.Case()%8 == 0 {
		return r.Flush()
	}
	return nil
}

// correspondence with the Lean model: the writes in id order (with preconditions), the reads at the version c6check assigned
func c6corrHistory(r *hx.Result, m *c6model, recs []*c6rec, log map[uint64][]c5row) {
	universe := map[string]bool{}
	for _, es := range log {
		for _, e := range es {
			universe[string(e.Key)] = true
		}
	}
	var U [][]byte
	for k := range universe {
		U = append(U, []byte(k))
	}
	r.Corr("c06 new "+hx.Csv(sortedKeys(U)), "ok")
	byID := map[uint64]*c6rec{}
	rejectedAt := map[int][]*c6rec{}
	for _, o := range recs {
		if o.isWrite() && o.Err == "" {
			byID[o.ID] = o
		} else if o.isWrite() && o.Err == "pre" && o.Ver >= 0 {
			rejectedAt[o.Ver] = append(rejectedAt[o.Ver], o)
		}
	}
	preTok := func(ps []c6pre) string {
		if len(ps) == 0 {
			return "_"
		}
		var ss []string
		for _, p := range ps {
			if p.Kind == "m" {
				ss = append(ss, fmt.Sprintf("m:%s:%d", hx.Hex(sk(p.Key)), p.Tx))
			} else {
				ss = append(ss, fmt.Sprintf("%s:%s", p.Kind, hx.Hex(sk(p.Key))))
			}
		}
		return strings.Join(ss, ",")
	}
	for id := uint64(0); id <= m.max; id++ {
		if id > 0 {
			w := byID[id]
			if w == nil {
				break
			}
			pre := w.Pre
			if len(pre) > 0 && !m.presHold(id-1, pre) {
				// applied although a precondition is false on state(id-1): c6check has reported it (applied-when-false; on the
				// unchanged tree only after an index compaction, a known finding).  The sequential model would reject the
				// write and every later id would shift, so the log is kept aligned by replaying it unconditionally.
				pre = nil
				r.Count("corr.applied-when-false-replayed-unconditionally")
			}
			r.Corr(fmt.Sprintf("c06 write %s %s", c5EntriesTok(w.Entries), preTok(pre)), fmt.Sprintf("applied %d", id))
		}
		for _, o := range rejectedAt[int(id)] {
			r.Corr(fmt.Sprintf("c06 write %s %s", c5EntriesTok(o.Entries), preTok(o.Pre)), fmt.Sprintf("rejected %d", id))
		}
	}
	for _, o := range recs {
		if o.isWrite() || o.Ver < 0 || o.Err != "" {
			if !o.isWrite() && o.Err == "nf" && o.Kind == "get" && o.Ver >= 0 && o.AtTx == 0 && o.AtRev == 0 {
				r.Corr(fmt.Sprintf("c06 read %d get %s", o.Ver, hx.Hex(sk(o.Keys[0]))), "nf")
			}
			continue
		}
		switch o.Kind {
		case "get":
			if o.AtTx == 0 && o.AtRev == 0 {
				r.Corr(fmt.Sprintf("c06 read %d get %s", o.Ver, hx.Hex(sk(o.Keys[0]))), o.Res)
			}
		case "getall":
			var ks [][]byte
			for _, k := range o.Keys {
				ks = append(ks, sk(k))
			}
			r.Corr(fmt.Sprintf("c06 read %d getall %s", o.Ver, hx.Csv(ks)), o.Res)
			// the same call through the STEP model (Mvcc/Linearize.lean: snapshot, then one lookup per key) with the index
			// advancing to the end of the call's window between the snapshot and the lookups
			r.Corr(fmt.Sprintf("c06 getall-steps %d %d %s", o.Ver, o.Hi, hx.Csv(ks)), o.Res)
		case "scan":
			if len(o.Spec.Pfx) > 0 { // prefix k: no reference keys in range
				sp := o.Spec
				seek, end := []byte(nil), []byte(nil)
				if len(sp.Seek) > 0 {
					seek = sk(sp.Seek)
				}
				if len(sp.End) > 0 {
					end = sk(sp.End)
				}
				limit := o.Limit
				if limit == 0 {
					limit = 1000
				}
				r.Corr(fmt.Sprintf("c06 read %d scan %s %s %s %s %s %s %d %d", o.Ver, hx.Hex(seek), hx.Hex(end), hx.Hex(sk(sp.Pfx)),
					b01(sp.InclSeek), b01(sp.InclEnd), b01(sp.Desc), o.Offset, limit), o.Res)
			}
		case "history":
			if o.Offset == 0 && o.Limit == 0 && !o.Desc {
				r.Corr(fmt.Sprintf("c06 read %d history %s", o.Ver, hx.Hex(sk(o.Keys[0]))), o.Res)
			}
		case "count":
			r.Corr(fmt.Sprintf("c06 read %d count %s", o.Ver, hx.Hex(sk(o.Keys[0]))), o.Res)
		}
	}
}

// ---------- the reference probe: Get through a re-pointed reference (two index reads in getAtTx/resolveValue) ----------

func runC06RefProbe(r *hx.Result, readers, gets int, budget time.Duration) error {
	r.NextCase()
	run, err := c6open(false)
	if err != nil {
		return err
	}
	defer run.close()
	run.do(&c6rec{Client: -1, Kind: "set", Keys: [][]byte{[]byte("k1")}, Vals: [][]byte{[]byte("a")}})
	run.do(&c6rec{Client: -1, Kind: "set", Keys: [][]byte{[]byte("k2")}, Vals: [][]byte{[]byte("b")}})
	run.do(&c6rec{Client: -1, Kind: "setref", Keys: [][]byte{[]byte("r0"), []byte("k1")}})
	var stop int32
	var wg sync.WaitGroup
	wg.Add(1)
	go func() {
		defer wg.Done()
		cur, other := "k1", "k2"
		for i := 0; atomic.LoadInt32(&stop) == 0; i++ {
			run.do(&c6rec{Client: 0, Kind: "setref", Keys: [][]byte{[]byte("r0"), []byte(other)}})
			run.do(&c6rec{Client: 0, Kind: "set", Keys: [][]byte{[]byte(cur)}, Vals: [][]byte{[]byte(fmt.Sprintf("v%d", i))}})
			cur, other = other, cur
		}
	}()
	deadline := time.Now().Add(budget)
	var rg sync.WaitGroup
	for c := 1; c <= readers; c++ {
		rg.Add(1)
		go func(c int) {
			defer rg.Done()
			for i := 0; i < gets && time.Now().Before(deadline); i++ {
				run.do(&c6rec{Client: c, Kind: "get", Keys: [][]byte{[]byte("r0")}})
			}
		}(c)
	}
	rg.Wait()
	atomic.StoreInt32(&stop, 1)
	wg.Wait()
	recs := run.recs
	sort.Slice(recs, func(i, j int) bool { return recs[i].Call < recs[j].Call })
	_, verdicts := c6check(recs, run.log)
	r.OracleChecks += len(recs)
	r.CountN("refprobe.gets", len(recs))
	r.Eval("refprobe", true)
	seen := map[string]bool{}
	for _, v := range verdicts {
		r.Count("refprobe.violations")
		if !seen[v.Sig] {
			seen[v.Sig] = true
			r.Fail(v.Sig, "refprobe: "+v.Desc, map[string]interface{}{"probe": "writer loops {SetReference(r0 -> other); Set(cur)}, readers loop Get(r0)", "violation": v.Desc})
		}
	}
	return nil
}

// ---------- the compaction probe: CompactIndex dumps a snapshot without the lock and then REOPENS the index from that dump;
// bulks indexed meanwhile are gone until the indexer catches up again, but WaitForIndexingUpto (watcher hub) still says "done" ----------

func runC06CompactionProbe(r *hx.Result, budget time.Duration) error {
	r.NextCase()
	run, err := c6open(false)
	if err != nil {
		return err
	}
	defer run.close()
	for i := 0; i < 40; i++ {
		o := &c6rec{Client: -1, Kind: "set"}
		for j := 0; j < 12; j++ {
			o.Keys = append(o.Keys, []byte(fmt.Sprintf("pre%04d", i*12+j)))
			o.Vals = append(o.Vals, []byte("p"))
		}
		run.do(o)
	}
	var stop int32
	var wg sync.WaitGroup
	var lastMu sync.Mutex
	lastKey, lastID := []byte(nil), uint64(0)
	for w := 0; w < 3; w++ {
		wg.Add(1)
		go func(w int) {
			defer wg.Done()
			for i := 0; atomic.LoadInt32(&stop) == 0; i++ {
				o := &c6rec{Client: w, Kind: "set", Keys: [][]byte{[]byte(fmt.Sprintf("w%d.%d", w, i%50))}, Vals: [][]byte{[]byte(fmt.Sprintf("v%d", i))}}
				run.do(o)
				if o.Err == "" {
					lastMu.Lock()
					if o.ID > lastID {
						lastKey, lastID = o.Keys[0], o.ID
					}
					lastMu.Unlock()
				}
			}
		}(w)
	}
	// observers: whatever Set has RETURNED must be visible, and a condition on it must be evaluated on it
	for c := 0; c < 4; c++ {
		wg.Add(1)
		go func(c int) {
			defer wg.Done()
			for atomic.LoadInt32(&stop) == 0 {
				lastMu.Lock()
				k, id := lastKey, lastID
				lastMu.Unlock()
				if k == nil {
					continue
				}
				run.do(&c6rec{Client: 10 + c, Kind: "get", Keys: [][]byte{k}})
				if c == 0 {
					run.do(&c6rec{Client: 10 + c, Kind: "set", Keys: [][]byte{[]byte("cond")}, Vals: [][]byte{[]byte("x")}, Pre: []c6pre{{Kind: "m", Key: k, Tx: id - 1}}})
				}
			}
		}(c)
	}
	deadline := time.Now().Add(budget)
	compactions := 0
	for time.Now().Before(deadline) {
		run.d.FlushIndex(&schema.FlushIndexRequest{CleanupPercentage: 0, Synced: false})
		if err := run.compact(); err != nil {
			r.Count("compactprobe.compact-refused")
			time.Sleep(time.Millisecond)
			continue
		}
		compactions++
	}
	atomic.StoreInt32(&stop, 1)
	wg.Wait()
	recs := run.recs
	sort.Slice(recs, func(i, j int) bool { return recs[i].Call < recs[j].Call })
	_, verdicts := c6check(recs, run.log)
	r.OracleChecks += len(recs)
	r.CountN("compactprobe.ops", len(recs))
	r.CountN("compactprobe.compactions", compactions)
	r.Eval("compactprobe", true)
	seen := map[string]bool{}
	for _, v := range verdicts {
		r.Count("compactprobe.violations")
		sig := v.Sig + ":index-regressed-by-compaction"
		if !seen[sig] {
			seen[sig] = true
			r.Fail(sig, "compactprobe: "+v.Desc, map[string]interface{}{"probe": "3 writers loop Set(w<i>.<n>); main loops {CompactIndex(); Get(last key whose Set returned); Set(cond, NotModifiedAfterTx(that key, its id-1))}", "violation": v.Desc})
		}
	}
	return nil
}

// ---------- WGL cross-check (does not use transaction ids) ----------

type wglOp struct {
	call, ret int64
	kind      string // w d r
	key       string
	val       string // written value / observed value ("" = not found)
	failed    bool   // del answered nf
}

// c6wglCross: projects a history onto its plain set/del/get operations; usable only when nothing else wrote those keys
func c6wglCross(recs []*c6rec) (ok bool, used bool) {
	var ops []wglOp
	for _, o := range recs {
		switch {
		case o.Kind == "set" && len(o.Keys) == 1 && len(o.Pre) == 0 && o.Err == "":
			ops = append(ops, wglOp{o.Call, o.Ret, "w", string(o.Keys[0]), string(o.Vals[0]), false})
		case o.Kind == "del" && len(o.Keys) == 1 && (o.Err == "" || o.Err == "nf"):
			ops = append(ops, wglOp{o.Call, o.Ret, "d", string(o.Keys[0]), "", o.Err == "nf"})
		case o.Kind == "get" && o.AtTx == 0 && o.AtRev == 0 && (o.Err == "" || o.Err == "nf") && bytes.HasPrefix(o.Keys[0], []byte("k")):
			val := ""
			if o.Err == "" {
				// "e key:tx:val:0 ref" -> val (hex of 00+value)
				f := strings.Split(strings.Fields(o.Res)[1], ":")
				val = f[2]
				val = string(c06MustUnhex(val)[1:])
			}
			ops = append(ops, wglOp{o.Call, o.Ret, "r", string(o.Keys[0]), val, false})
		case o.Kind == "del" && o.Err == "conflict":
			// no effect
		case o.Kind == "get" || o.Kind == "getall" || o.Kind == "scan" || o.Kind == "history" || o.Kind == "count" || o.Kind == "zscan":
			// other reads are ignored by the projection
		default:
			return true, false // some other writer: projection not meaningful
		}
	}
	if len(ops) == 0 || len(ops) > 16 {
		return true, false
	}
	return wglSearch(ops), true
}

// wglSearch: depth-first search over linearizations with memoisation on (done-set, state)
func wglSearch(ops []wglOp) bool {
	n := len(ops)
	memo := map[string]bool{}
	var rec func(done uint32, state map[string]string) bool
	rec = func(done uint32, state map[string]string) bool {
		if done == (uint32(1)<<uint(n))-1 {
			return true
		}
		var ks []string
		for k, v := range state {
			ks = append(ks, k+"="+v)
		}
		sort.Strings(ks)
		sig := fmt.Sprintf("%d|%s", done, strings.Join(ks, ","))
		if memo[sig] {
			return false
		}
		memo[sig] = true
		// minimal return time among the pending ops: an op can go first only if it was called before that
		minRet := int64(math.MaxInt64)
		for i := 0; i < n; i++ {
			if done&(1<<uint(i)) == 0 && ops[i].ret < minRet {
				minRet = ops[i].ret
			}
		}
		for i := 0; i < n; i++ {
			if done&(1<<uint(i)) != 0 || ops[i].call > minRet {
				continue
			}
			o := ops[i]
			cur, has := state[o.key]
			switch o.kind {
			case "w":
				old, had := state[o.key]
				state[o.key] = o.val
				if rec(done|1<<uint(i), state) {
					return true
				}
				if had {
					state[o.key] = old
				} else {
					delete(state, o.key)
				}
			case "d":
				if o.failed {
					if !has && rec(done|1<<uint(i), state) {
						return true
					}
				} else if has {
					delete(state, o.key)
					if rec(done|1<<uint(i), state) {
						return true
					}
					state[o.key] = cur
				}
			case "r":
				if (o.val == "" && !has) || (has && cur == o.val && o.val != "") {
					if rec(done|1<<uint(i), state) {
						return true
					}
				}
			}
		}
		return false
	}
	return rec(0, map[string]string{})
}

// seeded histories: both checkers must reject them (otherwise the oracle is blind)
func c6SelfTest(r *hx.Result) {
	mk := func(client int, call, ret int64, kind, key, val string, id uint64, res string, errc string) *c6rec {
		o := &c6rec{Client: client, Call: call, Ret: ret, Kind: kind, Keys: [][]byte{[]byte(key)}, Err: errc, ID: id, Res: res}
		if kind == "set" {
			o.Vals = [][]byte{[]byte(val)}
			o.Entries = specEntries(database.EncodeEntrySpec([]byte(key), nil, []byte(val)))
		}
		return o
	}
	entry := func(key, val string, tx uint64) string {
		return fmt.Sprintf("e %s:%d:%s:0 0", hx.Hex(sk([]byte(key))), tx, hx.Hex(sv([]byte(val))))
	}
	type tc struct {
		name string
		recs []*c6rec
		sig  string
	}
	tests := []tc{
		{"stale-read", []*c6rec{mk(0, 1, 2, "set", "k0", "a", 1, "", ""), mk(0, 3, 4, "set", "k0", "b", 2, "", ""), mk(1, 5, 6, "get", "k0", "", 0, entry("k0", "a", 1), "")}, "C06:read-after-write:stale"},
		{"future-read", []*c6rec{mk(0, 1, 2, "set", "k0", "a", 1, "", ""), mk(1, 3, 4, "get", "k0", "", 0, entry("k0", "b", 2), ""), mk(0, 5, 6, "set", "k0", "b", 2, "", "")}, "C06:linearizability:violation"},
		{"non-monotone-reads", []*c6rec{mk(0, 1, 2, "set", "k0", "a", 1, "", ""), mk(0, 3, 10, "set", "k0", "b", 2, "", ""), mk(1, 4, 5, "get", "k0", "", 0, entry("k0", "b", 2), ""), mk(1, 6, 7, "get", "k0", "", 0, entry("k0", "a", 1), "")}, "C06:linearizability:violation"},
		{"write-order", []*c6rec{mk(0, 1, 2, "set", "k0", "a", 2, "", ""), mk(0, 3, 4, "set", "k0", "b", 1, "", "")}, "C06:linearizability:violation"},
	}
	cond := mk(0, 3, 4, "set", "k0", "b", 2, "", "")
	cond.Pre = []c6pre{{Kind: "n", Key: []byte("k0")}}
	tests = append(tests, tc{"applied-when-false", []*c6rec{mk(0, 1, 2, "set", "k0", "a", 1, "", ""), cond}, "C06:precondition:applied-when-false"})
	rej := mk(0, 3, 4, "set", "k0", "b", 0, "", "pre")
	rej.Pre = []c6pre{{Kind: "e", Key: []byte("k0")}}
	tests = append(tests, tc{"rejected-when-true", []*c6rec{mk(0, 1, 2, "set", "k0", "a", 1, "", ""), rej}, "C06:precondition:rejected-when-true"})
	for _, t := range tests {
		log := map[uint64][]c5row{}
		for _, o := range t.recs {
			if o.isWrite() && o.Err == "" {
				log[o.ID] = o.Entries
			}
		}
		_, vs := c6check(t.recs, log)
		found := false
		for _, v := range vs {
			if v.Sig == t.sig {
				found = true
			}
		}
		r.Count("selftest.run")
		if !found {
			r.Inconclusive = append(r.Inconclusive, "oracle self-test "+t.name+" not detected")
		}
		if t.name == "stale-read" || t.name == "non-monotone-reads" || t.name == "future-read" {
			if ok, used := c6wglCross(t.recs); used && ok {
				r.Inconclusive = append(r.Inconclusive, "WGL self-test "+t.name+" not detected")
			}
		}
	}
}

// ---------- runner ----------

func runC06(r *hx.Result, rng *hx.Rng, thorough bool, replay string) error {
	r.Rule = "evaluation = one concurrent client history (3..6 goroutines, 20..70 operations) on a real pkg/database DB with index flush/compaction " +
		"running, checked for linearizability against the sequential KV model (exact, using the returned tx ids) and for the conditional-write rule; " +
		"non-trivial = the history contains writes overlapping other operations; plus group probes (c06snap.go): writers rewrite groups of 6..280 keys with one " +
		"transaction per round, readers issue every multi-key read over the groups, each answer must be the committed state after ONE tx id of its " +
		"real-time window (atomic-snapshot oracle); non-trivial = a multi-key write lies inside the window of a multi-key read"
	c6SelfTest(r)
	c6SnapSelfTest(r)
	// group probes first (multi-key reads as atomic snapshots): a wide one (oracles only) and a narrow one that is also
	// replayed through the Lean model
	wide := c6probeCfg{Name: "groupprobe-wide", K: 40 + rng.Intn(5)*60, Writers: 2, Readers: 5, Budget: 7 * time.Second, MaxOps: 2500, MaxTx: 1500}
	narrow := c6probeCfg{Name: "groupprobe-narrow", K: 6 + rng.Intn(6), Writers: 2, Readers: 4, Budget: 2 * time.Second, MaxOps: 500, MaxTx: 120, Lean: true}
	if thorough {
		wide.Budget, wide.MaxOps, wide.MaxTx = 25*time.Second, 10000, 5000
		narrow.Budget, narrow.MaxOps, narrow.MaxTx = 5*time.Second, 1200, 250
	}
	for i := 0; i < 1 || (thorough && i < 3); i++ {
		if err := runC06GroupProbe(r, rng.Fork(), wide); err != nil {
			return err
		}
		if err := runC06GroupProbe(r, rng.Fork(), narrow); err != nil {
			return err
		}
		wide.K = 40 + rng.Intn(5)*60
	}
	if os.Getenv("VH_C06_PART") == "probes" { // development aid: only the multi-key-read probes
		return r.Flush()
	}
	n := 60
	budget := 55 * time.Second
	if thorough {
		n, budget = 1500, 10*time.Minute
	}
	deadline := time.Now().Add(budget)
	for i := 0; i < n && time.Now().Before(deadline); i++ {
		clients := 3 + rng.Intn(4)
		ops := 5 + rng.Intn(9)
		if i%6 == 0 {
			clients, ops = 2+rng.Intn(2), 3+rng.Intn(2) // small histories: also WGL cross-checked
		}
		if err := runC06History(r, rng, fmt.Sprintf("hist-%d", i), clients, ops, i%5 == 4, i%2 == 0); err != nil {
			return err
		}
	}
	pb := 8 * time.Second
	if thorough {
		pb = 20 * time.Second
	}
	if err := runC06RefProbe(r, 12, 100000, pb); err != nil {
		return err
	}
	if err := runC06CompactionProbe(r, pb); err != nil {
		return err
	}
	if err := r.Flush(); err != nil {
		return err
	}
	if r.Distribution["conditional.applied"] == 0 || r.Distribution["conditional.rejected"] == 0 || r.Distribution["history.with-overlapping-writes"] == 0 {
		r.Inconclusive = append(r.Inconclusive, "generator collapse: no applied / rejected conditional writes or no overlapping writes")
	}
	r.Extra["histories_checked"] = r.Distribution["history"]
	return nil
}

func c06MustUnhex(s string) []byte {
	if s == "-" {
		return nil
	}
	b := make([]byte, len(s)/2)
	for i := range b {
		fmt.Sscanf(s[2*i:2*i+2], "%02x", &b[i])
	}
	return b
}
