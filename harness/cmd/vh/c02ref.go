package main

// C02: reference implementations (independent of the store code) and the
// model-independent history oracle.

import (
	"bytes"
	"crypto/sha256"
	"encoding/binary"
	"errors"
	"fmt"
	"io"
	"strings"
	"sync"
	"time"

	"github.com/codenotary/immudb/embedded/ahtree"
	"github.com/codenotary/immudb/embedded/htree"
	"github.com/codenotary/immudb/embedded/store"

	"verif/harness/internal/hx"
)

// ---------- reference hashing ----------

// c02Mth: RFC 6962-shaped root over the accumulated hashes (leaf = H(LeafPrefix‖alh)).
func c02Mth(alhs [][32]byte) [32]byte {
	if len(alhs) == 0 {
		return sha256.Sum256(nil)
	}
	if len(alhs) == 1 {
		b := append([]byte{ahtree.LeafPrefix}, alhs[0][:]...)
		return sha256.Sum256(b)
	}
	k := 1
	for k*2 < len(alhs) {
		k *= 2
	}
	l := c02Mth(alhs[:k])
	r := c02Mth(alhs[k:])
	b := append([]byte{ahtree.NodePrefix}, l[:]...)
	b = append(b, r[:]...)
	return sha256.Sum256(b)
}

// refRoots caches reference roots of prefixes of a fixed alh list (recomputed when the list changes).
type refRoots struct {
	alhs  [][32]byte
	roots map[int][32]byte
}

func (rr *refRoots) rootOf(alhs [][32]byte, n int) [32]byte {
	same := len(rr.alhs) >= n
	if same {
		for i := 0; i < n; i++ {
			if rr.alhs[i] != alhs[i] {
				same = false
				break
			}
		}
	}
	if !same || rr.roots == nil {
		rr.alhs = append([][32]byte{}, alhs...)
		rr.roots = map[int][32]byte{}
	} else if len(alhs) > len(rr.alhs) {
		rr.alhs = append([][32]byte{}, alhs...)
	}
	if r, ok := rr.roots[n]; ok {
		return r
	}
	r := c02Mth(alhs[:n])
	rr.roots[n] = r
	return r
}

type refEntry struct {
	key  []byte
	md   []byte // KVMetadata.Bytes()
	vlen int
	hval [32]byte
}

func refEntryDigest(version int, e refEntry) [32]byte {
	if version == 0 {
		b := append(append([]byte{}, e.key...), e.hval[:]...)
		return sha256.Sum256(b)
	}
	var b []byte
	var u16 [2]byte
	binary.BigEndian.PutUint16(u16[:], uint16(len(e.md)))
	b = append(b, u16[:]...)
	b = append(b, e.md...)
	binary.BigEndian.PutUint16(u16[:], uint16(len(e.key)))
	b = append(b, u16[:]...)
	b = append(b, e.key...)
	b = append(b, e.hval[:]...)
	return sha256.Sum256(b)
}

// refEh: bottom-up entries tree (odd node promoted).
func refEh(version int, es []refEntry) [32]byte {
	if len(es) == 0 {
		return sha256.Sum256(nil)
	}
	level := make([][32]byte, len(es))
	for i, e := range es {
		d := refEntryDigest(version, e)
		level[i] = sha256.Sum256(append([]byte{htree.LeafPrefix}, d[:]...))
	}
	for len(level) > 1 {
		var next [][32]byte
		for i := 0; i+1 < len(level); i += 2 {
			b := append([]byte{htree.NodePrefix}, level[i][:]...)
			b = append(b, level[i+1][:]...)
			next = append(next, sha256.Sum256(b))
		}
		if len(level)%2 == 1 {
			next = append(next, level[len(level)-1])
		}
		level = next
	}
	return level[0]
}

type refHdr struct {
	id, blTxID uint64
	ts         int64
	blRoot     [32]byte
	prevAlh    [32]byte
	version    int
	md         []byte
	nentries   int
	eh         [32]byte
}

func refInner(h refHdr) [32]byte {
	var b []byte
	var u64 [8]byte
	var u32 [4]byte
	var u16 [2]byte
	binary.BigEndian.PutUint64(u64[:], uint64(h.ts))
	b = append(b, u64[:]...)
	binary.BigEndian.PutUint16(u16[:], uint16(h.version))
	b = append(b, u16[:]...)
	if h.version == 0 {
		binary.BigEndian.PutUint16(u16[:], uint16(h.nentries))
		b = append(b, u16[:]...)
	} else {
		binary.BigEndian.PutUint16(u16[:], uint16(len(h.md)))
		b = append(b, u16[:]...)
		b = append(b, h.md...)
		binary.BigEndian.PutUint32(u32[:], uint32(h.nentries))
		b = append(b, u32[:]...)
	}
	b = append(b, h.eh[:]...)
	binary.BigEndian.PutUint64(u64[:], h.blTxID)
	b = append(b, u64[:]...)
	b = append(b, h.blRoot[:]...)
	return sha256.Sum256(b)
}

func refAlh(h refHdr) [32]byte {
	var b []byte
	var u64 [8]byte
	binary.BigEndian.PutUint64(u64[:], h.id)
	b = append(b, u64[:]...)
	b = append(b, h.prevAlh[:]...)
	in := refInner(h)
	b = append(b, in[:]...)
	return sha256.Sum256(b)
}

func toRefHdr(h *store.TxHeader) refHdr {
	var md []byte
	if h.Metadata != nil {
		md = h.Metadata.Bytes()
	}
	return refHdr{id: h.ID, blTxID: h.BlTxID, ts: h.Ts, blRoot: h.BlRoot, prevAlh: h.PrevAlh, version: h.Version,
		md: md, nentries: h.NEntries, eh: h.Eh}
}

// ---------- records ----------

type c02Rec struct {
	id       uint64
	hdrBytes []byte
	hdr      refHdr
	alh      [32]byte
	entries  []refEntry
	values   [][]byte
	export   []byte // first ExportTx seen (nil if never exported untruncated)
	acked    bool
}

func entryOf(e *store.TxEntry) refEntry {
	var md []byte
	if e.Metadata() != nil {
		md = e.Metadata().Bytes()
	}
	return refEntry{key: append([]byte{}, e.Key()...), md: md, vlen: e.VLen(), hval: e.HVal()}
}

func sameEntries(a, b []refEntry) bool {
	if len(a) != len(b) {
		return false
	}
	for i := range a {
		if !bytes.Equal(a[i].key, b[i].key) || !bytes.Equal(a[i].md, b[i].md) || a[i].vlen != b[i].vlen || a[i].hval != b[i].hval {
			return false
		}
	}
	return true
}

// ---------- the oracle ----------

type c02Hist struct {
	mu         sync.Mutex
	recs       []*c02Rec // index id-1: every tx ever observed committed (or acked)
	roots      refRoots
	truncBelow uint64 // values of txs with id < truncBelow may be gone
	// every TruncateUptoTx the history issued: cut point and committed frontier when it was called
	truncs []c02TruncRec
	reads      int    // whole-history re-reads
	txReads    int
}

type c02TruncRec struct{ cut, frontier uint64 }

// noteTrunc is called right BEFORE TruncateUptoTx(cut). valid: 1 <= cut <= committed frontier (any other cut
// must delete nothing, so it does not widen what may be gone).
func (h *c02Hist) noteTrunc(cut, frontier uint64, valid bool) {
	h.mu.Lock()
	defer h.mu.Unlock()
	h.truncs = append(h.truncs, c02TruncRec{cut, frontier})
	if valid && cut > h.truncBelow {
		h.truncBelow = cut
	}
}

// inflightAt: some truncation was called when tx id was not committed yet. Its values may have been in a value
// log already (they are appended before the id is assigned), invisible to TruncateUptoTx, which only looks at
// committed txs: the known weakness C14 K6 (C14:TruncateUptoTx:inflight-writer-values-deleted).
func (h *c02Hist) inflightAt(id uint64) bool {
	for _, t := range h.truncs {
		if t.frontier < id {
			return true
		}
	}
	return false
}

// exportForm classifies the trailing "truncated" flag of an exported tx (1 = values replaced by nothing, digests only).
func exportTruncated(b []byte) bool { return len(b) >= 3 && b[len(b)-3] == 0 && b[len(b)-2] == 1 && b[len(b)-1] == 1 }

var errHang = errors.New("hang")

func withTimeout(d time.Duration, f func() error) error {
	ch := make(chan error, 1)
	go func() { ch <- f() }()
	select {
	case e := <-ch:
		return e
	case <-time.After(d):
		return errHang
	}
}

// verify re-reads the WHOLE committed history and checks it against the records.
// upTo = 0: use CommittedAlh(). allowGrow: new (unrecorded) txs may appear.
func (h *c02Hist) verify(r *hx.Result, st *store.ImmuStore, cfg *c02Cfg, replay func() interface{}, where string) (n uint64) {
	h.mu.Lock()
	defer h.mu.Unlock()
	h.reads++
	fail := func(sig, desc string) {
		if strings.Contains(desc, ": key not found") {
			// cache.ErrKeyNotFound leaking out of multiapp.appendableFor (chunk-file cache raced by eviction /
			// prefetch): a committed tx is transiently unreadable; re-reading succeeds. Own signature.
			sig = "C02:history:transient-read-error-key-not-found"
		}
		r.Fail(sig, fmt.Sprintf("[%s] %s", where, desc), replay())
	}
	defer func() {
		if e := recover(); e != nil {
			fail("C02:history:panic", fmt.Sprint(e))
		}
	}()
	cid, calh := st.CommittedAlh()
	n = cid
	r.OracleChecks++
	if int(n) < len(h.recs) {
		// every recorded tx was seen committed or acked as committed: the frontier may never fall behind
		committedSeen := 0
		for _, rc := range h.recs {
			if rc != nil {
				committedSeen++
			}
		}
		if int(n) < committedSeen {
			fail("C02:history:committed-shrunk", fmt.Sprintf("committed id %d < %d txs previously observed committed", n, committedSeen))
		}
	}
	tx := store.NewTx(cfg.maxTxEntries+1, cfg.maxKeyLen)
	alhs := make([][32]byte, 0, n)
	emptyAlh := sha256.Sum256(nil)
	for id := uint64(1); id <= n; id++ {
		h.txReads++
		err := st.ReadTx(id, false, tx)
		if err != nil {
			fail("C02:history:id-gap", fmt.Sprintf("ReadTx(%d) with committed=%d: %v", id, n, err))
			return
		}
		hdr := tx.Header()
		if hdr.ID != id {
			fail("C02:history:id-gap", fmt.Sprintf("ReadTx(%d) returned tx %d", id, hdr.ID))
			return
		}
		hb, err := hdr.Bytes()
		if err != nil {
			fail("C02:history:header-unserialisable", fmt.Sprintf("tx %d: %v", id, err))
			return
		}
		rh := toRefHdr(hdr)
		alh := refAlh(rh)
		if alh != hdr.Alh() {
			fail("C02:history:alh-reference-mismatch", fmt.Sprintf("tx %d: Alh() differs from the reference computation", id))
		}
		es := make([]refEntry, 0, len(tx.Entries()))
		vals := make([][]byte, 0, len(tx.Entries()))
		valErr, belowGone := false, false
		for _, e := range tx.Entries() {
			es = append(es, entryOf(e))
			v, verr := st.ReadValue(e)
			if verr != nil {
				if id < h.truncBelow {
					// below the largest cut the value may be gone, in the documented form only: io.EOF
					if !errors.Is(verr, io.EOF) {
						fail("C02:history:truncated-value-wrong-error", fmt.Sprintf("tx %d (below the cut %d) key %x: ReadValue: %v", id, h.truncBelow, e.Key(), verr))
					}
					vals = append(vals, nil)
					belowGone = true
					continue
				}
				// at or after every cut. Never readable since it was first seen committed AND a truncation was called
				// while it was still in flight: C14's known K6; anything else: a committed value was lost
				var rc0 *c02Rec
				if int(id) <= len(h.recs) {
					rc0 = h.recs[id-1]
				}
				ei := len(vals)
				neverReadable := rc0 == nil || (ei < len(rc0.values) && rc0.values[ei] == nil)
				if neverReadable && h.inflightAt(id) && errors.Is(verr, io.EOF) {
					fail(c02SigInflight, fmt.Sprintf("tx %d key %x: %v (its values were in a value log, its id not yet committed, when TruncateUptoTx ran; cuts so far %v)", id, e.Key(), verr, h.truncs))
				} else {
					fail("C02:history:value-unreadable", fmt.Sprintf("tx %d key %x (largest cut so far %d, value-log location %d): %v", id, e.Key(), h.truncBelow, e.VOff(), verr))
				}
				vals = append(vals, nil)
				valErr = true
				continue
			}
			if sha256.Sum256(v) != e.HVal() || len(v) != e.VLen() {
				fail("C02:history:value-hash-mismatch", fmt.Sprintf("tx %d key %x", id, e.Key()))
			}
			vals = append(vals, append([]byte{}, v...))
		}
		if refEh(hdr.Version, es) != hdr.Eh {
			fail("C02:history:eh-wrong", fmt.Sprintf("tx %d: Eh is not the reference entries root", id))
		}
		// chain
		prev := emptyAlh
		if id > 1 {
			prev = alhs[id-2]
		}
		if hdr.PrevAlh != prev {
			fail("C02:history:chain-broken", fmt.Sprintf("tx %d: PrevAlh is not Alh(tx %d)", id, id-1))
		}
		// binary linking
		if hdr.BlTxID >= id {
			fail("C02:history:blroot-wrong", fmt.Sprintf("tx %d: BlTxID %d >= id", id, hdr.BlTxID))
		} else if hdr.BlTxID == 0 {
			if hdr.BlRoot != ([32]byte{}) {
				fail("C02:history:bltxid0-nonzero-blroot", fmt.Sprintf("tx %d: BlTxID 0 with non-zero BlRoot %x…", id, hdr.BlRoot[:6]))
			}
		} else if hdr.BlRoot != h.roots.rootOf(alhs, int(hdr.BlTxID)) {
			fail("C02:history:blroot-wrong", fmt.Sprintf("tx %d: BlRoot is not the reference root over Alh(1..%d)", id, hdr.BlTxID))
		}
		alhs = append(alhs, alh)

		// second reader: ReadTxHeader
		h2, err := st.ReadTxHeader(id, false, false)
		if err != nil {
			fail("C02:history:header-unreadable", fmt.Sprintf("ReadTxHeader(%d): %v", id, err))
		} else if b2, _ := h2.Bytes(); !bytes.Equal(b2, hb) {
			fail("C02:history:readers-disagree", fmt.Sprintf("ReadTxHeader(%d) differs from ReadTx", id))
		}
		// third reader: ExportTx. At or after every cut: all values. Below the largest cut the values may be gone, but then
		// in one of the documented forms only: every value replaced by its digest + the "truncated" flag, or the
		// refusal "partially truncated transaction" — never other bytes, never a block.
		var exp []byte
		if !valErr {
			below := id < h.truncBelow
			etx := store.NewTx(cfg.maxTxEntries+1, cfg.maxKeyLen)
			eerr := withTimeout(20*time.Second, func() error {
				var e error
				exp, e = st.ExportTx(id, false, false, etx)
				return e
			})
			if eerr != nil {
				exp = nil
				if below && eerr != errHang && errors.Is(eerr, store.ErrCorruptedData) && strings.Contains(eerr.Error(), "partially truncated") {
					r.Count("export.below-cut.partially-truncated")
				} else {
					fail("C02:history:export-failed", fmt.Sprintf("ExportTx(%d) (largest cut %d): %v", id, h.truncBelow, eerr))
				}
			} else if eh, ees, evals, perr := parseExport(exp); perr != nil {
				fail("C02:history:export-unparsable", fmt.Sprintf("ExportTx(%d): %v", id, perr))
			} else {
				if !bytes.Equal(eh, hb) {
					fail("C02:history:readers-disagree", fmt.Sprintf("ExportTx(%d) header differs from ReadTx", id))
				}
				digests := exportTruncated(exp)
				if digests && !below {
					fail("C02:history:export-without-values", fmt.Sprintf("ExportTx(%d) (largest cut %d) ships digests instead of values", id, h.truncBelow))
				}
				ok := len(ees) == len(es)
				for i := 0; ok && i < len(es); i++ {
					if !bytes.Equal(ees[i].key, es[i].key) || !bytes.Equal(ees[i].md, es[i].md) {
						ok = false
					} else if digests {
						ok = bytes.Equal(evals[i], es[i].hval[:])
					} else if vals[i] != nil {
						ok = bytes.Equal(evals[i], vals[i])
					} else {
						// ReadValue said "gone" (below the cut) and ExportTx still ships a value: it must be THE value
						ok = belowGone && sha256.Sum256(evals[i]) == es[i].hval && len(evals[i]) == es[i].vlen
					}
				}
				if !ok {
					fail("C02:history:readers-disagree", fmt.Sprintf("ExportTx(%d) entries differ from ReadTx (digest form=%v)", id, digests))
				}
				if digests {
					r.Count("export.below-cut.digests")
					exp = nil // not THE export of the tx: nothing to record or to compare with the first export
				} else if below {
					r.Count("export.below-cut.values")
				}
			}
		}

		// immutability against the record
		if int(id) <= len(h.recs) && h.recs[id-1] != nil {
			rc := h.recs[id-1]
			if !bytes.Equal(rc.hdrBytes, hb) || rc.alh != alh || !sameEntries(rc.entries, es) {
				fail("C02:history:acked-tx-changed", fmt.Sprintf("tx %d differs from the record taken when it was first reported committed (acked=%v)", id, rc.acked))
			} else {
				for i := range vals {
					if vals[i] == nil && id < h.truncBelow {
						continue
					}
					if rc.values[i] != nil && !bytes.Equal(rc.values[i], vals[i]) {
						fail("C02:history:acked-tx-changed", fmt.Sprintf("tx %d value %d differs from the record", id, i))
					}
				}
				if rc.export != nil && exp != nil && !bytes.Equal(rc.export, exp) {
					fail("C02:history:acked-tx-changed", fmt.Sprintf("ExportTx(%d) differs from the first export", id))
				}
				if rc.export == nil && exp != nil {
					rc.export = exp
				}
			}
		} else {
			for int(id) > len(h.recs) {
				h.recs = append(h.recs, nil)
			}
			h.recs[id-1] = &c02Rec{id: id, hdrBytes: hb, hdr: rh, alh: alh, entries: es, values: vals, export: exp}
		}
	}
	// nothing beyond the frontier (not while writers are running)
	if err := st.ReadTx(n+1, false, tx); !errors.Is(err, store.ErrTxNotFound) && where != "concurrent-midway" {
		fail("C02:history:tx-beyond-frontier", fmt.Sprintf("ReadTx(%d) with committed=%d: %v", n+1, n, err))
	}
	// reported state
	want := emptyAlh
	if n > 0 {
		want = alhs[n-1]
	}
	if calh != want {
		fail("C02:state:not-last-committed", fmt.Sprintf("CommittedAlh()=(%d,%x…) is not Alh of tx %d", cid, calh[:4], n))
	}
	// TxReader ascending and descending
	if n > 0 {
		for _, desc := range []bool{false, true} {
			start := uint64(1)
			if desc {
				start = n
			}
			rd, err := st.NewTxReader(start, desc, tx)
			if err != nil {
				fail("C02:history:txreader", fmt.Sprintf("NewTxReader: %v", err))
				continue
			}
			cnt := uint64(0)
			for {
				t, err := rd.Read()
				if errors.Is(err, store.ErrNoMoreEntries) {
					break
				}
				if err != nil {
					fail("C02:history:txreader", fmt.Sprintf("TxReader(desc=%v) after %d txs: %v", desc, cnt, err))
					cnt = n // reported already
					break
				}
				want := start + cnt
				if desc {
					want = start - cnt
				}
				cnt++
				hb, _ := t.Header().Bytes()
				if t.Header().ID != want || want > n {
					if want > n && !desc {
						// a tx committed while we were reading (concurrent runs only)
						break
					}
					fail("C02:history:id-gap", fmt.Sprintf("TxReader(desc=%v) position %d returned tx %d", desc, cnt, t.Header().ID))
					break
				}
				rc := h.recs[want-1]
				es := make([]refEntry, 0, len(t.Entries()))
				for _, e := range t.Entries() {
					es = append(es, entryOf(e))
				}
				if !bytes.Equal(rc.hdrBytes, hb) || !sameEntries(rc.entries, es) {
					fail("C02:history:acked-tx-changed", fmt.Sprintf("TxReader(desc=%v) tx %d differs from the record", desc, want))
				}
			}
			if cnt < n {
				fail("C02:history:id-gap", fmt.Sprintf("TxReader(desc=%v) returned %d of %d txs", desc, cnt, n))
			}
		}
	}
	return n
}

// ack records what Commit returned; the committed history must contain exactly this tx at this id.
func (h *c02Hist) ack(r *hx.Result, hdr *store.TxHeader, committedNow uint64, replay func() interface{}) {
	h.mu.Lock()
	defer h.mu.Unlock()
	r.OracleChecks++
	if hdr.ID > committedNow {
		r.Fail("C02:ack:not-committed", fmt.Sprintf("commit of tx %d returned while the committed id is %d", hdr.ID, committedNow), replay())
	}
	hb, err := hdr.Bytes()
	if err != nil {
		return
	}
	if int(hdr.ID) <= len(h.recs) && h.recs[hdr.ID-1] != nil {
		rc := h.recs[hdr.ID-1]
		if !bytes.Equal(rc.hdrBytes, hb) {
			r.Fail("C02:ack:acked-header-differs-from-committed", fmt.Sprintf("commit returned header of tx %d that differs from the committed tx %d", hdr.ID, hdr.ID), replay())
		}
		rc.acked = true
	}
}

// ---------- exported tx: own encoder/decoder ----------

func parseExport(b []byte) (hdr []byte, es []refEntry, vals [][]byte, err error) {
	i := 0
	need := func(n int) bool { return len(b) >= i+n }
	if !need(4) {
		return nil, nil, nil, errors.New("short")
	}
	hl := int(binary.BigEndian.Uint32(b[i:]))
	i += 4
	if !need(hl) {
		return nil, nil, nil, errors.New("short header")
	}
	hdr = b[i : i+hl]
	i += hl
	h := &store.TxHeader{}
	if err := h.ReadFrom(hdr); err != nil {
		return nil, nil, nil, err
	}
	for e := 0; e < h.NEntries; e++ {
		if !need(2) {
			return nil, nil, nil, errors.New("short klen")
		}
		kl := int(binary.BigEndian.Uint16(b[i:]))
		i += 2
		if !need(kl + 2) {
			return nil, nil, nil, errors.New("short key")
		}
		key := b[i : i+kl]
		i += kl
		ml := int(binary.BigEndian.Uint16(b[i:]))
		i += 2
		if !need(ml + 4) {
			return nil, nil, nil, errors.New("short md")
		}
		md := b[i : i+ml]
		i += ml
		vl := int(binary.BigEndian.Uint32(b[i:]))
		i += 4
		if !need(vl) {
			return nil, nil, nil, errors.New("short value")
		}
		v := b[i : i+vl]
		i += vl
		es = append(es, refEntry{key: key, md: md, vlen: vl, hval: sha256.Sum256(v)})
		vals = append(vals, v)
	}
	if need(2) {
		tl := int(binary.BigEndian.Uint16(b[i:]))
		i += 2 + tl
	}
	if i != len(b) {
		return nil, nil, nil, errors.New("trailing bytes")
	}
	return hdr, es, vals, nil
}

type expEntry struct {
	key, md, value []byte
}

func buildExport(hdrBytes []byte, es []expEntry) []byte {
	var b []byte
	var u32 [4]byte
	var u16 [2]byte
	binary.BigEndian.PutUint32(u32[:], uint32(len(hdrBytes)))
	b = append(b, u32[:]...)
	b = append(b, hdrBytes...)
	for _, e := range es {
		binary.BigEndian.PutUint16(u16[:], uint16(len(e.key)))
		b = append(b, u16[:]...)
		b = append(b, e.key...)
		binary.BigEndian.PutUint16(u16[:], uint16(len(e.md)))
		b = append(b, u16[:]...)
		b = append(b, e.md...)
		binary.BigEndian.PutUint32(u32[:], uint32(len(e.value)))
		b = append(b, u32[:]...)
		b = append(b, e.value...)
	}
	binary.BigEndian.PutUint16(u16[:], 1)
	b = append(b, u16[:]...)
	b = append(b, 0)
	return b
}
