package main

// C19 — document collections store and find documents faithfully.
//
// The REAL document layer (stage 1: embedded/document.Engine on a store; stage 2: the pkg/database document
// API incl. ProofDocument + verification.VerifyDocument) is driven with generated schemas, documents,
// insert/replace/delete histories, schema changes and queries.  Every case keeps a pair of collections:
// "c" with the generated indexes and its twin "t" with no secondary index; both receive the same operations.
// ORACLE (c19_oracle.go): an in-memory list of documents with their revisions and a Go interpreter of the
// query language on the typed view.  The same operations (restricted to the Lean fragment) are replayed on
// the Lean model (lean/ImmuModel/Doc/Doc.lean via lean/Driver/C19.lean) and must give the same id lists.

import (
	"fmt"
	"math"
	"os"
	"runtime/pprof"
	"sort"
	"strings"
	"time"

	"github.com/codenotary/immudb/pkg/api/protomodel"
	"github.com/codenotary/immudb/pkg/api/schema"
	"google.golang.org/protobuf/proto"
	"google.golang.org/protobuf/types/known/structpb"

	"verif/harness/internal/hx"
)

func init() { runners["C19"] = runC19 }

var c19Timing = map[string]time.Duration{}

type c19Replay struct {
	Stage  string   `json:"stage"`
	Case   int      `json:"case"`
	Detail string   `json:"detail,omitempty"`
	Ops    []string `json:"ops"`
}

type c19Case struct {
	r     *hx.Result
	rng   *hx.Rng
	api   c19API
	id    int
	C, T  *c19Coll
	pair  map[string]string // id in c -> id in t
	twin  bool              // twins still in lock-step
	kNext int
	epoch int
	ops   []string
	lean  bool // schema inside the Lean fragment
	known *schema.ImmutableState
	noSync bool // probes of the stale-snapshot findings
	dense  bool // case with a composite index for sure and bulk batches of documents over small value domains (c19_ixq.go)
	wantComposite bool
	pf    *c19PF // document proofs: accumulated hashes learnt from the server's honest answers (c19_forge.go)
}

func (cs *c19Case) log(f string, a ...interface{}) {
	s := fmt.Sprintf(f, a...)
	if len(s) > 1500 {
		s = s[:1500] + "…"
	}
	cs.ops = append(cs.ops, s)
}

// unique-index disagreements: the first one per collection is reported, the followers are counted
func (cs *c19Case) failUnique(c *c19Coll, sig, desc string) {
	if c.UniqueBroken {
		cs.r.Count("unique.follow-up-after-reported-misbehaviour")
		return
	}
	c.UniqueBroken = true
	cs.fail(sig, desc)
}

func (cs *c19Case) fail(sig, desc string) {
	ops := cs.ops
	if len(ops) > 120 {
		ops = ops[len(ops)-120:]
	}
	cs.r.Fail(sig, desc, c19Replay{Stage: cs.api.Stage(), Case: cs.id, Detail: desc, Ops: append([]string{}, ops...)})
}

func (cs *c19Case) corr(op, impl string) {
	if cs.lean {
		cs.r.Corr(op, impl)
	}
}

// ---------------- generators ----------------

var c19FieldPool = []c19Field{
	{Name: "s1", Type: protomodel.FieldType_STRING}, {Name: "s2", Type: protomodel.FieldType_STRING},
	{Name: "b1", Type: protomodel.FieldType_BOOLEAN},
	{Name: "n1", Type: protomodel.FieldType_INTEGER}, {Name: "n2", Type: protomodel.FieldType_INTEGER},
	{Name: "d1", Type: protomodel.FieldType_DOUBLE}, {Name: "d2", Type: protomodel.FieldType_DOUBLE},
	{Name: "u1", Type: protomodel.FieldType_UUID},
	{Name: "address.city", Type: protomodel.FieldType_STRING}, {Name: "address.zip", Type: protomodel.FieldType_INTEGER},
	{Name: "a.b.c", Type: protomodel.FieldType_DOUBLE}, {Name: "a.b.c.d", Type: protomodel.FieldType_INTEGER},
}

var c19Numbers = []float64{0, math.Copysign(0, -1), 1, -1, 2, 3, 4, 5, 2.5, 2.7, -2.7, 0.5, -0.5, 7, 10, 100,
	9007199254740991, 9007199254740992, 9007199254740994, -9007199254740991, -9007199254740992,
	9223372036854775807, 9223372036854774784, -9223372036854775808, -9223372036854777856, 1e19, -1e19,
	1e308, -1e308, 5e-324, 1.7976931348623157e308, 4294967296, -2147483649, 0.1, 1e-7}

func c19LongStr(n int, unit string) string {
	var sb strings.Builder
	for sb.Len()+len(unit) <= n {
		sb.WriteString(unit)
	}
	return sb.String()
}

var c19Strings = []string{"", "a", "ab", "abc", "abd", "b", "A", "B", "é", "ée", "日本", "日本語", "a\nb", "a%b", "a_b", "a\\b", "\\",
	"%", "_", "a\x00", "a\x00b", "😀", "z", "Zürich", "ab c", " ", "0", "10", "9", "a.b", "(x)", "x+y", "[a]", "^a$", "a|b"}

var c19UUIDs = []string{"00000000-0000-0000-0000-000000000000", "6ba7b810-9dad-11d1-80b4-00c04fd430c8", "6BA7B810-9DAD-11D1-80B4-00C04FD430C8",
	"urn:uuid:6ba7b811-9dad-11d1-80b4-00c04fd430c8", "{6ba7b812-9dad-11d1-80b4-00c04fd430c8}", "6ba7b8139dad11d180b400c04fd430c8",
	"ffffffff-ffff-ffff-ffff-ffffffffffff", "00000000-0000-0000-0000-000000000001", "7fffffff-ffff-ffff-ffff-ffffffffffff", "80000000-0000-0000-0000-000000000000"}

var c19BadUUIDs = []string{"", "x", "6ba7b810-9dad-11d1-80b4-00c04fd430c", "6ba7b810-9dad-11d1-80b4-00c04fd430c8-", "zzzzzzzz-zzzz-zzzz-zzzz-zzzzzzzzzzzz"}

func (cs *c19Case) genNumber() float64 {
	rng := cs.rng
	switch rng.Intn(10) {
	case 0, 1, 2, 3:
		return float64(rng.Intn(6))
	case 4:
		return float64(rng.Intn(2000)-1000) / 4
	case 5:
		if rng.Chance(8) {
			if rng.Bool() {
				return math.Inf(1)
			}
			return math.Inf(-1)
		}
		return float64(int64(rng.U64()>>12)) * 7
	default:
		return c19Numbers[rng.Intn(len(c19Numbers))]
	}
}

func (cs *c19Case) genString() string {
	rng := cs.rng
	switch rng.Intn(12) {
	case 0:
		return c19LongStr(c19MaxStr-rng.Intn(2), "a")
	case 1:
		if rng.Chance(40) {
			return c19LongStr(c19MaxStr+1+rng.Intn(3), "a") // one byte too long
		}
		return c19LongStr(c19MaxStr, "é") // 512 bytes, 256 characters
	case 2:
		if rng.Chance(30) {
			return c19LongStr(600, "é") // 300 characters but 600 bytes
		}
		return c19LongStr(rng.Size(400), "xy")
	default:
		return c19Strings[rng.Intn(len(c19Strings))]
	}
}

func (cs *c19Case) genTyped(t protomodel.FieldType) *structpb.Value {
	rng := cs.rng
	switch t {
	case protomodel.FieldType_STRING:
		return structpb.NewStringValue(cs.genString())
	case protomodel.FieldType_BOOLEAN:
		return structpb.NewBoolValue(rng.Bool())
	case protomodel.FieldType_INTEGER, protomodel.FieldType_DOUBLE:
		return structpb.NewNumberValue(cs.genNumber())
	case protomodel.FieldType_UUID:
		if rng.Chance(6) {
			return structpb.NewStringValue(c19BadUUIDs[rng.Intn(len(c19BadUUIDs))])
		}
		return structpb.NewStringValue(c19UUIDs[rng.Intn(len(c19UUIDs))])
	}
	return structpb.NewNullValue()
}

func (cs *c19Case) genAny(depth int) *structpb.Value {
	rng := cs.rng
	k := rng.Intn(8)
	if depth <= 0 && k >= 6 {
		k = rng.Intn(6)
	}
	switch k {
	case 0:
		return structpb.NewNullValue()
	case 1:
		return structpb.NewBoolValue(rng.Bool())
	case 2, 3:
		return structpb.NewNumberValue(cs.genNumber())
	case 4, 5:
		return structpb.NewStringValue(c19Strings[rng.Intn(len(c19Strings))])
	case 6:
		n := rng.Intn(4)
		l := &structpb.ListValue{}
		for i := 0; i < n; i++ {
			l.Values = append(l.Values, cs.genAny(depth-1))
		}
		return structpb.NewListValue(l)
	default:
		n := rng.Intn(4)
		s := &structpb.Struct{Fields: map[string]*structpb.Value{}}
		for i := 0; i < n; i++ {
			s.Fields[c19Strings[rng.Intn(len(c19Strings))]] = cs.genAny(depth - 1)
		}
		return structpb.NewStructValue(s)
	}
}

func c19WrongType(rng *hx.Rng, t protomodel.FieldType) *structpb.Value {
	switch t {
	case protomodel.FieldType_STRING, protomodel.FieldType_UUID:
		if rng.Bool() {
			return structpb.NewNumberValue(5)
		}
		return structpb.NewBoolValue(true)
	case protomodel.FieldType_BOOLEAN:
		return structpb.NewStringValue("true")
	default:
		switch rng.Intn(3) {
		case 0:
			return structpb.NewStringValue("5")
		case 1:
			return structpb.NewListValue(&structpb.ListValue{Values: []*structpb.Value{structpb.NewNumberValue(1)}})
		}
		return structpb.NewStructValue(&structpb.Struct{Fields: map[string]*structpb.Value{}})
	}
}

// set doc[path] = v with the engine's path rule (SplitN 3)
func c19SetPath(doc *structpb.Struct, path string, v *structpb.Value) {
	parts := strings.SplitN(path, ".", c19MaxNested)
	cur := doc
	for i, p := range parts {
		if i == len(parts)-1 {
			cur.Fields[p] = v
			return
		}
		nx, ok := cur.Fields[p]
		if !ok || nx.GetStructValue() == nil {
			nx = structpb.NewStructValue(&structpb.Struct{Fields: map[string]*structpb.Value{}})
			cur.Fields[p] = nx
		}
		cur = nx.GetStructValue()
	}
}

func (cs *c19Case) genDoc(withK bool) *structpb.Struct {
	rng := cs.rng
	doc := &structpb.Struct{Fields: map[string]*structpb.Value{}}
	for _, f := range cs.C.Schema.Fields {
		if f.Name == "k" {
			continue
		}
		switch p := rng.Intn(100); {
		case p < 12: // missing
			cs.r.Count("doc.field.missing")
		case p < 20:
			c19SetPath(doc, f.Name, structpb.NewNullValue())
			cs.r.Count("doc.field.null")
		case p < 23:
			c19SetPath(doc, f.Name, c19WrongType(rng, f.Type))
			cs.r.Count("doc.field.wrong-type")
		default:
			c19SetPath(doc, f.Name, cs.genTyped(f.Type))
		}
	}
	if rng.Chance(6) {
		// an intermediate of a nested path that is not an object: the nested fields do not exist
		for _, f := range cs.C.Schema.Fields {
			if i := strings.IndexByte(f.Name, '.'); i > 0 && rng.Bool() {
				doc.Fields[f.Name[:i]] = structpb.NewStringValue("not-an-object")
				cs.r.Count("doc.nested.intermediate-not-object")
				break
			}
		}
	}
	if withK {
		cs.kNext++
		kv := float64(cs.kNext)
		if rng.Chance(5) {
			kv += 0.5 // truncated by the INTEGER conversion
		}
		doc.Fields["k"] = structpb.NewNumberValue(kv)
	}
	// fields outside the schema
	for n := rng.Intn(4); n > 0; n-- {
		keys := []string{"x", "tags", "weird key é", "a.b", "n1.x", "meta", "", "_x", "日本"}
		doc.Fields[keys[rng.Intn(len(keys))]] = cs.genAny(3)
	}
	return doc
}

func (cs *c19Case) genSchema() {
	rng := cs.rng
	fields := []c19Field{{Name: "k", Type: protomodel.FieldType_INTEGER}}
	perm := make([]int, len(c19FieldPool))
	for i := range perm {
		perm[i] = i
	}
	for i := len(perm) - 1; i > 0; i-- {
		j := rng.Intn(i + 1)
		perm[i], perm[j] = perm[j], perm[i]
	}
	n := 2 + rng.Intn(5)
	noUUID := rng.Chance(70)
	for _, pi := range perm {
		if len(fields) > n {
			break
		}
		f := c19FieldPool[pi]
		if noUUID && f.Type == protomodel.FieldType_UUID {
			continue
		}
		fields = append(fields, f)
	}
	cs.C.Schema.Fields = append([]c19Field{}, fields...)
	cs.T.Schema.Fields = append([]c19Field{}, fields...)
	// indexes of c
	ni := rng.Intn(4)
	if cs.dense {
		// a composite index for sure, first in creation order or not
		cs.wantComposite = true
		for try := 0; try < 8 && len(cs.C.Indexes) == 0; try++ {
			if ix := cs.genIndex(); ix != nil && len(ix.Fields) > 1 {
				cs.C.Indexes = append(cs.C.Indexes, *ix)
			}
		}
		cs.wantComposite = false
	}
	for i := 0; i < ni; i++ {
		ix := cs.genIndex()
		if ix != nil {
			if rng.Bool() {
				cs.C.Indexes = append(cs.C.Indexes, *ix)
			} else {
				cs.C.Indexes = append([]c19Index{*ix}, cs.C.Indexes...)
			}
		}
	}
}

func (cs *c19Case) hasIndex(fields []string) bool {
	for _, ix := range cs.C.Indexes {
		if strings.Join(ix.Fields, ",") == strings.Join(fields, ",") {
			return true
		}
	}
	return false
}

func (cs *c19Case) genIndex() *c19Index {
	rng := cs.rng
	fs := cs.C.Schema.Fields
	f1 := fs[rng.Intn(len(fs))]
	ix := &c19Index{Fields: []string{f1.Name}}
	if rng.Chance(45) || cs.wantComposite {
		// composite: two fields, sometimes three; at most one STRING field (two VARCHAR[512] exceed the key length)
		nstr := 0
		if f1.Type == protomodel.FieldType_STRING {
			nstr = 1
		}
		want := 2
		if rng.Chance(20) {
			want = 3
		}
		for try := 0; try < 6 && len(ix.Fields) < want; try++ {
			f2 := fs[rng.Intn(len(fs))]
			dup := false
			for _, n := range ix.Fields {
				dup = dup || n == f2.Name
			}
			if dup || (f2.Type == protomodel.FieldType_STRING && nstr > 0) {
				continue
			}
			if f2.Type == protomodel.FieldType_STRING {
				nstr++
			}
			ix.Fields = append(ix.Fields, f2.Name)
		}
	}
	if cs.hasIndex(ix.Fields) {
		return nil
	}
	// no two indexes with the same leading field: syncIndexes must be able to make the planner read each index
	// (ORDER BY its columns); with a shared prefix the planner may always pick the other one
	for _, o := range cs.C.Indexes {
		if o.Fields[0] == ix.Fields[0] {
			return nil
		}
	}
	ix.Unique = rng.Chance(30)
	if cs.wantComposite && len(ix.Fields) > 1 {
		ix.Unique = rng.Chance(10)
	}
	return ix
}

func c19ProtoFields(fs []c19Field) []*protomodel.Field {
	var out []*protomodel.Field
	for _, f := range fs {
		out = append(out, &protomodel.Field{Name: f.Name, Type: f.Type})
	}
	return out
}

// values of a field among the stored documents (to make queries hit)
func (cs *c19Case) existingValue(c *c19Coll, field string) *structpb.Value {
	if len(c.Docs) == 0 {
		return nil
	}
	d := c.Docs[cs.rng.Intn(len(c.Docs))]
	if field == "_id" {
		return structpb.NewStringValue(d.ID)
	}
	for i := len(d.Revs) - 1; i >= 0; i-- {
		if d.Revs[i].Doc != nil {
			return c19Lookup(d.Revs[i].Doc, field)
		}
	}
	return nil
}

var c19CmpOps = []protomodel.ComparisonOperator{protomodel.ComparisonOperator_EQ, protomodel.ComparisonOperator_NE, protomodel.ComparisonOperator_LT,
	protomodel.ComparisonOperator_LE, protomodel.ComparisonOperator_GT, protomodel.ComparisonOperator_GE}

var c19LikePats = []string{"%", "a%", "%b", "%a%", "_", "a_", "a_b", "a\\%b", "a\\_b", "é", "é%", "%é", "日本%", "_本", "a%b", "", "abc", "%\n%", "a.b", "(x)", "x+y", "[a]", "^a$", "a|b", "%😀%", "\\", "a\\\\b", "_%_"}

func (cs *c19Case) genComparison(c *c19Coll) *protomodel.FieldComparison {
	rng := cs.rng
	fs := c.Schema.Fields
	var f c19Field
	switch p := rng.Intn(100); {
	case p < 4:
		f = c19Field{Name: "nosuch", Type: protomodel.FieldType_STRING}
		cs.r.Count("query.field.unknown")
	case p < 10:
		f = c19Field{Name: "_id", Type: c19TypeID}
	default:
		f = fs[rng.Intn(len(fs))]
	}
	fc := &protomodel.FieldComparison{Field: f.Name}
	if f.Type == protomodel.FieldType_STRING && rng.Chance(30) {
		fc.Operator = protomodel.ComparisonOperator_LIKE
		if rng.Bool() {
			fc.Operator = protomodel.ComparisonOperator_NOT_LIKE
		}
		pat := c19LikePats[rng.Intn(len(c19LikePats))]
		if rng.Chance(30) {
			if v := cs.existingValue(c, f.Name); v != nil {
				if s, ok := v.GetKind().(*structpb.Value_StringValue); ok && len(s.StringValue) < 40 {
					pat = s.StringValue
					if rng.Bool() && len(pat) > 0 {
						pat = pat[:1] + "%"
					}
				}
			}
		}
		fc.Value = structpb.NewStringValue(pat)
		return fc
	}
	if rng.Chance(2) {
		// LIKE on a non-string column / null pattern: evaluation error at run time
		fc.Operator = protomodel.ComparisonOperator_LIKE
		fc.Value = structpb.NewNullValue()
		if f.Type != protomodel.FieldType_STRING && f.Type != c19TypeID && f.Type != protomodel.FieldType_UUID {
			fc.Value = cs.genTyped(f.Type)
		}
		return fc
	}
	fc.Operator = c19CmpOps[rng.Intn(len(c19CmpOps))]
	switch p := rng.Intn(100); {
	case p < 55:
		fc.Value = cs.existingValue(c, f.Name)
		if fc.Value != nil {
			if _, e := c19Conv(fc.Value, f.Type, qAll); e != "" {
				fc.Value = nil
			}
		}
	case p < 62:
		fc.Value = structpb.NewNullValue()
	case p < 65:
		if f.Type != c19TypeID {
			fc.Value = c19WrongType(rng, f.Type)
		}
	}
	if fc.Value == nil {
		if f.Type == c19TypeID {
			fc.Value = structpb.NewStringValue("00ff")
		} else {
			fc.Value = cs.genTyped(f.Type)
		}
	}
	return fc
}

func (cs *c19Case) genQuery(c *c19Coll, mutating bool) *protomodel.Query {
	rng := cs.rng
	q := &protomodel.Query{CollectionName: c.Name}
	ne := rng.Intn(4)
	if rng.Chance(25) {
		ne = 0
	}
	for i := 0; i < ne; i++ {
		e := &protomodel.QueryExpression{}
		for j := 1 + rng.Intn(3); j > 0; j-- {
			e.FieldComparisons = append(e.FieldComparisons, cs.genComparison(c))
		}
		q.Expressions = append(q.Expressions, e)
	}
	if rng.Chance(2) {
		q.Expressions = append(q.Expressions, &protomodel.QueryExpression{}) // no comparison: illegal
	}
	if rng.Chance(50) {
		for n := 1 + rng.Intn(2); n > 0; n-- {
			fs := c.Schema.Fields
			name := fs[rng.Intn(len(fs))].Name
			if rng.Chance(8) {
				name = "_id"
			}
			if rng.Chance(2) {
				name = "nosuch"
			}
			q.OrderBy = append(q.OrderBy, &protomodel.OrderByClause{Field: name, Desc: rng.Bool()})
		}
	}
	if rng.Chance(40) {
		q.Limit = uint32(1 + rng.Intn(6))
	}
	return q
}

// ---------------- case life cycle ----------------

func (cs *c19Case) create() error {
	cs.genSchema()
	var idx []*protomodel.Index
	for _, ix := range cs.C.Indexes {
		idx = append(idx, &protomodel.Index{Fields: ix.Fields, IsUnique: ix.Unique})
	}
	cs.log("create c fields=%v indexes=%v; create t same fields, no index", cs.C.Schema.Fields, cs.C.Indexes)
	if err := cs.api.CreateCollection("c", c19ProtoFields(cs.C.Schema.Fields), idx); err != nil {
		return fmt.Errorf("create c: %w", err)
	}
	if err := cs.api.CreateCollection("t", c19ProtoFields(cs.T.Schema.Fields), nil); err != nil {
		return fmt.Errorf("create t: %w", err)
	}
	cs.lean = true
	for _, f := range cs.C.Schema.Fields {
		if f.Type == protomodel.FieldType_UUID {
			cs.lean = false
		}
	}
	cs.r.Count("case." + cs.api.Stage())
	if cs.dense {
		cs.r.Count("case.dense")
	}
	for _, ix := range cs.C.Indexes {
		cs.r.Count(fmt.Sprintf("case.index.fields-%d", len(ix.Fields)))
	}
	if cs.lean {
		cs.r.Count("case.in-lean-fragment")
	}
	cs.r.Count(fmt.Sprintf("case.indexes.%d", len(cs.C.Indexes)))
	cs.corr("c19 new", "ok")
	for _, c := range []*c19Coll{cs.C, cs.T} {
		cs.corr("c19 coll "+c.Name+" "+c19FieldsTok(c.Schema.Fields), "ok")
	}
	return nil
}

func c19TypeLetter(t protomodel.FieldType) string {
	switch t {
	case protomodel.FieldType_STRING:
		return "S"
	case protomodel.FieldType_BOOLEAN:
		return "B"
	case protomodel.FieldType_INTEGER:
		return "I"
	case protomodel.FieldType_DOUBLE:
		return "D"
	case protomodel.FieldType_UUID:
		return "U"
	}
	return "?"
}

func c19FieldsTok(fs []c19Field) string {
	var ss []string
	for _, f := range fs {
		ss = append(ss, f.Name+":"+c19TypeLetter(f.Type))
	}
	if len(ss) == 0 {
		return "*"
	}
	return strings.Join(ss, ",")
}

func (cs *c19Case) colls() []*c19Coll { return []*c19Coll{cs.C, cs.T} }

// schema as reported by the engine must be the oracle's
func (cs *c19Case) checkSchema() {
	for _, c := range cs.colls() {
		got, err := cs.api.GetCollection(c.Name)
		cs.r.OracleChecks++
		if err != nil {
			cs.fail("C19:schema:get-collection-failed", fmt.Sprintf("%s: %v", c.Name, err))
			continue
		}
		want := []string{"_id:S"}
		for _, f := range c.Schema.Fields {
			want = append(want, f.Name+":"+c19TypeLetter(f.Type))
		}
		var have []string
		for _, f := range got.Fields {
			have = append(have, f.Name+":"+c19TypeLetter(f.Type))
		}
		wi := []string{"_id!"}
		for _, ix := range c.Indexes {
			s := strings.Join(ix.Fields, "+")
			if ix.Unique {
				s += "!"
			}
			wi = append(wi, s)
		}
		var hi []string
		for _, ix := range got.Indexes {
			s := strings.Join(ix.Fields, "+")
			if ix.IsUnique {
				s += "!"
			}
			hi = append(hi, s)
		}
		sort.Strings(wi)
		sort.Strings(hi)
		if strings.Join(want, ",") != strings.Join(have, ",") || strings.Join(wi, ",") != strings.Join(hi, ",") {
			cs.fail("C19:schema:differs", fmt.Sprintf("collection %s: engine reports fields %v indexes %v, expected fields %v indexes %v", c.Name, have, hi, want, wi))
		}
	}
}

// ---------------- inserts ----------------

func (cs *c19Case) expectInsert(c *c19Coll, docs []*structpb.Struct) (rows []c19Row, class string, negzero bool) {
	for _, d := range docs {
		if _, ok := d.Fields["_doc"]; ok {
			return nil, "err:reserved", false
		}
		if _, ok := d.Fields["_id"]; ok {
			return nil, "err:illegal", false
		}
		row, ec := c19MakeRow(c.Schema.Fields, d, qAll)
		if ec != "" {
			return nil, ec, false
		}
		rows = append(rows, row)
	}
	for _, row := range rows {
		if c19RowTooLong(c.Schema.Fields, row) {
			return nil, "err:max-length", false
		}
	}
	nr := map[string]c19Row{}
	for i, row := range rows {
		nr[fmt.Sprintf("new%03d", i)] = row
	}
	if cf, nz := c.wouldConflict(nr); cf {
		return nil, "err:conflict", nz
	}
	return rows, "ok", false
}

// syncIndexes: InsertDocuments / CreateIndex run on a transaction that may reuse an arbitrarily old index
// snapshot (SnapshotMustIncludeTxID = 0, renewal period 0, unsafe MVCC): their unique-constraint and emptiness
// checks are then evaluated on stale data (finding C19:unique:duplicate-admitted:stale-snapshot, shown by a
// deterministic probe).  To keep the random histories deterministic the harness forces every index of the
// collection to be read up to the last transaction before such a write: one query per index, ordered by the
// index's first field so that the planner scans it.
func (cs *c19Case) syncIndexes(c *c19Coll) {
	cs.api.Count(&protomodel.Query{CollectionName: c.Name})
	cs.api.Search(&protomodel.Query{CollectionName: c.Name, Limit: 1, OrderBy: []*protomodel.OrderByClause{{Field: "_id"}}}, 0, 1)
	for _, ix := range c.Indexes {
		f := ix.Fields[0]
		q := &protomodel.Query{CollectionName: c.Name, Limit: 1,
			Expressions: []*protomodel.QueryExpression{{FieldComparisons: []*protomodel.FieldComparison{{Field: f, Operator: protomodel.ComparisonOperator_GE, Value: structpb.NewNullValue()}}}}}
		for _, g := range ix.Fields {
			q.OrderBy = append(q.OrderBy, &protomodel.OrderByClause{Field: g}) // all columns: only this index gives the order
		}
		cs.api.Search(q, 0, 1)
	}
	cs.r.Count("sync-indexes-before-write")
}

func (cs *c19Case) rowsOf(c *c19Coll, docs []*structpb.Struct) []c19Row {
	var out []c19Row
	for _, d := range docs {
		if row, _ := c19MakeRow(c.Schema.Fields, d, qAll); row != nil {
			out = append(out, row)
		}
	}
	return out
}

func (cs *c19Case) liveCount(c *c19Coll) int {
	n := 0
	for _, d := range c.Docs {
		if d.Live() {
			n++
		}
	}
	return n
}

func c19DocsTok(docs []*structpb.Struct) string {
	var ss []string
	for _, d := range docs {
		ss = append(ss, c19DocTok(d))
	}
	return strings.Join(ss, ",")
}

// returns accepted
func (cs *c19Case) insertInto(c *c19Coll, docs []*structpb.Struct) (bool, string) {
	rows, want, negzero := cs.expectInsert(c, docs)
	clones := make([]*structpb.Struct, len(docs))
	for i, d := range docs {
		clones[i] = c19CloneStruct(d)
	}
	if len(c.Indexes) > 0 && !cs.noSync {
		cs.syncIndexes(c)
	}
	tx, ids, err := cs.api.Insert(c.Name, clones)
	got := c19ErrClass(err)
	cs.log("insert %s docs=%s => %s ids=%v tx=%d (expected %s)", c.Name, c19DocsTok(docs), got, ids, tx, want)
	cs.r.OracleChecks++
	cs.r.Count("insert." + strings.SplitN(got, ":", 3)[0] + "." + want)
	cs.r.Eval("ins|"+c.Name+"|"+c19DocsTok(docs), true)
	if got != want && want == "err:max-length" && got == "err:conflict" && c.hasUnique() {
		// rows are written one by one: a uniqueness conflict of an earlier row is met before the length limit of a later one
		cs.r.Count("insert.conflict-before-max-length")
		return false, got
	}
	if got != want {
		switch {
		case want == "ok" && got == "err:conflict" && c.touchesReleasedValue(rows):
			cs.failUnique(c, "C19:unique:false-conflict:value-released-earlier", fmt.Sprintf("collection %s (indexes %v): insert of %s refused with a uniqueness conflict, but no live document holds the value (a deleted one did)", c.Name, c.Indexes, c19DocsTok(docs)))
		case want == "err:conflict" && got == "ok":
			sig := "C19:unique:duplicate-admitted"
			if negzero {
				sig += ":negzero"
			} else if c.touchesReleasedValue(cs.rowsOf(c, docs)) {
				sig += ":value-released-earlier"
			}
			cs.failUnique(c, sig, fmt.Sprintf("collection %s (indexes %v): insert of %s accepted although a unique index already holds the same value", c.Name, c.Indexes, c19DocsTok(docs)))
		case c.UniqueBroken && (want == "err:conflict" || got == "err:conflict"):
			cs.r.Count("unique.follow-up-after-reported-misbehaviour")
		default:
			cs.fail("C19:insert:outcome-differs", fmt.Sprintf("collection %s fields %v: insert of %s => %s (%v), expected %s", c.Name, c.Schema.Fields, c19DocsTok(docs), got, err, want))
		}
	}
	if err != nil {
		// a failed insert leaves no trace
		if n, cerr := cs.api.Count(&protomodel.Query{CollectionName: c.Name}); cerr != nil || int(n) != cs.liveCount(c) {
			cs.fail("C19:insert:failed-insert-left-trace", fmt.Sprintf("collection %s: insert failed (%v) but the collection now counts %d documents, oracle has %d (%v)", c.Name, err, n, cs.liveCount(c), cerr))
		}
		if want != "err:conflict" && want != "ok" && got == want {
			cs.corr("c19 insb "+c.Name+" - "+c19DocsTok(docs), want)
		}
		return false, got
	}
	if len(ids) != len(docs) {
		cs.fail("C19:insert:id-count", fmt.Sprintf("%d ids for %d documents", len(ids), len(docs)))
		return false, got
	}
	if rows == nil {
		// accepted against the oracle's expectation: register with the best row available
		for _, d := range docs {
			row, _ := c19MakeRow(c.Schema.Fields, d, qAll)
			if row == nil {
				row = c19Row{}
			}
			rows = append(rows, row)
		}
	}
	for i, d := range docs {
		full := c19CloneStruct(d)
		full.Fields["_id"] = structpb.NewStringValue(ids[i])
		od := &c19Doc{ID: ids[i], Seq: len(c.Docs), Revs: []c19Rev{{Doc: full, TxID: tx, FieldsAt: append([]c19Field{}, c.Schema.Fields...)}}}
		if _, dup := c.ByID[ids[i]]; dup {
			cs.fail("C19:insert:duplicate-id", "generated document id "+ids[i]+" already exists")
		}
		c.Docs = append(c.Docs, od)
		c.ByID[ids[i]] = od
	}
	if want == "ok" {
		cs.corr("c19 insb "+c.Name+" "+strings.Join(ids, ",")+" "+c19DocsTok(docs), "ok")
	} else {
		cs.lean = false
	}
	return true, got
}

func (cs *c19Case) opInsert() {
	n := 1
	if cs.rng.Chance(35) {
		n = 2 + cs.rng.Intn(3)
	}
	var docs []*structpb.Struct
	for i := 0; i < n; i++ {
		docs = append(docs, cs.genDoc(true))
	}
	if cs.rng.Chance(2) {
		docs[0].Fields["_doc"] = structpb.NewStringValue("x")
	}
	if cs.rng.Chance(2) {
		docs[0].Fields["_id"] = structpb.NewStringValue("0a0b")
	}
	if cs.rng.Chance(12) && len(cs.C.Docs) > 0 {
		// provoke unique conflicts / ties: copy the schema fields of an existing document
		src := cs.C.Docs[cs.rng.Intn(len(cs.C.Docs))]
		if src.Cur().Doc != nil {
			cp := c19CloneStruct(src.Cur().Doc)
			delete(cp.Fields, "_id")
			if cs.rng.Bool() {
				cs.kNext++
				cp.Fields["k"] = structpb.NewNumberValue(float64(cs.kNext))
			}
			docs[len(docs)-1] = cp
			cs.r.Count("doc.copy-of-existing")
		}
	}
	cs.insertDocs(docs)
}

// the same batch into the indexed collection and into its twin
func (cs *c19Case) insertDocs(docs []*structpb.Struct) {
	before := len(cs.C.Docs)
	okC, gotC := cs.insertInto(cs.C, docs)
	if !okC && gotC == "err:conflict" {
		cs.r.Count("insert.skipped-on-twin-after-unique-conflict")
		return
	}
	beforeT := len(cs.T.Docs)
	okT, _ := cs.insertInto(cs.T, docs)
	if okC && okT {
		for i := range docs {
			cs.pair[cs.C.Docs[before+i].ID] = cs.T.Docs[beforeT+i].ID
		}
	} else if okC != okT {
		cs.twin = false
	}
}

// ---------------- searching ----------------

type c19Expect struct {
	cq      *c19CQ
	class   string
	impl    []c19Match // as implemented (all quirks)
	intend  []c19Match // intended semantics
	quirks  string     // which quirks make the two differ ("" = none)
}

func c19IDs(ms []c19Match) []string {
	out := make([]string, len(ms))
	for i, m := range ms {
		out[i] = m.D.ID
	}
	return out
}

func c19SameSet(a, b []string) bool {
	if len(a) != len(b) {
		return false
	}
	x := append([]string{}, a...)
	y := append([]string{}, b...)
	sort.Strings(x)
	sort.Strings(y)
	for i := range x {
		if x[i] != y[i] {
			return false
		}
	}
	return true
}

func (cs *c19Case) expect(c *c19Coll, q *protomodel.Query) *c19Expect {
	ex := &c19Expect{}
	cq, ec := c19Compile(&c.Schema, q, qAll)
	ex.class = ec
	if ec != "" {
		return ex
	}
	ex.cq = cq
	ex.class = "ok"
	ex.impl = c.Select(cq, qAll)
	cq0, ec0 := c19Compile(&c.Schema, q, 0)
	if ec0 != "" {
		ex.intend = ex.impl
		return ex
	}
	ex.intend = c.Select(cq0, 0)
	if !c19SameSet(c19IDs(ex.impl), c19IDs(ex.intend)) {
		// which single quirk explains it?
		var names []string
		for _, qk := range []struct {
			q c19Q
			n string
		}{{qIntWrap, "integer-out-of-range"}, {qLikeByte, "like-non-ascii-pattern"}, {qLikeNL, "like-newline"}, {qStaleRow, "field-added-after-insert"}} {
			cqk, e := c19Compile(&c.Schema, q, qAll&^qk.q)
			if e != "" {
				continue
			}
			if !c19SameSet(c19IDs(c.Select(cqk, qAll&^qk.q)), c19IDs(ex.impl)) {
				names = append(names, qk.n)
			}
		}
		// several quirks at once: the signature names the first.  None alone — a document is kept by one OR group
		// through one quirk and by another group through another quirk, so that dropping either quirk alone changes
		// nothing: the smallest set of quirks whose removal changes the result is looked for, its first member names
		// the signature (impl and intended differ in nothing but these quirks, so some set always explains it)
		if len(names) > 0 {
			ex.quirks = names[0]
		} else {
			ex.quirks = "combined"
			type qn struct {
				q c19Q
				n string
			}
			all := []qn{{qIntWrap, "integer-out-of-range"}, {qLikeByte, "like-non-ascii-pattern"}, {qLikeNL, "like-newline"}, {qStaleRow, "field-added-after-insert"}}
		search:
			for size := 2; size <= len(all); size++ {
				for mask := 1; mask < 1<<len(all); mask++ {
					var drop c19Q
					first, n := "", 0
					for i, x := range all {
						if mask&(1<<i) != 0 {
							drop |= x.q
							n++
							if first == "" {
								first = x.n
							}
						}
					}
					if n != size {
						continue
					}
					cqk, e := c19Compile(&c.Schema, q, qAll&^drop)
					if e != "" {
						continue
					}
					if !c19SameSet(c19IDs(c.Select(cqk, qAll&^drop)), c19IDs(ex.impl)) {
						ex.quirks = first
						break search
					}
				}
			}
		}
	}
	return ex
}

// negzero: every missing document is explained by an indexed DOUBLE field compared with a zero of the other sign
func (cs *c19Case) negzeroExplains(c *c19Coll, ex *c19Expect, missing []string) bool {
	if len(c.Indexes) == 0 || len(missing) == 0 {
		return false
	}
	idxd := map[string]bool{}
	for _, ix := range c.Indexes {
		for _, f := range ix.Fields {
			idxd[f] = true
		}
	}
	for _, id := range missing {
		d := c.ByID[id]
		row := c.rowOf(d, qAll)
		ok := false
		for _, e := range ex.cq.Exprs {
			for _, cmp := range e {
				v := row[cmp.Field]
				if idxd[cmp.Field] && !v.Null && v.T == protomodel.FieldType_DOUBLE && v.F == 0 && !cmp.Val.Null && cmp.Val.F == 0 &&
					math.Signbit(v.F) != math.Signbit(cmp.Val.F) {
					ok = true
				}
			}
		}
		if !ok {
			return false
		}
	}
	return true
}

type c19SearchRes struct {
	class string
	ids   []string
	docs  []*protomodel.DocumentAtRevision
	err   error
}

func (cs *c19Case) search(q *protomodel.Query, offset int64, n int) (res c19SearchRes) {
	defer func() {
		if e := recover(); e != nil {
			res.class = "panic"
			cs.fail("C19:search:panic", fmt.Sprintf("%s offset=%d: %v", c19QueryString(q), offset, e))
		}
	}()
	docs, err := cs.api.Search(proto.Clone(q).(*protomodel.Query), offset, n)
	res.err = err
	res.class = c19ErrClass(err)
	res.docs = docs
	for _, d := range docs {
		res.ids = append(res.ids, d.DocumentId)
	}
	return res
}

// checkResult: ids returned for (q, offset, limit from q) against the oracle.  Returns false if a failure was reported.
func (cs *c19Case) checkResult(c *c19Coll, q *protomodel.Query, ex *c19Expect, offset int, res c19SearchRes, what string) bool {
	cs.r.OracleChecks++
	qs := c19QueryString(q) + fmt.Sprintf(" offset=%d", offset)
	ok := true
	byID := map[string]c19Match{}
	for _, m := range ex.impl {
		byID[m.D.ID] = m
	}
	intended := map[string]bool{}
	for _, m := range ex.intend {
		intended[m.D.ID] = true
	}
	seen := map[string]bool{}
	for i, id := range res.ids {
		if seen[id] {
			cs.fail("C19:search:duplicate-in-result", fmt.Sprintf("%s %s: document %s returned twice", what, qs, id))
			ok = false
		}
		seen[id] = true
		d := c.ByID[id]
		if d == nil || !d.Live() {
			cs.fail("C19:search:false-match", fmt.Sprintf("%s %s: returned %s which is not a live document of the collection", what, qs, id))
			ok = false
			continue
		}
		if _, in := byID[id]; !in {
			sig := "C19:search:false-match"
			if intended[id] {
				// the engine is right w.r.t. the intended semantics but differs from the as-implemented reading: harness model issue
				sig = "C19:search:oracle-model-disagrees"
			}
			cs.fail(sig, fmt.Sprintf("%s %s: returned %s = %s whose typed view %v does not satisfy the filter", what, qs, id, c19DocTok(d.Cur().Doc), c.rowOf(d, qAll)))
			ok = false
			continue
		}
		if !intended[id] {
			cs.fail("C19:search:false-match:"+ex.quirks, fmt.Sprintf("%s %s: returned %s = %s which does not satisfy the filter under the intended semantics (typed view as stored %v)", what, qs, id, c19DocTok(d.Cur().Doc), c.rowOf(d, qAll)))
			ok = false
		}
		if !proto.Equal(res.docs[i].Document, d.Cur().Doc) {
			cs.fail("C19:get:document-changed", fmt.Sprintf("%s %s: document %s returned as %s, stored %s", what, qs, id, c19DocTok(res.docs[i].Document), c19DocTok(d.Cur().Doc)))
			ok = false
		}
	}
	limit := int(q.Limit)
	total := len(ex.impl)
	wantN := total - offset
	if wantN < 0 {
		wantN = 0
	}
	if limit > 0 && wantN > limit {
		wantN = limit
	}
	if limit == 0 && offset == 0 {
		var missing []string
		for _, m := range ex.impl {
			if !seen[m.D.ID] {
				missing = append(missing, m.D.ID)
			}
		}
		if len(missing) > 0 {
			sig := "C19:search:missing-match"
			if cs.negzeroExplains(c, ex, missing) {
				sig += ":negzero-index"
			}
			d := c.ByID[missing[0]]
			cs.fail(sig, fmt.Sprintf("%s %s: %d matching documents not returned, e.g. %s = %s (typed view %v); indexes %v", what, qs, len(missing), missing[0], c19DocTok(d.Cur().Doc), c.rowOf(d, qAll), c.Indexes))
			ok = false
		}
		for _, m := range ex.intend {
			if _, in := byID[m.D.ID]; !in && !seen[m.D.ID] {
				cs.fail("C19:search:missing-match:"+ex.quirks, fmt.Sprintf("%s %s: %s = %s satisfies the filter (intended semantics) but is not returned; typed view as stored %v", what, qs, m.D.ID, c19DocTok(m.D.Cur().Doc), c.rowOf(m.D, qAll)))
				ok = false
				break
			}
		}
	} else if ok && len(res.ids) != wantN {
		sig := "C19:search:missing-match"
		if len(res.ids) > wantN {
			sig = "C19:search:limit-exceeded"
		}
		var exp []string
		for i, m := range ex.impl {
			if i >= 12 {
				exp = append(exp, "…")
				break
			}
			exp = append(exp, fmt.Sprintf("%s%v", m.D.ID, m.Row))
		}
		if len(res.ids) < wantN {
			// the ±0 defect of an index on a DOUBLE field (finding 6) under a LIMIT: the page is short by exactly the
			// matches whose indexed field holds the zero of the other sign
			rest := 0
			for _, m := range ex.impl {
				if seen[m.D.ID] || !cs.negzeroExplains(c, ex, []string{m.D.ID}) {
					rest++
				}
			}
			w := rest - offset
			if w < 0 {
				w = 0
			}
			if limit > 0 && w > limit {
				w = limit
			}
			if rest < total && w == len(res.ids) {
				cs.fail("C19:search:missing-match:negzero-index", fmt.Sprintf("%s %s: %d documents returned %v, expected %d (matches %d: %v): the page is short by the matches whose indexed DOUBLE field holds the zero of the other sign; indexes %v", what, qs, len(res.ids), res.ids, wantN, total, exp, c.Indexes))
				return false
			}
		}
		cs.fail(sig+":page-size", fmt.Sprintf("%s %s: %d documents returned %v, expected %d (matches %d: %v); indexes %v", what, qs, len(res.ids), res.ids, wantN, total, exp, c.Indexes))
		ok = false
	}
	// order
	if ok && len(q.OrderBy) > 0 {
		for i := 1; i < len(res.ids); i++ {
			if ex.cq.OrderCmp(byID[res.ids[i-1]].Row, byID[res.ids[i]].Row) > 0 {
				cs.fail("C19:search:order-wrong"+cs.negzeroOrderCause(c, q, ex), fmt.Sprintf("%s %s: %s (%v) returned before %s (%v); indexes %v", what, qs, res.ids[i-1], byID[res.ids[i-1]].Row, res.ids[i], byID[res.ids[i]].Row, c.Indexes))
				ok = false
				break
			}
		}
		// the page must hold the right keys: position i has the same sort key as position offset+i of the sorted matches
		if ok {
			for i, id := range res.ids {
				if offset+i < len(ex.impl) && ex.cq.OrderCmp(byID[id].Row, ex.impl[offset+i].Row) != 0 {
					cs.fail("C19:search:order-wrong:page-content"+cs.negzeroOrderCause(c, q, ex), fmt.Sprintf("%s %s: position %d holds %s, whose sort key differs from the %d-th match %s; indexes %v", what, qs, i, id, offset+i, ex.impl[offset+i].D.ID, c.Indexes))
					ok = false
					break
				}
			}
		}
	}
	return ok
}

// canonical answer for the Lean tie: ties (equal sort keys) in ascending id order; "" if the page cuts a tie group
func (cs *c19Case) leanCanon(c *c19Coll, q *protomodel.Query, ex *c19Expect, offset int, ids []string) (string, bool) {
	limit := int(q.Limit)
	if len(q.OrderBy) == 0 {
		if limit == 0 && offset == 0 {
			s := append([]string{}, ids...)
			sort.Strings(s)
			return c19Csv(s), true
		}
		if c == cs.T {
			return c19Csv(ids), true // primary-key order
		}
		return "", false
	}
	byID := map[string]c19Match{}
	for _, m := range ex.impl {
		byID[m.D.ID] = m
	}
	tieAt := func(pos int) bool { // is the boundary between pos-1 and pos inside a tie group?
		if pos <= 0 || pos >= len(ex.impl) {
			return false
		}
		return ex.cq.OrderCmp(ex.impl[pos-1].Row, ex.impl[pos].Row) == 0
	}
	if tieAt(offset) || (limit > 0 && tieAt(offset+limit)) {
		return "", false
	}
	out := append([]string{}, ids...)
	i := 0
	for i < len(out) {
		j := i + 1
		for j < len(out) && ex.cq.OrderCmp(byID[out[i]].Row, byID[out[j]].Row) == 0 {
			j++
		}
		sort.Strings(out[i:j])
		i = j
	}
	return c19Csv(out), true
}

func c19HasLike(q *protomodel.Query) bool {
	for _, e := range q.Expressions {
		for _, fc := range e.FieldComparisons {
			if fc.Operator == protomodel.ComparisonOperator_LIKE || fc.Operator == protomodel.ComparisonOperator_NOT_LIKE {
				return true
			}
		}
	}
	return false
}

func c19Csv(ids []string) string {
	if len(ids) == 0 {
		return "-"
	}
	return strings.Join(ids, ",")
}

func (cs *c19Case) inLeanFragment(ex *c19Expect) bool {
	return cs.lean && ex.cq != nil && !ex.cq.HasLike
}

func (cs *c19Case) opSearch() {
	q := cs.genQuery(cs.C, false)
	cs.checkQuery(q)
}

func (cs *c19Case) checkQuery(qc *protomodel.Query) {
	results := map[string][]string{}
	for _, c := range cs.colls() {
		q := proto.Clone(qc).(*protomodel.Query)
		q.CollectionName = c.Name
		if c == cs.T {
			// translate _id values through the pairing
			for _, e := range q.Expressions {
				for _, fc := range e.FieldComparisons {
					if fc.Field == "_id" {
						if t, ok := cs.pair[fc.Value.GetStringValue()]; ok {
							fc.Value = structpb.NewStringValue(t)
						}
					}
				}
			}
		}
		ex := cs.expect(c, q)
		qt, ot := c19QueryTok(q)
		res := cs.search(q, 0, 10000)
		cs.log("search %s => %s %v (oracle: %s, %d matches)", c19QueryString(q), res.class, res.ids, ex.class, len(ex.impl))
		cs.r.Eval("q|"+c19QueryString(q), len(ex.impl) > 0)
		cs.r.Count("query.outcome." + ex.class)
		if ex.class != "ok" {
			cs.r.OracleChecks++
			if res.class != ex.class {
				cs.fail("C19:search:error-class-differs", fmt.Sprintf("%s: engine %s (%v), expected %s", c19QueryString(q), res.class, res.err, ex.class))
			} else if cs.lean && !c19HasLike(q) {
				cs.corr(fmt.Sprintf("c19 search %s %s %s 0 %d", c.Name, qt, ot, q.Limit), ex.class)
			}
			continue
		}
		if ex.cq.IllTyped {
			// LIKE on a non-string column or with a NULL pattern: the engine fails when it evaluates the first row;
			// nothing to compare except that it does not panic
			cs.r.Count("query.illtyped-like." + strings.SplitN(res.class, ":", 3)[0])
			continue
		}
		if res.class != "ok" {
			cs.r.OracleChecks++
			cause := cs.longConstCause(c, q, res.class)
			cs.fail("C19:search:error-class-differs"+cause, fmt.Sprintf("%s: engine %s (%v), expected ok with %d matches; indexes %v", c19QueryString(q), res.class, res.err, len(ex.impl), c.Indexes))
			if cause != "" && cs.inLeanFragment(ex) {
				// the planner model meets the same refusal when it encodes the bound as a key of the scanned index
				cs.corr(fmt.Sprintf("c19 ixsearch %s %s %s %s 0 %d", c.Name, c19IndexesTok(c.Indexes), qt, ot, q.Limit), "err:eval")
			}
			continue
		}
		if ex.quirks != "" {
			cs.r.Count("query.quirk-visible." + ex.quirks)
		}
		if c == cs.C {
			cs.countShape(c, q, ex)
			cs.countData(c)
		}
		if len(q.OrderBy) > 0 {
			cs.r.Count("query.ordered")
		}
		if q.Limit > 0 {
			cs.r.Count("query.limited")
		}
		if ex.cq.HasLike {
			cs.r.Count("query.like")
		}
		good := cs.checkResult(c, q, ex, 0, res, "search")
		results[c.Name] = res.ids
		if cs.inLeanFragment(ex) && good {
			if canon, ok := cs.leanCanon(c, q, ex, 0, res.ids); ok {
				cs.corr(fmt.Sprintf("c19 search %s %s %s 0 %d", c.Name, qt, ot, q.Limit), canon)
			}
			cs.ixCorr(c, q, ex, qt, ot, 0, res.ids)
		}
		// (c) count
		cnt, err := cs.api.Count(q)
		cs.r.OracleChecks++
		if err != nil {
			cs.fail("C19:count:error", fmt.Sprintf("%s: %v", c19QueryString(q), err))
		} else {
			if int(cnt) != len(res.ids) {
				sig := "C19:count:differs"
				cs.fail(sig, fmt.Sprintf("%s: CountDocuments=%d but the search returns %d documents (oracle %d)", c19QueryString(q), cnt, len(res.ids), len(ex.impl)))
			}
			if cs.inLeanFragment(ex) && good && int(cnt) == len(res.ids) {
				cs.corr(fmt.Sprintf("c19 count %s %s %s 0 %d", c.Name, qt, ot, q.Limit), fmt.Sprint(cnt))
			}
		}
		// (b) paging: pages of size ps via offset, as the server does ((page-1)*pageSize)
		if good && cs.rng.Chance(60) {
			ps := 1 + cs.rng.Intn(4)
			if len(ex.impl) > 12*ps {
				ps = len(ex.impl)/12 + 1 // at most a dozen pages
			}
			var all []string
			okp := true
			for page := 1; page <= 40; page++ {
				off := (page - 1) * ps
				pr := cs.search(q, int64(off), ps)
				if pr.class != "ok" {
					cs.fail("C19:search:error-class-differs", fmt.Sprintf("%s page %d size %d: %s (%v)", c19QueryString(q), page, ps, pr.class, pr.err))
					okp = false
					break
				}
				// each page against the oracle: with a limit in the query the window is min(limit, ...) of the remaining
				qp := proto.Clone(q).(*protomodel.Query)
				if q.Limit == 0 || int(q.Limit) > ps {
					// ReadN(ps) cuts the page; emulate as limit ps for the expectation
					qp.Limit = uint32(ps)
				}
				if !cs.checkResult(c, qp, ex, off, pr, fmt.Sprintf("page %d (size %d)", page, ps)) {
					okp = false
					break
				}
				all = append(all, pr.ids...)
				if cs.inLeanFragment(ex) && page <= 3 {
					if canon, ok := cs.leanCanon(c, qp, ex, off, pr.ids); ok {
						cs.corr(fmt.Sprintf("c19 search %s %s %s %d %d", c.Name, qt, ot, off, qp.Limit), canon)
					}
					cs.ixCorr(c, qp, ex, qt, ot, off, pr.ids)
				}
				if len(pr.ids) < ps {
					break
				}
			}
			cs.r.Count("query.paged")
			if okp && q.Limit == 0 {
				cs.r.OracleChecks++
				// no duplicates, no gaps: the concatenated pages are the full result
				if !c19SameSet(all, res.ids) {
					sig := "C19:search:paging-gap-or-duplicate"
					if len(q.OrderBy) > 0 {
						sig += ":ties"
					}
					cs.fail(sig, fmt.Sprintf("%s: pages of size %d concatenate to %v, the unpaged search returns %v", c19QueryString(q), ps, all, res.ids))
				}
			}
		}
	}
	// (d) twin: same set with and without indexes
	rc, okc := results["c"]
	rt, okt := results["t"]
	if okc && okt && cs.twin {
		cs.r.OracleChecks++
		mapped := make([]string, len(rc))
		for i, id := range rc {
			mapped[i] = cs.pair[id]
		}
		if qc.Limit == 0 && !c19SameSet(mapped, rt) {
			exC := cs.expect(cs.C, qc)
			var missing []string
			inC := map[string]bool{}
			for _, id := range rc {
				inC[id] = true
			}
			for cid, tid := range cs.pair {
				for _, x := range rt {
					if x == tid && !inC[cid] {
						missing = append(missing, cid)
					}
				}
			}
			sig := "C19:search:index-vs-noindex-differs"
			if exC.cq != nil && cs.negzeroExplains(cs.C, exC, missing) && len(missing) == len(rt)-len(rc) {
				sig += ":negzero-index"
			}
			cs.fail(sig, fmt.Sprintf("%s: with indexes %v -> %v ; twin without indexes -> %v (pairing c->t applied: %v)", c19QueryString(qc), cs.C.Indexes, rc, rt, mapped))
		}
		cs.r.Count("query.twin-compared")
	}
}

// (a) get by id
func (cs *c19Case) opGet() {
	for _, c := range cs.colls() {
		if len(c.Docs) == 0 {
			continue
		}
		d := c.Docs[cs.rng.Intn(len(c.Docs))]
		q := &protomodel.Query{CollectionName: c.Name, Expressions: []*protomodel.QueryExpression{{FieldComparisons: []*protomodel.FieldComparison{
			{Field: "_id", Operator: protomodel.ComparisonOperator_EQ, Value: structpb.NewStringValue(d.ID)}}}}}
		res := cs.search(q, 0, 10)
		cs.r.OracleChecks++
		cs.r.Count("get.by-id")
		cs.log("get %s %s => %s %v", c.Name, d.ID, res.class, res.ids)
		if res.class != "ok" {
			cs.fail("C19:get:error", fmt.Sprintf("get %s/%s: %v", c.Name, d.ID, res.err))
			continue
		}
		if !d.Live() {
			if len(res.ids) != 0 {
				cs.fail("C19:get:deleted-document-returned", fmt.Sprintf("%s/%s is deleted but returned", c.Name, d.ID))
			}
			cs.corr(fmt.Sprintf("c19 get %s %s", c.Name, d.ID), "none")
			continue
		}
		if len(res.ids) != 1 || res.ids[0] != d.ID {
			cs.fail("C19:get:document-missing", fmt.Sprintf("get %s/%s returned %v", c.Name, d.ID, res.ids))
			continue
		}
		if !proto.Equal(res.docs[0].Document, d.Cur().Doc) {
			cs.fail("C19:get:document-changed", fmt.Sprintf("get %s/%s returned %s, stored %s", c.Name, d.ID, c19DocTok(res.docs[0].Document), c19DocTok(d.Cur().Doc)))
			continue
		}
		cs.corr(fmt.Sprintf("c19 get %s %s", c.Name, d.ID), c19DocTok(res.docs[0].Document))
	}
}

// ---------------- audit ----------------

func c19RevTok(r *protomodel.DocumentAtRevision) string {
	if r.Metadata != nil && r.Metadata.Deleted {
		return fmt.Sprintf("%d:D", r.Revision)
	}
	if r.Document == nil {
		return fmt.Sprintf("%d:nil", r.Revision)
	}
	return fmt.Sprintf("%d:%s", r.Revision, c19DocTok(r.Document))
}

func (cs *c19Case) auditDoc(c *c19Coll, d *c19Doc, full bool) {
	n := len(d.Revs)
	desc, off, lim := false, 0, n+5
	if !full {
		desc = cs.rng.Bool()
		lim = 1 + cs.rng.Intn(n+1)
		off = lim * cs.rng.Intn(n/lim+1)
	}
	cs.r.OracleChecks++
	cs.r.Count("audit.checked")
	try := func() (bad string, toks []string, beyond bool) {
		revs, err := cs.api.Audit(c.Name, d.ID, desc, off, lim)
		if off >= n {
			// beyond the history: the store reports an error or an empty list
			if err == nil && len(revs) != 0 {
				return fmt.Sprintf("offset %d beyond %d revisions returned %d entries", off, n, len(revs)), nil, true
			}
			return "", nil, true
		}
		if err != nil {
			return "error: " + err.Error(), nil, false
		}
		// expected window
		var idx []int
		for i := 0; i < n; i++ {
			idx = append(idx, i)
		}
		if desc {
			for i, j := 0, n-1; i < j; i, j = i+1, j-1 {
				idx[i], idx[j] = idx[j], idx[i]
			}
		}
		idx = idx[off:]
		if len(idx) > lim {
			idx = idx[:lim]
		}
		if len(revs) != len(idx) {
			return fmt.Sprintf("%d revisions listed, expected %d", len(revs), len(idx)), nil, false
		}
		for i := 0; i < len(idx); i++ {
			want := d.Revs[idx[i]]
			got := revs[i]
			toks = append(toks, c19RevTok(got))
			switch {
			case got.Revision != uint64(idx[i]+1):
				bad = fmt.Sprintf("entry %d has revision %d, expected %d", i, got.Revision, idx[i]+1)
			case got.DocumentId != d.ID:
				bad = fmt.Sprintf("entry %d has id %s", i, got.DocumentId)
			case want.TxID != 0 && got.TransactionId != want.TxID:
				bad = fmt.Sprintf("revision %d has tx %d, expected %d", got.Revision, got.TransactionId, want.TxID)
			case want.Deleted != (got.Metadata != nil && got.Metadata.Deleted):
				bad = fmt.Sprintf("revision %d deleted flag differs (expected deleted=%v)", got.Revision, want.Deleted)
			case !want.Deleted && !proto.Equal(got.Document, want.Doc):
				bad = fmt.Sprintf("revision %d content %s, expected %s", got.Revision, c19DocTok(got.Document), c19DocTok(want.Doc))
			case want.Deleted && got.Document != nil:
				bad = fmt.Sprintf("deleted revision %d carries a document", got.Revision)
			}
			if bad != "" {
				return bad, nil, false
			}
		}
		return "", toks, false
	}
	bad, toks, beyond := try()
	if bad != "" {
		// AuditDocument reads the key history from the index without waiting for the indexer; a query does wait
		// (its snapshot must include the last committed transaction): retry after one
		first := bad
		cs.api.Count(&protomodel.Query{CollectionName: c.Name})
		bad, toks, beyond = try()
		if bad == "" {
			cs.fail("C19:audit:stale-read-after-write", fmt.Sprintf("audit %s/%s desc=%v off=%d lim=%d right after the write: %s; the same call after a query (which waits for the indexer) is correct", c.Name, d.ID, desc, off, lim, first))
		}
	}
	if beyond {
		cs.r.Count("audit.offset-beyond-history")
	}
	if bad != "" {
		cs.fail("C19:audit:revision-missing-or-wrong", fmt.Sprintf("audit %s/%s desc=%v off=%d lim=%d: %s", c.Name, d.ID, desc, off, lim, bad))
		return
	}
	if beyond {
		return
	}
	d01 := 0
	if desc {
		d01 = 1
	}
	cs.corr(fmt.Sprintf("c19 audit %s %s %d %d %d", c.Name, d.ID, d01, off, lim), c19Csv(toks))
}

func (cs *c19Case) opAudit() {
	for _, c := range cs.colls() {
		if len(c.Docs) == 0 {
			continue
		}
		// prefer documents with a history
		d := c.Docs[cs.rng.Intn(len(c.Docs))]
		for try := 0; try < 4 && len(d.Revs) < 2; try++ {
			d = c.Docs[cs.rng.Intn(len(c.Docs))]
		}
		cs.auditDoc(c, d, cs.rng.Chance(40))
	}
}

// ---------------- replace / delete ----------------

// the engine's live set, to reconcile after an operation whose outcome differs from the expectation
func (cs *c19Case) engineLive(c *c19Coll) (map[string]bool, error) {
	docs, err := cs.api.Search(&protomodel.Query{CollectionName: c.Name}, 0, 100000)
	if err != nil {
		return nil, err
	}
	m := map[string]bool{}
	for _, d := range docs {
		m[d.DocumentId] = true
	}
	return m, nil
}

// a mutating query must select a determined set: drop limit/order when the cut would split a tie group
func (cs *c19Case) determinize(c *c19Coll, q *protomodel.Query) {
	if q.Limit == 0 {
		q.OrderBy = nil
		return
	}
	ex := cs.expect(c, q)
	if ex.class != "ok" || ex.cq.IllTyped {
		q.Limit = 0
		q.OrderBy = nil
		return
	}
	l := int(q.Limit)
	if len(q.OrderBy) == 0 {
		if l < len(ex.impl) {
			q.Limit = 0
		}
		return
	}
	if l < len(ex.impl) && ex.cq.OrderCmp(ex.impl[l-1].Row, ex.impl[l].Row) == 0 {
		q.Limit = 0
		q.OrderBy = nil
	}
}

func (cs *c19Case) opReplace() {
	rng := cs.rng
	if len(cs.C.Docs) == 0 {
		return
	}
	q := cs.genQuery(cs.C, true)
	if rng.Chance(35) {
		q = cs.genIdxRelQuery(cs.C)
		cs.r.Count("ixrel.replace")
	}
	newDoc := cs.genDoc(true)
	byID := rng.Chance(55)
	var target *c19Doc
	if byID {
		target = cs.C.Docs[rng.Intn(len(cs.C.Docs))]
		newDoc.Fields["_id"] = structpb.NewStringValue(target.ID)
		if rng.Chance(70) {
			q.Expressions = nil
		}
		if rng.Chance(3) {
			newDoc.Fields["_id"] = structpb.NewStringValue("zz")
		}
		if rng.Chance(3) {
			newDoc.Fields["_id"] = structpb.NewStringValue("00ffee")
		}
	}
	if rng.Chance(10) && target != nil && target.Cur().Doc != nil {
		// replace with the identical content: still a new revision
		newDoc = c19CloneStruct(target.Cur().Doc)
	}
	for _, e := range q.Expressions {
		for _, fc := range e.FieldComparisons {
			if (fc.Operator == protomodel.ComparisonOperator_LIKE || fc.Operator == protomodel.ComparisonOperator_NOT_LIKE) && fc.Value.GetStringValue() == "" {
				fc.Operator = protomodel.ComparisonOperator_EQ
			}
		}
	}
	for ci, c := range cs.colls() {
		qq := proto.Clone(q).(*protomodel.Query)
		qq.CollectionName = c.Name
		nd := c19CloneStruct(newDoc)
		if c == cs.T {
			if idv, ok := nd.Fields["_id"]; ok {
				if t, ok := cs.pair[idv.GetStringValue()]; ok {
					nd.Fields["_id"] = structpb.NewStringValue(t)
				}
			}
			for _, e := range qq.Expressions {
				for _, fc := range e.FieldComparisons {
					if fc.Field == "_id" {
						if t, ok := cs.pair[fc.Value.GetStringValue()]; ok {
							fc.Value = structpb.NewStringValue(t)
						}
					}
				}
			}
		}
		conflict := cs.replaceIn(c, qq, nd)
		if ci == 0 && conflict {
			cs.r.Count("replace.skipped-on-twin-after-unique-conflict")
			return
		}
	}
}

// the query as ReplaceDocuments rewrites it when the document carries the id
func c19InjectID(q *protomodel.Query, doc *structpb.Struct) *protomodel.Query {
	out := proto.Clone(q).(*protomodel.Query)
	idv, ok := doc.Fields["_id"]
	if !ok {
		return out
	}
	cmp := &protomodel.FieldComparison{Field: "_id", Operator: protomodel.ComparisonOperator_EQ, Value: idv}
	if len(out.Expressions) == 0 {
		out.Expressions = []*protomodel.QueryExpression{{FieldComparisons: []*protomodel.FieldComparison{cmp}}}
		return out
	}
	for _, e := range out.Expressions {
		e.FieldComparisons = append([]*protomodel.FieldComparison{proto.Clone(cmp).(*protomodel.FieldComparison)}, e.FieldComparisons...)
	}
	return out
}

// ReplaceDocuments rebuilds the document with structpb.NewStruct(doc.AsMap()): AsMap turns the numbers NaN, +Inf
// and -Inf into the STRINGS "NaN", "Infinity", "-Infinity", so the stored document differs from the one given
// (and a typed numeric field then fails with "unexpected value").  Reported once per occurrence; the oracle
// continues with the document as the engine stores it.
func c19ReplaceNormalize(doc *structpb.Struct) (*structpb.Struct, bool) {
	out, err := structpb.NewStruct(doc.AsMap())
	if err != nil {
		return doc, false
	}
	return out, !proto.Equal(out, doc)
}

func (cs *c19Case) replaceIn(c *c19Coll, q *protomodel.Query, given *structpb.Struct) (conflict bool) {
	nd, changed := c19ReplaceNormalize(given)
	if changed {
		cs.r.Count("replace.non-finite-number-in-document")
	}
	eff := c19InjectID(q, nd)
	cs.determinize(c, eff)
	q.Limit, q.OrderBy = eff.Limit, eff.OrderBy
	ex := cs.expect(c, eff)
	want := ex.class
	var sel []c19Match
	var rows map[string]c19Row
	var newDocs map[string]*structpb.Struct
	negzero := false // the expected uniqueness conflict involves a zero of a DOUBLE field (finding 6: the index keys of ±0 differ)
	if want == "ok" && ex.cq.IllTyped {
		cs.r.Count("replace.skipped-illtyped")
		return false
	}
	if want == "ok" {
		sel = ex.impl
		if q.Limit > 0 && len(sel) > int(q.Limit) {
			sel = sel[:q.Limit]
		}
		if _, has := nd.Fields["_doc"]; has && len(sel) > 0 {
			want = "err:reserved" // checked per selected document, before its row is built
		}
	}
	if want == "ok" {
		rows = map[string]c19Row{}
		newDocs = map[string]*structpb.Struct{}
		for _, m := range sel {
			full := c19CloneStruct(nd)
			if _, ok := full.Fields["_id"]; !ok {
				full.Fields["_id"] = structpb.NewStringValue(m.D.ID)
			}
			row, ec := c19MakeRow(c.Schema.Fields, full, qAll)
			if ec != "" {
				want = ec
				break
			}
			rows[m.D.ID] = row
			newDocs[m.D.ID] = full
		}
		if want == "ok" {
			for _, row := range rows {
				if c19RowTooLong(c.Schema.Fields, row) {
					want = "err:max-length"
				}
			}
		}
		if want == "ok" && len(sel) > 0 {
			if cf, nz := c.wouldConflict(rows); cf {
				want = "err:conflict"
				negzero = nz
			}
		}
	}
	if len(c.Indexes) > 0 {
		cs.syncIndexes(c)
	}
	revs, err := func() (rv []*protomodel.DocumentAtRevision, err error) {
		defer func() {
			if e := recover(); e != nil {
				err = fmt.Errorf("panic: %v", e)
				cs.fail("C19:replace:panic", fmt.Sprintf("%s doc=%s: %v", c19QueryString(q), c19DocTok(nd), e))
			}
		}()
		return cs.api.Replace(proto.Clone(q).(*protomodel.Query), c19CloneStruct(given))
	}()
	if changed && err == nil && len(revs) > 0 {
		cs.fail("C19:replace:document-changed:non-finite-number", fmt.Sprintf("%s: the replacement %s is stored as %s (AsMap/NewStruct round trip turns ±Inf/NaN into strings)", c19QueryString(q), c19DocTok(given), c19DocTok(nd)))
	} else if changed && err != nil {
		if _, ec := c19MakeRow(c.Schema.Fields, given, qAll); ec == "" && c19ErrClass(err) == "err:unexpected-value" {
			cs.fail("C19:replace:document-changed:non-finite-number", fmt.Sprintf("%s: the replacement %s is refused (%v): its ±Inf/NaN numbers were turned into strings before the typed view was built", c19QueryString(q), c19DocTok(given), err))
		}
	}
	got := c19ErrClass(err)
	var gotIDs []string
	for _, r := range revs {
		gotIDs = append(gotIDs, r.DocumentId)
	}
	cs.log("replace %s doc=%s => %s %v (expected %s %v)", c19QueryString(q), c19DocTok(nd), got, gotIDs, want, c19IDs(sel))
	cs.r.OracleChecks++
	cs.r.Count("replace." + strings.SplitN(got, ":", 3)[0] + "." + want)
	cs.r.Eval("repl|"+c19QueryString(q)+"|"+c19DocTok(nd), len(sel) > 0)
	qt, ot := c19QueryTok(q)
	leanOp := fmt.Sprintf("c19 replq %s %s %s %d %s", c.Name, qt, ot, q.Limit, c19DocTok(nd))
	if got != want && want == "err:max-length" && got == "err:conflict" && c.hasUnique() {
		cs.r.Count("replace.conflict-before-max-length")
		return true
	}
	if got != want {
		var rl []c19Row
		for _, rw := range rows {
			rl = append(rl, rw)
		}
		if want == "ok" && got == "err:conflict" && c.touchesReleasedValue(rl) {
			cs.failUnique(c, "C19:unique:false-conflict:value-released-earlier", fmt.Sprintf("collection %s indexes %v: replace %s with %s refused with a uniqueness conflict, but no other live document holds the value (a deleted one did)", c.Name, c.Indexes, c19QueryString(q), c19DocTok(nd)))
			return true
		}
		if want == "err:conflict" && got == "ok" {
			sig := "C19:unique:duplicate-admitted"
			if negzero {
				sig += ":negzero" // as in insertInto
			} else if c.touchesReleasedValue(cs.rowsOf(c, []*structpb.Struct{nd})) {
				sig += ":value-released-earlier"
			}
			cs.failUnique(c, sig, fmt.Sprintf("collection %s indexes %v: replace %s with %s accepted although it makes two documents share a unique value", c.Name, c.Indexes, c19QueryString(q), c19DocTok(nd)))
		} else if c.UniqueBroken && (want == "err:conflict" || got == "err:conflict") {
			cs.r.Count("unique.follow-up-after-reported-misbehaviour")
		} else {
			cause := ""
			if want == "ok" || want == "err:conflict" {
				cause = cs.longConstCause(c, q, got)
			}
			cs.fail("C19:replace:outcome-differs"+cause, fmt.Sprintf("%s doc=%s: %s (%v), expected %s; indexes %v", c19QueryString(q), c19DocTok(nd), got, err, want, c.Indexes))
			if cause != "" {
				return true // nothing was written: the twin is skipped as after a uniqueness conflict
			}
		}
		cs.reconcile(c)
		return false
	}
	if want != "ok" {
		if want != "err:conflict" && cs.lean && !c19HasLike(q) {
			cs.corr(leanOp, want)
		}
		return want == "err:conflict"
	}
	if !c19SameSet(gotIDs, c19IDs(sel)) {
		sig := "C19:replace:wrong-set"
		cs.fail(sig, fmt.Sprintf("%s doc=%s: replaced %v, expected %v", c19QueryString(q), c19DocTok(nd), gotIDs, c19IDs(sel)))
		cs.reconcile(c)
		return false
	}
	if ex.quirks != "" {
		// the engine replaced the as-implemented set, which is not the intended one
		if !c19SameSet(c19IDs(ex.intend), c19IDs(ex.impl)) && q.Limit == 0 {
			cs.fail("C19:replace:wrong-set:"+ex.quirks, fmt.Sprintf("%s: replaced %v; under the intended semantics the filter selects %v", c19QueryString(q), gotIDs, c19IDs(ex.intend)))
		}
	}
	var pairs []string
	for _, r := range revs {
		d := c.ByID[r.DocumentId]
		d.Revs = append(d.Revs, c19Rev{Doc: newDocs[d.ID], TxID: r.TransactionId, FieldsAt: append([]c19Field{}, c.Schema.Fields...)})
		// (a) the right revision
		if r.Revision != uint64(len(d.Revs)) {
			cs.fail("C19:replace:revision-wrong", fmt.Sprintf("%s: document %s now has revision %d according to the engine, the oracle counts %d", c19QueryString(q), d.ID, r.Revision, len(d.Revs)))
		}
		pairs = append(pairs, fmt.Sprintf("%s:%d", d.ID, r.Revision))
	}
	sort.Strings(pairs)
	if cs.inLeanFragment(ex) {
		cs.corr(leanOp, "ok "+c19Csv(pairs))
	} else {
		cs.leanSync(c, revs, newDocs)
	}
	return false
}

// operations outside the Lean fragment (LIKE filters) still have to reach the model: as explicit per-id ops
func (cs *c19Case) leanSync(c *c19Coll, revs []*protomodel.DocumentAtRevision, newDocs map[string]*structpb.Struct) {
	for _, r := range revs {
		cs.corr(fmt.Sprintf("c19 repl %s %s %s", c.Name, r.DocumentId, c19DocTok(newDocs[r.DocumentId])), fmt.Sprintf("ok %d", r.Revision))
	}
}

func (cs *c19Case) opDelete() {
	if len(cs.C.Docs) == 0 {
		return
	}
	q := cs.genQuery(cs.C, true)
	viaIndex := false
	if cs.rng.Chance(35) {
		// through an index: only when the filter selects a small part of the collection
		qi := cs.genIdxRelQuery(cs.C)
		if ex := cs.expect(cs.C, qi); ex.class == "ok" && len(ex.impl) > 0 && len(ex.impl) <= 2+cs.liveCount(cs.C)/4 {
			q = qi
			viaIndex = true
			cs.r.Count("ixrel.delete")
		}
	}
	if viaIndex {
	} else if cs.rng.Chance(50) {
		// a single document by id
		d := cs.C.Docs[cs.rng.Intn(len(cs.C.Docs))]
		q.Expressions = []*protomodel.QueryExpression{{FieldComparisons: []*protomodel.FieldComparison{
			{Field: "_id", Operator: protomodel.ComparisonOperator_EQ, Value: structpb.NewStringValue(d.ID)}}}}
	} else if len(q.Expressions) == 0 && cs.rng.Chance(85) {
		return // do not wipe the collection too often
	}
	for _, c := range cs.colls() {
		qq := proto.Clone(q).(*protomodel.Query)
		qq.CollectionName = c.Name
		if c == cs.T {
			for _, e := range qq.Expressions {
				for _, fc := range e.FieldComparisons {
					if fc.Field == "_id" {
						if t, ok := cs.pair[fc.Value.GetStringValue()]; ok {
							fc.Value = structpb.NewStringValue(t)
						}
					}
				}
			}
		}
		if cs.deleteIn(c, qq) {
			break
		}
	}
}

func (cs *c19Case) deleteIn(c *c19Coll, q *protomodel.Query) (skipTwin bool) {
	cs.determinize(c, q)
	ex := cs.expect(c, q)
	if ex.class == "ok" && ex.cq.IllTyped {
		return
	}
	sel := ex.impl
	if q.Limit > 0 && len(sel) > int(q.Limit) {
		sel = sel[:q.Limit]
	}
	err := func() (err error) {
		defer func() {
			if e := recover(); e != nil {
				err = fmt.Errorf("panic: %v", e)
				cs.fail("C19:delete:panic", fmt.Sprintf("%s: %v", c19QueryString(q), e))
			}
		}()
		return cs.api.Delete(proto.Clone(q).(*protomodel.Query))
	}()
	got := c19ErrClass(err)
	cs.log("delete %s => %s (expected %s %v)", c19QueryString(q), got, ex.class, c19IDs(sel))
	cs.r.OracleChecks++
	cs.r.Count("delete." + strings.SplitN(got, ":", 3)[0])
	cs.r.Eval("del|"+c19QueryString(q), len(sel) > 0)
	qt, ot := c19QueryTok(q)
	leanOp := fmt.Sprintf("c19 delq %s %s %s %d", c.Name, qt, ot, q.Limit)
	if got != ex.class {
		cause := ""
		if ex.class == "ok" {
			cause = cs.longConstCause(c, q, got)
		}
		cs.fail("C19:delete:outcome-differs"+cause, fmt.Sprintf("%s: %s (%v), expected %s; indexes %v", c19QueryString(q), got, err, ex.class, c.Indexes))
		if cause != "" {
			return true // nothing was deleted: the twin is skipped
		}
		cs.reconcile(c)
		return false
	}
	if got != "ok" {
		if cs.lean && !c19HasLike(q) {
			cs.corr(leanOp, got)
		}
		return
	}
	live, lerr := cs.engineLive(c)
	if lerr != nil {
		cs.fail("C19:search:error-class-differs", fmt.Sprintf("listing %s after delete: %v", c.Name, lerr))
		return
	}
	want := map[string]bool{}
	for _, m := range sel {
		want[m.D.ID] = true
	}
	var deleted, wrong []string
	for _, d := range c.Docs {
		if !d.Live() {
			continue
		}
		gone := !live[d.ID]
		if gone {
			deleted = append(deleted, d.ID)
		}
		if gone != want[d.ID] {
			wrong = append(wrong, d.ID)
		}
	}
	if len(wrong) > 0 {
		cs.fail("C19:delete:wrong-set", fmt.Sprintf("%s: deleted %v, expected %v", c19QueryString(q), deleted, c19IDs(sel)))
	} else if ex.quirks != "" && q.Limit == 0 && !c19SameSet(c19IDs(ex.intend), c19IDs(ex.impl)) {
		cs.fail("C19:delete:wrong-set:"+ex.quirks, fmt.Sprintf("%s: deleted %v; under the intended semantics the filter selects %v", c19QueryString(q), deleted, c19IDs(ex.intend)))
	}
	for _, id := range deleted {
		d := c.ByID[id]
		d.Revs = append(d.Revs, c19Rev{Deleted: true})
	}
	sort.Strings(deleted)
	if len(wrong) == 0 {
		if cs.inLeanFragment(ex) {
			cs.corr(leanOp, "ok "+c19Csv(deleted))
		} else {
			for _, id := range deleted {
				cs.corr(fmt.Sprintf("c19 del %s %s", c.Name, id), "ok")
			}
		}
	} else {
		cs.lean = false
		cs.twin = false
	}
	return false
}

// adopt the engine's view of the collection after a reported disagreement (audit of every document)
func (cs *c19Case) reconcile(c *c19Coll) {
	cs.lean = false
	cs.twin = false
	cs.r.Count("reconcile")
	cs.api.Count(&protomodel.Query{CollectionName: c.Name}) // waits for the indexer
	for _, d := range c.Docs {
		revs, err := cs.api.Audit(c.Name, d.ID, false, 0, 1000)
		if err != nil {
			continue
		}
		var nr []c19Rev
		for i, r := range revs {
			if i < len(d.Revs) {
				nr = append(nr, d.Revs[i])
				continue
			}
			if r.Metadata != nil && r.Metadata.Deleted {
				nr = append(nr, c19Rev{Deleted: true})
				continue
			}
			nr = append(nr, c19Rev{Doc: r.Document, TxID: r.TransactionId, FieldsAt: append([]c19Field{}, c.Schema.Fields...)})
		}
		if len(nr) > 0 {
			d.Revs = nr
		}
	}
}

// ---------------- schema changes ----------------

func (cs *c19Case) opSchema() {
	rng := cs.rng
	switch rng.Intn(4) {
	case 0: // add a field (both collections)
		var cand []c19Field
		for _, f := range c19FieldPool {
			if _, ok := cs.C.Schema.typeOf(f.Name); !ok && (f.Type != protomodel.FieldType_UUID || !cs.lean) {
				cand = append(cand, f)
			}
		}
		if len(cand) == 0 {
			return
		}
		f := cand[rng.Intn(len(cand))]
		if rng.Chance(10) {
			f = cs.C.Schema.Fields[rng.Intn(len(cs.C.Schema.Fields))] // already exists
		}
		cs.epoch++
		f.Ep = cs.epoch
		for _, c := range cs.colls() {
			err := cs.api.AddField(c.Name, &protomodel.Field{Name: f.Name, Type: f.Type})
			cs.log("addfield %s %s:%s => %s", c.Name, f.Name, c19TypeLetter(f.Type), c19ErrClass(err))
			cs.r.Count("schema.addfield." + strings.SplitN(c19ErrClass(err), ":", 3)[0])
			_, exists := c.Schema.typeOf(f.Name)
			if (err == nil) == exists {
				cs.fail("C19:schema:addfield-outcome", fmt.Sprintf("AddField %s to %s: %v (exists already: %v)", f.Name, c.Name, err, exists))
			}
			if err == nil {
				c.Schema.Fields = append(c.Schema.Fields, f)
				cs.corr(fmt.Sprintf("c19 addfield %s %s:%s", c.Name, f.Name, c19TypeLetter(f.Type)), "ok")
			} else if exists {
				cs.corr(fmt.Sprintf("c19 addfield %s %s:%s", c.Name, f.Name, c19TypeLetter(f.Type)), c19ErrClass(err))
			}
		}
	case 1: // remove a field
		fs := cs.C.Schema.Fields
		f := fs[rng.Intn(len(fs))]
		if f.Name == "k" {
			return
		}
		for _, c := range cs.colls() {
			if _, ok := c.Schema.typeOf(f.Name); !ok {
				continue // the twins have diverged earlier
			}
			indexed := false
			for _, ix := range c.Indexes {
				for _, n := range ix.Fields {
					if n == f.Name {
						indexed = true
					}
				}
			}
			err := cs.api.RemoveField(c.Name, f.Name)
			cs.log("rmfield %s %s => %s (indexed=%v)", c.Name, f.Name, c19ErrClass(err), indexed)
			cs.r.Count("schema.rmfield." + strings.SplitN(c19ErrClass(err), ":", 3)[0])
			if err == nil {
				if indexed {
					// the SQL layer refused or dropped? the engine accepted: indexes on it must be gone (checked by checkSchema)
					var keep []c19Index
					for _, ix := range c.Indexes {
						has := false
						for _, n := range ix.Fields {
							if n == f.Name {
								has = true
							}
						}
						if !has {
							keep = append(keep, ix)
						}
					}
					c.Indexes = keep
				}
				var nf []c19Field
				for _, g := range c.Schema.Fields {
					if g.Name != f.Name {
						nf = append(nf, g)
					}
				}
				c.Schema.Fields = nf
				cs.corr(fmt.Sprintf("c19 rmfield %s %s", c.Name, f.Name), "ok")
			} else if !indexed {
				cs.fail("C19:schema:rmfield-outcome", fmt.Sprintf("RemoveField %s from %s: %v", f.Name, c.Name, err))
			}
		}
		// the two collections may now differ in fields (c refused because of an index): twins are over
		if !c19SameFields(cs.C.Schema.Fields, cs.T.Schema.Fields) {
			cs.twin = false
			cs.r.Count("schema.twins-diverged")
		}
	case 2: // create an index on c
		ix := cs.genIndex()
		if ix == nil {
			return
		}
		cs.syncIndexes(cs.C)
		err := cs.api.CreateIndex("c", ix.Fields, ix.Unique)
		cls := c19ErrClass(err)
		cs.log("createindex c %v unique=%v => %s", ix.Fields, ix.Unique, cls)
		cs.r.Count("schema.createindex." + strings.SplitN(cls, ":", 3)[0])
		if err == nil {
			if ix.Unique && cs.liveCount(cs.C) > 0 {
				cs.C.UniqueBroken = true
				sig := "C19:schema:unique-index-on-non-empty"
				if !cs.C.Docs[0].Live() {
					// the emptiness check looks at the FIRST primary-key entry only; a deleted one reads as "no entry"
					sig += ":first-document-deleted"
				}
				cs.fail(sig, fmt.Sprintf("unique index %v created on a collection that holds %d live documents (existing values are not checked)", ix.Fields, cs.liveCount(cs.C)))
			}
			cs.C.Indexes = append(cs.C.Indexes, *ix)
		} else if !(ix.Unique && len(cs.C.Docs) > 0 && cls == "err:limited-index-creation") {
			cs.fail("C19:schema:createindex-outcome", fmt.Sprintf("CreateIndex %v unique=%v: %v", ix.Fields, ix.Unique, err))
		}
	case 3: // delete an index of c
		if len(cs.C.Indexes) == 0 {
			return
		}
		i := rng.Intn(len(cs.C.Indexes))
		ix := cs.C.Indexes[i]
		err := cs.api.DeleteIndex("c", ix.Fields)
		cs.log("deleteindex c %v => %s", ix.Fields, c19ErrClass(err))
		cs.r.Count("schema.deleteindex." + strings.SplitN(c19ErrClass(err), ":", 3)[0])
		if err != nil {
			cs.fail("C19:schema:deleteindex-outcome", fmt.Sprintf("DeleteIndex %v: %v", ix.Fields, err))
			return
		}
		cs.C.Indexes = append(append([]c19Index{}, cs.C.Indexes[:i]...), cs.C.Indexes[i+1:]...)
	}
	cs.checkSchema()
}

// ---------------- sweep: everything still holds (also after reopen) ----------------

func (cs *c19Case) sweep(tag string) {
	cs.log("sweep %s", tag)
	for _, c := range cs.colls() {
		for _, d := range c.Docs {
			cs.auditDoc(c, d, true)
		}
	}
	cs.checkSchema()
	cs.checkQuery(&protomodel.Query{CollectionName: "c"})
	for i := 0; i < 3; i++ {
		cs.opSearch()
	}
	for i := 0; i < 4; i++ {
		cs.opIxSearch()
	}
	for i := 0; i < 3; i++ {
		cs.opGet()
	}
}

func (cs *c19Case) opReopen() {
	err := cs.api.Reopen()
	cs.log("reopen => %v", err)
	cs.r.Count("reopen")
	if err != nil {
		cs.fail("C19:reopen:error", err.Error())
		return
	}
	cs.sweep("after-reopen")
}

func c19RunCase(r *hx.Result, rng *hx.Rng, stage string, nops int) (err error) {
	dir := hx.TempDir("c19")
	defer os.RemoveAll(dir)
	var api c19API
	if stage == "engine" {
		api, err = newC19Eng(dir)
	} else {
		api, err = newC19DB(dir)
	}
	if err != nil {
		return err
	}
	defer api.Close()
	cs := &c19Case{r: r, rng: rng, api: api, id: r.NextCase(), pair: map[string]string{}, twin: true, dense: rng.Chance(50),
		C: &c19Coll{Name: "c", ByID: map[string]*c19Doc{}}, T: &c19Coll{Name: "t", ByID: map[string]*c19Doc{}}}
	defer func() {
		if e := recover(); e != nil {
			cs.fail("C19:harness:panic", fmt.Sprint(e))
		}
	}()
	if err := cs.create(); err != nil {
		cs.fail("C19:schema:create-failed", err.Error())
		return nil
	}
	cs.checkSchema()
	timed := func(name string, f func()) {
		t0 := time.Now()
		f()
		c19Timing[name] += time.Since(t0)
	}
	if cs.dense {
		for i := 0; i < 3; i++ {
			timed("insert", cs.opBulk)
		}
	}
	for i := 0; i < nops; i++ {
		switch p := rng.Intn(100); {
		case p < 24:
			if cs.dense && rng.Chance(35) {
				timed("insert", cs.opBulk)
			} else {
				timed("insert", cs.opInsert)
			}
		case p < 40:
			timed("search", cs.opSearch)
		case p < 57:
			timed("search-index-relative", cs.opIxSearch)
		case p < 63:
			timed("get", cs.opGet)
		case p < 75:
			timed("replace", cs.opReplace)
		case p < 82:
			timed("delete", cs.opDelete)
		case p < 88:
			timed("audit", cs.opAudit)
		case p < 94:
			timed("schema", cs.opSchema)
		case p < 99:
			if stage == "db" {
				timed("proof", cs.opProof)
				timed("proof-relations", cs.opProofRelations)
			} else {
				timed("audit", cs.opAudit)
			}
		default:
			timed("reopen+sweep", cs.opReopen)
		}
		if len(cs.C.Docs) < 3 && i%2 == 0 {
			cs.opInsert()
		}
		if stage == "db" {
			cs.noteState()
		}
	}
	if stage == "db" {
		for i := 0; i < 3; i++ {
			cs.opProof()
			timed("proof-relations", cs.opProofRelations)
		}
	}
	timed("sweep", func() { cs.sweep("final") })
	timed("reopen+sweep", cs.opReopen)
	if len(r.Samples) < 3 {
		ops := cs.ops
		if len(ops) > 12 {
			ops = ops[:12]
		}
		r.Sample(map[string]interface{}{"stage": stage, "case": cs.id, "first_ops": ops})
	}
	return nil
}

func runC19(r *hx.Result, rng *hx.Rng, thorough bool, replay string) error {
	// hx.NewRng(seed) starts seed s at state s·C+K and advances by C: consecutive seeds give the same stream
	// shifted by one.  Re-seed through a multiplier so that different VERIF_SEEDs give unrelated cases.
	rng = hx.NewRng(r.Seed*0xD6E8FEB86659FD93 + 0xC19C19)
	if pf := os.Getenv("C19_PROF"); pf != "" {
		if f, err := os.Create(pf); err == nil {
			pprof.StartCPUProfile(f)
			defer pprof.StopCPUProfile()
		}
	}
	nEng, nDB, nops := 20, 6, 60
	if thorough {
		nEng, nDB, nops = 200, 40, 70
	}
	if v := os.Getenv("C19_CASES"); v != "" {
		fmt.Sscanf(v, "%d,%d,%d", &nEng, &nDB, &nops)
	}
	for i := 0; i < nEng; i++ {
		if err := c19RunCase(r, rng.Fork(), "engine", nops); err != nil {
			return err
		}
		if i%8 == 7 {
			if err := r.Flush(); err != nil {
				return err
			}
		}
	}
	for i := 0; i < nDB; i++ {
		if err := c19RunCase(r, rng.Fork(), "db", nops); err != nil {
			return err
		}
	}
	c19Probes(r)
	c19IxProbes(r)
	tm := map[string]string{}
	for k, v := range c19Timing {
		tm[k] = v.Round(time.Millisecond).String()
	}
	r.Extra["time_per_op_kind"] = tm
	r.Rule = "one evaluation = one insert batch / replace / delete / query executed on the real document engine and checked against the in-memory oracle; non-trivial = distinct operation text whose query selects at least one document (or any insert)"
	return nil
}
