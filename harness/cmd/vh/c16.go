package main

// C16 — decoders/parsers are total: malformed input gives an error, never a crash.
//
// For every modelled decoder: valid encodings are built with the repository's own encoders,
// a structure-aware mutation stream is derived from them, the REAL decoder is called under
// recover() with a per-call timeout, and the outcome class (ok <canonical fields> | err:<class> | panic)
// is compared with the Lean transliteration (`c16 <decoder> <hex>`).  Oracle (model independent):
// no panic, no hang, allocation within a bound linear in the input, and for ReplicateTx
// "error => replica state unchanged".  SQL text, pgsql wire messages and pkg/stream are search-only.

import (
	"bufio"
	"bytes"
	"context"
	"crypto/sha256"
	"encoding/binary"
	"errors"
	"fmt"
	"io"
	"math"
	"os"
	"path/filepath"
	"reflect"
	"runtime"
	"runtime/metrics"
	"sort"
	"strings"
	"time"
	"unsafe"

	"github.com/codenotary/immudb/embedded/appendable"
	"github.com/codenotary/immudb/embedded/appendable/singleapp"
	"github.com/codenotary/immudb/embedded/logger"
	"github.com/codenotary/immudb/embedded/sql"
	"github.com/codenotary/immudb/embedded/store"
	"github.com/codenotary/immudb/embedded/tbtree"
	"github.com/codenotary/immudb/pkg/api/protomodel"
	"github.com/codenotary/immudb/pkg/api/schema"
	fm "github.com/codenotary/immudb/pkg/pgsql/server/fmessages"
	"github.com/codenotary/immudb/pkg/stream"
	"github.com/codenotary/immudb/pkg/verification"
	"google.golang.org/protobuf/proto"
	"google.golang.org/protobuf/types/known/structpb"

	"verif/harness/internal/hx"
)

func init() { runners["C16"] = runC16 }

// ---------- access to unexported decoders (bodies provided by the linker; see c16_stub.s) ----------

//go:linkname c16KVMDUnsafeReadFrom github.com/codenotary/immudb/embedded/store.(*KVMetadata).unsafeReadFrom
func c16KVMDUnsafeReadFrom(md *store.KVMetadata, b []byte) error

//go:linkname c16ValueRefFrom github.com/codenotary/immudb/embedded/store.(*ImmuStore).valueRefFrom
func c16ValueRefFrom(st *store.ImmuStore, tx, hc uint64, b []byte) (store.ValueRef, error)

// (go:linkname to methods of UNEXPORTED types breaks Go's type identity at run time — the attribute
// deserialize methods are therefore only reached through TxMetadata.ReadFrom / KVMetadata.unsafeReadFrom.)

var _ = unsafe.Pointer(nil)

// ---------- guarded call: recover + timeout + allocation measurement ----------

type c16Res struct {
	out      string // canonical answer, "panic" when panicked
	panicked bool
	site     string // "<pkg.func>:panic:<statement>"
	pval     string
	hung     bool
	alloc    uint64 // heap bytes allocated during the call (large objects are accounted immediately)
}

var c16Sample = []metrics.Sample{{Name: "/gc/heap/allocs:bytes"}}

func c16HeapAllocs() uint64 {
	metrics.Read(c16Sample)
	if c16Sample[0].Value.Kind() == metrics.KindUint64 {
		return c16Sample[0].Value.Uint64()
	}
	return 0
}

var c16SrcCache = map[string][]string{}

func c16Stmt(file string, line int) string {
	ls, ok := c16SrcCache[file]
	if !ok {
		b, err := os.ReadFile(file)
		if err == nil {
			ls = strings.Split(string(b), "\n")
		}
		c16SrcCache[file] = ls
	}
	if line-1 < 0 || line-1 >= len(ls) {
		return fmt.Sprintf("line%d", line)
	}
	s := strings.Join(strings.Fields(ls[line-1]), "")
	if i := strings.Index(s, "//"); i > 0 {
		s = s[:i]
	}
	if len(s) > 72 {
		s = s[:72]
	}
	return s
}

// first frame (from the panic upwards) that lies in immudb code
func c16PanicSite() string {
	pcs := make([]uintptr, 96)
	n := runtime.Callers(3, pcs)
	frames := runtime.CallersFrames(pcs[:n])
	for {
		fr, more := frames.Next()
		if strings.Contains(fr.Function, "github.com/codenotary/immudb/") {
			fn := fr.Function[strings.LastIndex(fr.Function, "/")+1:]
			return fn + ":panic:" + c16Stmt(fr.File, fr.Line)
		}
		if !more {
			break
		}
	}
	return "unknown:panic"
}

func c16Guard(timeout time.Duration, f func() string) c16Res {
	ch := make(chan c16Res, 1)
	a0 := c16HeapAllocs()
	go func() {
		var res c16Res
		defer func() {
			if p := recover(); p != nil {
				res.panicked = true
				res.out = "panic"
				res.site = c16PanicSite()
				res.pval = fmt.Sprint(p)
			}
			ch <- res
		}()
		res.out = f()
	}()
	select {
	case r := <-ch:
		r.alloc = c16HeapAllocs() - a0
		return r
	case <-time.After(timeout):
	}
	// Not back within the nominal bound.  Wall-clock bounds are load-dependent (a 400 KB SQL text takes seconds to parse
	// on an idle machine and >10 s when all cores are busy), so a hang is only reported when the call is still running
	// after a much larger confirmation window; a late return is counted as slow, not as a violation.
	select {
	case r := <-ch:
		r.alloc = c16HeapAllocs() - a0
		c16SlowCalls++
		return r
	case <-time.After(c16ConfirmWindow(timeout)):
		c16ConfirmedHangs++
		return c16Res{out: "hang", hung: true}
	}
}

// the confirmation window is paid in full for the first stalled calls only: once hangs have been confirmed the run fails
// anyway, and later stalls are reported after a short extra wait (the abandoned goroutines may be spinning)
var c16ConfirmedHangs int

func c16ConfirmWindow(timeout time.Duration) time.Duration {
	if c16ConfirmedHangs >= 2 {
		return timeout
	}
	return 20*timeout + 60*time.Second
}

// calls that exceeded their nominal bound but returned within the confirmation window (reported in the evidence)
var c16SlowCalls int

// ---------- error classes ----------

func c16ErrClass(err error) string {
	switch {
	case err == nil:
		return "ok"
	case errors.Is(err, store.ErrIllegalTruncationArgument):
		return "err:illegal-truncation"
	case errors.Is(err, store.ErrIllegalArguments):
		return "err:illegal"
	case errors.Is(err, store.ErrCorruptedData):
		return "err:corrupted"
	case errors.Is(err, store.ErrNewerVersionOrCorruptedData):
		return "err:newer"
	case errors.Is(err, store.ErrCorruptedIndex):
		return "err:corrupted-index"
	case errors.Is(err, io.EOF):
		return "err:eof"
	case errors.Is(err, io.ErrUnexpectedEOF):
		return "err:unexpected-eof"
	case errors.Is(err, singleapp.ErrCorruptedMetadata), errors.Is(err, appendable.ErrCorruptedMetadata):
		return "err:corrupted-metadata"
	}
	return "err:other"
}

// ---------- canonical renderings (must equal lean/Driver/C16.lean) ----------

func c16TxmdCanon(md *store.TxMetadata) string {
	t := "none"
	if md.HasTruncatedTxID() {
		v, _ := md.GetTruncatedTxID()
		t = fmt.Sprint(v)
	}
	x := "none"
	if e := md.Extra(); e != nil {
		x = hx.Hex(e)
	}
	return "t=" + t + ";x=" + x
}

func c16OptTxmd(md *store.TxMetadata) string {
	if md == nil {
		return "none"
	}
	return "[" + c16TxmdCanon(md) + "]"
}

func b01(b bool) string {
	if b {
		return "1"
	}
	return "0"
}

func c16KvmdCanon(md *store.KVMetadata) string {
	e := "none"
	if md.IsExpirable() {
		t, _ := md.ExpirationTime()
		e = fmt.Sprint(uint64(t.Unix()))
	}
	return "d=" + b01(md.Deleted()) + ";e=" + e + ";n=" + b01(md.NonIndexable())
}

func c16OptKvmd(md *store.KVMetadata) string {
	if md == nil {
		return "none"
	}
	return "[" + c16KvmdCanon(md) + "]"
}

func c16HdrCanon(h *store.TxHeader) string {
	return fmt.Sprintf("id=%d ts=%d ver=%d md=%s n=%d eh=%x bl=%d blroot=%x prev=%x",
		h.ID, uint64(h.Ts), h.Version, c16OptTxmd(h.Metadata), h.NEntries, h.Eh[:], h.BlTxID, h.BlRoot[:], h.PrevAlh[:])
}

// ---------- the modelled decoders ----------

type c16Dec struct {
	name string
	call func(b []byte) string
}

func c16Decoders() map[string]*c16Dec {
	ds := []*c16Dec{
		{"txmd", func(b []byte) string {
			md := store.NewTxMetadata()
			if err := md.ReadFrom(b); err != nil {
				return c16ErrClass(err)
			}
			return "ok " + c16TxmdCanon(md)
		}},
		{"txmd.bytes", func(b []byte) string { // decode, then re-encode what was accepted
			md := store.NewTxMetadata()
			if err := md.ReadFrom(b); err != nil {
				return c16ErrClass(err)
			}
			return "ok " + hx.Hex(md.Bytes())
		}},
		{"kvmd", func(b []byte) string {
			md := store.NewKVMetadata()
			if err := c16KVMDUnsafeReadFrom(md, b); err != nil {
				return c16ErrClass(err)
			}
			return "ok " + c16KvmdCanon(md)
		}},
		{"txhdr", func(b []byte) string {
			h := &store.TxHeader{}
			if err := h.ReadFrom(b); err != nil {
				return c16ErrClass(err)
			}
			return "ok " + c16HdrCanon(h)
		}},
		{"valref", func(b []byte) string {
			v, err := c16ValueRefFrom(nil, 7, 3, b)
			if err != nil {
				return c16ErrClass(err)
			}
			hv := v.HVal()
			return fmt.Sprintf("ok vlen=%d voff=%d hval=%x txmd=%s kvmd=%s", v.Len(), uint64(v.VOff()), hv[:], c16OptTxmd(v.TxMetadata()), c16OptKvmd(v.KVMetadata()))
		}},
		{"appmd", func(b []byte) string {
			m := appendable.NewMetadata(nil)
			n, err := m.ReadFrom(bufio.NewReader(bytes.NewBuffer(b)))
			if err != nil {
				return c16ErrClass(err)
			}
			return fmt.Sprintf("ok n=%d ", n) + c16AppmdCanon(m)
		}},
	}
	m := map[string]*c16Dec{}
	for _, d := range ds {
		m[d.name] = d
	}
	return m
}

func c16FieldCanon(f []byte) string {
	return hx.Hex(bytes.TrimRight(f, "\x00")) + "/" + fmt.Sprint(len(f))
}

// Metadata has no iteration API: serialise it with the repo's own WriteTo and split the (well-formed) fields.
func c16AppmdCanon(m *appendable.Metadata) string {
	bs := m.Bytes()
	rd := func() []byte {
		if len(bs) < 4 {
			return nil
		}
		n := int(binary.BigEndian.Uint32(bs))
		f := bs[4 : 4+n]
		bs = bs[4+n:]
		return f
	}
	cnt := int(binary.BigEndian.Uint32(rd()))
	var items []string
	for i := 0; i < cnt; i++ {
		k := rd()
		v := rd()
		items = append(items, c16FieldCanon(k)+"="+c16FieldCanon(v))
	}
	sort.Strings(items)
	return strings.Join(items, " ")
}

// ---------- mutation stream ----------

type c16Input struct {
	b     []byte
	label string
}

func c16Clone(b []byte) []byte {
	c := make([]byte, len(b)) // cap == len on purpose (see GoSlice.lean note on cap)
	copy(c, b)
	return c
}

func putU(b []byte, off, w int, v uint64) {
	for k := 0; k < w; k++ {
		b[off+w-1-k] = byte(v >> (8 * uint(k)))
	}
}
func getU(b []byte, off, w int) uint64 {
	var v uint64
	for k := 0; k < w; k++ {
		v = v<<8 | uint64(b[off+k])
	}
	return v
}

type c16Field struct{ off, w int }

// mutations of one valid encoding. fields: known length/count/tag fields; when nil every offset is
// treated as a potential 1/2/4-byte field (short inputs) or a sample of offsets (long inputs).
func c16Mutations(rng *hx.Rng, valid []byte, fields []c16Field, maxU32 uint64, budget int) []c16Input {
	var out []c16Input
	add := func(b []byte, l string) { out = append(out, c16Input{b, l}) }
	add(c16Clone(valid), "valid")
	n := len(valid)
	// truncation at every offset (sampled beyond the budget)
	step := 1
	if n > budget {
		step = n/budget + 1
	}
	for k := 0; k < n; k += step {
		add(c16Clone(valid[:k]), "trunc")
	}
	for k := n - 1; k >= 0 && k >= n-12; k-- { // always the last offsets
		add(c16Clone(valid[:k]), "trunc")
	}
	// extension
	for _, e := range []int{1, 2, 3, 4, 8} {
		add(append(c16Clone(valid), rng.Bytes(e)...), "extend")
		add(append(c16Clone(valid), make([]byte, e)...), "extend")
	}
	// field values
	fs := fields
	if fs == nil {
		offs := []int{}
		if n <= budget {
			for o := 0; o < n; o++ {
				offs = append(offs, o)
			}
		} else {
			for k := 0; k < budget; k++ {
				offs = append(offs, rng.Intn(n))
			}
		}
		for _, o := range offs {
			for _, w := range []int{1, 2, 4} {
				if o+w <= n {
					fs = append(fs, c16Field{o, w})
				}
			}
		}
	}
	for _, f := range fs {
		if f.off+f.w > n {
			continue
		}
		cur := getU(valid, f.off, f.w)
		max := uint64(1)<<(8*uint(f.w)) - 1
		if f.w == 4 && maxU32 != 0 {
			max = maxU32
		}
		if f.w == 8 {
			max = ^uint64(0)
		}
		rem := uint64(n - f.off - f.w)
		vals := []uint64{0, 1, 2, max, max - 1, cur + 1, cur - 1, rem, rem + 1, rem - 1, rem - 3, rem - 4}
		if f.w >= 2 {
			vals = append(vals, 255, 256, 257, 258, 265, 268, 269)
		}
		seen := map[uint64]bool{cur: true}
		for _, v := range vals {
			if f.w < 8 {
				v &= uint64(1)<<(8*uint(f.w)) - 1
			}
			if f.w == 4 && maxU32 != 0 && v > maxU32 {
				continue
			}
			if seen[v] {
				continue
			}
			seen[v] = true
			b := c16Clone(valid)
			putU(b, f.off, f.w, v)
			add(b, fmt.Sprintf("field%d", f.w))
			// pairs: field change + cut right after a few following bytes
			if len(out)%7 == 0 {
				for _, cut := range []int{f.off + f.w, f.off + f.w + 1, f.off + f.w + 3} {
					if cut <= n {
						add(c16Clone(b[:cut]), "field+trunc")
					}
				}
			}
		}
	}
	// single byte flips
	flips := n
	if flips > budget {
		flips = budget
	}
	for k := 0; k < flips; k++ {
		o := k
		if n > budget {
			o = rng.Intn(n)
		}
		b := c16Clone(valid)
		b[o] ^= 1 << uint(rng.Intn(8))
		add(b, "flip")
		b2 := c16Clone(valid)
		b2[o] = byte(rng.U64())
		add(b2, "flip")
	}
	return out
}

func c16RandomInputs(rng *hx.Rng, count, maxLen int) []c16Input {
	out := []c16Input{{[]byte{}, "empty"}}
	for k := 0; k < count; k++ {
		out = append(out, c16Input{rng.Bytes(rng.Size(maxLen)), "random"})
	}
	// low-entropy random (small numbers look like lengths/tags)
	for k := 0; k < count; k++ {
		b := make([]byte, rng.Size(maxLen))
		for i := range b {
			if rng.Chance(70) {
				b[i] = byte(rng.Intn(4))
			} else {
				b[i] = byte(rng.U64())
			}
		}
		out = append(out, c16Input{b, "random-low"})
	}
	return out
}

// ---------- valid encodings built with the repo's own types ----------

func c16ValidTxmds(rng *hx.Rng) [][]byte {
	var out [][]byte
	for _, el := range []int{-1, 1, 2, 26, 40, 255, 256} {
		for _, tr := range []int64{-1, 0, 1, 1 << 40} {
			md := store.NewTxMetadata()
			if tr >= 0 {
				md.WithTruncatedTxID(uint64(tr))
			}
			if el >= 0 {
				if err := md.WithExtra(rng.Bytes(el)); err != nil {
					panic(err)
				}
			}
			out = append(out, md.Bytes())
		}
	}
	return out
}

func c16ValidKvmds() [][]byte {
	var out [][]byte
	for mask := 0; mask < 8; mask++ {
		md := store.NewKVMetadata()
		if mask&1 != 0 {
			md.AsDeleted(true)
		}
		if mask&2 != 0 {
			md.ExpiresAt(time.Unix(int64(1700000000+mask), 0))
		}
		if mask&4 != 0 {
			md.AsNonIndexable(true)
		}
		out = append(out, md.Bytes())
	}
	return out
}

func c16ValidHeaders(rng *hx.Rng) [][]byte {
	var out [][]byte
	txmds := []func() *store.TxMetadata{
		func() *store.TxMetadata { return nil },
		func() *store.TxMetadata { return store.NewTxMetadata() },
		func() *store.TxMetadata { return store.NewTxMetadata().WithTruncatedTxID(5) },
		func() *store.TxMetadata { m := store.NewTxMetadata(); m.WithExtra(rng.Bytes(1)); return m },
		func() *store.TxMetadata { m := store.NewTxMetadata(); m.WithExtra(rng.Bytes(26)); return m },
		func() *store.TxMetadata { m := store.NewTxMetadata(); m.WithExtra(rng.Bytes(65)); return m },
		func() *store.TxMetadata {
			m := store.NewTxMetadata().WithTruncatedTxID(9)
			m.WithExtra(rng.Bytes(256))
			return m
		},
	}
	for ver := 0; ver <= 1; ver++ {
		for k, mk := range txmds {
			if ver == 0 && k > 1 {
				continue
			}
			h := &store.TxHeader{ID: uint64(2 + rng.Intn(1000)), Ts: int64(rng.U64() >> 2), Version: ver, Metadata: mk(), NEntries: 1 + rng.Intn(300)}
			h.BlTxID = uint64(rng.Intn(int(h.ID)))
			copy(h.BlRoot[:], rng.Bytes(32))
			copy(h.PrevAlh[:], rng.Bytes(32))
			copy(h.Eh[:], rng.Bytes(32))
			b, err := h.Bytes()
			if err != nil {
				panic(err)
			}
			out = append(out, b)
		}
	}
	return out
}

func c16ValidValRefs(rng *hx.Rng, txmds, kvmds [][]byte) [][]byte {
	var out [][]byte
	mk := func(txmd, kvmd []byte, withMd bool) []byte {
		var b []byte
		b = binary.BigEndian.AppendUint32(b, uint32(rng.Size(1<<20)))
		b = binary.BigEndian.AppendUint64(b, rng.U64()>>1)
		b = append(b, rng.Bytes(32)...)
		if withMd {
			b = binary.BigEndian.AppendUint16(b, uint16(len(txmd)))
			b = append(b, txmd...)
			b = binary.BigEndian.AppendUint16(b, uint16(len(kvmd)))
			b = append(b, kvmd...)
		}
		return b
	}
	out = append(out, mk(nil, nil, false), mk(nil, nil, true))
	for i, t := range txmds {
		out = append(out, mk(t, kvmds[i%len(kvmds)], true))
	}
	for _, k := range kvmds {
		out = append(out, mk(nil, k, true))
	}
	return out
}

func c16ValidAppmds(rng *hx.Rng, big bool) [][]byte {
	var out [][]byte
	m := appendable.NewMetadata(nil)
	out = append(out, m.Bytes())
	m.PutInt("FILE_SIZE", 1<<20)
	out = append(out, m.Bytes())
	m.PutBool("FLAG", true)
	m.Put("WRAPPED_METADATA", rng.Bytes(30))
	m.Put("", []byte{})
	out = append(out, m.Bytes())
	m2 := appendable.NewMetadata(nil)
	for k := 0; k < 6; k++ {
		m2.Put(fmt.Sprintf("k%d", k), rng.Bytes(rng.Size(40)))
	}
	out = append(out, m2.Bytes())
	// longer than the 4096-byte buffer of the bufio.Reader: fields cross the buffer boundary.  Only for the
	// repaired readField: the single-Read code lost the framing at the boundary and then took arbitrary bytes
	// as lengths (c16AppmdDeclaredMax cannot predict them), i.e. allocations of some GiB
	if big {
		m3 := appendable.NewMetadata(nil)
		m3.Put("BIG", rng.Bytes(4200))
		m3.PutInt("AFTER", 77)
		out = append(out, m3.Bytes())
	}
	return out
}

// ---------- real stores: exported transactions, real index values ----------

func c16StoreOpts() *store.Options {
	return store.DefaultOptions().WithSynced(false).WithLogger(logger.NewMemoryLogger()).WithMaxConcurrency(4).WithMaxIOConcurrency(1)
}

type c16Primary struct {
	exported [][]byte
	headers  [][]byte
	idxVals  [][]byte
}

func c16BuildPrimary(rng *hx.Rng, ntx int, hdrVersion int) (*c16Primary, error) {
	dir := hx.TempDir("c16p")
	defer os.RemoveAll(dir)
	st, err := store.Open(dir, c16StoreOpts().WithWriteTxHeaderVersion(hdrVersion))
	if err != nil {
		return nil, err
	}
	var keys [][]byte
	for t := 0; t < ntx; t++ {
		tx, err := st.NewWriteOnlyTx(context.Background())
		if err != nil {
			return nil, err
		}
		ne := 1 + rng.Intn(4)
		if t == 0 {
			ne = 1
		}
		if hdrVersion == 1 && t%3 == 1 {
			md := store.NewTxMetadata()
			md.WithExtra(rng.Bytes(1 + rng.Intn(40)))
			tx.WithMetadata(md)
		}
		for e := 0; e < ne; e++ {
			key := []byte(fmt.Sprintf("k%d_%d_%s", t, e, strings.Repeat("x", rng.Intn(6))))
			var md *store.KVMetadata
			if hdrVersion == 1 {
				switch rng.Intn(5) {
				case 1:
					md = store.NewKVMetadata()
					md.AsDeleted(true)
				case 2:
					md = store.NewKVMetadata()
					md.ExpiresAt(time.Unix(4000000000, 0))
				case 3:
					md = store.NewKVMetadata()
					md.AsNonIndexable(true)
					md.AsDeleted(true)
					md.ExpiresAt(time.Unix(4000000001, 0))
				}
			}
			val := rng.Bytes(rng.Size(300))
			if err := tx.Set(key, md, val); err != nil {
				return nil, err
			}
			keys = append(keys, key)
		}
		if _, err := tx.Commit(context.Background()); err != nil {
			return nil, err
		}
	}
	p := &c16Primary{}
	holder := store.NewTx(st.MaxTxEntries(), st.MaxKeyLen())
	for t := 1; t <= ntx; t++ {
		e, err := st.ExportTx(uint64(t), false, false, holder)
		if err != nil {
			return nil, err
		}
		p.exported = append(p.exported, c16Clone(e))
		h, err := st.ReadTxHeader(uint64(t), false, false)
		if err != nil {
			return nil, err
		}
		hb, err := h.Bytes()
		if err != nil {
			return nil, err
		}
		p.headers = append(p.headers, hb)
	}
	st.WaitForIndexingUpto(context.Background(), uint64(ntx))
	if err := st.Close(); err != nil {
		return nil, err
	}
	// real index values (what valueRefFrom decodes), read straight from the index tree
	if t, err := tbtree.Open(filepath.Join(dir, "index"), tbtree.DefaultOptions().WithLogger(logger.NewMemoryLogger())); err == nil {
		if snap, err := t.Snapshot(); err == nil {
			for _, k := range keys {
				if v, _, _, err := snap.Get(k); err == nil {
					p.idxVals = append(p.idxVals, c16Clone(v))
				}
			}
			snap.Close()
		}
		t.Close()
	}
	return p, nil
}

type c16Replica struct {
	dir string
	st  *store.ImmuStore
}

func c16NewReplica(valid [][]byte, upto int) (*c16Replica, error) {
	dir := hx.TempDir("c16r")
	// MaxActiveTransactions(1): a header whose ID is not the next one is rejected at once instead of making
	// precommit wait (until the context expires) for the transactions in between
	st, err := store.Open(dir, c16StoreOpts().WithMaxActiveTransactions(1))
	if err != nil {
		return nil, err
	}
	for t := 0; t < upto; t++ {
		if _, err := st.ReplicateTx(context.Background(), valid[t], false, false); err != nil {
			return nil, fmt.Errorf("replica bootstrap tx %d: %w", t+1, err)
		}
	}
	return &c16Replica{dir, st}, nil
}

func (rp *c16Replica) drop(closeIt bool) {
	if closeIt {
		done := make(chan struct{})
		go func() { defer func() { recover(); close(done) }(); rp.st.Close() }()
		select {
		case <-done:
		case <-time.After(3 * time.Second):
		}
	}
	os.RemoveAll(rp.dir)
}

type c16State struct {
	pid, cid   uint64
	palh, calh [32]byte
}

func (rp *c16Replica) state() c16State {
	var s c16State
	s.pid, s.palh = rp.st.PrecommittedAlh()
	s.cid, s.calh = rp.st.CommittedAlh()
	return s
}

// error messages produced by the framing part of ReplicateTx (everything before txSpec.set/precommit)
var c16FramingMsgs = map[string]bool{
	"illegal arguments": true,
	"illegal arguments: invalid truncation info":    true,
	"illegal arguments: invalid tx ID":              true,
	"illegal arguments: invalid number of entries":  true,
	"illegal arguments: invalid BlTxID":             true,
	"data is corrupted":                             true,
	"tx created with a newer version or data is corrupted":                                                true,
	"error reading tx metadata attributes: data is corrupted":                                             true,
	"error reading tx metadata attributes: error reading tx metadata attributes: data is corrupted":       true,
	"error reading metadata attributes: data is corrupted":                                                true,
	"error reading metadata attributes: error reading metadata attributes: data is corrupted":             true,
}

// offsets of the length/count/tag fields of a VALID exported tx
func c16ExportedFields(b []byte) []c16Field {
	fs := []c16Field{{0, 4}}
	hdrLen := int(binary.BigEndian.Uint32(b))
	h := 4
	fs = append(fs, c16Field{h, 8}, c16Field{h + 40, 8}, c16Field{h + 48, 2}, c16Field{h + 50, 2})
	hdr := &store.TxHeader{}
	if err := hdr.ReadFrom(b[4 : 4+hdrLen]); err != nil {
		return fs
	}
	if hdr.Version == 1 {
		mdLen := int(binary.BigEndian.Uint16(b[h+50:]))
		for k := 0; k < mdLen && k < 4; k++ {
			fs = append(fs, c16Field{h + 52 + k, 1}, c16Field{h + 52 + k, 2})
		}
		fs = append(fs, c16Field{h + 52 + mdLen, 4}, c16Field{h + 52 + mdLen + 4 + 32, 8})
	} else {
		fs = append(fs, c16Field{h + 52 + 32, 8})
	}
	i := 4 + hdrLen
	for e := 0; e < hdr.NEntries; e++ {
		fs = append(fs, c16Field{i, 2})
		kLen := int(binary.BigEndian.Uint16(b[i:]))
		i += 2 + kLen
		fs = append(fs, c16Field{i, 2})
		mdLen := int(binary.BigEndian.Uint16(b[i:]))
		i += 2
		for k := 0; k < mdLen; k++ {
			fs = append(fs, c16Field{i + k, 1})
		}
		i += mdLen
		fs = append(fs, c16Field{i, 4})
		vLen := int(binary.BigEndian.Uint32(b[i:]))
		i += 4 + vLen
	}
	if i < len(b) {
		fs = append(fs, c16Field{i, 2}, c16Field{i + 2, 1})
	}
	return fs
}

// ---------- runner ----------

type c16Run struct {
	r        *hx.Result
	decs     map[string]*c16Dec
	seen     map[string]bool
	timeout  time.Duration
	classCnt map[string]int
	// appendable.readField does not allocate from a declared length (repaired; established by a probe at
	// the start of every run): inputs declaring huge lengths are fed as well.  If the probe fails, the
	// pre-repair caps apply again (a declared length of some GiB would end in the unrecoverable
	// out-of-memory error instead of an oracle failure).
	appmdBounded bool
}

// alloc bound used by the oracle: generous and linear in the input size
// (the heap-allocation counter is process wide and small-object accounting is flushed in bursts at GC,
// so the constant part has to stay above that noise)
func c16AllocBound(n int) uint64 { return 48<<20 + 16*uint64(n) }

// call-site names used in hang/allocation signatures
var c16SiteName = map[string]string{
	"txmd": "store.TxMetadata.ReadFrom", "txmd.bytes": "store.TxMetadata.Bytes", "kvmd": "store.KVMetadata.unsafeReadFrom",
	"txhdr": "store.TxHeader.ReadFrom", "valref": "store.valueRefFrom", "appmd": "appendable.Metadata.ReadFrom",
}

func (c *c16Run) oracle(decOp string, in []byte, res c16Res) {
	dec := decOp
	if n, ok := c16SiteName[decOp]; ok {
		dec = n
	}
	c.r.OracleChecks++
	if res.hung {
		c.r.Fail("C16:"+dec+":hang", fmt.Sprintf("%s did not return within %v", dec, c.timeout), map[string]string{"decoder": decOp, "input": hx.Hex(in)})
		return
	}
	if res.panicked {
		c.r.Fail("C16:"+res.site, fmt.Sprintf("%s panics on malformed input (%s), reached through %s", res.site, res.pval, dec),
			map[string]string{"decoder": decOp, "input": hx.Hex(in), "panic": res.pval})
	}
	if res.alloc > c16AllocBound(len(in)) {
		c.r.Fail("C16:"+dec+":alloc-exceeds-bound", fmt.Sprintf("%s allocated %d bytes for a %d-byte input (bound %d)", dec, res.alloc, len(in), c16AllocBound(len(in))),
			map[string]string{"decoder": decOp, "input": hx.Hex(in), "allocated": fmt.Sprint(res.alloc)})
	}
}

// short stable key for (decoder, input): keeps the dedup maps small
func c16Key(dec string, b []byte) string {
	h := sha256.Sum256(b)
	return dec + "|" + string(h[:12])
}

func c16Class(out string) string {
	if strings.HasPrefix(out, "ok") {
		return "ok"
	}
	return out
}

func (c *c16Run) feed(dec string, in c16Input) {
	key := c16Key(dec, in.b)
	if c.seen[key] {
		return
	}
	c.seen[key] = true
	d := c.decs[dec]
	res := c16Guard(c.timeout, func() string { return d.call(in.b) })
	c.r.Count(dec + ".in." + in.label)
	c.r.Count(dec + ".out." + c16Class(res.out))
	c.oracle(dec, in.b, res)
	c.r.Eval(key, len(in.b) > 0)
	if !res.hung {
		c.r.Corr("c16 "+dec+" "+hx.Hex(in.b), res.out)
	}
}

func runC16(r *hx.Result, rng *hx.Rng, thorough bool, replay string) error {
	r.Rule = "one evaluation = one call of a real decoder/parser on one input under recover+timeout with the outcome class compared to the Lean transliteration (modelled decoders) or only checked for panic/hang (search-only); nontrivial = non-empty input, distinct by (decoder, input bytes)"
	c := &c16Run{r: r, decs: c16Decoders(), seen: map[string]bool{}, timeout: 20 * time.Second, classCnt: map[string]int{}}
	scale := 1
	if thorough {
		scale = 10
	}

	if replay != "" {
		return c16Replay(c, replay)
	}
	t0 := time.Now()
	phase := func(name string) {
		r.Extra["phase_s."+name] = fmt.Sprintf("%.1f", time.Since(t0).Seconds())
		t0 = time.Now()
	}

	// ---- attack templates (seed independent) ----
	r.NextCase()
	for _, t := range c16Templates() {
		c.feed(t.dec, c16Input{t.b, "template"})
	}

	// appmd: does a declared length still size an allocation? (4 input bytes declaring 64 MiB; the same
	// input is fed through the oracle as "alloc-probe" below)
	{
		pr := c16Guard(c.timeout, func() string { return c.decs["appmd"].call([]byte{0x04, 0, 0, 0}) })
		c.appmdBounded = !pr.panicked && !pr.hung && pr.alloc <= c16AllocBound(4)
		r.Extra["appmd.declared-length-not-allocated"] = fmt.Sprint(c.appmdBounded)
	}
	appmdCap := uint64(1 << 20) // u32 fields capped while a declared length IS the allocation size
	if c.appmdBounded {
		appmdCap = 0
	}

	// ---- pure decoders ----
	txmds := c16ValidTxmds(rng)
	kvmds := c16ValidKvmds()
	hdrs := c16ValidHeaders(rng)
	prim1, err := c16BuildPrimary(rng.Fork(), 7, 1)
	if err != nil {
		return fmt.Errorf("primary v1: %w", err)
	}
	prim0, err := c16BuildPrimary(rng.Fork(), 4, 0)
	if err != nil {
		return fmt.Errorf("primary v0: %w", err)
	}
	hdrs = append(hdrs, prim1.headers...)
	hdrs = append(hdrs, prim0.headers...)
	valrefs := c16ValidValRefs(rng, txmds, kvmds)
	valrefs = append(valrefs, prim1.idxVals...)
	r.CountN("valref.real-index-values", len(prim1.idxVals))
	appmds := c16ValidAppmds(rng, c.appmdBounded)

	type family struct {
		decs   []string
		valid  [][]byte
		maxU32 uint64
		budget int
		rndLen int
	}
	fams := []family{
		{[]string{"txmd", "txmd.bytes"}, txmds, 0, 100, 300},
		{[]string{"kvmd"}, kvmds, 0, 64, 16},
		{[]string{"txhdr"}, hdrs, 0, 60, 420},
		{[]string{"valref"}, valrefs, 0, 50, 120},
		{[]string{"appmd"}, appmds, appmdCap, 120, 64},
	}
	for _, f := range fams {
		for vi, v := range f.valid {
			r.NextCase()
			budget := f.budget
			if vi >= 12 && !thorough {
				budget = f.budget / 4
			}
			for _, in := range c16Mutations(rng, v, nil, f.maxU32, budget*scale) {
				for _, d := range f.decs {
					if d == "appmd" && !c.appmdBounded && c16AppmdDeclaredMax(in.b) > 1<<20 {
						r.Count("appmd.skipped-huge-declared-length")
						continue
					}
					c.feed(d, in)
				}
			}
		}
		r.NextCase()
		for _, in := range c16RandomInputs(rng, 300*scale, f.rndLen) {
			for _, d := range f.decs {
				if d == "appmd" && !c.appmdBounded && c16AppmdDeclaredMax(in.b) > 1<<20 {
					r.Count("appmd.skipped-huge-declared-length")
					continue
				}
				c.feed(d, in)
			}
		}
		if err := r.Flush(); err != nil {
			return err
		}
		phase(f.decs[0])
	}
	c16SQLValues(c, rng.Fork(), scale)
	phase("sqlval")
	// explicit allocation probe: 4 input bytes declaring a 64 MiB field (fixed; fails with
	// C16:appendable.Metadata.ReadFrom:alloc-exceeds-bound if readField allocates from the declared length again)
	r.NextCase()
	c.feed("appmd", c16Input{[]byte{0x04, 0, 0, 0}, "alloc-probe"})
	runtime.GC()

	// ---- ReplicateTx on a real replica ----
	if err := c16Replicate(c, rng.Fork(), prim1, 70*scale, thorough); err != nil {
		return err
	}
	if err := c16Replicate(c, rng.Fork(), prim0, 30*scale, thorough); err != nil {
		return err
	}
	phase("replicate")
	if err := r.Flush(); err != nil {
		return err
	}
	phase("replicate-flush")

	// ---- search-only parsers ----
	c16SearchSQL(c, rng.Fork(), scale)
	phase("sql")
	c16SearchPgsql(c, rng.Fork(), scale)
	phase("pgsql")
	c16SearchStream(c, rng.Fork(), scale)
	phase("stream")
	c16SearchSingleapp(c, rng.Fork(), scale)
	phase("singleapp")
	c16SearchVerifyDocument(c, rng.Fork(), scale)
	phase("verifydocument")

	r.Sample(map[string]interface{}{"decoder": "txmd", "input": "010005", "impl": c.decOut("txmd", []byte{1, 0, 5}), "model": "err:corruptedData (theorem txMetadata_readFrom_rejects_overrun; panic without the guard: txMetadata_readFrom_guard_needed)"})
	r.Sample(map[string]interface{}{"decoder": "txmd", "input": "0000000000000000090100020708", "impl": c.decOut("txmd", []byte{0, 0, 0, 0, 0, 0, 0, 0, 9, 1, 0, 2, 7, 8})})
	r.Sample(map[string]interface{}{"decoder": "kvmd", "input": "00010000000000000009" + "02", "impl": c.decOut("kvmd", []byte{0, 1, 0, 0, 0, 0, 0, 0, 0, 9, 2})})
	r.Sample(map[string]interface{}{"decoder": "appmd", "input": "00000000", "impl": c.decOut("appmd", []byte{0, 0, 0, 0}), "model": "err:corrupted-metadata (theorem appMetadata_readFrom_rejects_short_count; panic before the repair)"})
	if len(prim1.exported) > 0 {
		r.Sample(map[string]interface{}{"decoder": "ReplicateTx", "valid_exported_tx_1": hx.Hex(prim1.exported[0])})
	}
	r.Extra["slow_calls_not_counted_as_hang"] = fmt.Sprint(c16SlowCalls)
	r.Extra["search_only"] = "sql.ParseSQLString, pgsql fmessages.Parse*Msg, pkg/stream (ReadValue, msgReceiver, ParseVerifiableEntry), singleapp.Open header, verification.VerifyDocument(EncodedDocument): no Lean model, panic/hang/alloc oracle only"
	return nil
}

func (c *c16Run) decOut(dec string, b []byte) string {
	res := c16Guard(c.timeout, func() string { return c.decs[dec].call(b) })
	return res.out
}

// walk of the appendable.Metadata framing (inputs < 4096 bytes): the largest declared field length reached
func c16AppmdDeclaredMax(b []byte) uint64 {
	pos := 0
	var max uint64
	rd := func() (uint64, int, bool) { // declared, stored, ok
		if pos >= len(b) {
			return 0, 0, false
		}
		var lenb [4]byte
		pos += copy(lenb[:], b[pos:])
		n := uint64(binary.BigEndian.Uint32(lenb[:]))
		if n > max {
			max = n
		}
		if n == 0 {
			return 0, 0, true
		}
		if pos >= len(b) {
			return n, 0, false
		}
		st := len(b) - pos
		if uint64(st) > n {
			st = int(n)
		}
		pos += st
		return n, st, true
	}
	n0, st0, ok := rd()
	if !ok || n0 < 4 {
		return max
	}
	var cb [4]byte
	copy(cb[:], b[pos-st0:pos])
	cnt := binary.BigEndian.Uint32(cb[:])
	for i := uint32(0); i < cnt; i++ {
		if _, _, ok := rd(); !ok {
			break
		}
		if _, _, ok := rd(); !ok {
			break
		}
	}
	return max
}

// ---------- embedded/sql row values (DecodeValue / DecodeNullableValue / DecodeValueLength) ----------

var c16SQLTypes = []sql.SQLValueType{sql.VarcharType, sql.IntegerType, sql.BooleanType, sql.BLOBType, sql.JSONType, sql.UUIDType, sql.TimestampType, sql.Float64Type, sql.AnyType}

func c16SQLValCanon(b []byte, t sql.SQLValueType, v sql.TypedValue, n int, err error) string {
	if t == sql.JSONType && (err == nil || !errors.Is(err, sql.ErrCorruptedData)) && (v == nil || !v.IsNull()) {
		// json.Unmarshal is outside the model: only the framing (payload slice and offset) is compared
		l := int(binary.BigEndian.Uint32(b))
		return fmt.Sprintf("ok json:%s n=%d", hx.Hex(b[4:4+l]), 4+l)
	}
	if err != nil {
		return c16ErrClass(err)
	}
	if v.IsNull() {
		return fmt.Sprintf("ok null n=%d", n)
	}
	switch x := v.RawValue().(type) {
	case string:
		return fmt.Sprintf("ok varchar:%s n=%d", hx.Hex([]byte(x)), n)
	case int64:
		return fmt.Sprintf("ok integer:%d n=%d", uint64(x), n)
	case bool:
		return fmt.Sprintf("ok bool:%s n=%d", b01(x), n)
	case []byte:
		return fmt.Sprintf("ok blob:%s n=%d", hx.Hex(x), n)
	case time.Time:
		return fmt.Sprintf("ok timestamp:%d n=%d", uint64(sql.TimeToInt64(x)), n)
	case float64:
		return fmt.Sprintf("ok float:%d n=%d", math.Float64bits(x), n)
	}
	if t == sql.UUIDType {
		return fmt.Sprintf("ok uuid:%s n=%d", hx.Hex(b[4:20]), n)
	}
	return fmt.Sprintf("ok ?%T n=%d", v.RawValue(), n)
}

func c16SQLValues(c *c16Run, rng *hx.Rng, scale int) {
	r := c.r
	enc := func(v sql.TypedValue, t sql.SQLValueType) []byte {
		b, err := sql.EncodeValue(v, t, 0)
		if err != nil {
			panic(err)
		}
		return b
	}
	js, _ := sql.NewJsonFromString(`{"a":[1,2,{"b":null}],"c":"x"}`)
	valid := []struct {
		t sql.SQLValueType
		b []byte
	}{
		{sql.VarcharType, enc(sql.NewVarchar(""), sql.VarcharType)}, {sql.VarcharType, enc(sql.NewVarchar("héllo"), sql.VarcharType)},
		{sql.IntegerType, enc(sql.NewInteger(-5), sql.IntegerType)}, {sql.BooleanType, enc(sql.NewBool(true), sql.BooleanType)},
		{sql.BLOBType, enc(sql.NewBlob(rng.Bytes(33)), sql.BLOBType)}, {sql.JSONType, enc(js, sql.JSONType)},
		{sql.TimestampType, enc(&sql.Timestamp{}, sql.TimestampType)}, {sql.Float64Type, enc(sql.NewFloat64(-0.0), sql.Float64Type)},
		{sql.UUIDType, append([]byte{0, 0, 0, 16}, rng.Bytes(16)...)},
	}
	feed := func(t sql.SQLValueType, nullable bool, in c16Input) {
		key := c16Key(fmt.Sprintf("sqlval.%s.%v", t, nullable), in.b)
		if c.seen[key] {
			return
		}
		c.seen[key] = true
		res := c16Guard(c.timeout, func() string {
			var v sql.TypedValue
			var n int
			var err error
			if nullable {
				v, n, err = sql.DecodeNullableValue(in.b, t)
			} else {
				v, n, err = sql.DecodeValue(in.b, t)
			}
			return c16SQLValCanon(in.b, t, v, n, err)
		})
		r.Count("sqlval.in." + in.label)
		r.Count("sqlval.out." + c16Class(res.out))
		c.oracle("sql.decodeValue", in.b, res)
		r.Eval(key, len(in.b) > 0)
		if !res.hung {
			r.Corr(fmt.Sprintf("c16 sqlval %s %s %s", t, b01(nullable), hx.Hex(in.b)), res.out)
		}
	}
	r.NextCase()
	var inputs []c16Input
	for _, v := range valid {
		for _, in := range c16Mutations(rng, v.b, nil, 0, 40*scale) {
			inputs = append(inputs, in)
			feed(v.t, false, in)
			feed(v.t, true, in)
		}
	}
	inputs = append(inputs, c16RandomInputs(rng, 150*scale, 40)...)
	for _, in := range inputs {
		t := c16SQLTypes[rng.Intn(len(c16SQLTypes))]
		feed(t, rng.Bool(), in)
		// DecodeValueLength alone
		key := c16Key("sqlvlen", in.b)
		if !c.seen[key] {
			c.seen[key] = true
			b := in.b
			res := c16Guard(c.timeout, func() string {
				l, o, err := sql.DecodeValueLength(b)
				if err != nil {
					return c16ErrClass(err)
				}
				return fmt.Sprintf("ok vlen=%d off=%d", l, o)
			})
			c.oracle("sql.DecodeValueLength", in.b, res)
			r.Eval(key, len(in.b) > 0)
			r.Count("sqlvlen.out." + c16Class(res.out))
			if !res.hung {
				r.Corr("c16 sqlvlen "+hx.Hex(in.b), res.out)
			}
		}
	}
}

// ---------- attack templates ----------

type c16Tpl struct {
	dec string
	b   []byte
}

func c16Templates() []c16Tpl {
	var ts []c16Tpl
	// extra attribute declaring more than the buffer holds
	ts = append(ts, c16Tpl{"txmd", []byte{1, 0, 5}}, c16Tpl{"txmd", []byte{1, 0xff, 0xff}}, c16Tpl{"txmd", []byte{1, 0, 1}},
		c16Tpl{"txmd", []byte{1, 0xff, 0xff, 1}})
	// extra attribute longer than maxExtraLen that fits exactly: accepted, Bytes() of the result
	for _, n := range []int{256, 257, 265} {
		b := append([]byte{1, byte(n >> 8), byte(n)}, make([]byte, n)...)
		ts = append(ts, c16Tpl{"txmd", b}, c16Tpl{"txmd.bytes", b})
	}
	// v1 header: the 72 bytes after NEntries are not checked
	mkHdr := func(total int, md []byte) []byte {
		b := make([]byte, 0, total)
		b = binary.BigEndian.AppendUint64(b, 2)
		b = append(b, make([]byte, 32)...)
		b = binary.BigEndian.AppendUint64(b, 99)
		b = binary.BigEndian.AppendUint16(b, 1)
		b = binary.BigEndian.AppendUint16(b, uint16(len(md)))
		b = append(b, md...)
		b = binary.BigEndian.AppendUint32(b, 1)
		for len(b) < total {
			b = append(b, 0)
		}
		return b
	}
	md29 := append([]byte{1, 0, 26}, make([]byte, 26)...)
	md68 := append([]byte{1, 0, 65}, make([]byte, 65)...)
	ts = append(ts, c16Tpl{"txhdr", mkHdr(124, md29)}, c16Tpl{"txhdr", mkHdr(124, md68)}, c16Tpl{"txhdr", mkHdr(124, nil)}, c16Tpl{"txhdr", mkHdr(127, nil)}, c16Tpl{"txhdr", mkHdr(128, nil)})
	// value ref carrying a malformed tx metadata
	vr := make([]byte, 44)
	vr = append(vr, 0, 3, 1, 0, 5, 0, 0)
	ts = append(ts, c16Tpl{"valref", vr})
	// appendable metadata: first field shorter than 4 bytes
	ts = append(ts, c16Tpl{"appmd", []byte{0, 0, 0, 0}}, c16Tpl{"appmd", []byte{0, 0, 0, 1, 9}}, c16Tpl{"appmd", []byte{0, 0, 0, 3, 0, 0, 1}}, c16Tpl{"appmd", []byte{9}})
	return ts
}

// ---------- ReplicateTx ----------

func c16Replicate(c *c16Run, rng *hx.Rng, p *c16Primary, budget int, thorough bool) error {
	r := c.r
	valid := p.exported
	rp, err := c16NewReplica(valid, 0)
	if err != nil {
		return err
	}
	defer func() { rp.drop(true) }()
	rebuild := func(upto int) error {
		old := rp
		go old.drop(true)
		n, err := c16NewReplica(valid, upto)
		if err != nil {
			return err
		}
		rp = n
		return nil
	}
	// Mutants of header fields that the replica accepts by design (Ts, tx-metadata content: finding K3 of C07)
	// cost a replica rebuild each; per first differing offset at most two accepted mutants are run.
	acceptedAt := map[int]int{}
	call := func(t int, in c16Input, isValid bool) error {
		key := c16Key("replicate", in.b)
		if c.seen[key] && !isValid {
			return nil
		}
		c.seen[key] = true
		if !isValid && t < len(valid) && acceptedAt[c16FirstDiff(in.b, valid[t])] >= 2 {
			r.Count("replicate.skipped-known-lenient-field")
			return nil
		}
		before := rp.state()
		var gerr error
		var ghdr *store.TxHeader
		res := c16Guard(c.timeout, func() string {
			ctx, cancel := context.WithTimeout(context.Background(), 15*time.Second)
			defer cancel()
			ghdr, gerr = rp.st.ReplicateTx(ctx, in.b, false, false)
			if gerr == nil {
				return "framed"
			}
			if c16FramingMsgs[gerr.Error()] {
				return c16ErrClass(gerr)
			}
			return "framed"
		})
		r.Count("replicate.in." + in.label)
		r.OracleChecks++
		r.Eval(key, len(in.b) > 0)
		if res.hung {
			r.Count("replicate.out.hang")
			r.Fail("C16:ReplicateTx:hang", "ReplicateTx did not return", map[string]string{"input": hx.Hex(in.b), "replica_txs": fmt.Sprint(t)})
			return rebuild(t)
		}
		if gerr != nil && (errors.Is(gerr, context.DeadlineExceeded) || errors.Is(gerr, context.Canceled)) {
			// the context expired somewhere inside the call: not attributable to a stage, not compared
			r.Count("replicate.out.ctx-deadline")
			r.Fail("C16:ReplicateTx:hang", "ReplicateTx only returned when its 15 s context expired", map[string]string{"input": hx.Hex(in.b), "replica_txs": fmt.Sprint(t)})
			return rebuild(t)
		}
		r.Corr("c16 replicate "+hx.Hex(in.b), res.out)
		switch {
		case res.panicked:
			r.Count("replicate.out.panic")
			r.Fail("C16:"+res.site, fmt.Sprintf("%s panics on a malformed exported tx (%s), reached through ReplicateTx", res.site, res.pval),
				map[string]string{"decoder": "ReplicateTx", "input": hx.Hex(in.b), "panic": res.pval, "replica_txs": fmt.Sprint(t)})
		case gerr != nil:
			if res.out == "framed" {
				r.Count("replicate.out.rejected-after-framing")
			} else {
				r.Count("replicate.out." + res.out)
			}
		default:
			r.Count("replicate.out.accepted")
			if !isValid {
				r.Count("replicate.out.accepted-mutant") // lenient decoding: counted, not a failure
				acceptedAt[c16FirstDiff(in.b, valid[t])]++
			}
		}
		if res.alloc > c16AllocBound(len(in.b)) {
			r.Fail("C16:ReplicateTx:alloc-exceeds-bound", fmt.Sprintf("ReplicateTx allocated %d bytes for a %d-byte input", res.alloc, len(in.b)), map[string]string{"input": hx.Hex(in.b)})
		}
		// oracle: error (or panic) => replica state unchanged; success => exactly one more tx
		var after c16State
		sres := c16Guard(c.timeout, func() string { after = rp.state(); return "" })
		if sres.hung {
			r.Fail("C16:ReplicateTx:state-locked-after-failure", "replica state not readable after a failed ReplicateTx", map[string]string{"input": hx.Hex(in.b)})
			return rebuild(t)
		}
		if res.panicked || gerr != nil {
			if after != before {
				r.Fail("C16:ReplicateTx:partial-effect-on-error", fmt.Sprintf("replica state changed although ReplicateTx failed (%v): precommitted %d->%d committed %d->%d", gerr, before.pid, after.pid, before.cid, after.cid),
					map[string]string{"input": hx.Hex(in.b), "replica_txs": fmt.Sprint(t)})
				return rebuild(t)
			}
		} else {
			if after.pid != before.pid+1 || ghdr == nil || ghdr.ID != after.pid {
				r.Fail("C16:ReplicateTx:accepted-without-single-advance", fmt.Sprintf("accepted but precommitted %d->%d", before.pid, after.pid), map[string]string{"input": hx.Hex(in.b)})
			}
			// the record the store ingested vs the record the model parsed
			holder := store.NewTx(rp.st.MaxTxEntries(), rp.st.MaxKeyLen())
			if err := rp.st.ReadTx(ghdr.ID, false, holder); err == nil {
				var sb strings.Builder
				fmt.Fprintf(&sb, "ok n=%d", holder.Header().NEntries)
				for _, e := range holder.Entries() {
					hv := e.HVal()
					fmt.Fprintf(&sb, " %s:%s:%x", hx.Hex(e.Key()), c16OptKvmd(e.Metadata()), hv[:])
				}
				r.Corr("c16 replicate.rec "+hx.Hex(in.b), sb.String())
			}
			if !isValid {
				return rebuild(t)
			}
		}
		return nil
	}

	// templates built from the first valid exported tx
	r.NextCase()
	for _, in := range c16ReplicateTemplates(valid[0]) {
		if err := call(0, in, false); err != nil {
			return err
		}
	}
	for t := 0; t < len(valid); t++ {
		r.NextCase()
		acceptedAt = map[int]int{}
		b := budget
		if t >= 3 {
			b = budget / 3
		}
		muts := c16Mutations(rng, valid[t], c16ExportedFields(valid[t]), 0, b)
		muts = append(muts, c16Mutations(rng, valid[t], nil, 0, b/4)...)
		for _, in := range muts[1:] { // [0] is the valid encoding itself: applied last
			if bytes.Equal(in.b, valid[t]) {
				continue
			}
			if err := call(t, in, false); err != nil {
				return err
			}
		}
		if t == 0 {
			for _, in := range c16RandomInputs(rng, budget/2, 300) {
				if err := call(t, in, false); err != nil {
					return err
				}
			}
		}
		if err := call(t, c16Input{valid[t], "valid"}, true); err != nil {
			return err
		}
		if s := rp.state(); s.pid != uint64(t+1) {
			return fmt.Errorf("replica did not accept valid tx %d (state %d)", t+1, s.pid)
		}
	}
	return nil
}

func c16FirstDiff(a, b []byte) int {
	for k := 0; k < len(a) && k < len(b); k++ {
		if a[k] != b[k] {
			return k
		}
	}
	if len(a) != len(b) {
		return -2 - len(a)
	}
	return -1
}

func c16ReplicateTemplates(v []byte) []c16Input {
	var out []c16Input
	// the exact inputs of Props/C16.lean (replicateTx_rejects_vLen/_tLen/_tZero and their *_guard_needed twins): 00 00 00 7c + a synthetic
	// version-0 header (ID 1, NEntries 1), then the malformed entry / trailer
	rh := []byte{0, 0, 0, 124, 0, 0, 0, 0, 0, 0, 0, 1}
	rh = append(rh, make([]byte, 32+8)...)
	rh = append(rh, 0, 0, 0, 1)
	rh = append(rh, make([]byte, 72)...)
	out = append(out,
		c16Input{append(c16Clone(rh), 0, 1, 97, 0, 1, 0, 0, 0, 0), "tpl-witness-vlen"},
		c16Input{append(c16Clone(rh), 0, 1, 97, 0, 0, 0, 0, 0, 0, 0), "tpl-witness-tlen"},
		c16Input{append(c16Clone(rh), 0, 1, 97, 0, 0, 0, 0, 0, 0, 0, 0), "tpl-witness-tzero"},
		c16Input{append(c16Clone(rh), 0, 1, 97, 0, 0, 0, 0, 0, 0, 0, 1, 0), "tpl-witness-wellframed"})
	hdrLen := int(binary.BigEndian.Uint32(v))
	hdr := c16Clone(v[:4+hdrLen])
	// one entry, kLen=1, mdLen=1 (deleted), then 0..3 bytes instead of the 4-byte vLen
	for tail := 0; tail <= 4; tail++ {
		b := append(c16Clone(hdr), 0, 1, 'a', 0, 1, 0)
		b = append(b, make([]byte, tail)...)
		out = append(out, c16Input{b, "tpl-vlen-after-md"})
	}
	// trailing single byte instead of the 2-byte tLen
	if len(v) >= 3 {
		out = append(out, c16Input{c16Clone(v[:len(v)-2]), "tpl-tlen-1byte"})
		// tLen = 0
		b := c16Clone(v[:len(v)-3])
		b = append(b, 0, 0)
		out = append(out, c16Input{b, "tpl-tlen-zero"})
		// truncation flag values
		for _, x := range []byte{1, 2, 255} {
			b := c16Clone(v)
			b[len(b)-1] = x
			out = append(out, c16Input{b, "tpl-truncflag"})
		}
		// no trailer at all
		out = append(out, c16Input{c16Clone(v[:len(v)-3]), "tpl-no-trailer"})
	}
	return out
}

// ---------- search-only: SQL text ----------

var c16SQLCorpus = []string{
	"CREATE DATABASE db1", "USE DATABASE db1", "USE SNAPSHOT SINCE TX 1",
	"CREATE TABLE IF NOT EXISTS t1 (id INTEGER AUTO_INCREMENT, name VARCHAR[50] NOT NULL, ts TIMESTAMP, b BLOB[32], f FLOAT, ok BOOLEAN, j JSON, u UUID, PRIMARY KEY id)",
	"CREATE UNIQUE INDEX ON t1(name, ts)", "CREATE INDEX IF NOT EXISTS ON t1(f)", "DROP INDEX ON t1(f)", "DROP TABLE t1",
	"ALTER TABLE t1 ADD COLUMN c2 INTEGER", "ALTER TABLE t1 RENAME COLUMN c2 TO c3", "ALTER TABLE t1 RENAME TO t2", "ALTER TABLE t1 DROP COLUMN c3",
	"INSERT INTO t1 (id, name, ts, b, f, ok) VALUES (1, 'a''b', NOW(), x'AABB', 1.5e3, TRUE), (@p1, $2, CAST('2020-01-01' AS TIMESTAMP), NULL, -0.0, false)",
	"UPSERT INTO t1 (id, name) VALUES (1, 'x') ON CONFLICT DO NOTHING", "INSERT INTO t1(id) SELECT id FROM t2 WHERE id > 3",
	"UPDATE t1 SET name = 'y', f = f * 2 + 1 WHERE id >= 1 AND NOT (ok OR f < 2.0) LIMIT 10 OFFSET 2",
	"DELETE FROM t1 WHERE id IN (1, 2, 3) OR name LIKE '^a.*' OR id NOT IN (SELECT id FROM t2)",
	"SELECT DISTINCT t.id AS i, COUNT(*), MAX(f), UPPER(name) FROM t1 AS t INNER JOIN t2 ON t.id = t2.id LEFT JOIN t3 ON t3.x = t.id WHERE t.ts BEFORE NOW() GROUP BY t.id HAVING COUNT(*) > 1 ORDER BY i DESC, f ASC LIMIT 5 OFFSET 1",
	"SELECT * FROM (SELECT id FROM t1 USE INDEX ON (name) WHERE EXISTS (SELECT 1 FROM t2)) UNION ALL SELECT id FROM t3",
	"SELECT id FROM t1 BEFORE TX 10 SINCE TX 2 AFTER TX 1 UNTIL TX 9", "SELECT j->'a'->'b', CASE WHEN id > 1 THEN 'a' WHEN id < 0 THEN 'b' ELSE 'c' END FROM t1",
	"SELECT id::VARCHAR, -id, id % 2, (id + 1) * (2 - id) / 3 FROM t1 WHERE id IS NOT NULL AND name IS NULL AND id BETWEEN 1 AND 3",
	"BEGIN TRANSACTION; INSERT INTO t1(id) VALUES (1); SAVEPOINT s1; ROLLBACK TO SAVEPOINT s1; RELEASE SAVEPOINT s1; COMMIT;", "ROLLBACK",
	"CREATE USER u1 WITH PASSWORD 'P@ss1' READWRITE", "ALTER USER u1 WITH PASSWORD 'x' ADMIN", "DROP USER u1", "GRANT SELECT, INSERT ON DATABASE db1 TO USER u1", "REVOKE ALL PRIVILEGES ON DATABASE db1 TO USER u1",
	"SHOW TABLES", "SHOW DATABASES", "SHOW TABLE t1", "SHOW USERS", "SHOW GRANTS FOR u1", "SELECT * FROM tables()", "SELECT * FROM columns('t1')", "SELECT * FROM indexes('t1')",
	"SELECT HISTORY OF t1", "SELECT _rev, id FROM (HISTORY OF t1)", "SELECT * FROM (DIFF OF t1)", "CREATE TABLE t (id INTEGER, CHECK (id > 0), CONSTRAINT c CHECK (id < 10), PRIMARY KEY (id))",
	"ALTER TABLE t DROP CONSTRAINT c", "SELECT * FROM t WHERE id = @id AND name = $1 AND f = ?", "SELECT 1; SELECT 2;", "select /* c */ 1 -- x\n", "SELECT \"quoted id\" FROM \"T\"",
}

func c16SQLTokens() []string {
	return []string{"(", ")", ",", ";", "'", "\"", "SELECT", "FROM", "WHERE", "AND", "OR", "NOT", "NULL", "*", "-", "+", "/", "%", ".", "::", "->", "@", "$", "?", "1", "1e999999", "99999999999999999999999", "x'", "x'0'", "x'zz'", "''", "\\", "\x00", "\xff\xfe", "/*", "*/", "--", "CASE", "WHEN", "END", "IN", "EXISTS", "LIKE", "BETWEEN", "CAST", "AS", "[", "]", "[99999999999]", "e", "E+", "0x", ":", "=", "<>", "<=", "!", "!=", "||", "&", "\n", "\t", "é", "𝔘"}
}

func c16SearchSQL(c *c16Run, rng *hx.Rng, scale int) {
	r := c.r
	toks := c16SQLTokens()
	sqlHangs := 0
	try := func(s string, label string) {
		if sqlHangs >= 3 {
			// the parser does not terminate on several inputs (reported): every further such input leaves a spinning goroutine behind
			r.Count("search-only.sql.skipped-after-confirmed-hangs")
			return
		}
		res := c16Guard(10*time.Second, func() string {
			_, err := sql.ParseSQLString(s)
			if err != nil {
				return "err"
			}
			return "ok"
		})
		r.Count("search-only.sql.in." + label)
		r.Count("search-only.sql.out." + res.out)
		r.OracleChecks++
		r.Eval(c16Key("sql", []byte(s)), len(s) > 0)
		if res.hung {
			sqlHangs++
			r.Fail("C16:sql.ParseSQLString:hang", "ParseSQLString did not return within 10s + confirmation window (260s)", map[string]string{"input_hex": hx.Hex([]byte(s))})
		}
		if res.panicked {
			r.Fail("C16:"+res.site, "sql.ParseSQLString panics ("+res.pval+")", map[string]string{"decoder": "sql.ParseSQLString", "input_hex": hx.Hex([]byte(s)), "input": s, "panic": res.pval})
		}
		if res.alloc > 64<<20+8192*uint64(len(s)) { // the goyacc value stack costs ~2.3 KiB per nesting level: linear
			r.Fail("C16:sql.ParseSQLString:alloc-exceeds-bound", fmt.Sprintf("allocated %d bytes for %d input bytes", res.alloc, len(s)), map[string]string{"input_hex": hx.Hex([]byte(s))})
		}
	}
	try("", "empty")
	for _, s := range c16SQLCorpus {
		try(s, "valid")
		bs := []byte(s)
		for k := 0; k < len(bs); k++ {
			try(string(bs[:k]), "trunc")
		}
		for k := 0; k < 40*scale; k++ {
			b := c16Clone(bs)
			switch rng.Intn(6) {
			case 0: // delete a span
				i := rng.Intn(len(b))
				j := i + rng.Intn(len(b)-i+1)
				b = append(b[:i], b[j:]...)
			case 1: // insert a token
				i := rng.Intn(len(b) + 1)
				t := toks[rng.Intn(len(toks))]
				b = append(b[:i], append([]byte(" "+t+" "), b[i:]...)...)
			case 2: // replace a byte
				b[rng.Intn(len(b))] = byte(rng.U64())
			case 3: // duplicate a span
				i := rng.Intn(len(b))
				j := i + rng.Intn(len(b)-i+1)
				b = append(b[:j], append(c16Clone(b[i:j]), b[j:]...)...)
			case 4: // splice two statements
				o := []byte(c16SQLCorpus[rng.Intn(len(c16SQLCorpus))])
				i := rng.Intn(len(b))
				j := rng.Intn(len(o))
				b = append(b[:i], o[j:]...)
			case 5: // swap token with random token
				i := rng.Intn(len(b))
				t := toks[rng.Intn(len(toks))]
				b = append(b[:i], append([]byte(t), b[i:]...)...)
			}
			try(string(b), "mutated")
		}
	}
	for k := 0; k < 300*scale; k++ {
		try(string(rng.Bytes(rng.Size(200))), "random")
		n := 1 + rng.Intn(12)
		var sb strings.Builder
		for i := 0; i < n; i++ {
			sb.WriteString(toks[rng.Intn(len(toks))])
			sb.WriteByte(' ')
		}
		try(sb.String(), "random-tokens")
	}
	for _, depth := range []int{10, 100, 1000, 10000 * scale} {
		try("SELECT "+strings.Repeat("(", depth)+"1"+strings.Repeat(")", depth), "deep-nesting")
		try("SELECT "+strings.Repeat("(", depth), "deep-nesting")
		try("SELECT "+strings.Repeat("NOT ", depth)+"TRUE", "deep-nesting")
		try("SELECT "+strings.Repeat("-", depth)+"1", "deep-nesting")
		try("SELECT 1 FROM t WHERE "+strings.Repeat("a = 1 AND ", depth)+"b = 2", "deep-nesting")
		try("SELECT * FROM "+strings.Repeat("(SELECT * FROM ", depth/10+1)+"t"+strings.Repeat(")", depth/10+1), "deep-nesting")
		try("SELECT CASE "+strings.Repeat("WHEN 1 THEN CASE ", depth/10+1), "deep-nesting")
	}
}

// ---------- search-only: pgsql frontend messages ----------

func c16PgStr(s string) []byte { return append([]byte(s), 0) }

func c16SearchPgsql(c *c16Run, rng *hx.Rng, scale int) {
	r := c.r
	parsers := map[string]func(b []byte) error{
		"ParseBindMsg":      func(b []byte) error { _, err := fm.ParseBindMsg(b); return err },
		"ParseParseMsg":     func(b []byte) error { _, err := fm.ParseParseMsg(b); return err },
		"ParseExecuteMsg":   func(b []byte) error { _, err := fm.ParseExecuteMsg(b); return err },
		"ParseDescribeMsg":  func(b []byte) error { _, err := fm.ParseDescribeMsg(b); return err },
		"ParseQueryMsg":     func(b []byte) error { _, err := fm.ParseQueryMsg(b); return err },
		"ParsePasswordMsg":  func(b []byte) error { _, err := fm.ParsePasswordMsg(b); return err },
		"ParseSyncMsg":      func(b []byte) error { _, err := fm.ParseSyncMsg(b); return err },
		"ParseFlushMsg":     func(b []byte) error { _, err := fm.ParseFlushMsg(b); return err },
		"ParseTerminateMsg": func(b []byte) error { _, err := fm.ParseTerminateMsg(b); return err },
		"ParseCopyDataMsg":  func(b []byte) error { _, err := fm.ParseCopyDataMsg(b); return err },
		"ParseCopyDoneMsg":  func(b []byte) error { _, err := fm.ParseCopyDoneMsg(b); return err },
		"ParseCopyFailMsg":  func(b []byte) error { _, err := fm.ParseCopyFailMsg(b); return err },
	}
	bind := func(nfmt int, fmts []int16, params [][]byte, rfmts []int16) []byte {
		b := append(c16PgStr("portal"), c16PgStr("stmt")...)
		b = binary.BigEndian.AppendUint16(b, uint16(nfmt))
		for _, f := range fmts {
			b = binary.BigEndian.AppendUint16(b, uint16(f))
		}
		b = binary.BigEndian.AppendUint16(b, uint16(len(params)))
		for _, p := range params {
			if p == nil {
				b = binary.BigEndian.AppendUint32(b, 0xffffffff)
				continue
			}
			b = binary.BigEndian.AppendUint32(b, uint32(len(p)))
			b = append(b, p...)
		}
		b = binary.BigEndian.AppendUint16(b, uint16(len(rfmts)))
		for _, f := range rfmts {
			b = binary.BigEndian.AppendUint16(b, uint16(f))
		}
		return b
	}
	valid := map[string][][]byte{
		"ParseBindMsg": {
			bind(0, nil, nil, nil), bind(1, []int16{0}, [][]byte{[]byte("abc"), nil}, []int16{0}), bind(1, []int16{1}, [][]byte{{1, 2, 3, 4}}, []int16{1, 0}),
			bind(2, []int16{0, 1}, [][]byte{[]byte("x"), {0, 0, 0, 7}}, nil), bind(3, []int16{0, 1, 0}, [][]byte{[]byte("x"), {9}, {}}, []int16{0}),
		},
		"ParseParseMsg":    {append(append(c16PgStr("st"), c16PgStr("SELECT $1, $2")...), 0, 2, 0, 0, 0, 23, 0, 0, 0, 25), append(append(c16PgStr(""), c16PgStr("SELECT 1")...), 0, 0)},
		"ParseExecuteMsg":  {append(c16PgStr("portal"), 0, 0, 0, 10), append(c16PgStr(""), 0, 0, 0, 0)},
		"ParseDescribeMsg": {append([]byte{'S'}, c16PgStr("st")...), append([]byte{'P'}, c16PgStr("")...)},
		"ParseQueryMsg":    {c16PgStr("SELECT 1;"), c16PgStr("")},
		"ParsePasswordMsg": {c16PgStr("secret"), c16PgStr("")},
		"ParseCopyFailMsg": {c16PgStr("boom"), {}},
	}
	names := make([]string, 0, len(parsers))
	for n := range parsers {
		names = append(names, n)
	}
	sort.Strings(names)
	for _, name := range names {
		p := parsers[name]
		try := func(in c16Input) {
			key := c16Key("pg."+name, in.b)
			if c.seen[key] {
				return
			}
			c.seen[key] = true
			res := c16Guard(c.timeout, func() string {
				if err := p(in.b); err != nil {
					return "err"
				}
				return "ok"
			})
			r.Count("search-only.pgsql." + name + ".in." + in.label)
			r.Count("search-only.pgsql." + name + ".out." + res.out)
			r.OracleChecks++
			r.Eval(key, len(in.b) > 0)
			if res.hung {
				r.Fail("C16:fmessages."+name+":hang", name+" did not return", map[string]string{"input": hx.Hex(in.b)})
			}
			if res.panicked {
				r.Fail("C16:"+res.site, name+" panics ("+res.pval+")", map[string]string{"decoder": "fmessages." + name, "input": hx.Hex(in.b), "panic": res.pval})
			}
			if res.alloc > c16AllocBound(len(in.b))+32<<20 { // pgmeta.MaxMsgSize (32 MiB) is the protocol's own limit
				r.Fail("C16:fmessages."+name+":alloc-exceeds-bound", fmt.Sprintf("allocated %d bytes for %d input bytes", res.alloc, len(in.b)), map[string]string{"input": hx.Hex(in.b)})
			}
		}
		try(c16Input{nil, "nil"})
		for _, in := range c16RandomInputs(rng, 150*scale, 64) {
			try(in)
		}
		for _, v := range valid[name] {
			for _, in := range c16Mutations(rng, v, nil, 0, 40*scale) {
				try(in)
			}
		}
	}
}

// ---------- search-only: pkg/stream ----------

type c16FakeStream struct {
	chunks [][]byte
	pos    int
}

func (f *c16FakeStream) Recv() (*schema.Chunk, error) {
	if f.pos >= len(f.chunks) {
		return nil, io.EOF
	}
	c := &schema.Chunk{Content: f.chunks[f.pos]}
	f.pos++
	return c, nil
}

// message sizes that would make the process die (runtime out-of-memory is not recoverable) are not sent
func c16DangerousSize(v uint64) bool { return v > 1<<27 && v <= 1<<48 }

func c16SearchStream(c *c16Run, rng *hx.Rng, scale int) {
	r := c.r
	split := func(b []byte) [][]byte {
		var cs [][]byte
		for len(b) > 0 {
			n := 1 + rng.Intn(len(b))
			if rng.Chance(30) && len(b) >= 8 {
				n = 8
			}
			cs = append(cs, b[:n])
			b = b[n:]
		}
		return cs
	}
	run := func(name string, in []byte, label string, f func() string) {
		res := c16Guard(c.timeout, f)
		r.Count("search-only.stream." + name + ".in." + label)
		r.Count("search-only.stream." + name + ".out." + res.out)
		r.OracleChecks++
		r.Eval(c16Key("stream."+name, in), len(in) > 0)
		if res.hung {
			r.Fail("C16:stream."+name+":hang", name+" did not return", map[string]string{"input": hx.Hex(in)})
		}
		if res.panicked {
			r.Fail("C16:"+res.site, "pkg/stream "+name+" panics ("+res.pval+")", map[string]string{"decoder": "stream." + name, "input": hx.Hex(in), "panic": res.pval})
		}
		if res.alloc > c16AllocBound(len(in)) {
			r.Fail("C16:stream."+name+":alloc-exceeds-bound", fmt.Sprintf("allocated %d bytes for %d input bytes", res.alloc, len(in)), map[string]string{"input": hx.Hex(in), "allocated": fmt.Sprint(res.alloc)})
		}
	}
	msg := func(payload []byte) []byte {
		return append(binary.BigEndian.AppendUint64(nil, uint64(len(payload))), payload...)
	}
	var valid [][]byte
	for _, n := range []int{0, 1, 7, 8, 9, 100, 1000} {
		valid = append(valid, msg(rng.Bytes(n)))
		valid = append(valid, append(msg(rng.Bytes(n)), msg(rng.Bytes(3))...))
	}
	var inputs []c16Input
	for _, v := range valid {
		ms := c16Mutations(rng, v, []c16Field{{0, 8}}, 0, 40*scale)
		inputs = append(inputs, ms...)
	}
	for _, sz := range []uint64{1 << 20, 1 << 27, 1 << 62, 1 << 63, ^uint64(0), 1<<63 - 1} {
		inputs = append(inputs, c16Input{binary.BigEndian.AppendUint64(nil, sz), "size-field"})
		inputs = append(inputs, c16Input{append(binary.BigEndian.AppendUint64(nil, sz), 1, 2, 3), "size-field"})
	}
	inputs = append(inputs, c16RandomInputs(rng, 100*scale, 40)...)
	for _, in := range inputs {
		if len(in.b) >= 8 && c16DangerousSize(binary.BigEndian.Uint64(in.b)) {
			r.Count("search-only.stream.skipped-dangerous-size")
			continue
		}
		b := in.b
		run("msgReceiver.ReadFully", b, in.label, func() string {
			mr := stream.NewMsgReceiver(&c16FakeStream{chunks: split(b)})
			_, _, err := mr.ReadFully()
			if err != nil {
				return "err"
			}
			return "ok"
		})
		for _, bufSz := range []int{1, 8, 64} {
			bs := bufSz
			run("msgReceiver.Read", b, in.label, func() string {
				mr := stream.NewMsgReceiver(&c16FakeStream{chunks: split(b)})
				buf := make([]byte, bs)
				for k := 0; k < 10000; k++ {
					_, err := mr.Read(buf)
					if err != nil {
						return "err"
					}
				}
				return "ok"
			})
		}
		for _, cs := range []int{1, 16} {
			csz := cs
			run("ReadValue", b, in.label, func() string {
				_, err := stream.ReadValue(bytes.NewReader(b), csz)
				if err != nil {
					return "err"
				}
				return "ok"
			})
		}
		run("ParseVerifiableEntry", b, in.label, func() string {
			_, err := stream.ParseVerifiableEntry(b, b, b, bytes.NewReader(b), 16)
			if err != nil {
				return "err"
			}
			return "ok"
		})
		run("NumberFromBytes", b, in.label, func() string {
			var f float64
			if err := stream.NumberFromBytes(b, &f); err != nil {
				return "err"
			}
			return "ok"
		})
	}
}

// ---------- search-only: singleapp.Open on a corrupted header (on-disk log at open time) ----------

func c16SearchSingleapp(c *c16Run, rng *hx.Rng, scale int) {
	r := c.r
	dir := hx.TempDir("c16a")
	defer os.RemoveAll(dir)
	// a real file written by singleapp itself
	name := "00000000.app"
	opts := singleapp.DefaultOptions().WithMetadata([]byte("wrapped-meta"))
	a, err := singleapp.Open(filepath.Join(dir, name), opts)
	if err != nil {
		r.Notes = append(r.Notes, "singleapp.Open(valid) failed: "+err.Error())
		return
	}
	a.Append([]byte("payload-payload"))
	a.Flush()
	a.Close()
	valid, err := os.ReadFile(filepath.Join(dir, name))
	if err != nil || len(valid) < 8 {
		return
	}
	mlen := int(binary.BigEndian.Uint32(valid))
	var fields []c16Field
	fields = append(fields, c16Field{0, 4})
	for o := 4; o+4 <= 4+mlen && o < len(valid); o++ {
		fields = append(fields, c16Field{o, 4})
	}
	inputs := c16Mutations(rng, valid, fields, 1<<24, 60*scale)
	inputs = append(inputs, c16Input{[]byte{0, 0, 0, 4, 0, 0, 0, 0}, "template"}, c16Input{[]byte{0, 0, 0, 0}, "template"}, c16Input{[]byte{0, 0, 0, 1, 7}, "template"})
	inputs = append(inputs, c16RandomInputs(rng, 40*scale, 64)...)
	for k, in := range inputs {
		var l4 [4]byte // singleapp.Open uses a single Read: a short length field is zero padded; it still allocates the declared header size
		copy(l4[:], in.b)
		if binary.BigEndian.Uint32(l4[:]) > 1<<24 {
			r.Count("search-only.singleapp.Open.skipped-huge-declared-length")
			continue
		}
		if len(in.b) >= 4 && !c.appmdBounded && c16AppmdDeclaredMax(in.b[4:]) > 1<<24 {
			r.Count("search-only.singleapp.Open.skipped-huge-declared-length")
			continue
		}
		key := c16Key("sapp", in.b)
		if c.seen[key] {
			continue
		}
		c.seen[key] = true
		fn := filepath.Join(dir, fmt.Sprintf("m%06d.app", k))
		if err := os.WriteFile(fn, in.b, 0o644); err != nil {
			continue
		}
		res := c16Guard(c.timeout, func() string {
			a, err := singleapp.Open(fn, singleapp.DefaultOptions())
			if err != nil {
				return "err"
			}
			a.Close()
			return "ok"
		})
		os.Remove(fn)
		r.Count("search-only.singleapp.Open.in." + in.label)
		r.Count("search-only.singleapp.Open.out." + res.out)
		r.OracleChecks++
		r.Eval(key, len(in.b) > 0)
		if res.hung {
			r.Fail("C16:singleapp.Open:hang", "singleapp.Open did not return", map[string]string{"file_content": hx.Hex(in.b)})
		}
		if res.panicked {
			r.Fail("C16:"+res.site, "singleapp.Open panics on a corrupted file header ("+res.pval+")", map[string]string{"decoder": "singleapp.Open", "file_content": hx.Hex(in.b), "panic": res.pval})
		}
	}
}

// ---------- replay ----------

func c16Replay(c *c16Run, path string) error {
	b, err := os.ReadFile(path)
	if err != nil {
		return err
	}
	s := string(b)
	// replay file written by ./check: {"replay": {"decoder": "...", "input": "<hex>"}}
	dec := c16JSONField(s, "decoder")
	in := c16JSONField(s, "input")
	bs, err := c16Unhex(in)
	if err != nil {
		return err
	}
	if _, ok := c.decs[dec]; ok {
		c.r.NextCase()
		c.feed(dec, c16Input{bs, "replay"})
		return nil
	}
	return fmt.Errorf("replay: decoder %q is not replayable in isolation; rerun ./check C16 with the recorded seed", dec)
}

func c16JSONField(s, k string) string {
	i := strings.Index(s, "\""+k+"\": \"")
	if i < 0 {
		return ""
	}
	s = s[i+len(k)+5:]
	j := strings.Index(s, "\"")
	if j < 0 {
		return ""
	}
	return s[:j]
}

func c16Unhex(s string) ([]byte, error) {
	if s == "-" || s == "" {
		return []byte{}, nil
	}
	var out []byte
	if len(s)%2 != 0 {
		return nil, fmt.Errorf("odd hex")
	}
	for i := 0; i < len(s); i += 2 {
		var v byte
		if _, err := fmt.Sscanf(s[i:i+2], "%02x", &v); err != nil {
			return nil, err
		}
		out = append(out, v)
	}
	return out, nil
}

var _ = sha256.Size
var _ = reflect.TypeOf

// ---------- search-only: pkg/verification.VerifyDocument on an encoded row chosen by the sender of the proof ----------

// The proof is coherent up to the point where the encoded row is used: the entry with the document key carries
// sha256(EncodedDocument) and the header the entries digest (the sender controls all of them), so the two slice
// expressions `EncodedDocument[voff:]`, sql.DecodeValue and proto.Unmarshal see the raw bytes.  (The unchecked slices
// panicked on a short row: C19 finding `C19:proof:panic:encoded-row-cut+hvalue+eh`, repaired in /repo.)
func c16SearchVerifyDocument(c *c16Run, rng *hx.Rng, scale int) {
	r := c.r
	const docID = "000102030405060708090a0b0c0d0e0f"
	const collID = 7
	key, err := c19EncDocKey(collID, docID)
	if err != nil {
		r.Notes = append(r.Notes, "VerifyDocument search: document key: "+err.Error())
		return
	}
	doc, err := structpb.NewStruct(map[string]interface{}{"_id": docID, "n": 1.0, "s": "x"})
	if err != nil {
		return
	}
	payload, err := proto.Marshal(doc)
	if err != nil {
		return
	}
	idb := make([]byte, 16)
	for i := range idb {
		idb[i] = byte(i)
	}
	// row = column count, then per column: id, length, value
	var valid []byte
	valid = binary.BigEndian.AppendUint32(valid, 2)
	valid = binary.BigEndian.AppendUint32(valid, 1)
	valid = binary.BigEndian.AppendUint32(valid, uint32(len(idb)))
	valid = append(valid, idb...)
	valid = binary.BigEndian.AppendUint32(valid, 2)
	valid = binary.BigEndian.AppendUint32(valid, uint32(len(payload)))
	valid = append(valid, payload...)
	fields := []c16Field{{0, 4}, {4, 4}, {8, 4}, {12 + len(idb), 4}, {16 + len(idb), 4}}
	inputs := c16Mutations(rng, valid, fields, 0, 80*scale)
	inputs = append(inputs, c16RandomInputs(rng, 60*scale, 48)...)
	for _, in := range inputs {
		k := c16Key("vdoc", in.b)
		if c.seen[k] {
			continue
		}
		c.seen[k] = true
		b := in.b
		res := c16Guard(c.timeout, func() string {
			hv := sha256.Sum256(b)
			hdr := &schema.TxHeader{Id: 1, PrevAlh: make([]byte, 32), Ts: 1, Version: 1, Nentries: 1, EH: make([]byte, 32), BlRoot: make([]byte, 32)}
			p := &protomodel.ProofDocumentResponse{
				Database: "db", CollectionId: collID, DocumentIdFieldName: "_id", EncodedDocument: b,
				VerifiableTx: &schema.VerifiableTxV2{
					Tx:        &schema.Tx{Header: hdr, Entries: []*schema.TxEntry{{Key: key, HValue: hv[:], VLen: int32(len(b))}}},
					DualProof: &schema.DualProofV2{SourceTxHeader: hdr, TargetTxHeader: hdr},
				},
			}
			if root, ok := c19EntriesRoot(p.VerifiableTx.Tx); ok {
				hdr.EH = root[:]
			}
			_, err := verification.VerifyDocument(context.Background(), p, doc, nil, nil)
			if err != nil {
				if errors.Is(err, store.ErrInvalidProof) {
					return "err:invalid-proof"
				}
				return "err"
			}
			return "ok"
		})
		r.Count("search-only.VerifyDocument.in." + in.label)
		r.Count("search-only.VerifyDocument.out." + res.out)
		r.OracleChecks++
		r.Eval(k, len(in.b) > 0)
		if res.hung {
			r.Fail("C16:verification.VerifyDocument:hang", "VerifyDocument did not return", map[string]string{"encoded_document": hx.Hex(in.b)})
		}
		if res.panicked {
			r.Fail("C16:"+res.site, "verification.VerifyDocument panics on the encoded row of the proof ("+res.pval+")", map[string]string{"decoder": "verification.VerifyDocument", "encoded_document": hx.Hex(in.b), "panic": res.pval})
		}
		if res.alloc > c16AllocBound(len(in.b)) {
			r.Fail("C16:verification.VerifyDocument:alloc-exceeds-bound", fmt.Sprintf("allocated %d bytes for %d input bytes", res.alloc, len(in.b)), map[string]string{"encoded_document": hx.Hex(in.b), "allocated": fmt.Sprint(res.alloc)})
		}
	}
}

