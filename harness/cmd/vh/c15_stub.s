// Empty assembly file: allows the body-less go:linkname declaration in c15.go.
