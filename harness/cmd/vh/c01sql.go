package main

// C01 at the service level, SQL side: the REAL pkg/client `VerifyRow` against the REAL server over bufconn.
// Tables of every column type (nullable columns holding NULL and non-NULL values, composite primary keys,
// rows rewritten several times, columns added and dropped).  Two tamper streams:
//   (1) on the ROW handed to VerifyRow (per column value->other value, value->NULL, NULL->value, value of
//       another type, nil value, columns dropped / added / duplicated / reordered, values of two columns swapped,
//       an older version of the row, pk values of another row, another table name), and
//   (2) on the server's VerifiableSQLEntry (sql-encoded row bytes: flipped, column removed / replaced / added,
//       entry of another row or an older exchange, entry tx, catalog metadata: column ids by name, column types,
//       pk ids, table / database id, max column id, column lengths; inclusion proof, dual proof, signature),
// incl. the COORDINATED pairs (row claims X; response is altered so that its unauthenticated part agrees).
// Oracle (independent of the model): VerifyRow succeeds  ==>  every (column, value) of the presented row is
// what the harness committed for the row identified by (table, pkVals) (cross-checked with a plain query);
// an untampered exchange with a truthful row must succeed; the trusted state changes only on success and
// then is a genuine (tx, Alh) of the server's history.

import (
	"bytes"
	"context"
	"encoding/binary"
	"errors"
	"fmt"
	"math"
	"os"
	"path/filepath"
	"sort"
	"strings"
	"sync"
	"time"

	"github.com/codenotary/immudb/embedded/sql"
	"github.com/codenotary/immudb/embedded/store"
	"github.com/codenotary/immudb/pkg/api/schema"
	"github.com/codenotary/immudb/pkg/client"
	"github.com/codenotary/immudb/pkg/server"
	"github.com/codenotary/immudb/pkg/server/servertest"
	"google.golang.org/grpc"
	"google.golang.org/grpc/credentials/insecure"
	"google.golang.org/protobuf/proto"

	"verif/harness/internal/hx"
)

type (
	sqTs   int64  // TIMESTAMP, microseconds since the epoch
	sqUUID string // canonical lower-case text form
	sqJSON string // rendering as returned by the server
)

type sqCol struct {
	name    string
	typ     string
	maxLen  int
	notNull bool
	pk      bool
}

type sqRow struct {
	pk   []interface{}
	vals map[string]interface{} // nil = NULL
	prev []map[string]interface{}
}

type sqTab struct {
	name  string
	cols  []*sqCol
	pk    []*sqCol
	rows  map[string]*sqRow
	order []string
	nAdd  int
}

func (t *sqTab) col(name string) *sqCol {
	for _, c := range t.cols {
		if c.name == name {
			return c
		}
	}
	return nil
}

func (t *sqTab) hasType(typ string) bool {
	for _, c := range t.cols {
		if c.typ == typ {
			return true
		}
	}
	return false
}

func sqSel(table, col string) string { return "(" + table + "." + col + ")" }

func sqKey(pk []interface{}) string { return fmt.Sprintf("%#v", pk) }

func sqTypeDecl(c *sqCol) string {
	s := c.typ
	if c.maxLen > 0 {
		s += fmt.Sprintf("[%d]", c.maxLen)
	}
	if c.notNull {
		s += " NOT NULL"
	}
	return s
}

var sqJSONLits = []string{`{"a": 1}`, `[1, 2, 3]`, `"txt"`, `12`, `true`, `{"k": {"n": null}}`}

func sqGenVal(rng *hx.Rng, c *sqCol) interface{} {
	switch c.typ {
	case "INTEGER":
		switch rng.Intn(7) {
		case 0:
			return int64(0)
		case 1:
			return int64(-1)
		case 2:
			return int64(math.MaxInt64)
		case 3:
			return int64(math.MinInt64)
		case 4:
			return int64(rng.Intn(10))
		default:
			return int64(rng.U64())
		}
	case "VARCHAR":
		max := 12
		if c.maxLen > 0 && c.maxLen < max {
			max = c.maxLen
		}
		n := rng.Intn(max + 1)
		if c.pk && n == 0 {
			n = 1
		}
		b := make([]byte, n)
		for i := range b {
			b[i] = "abcxyzNULL019 _"[rng.Intn(15)]
		}
		return string(b)
	case "BOOLEAN":
		return rng.Bool()
	case "BLOB":
		max := 9
		if c.maxLen > 0 && c.maxLen < max {
			max = c.maxLen
		}
		n := rng.Intn(max + 1)
		if c.pk && n == 0 {
			n = 1
		}
		return rng.Bytes(n)
	case "TIMESTAMP":
		switch rng.Intn(5) {
		case 0:
			return sqTs(0)
		case 1:
			return sqTs(-1 - int64(rng.Intn(1_000_000_000)))
		case 2:
			return sqTs(int64(rng.Intn(2_000_000)))
		default:
			return sqTs(int64(rng.U64() % 4_000_000_000_000_000))
		}
	case "FLOAT":
		switch rng.Intn(6) {
		case 0:
			return float64(0)
		case 1:
			return 1.5
		case 2:
			return -2.25
		case 3:
			return math.MaxFloat64
		case 4:
			return math.SmallestNonzeroFloat64
		default:
			for {
				f := math.Float64frombits(rng.U64())
				if !math.IsNaN(f) && !math.IsInf(f, 0) && f != 0 {
					return f
				}
			}
		}
	case "UUID":
		b := rng.Bytes(16)
		return sqUUID(fmt.Sprintf("%x-%x-%x-%x-%x", b[0:4], b[4:6], b[6:8], b[8:10], b[10:16]))
	case "JSON":
		return sqJSON(sqJSONLits[rng.Intn(len(sqJSONLits))])
	}
	return nil
}

// sqOther: a value of the same column different from v.
func sqOther(rng *hx.Rng, c *sqCol, v interface{}) interface{} {
	for i := 0; i < 20; i++ {
		w := sqGenVal(rng, c)
		if !sqSame(v, w) {
			return w
		}
	}
	switch c.typ {
	case "BOOLEAN":
		return !v.(bool)
	}
	return nil
}

func sqSame(a, b interface{}) bool {
	if a == nil || b == nil {
		return a == nil && b == nil
	}
	if x, ok := a.([]byte); ok {
		y, ok := b.([]byte)
		return ok && bytes.Equal(x, y)
	}
	return a == b
}

// sqParam: the value as a query parameter (+ the SQL expression to use for it).
func sqParam(name string, c *sqCol, v interface{}) (string, interface{}) {
	switch x := v.(type) {
	case nil:
		return "NULL", nil
	case sqTs:
		return "@" + name, time.UnixMicro(int64(x)).UTC()
	case sqUUID:
		return "CAST(@" + name + " AS UUID)", string(x)
	case sqJSON:
		return "CAST(@" + name + " AS JSON)", string(x)
	default:
		return "@" + name, v
	}
}

// sqProto: the value as the client would receive it in a query result.
func sqProto(v interface{}) *schema.SQLValue {
	switch x := v.(type) {
	case nil:
		return &schema.SQLValue{Value: &schema.SQLValue_Null{}}
	case int64:
		return &schema.SQLValue{Value: &schema.SQLValue_N{N: x}}
	case string:
		return &schema.SQLValue{Value: &schema.SQLValue_S{S: x}}
	case bool:
		return &schema.SQLValue{Value: &schema.SQLValue_B{B: x}}
	case []byte:
		return &schema.SQLValue{Value: &schema.SQLValue_Bs{Bs: append([]byte{}, x...)}}
	case sqTs:
		return &schema.SQLValue{Value: &schema.SQLValue_Ts{Ts: int64(x)}}
	case float64:
		return &schema.SQLValue{Value: &schema.SQLValue_F{F: x}}
	case sqUUID:
		return &schema.SQLValue{Value: &schema.SQLValue_S{S: string(x)}}
	case sqJSON:
		return &schema.SQLValue{Value: &schema.SQLValue_S{S: string(x)}}
	}
	return nil
}

// sqAgrees: is the presented value what was committed (v = committed Go value of column c)?  Independent of the
// client's comparison code: same kind, same content (floats numerically).
func sqAgrees(c *sqCol, v interface{}, p *schema.SQLValue) bool {
	if p == nil || p.Value == nil {
		return false
	}
	switch x := v.(type) {
	case nil:
		_, ok := p.Value.(*schema.SQLValue_Null)
		return ok
	case int64:
		y, ok := p.Value.(*schema.SQLValue_N)
		return ok && y.N == x
	case string:
		y, ok := p.Value.(*schema.SQLValue_S)
		return ok && y.S == x
	case bool:
		y, ok := p.Value.(*schema.SQLValue_B)
		return ok && y.B == x
	case []byte:
		y, ok := p.Value.(*schema.SQLValue_Bs)
		return ok && bytes.Equal(y.Bs, x)
	case sqTs:
		y, ok := p.Value.(*schema.SQLValue_Ts)
		return ok && y.Ts == int64(x)
	case float64:
		y, ok := p.Value.(*schema.SQLValue_F)
		return ok && y.F == x
	case sqUUID:
		y, ok := p.Value.(*schema.SQLValue_S)
		return ok && y.S == string(x)
	case sqJSON:
		y, ok := p.Value.(*schema.SQLValue_S)
		return ok && y.S == string(x)
	}
	return false
}

func sqValTok(p *schema.SQLValue) string {
	if p == nil || p.Value == nil {
		return "nil"
	}
	switch x := p.Value.(type) {
	case *schema.SQLValue_Null:
		return "null"
	case *schema.SQLValue_N:
		return fmt.Sprintf("n:%d", x.N)
	case *schema.SQLValue_S:
		return "s:" + hx.Hex([]byte(x.S))
	case *schema.SQLValue_B:
		if x.B {
			return "b:1"
		}
		return "b:0"
	case *schema.SQLValue_Bs:
		return "bs:" + hx.Hex(x.Bs)
	case *schema.SQLValue_Ts:
		return fmt.Sprintf("ts:%d", x.Ts)
	case *schema.SQLValue_F:
		return fmt.Sprintf("f:%d", math.Float64bits(x.F))
	}
	return "nil"
}

// ---- the sql-encoded row: colsCount u32, then (colID u32, vlen u32, bytes)* ----

type sqEncCol struct {
	id  uint32
	val []byte
}

func sqParseRow(b []byte) ([]sqEncCol, bool) {
	if len(b) < 4 {
		return nil, false
	}
	n := int(binary.BigEndian.Uint32(b))
	off := 4
	var out []sqEncCol
	for i := 0; i < n; i++ {
		if len(b) < off+8 {
			return nil, false
		}
		id := binary.BigEndian.Uint32(b[off:])
		l := int(binary.BigEndian.Uint32(b[off+4:]))
		off += 8
		if l < 0 || len(b) < off+l {
			return nil, false
		}
		out = append(out, sqEncCol{id, append([]byte{}, b[off:off+l]...)})
		off += l
	}
	return out, off == len(b)
}

func sqBuildRow(cols []sqEncCol) []byte {
	b := make([]byte, 4)
	binary.BigEndian.PutUint32(b, uint32(len(cols)))
	for _, c := range cols {
		var h [8]byte
		binary.BigEndian.PutUint32(h[:], c.id)
		binary.BigEndian.PutUint32(h[4:], uint32(len(c.val)))
		b = append(b, h[:]...)
		b = append(b, c.val...)
	}
	return b
}

// sqEncVal: the row encoding of a value (body without the length prefix), via the repository's own encoder.
func sqEncVal(c *sqCol, v interface{}) ([]byte, bool) {
	var raw interface{} = v
	typ := sql.SQLValueType(c.typ)
	switch x := v.(type) {
	case sqTs:
		raw = time.UnixMicro(int64(x)).UTC()
	case sqUUID, sqJSON:
		return nil, false
	}
	if c.typ == "FLOAT" {
		typ = sql.Float64Type
	}
	enc, err := sql.EncodeRawValue(raw, typ, 0, false)
	if err != nil || len(enc) < 4 {
		return nil, false
	}
	return enc[4:], true
}

// ---- man in the middle for VerifiableSQLGet ----

type sqPlan struct {
	kind string
	col  uint32 // column id for coordinated value./meta. plans
	col2 uint32
	enc  []byte // replacement value bytes
	name1, name2 string
}

type sqMitm struct {
	mu        sync.Mutex
	rng       *hx.Rng
	base      *mitm
	armed     bool
	plan      *sqPlan // nil = random independent tamper
	kind      string
	lastReply *schema.VerifiableSQLEntry
	lastReq   *schema.VerifiableSQLGetRequest
	honest    []*schema.VerifiableSQLEntry // earlier honest replies (any table / row)
	txPlan    string                       // forced alteration of the next VerifiableTx reply
}

var sqRandomKinds = []string{"value.flip", "value.flip", "value.truncate", "value.foreign", "reply.foreign", "entry.tx",
	"meta.colids-shift", "meta.coltypes-retype", "meta.pkids", "meta.tableid", "meta.dbid", "meta.maxcolid", "meta.collen",
	"incl", "incl", "dual", "dual", "dual", "signature", "hdr.version"}

func (m *sqMitm) apply(r *schema.VerifiableSQLEntry, p *sqPlan) string {
	rng := m.rng
	if r.SqlEntry == nil {
		return ""
	}
	switch p.kind {
	case "value.flip":
		v := append([]byte{}, r.SqlEntry.Value...)
		if len(v) < 5 {
			return ""
		}
		// never the three high bytes of colsCount: decodeRow sizes a map with it BEFORE any proof is checked
		// (make(map, 2^31) kills the process — reported separately)
		i := 3 + rng.Intn(len(v)-3)
		v[i] ^= 1 << uint(rng.Intn(8))
		r.SqlEntry.Value = v
		return p.kind
	case "value.truncate":
		if len(r.SqlEntry.Value) < 2 {
			return ""
		}
		r.SqlEntry.Value = r.SqlEntry.Value[:len(r.SqlEntry.Value)-1-rng.Intn(len(r.SqlEntry.Value)-1)]
		return p.kind
	case "value.drop-col", "value.set-col", "value.add-col":
		cols, ok := sqParseRow(r.SqlEntry.Value)
		if !ok {
			return ""
		}
		var out []sqEncCol
		hit := false
		for _, c := range cols {
			if c.id == p.col {
				hit = true
				if p.kind == "value.drop-col" {
					continue
				}
				if p.kind == "value.set-col" {
					c.val = p.enc
				}
			}
			out = append(out, c)
		}
		if p.kind == "value.add-col" {
			if hit {
				return ""
			}
			out = append(out, sqEncCol{p.col, p.enc})
			sort.Slice(out, func(i, j int) bool { return out[i].id < out[j].id })
		} else if !hit {
			return ""
		}
		r.SqlEntry.Value = sqBuildRow(out)
		return p.kind
	case "value.foreign", "reply.foreign":
		var cand []*schema.VerifiableSQLEntry
		for _, h := range m.honest {
			if !bytes.Equal(h.SqlEntry.Key, r.SqlEntry.Key) || h.SqlEntry.Tx != r.SqlEntry.Tx {
				cand = append(cand, h)
			}
		}
		if len(cand) == 0 {
			return ""
		}
		h := cand[rng.Intn(len(cand))]
		sameRow := bytes.Equal(h.SqlEntry.Key, r.SqlEntry.Key)
		if p.kind == "value.foreign" {
			r.SqlEntry.Value = append([]byte{}, h.SqlEntry.Value...)
			if rng.Bool() {
				r.SqlEntry.Tx = h.SqlEntry.Tx
			}
		} else {
			c := proto.Clone(h).(*schema.VerifiableSQLEntry)
			proto.Reset(r)
			proto.Merge(r, c)
		}
		if sameRow {
			return p.kind + "-older-version"
		}
		return p.kind + "-other-row"
	case "entry.tx":
		if r.SqlEntry.Tx > 1 && rng.Bool() {
			r.SqlEntry.Tx--
		} else {
			r.SqlEntry.Tx++
		}
		return p.kind
	case "meta.colids-swap":
		a, oka := r.ColIdsByName[p.name1]
		b, okb := r.ColIdsByName[p.name2]
		if !oka || !okb {
			return ""
		}
		r.ColIdsByName[p.name1], r.ColIdsByName[p.name2] = b, a
		return p.kind
	case "meta.colids-shift":
		if len(r.ColIdsByName) == 0 {
			return ""
		}
		names := make([]string, 0, len(r.ColIdsByName))
		for n := range r.ColIdsByName {
			names = append(names, n)
		}
		sort.Strings(names)
		n := names[rng.Intn(len(names))]
		r.ColIdsByName[n] = r.ColIdsByName[n]%r.MaxColId + 1
		return p.kind
	case "meta.coltypes-drop":
		if _, ok := r.ColTypesById[p.col]; !ok {
			return ""
		}
		delete(r.ColTypesById, p.col)
		return p.kind
	case "meta.coltypes-retype":
		if len(r.ColTypesById) == 0 {
			return ""
		}
		ids := make([]int, 0, len(r.ColTypesById))
		for id := range r.ColTypesById {
			ids = append(ids, int(id))
		}
		sort.Ints(ids)
		id := uint32(ids[rng.Intn(len(ids))])
		types := []string{"INTEGER", "VARCHAR", "BOOLEAN", "BLOB", "TIMESTAMP", "FLOAT", "UUID", "XYZ"}
		for {
			t := types[rng.Intn(len(types))]
			if t != r.ColTypesById[id] {
				r.ColTypesById[id] = t
				break
			}
		}
		return p.kind
	case "meta.pkids":
		if len(r.PKIDs) == 0 {
			return ""
		}
		switch rng.Intn(3) {
		case 0:
			r.PKIDs = r.PKIDs[:len(r.PKIDs)-1]
			return p.kind + "-short"
		case 1:
			i := rng.Intn(len(r.PKIDs))
			r.PKIDs[i] = r.PKIDs[i]%r.MaxColId + 1
			return p.kind + "-other-col"
		default:
			if len(r.PKIDs) < 2 {
				r.PKIDs[0] = r.MaxColId + 7
				return p.kind + "-unknown-col"
			}
			r.PKIDs[0], r.PKIDs[1] = r.PKIDs[1], r.PKIDs[0]
			return p.kind + "-swapped"
		}
	case "meta.tableid":
		r.TableId++
		return p.kind
	case "meta.dbid":
		r.DatabaseId++
		return p.kind
	case "meta.maxcolid":
		if rng.Bool() || r.MaxColId == 0 {
			r.MaxColId++
		} else {
			r.MaxColId = 0
		}
		return p.kind
	case "meta.collen":
		if len(r.ColLenById) == 0 {
			return ""
		}
		ids := make([]int, 0, len(r.ColLenById))
		for id := range r.ColLenById {
			ids = append(ids, int(id))
		}
		sort.Ints(ids)
		id := uint32(ids[rng.Intn(len(ids))])
		r.ColLenById[id]++
		return p.kind
	case "incl":
		if r.InclusionProof == nil {
			return ""
		}
		switch rng.Intn(3) {
		case 0:
			r.InclusionProof.Terms = m.base.mutDigests(r.InclusionProof.Terms)
			return "incl.terms"
		case 1:
			r.InclusionProof.Leaf++
			return "incl.leaf"
		default:
			r.InclusionProof.Width++
			return "incl.width"
		}
	case "dual":
		if r.VerifiableTx == nil {
			return ""
		}
		return m.base.tamperDual(r.VerifiableTx.DualProof)
	case "signature":
		if r.VerifiableTx == nil || r.VerifiableTx.Signature == nil {
			return ""
		}
		r.VerifiableTx.Signature.Signature = flipBytes(rng, r.VerifiableTx.Signature.Signature)
		return p.kind
	case "hdr.version":
		if r.VerifiableTx == nil || r.VerifiableTx.Tx == nil || r.VerifiableTx.Tx.Header == nil {
			return ""
		}
		r.VerifiableTx.Tx.Header.Version = int32(rng.Intn(4))
		return p.kind
	}
	return ""
}

func (m *sqMitm) interceptor(ctx context.Context, method string, req, reply interface{}, cc *grpc.ClientConn, invoker grpc.UnaryInvoker, opts ...grpc.CallOption) error {
	err := invoker(ctx, method, req, reply, cc, opts...)
	if vt, ok := reply.(*schema.VerifiableTx); ok && err == nil {
		m.mu.Lock()
		defer m.mu.Unlock()
		if m.txPlan != "" && vt.Tx != nil && len(vt.Tx.Entries) > 0 {
			es := vt.Tx.Entries
			// an entry metadata that header version 0 cannot carry, plus an altered key / value hash
			es[0].Metadata = &schema.KVMetadata{Deleted: true}
			e := es[len(es)-1]
			switch m.txPlan {
			case "tx.entry-md+key":
				e.Key = flipBytes(m.rng, e.Key)
			case "tx.entry-md+hvalue":
				e.HValue = flipBytes(m.rng, e.HValue)
			}
			m.kind, m.txPlan = m.txPlan, ""
		}
		return nil
	}
	r, ok := reply.(*schema.VerifiableSQLEntry)
	if !ok || err != nil {
		return err
	}
	m.mu.Lock()
	defer m.mu.Unlock()
	if r.SqlEntry != nil {
		if len(m.honest) < 64 {
			m.honest = append(m.honest, proto.Clone(r).(*schema.VerifiableSQLEntry))
		} else {
			m.honest[m.rng.Intn(len(m.honest))] = proto.Clone(r).(*schema.VerifiableSQLEntry)
		}
	}
	if m.armed {
		m.armed = false
		p := m.plan
		if p == nil {
			p = &sqPlan{kind: sqRandomKinds[m.rng.Intn(len(sqRandomKinds))]}
		}
		m.kind = m.apply(r, p)
	}
	if q, ok := req.(*schema.VerifiableSQLGetRequest); ok {
		m.lastReq = proto.Clone(q).(*schema.VerifiableSQLGetRequest)
	}
	m.lastReply = proto.Clone(r).(*schema.VerifiableSQLEntry)
	return nil
}

// sqPkKey: the row key exactly as VerifyRow builds it from the (possibly altered) response.
func sqPkKey(rep *schema.VerifiableSQLEntry, pkVals []*schema.SQLValue) (tok string, ok bool) {
	defer func() {
		if recover() != nil {
			ok = false
		}
	}()
	var buf []byte
	for i, pv := range pkVals {
		if i >= len(rep.PKIDs) {
			return "", false
		}
		id := rep.PKIDs[i]
		t, ok1 := rep.ColTypesById[id]
		l, ok2 := rep.ColLenById[id]
		if !ok1 || !ok2 {
			return "err:corrupted", true
		}
		enc, _, err := sql.EncodeRawValueAsKey(schema.RawValue(pv), t, int(l))
		if err != nil {
			if errors.Is(err, store.ErrCorruptedData) { // e.g. a fixed-size type with an altered ColLenById
				return "err:corrupted", true
			}
			return "err:pkenc", true
		}
		buf = append(buf, enc...)
	}
	k := sql.MapKey([]byte{client.SQLPrefix}, sql.RowPrefix, sql.EncodeID(rep.DatabaseId), sql.EncodeID(rep.TableId), sql.EncodeID(sql.PKIndexID), buf)
	return hx.Hex(k), true
}

// sqVrowLine renders the exchange for the Lean model of VerifyRow (Client.verifyRow).
func sqVrowLine(stTx uint64, stHash []byte, rep *schema.VerifiableSQLEntry, pkVals []*schema.SQLValue, row *schema.Row) (line string, ok bool) {
	defer func() {
		if recover() != nil {
			ok = false
		}
	}()
	if rep == nil || rep.SqlEntry == nil || rep.VerifiableTx == nil || rep.VerifiableTx.Tx == nil || rep.VerifiableTx.Tx.Header == nil ||
		rep.VerifiableTx.DualProof == nil || rep.VerifiableTx.DualProof.SourceTxHeader == nil || rep.VerifiableTx.DualProof.TargetTxHeader == nil || rep.InclusionProof == nil {
		return "", false
	}
	for _, t := range rep.ColTypesById {
		if t == "JSON" {
			return "", false // outside the value-codec model
		}
	}
	if len(stHash) == 0 {
		stHash = make([]byte, 32)
	}
	pkOk := "1"
	pkTok := "-"
	if len(rep.PKIDs) < len(pkVals) {
		pkOk = "0"
	} else {
		var okk bool
		if pkTok, okk = sqPkKey(rep, pkVals); !okk {
			return "", false
		}
	}
	var ids []int
	for id := range rep.ColTypesById {
		ids = append(ids, int(id))
	}
	sort.Ints(ids)
	ct := make([]string, len(ids))
	for i, id := range ids {
		ct[i] = fmt.Sprintf("%d:%s", id, rep.ColTypesById[uint32(id)])
	}
	var names []string
	for n := range rep.ColIdsByName {
		names = append(names, n)
	}
	sort.Strings(names)
	ci := make([]string, len(names))
	for i, n := range names {
		ci[i] = fmt.Sprintf("%s:%d", hx.Hex([]byte(n)), rep.ColIdsByName[n])
	}
	rv := make([]string, len(row.Columns))
	for i, n := range row.Columns {
		rv[i] = hx.Hex([]byte(n)) + "=" + sqValTok(row.Values[i])
	}
	dot := func(ss []string) string {
		if len(ss) == 0 {
			return "."
		}
		return strings.Join(ss, ",")
	}
	ip := schema.InclusionProofFromProto(rep.InclusionProof)
	dp := schema.DualProofFromProto(rep.VerifiableTx.DualProof)
	return fmt.Sprintf("c01 vrow %d %s %s %s %d %s %d %s %d %s %s %d:%d:%s %s %s %s %s %s %s %s %s",
		stTx, hx.Hex(stHash), pkOk, pkTok, rep.VerifiableTx.Tx.Header.Version, hx.Hex(rep.SqlEntry.Value), rep.SqlEntry.Tx,
		dot(ct), rep.MaxColId, dot(ci), dot(rv),
		ip.Leaf, ip.Width, hx.Csv32(ip.Terms),
		hdrTok(dp.SourceTxHeader), hdrTok(dp.TargetTxHeader), hx.Csv32(dp.InclusionProof), hx.Csv32(dp.ConsistencyProof),
		hx.Hex(dp.TargetBlTxAlh[:]), hx.Csv32(dp.LastInclusionProof), lpTok(dp.LinearProof), lapTok(dp.LinearAdvanceProof)), true
}

func sqErrClass(err error) string {
	switch {
	case err == nil:
		return "ok"
	case errors.Is(err, client.ErrIllegalArguments):
		return "err:illegal"
	case errors.Is(err, store.ErrUnsupportedTxVersion):
		return "err:version"
	case errors.Is(err, store.ErrCorruptedData):
		return "err:corrupted"
	case errors.Is(err, sql.ErrColumnDoesNotExist):
		return "err:nocolumn"
	case errors.Is(err, sql.ErrNotComparableValues):
		return "err:notcomparable"
	case errors.Is(err, sql.ErrInvalidValue), errors.Is(err, sql.ErrMaxKeyLengthExceeded), errors.Is(err, sql.ErrMaxLengthExceeded):
		return "err:pkenc"
	}
	return ""
}

type sqClient struct {
	c       client.ImmuClient
	who     string
	stateOf func() (uint64, []byte)
	prev    uint64
}

func c01SQLService(r *hx.Result, rng *hx.Rng, nOps int, signed bool, hdrV0 bool) error {
	r.NextCase()
	dbName := "defaultdb"
	if hdrV0 {
		dbName = "hdrv0" // a database that writes version-0 transaction headers (DatabaseNullableSettings.WriteTxHeaderVersion)
	}
	dir := hx.TempDir("c01sql")
	defer os.RemoveAll(dir)
	keyDir := filepath.Join(repoDir(), "test", "signer")
	opts := server.DefaultOptions().WithDir(filepath.Join(dir, "srv")).
		WithMetricsServer(false).WithWebServer(false).WithPgsqlServer(false).WithLogfile(filepath.Join(dir, "srv.log"))
	if signed {
		opts = opts.WithSigningKey(filepath.Join(keyDir, "ec1.key"))
	}
	r.Count(fmt.Sprintf("sqlsvc.config.signed=%v.txheader-v0=%v", signed, hdrV0))
	bs := servertest.NewBufconnServer(opts)
	if err := bs.Start(); err != nil {
		return err
	}
	defer bs.Stop()
	ctx := context.Background()
	m := &sqMitm{rng: rng.Fork()}
	m.base = &mitm{rng: rng.Fork()}
	if hdrV0 {
		adm := client.NewClient().WithOptions(client.DefaultOptions().WithDir(filepath.Join(dir, "adm")).
			WithDialOptions([]grpc.DialOption{grpc.WithContextDialer(bs.Dialer), grpc.WithTransportCredentials(insecure.NewCredentials())}))
		if err := adm.OpenSession(ctx, []byte("immudb"), []byte("immudb"), "defaultdb"); err != nil {
			return err
		}
		_, err := adm.CreateDatabaseV2(ctx, dbName, &schema.DatabaseNullableSettings{WriteTxHeaderVersion: &schema.NullableUint32{Value: 0}})
		adm.CloseSession(ctx)
		if err != nil {
			return fmt.Errorf("CreateDatabaseV2(writeTxHeaderVersion=0): %w", err)
		}
	}
	setters = map[client.ImmuClient]func(*schema.ImmutableState){}
	newClient := func(who, stateDir string) (*sqClient, error) {
		os.MkdirAll(stateDir, 0o755)
		copts := client.DefaultOptions().WithDir(stateDir)
		if signed {
			copts = copts.WithServerSigningPubKey(filepath.Join(keyDir, "ec1.pub"))
		}
		c := client.NewClient().WithOptions(copts.
			WithDialOptions([]grpc.DialOption{grpc.WithContextDialer(bs.Dialer), grpc.WithTransportCredentials(insecure.NewCredentials()),
				grpc.WithChainUnaryInterceptor(m.interceptor, m.base.interceptor)}))
		if err := c.OpenSession(ctx, []byte("immudb"), []byte("immudb"), dbName); err != nil {
			return nil, err
		}
		setters[c] = func(st *schema.ImmutableState) {
			if err := c.StateService.CacheLock(); err != nil {
				return
			}
			defer c.StateService.CacheUnlock()
			c.StateService.SetState(dbName, st)
		}
		return &sqClient{c: c, who: who, stateOf: func() (uint64, []byte) {
			if err := c.StateService.CacheLock(); err != nil {
				return 0, nil
			}
			defer c.StateService.CacheUnlock()
			st, err := c.StateService.GetState(ctx, dbName)
			if err != nil || st == nil {
				return 0, nil
			}
			return st.TxId, append([]byte{}, st.TxHash...)
		}}, nil
	}
	cl1, err := newClient("client1", filepath.Join(dir, "cl1"))
	if err != nil {
		return err
	}
	defer cl1.c.CloseSession(ctx)
	cl2, err := newClient("client2", filepath.Join(dir, "cl2"))
	if err != nil {
		return err
	}
	defer cl2.c.CloseSession(ctx)
	w := cl1.c // writer
	truth := &svcTruth{versions: map[string][]svcVersion{}, alhs: map[uint64][]byte{}}

	// ---- schema ----
	allTypes := []string{"INTEGER", "VARCHAR", "BOOLEAN", "BLOB", "TIMESTAMP", "FLOAT", "UUID", "JSON"}
	pkTypes := []string{"INTEGER", "VARCHAR", "BLOB", "TIMESTAMP", "BOOLEAN", "INTEGER", "VARCHAR", "UUID"}
	nTabs := 2 + rng.Intn(2)
	var tabs []*sqTab
	for ti := 0; ti < nTabs; ti++ {
		t := &sqTab{name: fmt.Sprintf("t%d", ti), rows: map[string]*sqRow{}}
		npk := 1 + rng.Intn(3)
		if ti == 0 {
			npk = 1
		}
		if ti == 1 {
			npk = 2 + rng.Intn(2)
		}
		for i := 0; i < npk; i++ {
			c := &sqCol{name: fmt.Sprintf("k%d", i), typ: pkTypes[rng.Intn(len(pkTypes))], notNull: true, pk: true}
			if c.typ == "BOOLEAN" && i == 0 && npk == 1 {
				c.typ = "INTEGER"
			}
			if c.typ == "VARCHAR" || c.typ == "BLOB" {
				c.maxLen = 4 + rng.Intn(20)
			}
			t.cols = append(t.cols, c)
			t.pk = append(t.pk, c)
		}
		nc := 2 + rng.Intn(6)
		perm := rng.Intn(len(allTypes))
		for i := 0; i < nc; i++ {
			// every type shows up across the tables of a run: walk the type list from a random start
			typ := allTypes[(perm+i+ti*3)%len(allTypes)]
			if typ == "JSON" && ti != nTabs-1 {
				typ = "INTEGER" // only the last table has JSON columns (outside the Lean value-codec model)
			}
			c := &sqCol{name: fmt.Sprintf("c%d", i), typ: typ, notNull: rng.Chance(15)}
			if (typ == "VARCHAR" || typ == "BLOB") && rng.Bool() {
				c.maxLen = 8 + rng.Intn(40)
			}
			t.cols = append(t.cols, c)
		}
		var decl, pkn []string
		for _, c := range t.cols {
			decl = append(decl, c.name+" "+sqTypeDecl(c))
			r.Count("sqlsvc.column.type=" + c.typ)
		}
		for _, c := range t.pk {
			pkn = append(pkn, c.name)
		}
		stmt := fmt.Sprintf("CREATE TABLE %s (%s, PRIMARY KEY (%s))", t.name, strings.Join(decl, ", "), strings.Join(pkn, ", "))
		if _, err := w.SQLExec(ctx, stmt, nil); err != nil {
			return fmt.Errorf("%s: %w", stmt, err)
		}
		r.Count(fmt.Sprintf("sqlsvc.table.pkcols=%d", npk))
		tabs = append(tabs, t)
	}

	// ---- writes ----
	// refresh the JSON renderings (and cross-check everything else) from a plain query
	queryRow := func(t *sqTab, row *sqRow) (*schema.Row, error) {
		res, err := w.SQLQuery(ctx, "SELECT * FROM "+t.name, nil, true)
		if err != nil {
			return nil, err
		}
		for _, qr := range res.Rows {
			match := true
			for i, pc := range t.pk {
				found := false
				for j, cn := range qr.Columns {
					if cn == sqSel(t.name, pc.name) {
						found = true
						if !sqAgrees(pc, row.pk[i], qr.Values[j]) {
							match = false
						}
					}
				}
				if !found {
					match = false
				}
			}
			if match {
				return qr, nil
			}
		}
		return nil, nil
	}
	crossCheck := func(t *sqTab, row *sqRow) error {
		qr, err := queryRow(t, row)
		if err != nil {
			return err
		}
		r.OracleChecks++
		if qr == nil {
			r.Fail("C01:sql.query:committed-row-not-returned", fmt.Sprintf("table %s pk %v", t.name, row.pk), nil)
			return nil
		}
		for j, cn := range qr.Columns {
			for _, c := range t.cols {
				if cn != sqSel(t.name, c.name) {
					continue
				}
				if c.typ == "JSON" && row.vals[c.name] != nil {
					if s, ok := qr.Values[j].Value.(*schema.SQLValue_S); ok {
						row.vals[c.name] = sqJSON(s.S)
					}
				}
				if !sqAgrees(c, row.vals[c.name], qr.Values[j]) {
					r.Fail("C01:sql.query:differs-from-written", fmt.Sprintf("table %s pk %v column %s: written %#v, query returns %s", t.name, row.pk, c.name, row.vals[c.name], sqValTok(qr.Values[j])), nil)
				}
			}
		}
		return nil
	}
	upsert := func(t *sqTab, row *sqRow, vals map[string]interface{}) error {
		var names, exprs []string
		params := map[string]interface{}{}
		for i, c := range t.cols {
			e, p := sqParam(fmt.Sprintf("p%d", i), c, vals[c.name])
			names = append(names, c.name)
			exprs = append(exprs, e)
			if e != "NULL" {
				params[fmt.Sprintf("p%d", i)] = p
			}
		}
		stmt := fmt.Sprintf("UPSERT INTO %s (%s) VALUES (%s)", t.name, strings.Join(names, ", "), strings.Join(exprs, ", "))
		if _, err := w.SQLExec(ctx, stmt, params); err != nil {
			return fmt.Errorf("%s %v: %w", stmt, params, err)
		}
		if row.vals != nil {
			row.prev = append(row.prev, row.vals)
		}
		row.vals = vals
		return crossCheck(t, row)
	}
	genVals := func(t *sqTab, pk []interface{}) map[string]interface{} {
		vals := map[string]interface{}{}
		for i, c := range t.pk {
			vals[c.name] = pk[i]
		}
		for _, c := range t.cols {
			if c.pk {
				continue
			}
			if !c.notNull && rng.Chance(35) {
				vals[c.name] = nil
			} else {
				vals[c.name] = sqGenVal(rng, c)
			}
		}
		return vals
	}
	insertNew := func(t *sqTab) error {
		for try := 0; try < 10; try++ {
			pk := make([]interface{}, len(t.pk))
			for i, c := range t.pk {
				pk[i] = sqGenVal(rng, c)
			}
			if _, dup := t.rows[sqKey(pk)]; dup {
				continue
			}
			row := &sqRow{pk: pk}
			if err := upsert(t, row, genVals(t, pk)); err != nil {
				return err
			}
			t.rows[sqKey(pk)] = row
			t.order = append(t.order, sqKey(pk))
			r.Count("sqlsvc.write.insert")
			return nil
		}
		return nil
	}
	for _, t := range tabs {
		for i := 0; i < 3; i++ {
			if err := insertNew(t); err != nil {
				return err
			}
		}
	}
	pickRow := func(t *sqTab) *sqRow { return t.rows[t.order[rng.Intn(len(t.order))]] }
	writeOp := func() error {
		t := tabs[rng.Intn(len(tabs))]
		switch k := rng.Intn(12); {
		case k < 2 && len(t.order) < 7:
			return insertNew(t)
		case k < 7: // rewrite a whole row (values <-> NULL in both directions)
			row := pickRow(t)
			r.Count("sqlsvc.write.upsert-existing")
			return upsert(t, row, genVals(t, row.pk))
		case k < 9: // single-column UPDATE
			row := pickRow(t)
			var cands []*sqCol
			for _, c := range t.cols {
				if !c.pk {
					cands = append(cands, c)
				}
			}
			if len(cands) == 0 {
				return nil
			}
			c := cands[rng.Intn(len(cands))]
			var nv interface{}
			if c.notNull || rng.Chance(70) {
				nv = sqGenVal(rng, c)
			}
			e, p := sqParam("v", c, nv)
			params := map[string]interface{}{}
			if e != "NULL" {
				params["v"] = p
			}
			var conds []string
			for i, pc := range t.pk {
				ke, kp := sqParam(fmt.Sprintf("k%d", i), pc, row.pk[i])
				conds = append(conds, pc.name+" = "+ke)
				params[fmt.Sprintf("k%d", i)] = kp
			}
			stmt := fmt.Sprintf("UPDATE %s SET %s = %s WHERE %s", t.name, c.name, e, strings.Join(conds, " AND "))
			if _, err := w.SQLExec(ctx, stmt, params); err != nil {
				return fmt.Errorf("%s %v: %w", stmt, params, err)
			}
			nvals := map[string]interface{}{}
			for k, v := range row.vals {
				nvals[k] = v
			}
			nvals[c.name] = nv
			row.prev = append(row.prev, row.vals)
			row.vals = nvals
			r.Count("sqlsvc.write.update-column")
			return crossCheck(t, row)
		case k == 9 && t.nAdd < 2: // a new nullable column: NULL in every existing row
			typ := allTypes[rng.Intn(len(allTypes)-1)]
			c := &sqCol{name: fmt.Sprintf("a%d", t.nAdd), typ: typ}
			t.nAdd++
			stmt := fmt.Sprintf("ALTER TABLE %s ADD COLUMN %s %s", t.name, c.name, sqTypeDecl(c))
			if _, err := w.SQLExec(ctx, stmt, nil); err != nil {
				return fmt.Errorf("%s: %w", stmt, err)
			}
			t.cols = append(t.cols, c)
			for _, row := range t.rows {
				row.vals[c.name] = nil
			}
			r.Count("sqlsvc.write.add-column")
			return nil
		case k == 10 && !hdrV0: // (DROP COLUMN writes entry metadata: not available with version-0 headers) drop a plain column (its values stay in the encoded rows: the dropped-column path of decodeRow)
			var cands []*sqCol
			for _, c := range t.cols {
				if !c.pk {
					cands = append(cands, c)
				}
			}
			if len(cands) < 3 {
				return nil
			}
			c := cands[rng.Intn(len(cands))]
			stmt := fmt.Sprintf("ALTER TABLE %s DROP COLUMN %s", t.name, c.name)
			if _, err := w.SQLExec(ctx, stmt, nil); err != nil {
				return fmt.Errorf("%s: %w", stmt, err)
			}
			var keep []*sqCol
			for _, x := range t.cols {
				if x != c {
					keep = append(keep, x)
				}
			}
			t.cols = keep
			for _, row := range t.rows {
				delete(row.vals, c.name)
			}
			r.Count("sqlsvc.write.drop-column")
			return nil
		default: // key-value traffic: moves the server state (and, verified, a client's state) past the rows' txs
			key, val := []byte(fmt.Sprintf("kv%d", rng.Intn(4))), rng.Bytes(1+rng.Intn(8))
			c := cl1
			if rng.Bool() {
				c = cl2
			}
			if rng.Bool() {
				_, err := c.c.VerifiedSet(ctx, key, val)
				r.Count("sqlsvc.write.kv-verifiedset")
				return err
			}
			_, err := w.Set(ctx, key, val)
			r.Count("sqlsvc.write.kv-set")
			return err
		}
	}

	// ---- one verification trial ----
	type presented struct {
		table  string
		pk     []interface{}
		pkVals []*schema.SQLValue
		cols   []string
		vals   []*schema.SQLValue
	}
	colID := func(c *sqClient, t *sqTab, name string) (uint32, bool) {
		m.mu.Lock()
		defer m.mu.Unlock()
		for i := len(m.honest) - 1; i >= 0; i-- {
			if id, ok := m.honest[i].ColIdsByName[sqSel(t.name, name)]; ok {
				return id, true
			}
		}
		return 0, false
	}
	truthful := func(p *presented) (bool, string) {
		var t *sqTab
		for _, x := range tabs {
			if x.name == p.table {
				t = x
			}
		}
		if t == nil {
			return false, "no such table"
		}
		row, ok := t.rows[sqKey(p.pk)]
		if !ok {
			return false, "no such row"
		}
		if len(p.cols) == 0 || len(p.cols) != len(p.vals) {
			return false, "malformed row"
		}
		for i, cn := range p.cols {
			var col *sqCol
			for _, c := range t.cols {
				if sqSel(t.name, c.name) == cn {
					col = c
				}
			}
			if col == nil {
				return false, "column " + cn + " is not a column of " + t.name
			}
			if !sqAgrees(col, row.vals[col.name], p.vals[i]) {
				return false, fmt.Sprintf("column %s: committed %#v, presented %s", cn, row.vals[col.name], sqValTok(p.vals[i]))
			}
		}
		return true, ""
	}
	trial := func(op int) error {
		c := cl1
		if rng.Chance(30) {
			c = cl2
		}
		t := tabs[rng.Intn(len(tabs))]
		row := pickRow(t)
		p := &presented{table: t.name, pk: row.pk}
		for i := range t.pk {
			p.pkVals = append(p.pkVals, sqProto(row.pk[i]))
		}
		fromQuery := rng.Chance(30)
		if fromQuery {
			qr, err := queryRow(t, row)
			if err != nil {
				return err
			}
			if qr == nil {
				return nil
			}
			p.cols = append([]string{}, qr.Columns...)
			p.vals = append([]*schema.SQLValue{}, qr.Values...)
			r.Count("sqlsvc.row.source=query")
		} else {
			for _, col := range t.cols {
				p.cols = append(p.cols, sqSel(t.name, col.name))
				p.vals = append(p.vals, sqProto(row.vals[col.name]))
			}
			r.Count("sqlsvc.row.source=committed-values")
		}
		colOf := func(i int) *sqCol {
			for _, col := range t.cols {
				if sqSel(t.name, col.name) == p.cols[i] {
					return col
				}
			}
			return nil
		}
		isNull := func(i int) bool {
			if p.vals[i] == nil {
				return false
			}
			_, ok := p.vals[i].Value.(*schema.SQLValue_Null)
			return ok
		}
		pickIdx := func(pred func(i int) bool) int {
			var idx []int
			for i := range p.cols {
				if colOf(i) != nil && pred(i) {
					idx = append(idx, i)
				}
			}
			if len(idx) == 0 {
				return -1
			}
			return idx[rng.Intn(len(idx))]
		}
		var plan *sqPlan
		rowKinds := []string{}
		respTamper := false
		// ---- row tamper ----
		applyRow := func(kind string, coordinate bool) {
			switch kind {
			case "value-to-other":
				i := pickIdx(func(i int) bool { return !isNull(i) })
				if i < 0 {
					return
				}
				col := colOf(i)
				nv := sqOther(rng, col, row.vals[col.name])
				if nv == nil {
					return
				}
				p.vals[i] = sqProto(nv)
				rowKinds = append(rowKinds, kind)
				if coordinate {
					if id, ok := colID(c, t, col.name); ok {
						if enc, ok := sqEncVal(col, nv); ok {
							plan = &sqPlan{kind: "value.set-col", col: id, enc: enc}
						}
					}
				}
			case "value-to-null":
				n := 1
				if rng.Chance(25) {
					n = 2
				}
				for k := 0; k < n; k++ {
					i := pickIdx(func(i int) bool { return !isNull(i) && (k == 0 || !colOf(i).pk) })
					if i < 0 {
						return
					}
					col := colOf(i)
					p.vals[i] = sqProto(nil)
					if k == 0 {
						rowKinds = append(rowKinds, kind)
					}
					if coordinate && k == 0 {
						if id, ok := colID(c, t, col.name); ok {
							if rng.Bool() {
								plan = &sqPlan{kind: "value.drop-col", col: id}
							} else {
								plan = &sqPlan{kind: "meta.coltypes-drop", col: id}
							}
						}
					}
				}
			case "null-to-value":
				i := pickIdx(func(i int) bool { return isNull(i) })
				if i < 0 {
					return
				}
				col := colOf(i)
				nv := sqGenVal(rng, col)
				p.vals[i] = sqProto(nv)
				rowKinds = append(rowKinds, kind)
				if coordinate {
					if id, ok := colID(c, t, col.name); ok {
						if enc, ok := sqEncVal(col, nv); ok {
							plan = &sqPlan{kind: "value.add-col", col: id, enc: enc}
						}
					}
				}
			case "value-of-other-type":
				i := pickIdx(func(i int) bool { return p.vals[i] != nil && !isNull(i) })
				if i < 0 {
					return
				}
				alts := []*schema.SQLValue{sqProto(int64(1)), sqProto("1"), sqProto(true), sqProto([]byte{1}), sqProto(sqTs(1)), sqProto(1.0)}
				for _, a := range alts {
					if fmt.Sprintf("%T", a.Value) != fmt.Sprintf("%T", p.vals[i].Value) {
						p.vals[i] = a
						break
					}
				}
				rowKinds = append(rowKinds, kind)
			case "nil-value":
				i := rng.Intn(len(p.vals))
				if rng.Bool() {
					p.vals[i] = nil
				} else {
					p.vals[i] = &schema.SQLValue{}
				}
				rowKinds = append(rowKinds, kind)
			case "columns-dropped":
				if len(p.cols) < 2 {
					return
				}
				keep := 1 + rng.Intn(len(p.cols)-1)
				perm := make([]int, len(p.cols))
				for i := range perm {
					perm[i] = i
				}
				for i := len(perm) - 1; i > 0; i-- {
					j := rng.Intn(i + 1)
					perm[i], perm[j] = perm[j], perm[i]
				}
				sel := perm[:keep]
				sort.Ints(sel)
				var cs []string
				var vs []*schema.SQLValue
				for _, i := range sel {
					cs = append(cs, p.cols[i])
					vs = append(vs, p.vals[i])
				}
				p.cols, p.vals = cs, vs
				rowKinds = append(rowKinds, kind)
			case "columns-reordered":
				for i := len(p.cols) - 1; i > 0; i-- {
					j := rng.Intn(i + 1)
					p.cols[i], p.cols[j] = p.cols[j], p.cols[i]
					p.vals[i], p.vals[j] = p.vals[j], p.vals[i]
				}
				rowKinds = append(rowKinds, kind)
			case "column-added":
				switch rng.Intn(3) {
				case 0:
					p.cols = append(p.cols, sqSel(t.name, "nosuch"))
					p.vals = append(p.vals, sqProto(nil))
				case 1: // a column of another table
					o := tabs[(rng.Intn(len(tabs)-1)+1+indexOfTab(tabs, t))%len(tabs)]
					oc := o.cols[rng.Intn(len(o.cols))]
					p.cols = append(p.cols, sqSel(o.name, oc.name))
					p.vals = append(p.vals, sqProto(sqGenVal(rng, oc)))
				default: // an unqualified name
					col := t.cols[rng.Intn(len(t.cols))]
					p.cols = append(p.cols, col.name)
					p.vals = append(p.vals, sqProto(row.vals[col.name]))
				}
				rowKinds = append(rowKinds, kind)
			case "column-duplicated":
				i := pickIdx(func(i int) bool { return true })
				if i < 0 {
					return
				}
				col := colOf(i)
				p.cols = append(p.cols, p.cols[i])
				if rng.Bool() {
					p.vals = append(p.vals, p.vals[i])
					rowKinds = append(rowKinds, kind+"-same-value")
				} else {
					var nv interface{}
					if isNull(i) {
						nv = sqGenVal(rng, col)
					} else if rng.Bool() {
						nv = sqOther(rng, col, row.vals[col.name])
					}
					p.vals = append(p.vals, sqProto(nv))
					rowKinds = append(rowKinds, kind+"-other-value")
				}
			case "values-swapped":
				i := pickIdx(func(i int) bool { return true })
				if i < 0 {
					return
				}
				j := pickIdx(func(j int) bool {
					return j != i && colOf(j).typ == colOf(i).typ && !sqSame(row.vals[colOf(i).name], row.vals[colOf(j).name])
				})
				if j < 0 {
					j = pickIdx(func(j int) bool { return j != i && !sqSame(row.vals[colOf(i).name], row.vals[colOf(j).name]) })
				}
				if j < 0 {
					return
				}
				p.vals[i], p.vals[j] = p.vals[j], p.vals[i]
				rowKinds = append(rowKinds, kind)
				if coordinate {
					plan = &sqPlan{kind: "meta.colids-swap", name1: p.cols[i], name2: p.cols[j]}
				}
			case "older-version":
				if len(row.prev) == 0 {
					return
				}
				old := row.prev[rng.Intn(len(row.prev))]
				for i := range p.cols {
					if col := colOf(i); col != nil {
						if v, ok := old[col.name]; ok {
							p.vals[i] = sqProto(v)
						}
					}
				}
				rowKinds = append(rowKinds, kind)
			case "pk-of-other-row":
				if len(t.order) < 2 {
					return
				}
				o := pickRow(t)
				if sqKey(o.pk) == sqKey(row.pk) {
					return
				}
				p.pk = o.pk
				p.pkVals = nil
				for i := range t.pk {
					p.pkVals = append(p.pkVals, sqProto(o.pk[i]))
				}
				rowKinds = append(rowKinds, kind)
			case "pk-value-changed":
				i := rng.Intn(len(t.pk))
				nv := sqOther(rng, t.pk[i], row.pk[i])
				if nv == nil {
					return
				}
				pk := append([]interface{}{}, p.pk...)
				pk[i] = nv
				p.pk = pk
				p.pkVals = append([]*schema.SQLValue{}, p.pkVals...)
				p.pkVals[i] = sqProto(nv)
				rowKinds = append(rowKinds, kind)
			case "pk-count-changed":
				if rng.Bool() && len(p.pkVals) > 1 {
					p.pkVals = p.pkVals[:len(p.pkVals)-1]
					p.pk = append([]interface{}{}, p.pk[:len(p.pk)-1]...)
				} else {
					p.pkVals = append(p.pkVals, sqProto(int64(1)))
					p.pk = append(append([]interface{}{}, p.pk...), int64(1))
				}
				rowKinds = append(rowKinds, kind)
			case "table-changed":
				o := tabs[(rng.Intn(len(tabs)-1)+1+indexOfTab(tabs, t))%len(tabs)]
				p.table = o.name
				rowKinds = append(rowKinds, kind)
			}
		}
		weighted := []string{"value-to-other", "value-to-other", "value-to-null", "value-to-null", "value-to-null", "null-to-value", "null-to-value",
			"value-of-other-type", "nil-value", "columns-dropped", "columns-dropped", "columns-reordered", "column-added", "column-duplicated",
			"values-swapped", "values-swapped", "older-version", "older-version", "pk-of-other-row", "pk-value-changed", "pk-count-changed", "table-changed"}
		switch k := rng.Intn(100); {
		case k < 22: // honest row, honest response
		case k < 30: // truthful reshaping only
			applyRow([]string{"columns-dropped", "columns-reordered", "column-duplicated"}[rng.Intn(3)], false)
		case k < 62: // row tamper only
			applyRow(weighted[rng.Intn(len(weighted))], false)
			if rng.Chance(30) {
				applyRow(weighted[rng.Intn(len(weighted))], false)
			}
		case k < 80: // coordinated: the response's unauthenticated parts are altered to agree with the altered row
			applyRow([]string{"value-to-other", "value-to-null", "value-to-null", "null-to-value", "values-swapped"}[rng.Intn(5)], true)
			respTamper = plan != nil
			if rng.Chance(30) {
				applyRow("columns-dropped", false)
			}
		default: // response tamper only (random kind)
			respTamper = true
		}
		rowKind := strings.Join(rowKinds, "+")
		if rowKind == "" {
			rowKind = "as-committed"
		}
		// ---- the call ----
		tx0, h0 := c.stateOf()
		m.mu.Lock()
		m.armed, m.plan, m.kind, m.lastReply, m.lastReq = respTamper, plan, "", nil, nil
		m.mu.Unlock()
		prow := &schema.Row{Columns: p.cols, Values: p.vals}
		var err error
		func() {
			defer func() {
				if e := recover(); e != nil {
					err = fmt.Errorf("PANIC: %v", e)
				}
			}()
			err = c.c.VerifyRow(ctx, prow, p.table, p.pkVals)
		}()
		m.mu.Lock()
		m.armed = false
		respKind, rep := m.kind, m.lastReply
		m.plan = nil
		m.mu.Unlock()
		tx1, h1 := c.stateOf()
		if respKind == "" {
			respKind = "honest"
		}
		r.Count("sqlsvc.verifyrow." + okStr(err) + ".response=" + respKind + ".row=" + rowKind)
		r.Eval(fmt.Sprintf("vrow-%d-%s-%s", op, respKind, rowKind), respKind != "honest" || rowKind != "as-committed")
		replay := map[string]interface{}{"table": p.table, "pk": fmt.Sprint(p.pk), "row": sqRowText(prow), "row_tamper": rowKind, "response_tamper": respKind, "client": c.who, "signed": signed}
		if err != nil && strings.HasPrefix(err.Error(), "PANIC") {
			cls := respKind
			if strings.Contains(err.Error(), "is []uint8, not string") {
				// embedded/sql getConverter(BLOB -> UUID): the error path formats val.RawValue().(string) on a []byte
				cls = "blob-as-uuid-error-formatting"
			}
			r.Fail("C01:client.VerifyRow:panic:"+cls, fmt.Sprintf("%s VerifyRow(%s, %s, pk=%v): %v", c.who, sqRowText(prow), p.table, p.pk, err), replay)
			return nil
		}
		ok, why := truthful(p)
		r.OracleChecks++
		switch {
		case err == nil && !ok:
			sig := "C01:client.VerifyRow:accepts-untruthful-row:response=" + respKind + ":row=" + rowKinds0(rowKinds)
			if strings.HasPrefix(respKind, "meta.") {
				sig = "C01:client.VerifyRow:catalog-metadata-unauthenticated:" + respKind
			}
			committed := "?"
			for _, x := range tabs {
				if x.name == p.table {
					if rr, ok := x.rows[sqKey(p.pk)]; ok {
						committed = fmt.Sprintf("%#v", rr.vals)
					}
				}
			}
			replay["committed"] = committed
			r.Fail(sig, fmt.Sprintf("%s VerifyRow(row=%s, table=%s, pk=%v) SUCCEEDED although %s (response: %s; committed row: %s)", c.who, sqRowText(prow), p.table, p.pk, why, respKind, committed), replay)
		case err != nil && ok && respKind == "honest":
			if sqErrClass(err) == "" && strings.Contains(err.Error(), "rpc error") {
				r.Count("sqlsvc.verifyrow.server-error-on-truthful-row")
			}
			r.Fail("C01:client.VerifyRow:rejects-honest:row="+rowKinds0(rowKinds), fmt.Sprintf("%s VerifyRow(row=%s, table=%s, pk=%v) with an untampered response and a truthful row: %v", c.who, sqRowText(prow), p.table, p.pk, err), replay)
		}
		// trusted state: unchanged on error; genuine and not older on success
		r.OracleChecks++
		if err != nil {
			if tx1 != tx0 || !bytes.Equal(h0, h1) {
				r.Fail("C01:client.VerifyRow:state-changed-on-error", fmt.Sprintf("%s: VerifyRow failed (%v) but the stored state went (%d,%x) -> (%d,%x)", c.who, err, tx0, h0, tx1, h1), replay)
			}
		} else if tx1 > 0 {
			real, okr := realAlh(ctx, w, truth, tx1)
			if tx1 < tx0 || (okr && !bytes.Equal(real, h1)) {
				if okr && !bytes.Equal(real, h1) && tx1 > c.prev && !signed {
					r.Count("sqlsvc.state.different-future-accepted(unsigned)")
				} else {
					r.Fail("C01:client.VerifyRow:trusted-state-replaced", fmt.Sprintf("%s: after VerifyRow the stored state is (%d,%x), before (%d,%x), history's Alh of tx %d is %x (response: %s)", c.who, tx1, h1, tx0, h0, tx1, real, respKind), replay)
				}
				resetState(c.c, ctx)
			}
		}
		if t2, _ := c.stateOf(); t2 > 0 {
			c.prev = t2
		}
		// ---- correspondence with the Lean model of VerifyRow ----
		if rep != nil && respKind != "signature" {
			m.mu.Lock()
			req := m.lastReq
			m.mu.Unlock()
			cls := sqErrClass(err)
			switch {
			case req == nil || req.ProveSinceTx != tx0:
				r.Count("sqlsvc.vrow.skipped-state-race")
			case cls == "":
				r.Count("sqlsvc.vrow.skipped-other-error")
			default:
				if line, okl := sqVrowLine(tx0, h0, rep, p.pkVals, prow); okl {
					impl := cls
					if err == nil {
						impl = fmt.Sprintf("ok %d %s", tx1, hx.Hex(h1))
					}
					r.Corr(line, impl)
					r.Count("sqlsvc.vrow." + cls)
				} else {
					r.Count("sqlsvc.vrow.skipped-unrenderable-or-json")
				}
			}
		}
		return nil
	}

	for op := 0; op < nOps; op++ {
		if rng.Chance(28) {
			if err := writeOp(); err != nil {
				return err
			}
			continue
		}
		if err := trial(op); err != nil {
			return err
		}
	}
	if err := c01OtherVerified(r, rng, m, cl1, cl2, w, truth, signed, hdrV0); err != nil {
		return err
	}
	ntypes := 0
	for _, typ := range allTypes {
		for _, t := range tabs {
			if t.hasType(typ) {
				ntypes++
				break
			}
		}
	}
	r.Sample(map[string]interface{}{"kind": "service-level-sql", "ops": nOps, "tables": len(tabs), "column_types_present": ntypes})
	return nil
}

func indexOfTab(tabs []*sqTab, t *sqTab) int {
	for i, x := range tabs {
		if x == t {
			return i
		}
	}
	return 0
}

func rowKinds0(k []string) string {
	if len(k) == 0 {
		return "as-committed"
	}
	return strings.Join(k, "+")
}

func sqRowText(row *schema.Row) string {
	var sb strings.Builder
	sb.WriteString("{")
	for i, c := range row.Columns {
		if i > 0 {
			sb.WriteString(", ")
		}
		sb.WriteString(c + "=")
		if i < len(row.Values) {
			sb.WriteString(sqValTok(row.Values[i]))
		}
	}
	sb.WriteString("}")
	return sb.String()
}

// c01OtherVerified: the remaining exported verified calls of pkg/client that the key-value case (c01svc.go) does not
// reach — VerifiedGetSince, VerifiedGetAtRevision, VerifiedSetReference(At), VerifiedZAdd(At) — and VerifiedTxByID on
// transactions whose (altered) entries carry metadata, on databases writing header version 0 and 1.
func c01OtherVerified(r *hx.Result, rng *hx.Rng, m *sqMitm, cl1, cl2 *sqClient, w client.ImmuClient, truth *svcTruth, signed, hdrV0 bool) error {
	ctx := context.Background()
	type ver struct {
		tx  uint64
		val []byte
	}
	hist := map[string][]ver{}
	keys := []string{"ka", "kb", "kc"}
	for i := 0; i < 8; i++ {
		k := keys[rng.Intn(len(keys))]
		v := rng.Bytes(1 + rng.Intn(12))
		hdr, err := w.Set(ctx, []byte(k), v)
		if err != nil {
			return err
		}
		hist[k] = append(hist[k], ver{hdr.Id, v})
	}
	stateCheck := func(c *sqClient, tx0 uint64, h0 []byte, err error, what, kind string) {
		tx1, h1 := c.stateOf()
		r.OracleChecks++
		if err != nil {
			if tx1 != tx0 || !bytes.Equal(h0, h1) {
				r.Fail("C01:client."+what+":state-changed-on-error", fmt.Sprintf("%s %s failed (%v) but the stored state went (%d,%x) -> (%d,%x)", c.who, what, err, tx0, h0, tx1, h1), map[string]interface{}{"tamper": kind})
			}
			return
		}
		if tx1 == 0 {
			return
		}
		real, ok := realAlh(ctx, w, truth, tx1)
		if tx1 < tx0 || (ok && !bytes.Equal(real, h1)) {
			if ok && !bytes.Equal(real, h1) && tx1 > c.prev && !signed {
				r.Count("sqlsvc.state.different-future-accepted(unsigned)")
			} else {
				r.Fail("C01:client."+what+":trusted-state-replaced", fmt.Sprintf("%s after %s: stored state (%d,%x), before (%d,%x), history's Alh %x (tamper %s)", c.who, what, tx1, h1, tx0, h0, real, kind), map[string]interface{}{"tamper": kind})
			}
			resetState(c.c, ctx)
		}
		if t2, _ := c.stateOf(); t2 > 0 {
			c.prev = t2
		}
	}
	for op := 0; op < 36; op++ {
		c := cl1
		if rng.Chance(30) {
			c = cl2
		}
		tamper := rng.Chance(50)
		m.base.mu.Lock()
		m.base.armed, m.base.kind, m.base.force = tamper, "", ""
		m.base.mu.Unlock()
		done := func() string {
			m.base.mu.Lock()
			defer m.base.mu.Unlock()
			m.base.armed = false
			return m.base.kind
		}
		k := keys[rng.Intn(len(keys))]
		vs := hist[k]
		tx0, h0 := c.stateOf()
		switch rng.Intn(4) {
		case 0:
			if len(vs) == 0 {
				done()
				continue
			}
			since := vs[rng.Intn(len(vs))].tx
			e, err := c.c.VerifiedGetSince(ctx, []byte(k), since)
			kind := done()
			r.Count("sqlsvc.api.VerifiedGetSince." + okStr(err) + "." + kindOr(kind))
			r.Eval(fmt.Sprintf("api-getsince-%d-%s", op, kind), true)
			r.OracleChecks++
			last := vs[len(vs)-1]
			if err == nil && (!bytes.Equal(e.Value, last.val) || e.Tx != last.tx || string(e.Key) != k) {
				r.Fail("C01:client.VerifiedGetSince:accepts-tampered-response:"+kind, fmt.Sprintf("%s VerifiedGetSince(%q,%d) returned tx=%d value=%x; history: tx=%d value=%x", c.who, k, since, e.Tx, e.Value, last.tx, last.val), map[string]interface{}{"tamper": kind})
			}
			if err != nil && kind == "" {
				r.Fail("C01:client.VerifiedGetSince:rejects-honest", fmt.Sprintf("%s VerifiedGetSince(%q,%d): %v", c.who, k, since, err), nil)
			}
			stateCheck(c, tx0, h0, err, "VerifiedGetSince", kind)
		case 1:
			if len(vs) == 0 {
				done()
				continue
			}
			rev := int64(1 + rng.Intn(len(vs)))
			want := vs[rev-1]
			if rng.Bool() {
				rev = -int64(rng.Intn(len(vs)))
				want = vs[len(vs)-1+int(rev)]
			}
			e, err := c.c.VerifiedGetAtRevision(ctx, []byte(k), rev)
			kind := done()
			r.Count("sqlsvc.api.VerifiedGetAtRevision." + okStr(err) + "." + kindOr(kind))
			r.Eval(fmt.Sprintf("api-getrev-%d-%s", op, kind), true)
			r.OracleChecks++
			if err == nil && (!bytes.Equal(e.Value, want.val) || e.Tx != want.tx || string(e.Key) != k) {
				r.Fail("C01:client.VerifiedGetAtRevision:accepts-tampered-response:"+kind, fmt.Sprintf("%s VerifiedGetAtRevision(%q,%d) returned tx=%d value=%x; history: tx=%d value=%x", c.who, k, rev, e.Tx, e.Value, want.tx, want.val), map[string]interface{}{"tamper": kind})
			}
			if err != nil && kind == "" {
				r.Fail("C01:client.VerifiedGetAtRevision:rejects-honest", fmt.Sprintf("%s VerifiedGetAtRevision(%q,%d): %v", c.who, k, rev, err), nil)
			}
			stateCheck(c, tx0, h0, err, "VerifiedGetAtRevision", kind)
		case 2:
			if len(vs) == 0 {
				done()
				continue
			}
			var err error
			what := "VerifiedSetReference"
			rk := []byte(fmt.Sprintf("rf%d", op))
			if rng.Bool() {
				_, err = c.c.VerifiedSetReference(ctx, rk, []byte(k))
			} else {
				what = "VerifiedSetReferenceAt"
				_, err = c.c.VerifiedSetReferenceAt(ctx, rk, []byte(k), vs[rng.Intn(len(vs))].tx)
			}
			kind := done()
			r.Count("sqlsvc.api." + what + "." + okStr(err) + "." + kindOr(kind))
			r.Eval(fmt.Sprintf("api-setref-%d-%s", op, kind), true)
			if err != nil && kind == "" {
				r.Fail("C01:client."+what+":rejects-honest", fmt.Sprintf("%s %s(%q -> %q): %v", c.who, what, rk, k, err), nil)
			}
			if err != nil {
				// the write happened although the (altered) response was rejected; the state must not have moved
				tx1, h1 := c.stateOf()
				r.OracleChecks++
				if tx1 != tx0 || !bytes.Equal(h0, h1) {
					r.Fail("C01:client."+what+":state-changed-on-error", fmt.Sprintf("%s %s failed (%v) but the state moved %d -> %d", c.who, what, err, tx0, tx1), map[string]interface{}{"tamper": kind})
				}
			} else {
				stateCheck(c, tx0, h0, err, what, kind)
			}
		default:
			if len(vs) == 0 {
				done()
				continue
			}
			var err error
			what := "VerifiedZAdd"
			if rng.Bool() {
				_, err = c.c.VerifiedZAdd(ctx, []byte("zs"), float64(rng.Intn(100))/4, []byte(k))
			} else {
				what = "VerifiedZAddAt"
				_, err = c.c.VerifiedZAddAt(ctx, []byte("zs"), float64(rng.Intn(100))/4, []byte(k), vs[rng.Intn(len(vs))].tx)
			}
			kind := done()
			r.Count("sqlsvc.api." + what + "." + okStr(err) + "." + kindOr(kind))
			r.Eval(fmt.Sprintf("api-zadd-%d-%s", op, kind), true)
			if err != nil && kind == "" {
				r.Fail("C01:client."+what+":rejects-honest", fmt.Sprintf("%s %s(zs, %q): %v", c.who, what, k, err), nil)
			}
			if err != nil {
				tx1, h1 := c.stateOf()
				r.OracleChecks++
				if tx1 != tx0 || !bytes.Equal(h0, h1) {
					r.Fail("C01:client."+what+":state-changed-on-error", fmt.Sprintf("%s %s failed (%v) but the state moved %d -> %d", c.who, what, err, tx0, tx1), map[string]interface{}{"tamper": kind})
				}
			} else {
				stateCheck(c, tx0, h0, err, what, kind)
			}
		}
	}
	// VerifiedTxByID: the returned entries must be the proven ones also when an (altered) entry carries metadata.
	// With header version 0 the entry digest rejects metadata (ErrMetadataUnsupported) — the re-computation of the
	// entries digest must then FAIL the verification, not be skipped.
	for _, k := range keys {
		for _, v := range hist[k] {
			for _, plan := range []string{"tx.entry-md-only", "tx.entry-md+key", "tx.entry-md+hvalue"} {
				if !rng.Chance(40) {
					continue
				}
				c := cl1
				tx0, h0 := c.stateOf()
				m.mu.Lock()
				m.txPlan, m.kind = plan, ""
				m.mu.Unlock()
				got, err := c.c.VerifiedTxByID(ctx, v.tx)
				m.mu.Lock()
				kind := m.kind
				m.txPlan = ""
				m.mu.Unlock()
				if kind == "" {
					continue
				}
				r.Count(fmt.Sprintf("sqlsvc.api.VerifiedTxByID.%s.tampered:%s.txheader-v0=%v", okStr(err), kind, hdrV0))
				r.Eval(fmt.Sprintf("api-vtx-md-%d-%s", v.tx, plan), true)
				r.OracleChecks++
				if err == nil {
					ref, rerr := w.TxByID(ctx, v.tx)
					if rerr == nil && !proto.Equal(stripTx(got), stripTx(ref)) {
						sig := "C01:client.VerifiedTxByID:accepts-tampered-response:" + kind
						if hdrV0 {
							sig = "C01:client.VerifiedTxByID:v0-entries-unchecked-when-entry-metadata-present"
						}
						r.Fail(sig, fmt.Sprintf("VerifiedTxByID(%d) on a database writing header version %d accepted a response whose entries were altered (%s): returned %v, committed %v", v.tx, map[bool]int{true: 0, false: 1}[hdrV0], kind, got.Entries, ref.Entries),
							map[string]interface{}{"tx": v.tx, "tamper": kind, "txheader_v0": hdrV0})
					}
				}
				stateCheck(c, tx0, h0, err, "VerifiedTxByID", kind)
			}
		}
	}
	return nil
}
