package main

// C10 — Timed B-tree equals a multi-version ordered map; snapshots are immutable.
//
// Real tbtree.Open in a scratch dir with MaxNodeSize at / just above the minimum the options allow
// (deep trees, multi-way splits with a few hundred keys), tiny caches, small flush thresholds, small
// MaxActiveSnapshots, small files (so DiscardUpto really deletes chunks), cleanup percentages 0..100.
// Every operation goes (a) to the Lean model driver (`c10 …` lines, canonical answers, error CLASSES),
// (b) to an independent Go reference (sorted slice of keys -> versions) = the property oracle.
// Open snapshots are re-read after later mutations and must return exactly their creation dump.
// c10_cow.go adds small-tree copy-on-write cases (root leaf / shallow trees, ts advance on a flushed root, updates
// of existing keys, all open snapshots re-read after every mutating op).

import (
	"bytes"
	"errors"
	"fmt"
	"sort"
	"strings"

	"github.com/codenotary/immudb/embedded/tbtree"

	"verif/harness/internal/hx"
)

func init() { runners["C10"] = runC10 }

func c10Err(err error) string {
	switch {
	case err == nil:
		return "ok"
	case errors.Is(err, tbtree.ErrKeyNotFound):
		return "err:notfound"
	case errors.Is(err, tbtree.ErrNoMoreEntries):
		return "err:nomore"
	case errors.Is(err, tbtree.ErrOffsetOutOfRange):
		return "err:offset"
	case errors.Is(err, tbtree.ErrorMaxKeySizeExceeded):
		return "err:maxkey"
	case errors.Is(err, tbtree.ErrorMaxValueSizeExceeded):
		return "err:maxval"
	case errors.Is(err, tbtree.ErrAlreadyClosed):
		return "err:closed"
	case errors.Is(err, tbtree.ErrorToManyActiveSnapshots):
		return "err:toomanysnaps"
	case errors.Is(err, tbtree.ErrSnapshotsNotClosed):
		return "err:snapsopen"
	case errors.Is(err, tbtree.ErrCompactionThresholdNotReached):
		return "err:threshold"
	case errors.Is(err, tbtree.ErrIllegalArguments):
		return "err:illegal"
	}
	return "err:other"
}

// ---------------------------------------------------------------------------------------------
// independent reference: sorted slice of keys, each with its versions newest first
// ---------------------------------------------------------------------------------------------

type c10TV struct {
	V  []byte
	Ts uint64
}
type c10Entry struct {
	K  []byte
	Vs []c10TV
}
type c10Map struct {
	Es []*c10Entry
	Ts uint64
}
type c10KVT struct {
	K, V []byte
	T    uint64
}

func (m *c10Map) clone() *c10Map {
	n := &c10Map{Ts: m.Ts, Es: make([]*c10Entry, len(m.Es))}
	for i, e := range m.Es {
		n.Es[i] = &c10Entry{K: e.K, Vs: append([]c10TV(nil), e.Vs...)}
	}
	return n
}

// contentTs: the ts of a stored tree (greatest ts of the newest versions)
func (m *c10Map) contentTs() uint64 {
	var ts uint64
	for _, e := range m.Es {
		if e.Vs[0].Ts > ts {
			ts = e.Vs[0].Ts
		}
	}
	return ts
}

func (m *c10Map) idx(k []byte) (int, bool) {
	i := sort.Search(len(m.Es), func(i int) bool { return bytes.Compare(m.Es[i].K, k) >= 0 })
	return i, i < len(m.Es) && bytes.Equal(m.Es[i].K, k)
}

// apply a VALID bulk (sizes ok, T already resolved, T > m.Ts); false = the bulk must be rejected
// (an entry older than the newest version of its key, which can only be an earlier entry of the bulk).
func (m *c10Map) apply(kvts []c10KVT) bool {
	for _, kv := range kvts {
		i, found := m.idx(kv.K)
		if found {
			e := m.Es[i]
			if kv.T < e.Vs[0].Ts {
				return false
			}
			if kv.T > e.Vs[0].Ts {
				e.Vs = append([]c10TV{{V: kv.V, Ts: kv.T}}, e.Vs...)
			}
		} else {
			m.Es = append(m.Es, nil)
			copy(m.Es[i+1:], m.Es[i:])
			m.Es[i] = &c10Entry{K: kv.K, Vs: []c10TV{{V: kv.V, Ts: kv.T}}}
		}
		if kv.T > m.Ts {
			m.Ts = kv.T
		}
	}
	return true
}

func (m *c10Map) dump() string {
	var sb strings.Builder
	fmt.Fprintf(&sb, "ts=%d", m.Ts)
	for _, e := range m.Es {
		sb.WriteString(";" + hx.Hex(e.K) + "=")
		for j, tv := range e.Vs {
			if j > 0 {
				sb.WriteByte('|')
			}
			fmt.Fprintf(&sb, "%s:%d", hx.Hex(tv.V), tv.Ts)
		}
	}
	return sb.String()
}

func c10Fmt3(v []byte, ts, hc uint64, err error) string {
	if err != nil {
		return c10Err(err)
	}
	return fmt.Sprintf("%s %d %d", hx.Hex(v), ts, hc)
}

func (m *c10Map) get(k []byte) string {
	i, ok := m.idx(k)
	if !ok {
		return "err:notfound"
	}
	e := m.Es[i]
	return fmt.Sprintf("%s %d %d", hx.Hex(e.Vs[0].V), e.Vs[0].Ts, len(e.Vs))
}

// declarative: newest version with ts <= t2 (no upper bound when t2 == 0); must have ts >= t1;
// hc = number of versions not newer than it.
func (m *c10Map) getBetween(k []byte, t1, t2 uint64) string {
	i, ok := m.idx(k)
	if !ok {
		return "err:notfound"
	}
	if t1 > t2 {
		return "err:illegal"
	}
	e := m.Es[i]
	for j, tv := range e.Vs {
		if t2 == 0 || tv.Ts <= t2 {
			if tv.Ts < t1 {
				return "err:notfound"
			}
			return fmt.Sprintf("%s %d %d", hx.Hex(tv.V), tv.Ts, len(e.Vs)-j)
		}
	}
	return "err:notfound"
}

func c10FmtTvs(vs []c10TV) string {
	if len(vs) == 0 {
		return "_"
	}
	ss := make([]string, len(vs))
	for i, tv := range vs {
		ss[i] = fmt.Sprintf("%s:%d", hx.Hex(tv.V), tv.Ts)
	}
	return strings.Join(ss, ",")
}

// declarative: all versions in the requested direction, then [offset, offset+limit)
func (m *c10Map) history(k []byte, off uint64, desc bool, limit int) string {
	if limit < 1 {
		return "err:illegal"
	}
	i, ok := m.idx(k)
	if !ok {
		return "err:notfound"
	}
	vs := append([]c10TV(nil), m.Es[i].Vs...)
	n := uint64(len(vs))
	if !desc {
		for a, b := 0, len(vs)-1; a < b; a, b = a+1, b-1 {
			vs[a], vs[b] = vs[b], vs[a]
		}
	}
	if off == n {
		return "err:nomore"
	}
	if off > n {
		return "err:offset"
	}
	end := off + uint64(limit)
	if end > n {
		end = n
	}
	return fmt.Sprintf("%s %d", c10FmtTvs(vs[off:end]), n)
}

func (m *c10Map) getWithPrefix(pfx, neq []byte) string {
	for _, e := range m.Es {
		if bytes.Compare(e.K, pfx) < 0 {
			continue
		}
		if len(neq) > 0 && bytes.Compare(e.K, neq) <= 0 {
			continue
		}
		if bytes.HasPrefix(e.K, pfx) {
			return fmt.Sprintf("%s %s %d %d", hx.Hex(e.K), hx.Hex(e.Vs[0].V), e.Vs[0].Ts, len(e.Vs))
		}
		return "err:notfound"
	}
	return "err:notfound"
}

type c10Spec struct {
	Seek, End, Prefix []byte
	ISeek, IEnd       bool
	Hist, Desc        bool
	Off               uint64
}

func (s c10Spec) tok() string {
	return fmt.Sprintf("%s %s %s %s %s %s %s %d", hx.Hex(s.Seek), hx.Hex(s.End), hx.Hex(s.Prefix), c10b(s.ISeek), c10b(s.IEnd), c10b(s.Hist), c10b(s.Desc), s.Off)
}

func c10b(b bool) string {
	if b {
		return "1"
	}
	return "0"
}

// declarative reader semantics: the set of keys with the prefix, on the right side of the seek key and
// of the end key (ORIGINAL, unadjusted bounds), in the requested order, minus `Off` keys.
func (m *c10Map) selectKeys(s c10Spec, maxKey int) ([]*c10Entry, string) {
	if len(s.Seek) > maxKey || len(s.Prefix) > maxKey {
		return nil, "err:illegal"
	}
	var sel []*c10Entry
	for _, e := range m.Es {
		if !bytes.HasPrefix(e.K, s.Prefix) {
			continue
		}
		cs := bytes.Compare(e.K, s.Seek)
		ce := bytes.Compare(e.K, s.End)
		if s.Desc {
			if len(s.Seek) > 0 && (cs > 0 || (cs == 0 && !s.ISeek)) {
				continue
			}
			if len(s.End) > 0 && (ce < 0 || (ce == 0 && !s.IEnd)) {
				continue
			}
		} else {
			if cs < 0 || (cs == 0 && !s.ISeek) {
				continue
			}
			if len(s.End) > 0 && (ce > 0 || (ce == 0 && !s.IEnd)) {
				continue
			}
		}
		sel = append(sel, e)
	}
	if s.Desc {
		for a, b := 0, len(sel)-1; a < b; a, b = a+1, b-1 {
			sel[a], sel[b] = sel[b], sel[a]
		}
	}
	if s.Off >= uint64(len(sel)) {
		return nil, ""
	}
	return sel[s.Off:], ""
}

func c10Row(k, v []byte, ts, hc uint64) string {
	return fmt.Sprintf("%s:%s:%d:%d", hx.Hex(k), hx.Hex(v), ts, hc)
}

func c10Rows(rows []string) string {
	if len(rows) == 0 {
		return "_"
	}
	return strings.Join(rows, ",")
}

func (m *c10Map) scan(s c10Spec, maxKey int) string {
	sel, e := m.selectKeys(s, maxKey)
	if e != "" {
		return e
	}
	var rows []string
	for _, en := range sel {
		if !s.Hist {
			rows = append(rows, c10Row(en.K, en.Vs[0].V, en.Vs[0].Ts, uint64(len(en.Vs))))
			continue
		}
		n := len(en.Vs)
		if s.Desc {
			for j, tv := range en.Vs {
				rows = append(rows, c10Row(en.K, tv.V, tv.Ts, uint64(n-j)))
			}
		} else {
			for j := n - 1; j >= 0; j-- {
				rows = append(rows, c10Row(en.K, en.Vs[j].V, en.Vs[j].Ts, uint64(n-j)))
			}
		}
	}
	return c10Rows(rows)
}

func (m *c10Map) scanBetween(s c10Spec, maxKey int, t1, t2 uint64) string {
	sel, e := m.selectKeys(s, maxKey)
	if e != "" {
		return e
	}
	var rows []string
	for _, en := range sel {
		if t1 > t2 {
			continue
		}
		for j, tv := range en.Vs {
			if t2 == 0 || tv.Ts <= t2 {
				if tv.Ts >= t1 {
					rows = append(rows, c10Row(en.K, tv.V, tv.Ts, uint64(len(en.Vs)-j)))
				}
				break
			}
		}
	}
	return c10Rows(rows)
}

// ---------------------------------------------------------------------------------------------
// environment of one case
// ---------------------------------------------------------------------------------------------

type c10Cfg struct {
	MaxKey, MaxVal, MaxNode, Cache, FlushThld, SyncThld, MaxBuf, MaxActive, CompThld, FileSize, FlushBuf, NOpen, HOpen int
	Cleanup                                                                                        float32
}

type c10Snap struct {
	name int
	s    *tbtree.Snapshot
	ref  *c10Map
	dump string
	reqTs uint64
}

type c10Replay struct {
	Kind   string      `json:"kind"`
	Cfg    interface{} `json:"cfg,omitempty"`
	Pool   []string    `json:"pool,omitempty"`
	Ops    []string    `json:"ops,omitempty"`
	Detail string      `json:"detail,omitempty"`
}

type c10Env struct {
	r        *hx.Result
	rng      *hx.Rng
	dir      string
	cfg      c10Cfg
	t        *tbtree.TBtree
	ref      *c10Map
	past     map[string]*c10Map
	atOpen   *c10Map
	dumps    []*c10Map // reference states at successful Compact calls since the last open
	loadedID uint64
	snaps    []*c10Snap
	nextSnap int
	pool     [][]byte
	uni      map[string][]byte
	ops      []string
	tainted  bool
	maxDepth int
	thorough bool
	isClosed bool
	lastKind string

	// copy-on-write ingredient tracking (input distribution only; see c10_cow.go)
	curDepth int  // depth published by the last accepted insert (1 = the root is a leaf)
	clean    bool // the root was just flushed / loaded: no accepted insert or ts advance since
	armed    bool // ts advanced on a clean root while a flushed root was pinned: the next update of an existing key hits shared nodes
	nfail    int  // oracle failures reported by this case
}

func (e *c10Env) replay(detail string) c10Replay {
	return c10Replay{Kind: "c10-case", Cfg: e.cfg, Pool: hexAll(e.pool), Ops: append([]string(nil), e.ops...), Detail: detail}
}

func hexAll(ks [][]byte) []string {
	o := make([]string, len(ks))
	for i, k := range ks {
		o[i] = hx.Hex(k)
	}
	return o
}

func (e *c10Env) fail(sig, desc string) {
	e.nfail++
	e.r.Fail(sig, desc, e.replay(desc))
}

// corr: one line for the model + the implementation's canonical answer; also kept for replays
func (e *c10Env) corr(op, impl string) {
	e.ops = append(e.ops, op+" => "+trunc200(impl))
	e.r.Corr("c10 "+op, impl)
}

// check: implementation answer vs reference answer (the oracle)
func (e *c10Env) check(sig, op, impl, want string) {
	e.r.OracleChecks++
	if impl != want {
		e.fail(sig, fmt.Sprintf("%s: implementation %q, reference map %q", op, trunc200(impl), trunc200(want)))
	}
}

func trunc200(s string) string {
	if len(s) > 300 {
		return s[:300] + "…"
	}
	return s
}

func (e *c10Env) opts() *tbtree.Options {
	c := e.cfg
	return tbtree.DefaultOptions().
		WithLogger(quietLogger()).
		WithMaxKeySize(c.MaxKey).WithMaxValueSize(c.MaxVal).WithMaxNodeSize(c.MaxNode).
		WithCacheSize(c.Cache).
		WithFlushThld(c.FlushThld).WithSyncThld(c.SyncThld).
		WithMaxBufferedDataSize(c.MaxBuf).
		WithFlushBufferSize(c.FlushBuf).
		WithCleanupPercentage(c.Cleanup).
		WithMaxActiveSnapshots(c.MaxActive).
		WithRenewSnapRootAfter(0).
		WithCompactionThld(c.CompThld).
		WithDelayDuringCompaction(0).
		WithFileSize(c.FileSize).
		WithNodesLogMaxOpenedFiles(c.NOpen).WithHistoryLogMaxOpenedFiles(c.HOpen)
}

func (e *c10Env) remember() {
	d := e.ref.dump()
	if _, ok := e.past[d]; !ok {
		e.past[d] = e.ref.clone()
	}
}

func (e *c10Env) addUni(k []byte) {
	if len(k) == 0 {
		return
	}
	if _, ok := e.uni[string(k)]; !ok {
		e.uni[string(k)] = append([]byte(nil), k...)
	}
}

func (e *c10Env) uniSorted() [][]byte {
	ks := make([][]byte, 0, len(e.uni))
	for _, k := range e.uni {
		ks = append(ks, k)
	}
	sort.Slice(ks, func(i, j int) bool { return bytes.Compare(ks[i], ks[j]) < 0 })
	return ks
}

// ---------------------------------------------------------------------------------------------
// generators
// ---------------------------------------------------------------------------------------------

var c10Alpha = []byte{0x00, 0x01, 0x61, 0x62, 0x7f, 0x80, 0xfe, 0xff}

func c10RandBytes(rng *hx.Rng, n int) []byte {
	b := make([]byte, n)
	for i := range b {
		b[i] = c10Alpha[rng.Intn(len(c10Alpha))]
	}
	return b
}

func c10Pool(rng *hx.Rng, maxKey, n int) [][]byte {
	seen := map[string]bool{}
	var pool [][]byte
	add := func(k []byte) {
		if len(k) == 0 || len(k) > maxKey || seen[string(k)] {
			return
		}
		seen[string(k)] = true
		pool = append(pool, append([]byte(nil), k...))
	}
	nstems := 1 + rng.Intn(3)
	stems := make([][]byte, nstems)
	for i := range stems {
		l := 1 + rng.Intn(maxKey)
		if rng.Chance(50) && maxKey > 3 {
			l = maxKey - 1 - rng.Intn(3) // long shared prefixes
		}
		stems[i] = c10RandBytes(rng, l)
		add(stems[i])
		add(append(append([]byte(nil), stems[i]...), 0x00))
		add(append(append([]byte(nil), stems[i]...), 0xff))
	}
	add([]byte{0x00})
	add([]byte{0xff})
	add(bytes.Repeat([]byte{0xff}, maxKey))
	add(bytes.Repeat([]byte{0x00}, maxKey))
	for tries := 0; len(pool) < n && tries < 20*n; tries++ {
		st := stems[rng.Intn(nstems)]
		cut := rng.Intn(len(st) + 1)
		k := append([]byte(nil), st[:cut]...)
		room := maxKey - len(k)
		if room > 0 {
			sl := rng.Intn(room + 1)
			if rng.Chance(60) && sl > 3 {
				sl = 1 + rng.Intn(3)
			}
			k = append(k, c10RandBytes(rng, sl)...)
		}
		add(k)
	}
	return pool
}

func (e *c10Env) poolKey() []byte { return e.pool[e.rng.Intn(len(e.pool))] }

// a key-ish byte string for seek/end/prefix/neq/probe arguments
func (e *c10Env) argKey(allowLong bool) []byte {
	rng := e.rng
	switch rng.Intn(10) {
	case 0:
		return nil
	case 1:
		k := e.poolKey()
		return append([]byte(nil), k[:rng.Intn(len(k)+1)]...)
	case 2:
		k := append([]byte(nil), e.poolKey()...)
		return append(k, c10Alpha[rng.Intn(len(c10Alpha))])
	case 3:
		return c10RandBytes(rng, 1+rng.Intn(e.cfg.MaxKey))
	case 4:
		if allowLong && rng.Chance(30) {
			return c10RandBytes(rng, e.cfg.MaxKey+1+rng.Intn(3))
		}
		return bytes.Repeat([]byte{0xff}, e.cfg.MaxKey)
	default:
		return e.poolKey()
	}
}

func (e *c10Env) value(valid bool) []byte {
	rng := e.rng
	if !valid {
		if rng.Bool() {
			return nil
		}
		return c10RandBytes(rng, e.cfg.MaxVal+1+rng.Intn(2))
	}
	l := 1 + rng.Intn(e.cfg.MaxVal)
	if rng.Chance(50) {
		l = 1 + rng.Intn(3)
	}
	if rng.Chance(10) || l > e.cfg.MaxVal {
		l = e.cfg.MaxVal
	}
	return c10RandBytes(rng, l)
}

