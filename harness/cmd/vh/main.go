// vh: verification harness. One subcommand per property; runs the real immudb code
// in-process, queues the same operations for the Lean model driver, evaluates
// model-independent oracles, and writes a JSON result consumed by /verif/check.
package main

import (
	"flag"
	"fmt"
	"os"
	"strconv"

	"verif/harness/internal/hx"
)

type runner func(r *hx.Result, rng *hx.Rng, thorough bool, replay string) error

var runners = map[string]runner{}

func main() {
	if len(os.Args) < 2 {
		fmt.Fprintln(os.Stderr, "usage: vh <prop> [flags]")
		os.Exit(2)
	}
	prop := os.Args[1]
	fs := flag.NewFlagSet(prop, flag.ExitOnError)
	tier := fs.String("tier", "quick", "quick|thorough")
	seedS := fs.String("seed", "1", "seed")
	out := fs.String("out", "", "result json path")
	driver := fs.String("driver", "/verif/lean/.lake/build/bin/driver", "Lean driver executable")
	replay := fs.String("replay", "", "replay file")
	fs.Parse(os.Args[2:])
	seed, _ := strconv.ParseUint(*seedS, 10, 64)
	run, ok := runners[prop]
	if !ok {
		fmt.Fprintln(os.Stderr, "unknown property", prop)
		os.Exit(2)
	}
	res := hx.NewResult(prop, *tier, seed, *driver)
	err := run(res, hx.NewRng(seed), *tier == "thorough", *replay)
	if err == nil {
		err = res.Flush()
	}
	if err != nil {
		res.Notes = append(res.Notes, "harness-error: "+err.Error())
		res.Inconclusive = append(res.Inconclusive, err.Error())
	}
	if *out != "" {
		if werr := res.Write(*out); werr != nil {
			fmt.Fprintln(os.Stderr, werr)
			os.Exit(3)
		}
	}
	fmt.Printf("%s: evals=%d nontrivial=%d corr=%d mismatches=%d oracle_failures=%d\n", prop, res.Evaluations, res.Nontrivial, res.CorrLines, len(res.Mismatches), len(res.Oracle))
	if err != nil {
		fmt.Fprintln(os.Stderr, "error:", err)
		os.Exit(3)
	}
}
