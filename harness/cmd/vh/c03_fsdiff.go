package main

// C03, part A: differential validation of the crash-simulating storage (internal/crashfs) against the
// real multiapp.MultiFileAppendable: the same random operation sequence is applied to both and every
// answer (offset, n, bytes, error class, size) must agree, including after close + reopen (where the
// crashfs image keeps every written byte, i.e. what a clean close leaves on disk).

import (
	"bytes"
	"errors"
	"fmt"
	"io"
	"os"
	"path/filepath"

	"github.com/codenotary/immudb/embedded/appendable"
	"github.com/codenotary/immudb/embedded/appendable/multiapp"
	"github.com/codenotary/immudb/embedded/appendable/singleapp"

	"verif/harness/internal/crashfs"
	"verif/harness/internal/hx"
)

func appErrClass(err error) string {
	switch {
	case err == nil:
		return "ok"
	case errors.Is(err, io.EOF):
		return "eof"
	case errors.Is(err, multiapp.ErrAlreadyClosed), errors.Is(err, singleapp.ErrAlreadyClosed):
		return "closed"
	case errors.Is(err, multiapp.ErrReadOnly), errors.Is(err, singleapp.ErrReadOnly):
		return "readonly"
	case errors.Is(err, multiapp.ErrIllegalArguments), errors.Is(err, singleapp.ErrIllegalArguments):
		return "illegal"
	case errors.Is(err, singleapp.ErrBufferFull):
		return "buffer-full"
	case errors.Is(err, singleapp.ErrNegativeOffset):
		return "negative"
	}
	return "other"
}

// one differential case; returns the number of compared answers
func c03FsDiffCase(r *hx.Result, rng *hx.Rng, nops int) error {
	dir := hx.TempDir("c03fs")
	defer os.RemoveAll(dir)

	multiChunk := rng.Chance(50)
	fileSize := 1 << 20
	if multiChunk {
		fileSize = 8 + rng.Intn(40)
	}
	wbuf := 1 + rng.Intn(24)
	if rng.Chance(20) {
		wbuf = 4096
	}
	retry := rng.Bool()
	auto := rng.Chance(80)
	meta := rng.Bytes(rng.Intn(9))
	mkOpts := func() *multiapp.Options {
		return multiapp.DefaultOptions().WithFileSize(fileSize).WithWriteBufferSize(wbuf).WithRetryableSync(retry).
			WithAutoSync(auto).WithMetadata(meta).WithFileExt("x").WithMaxOpenedFiles(1 + rng.Intn(3))
	}
	cfgKey := fmt.Sprintf("fsdiff.cfg.multichunk=%v.retry=%v.auto=%v", multiChunk, retry, auto)
	r.Count(cfgKey)

	realPath := filepath.Join(dir, "real")
	var real appendable.Appendable
	real, err := multiapp.Open(realPath, mkOpts())
	if err != nil {
		return err
	}
	defer func() { real.Close() }()

	fakeRoot := filepath.Join(dir, "fake")
	os.MkdirAll(fakeRoot, 0o755)
	fs, err := crashfs.New(fakeRoot, nil, true)
	if err != nil {
		return err
	}
	var fake appendable.Appendable
	fake, err = fs.Factory()(fakeRoot, "f", mkOpts())
	if err != nil {
		return err
	}

	var trace []string
	cmp := func(op string, a, b string) {
		trace = append(trace, op+" => "+a)
		r.Eval("fsdiff", false)
		r.OracleChecks++
		if a != b {
			r.Fail("C03:crashfs:differs-from-multiapp", fmt.Sprintf("%s: real=%s crashfs=%s cfg=%s fileSize=%d wbuf=%d", op, a, b, cfgKey, fileSize, wbuf),
				map[string]interface{}{"trace": trace, "fileSize": fileSize, "wbuf": wbuf, "retry": retry, "auto": auto})
		}
	}

	// stale: a rewind below already flushed data happened => the physical files hold bytes past the logical
	// end.  In the multi-chunk regime the real ReadAt is then bounded by chunk-file ends while crashfs is one
	// logical file, so reads are only compared while no stale tail can exist (single-chunk: always compared).
	stale := false
	bufferFull := false
	for i := 0; i < nops && !bufferFull; i++ {
		sz, _ := real.Size()
		switch k := rng.Intn(100); {
		case k < 40:
			n := 1 + rng.Size(30)
			bs := rng.Bytes(n)
			o1, n1, e1 := real.Append(bs)
			o2, n2, e2 := fake.Append(bs)
			r.Count("fsdiff.op.append")
			cmp(fmt.Sprintf("append %d", n), fmt.Sprintf("%d %d %s", o1, n1, appErrClass(e1)), fmt.Sprintf("%d %d %s", o2, n2, appErrClass(e2)))
			if e1 != nil {
				bufferFull = true // retryable sync without autosync: the real appendable is left half-written; stop the case
			}
		case k < 60:
			if sz == 0 {
				continue
			}
			off := int64(rng.Intn(int(sz) + 2))
			n := 1 + rng.Intn(20)
			if !stale || !multiChunk {
				b1 := make([]byte, n)
				b2 := make([]byte, n)
				n1, e1 := real.ReadAt(b1, off)
				n2, e2 := fake.ReadAt(b2, off)
				r.Count("fsdiff.op.read")
				if !stale || off+int64(n) <= sz {
					cmp(fmt.Sprintf("read %d@%d", n, off), fmt.Sprintf("%d %s %s", n1, appErrClass(e1), hx.Hex(b1[:n1])), fmt.Sprintf("%d %s %s", n2, appErrClass(e2), hx.Hex(b2[:n2])))
				} else {
					r.Count("fsdiff.read-past-end-with-stale-tail.skipped")
				}
			}
		case k < 70:
			off := int64(rng.Intn(int(sz) + 2))
			if rng.Chance(30) {
				off = sz
			}
			e1 := real.SetOffset(off)
			e2 := fake.SetOffset(off)
			r.Count("fsdiff.op.setoffset")
			cmp(fmt.Sprintf("setoffset %d (size %d)", off, sz), appErrClass(e1), appErrClass(e2))
			if off < sz {
				stale = true
			}
		case k < 78:
			r.Count("fsdiff.op.flush")
			cmp("flush", appErrClass(real.Flush()), appErrClass(fake.Flush()))
		case k < 86:
			r.Count("fsdiff.op.sync")
			cmp("sync", appErrClass(real.Sync()), appErrClass(fake.Sync()))
		case k < 92:
			s1, e1 := real.Size()
			s2, e2 := fake.Size()
			r.Count("fsdiff.op.size")
			cmp("size", fmt.Sprintf("%d %s %d", s1, appErrClass(e1), real.Offset()), fmt.Sprintf("%d %s %d", s2, appErrClass(e2), fake.Offset()))
		default:
			// close + reopen: the logical size becomes the physical one (a stale tail reappears)
			r.Count("fsdiff.op.reopen")
			cmp("close", appErrClass(real.Close()), appErrClass(fake.Close()))
			real, err = multiapp.Open(realPath, mkOpts())
			if err != nil {
				return err
			}
			fake, err = fs.Factory()(fakeRoot, "f", mkOpts())
			if err != nil {
				return err
			}
			s1, _ := real.Size()
			s2, _ := fake.Size()
			if !(stale && multiChunk) {
				cmp("size-after-reopen", fmt.Sprint(s1), fmt.Sprint(s2))
				if stale && s1 > sz {
					r.Count("fsdiff.stale-tail-reappeared-after-reopen")
				}
			} else if s1 != s2 {
				r.Count("fsdiff.multichunk-stale-reopen-size-differs.skipped")
				return nil
			}
			cmp("meta-after-reopen", hx.Hex(real.Metadata()), hx.Hex(fake.Metadata()))
			if !bytes.Equal(real.Metadata(), meta) {
				cmp("meta-given", hx.Hex(meta), hx.Hex(real.Metadata()))
			}
			stale = false
			if s1 > 0 {
				b1 := make([]byte, s1)
				b2 := make([]byte, s1)
				n1, e1 := real.ReadAt(b1, 0)
				n2, e2 := fake.ReadAt(b2, 0)
				cmp("read-all-after-reopen", fmt.Sprintf("%d %s %s", n1, appErrClass(e1), hx.Hex(b1[:n1])), fmt.Sprintf("%d %s %s", n2, appErrClass(e2), hx.Hex(b2[:n2])))
			}
		}
	}
	fake.Close()
	return nil
}
