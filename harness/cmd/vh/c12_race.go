package main

// C12 — uniqueness under concurrent sessions (added for the seeded change c12-a).
//
// The constraint checks of the SQL engine are READS (existence of the primary key: `tx.get`;
// UNIQUE index: `tx.getWithPrefix` on the index-value prefix, which normally finds NOTHING); what
// makes them hold under concurrency is the MVCC validation of exactly these reads at COMMIT
// (`OngoingTx.checkPreconditions`: "not found" must still be "not found").  This mode explores that
// direction:
//
//   - tables with a primary key (single / composite / AUTO_INCREMENT / VARCHAR) and 1–2 UNIQUE
//     indexes (single- and multi-column) plus optionally a non-unique one;
//   - 2–4 sessions with explicit BEGIN … COMMIT, scheduled deterministically from the seed
//     (lock-step rounds: every statement before the first COMMIT; and free interleavings);
//   - statements addressed by primary key (INSERT / INSERT … ON CONFLICT DO NOTHING / UPSERT /
//     UPDATE / DELETE … WHERE pk = k) whose values are biased towards the unique tuples OTHER open
//     sessions have written under DIFFERENT primary keys (insert/insert, insert/update,
//     update/update, upsert), towards tuples of committed rows, and fresh ones;
//   - truly concurrent goroutines: autocommit statements released by a barrier, and explicit
//     transactions whose COMMITs are released together after every statement has run.
//
// ORACLE (model independent).  After every COMMIT the table is read through a fresh snapshot (scan
// through the primary key, through every secondary index and unhinted) and `verify` checks every
// declared constraint over the committed rows (PK unique, UNIQUE duplicate free, NOT NULL, lengths,
// index contents = table contents).  On top: a transaction whose COMMIT was acknowledged is
// replayed on the Go reference table AT ITS COMMIT POINT (the committed reference of the moment):
// every statement must be valid there with the affected rows the engine reported, and the committed
// table must equal the result — i.e. of two overlapping transactions that write the same unique
// tuple (or primary key) at least one must fail; a failed COMMIT must leave no trace and fail with
// a read conflict.  For the goroutine rounds the expected table is determined by the set of
// acknowledged writers (distinct primary keys, one contended unique tuple): at most one of them.
//
// The transactions of this mode never touch a row or a unique tuple twice and never reuse a tuple
// they vacated, so the known defects of the in-transaction index view (R1, R4, R9) are out of the
// way; R2 (a deleted entry hides a live one) is attributed per unique tuple through `c.tomb`.

import (
	"fmt"
	"strconv"
	"strings"
	"sync"

	"github.com/codenotary/immudb/embedded/sql"

	"verif/harness/internal/hx"
)

type c12RaceWrite struct {
	ixn   int
	tuple []c15Val
	key   string // ixn|vals
	pk    string // token of the primary key ("auto" for a generated one)
}

type c12RaceSess struct {
	tx      *sql.SQLTx
	stmts   []*dml
	upd     []int
	began   int // number of acknowledged commits when the transaction began
	pks     map[string]bool
	tuples  map[string]bool // unique tuples written or vacated by the open transaction
	snap    *refTable       // the committed reference when the transaction's PRIMARY-index snapshot was taken (BEGIN for AUTO_INCREMENT tables — loadMaxPK reads it —, else the first statement): the row versions its UPDATE / UPSERT / DELETE read, i.e. the tuples they vacate
	writes  []c12RaceWrite
	target  int // statements the session wants to run before COMMIT
	openUpd int
}

type c12RaceCommit struct {
	n, began, sess int
	writes         []c12RaceWrite
	pks            map[string]bool
}

type c12Race struct {
	broken  bool // an unattributed violation was reported: what follows would be its consequences
	nextPK  int64
	nextU   int64
	sess    []*c12RaceSess
	commits []c12RaceCommit
	nCommit int
	uniq    []int // numbers (in sc.Idx) of the unique indexes
	payload []int // columns outside the key and outside every unique index
}

func c12Key(ixn int, vals []c15Val) string {
	ts := make([]string, len(vals))
	for i, v := range vals {
		ts[i] = v.tok()
	}
	return strconv.Itoa(ixn) + "|" + strings.Join(ts, ",")
}

func c12Tuple(row []c15Val, cols []int) []c15Val {
	out := make([]c15Val, len(cols))
	for i, ci := range cols {
		out[i] = row[ci]
	}
	return out
}

// ---------------------------------------------------------------- schema

func c12RaceSchema(rng *hx.Rng, noAuto bool) *sqlSchema {
	sc := &sqlSchema{Name: "t"}
	col := func(name string, ty sql.SQLValueType, ml int, nn bool) sqlCol {
		return sqlCol{Name: name, Ty: ty, MaxLen: ml, NotNull: nn}
	}
	switch k := rng.Intn(8); {
	case k < 3:
		sc.Cols = append(sc.Cols, col("id", sql.IntegerType, 0, rng.Bool()))
		sc.PK = []int{0}
	case k < 5:
		c := col("id", sql.IntegerType, 0, false)
		if noAuto {
			c.NotNull = true
		} else {
			c.AutoInc = true
		}
		sc.Cols = append(sc.Cols, c)
		sc.PK = []int{0}
	case k < 7:
		sc.Cols = append(sc.Cols, col("k1", sql.IntegerType, 0, false), col("k2", sql.VarcharType, 3, rng.Bool()))
		sc.PK = []int{0, 1}
	default:
		sc.Cols = append(sc.Cols, col("id", sql.VarcharType, 8, false))
		sc.PK = []int{0}
	}
	base := len(sc.Cols)
	ty := func() (sql.SQLValueType, int) {
		if rng.Intn(5) < 3 {
			return sql.IntegerType, 0
		}
		return sql.VarcharType, []int{4, 6, 10}[rng.Intn(3)]
	}
	for _, n := range []string{"u", "v", "w"} {
		t, ml := ty()
		sc.Cols = append(sc.Cols, col(n, t, ml, rng.Intn(100) < 40))
	}
	sc.Cols = append(sc.Cols, col("n", sql.VarcharType, 12, rng.Intn(100) < 30))
	u, v, w, n := base, base+1, base+2, base+3
	switch rng.Intn(8) {
	case 0:
		sc.Idx = []sqlIdx{{Cols: []int{u}, Unique: true}}
	case 1:
		sc.Idx = []sqlIdx{{Cols: []int{v, w}, Unique: true}}
	case 2:
		sc.Idx = []sqlIdx{{Cols: []int{u}, Unique: true}, {Cols: []int{v, w}, Unique: true}}
	case 3:
		sc.Idx = []sqlIdx{{Cols: []int{u}, Unique: true}, {Cols: []int{w}}}
	case 4:
		sc.Idx = []sqlIdx{{Cols: []int{u, v}, Unique: true}, {Cols: []int{w}, Unique: true}}
	case 5:
		sc.Idx = []sqlIdx{{Cols: []int{w, v, u}, Unique: true}}
	case 6:
		sc.Idx = []sqlIdx{{Cols: []int{n}}, {Cols: []int{u}, Unique: true}}
	default:
		sc.Idx = []sqlIdx{{Cols: []int{v}, Unique: true}, {Cols: []int{u}, Unique: true}, {Cols: []int{w, n}}}
	}
	return sc
}

func (c *c12Case) setupRace(tag string, noAuto bool) (*c12Race, bool) {
	r := c.r
	env, err := sqlOpenEnv(tag)
	if err != nil {
		r.Inconclusive = append(r.Inconclusive, "cannot open store: "+err.Error())
		return nil, false
	}
	c.env = env
	c.sc = c12RaceSchema(c.rng, noAuto)
	c.ref = &refTable{sc: c.sc}
	c.tomb, c.nullSet = map[string]bool{}, map[int]bool{}
	if res := c.exec(nil, sqlPlain(c.sc.createTable("t"))); res.Err != "" {
		r.Count("setup.err." + res.Err)
		r.Notes = append(r.Notes, "setup failed: "+c.script[len(c.script)-1])
		env.close()
		return nil, false
	}
	for _, ix := range c.sc.Idx {
		if res := c.exec(nil, sqlPlain(c.sc.createIndex("t", ix))); res.Err != "" {
			r.Count("setup.err." + res.Err)
			r.Notes = append(r.Notes, "setup failed: "+c.script[len(c.script)-1])
			env.close()
			return nil, false
		}
		c.idxLive = append(c.idxLive, ix)
	}
	rs := &c12Race{nextPK: int64(1 + c.rng.Intn(5)), nextU: int64(10 + c.rng.Intn(50))}
	inUnique := map[int]bool{}
	nu, multi := 0, 0
	for ixn, ix := range c.sc.Idx {
		if ix.Unique {
			rs.uniq = append(rs.uniq, ixn)
			nu++
			if len(ix.Cols) > 1 {
				multi++
			}
			for _, ci := range ix.Cols {
				inUnique[ci] = true
			}
		}
	}
	for ci := range c.sc.Cols {
		if !c.sc.isPK(ci) && !inUnique[ci] {
			rs.payload = append(rs.payload, ci)
		}
	}
	r.Count(fmt.Sprintf("race.schema.pk%d.unique%d.multicol%d.autoinc=%v", len(c.sc.PK), nu, multi, c.sc.autoInc()))
	return rs, true
}

// ---------------------------------------------------------------- values

func (rs *c12Race) freshVal(col sqlCol) c15Val {
	rs.nextU++
	if col.Ty == sql.IntegerType {
		return c15Val{ty: col.Ty, i: rs.nextU}
	}
	return c15Val{ty: col.Ty, s: strconv.FormatInt(rs.nextU, 36)}
}

func c12SmallVal(rng *hx.Rng, col sqlCol) c15Val {
	if !col.NotNull && rng.Intn(8) == 0 {
		return sqlNull(col.Ty)
	}
	if col.Ty == sql.IntegerType {
		return c15Val{ty: col.Ty, i: int64(rng.Intn(3))}
	}
	return c15Val{ty: col.Ty, s: []string{"a", "b", "c"}[rng.Intn(3)]}
}

func (c *c12Case) raceFreshTuple(rs *c12Race, ixn int) []c15Val {
	ix := c.sc.Idx[ixn]
	out := make([]c15Val, len(ix.Cols))
	f := c.rng.Intn(len(ix.Cols))
	for i, ci := range ix.Cols {
		if i == f {
			out[i] = rs.freshVal(c.sc.Cols[ci])
		} else {
			out[i] = c12SmallVal(c.rng, c.sc.Cols[ci])
		}
	}
	return out
}

// the tuple a session writes into unique index ixn: what another OPEN session has written
// (collision under a different primary key), what a committed row holds, or a fresh one
func (c *c12Case) racePick(rs *c12Race, s *c12RaceSess, ixn int) []c15Val {
	rng := c.rng
	ix := c.sc.Idx[ixn]
	var hot, live, dead [][]c15Val
	for _, o := range rs.sess {
		if o == s || o.tx == nil {
			continue
		}
		for _, w := range o.writes {
			if w.ixn == ixn && !s.tuples[w.key] && !c.tomb[w.key] {
				hot = append(hot, w.tuple)
			}
		}
	}
	// tuples committed by transactions that overlap the session's one, then any committed row
	for i := len(rs.commits) - 1; i >= 0 && rs.commits[i].n > s.began; i-- {
		for _, w := range rs.commits[i].writes {
			if w.ixn == ixn && !s.tuples[w.key] && !c.tomb[w.key] {
				hot = append(hot, w.tuple)
			}
		}
	}
	for _, row := range c.ref.rows {
		t := c12Tuple(row, ix.Cols)
		k := c12Key(ixn, t)
		if s.tuples[k] {
			continue
		}
		if c.tomb[k] {
			dead = append(dead, t)
		} else {
			live = append(live, t)
		}
	}
	switch k := rng.Intn(100); {
	case k < 55:
		if len(hot) > 0 {
			c.r.Count("race.tuple.hot")
			return hot[rng.Intn(len(hot))]
		}
	case k < 64 && len(live) > 0:
		c.r.Count("race.tuple.committed")
		return live[rng.Intn(len(live))]
	case k < 67 && len(dead) > 0:
		c.r.Count("race.tuple.committed-with-deleted-entry")
		return dead[rng.Intn(len(dead))]
	case k < 71 && len(ix.Cols) == 1 && !c.sc.Cols[ix.Cols[0]].NotNull && !s.tuples[c12Key(ixn, []c15Val{sqlNull(c.sc.Cols[ix.Cols[0]].Ty)})]:
		c.r.Count("race.tuple.null")
		return []c15Val{sqlNull(c.sc.Cols[ix.Cols[0]].Ty)}
	}
	c.r.Count("race.tuple.fresh")
	return c.raceFreshTuple(rs, ixn)
}

func (c *c12Case) raceFreshPK(rs *c12Race) []c15Val {
	rs.nextPK++
	out := make([]c15Val, len(c.sc.PK))
	for i, ci := range c.sc.PK {
		col := c.sc.Cols[ci]
		switch {
		case col.Ty == sql.IntegerType && i == 0:
			out[i] = c15Val{ty: col.Ty, i: rs.nextPK}
		case col.Ty == sql.IntegerType:
			out[i] = c15Val{ty: col.Ty, i: int64(c.rng.Intn(2))}
		case i == 0:
			out[i] = c15Val{ty: col.Ty, s: "k" + strconv.FormatInt(rs.nextPK, 36)}
		default:
			out[i] = c15Val{ty: col.Ty, s: []string{"x", "y"}[c.rng.Intn(2)]}
		}
	}
	return out
}

func (c *c12Case) pkWhere(pk []c15Val) *pexp {
	var p *pexp
	for i, ci := range c.sc.PK {
		a := &pexp{K: "cmp", Col: ci, Op: "=", V: pk[i]}
		if p == nil {
			p = a
		} else {
			p = &pexp{K: "and", L: p, R: a}
		}
	}
	return p
}

// a committed row the session has not touched; preferably one no other open session has touched
func (c *c12Case) raceTarget(rs *c12Race, s *c12RaceSess) []c15Val {
	var free, contended [][]c15Val
	for _, row := range c.ref.rows {
		pk := sqlRowTok(c.ref.pkOf(row))
		if s.pks[pk] {
			continue
		}
		// the entries such a statement deprecates are keyed by the index values alone (R1): they must
		// not coincide with a transient entry of the same transaction
		clash := false
		for ixn, ix := range c.sc.Idx {
			if s.tuples[c12Key(ixn, c12Tuple(row, ix.Cols))] {
				clash = true
			}
		}
		if clash {
			continue
		}
		busy := false
		for _, o := range rs.sess {
			if o != s && o.tx != nil && o.pks[pk] {
				busy = true
			}
		}
		if busy {
			contended = append(contended, row)
		} else {
			free = append(free, row)
		}
	}
	if len(contended) > 0 && (len(free) == 0 || c.rng.Intn(6) == 0) {
		c.r.Count("race.target.row-touched-by-open-session")
		return contended[c.rng.Intn(len(contended))]
	}
	if len(free) > 0 {
		return free[c.rng.Intn(len(free))]
	}
	return nil
}

// ---------------------------------------------------------------- statements

// one statement for the session's open transaction (never a row / unique tuple of the same
// transaction twice); nil when nothing sensible can be generated
func (c *c12Case) raceGen(rs *c12Race, s *c12RaceSess) *dml {
	rng, sc := c.rng, c.sc
	payload := func(row []c15Val) {
		for _, ci := range rs.payload {
			col := sc.Cols[ci]
			if !col.NotNull && rng.Intn(4) == 0 {
				row[ci] = sqlNull(col.Ty)
			} else {
				row[ci] = c12SmallVal(rng, sqlCol{Ty: col.Ty, NotNull: true})
			}
		}
	}
	fill := func(row []c15Val, only int) {
		for _, ixn := range rs.uniq {
			if only >= 0 && ixn != only {
				continue
			}
			t := c.racePick(rs, s, ixn)
			for i, ci := range sc.Idx[ixn].Cols {
				row[ci] = t[i]
			}
		}
	}
	newRow := func(pk []c15Val) []c15Val {
		row := make([]c15Val, len(sc.Cols))
		for ci := range row {
			row[ci] = sqlNull(sc.Cols[ci].Ty)
		}
		for i, ci := range sc.PK {
			if pk != nil {
				row[ci] = pk[i]
			}
		}
		payload(row)
		fill(row, -1)
		c.raceFixNonUnique(rs, s, row)
		return row
	}
	insertOf := func(kind string, rows ...[]c15Val) *dml {
		d := &dml{K: kind}
		for ci, col := range sc.Cols {
			if col.AutoInc && kind != "upsert" {
				continue
			}
			d.Cols = append(d.Cols, ci)
		}
		for _, row := range rows {
			d.Rows = append(d.Rows, c12Tuple(row, d.Cols))
		}
		return d
	}
	pkFor := func() []c15Val {
		if sc.autoInc() {
			return nil
		}
		// the key another open session inserts (primary key race), else a fresh one
		if rng.Intn(10) == 0 {
			for _, o := range rs.sess {
				if o != s && o.tx != nil {
					for _, d := range o.stmts {
						if d.K == "insert" && len(d.Rows) == 1 {
							full := make([]c15Val, len(sc.Cols))
							for i, ci := range d.Cols {
								full[ci] = d.Rows[0][i]
							}
							pk := c.ref.pkOf(full)
							if !s.pks[sqlRowTok(pk)] {
								c.r.Count("race.pk.same-as-open-session")
								return pk
							}
						}
					}
				}
			}
		}
		return c.raceFreshPK(rs)
	}
	k := rng.Intn(100)
	if len(c.ref.rows) == 0 && k >= 45 && k < 88 {
		k = 0
	}
	switch {
	case k < 38:
		return insertOf("insert", newRow(pkFor()))
	case k < 45:
		// two rows, distinct keys and tuples
		a := newRow(pkFor())
		s.noteRow(c, a, nil)
		b := newRow(pkFor())
		if !sc.autoInc() && sqlRowTok(c.ref.pkOf(a)) == sqlRowTok(c.ref.pkOf(b)) {
			return insertOf("insert", a)
		}
		return insertOf("insert", a, b)
	case k < 72:
		old := c.raceTarget(rs, s)
		if old == nil {
			return insertOf("insert", newRow(pkFor()))
		}
		d := &dml{K: "update", Where: c.pkWhere(c.ref.pkOf(old))}
		row := append([]c15Val(nil), old...)
		if len(rs.payload) > 0 && rng.Intn(6) == 0 {
			ci := rs.payload[rng.Intn(len(rs.payload))]
			row[ci] = c12SmallVal(rng, sqlCol{Ty: sc.Cols[ci].Ty, NotNull: true})
			c.raceFixNonUnique(rs, s, row)
			for _, pc := range rs.payload {
				if pc == ci || row[pc].tok() != old[pc].tok() {
					d.Set = append(d.Set, dmlSet{Col: pc, V: row[pc]})
				}
			}
			return d
		}
		ixn := rs.uniq[rng.Intn(len(rs.uniq))]
		fill(row, ixn)
		cols := sc.Idx[ixn].Cols
		if len(cols) > 1 && rng.Intn(3) == 0 {
			// change the columns that differ only (a partial SET still moves the whole tuple)
			for _, ci := range cols {
				if sqlCmpVal(row[ci], old[ci]) != 0 || row[ci].null != old[ci].null {
					d.Set = append(d.Set, dmlSet{Col: ci, V: row[ci]})
				}
			}
		}
		if len(d.Set) == 0 {
			for _, ci := range cols {
				d.Set = append(d.Set, dmlSet{Col: ci, V: row[ci]})
			}
		}
		return d
	case k < 82:
		if old := c.raceTarget(rs, s); old != nil && rng.Intn(3) != 0 && !(sc.autoInc() && s.snap != nil && s.snap.find(c.ref.pkOf(old)) < 0) {
			// (on an AUTO_INCREMENT table the key must be one the transaction's snapshot holds: a row committed after its
			// BEGIN lies above ITS high-water mark — an explicit key there followed by a generated one is R9 territory)
			row := newRow(c.ref.pkOf(old))
			if rng.Bool() && len(rs.uniq) > 1 {
				// keep the tuple of one unique index: its entry is reused
				keep := rs.uniq[rng.Intn(len(rs.uniq))]
				for _, ci := range sc.Idx[keep].Cols {
					row[ci] = old[ci]
				}
			}
			return insertOf("upsert", row)
		}
		if sc.autoInc() {
			return insertOf("insert", newRow(nil))
		}
		return insertOf("upsert", newRow(pkFor()))
	case k < 88:
		if old := c.raceTarget(rs, s); old != nil {
			return &dml{K: "delete", Where: c.pkWhere(c.ref.pkOf(old))}
		}
		return insertOf("insert", newRow(pkFor()))
	default:
		if old := c.raceTarget(rs, s); old != nil && rng.Intn(3) == 0 && !sc.autoInc() {
			return insertOf("insert-ocn", newRow(c.ref.pkOf(old)))
		}
		return insertOf("insert-ocn", newRow(pkFor()))
	}
}

// what the open transaction has written so far (keys and unique tuples, incl. the vacated ones)
func (s *c12RaceSess) noteRow(c *c12Case, row, old []c15Val) {
	pk := "auto"
	if !c.sc.autoInc() || !row[c.sc.PK[0]].null {
		pk = sqlRowTok(c.ref.pkOf(row))
	}
	if s.pks == nil {
		s.pks, s.tuples = map[string]bool{}, map[string]bool{}
	}
	if pk != "auto" {
		s.pks[pk] = true
	}
	for ixn, ix := range c.sc.Idx {
		t := c12Tuple(row, ix.Cols)
		k := c12Key(ixn, t)
		if old != nil {
			ok := c12Key(ixn, c12Tuple(old, ix.Cols))
			s.tuples[ok] = true
			if ok == k {
				continue
			}
		}
		s.tuples[k] = true
		if ix.Unique {
			s.writes = append(s.writes, c12RaceWrite{ixn: ixn, tuple: t, key: k, pk: pk})
		}
	}
}

func (s *c12RaceSess) noteVacated(c *c12Case, old []c15Val) {
	if s.tuples == nil {
		s.pks, s.tuples = map[string]bool{}, map[string]bool{}
	}
	for ixn, ix := range c.sc.Idx {
		s.tuples[c12Key(ixn, c12Tuple(old, ix.Cols))] = true
	}
}

// the transient entries of an open transaction are keyed by the index values alone (finding R1), for
// NON-unique indexes too: no two writes of one transaction may share the tuple of any secondary index
func (c *c12Case) raceFixNonUnique(rs *c12Race, s *c12RaceSess, row []c15Val) {
	for ixn, ix := range c.sc.Idx {
		if ix.Unique {
			continue
		}
		for try := 0; try < 4 && s.tuples[c12Key(ixn, c12Tuple(row, ix.Cols))]; try++ {
			ci := ix.Cols[c.rng.Intn(len(ix.Cols))]
			row[ci] = rs.freshVal(c.sc.Cols[ci])
		}
	}
}

func (s *c12RaceSess) note(c *c12Case, d *dml) {
	sc := c.sc
	if s.pks == nil {
		s.pks, s.tuples = map[string]bool{}, map[string]bool{}
	}
	switch d.K {
	case "insert", "upsert", "insert-ocn":
		for _, vals := range d.Rows {
			row := make([]c15Val, len(sc.Cols))
			for ci := range row {
				row[ci] = sqlNull(sc.Cols[ci].Ty)
			}
			for i, ci := range d.Cols {
				row[ci] = vals[i]
			}
			var old []c15Val
			if !sc.autoInc() || !row[sc.PK[0]].null {
				if at := c.ref.find(c.ref.pkOf(row)); at >= 0 {
					old = c.ref.rows[at]
				}
			}
			if d.K == "insert-ocn" && old != nil {
				s.pks[sqlRowTok(c.ref.pkOf(row))] = true
				if s.snap == nil || s.snap.find(s.snap.pkOf(row)) >= 0 {
					continue
				}
				// committed meanwhile, but absent from the transaction's snapshot: the engine does NOT skip the row, its unique
				// tuples are written by this transaction
				old = nil
			}
			s.noteRow(c, row, old)
			if s.snap != nil && d.K == "upsert" && (!sc.autoInc() || !row[sc.PK[0]].null) {
				if at := s.snap.find(s.snap.pkOf(row)); at >= 0 {
					s.noteVacated(c, s.snap.rows[at])
				}
			}
		}
	case "update", "delete":
		if s.snap != nil {
			// the version of the row the transaction READ is the one of its snapshot: that version's tuples are the ones the
			// engine marks deleted (and keys by the index values alone, R1) — they must not be written again either
			for _, old := range s.snap.rows {
				if v, n, e := d.Where.eval(sc, old); e == "" && !n && v {
					s.noteVacated(c, old)
				}
			}
		}
		for _, old := range c.ref.rows {
			if v, n, e := d.Where.eval(sc, old); e != "" || n || !v {
				continue
			}
			if d.K == "delete" {
				s.pks[sqlRowTok(c.ref.pkOf(old))] = true
				for ixn, ix := range sc.Idx {
					s.tuples[c12Key(ixn, c12Tuple(old, ix.Cols))] = true
				}
				continue
			}
			row := append([]c15Val(nil), old...)
			for _, st := range d.Set {
				row[st.Col] = st.V
			}
			s.noteRow(c, row, old)
		}
	}
}

// ---------------------------------------------------------------- session operations

func (c *c12Case) raceLog(si int, q sqlText, err string) {
	st := "ok"
	if err != "" {
		st = "ERR " + err
	}
	c.log(fmt.Sprintf("[s%d] %s   => %s", si, q.String(), st))
}

func (c *c12Case) raceBegin(rs *c12Race, si int) {
	s := rs.sess[si]
	q := sqlPlain("BEGIN TRANSACTION")
	res := sqlExec(c.env.eng, nil, q)
	c.raceLog(si, q, res.Err)
	if res.Err != "" || res.Tx == nil {
		c.r.Count("race.begin.err." + res.Err)
		return
	}
	*s = c12RaceSess{tx: res.Tx, began: rs.nCommit, target: 1}
	if c.sc.autoInc() {
		s.snap = c.ref.clone()
	}
	switch k := c.rng.Intn(10); {
	case k >= 9:
		s.target = 3
	case k >= 6:
		s.target = 2
	}
	if c.corr {
		c.r.Corr(fmt.Sprintf("c12 mv begin %d", si), "ok")
	}
}

func (c *c12Case) raceStmt(rs *c12Race, si int) {
	s := rs.sess[si]
	// the bookkeeping of tuples of a two-row INSERT is provisional inside raceGen: restore it
	nw, tuples, pks := len(s.writes), map[string]bool{}, map[string]bool{}
	for k := range s.tuples {
		tuples[k] = true
	}
	for k := range s.pks {
		pks[k] = true
	}
	if s.snap == nil {
		s.snap = c.ref.clone()
	}
	d := c.raceGen(rs, s)
	s.writes, s.tuples, s.pks = s.writes[:nw], tuples, pks
	if d == nil {
		return
	}
	txt := d.text(c.sc, "t", c.rng.U64())
	res := sqlExec(c.env.eng, s.tx, txt)
	c.raceLog(si, txt, res.Err)
	c.r.Count("race.dml." + d.K)
	if strings.HasPrefix(res.Err, "panic:") {
		c.fail("C12:concurrent:panic", res.Err+" in "+txt.String())
	}
	if c.corr {
		ans := "ok " + strconv.Itoa(res.OpenUpd-s.openUpd)
		if res.Err != "" {
			ans = "err:" + res.Err
		}
		c.r.Corr(fmt.Sprintf("c12 mv stmt %d ", si)+strings.Join(c12StmtToks(d), " "), ans)
	}
	if res.Err != "" {
		c.r.Count("race.dml.err." + res.Err)
		s.tx = nil
		return
	}
	s.tx = res.Tx
	s.stmts = append(s.stmts, d)
	s.upd = append(s.upd, res.OpenUpd-s.openUpd)
	s.openUpd = res.OpenUpd
	s.note(c, d)
	if c.sc.autoInc() && (d.K == "insert" || d.K == "insert-ocn") && res.Tx != nil {
		// the keys the engine generated (from the high-water mark of the transaction's snapshot: they may
		// exist by now) count as written by this transaction
		if last, ok := res.Tx.LastInsertedPKs()["t"]; ok {
			for i := 0; i < len(d.Rows); i++ {
				s.pks[sqlRowTok([]c15Val{{ty: sql.IntegerType, i: last - int64(i)}})] = true
			}
		}
	}
}

// does a row the statement (re)writes carry a unique tuple under which a deleted entry exists (finding R2)?
func (c *c12Case) raceDupOverTomb(t *refTable, d *dml) bool {
	sc := c.sc
	var rows [][]c15Val
	switch d.K {
	case "insert", "upsert", "insert-ocn":
		for _, vals := range d.Rows {
			row := make([]c15Val, len(sc.Cols))
			for ci := range row {
				row[ci] = sqlNull(sc.Cols[ci].Ty)
			}
			for i, ci := range d.Cols {
				row[ci] = vals[i]
			}
			rows = append(rows, row)
		}
	case "update":
		for _, old := range t.rows {
			if v, n, e := d.Where.eval(sc, old); e != "" || n || !v {
				continue
			}
			row := append([]c15Val(nil), old...)
			for _, st := range d.Set {
				row[st.Col] = st.V
			}
			rows = append(rows, row)
		}
	}
	for _, row := range rows {
		for ixn, ix := range sc.Idx {
			if ix.Unique && c.tomb[c12Key(ixn, c12Tuple(row, ix.Cols))] {
				return true
			}
		}
	}
	return false
}

// the committed transaction this one conflicts with (it overlaps: committed after this one began)
func (c *c12Case) raceConflictPartner(rs *c12Race, s *c12RaceSess) (string, bool) {
	// a transaction committed after this one began that wrote the same unique tuple under another key …
	for i := len(rs.commits) - 1; i >= 0 && rs.commits[i].n > s.began; i-- {
		o := rs.commits[i]
		for _, w := range s.writes {
			for _, ow := range o.writes {
				if w.key == ow.key && (w.pk != ow.pk || w.pk == "auto") {
					return fmt.Sprintf("commit #%d of session %d wrote the same tuple of UNIQUE INDEX (%s) under primary key %s (this transaction: %s) after this transaction began (at commit #%d)", o.n, o.sess, c.sc.colNames(c.sc.Idx[w.ixn].Cols), ow.pk, w.pk, s.began), true
				}
			}
		}
	}
	// … or the same primary key
	for i := len(rs.commits) - 1; i >= 0 && rs.commits[i].n > s.began; i-- {
		o := rs.commits[i]
		for pk := range s.pks {
			if o.pks[pk] {
				return fmt.Sprintf("commit #%d of session %d wrote primary key %s after this transaction began (at commit #%d)", o.n, o.sess, pk, s.began), false
			}
		}
	}
	return "", false
}

func (c *c12Case) raceCommit(rs *c12Race, si int, rollback bool) {
	r := c.r
	s := rs.sess[si]
	before := sqlScan(c.env.eng, nil, c.sc, "t", c.sc.PK)
	if rollback {
		q := sqlPlain("ROLLBACK")
		res := sqlExec(c.env.eng, s.tx, q)
		c.raceLog(si, q, res.Err)
		s.tx = nil
		r.Count("race.rollback")
		if c.corr {
			c.r.Corr(fmt.Sprintf("c12 mv rollback %d", si), "ok")
		}
		after := sqlScan(c.env.eng, nil, c.sc, "t", c.sc.PK)
		r.OracleChecks++
		if after.bag() != before.bag() {
			c.fail("C12:failed-stmt:left-trace", "ROLLBACK changed the committed table")
		}
		return
	}
	q := sqlPlain("COMMIT")
	res := sqlExec(c.env.eng, s.tx, q)
	c.raceLog(si, q, res.Err)
	s.tx = nil
	if c.corr {
		ans := "ok"
		if res.Err != "" {
			ans = "err:" + res.Err
		}
		c.r.Corr(fmt.Sprintf("c12 mv commit %d", si), ans)
	}
	if res.Err != "" {
		r.Count("race.commit." + res.Err)
		after := sqlScan(c.env.eng, nil, c.sc, "t", c.sc.PK)
		r.OracleChecks += 2
		if after.bag() != before.bag() {
			c.fail("C12:failed-stmt:left-trace", "a failed COMMIT ("+res.Err+") changed the committed table: "+sqlRowsShow(before.Rows, 8)+" -> "+sqlRowsShow(after.Rows, 8))
		}
		if res.Err != "read-conflict" && res.Err != "dup-key" {
			c.fail("C12:mvcc:commit-fails-with-unexpected-error", "COMMIT of a transaction of valid statements failed with "+res.Err+" (expected: success, or a read conflict / duplicate key when a concurrent transaction interferes)")
		}
		if _, uq := c.raceConflictPartner(rs, s); uq {
			r.Count("race.conflict.unique.detected-at-commit")
		}
		return
	}
	r.Count("race.commit.ok")
	// replay at the commit point
	r.OracleChecks++
	tmp := c.ref.clone()
	unknown := false
	wrote := 0
	for _, n := range s.upd {
		wrote += n
	}
	if wrote == 0 {
		// a transaction without writes is not validated (and need not be): it is serialised at its
		// snapshot, e.g. an UPDATE of a key that did not exist yet; it must leave the table as it is
		r.Count("race.commit.ok.without-writes")
		c.verify(fmt.Sprintf("after COMMIT of session %d (no rows affected)", si), true)
		if c.corr {
			c.raceCorrScan()
		}
		return
	}
	for i, d := range s.stmts {
		o := tmp.exec(d)
		if o.Err != "" {
			txt := d.text(c.sc, "t", 1).String()
			partner, uq := c.raceConflictPartner(rs, s)
			cause := ""
			if o.Err == "dup-key" {
				for _, w := range s.writes {
					if c.tomb[w.key] {
						cause = ":deleted-entry-hides-live-one"
					}
				}
				if c.raceDupOverTomb(tmp, d) {
					// the statement leaves its unique tuple as it is, but the table already holds a second row with
					// that tuple (R2 let it in earlier): the reference rejects every rewrite of such a row
					cause = ":deleted-entry-hides-live-one"
				}
			}
			switch {
			case cause != "":
				c.fail("C12:must-fail:accepted:"+o.Err+cause, fmt.Sprintf("session %d committed, but at its commit point the statement must fail with %s: %s", si, o.Err, txt))
			case partner != "" && uq:
				r.Count("race.conflict.unique.both-committed")
				c.fail("C12:mvcc:unique-conflict:both-transactions-committed", fmt.Sprintf("COMMIT of session %d was acknowledged although %s; at the commit point [%s] fails with %s: of two overlapping transactions writing the same unique tuple at least one must fail (ErrTxReadConflict / duplicate key)", si, partner, txt, o.Err))
			case partner != "":
				c.fail("C12:mvcc:pk-conflict:both-transactions-committed", fmt.Sprintf("COMMIT of session %d was acknowledged although %s; at the commit point [%s] fails with %s", si, partner, txt, o.Err))
			default:
				c.fail("C12:must-fail:accepted:"+o.Err, fmt.Sprintf("session %d committed, but at its commit point the statement must fail with %s: %s", si, o.Err, txt))
			}
			unknown = true
			if cause == "" {
				rs.broken = true
			}
			break
		}
		if o.Updated != s.upd[i] {
			partner, _ := c.raceConflictPartner(rs, s)
			c.fail("C12:mvcc:affected-rows-differ-at-commit-point", fmt.Sprintf("session %d committed; [%s] affected %d rows inside the transaction but %d at the commit point (%s)", si, d.text(c.sc, "t", 1).String(), s.upd[i], o.Updated, partner))
		}
	}
	rs.nCommit++
	rec := c12RaceCommit{n: rs.nCommit, began: s.began, sess: si, writes: s.writes, pks: s.pks}
	rs.commits = append(rs.commits, rec)
	where := fmt.Sprintf("after COMMIT #%d (session %d)", rs.nCommit, si)
	if unknown {
		c.verify(where, false)
		cur := sqlScan(c.env.eng, nil, c.sc, "t", c.sc.PK)
		old := c.ref.clone()
		c.ref.rows = cur.Rows
		c.noteTombs(old, c.ref)
		c.adoptMaxPK()
	} else {
		c.noteTombs(c.ref, tmp)
		c.prevMaxPK = c.ref.maxPK
		c.ref = tmp
		c.verify(where, true)
		c.resyncMaxPK()
	}
	if c.corr {
		c.raceCorrScan()
	}
}

// the committed rows in primary key order (the engine's own scan): tie of the model's committed state
func (c *c12Case) raceCorrScan() {
	pk := sqlScan(c.env.eng, nil, c.sc, "t", c.sc.PK)
	ts := make([]string, len(pk.Rows))
	for i, row := range pk.Rows {
		ts[i] = sqlRowTok(row)
	}
	c.r.Corr("c12 mv scan", "rows "+strconv.Itoa(len(ts))+" "+strings.Join(ts, ";"))
}

// ---------------------------------------------------------------- deterministic schedules

func (c *c12Case) runRace(thorough bool, variant int) {
	r, rng := c.r, c.rng
	r.NextCase()
	rs, ok := c.setupRace("c12r", false)
	if !ok {
		return
	}
	defer c.env.close()
	r.Count("mode.race-scheduled")
	// Lean correspondence (ImmuModel.Sql.Mv): statement outcomes, COMMIT decisions and the committed rows
	c.corr = true
	c.r.Corr("c12 mv tbl "+c12SchemaToks(c.sc, c.idxLive), "ok")
	nSess := 2 + rng.Intn(3)
	rs.sess = make([]*c12RaceSess, nSess)
	for i := range rs.sess {
		rs.sess[i] = &c12RaceSess{}
	}
	// a few committed rows to update
	for i := 0; i < 2+rng.Intn(4); i++ {
		c.raceBegin(rs, 0)
		if rs.sess[0].tx == nil {
			return
		}
		rs.sess[0].target = 1
		c.raceStmt(rs, 0)
		if rs.sess[0].tx != nil {
			c.raceCommit(rs, 0, false)
		}
	}
	lock := variant%2 == 0
	if lock {
		r.Count("race.schedule.lock-step")
		rounds := 6 + rng.Intn(6)
		if thorough {
			rounds *= 3
		}
		for rd := 0; rd < rounds; rd++ {
			order := make([]int, nSess)
			for i := range order {
				order[i] = i
			}
			rngShuffle(rng, nSess, func(i, j int) { order[i], order[j] = order[j], order[i] })
			parts := order[:2+rng.Intn(nSess-1)]
			var queue []int
			for _, si := range parts {
				c.raceBegin(rs, si)
				for k := 0; k < rs.sess[si].target; k++ {
					queue = append(queue, si)
				}
			}
			rngShuffle(rng, len(queue), func(i, j int) { queue[i], queue[j] = queue[j], queue[i] })
			for _, si := range queue {
				if rs.sess[si].tx != nil {
					c.raceStmt(rs, si)
				}
			}
			if rs.broken {
				break
			}
			rngShuffle(rng, len(parts), func(i, j int) { parts[i], parts[j] = parts[j], parts[i] })
			for _, si := range parts {
				if rs.sess[si].tx != nil && !rs.broken {
					c.raceCommit(rs, si, rng.Intn(14) == 0)
				}
			}
		}
	} else {
		r.Count("race.schedule.free")
		steps := 70 + rng.Intn(60)
		if thorough {
			steps *= 3
		}
		for st := 0; st < steps && !rs.broken; st++ {
			si := rng.Intn(nSess)
			s := rs.sess[si]
			switch {
			case s.tx == nil:
				c.raceBegin(rs, si)
			case len(s.stmts) >= s.target || (len(s.stmts) > 0 && rng.Intn(5) == 0):
				c.raceCommit(rs, si, rng.Intn(14) == 0)
			default:
				c.raceStmt(rs, si)
			}
		}
	}
	for si, s := range rs.sess {
		if s.tx != nil {
			s.tx.Cancel()
			s.tx = nil
			c.log(fmt.Sprintf("[s%d] -- session closed", si))
		}
	}
	c.verify("after all sessions closed", !rs.broken)
	if len(r.Samples) < 5 {
		r.Sample(map[string]interface{}{"case": r.Case(), "mode": "race-scheduled", "script_head": c.script[:min(len(c.script), 16)], "lines": len(c.script)})
	}
}

// ---------------------------------------------------------------- truly concurrent rounds

type c12RaceJob struct {
	d       *dml
	txt     sqlText
	hot     bool   // writes the contended tuple
	err     string // outcome
	stmtErr string
}

func (c *c12Case) runRaceGoroutines(thorough bool) {
	r, rng := c.r, c.rng
	r.NextCase()
	rs, ok := c.setupRace("c12c", true)
	if !ok {
		return
	}
	defer c.env.close()
	r.Count("mode.race-goroutines")
	nW := 2 + rng.Intn(3)
	sc := c.sc
	rs.sess = []*c12RaceSess{{}}
	mkRow := func(pk []c15Val) []c15Val {
		row := make([]c15Val, len(sc.Cols))
		for ci := range row {
			row[ci] = sqlNull(sc.Cols[ci].Ty)
		}
		for i, ci := range sc.PK {
			row[ci] = pk[i]
		}
		for _, ci := range rs.payload {
			row[ci] = c12SmallVal(rng, sqlCol{Ty: sc.Cols[ci].Ty, NotNull: true})
		}
		for _, ixn := range rs.uniq {
			t := c.raceFreshTuple(rs, ixn)
			for i, ci := range sc.Idx[ixn].Cols {
				row[ci] = t[i]
			}
		}
		return row
	}
	allCols := make([]int, len(sc.Cols))
	for i := range allCols {
		allCols[i] = i
	}
	// every worker owns one committed row
	own := make([][]c15Val, nW)
	for w := range own {
		own[w] = mkRow(c.raceFreshPK(rs))
		d := &dml{K: "insert", Cols: allCols, Rows: [][]c15Val{own[w]}}
		if res := c.exec(nil, d.text(sc, "t", rng.U64())); res.Err != "" {
			r.Count("race.setup.err." + res.Err)
			return
		}
		c.ref.exec(d)
	}
	c.verify("after the initial rows", true)
	rounds := 6
	if thorough {
		rounds = 20
	}
	for rd := 0; rd < rounds; rd++ {
		explicit := rng.Intn(2) == 0
		ixn := rs.uniq[rng.Intn(len(rs.uniq))]
		hotT := c.raceFreshTuple(rs, ixn)
		jobs := make([]*c12RaceJob, nW)
		for w := range jobs {
			j := &c12RaceJob{hot: nW == 2 || rng.Intn(5) != 0}
			var row []c15Val
			kind := rng.Intn(4)
			switch kind {
			case 0, 1: // a new row
				row = mkRow(c.raceFreshPK(rs))
			default: // the worker's own row
				row = append([]c15Val(nil), own[w]...)
				if kind == 3 {
					// every unique index gets a fresh tuple (UPSERT rewrites them all)
					row = mkRow(c.ref.pkOf(own[w]))
				}
			}
			if j.hot {
				for i, ci := range sc.Idx[ixn].Cols {
					row[ci] = hotT[i]
				}
			} else if kind == 2 {
				t := c.raceFreshTuple(rs, ixn)
				for i, ci := range sc.Idx[ixn].Cols {
					row[ci] = t[i]
				}
			}
			switch kind {
			case 0:
				j.d = &dml{K: "insert", Cols: allCols, Rows: [][]c15Val{row}}
			case 1:
				j.d = &dml{K: []string{"upsert", "insert-ocn"}[rng.Intn(2)], Cols: allCols, Rows: [][]c15Val{row}}
			case 2:
				j.d = &dml{K: "update", Where: c.pkWhere(c.ref.pkOf(row))}
				for _, ci := range sc.Idx[ixn].Cols {
					j.d.Set = append(j.d.Set, dmlSet{Col: ci, V: row[ci]})
				}
			default:
				j.d = &dml{K: "upsert", Cols: allCols, Rows: [][]c15Val{row}}
			}
			j.txt = j.d.text(sc, "t", rng.U64())
			jobs[w] = j
			r.Count("race.goroutine.dml." + j.d.K)
		}
		var wg, staged sync.WaitGroup
		start := make(chan struct{})
		release := make(chan struct{})
		for w := range jobs {
			wg.Add(1)
			staged.Add(1)
			go func(j *c12RaceJob) {
				defer wg.Done()
				<-start
				if !explicit {
					staged.Done()
					j.err = sqlExec(c.env.eng, nil, j.txt).Err
					return
				}
				b := sqlExec(c.env.eng, nil, sqlPlain("BEGIN TRANSACTION"))
				var res sqlXRes
				if b.Err == "" && b.Tx != nil {
					res = sqlExec(c.env.eng, b.Tx, j.txt)
				} else {
					res = b
					if res.Err == "" {
						res.Err = "no-tx"
					}
				}
				staged.Done()
				<-release // every statement has run: the COMMITs race
				if res.Err != "" || res.Tx == nil {
					j.err, j.stmtErr = res.Err, res.Err
					return
				}
				j.err = sqlExec(c.env.eng, res.Tx, sqlPlain("COMMIT")).Err
			}(jobs[w])
		}
		close(start)
		staged.Wait()
		close(release)
		wg.Wait()
		mode := "autocommit"
		if explicit {
			mode = "explicit"
		}
		c.log(fmt.Sprintf("-- concurrent round %d (%s, %d goroutines; contended tuple of UNIQUE INDEX (%s))", rd, mode, nW, sc.colNames(sc.Idx[ixn].Cols)))
		acked := 0
		var ackedTxt []string
		for w, j := range jobs {
			if explicit {
				c.log(fmt.Sprintf("[s%d] BEGIN TRANSACTION   => ok", w))
				if j.stmtErr != "" {
					c.raceLog(w, j.txt, j.stmtErr)
				} else {
					c.raceLog(w, j.txt, "")
				}
			}
		}
		for w, j := range jobs {
			if explicit {
				if j.stmtErr == "" {
					c.raceLog(w, sqlPlain("COMMIT"), j.err)
				}
			} else {
				c.raceLog(w, j.txt, j.err)
			}
			cls := strings.SplitN(j.err, ":", 2)[0]
			r.Count("race.goroutine." + mode + ".outcome." + cls)
			if strings.HasPrefix(j.err, "panic:") {
				c.fail("C12:concurrent:panic", j.err+" in "+j.txt.String())
			}
			if j.err == "" && j.hot {
				acked++
				ackedTxt = append(ackedTxt, fmt.Sprintf("[goroutine %d] %s", w, j.txt.String()))
			}
			if j.err != "" && j.err != "read-conflict" && j.err != "dup-key" && !strings.HasPrefix(j.err, "panic:") {
				c.fail("C12:mvcc:commit-fails-with-unexpected-error", "concurrent "+mode+" statement "+j.txt.String()+" failed with "+j.err+" (expected: success, read conflict or duplicate key)")
			}
		}
		r.OracleChecks++
		r.Count(fmt.Sprintf("race.goroutine.acknowledged-writers-of-contended-tuple.%d", min(acked, 2)))
		if acked > 1 {
			c.fail("C12:mvcc:unique-conflict:both-transactions-committed", fmt.Sprintf("%d concurrent %s writers of the same tuple %s of UNIQUE INDEX (%s) under different primary keys were all acknowledged: %s", acked, mode, sqlRowsShow([][]c15Val{hotT}, 1), sc.colNames(sc.Idx[ixn].Cols), strings.Join(ackedTxt, " | ")))
		}
		// the acknowledged writers determine the table (distinct keys; their order does not matter)
		tmp := c.ref.clone()
		unknown := false
		for w, j := range jobs {
			if j.err != "" {
				continue
			}
			if o := tmp.exec(j.d); o.Err != "" {
				unknown = true
				continue
			}
			// the worker's own row follows its acknowledged write
			if at := tmp.find(c.ref.pkOf(own[w])); at >= 0 {
				own[w] = append([]c15Val(nil), tmp.rows[at]...)
			}
		}
		where := fmt.Sprintf("after concurrent round %d", rd)
		if unknown {
			c.verify(where, false)
			cur := sqlScan(c.env.eng, nil, sc, "t", sc.PK)
			old := c.ref.clone()
			c.ref.rows = cur.Rows
			c.noteTombs(old, c.ref)
			for w := range own {
				if at := c.ref.find(c.ref.pkOf(own[w])); at >= 0 {
					own[w] = append([]c15Val(nil), c.ref.rows[at]...)
				}
			}
		} else {
			c.noteTombs(c.ref, tmp)
			c.ref = tmp
			c.verify(where, true)
		}
	}
	if len(r.Samples) < 6 {
		r.Sample(map[string]interface{}{"case": r.Case(), "mode": "race-goroutines", "script_head": c.script[:min(len(c.script), 12)], "lines": len(c.script)})
	}
}
