package main

// C03: deterministic, seed-independent scenarios (attack templates).  Each one is a small fixed workload whose
// crash images are enumerated exhaustively (all points x {no un-fsynced write survives, every written byte survives}).

import (
	"context"
	"fmt"
	"os"
	"strings"
	"time"

	"verif/harness/internal/crashfs"
	"verif/harness/internal/hx"
)

func c03TargetCfg(name string) c03Cfg {
	return c03Cfg{Name: name, FileSize: 1 << 20, WriteBuf: 4096, MaxActive: 8, AhtSyncThld: 1000, AhtWriteBuf: 4096, IdxFlush: 100, IdxSync: 100, IOConc: 1,
		Committers: 1, NTx: 4, HdrVersion: 1, KeySpace: 3, MaxVal: 24}
}

func c03Targeted(r *hx.Result, rng *hx.Rng, thorough bool) error {
	dl := time.Now().Add(40 * time.Second)
	// T1 (DESIGN K7): tx-log write buffer smaller than a few records, values small: the tx log is fsynced alone when its
	// buffer fills (autoSync) while the values still sit in the value-log buffer.
	{
		r.NextCase()
		cfg := c03TargetCfg("target-K7-txlog-autosync-before-vlog")
		cfg.WriteBuf = 128
		cfg.NTx = 3
		cfg.Committers = 3
		cfg.FixedVal = 20
		cfg.SyncFreq = 40 * time.Millisecond // the syncer waits SyncFrequency/4 for more precommits: all three records are appended before the first sync
		run, err := c03Workload(r, hx.NewRng(7), cfg, nil, nil, nil, cfg.Name)
		if err != nil {
			return err
		}
		s := c03Enumerate(r, hx.NewRng(7), run, false, 0, 1, 0, dl, nil, nil)
		r.CountN("targeted.K7.images-opened", s.Opened)
	}
	// T2: embedded values: the recovery scan for precommitted txs starts at the 2-byte values prefix, not at the record
	{
		r.NextCase()
		cfg := c03TargetCfg("target-embedded-first-tx")
		cfg.Embedded = true
		cfg.HdrVersion = 0
		cfg.NTx = 2
		cfg.FixedVal = 40 // prefix(2)+value(40): the "header" parsed at the prefix takes its version/nentries from the zero BlRoot of tx 1
		run, err := c03Workload(r, hx.NewRng(11), cfg, nil, nil, nil, cfg.Name)
		if err != nil {
			return err
		}
		s := c03Enumerate(r, hx.NewRng(11), run, false, 0, 1, 0, dl, nil, nil)
		r.CountN("targeted.embedded-first-tx.images-opened", s.Opened)
	}
	// T3: hash tree synced ahead of the tx log (SyncThld reached inside performPrecommit), crash, recovery resets the tree in
	// memory only, a new tx is committed and acknowledged, crash again: the commit log of the tree still holds the old leaf.
	{
		r.NextCase()
		cfg := c03TargetCfg("target-aht-ahead-double-crash")
		cfg.AhtSyncThld = 2
		cfg.NTx = 4
		run, err := c03Workload(r, hx.NewRng(13), cfg, nil, nil, nil, cfg.Name)
		if err != nil {
			return err
		}
		s := c03Enumerate(r, hx.NewRng(13), run, true, 0, 1, 100, dl, nil, nil)
		r.CountN("targeted.aht-ahead.images-opened", s.Opened)
	}
	// T5: index logs use NON-retryable sync: at a chunk rotation the full chunk is flushed but not fsynced, and multiapp.Sync() only
	// reaches the current chunk.  Unsynced index flushes followed by a rotation and a synced flush leave a "synced" commit entry whose
	// root references nodes that were never fsynced.
	{
		r.NextCase()
		cfg := c03TargetCfg("target-index-rotation-unsynced-chunk")
		cfg.FileSize = 1024
		cfg.IdxFlush = 1
		cfg.IdxSync = 5
		cfg.IdxNodeSize = 512
		cfg.KeySpace = 24
		cfg.NTx = 36
		cfg.FixedVal = 8
		run, err := c03Workload(r, hx.NewRng(17), cfg, nil, nil, nil, cfg.Name)
		if err != nil {
			return err
		}
		// crash points right after a SYNCED index flush completed (index/commit fsynced) while an earlier chunk of the nodes log
		// still holds written, never fsynced bytes; only fsynced data survives
		state := crashfs.NewState(nil, true)
		acked := map[uint64]*c03Tx{}
		n := 0
		for k := 0; k < len(run.Log); k++ {
			op := run.Log[k]
			if op.Kind == crashfs.KMark {
				if op.Note == "ack" && run.Acked[op.Arg] != nil {
					acked[op.Arg] = run.Acked[op.Arg]
				}
				continue
			}
			op.Auto = ""
			state.Apply(&op)
			if op.Kind == crashfs.KSync && op.File == "index/commit" && len(state.Pending()["index/nodes"]) > 0 && (thorough || n < 4) {
				var al []*c03Tx
				for _, t := range acked {
					al = append(al, t)
				}
				c03Check(r, run, state.Image(nil, false), al, c03Point{K: k + 1, Choice: "none-survive (after a synced index flush)"}, 0)
				n++
			}
		}
		r.CountN("targeted.index-rotation.synced-flush-points", n)
		s := c03Stats{}
		if thorough {
			s = c03Enumerate(r, hx.NewRng(17), run, false, 0, 1, 0, dl, nil, nil)
		}
		r.CountN("targeted.index-rotation.images-opened", s.Opened)
	}
	// T4: no crash at all: precommit, discard, precommit another tx under the same id, clean Close, Open
	if err := c03DiscardReopen(r); err != nil {
		return err
	}
	return nil
}

// replica-style sequence without any crash: T1..T3 committed; T4 precommitted; DiscardPrecommittedTxsSince(4); T4' precommitted;
// Close; Open.  The tx log still holds T4 before T4' (the discard does not rewind precommittedTxLogSize), recovery re-loads T4,
// while the hash tree (synced by Close) holds the Alh of T4'.
func c03DiscardReopen(r *hx.Result) error {
	r.NextCase()
	cfg := c03TargetCfg("target-discard-close-reopen")
	cfg.Allowance = true
	st, fs, dir, err := c03Open(cfg, nil, true, "c03t")
	defer os.RemoveAll(dir)
	if err != nil {
		return err
	}
	run := &c03Run{Cfg: cfg, Acked: map[uint64]*c03Tx{}, Universe: map[[32]byte]bool{}, Lineage: cfg.Name}
	ctx, cancel := context.WithCancel(context.Background())
	defer cancel()
	commit := func(i int, wait bool) {
		done := make(chan struct{})
		before := st.LastPrecommittedTxID()
		go func() {
			defer close(done)
			tx, err := st.NewWriteOnlyTx(ctx)
			if err != nil {
				return
			}
			key, val := c03Key(i%cfg.KeySpace), []byte(fmt.Sprintf("value-%d", i))
			tx.Set(key, nil, val)
			hdr, err := tx.AsyncCommit(ctx)
			if err == nil && wait {
				run.Acked[hdr.ID] = &c03Tx{ID: hdr.ID, Hdr: *hdr, Alh: hdr.Alh(), Keys: [][]byte{key}, Vals: [][]byte{val}}
			}
		}()
		dl := time.Now().Add(2 * time.Second)
		for st.LastPrecommittedTxID() == before && time.Now().Before(dl) {
			time.Sleep(50 * time.Microsecond)
		}
		if wait {
			st.AllowCommitUpto(st.LastPrecommittedTxID())
			<-done
		}
	}
	for i := 1; i <= 3; i++ {
		commit(i, true)
	}
	commit(4, false)
	if n, err := st.DiscardPrecommittedTxsSince(4); err != nil || n != 1 {
		st.Close()
		return fmt.Errorf("discard: %v n=%d", err, n)
	}
	commit(5, false) // gets id 4 again
	if st.LastPrecommittedTxID() != 4 {
		r.Notes = append(r.Notes, "target-discard-close-reopen: unexpected precommitted id")
	}
	st.Close()
	cancel()
	run.Log = fs.Log()
	for _, op := range run.Log {
		if op.Kind == crashfs.KAppend && op.File == "aht/data" && op.Len == 32 {
			var a [32]byte
			copy(a[:], op.Data)
			run.Universe[a] = true
		}
	}
	var acked []*c03Tx
	for _, t := range run.Acked {
		acked = append(acked, t)
	}
	img := fs.ImageAllWritten()
	obs := c03Check(r, run, img, acked, c03Point{K: len(run.Log), Choice: "clean-close (no crash)"}, 0)
	r.Count("targeted.discard-close-reopen")
	r.Count(fmt.Sprintf("targeted.discard-close-reopen.recovered=%d/%d.failed=%v", obs.Committed, obs.Precomm, obs.Failed))
	return nil
}

// c03SelfTest: three "missing fsync" mutants of the write protocol, simulated at the storage layer (Sync of the tx log /
// of the commit log / of the value log degrades to Flush while the workload runs; the recovered store runs on a sound
// storage).  The recovery oracle must report lost acknowledged txs (for the value log: unreadable VALUES of acknowledged
// txs) or a store that does not open, and the ordering oracle on the trace must report the missing durability at the
// acknowledgement; otherwise the run is inconclusive.
func c03SelfTest(r *hx.Result) error {
	for _, file := range []string{"tx", "commit", "val_0"} {
		scratch := hx.NewResult("C03-selftest", "quick", 1, "")
		cfg := c03TargetCfg("selftest-missing-fsync-" + file)
		cfg.NTx = 3
		cfg.BreakSync = file
		// the recording of the self-test store itself must not trip over the mutant: the workload never crashes
		run, err := c03Workload(scratch, hx.NewRng(23), cfg, nil, nil, nil, cfg.Name)
		if err != nil {
			return err
		}
		run.Cfg.BreakSync = file
		dl := time.Now().Add(20 * time.Second)
		c03Enumerate(scratch, hx.NewRng(23), run, false, 0, 1, 0, dl, nil, nil)
		detected := scratch.Distribution["oraclefail.C03:recovery:acked-tx-lost"] + scratch.Distribution["oraclefail.C03:recovery:open-fails"]
		r.CountN("selftest.missing-fsync-"+file+".images-opened", scratch.Distribution["crash.images.opened"])
		r.CountN("selftest.missing-fsync-"+file+".images-flagged", detected)
		if detected == 0 {
			r.Inconclusive = append(r.Inconclusive, "self-test: the oracle did not notice a missing fsync of the "+file+" log")
		}
		ord := 0
		for k, n := range scratch.Distribution {
			if strings.HasPrefix(k, "oraclefail.C03:ordering:acked-tx-") {
				ord += n
			}
		}
		r.CountN("selftest.missing-fsync-"+file+".ordering-oracle-flagged", ord)
		if ord == 0 {
			r.Inconclusive = append(r.Inconclusive, "self-test: the ordering oracle on the trace did not notice a missing fsync of the "+file+" log")
		}
	}
	return nil
}
