package main

// C03: deterministic, seed-independent scenarios (attack templates).  Each one is a small fixed workload whose
// crash images are enumerated exhaustively (all points x {no un-fsynced write survives, every written byte survives}).

import (
	"context"
	"fmt"
	"os"
	"strings"
	"time"

	"verif/harness/internal/crashfs"
	"verif/harness/internal/hx"
)

func c03TargetCfg(name string) c03Cfg {
	return c03Cfg{Name: name, FileSize: 1 << 20, WriteBuf: 4096, MaxActive: 8, AhtSyncThld: 1000, AhtWriteBuf: 4096, IdxFlush: 100, IdxSync: 100, IOConc: 1,
		Committers: 1, NTx: 4, HdrVersion: 1, KeySpace: 3, MaxVal: 24}
}

func c03Targeted(r *hx.Result, rng *hx.Rng, thorough bool) error {
	dl := time.Now().Add(40 * time.Second)
	// T1 (DESIGN K7): tx-log write buffer smaller than a few records, values small: the tx log is fsynced alone when its
	// buffer fills (autoSync) while the values still sit in the value-log buffer.
	{
		r.NextCase()
		cfg := c03TargetCfg("target-K7-txlog-autosync-before-vlog")
		cfg.WriteBuf = 128
		cfg.NTx = 3
		cfg.Committers = 3
		cfg.FixedVal = 20
		cfg.SyncFreq = 40 * time.Millisecond // the syncer waits SyncFrequency/4 for more precommits: all three records are appended before the first sync
		run, err := c03Workload(r, hx.NewRng(7), cfg, nil, nil, nil, cfg.Name)
		if err != nil {
			return err
		}
		s := c03Enumerate(r, hx.NewRng(7), run, false, 0, 1, 0, dl, nil, nil)
		r.CountN("targeted.K7.images-opened", s.Opened)
	}
	// T2: embedded values: the recovery scan for precommitted txs starts at the 2-byte values prefix, not at the record
	{
		r.NextCase()
		cfg := c03TargetCfg("target-embedded-first-tx")
		cfg.Embedded = true
		cfg.HdrVersion = 0
		cfg.NTx = 2
		cfg.FixedVal = 40 // prefix(2)+value(40): the "header" parsed at the prefix takes its version/nentries from the zero BlRoot of tx 1
		run, err := c03Workload(r, hx.NewRng(11), cfg, nil, nil, nil, cfg.Name)
		if err != nil {
			return err
		}
		s := c03Enumerate(r, hx.NewRng(11), run, false, 0, 1, 0, dl, nil, nil)
		r.CountN("targeted.embedded-first-tx.images-opened", s.Opened)
	}
	// T3: hash tree synced ahead of the tx log (SyncThld reached inside performPrecommit), crash, recovery resets the tree in
	// memory only, a new tx is committed and acknowledged, crash again: the commit log of the tree still holds the old leaf.
	{
		r.NextCase()
		cfg := c03TargetCfg("target-aht-ahead-double-crash")
		cfg.AhtSyncThld = 2
		cfg.NTx = 4
		run, err := c03Workload(r, hx.NewRng(13), cfg, nil, nil, nil, cfg.Name)
		if err != nil {
			return err
		}
		s := c03Enumerate(r, hx.NewRng(13), run, true, 0, 1, 100, dl, nil, nil)
		r.CountN("targeted.aht-ahead.images-opened", s.Opened)
	}
	// T5: index logs use NON-retryable sync: at a chunk rotation the full chunk is flushed but not fsynced, and multiapp.Sync() only
	// reaches the current chunk.  Unsynced index flushes followed by a rotation and a synced flush leave a "synced" commit entry whose
	// root references nodes that were never fsynced.
	{
		r.NextCase()
		cfg := c03TargetCfg("target-index-rotation-unsynced-chunk")
		cfg.FileSize = 1024
		cfg.IdxFlush = 1
		cfg.IdxSync = 5
		cfg.IdxNodeSize = 512
		cfg.KeySpace = 24
		cfg.NTx = 36
		cfg.FixedVal = 8
		run, err := c03Workload(r, hx.NewRng(17), cfg, nil, nil, nil, cfg.Name)
		if err != nil {
			return err
		}
		// crash points right after a SYNCED index flush completed (index/commit fsynced) while an earlier chunk of the nodes log
		// still holds written, never fsynced bytes; only fsynced data survives
		state := crashfs.NewState(nil, true)
		acked := map[uint64]*c03Tx{}
		n := 0
		for k := 0; k < len(run.Log); k++ {
			op := run.Log[k]
			if op.Kind == crashfs.KMark {
				if op.Note == "ack" && run.Acked[op.Arg] != nil {
					acked[op.Arg] = run.Acked[op.Arg]
				}
				continue
			}
			op.Auto = ""
			state.Apply(&op)
			if op.Kind == crashfs.KSync && op.File == "index/commit" && len(state.Pending()["index/nodes"]) > 0 && (thorough || n < 4) {
				var al []*c03Tx
				for _, t := range acked {
					al = append(al, t)
				}
				c03Check(r, run, state.Image(nil, false), al, c03Point{K: k + 1, Choice: "none-survive (after a synced index flush)"}, 0)
				n++
			}
		}
		r.CountN("targeted.index-rotation.synced-flush-points", n)
		s := c03Stats{}
		if thorough {
			s = c03Enumerate(r, hx.NewRng(17), run, false, 0, 1, 0, dl, nil, nil)
		}
		r.CountN("targeted.index-rotation.images-opened", s.Opened)
	}
	// T4: no crash at all: precommit, discard, precommit another tx under the same id, clean Close, Open
	if err := c03DiscardReopen(r); err != nil {
		return err
	}
	// T6: a torn write of an index commit entry over a stale entry (two crashes)
	if err := c03TornIndexEntryOverStaleEntry(r); err != nil {
		return err
	}
	// T7: a stale index commit entry past the rewound end validates again (two crashes, the second one a plain process kill)
	if err := c03StaleIndexEntryRevalidates(r); err != nil {
		return err
	}
	// T8: the TIMESTAMP file of an index is written by Close before the snapshot it describes is durable
	if err := c03TsFileAheadOfSnapshot(r); err != nil {
		return err
	}
	return nil
}

// T7.  Two indexes (prefixes key-0 / key-1).  Life 1, index key-0: S1 (tx 1 writes key-00), S2 (tx 2 updates key-00: history
// record [tx 1]), S3 (tx 3 writes key-10 of the OTHER index: only the ts of this index moves, no history append), all un-fsynced;
// crash 1 loses the history write: S2 does not validate, S3 (empty history range) does, recovery selects S1 and rewinds; the
// entries of S2 and S3 and the leaf of S3 stay in the files.  Life 2: tx 2, tx 3 re-indexed, tx 4 updates key-00 again, snapshot
// S2' (a leaf of the same size in the slot of S2's leaf, history record [tx 2, tx 1] at offset 0).  Crash 2 = process kill, every
// written byte survives: the commit log reads S1, S2', S3(stale); S3 still validates (its leaf was not overwritten, its history
// range is empty) and is the newest entry: OpenWith loads the root of life 1.
func c03StaleIndexEntryRevalidates(r *hx.Result) error {
	r.NextCase()
	cfg := c03TargetCfg("target-index-stale-commit-entry-revalidates")
	cfg.FixedVal, cfg.IdxBulk, cfg.KeySpace, cfg.MultiIdx = 8, 1, 30, true
	cfg1 := cfg
	cfg1.Script = func(s *c03Script) {
		s.Commit(0, []byte("value-1"))
		s.Flush(false)
		s.Commit(0, []byte("value-2"))
		s.Flush(false)
		s.Commit(10, []byte("other-3"))
		s.Flush(false)
	}
	run1, err := c03Workload(r, hx.NewRng(37), cfg1, nil, nil, nil, cfg.Name)
	if err != nil {
		return err
	}
	st1, acked1 := c03ReplayAll(run1)
	pend := st1.Pending()
	dir := c03IdxDirs(cfg)[0]
	surv := map[string]crashfs.Surv{}
	for n, p := range pend {
		surv[n] = crashfs.Surv{Segs: len(p)}
	}
	delete(surv, dir+"/history")
	img1 := st1.Image(surv, false)
	o1 := c03Check(r, run1, img1, acked1, c03Point{K: len(run1.Log), Choice: dir + "/history loses its un-fsynced writes, everything else written survives"}, 0)
	r.Count(fmt.Sprintf("targeted.index-stale-entry.crash-1.failed=%v", o1.Failed))
	inherit := map[uint64]*c03Tx{}
	for _, t := range acked1 {
		inherit[t.ID] = t
	}
	cfg2 := cfg
	cfg2.Script = func(s *c03Script) {
		s.Commit(0, []byte("value-4"))
		s.Flush(false)
	}
	lineage := cfg.Name + " -> crash@end[" + dir + "/history loses its un-fsynced writes] -> workload"
	run2, err := c03Workload(r, hx.NewRng(41), cfg2, img1, inherit, run1.Universe, lineage)
	if err != nil {
		return err
	}
	st2, acked2 := c03ReplayAll(run2)
	img2 := st2.Image(nil, true)
	o2 := c03Check(r, run2, img2, acked2, c03Point{K: len(run2.Log), Choice: "all-survive (process kill)"}, 0)
	r.Count("targeted.index-stale-entry")
	r.Count(fmt.Sprintf("targeted.index-stale-entry.crash-2.failed=%v", o2.Failed))
	if os.Getenv("VERIF_C03_DEBUG") == "t7" {
		c03IndexDebug(run2, img2, o2)
	}
	return nil
}

// T8 (known finding 7).  tbtree.Close: `if t.root.tsMutated() { t.writeTsFile() }` (temp file, fsync, rename: durable at once) and
// only THEN flushTree(sync).  The ts of a root is raised without an insertion (IncreaseTs) for every tx that has no entry for the
// index (other indexes' keys, non-indexable entries).  A process kill between the two steps leaves TIMESTAMP = ts of the root in
// memory next to an older snapshot; OpenWith raises the ts of the older root to the value of the file, the indexer resumes after
// it, and the entries of the txs between the older snapshot and the file are never indexed.
func c03TsFileAheadOfSnapshot(r *hx.Result) error {
	r.NextCase()
	cfg := c03TargetCfg("target-index-ts-file-ahead-of-snapshot")
	cfg.FixedVal, cfg.IdxBulk, cfg.KeySpace, cfg.MultiIdx, cfg.CleanClose = 8, 1, 30, true, true
	cfg.Script = func(s *c03Script) {
		s.Commit(0, []byte("value-1"))
		s.Flush(true)                   // snapshot S1 of index key-0, fsynced
		s.Commit(1, []byte("value-2"))  // tx 2: key-01, in memory only
		s.Commit(10, []byte("other-3")) // tx 3: other index; index key-0: IncreaseTs(3)
	}
	run, err := c03Workload(r, hx.NewRng(43), cfg, nil, nil, nil, cfg.Name)
	if err != nil {
		return err
	}
	state := crashfs.NewState(nil, true)
	acked := map[uint64]*c03Tx{}
	n := 0
	for k := range run.Log {
		op := run.Log[k]
		if op.Kind == crashfs.KMark {
			if op.Note == "ack" && run.Acked[op.Arg] != nil {
				acked[op.Arg] = run.Acked[op.Arg]
			}
			continue
		}
		op.Auto = ""
		state.Apply(&op)
		// the first flush of the nodes log after the TIMESTAMP file of that index appeared: Close is between writeTsFile and the fsyncs
		if op.Kind == crashfs.KFlush && c03IdxLogOf(op.File) == "nodes" && k >= 2 && n == 0 {
			seen := false
			for j := k - 1; j >= 0 && j > k-8; j-- {
				if run.Log[j].Kind == crashfs.KSide && strings.HasPrefix(run.Log[j].File, strings.TrimSuffix(op.File, "/nodes")+"/TIMESTAMP") {
					seen = true
				}
			}
			if !seen {
				continue
			}
			var al []*c03Tx
			for _, t := range acked {
				al = append(al, t)
			}
			o := c03Check(r, run, state.Image(nil, true), al, c03Point{K: k + 1, Choice: "all-survive (process kill inside Close, after the TIMESTAMP file was written)"}, 0)
			r.Count(fmt.Sprintf("targeted.index-ts-file.failed=%v", o.Failed))
			n++
		}
	}
	r.CountN("targeted.index-ts-file", n)
	return nil
}

// c03ReplayAll: the storage state after all ops of the run, and the txs acknowledged (inherited ones included)
func c03ReplayAll(run *c03Run) (*crashfs.State, []*c03Tx) {
	state := crashfs.NewState(run.Base, true)
	for k := range run.Log {
		op := run.Log[k]
		if op.Kind == crashfs.KMark {
			continue
		}
		op.Auto = ""
		state.Apply(&op)
	}
	var acked []*c03Tx
	for _, t := range run.Acked {
		acked = append(acked, t)
	}
	return state, acked
}

// T6 (known finding 5).  The index commit log is rewound, never truncated, and an entry carries two independent checksums (nodes
// range, history range) but none over itself and no link to its predecessor.  Life 1: snapshots S1 (tx 1) and S2 (tx 2, appends the
// old version of the key to the history log), un-fsynced; crash 1 loses the node data of S2 but neither its commit entry nor its
// history record: S2 does not validate, recovery selects S1, the entry of S2 and its history record stay in the files past the
// logical ends.  Life 2: tx 2 is
// re-indexed, tx 3 updates the key again, snapshot S2' is written into the slot of S2 (a DIFFERENT history record at the same
// offset); crash 2 keeps the node data, loses the history write and TEARS the 100-byte commit entry after its nodes checksum:
// the slot now holds [nodes range + checksum of S2'] ++ [history range + checksum of S2], both halves validate against what is
// on disk, the snapshot is accepted with ts = 3, and the leaf of S2' (2 older versions at offset 0) reads the history record of S2.
func c03TornIndexEntryOverStaleEntry(r *hx.Result) error {
	r.NextCase()
	cfg := c03TargetCfg("target-index-torn-commit-entry-over-stale-entry")
	cfg.FixedVal, cfg.IdxBulk, cfg.KeySpace = 8, 1, 3
	cfg1 := cfg
	cfg1.Script = func(s *c03Script) {
		s.Commit(0, []byte("value-1"))
		s.Flush(false)
		s.Commit(0, []byte("value-2"))
		s.Flush(false)
	}
	run1, err := c03Workload(r, hx.NewRng(29), cfg1, nil, nil, nil, cfg.Name)
	if err != nil {
		return err
	}
	st1, acked1 := c03ReplayAll(run1)
	pend := st1.Pending()
	if len(pend["index/commit"]) < 2 || len(pend["index/nodes"]) < 2 {
		r.Notes = append(r.Notes, fmt.Sprintf("%s: life 1 wrote %d un-fsynced index commit entries, 2 expected", cfg.Name, len(pend["index/commit"])))
		return nil
	}
	surv := map[string]crashfs.Surv{}
	for n, p := range pend {
		surv[n] = crashfs.Surv{Segs: len(p)}
	}
	surv["index/nodes"] = crashfs.Surv{Segs: len(pend["index/nodes"]) - 1}
	img1 := st1.Image(surv, false)
	o1 := c03Check(r, run1, img1, acked1, c03Point{K: len(run1.Log), Choice: "index/nodes loses its last write, everything else written survives"}, 0)
	r.Count(fmt.Sprintf("targeted.index-torn-splice.crash-1.failed=%v", o1.Failed))
	inherit := map[uint64]*c03Tx{}
	for _, t := range acked1 {
		inherit[t.ID] = t
	}
	cfg2 := cfg
	cfg2.Script = func(s *c03Script) {
		s.Commit(0, []byte("value-3"))
		s.Flush(false)
	}
	lineage := cfg.Name + " -> crash@end[index/nodes loses its last write] -> workload"
	run2, err := c03Workload(r, hx.NewRng(31), cfg2, img1, inherit, run1.Universe, lineage)
	if err != nil {
		return err
	}
	st2, acked2 := c03ReplayAll(run2)
	pend = st2.Pending()
	if len(pend["index/commit"]) != 1 || pend["index/commit"][0] != c03IdxCLogEntry {
		r.Notes = append(r.Notes, fmt.Sprintf("%s: life 2 wrote %v to the index commit log, one entry expected", cfg.Name, pend["index/commit"]))
		return nil
	}
	surv = map[string]crashfs.Surv{}
	for n, p := range pend {
		surv[n] = crashfs.Surv{Segs: len(p)}
	}
	delete(surv, "index/history")
	surv["index/commit"] = crashfs.Surv{Segs: 0, Torn: 8 + 8 + 4 + 32 + 4} // initialNLogSize, finalNLogSize, rootNodeSize, nLogChecksum, half of initialHLogSize
	img2 := st2.Image(surv, false)
	o2 := c03Check(r, run2, img2, acked2, c03Point{K: len(run2.Log), Choice: "index/commit entry torn after 56 bytes, index/history loses its un-fsynced writes, everything else written survives"}, 0)
	r.Count("targeted.index-torn-splice")
	if os.Getenv("VERIF_C03_DEBUG") == "t6" {
		c03IndexDebug(run2, img2, o2)
	}
	r.Count(fmt.Sprintf("targeted.index-torn-splice.crash-2.failed=%v", o2.Failed))
	return nil
}

// replica-style sequence without any crash: T1..T3 committed; T4 precommitted; DiscardPrecommittedTxsSince(4); T4' precommitted;
// Close; Open.  The tx log still holds T4 before T4' (the discard does not rewind precommittedTxLogSize), recovery re-loads T4,
// while the hash tree (synced by Close) holds the Alh of T4'.
func c03DiscardReopen(r *hx.Result) error {
	r.NextCase()
	cfg := c03TargetCfg("target-discard-close-reopen")
	cfg.Allowance = true
	st, fs, dir, err := c03Open(cfg, nil, true, "c03t")
	defer os.RemoveAll(dir)
	if err != nil {
		return err
	}
	run := &c03Run{Cfg: cfg, Acked: map[uint64]*c03Tx{}, Universe: map[[32]byte]bool{}, Lineage: cfg.Name}
	ctx, cancel := context.WithCancel(context.Background())
	defer cancel()
	commit := func(i int, wait bool) {
		done := make(chan struct{})
		before := st.LastPrecommittedTxID()
		go func() {
			defer close(done)
			tx, err := st.NewWriteOnlyTx(ctx)
			if err != nil {
				return
			}
			key, val := c03Key(i%cfg.KeySpace), []byte(fmt.Sprintf("value-%d", i))
			tx.Set(key, nil, val)
			hdr, err := tx.AsyncCommit(ctx)
			if err == nil && wait {
				run.Acked[hdr.ID] = &c03Tx{ID: hdr.ID, Hdr: *hdr, Alh: hdr.Alh(), Keys: [][]byte{key}, Vals: [][]byte{val}}
			}
		}()
		dl := time.Now().Add(2 * time.Second)
		for st.LastPrecommittedTxID() == before && time.Now().Before(dl) {
			time.Sleep(50 * time.Microsecond)
		}
		if wait {
			st.AllowCommitUpto(st.LastPrecommittedTxID())
			<-done
		}
	}
	for i := 1; i <= 3; i++ {
		commit(i, true)
	}
	commit(4, false)
	if n, err := st.DiscardPrecommittedTxsSince(4); err != nil || n != 1 {
		st.Close()
		return fmt.Errorf("discard: %v n=%d", err, n)
	}
	commit(5, false) // gets id 4 again
	if st.LastPrecommittedTxID() != 4 {
		r.Notes = append(r.Notes, "target-discard-close-reopen: unexpected precommitted id")
	}
	st.Close()
	cancel()
	run.Log = fs.Log()
	for _, op := range run.Log {
		if op.Kind == crashfs.KAppend && op.File == "aht/data" && op.Len == 32 {
			var a [32]byte
			copy(a[:], op.Data)
			run.Universe[a] = true
		}
	}
	var acked []*c03Tx
	for _, t := range run.Acked {
		acked = append(acked, t)
	}
	img := fs.ImageAllWritten()
	obs := c03Check(r, run, img, acked, c03Point{K: len(run.Log), Choice: "clean-close (no crash)"}, 0)
	r.Count("targeted.discard-close-reopen")
	r.Count(fmt.Sprintf("targeted.discard-close-reopen.recovered=%d/%d.failed=%v", obs.Committed, obs.Precomm, obs.Failed))
	return nil
}

// c03SelfTest: three "missing fsync" mutants of the write protocol, simulated at the storage layer (Sync of the tx log /
// of the commit log / of the value log degrades to Flush while the workload runs; the recovered store runs on a sound
// storage).  The recovery oracle must report lost acknowledged txs (for the value log: unreadable VALUES of acknowledged
// txs) or a store that does not open, and the ordering oracle on the trace must report the missing durability at the
// acknowledgement; otherwise the run is inconclusive.
func c03SelfTest(r *hx.Result) error {
	for _, file := range []string{"tx", "commit", "val_0"} {
		scratch := hx.NewResult("C03-selftest", "quick", 1, "")
		cfg := c03TargetCfg("selftest-missing-fsync-" + file)
		cfg.NTx = 3
		cfg.BreakSync = file
		// the recording of the self-test store itself must not trip over the mutant: the workload never crashes
		run, err := c03Workload(scratch, hx.NewRng(23), cfg, nil, nil, nil, cfg.Name)
		if err != nil {
			return err
		}
		run.Cfg.BreakSync = file
		dl := time.Now().Add(20 * time.Second)
		c03Enumerate(scratch, hx.NewRng(23), run, false, 0, 1, 0, dl, nil, nil)
		detected := scratch.Distribution["oraclefail.C03:recovery:acked-tx-lost"] + scratch.Distribution["oraclefail.C03:recovery:open-fails"]
		r.CountN("selftest.missing-fsync-"+file+".images-opened", scratch.Distribution["crash.images.opened"])
		r.CountN("selftest.missing-fsync-"+file+".images-flagged", detected)
		if detected == 0 {
			r.Inconclusive = append(r.Inconclusive, "self-test: the oracle did not notice a missing fsync of the "+file+" log")
		}
		ord := 0
		for k, n := range scratch.Distribution {
			if strings.HasPrefix(k, "oraclefail.C03:ordering:acked-tx-") {
				ord += n
			}
		}
		r.CountN("selftest.missing-fsync-"+file+".ordering-oracle-flagged", ord)
		if ord == 0 {
			r.Inconclusive = append(r.Inconclusive, "self-test: the ordering oracle on the trace did not notice a missing fsync of the "+file+" log")
		}
	}
	return nil
}
