package main

// C07, pkg/database level: primary DB + replica DBs. The harness plays the TxReplicator's fetch round by hand
// (CurrentState -> ExportTxByID with the replica's state -> ReplicateTx -> AllowCommitUpto), in any replica order,
// while a client goroutine is blocked in Set on the primary. Plus targeted store-level probes.

import (
	"bytes"
	"context"
	"crypto/sha256"
	"errors"
	"fmt"
	"os"
	"strings"
	"sync"
	"time"

	"github.com/codenotary/immudb/embedded/store"
	"github.com/codenotary/immudb/pkg/api/schema"
	"github.com/codenotary/immudb/pkg/database"

	"verif/harness/internal/hx"
)

type c07Node struct {
	db   *c07DBw // every call under the liveness bound (c07live.go)
	uuid string
	// what this replica has SHOWN to the primary (largest durably precommitted id in a request that was sent)
	reported uint64
	noCorr   bool // the replica holds a tx altered in transit: its Alh-level divergence is outside the id-level ack model
	model    string // name of the byte-level model instance (Store/Replica.lean) following this replica's store, "" = none
}

func c07NewDB(dir, name string, replica, syncRepl bool, acks int) (database.DB, error) {
	so := store.DefaultOptions().WithSynced(false).WithLogger(quietLogger()).WithSyncFrequency(time.Millisecond).WithMaxConcurrency(10)
	o := database.DefaultOptions().WithDBRootPath(dir).WithStoreOptions(so).AsReplica(replica).WithSyncReplication(syncRepl).WithSyncAcks(acks)
	return database.NewDB(name, nil, o, quietLogger())
}

func c07DBClass(err error) string {
	switch {
	case err == nil:
		return "ok"
	case errors.Is(err, database.ErrReplicaDivergedFromPrimary):
		return "diverged"
	case errors.Is(err, database.ErrIllegalState):
		return "err:illegal-state"
	case errors.Is(err, database.ErrIllegalArguments):
		return "err:illegal"
	}
	return c07Class(err)
}

// c07Cluster: one primary and three replica databases, created once (NewDB is slow) and re-configured per scenario.
type c07Cluster struct {
	dir  string
	prim *c07DBw
	reps []*c07Node
}

func c07NewCluster(r *hx.Result) (*c07Cluster, error) {
	c := &c07Cluster{dir: hx.TempDir("c07d")}
	var err error
	pdb, err := c07NewDB(c.dir, "prim", false, true, 1)
	if err != nil {
		return c, err
	}
	c.prim = c07WrapDB(r, pdb, "primary")
	for i := 0; i < 3; i++ {
		d, err := c07NewDB(c.dir, fmt.Sprintf("rep%d", i), true, true, 0)
		if err != nil {
			return c, err
		}
		d.AsReplica(true, true, 0)
		c.reps = append(c.reps, &c07Node{db: c07WrapDB(r, d, fmt.Sprintf("replica%d", i)), uuid: fmt.Sprintf("uuid-%d", i)})
	}
	// the store of replica 0 is followed by the byte-level replica model (default store limits, external allowance)
	c07NameSeq++
	c.reps[0].model = fmt.Sprintf("d%d", c07NameSeq)
	r.Corr(fmt.Sprintf("c07 new %s %d %d %d %d 0 1", c.reps[0].model, store.DefaultMaxActiveTransactions, store.DefaultMaxKeyLen, store.DefaultMaxValueLen, store.DefaultMaxTxEntries), "ok")
	return c, nil
}

func (c *c07Cluster) close() {
	if c.prim != nil {
		c.prim.Close()
	}
	for _, x := range c.reps {
		x.db.Close()
	}
	os.RemoveAll(c.dir)
}

func c07DBSync(r *hx.Result, rng *hx.Rng, c *c07Cluster, nRep, acks, nTx int) error {
	r.NextCase()
	prim := c.prim
	prim.AsReplica(false, true, acks) // re-configures the primary: empty replicaStates, allowance = committed
	reps := c.reps[:nRep]
	for _, x := range reps {
		x.reported = 0
	}
	c07NameSeq++
	pn := fmt.Sprintf("P%d", c07NameSeq)
	ps0, _ := prim.CurrentState()
	c0 := ps0.TxId
	r.Corr(fmt.Sprintf("c07 p.new %s %d %d %d", pn, acks, ps0.TxId, ps0.PrecommittedTxId), "ok")
	var mu sync.Mutex
	ackers := func(n uint64) int {
		c := 0
		for _, x := range reps {
			if x.reported >= n {
				c++
			}
		}
		return c
	}
	ctx := context.Background()
	// one fetch round of replica x; tamper != nil alters the exported bytes on the way (man in the middle)
	round := func(x *c07Node, tamper func([]byte) []byte, stale *schema.ImmutableState) (string, error) {
		st, err := x.db.CurrentState()
		if err != nil {
			return "", err
		}
		// ORACLE: what a replica is about to report as durably precommitted is never behind its own committed state
		r.OracleChecks++
		if st.PrecommittedTxId < st.TxId {
			r.Fail("C07:db.CurrentState:precommitted-below-committed", fmt.Sprintf("replica %s: CurrentState() reports committed tx %d and (durably) precommitted tx %d — the state it sends to the primary as ReplicaState is behind its own committed state", x.uuid, st.TxId, st.PrecommittedTxId),
				map[string]interface{}{"ops": c07TraceTail(60), "replicas": nRep, "syncAcks": acks})
		}
		if stale != nil {
			st = stale
		}
		ps, _ := prim.CurrentState()
		r.Corr(fmt.Sprintf("c07 p.pre %s %d", pn, ps.PrecommittedTxId), "ok")
		req := &schema.ExportTxRequest{Tx: st.PrecommittedTxId + 1, AllowPreCommitted: true,
			ReplicaState: &schema.ReplicaState{UUID: x.uuid, CommittedTxID: st.TxId, CommittedAlh: st.TxHash, PrecommittedTxID: st.PrecommittedTxId, PrecommittedAlh: st.PrecommittedTxHash}}
		mu.Lock()
		if st.PrecommittedTxId > x.reported {
			x.reported = st.PrecommittedTxId
		}
		mu.Unlock()
		t0 := time.Now()
		bs, mayID, mayAlh, err := prim.ExportTxByID(ctx, req)
		if d := time.Since(t0); d > 100*time.Millisecond {
			c07Lap(fmt.Sprintf("slow ExportTxByID %v tx=%d", d, req.Tx))
		}
		after, _ := prim.CurrentState()
		cls := c07DBClass(err)
		ans := fmt.Sprintf("%s %d %d", cls, mayID, after.TxId)
		if cls == "diverged" {
			ans = fmt.Sprintf("diverged %d", mayID)
		}
		if !x.noCorr {
			r.Corr(fmt.Sprintf("c07 p.fetch %s %s %d %d", pn, x.uuid, st.TxId, st.PrecommittedTxId), ans)
		}
		r.Count("db.fetch." + cls)
		// ORACLE: the primary has committed `after.TxId` transactions: enough replicas must have shown them
		r.OracleChecks++
		mu.Lock()
		a := ackers(after.TxId)
		mu.Unlock()
		if after.TxId > c0 && a < acks {
			r.Fail("C07:sync:primary-committed-without-acks", fmt.Sprintf("primary committed tx %d, only %d of the required %d replicas have informed a durable precommit >= %d", after.TxId, a, acks, after.TxId),
				map[string]interface{}{"replicas": nRep, "syncAcks": acks})
		}
		if err != nil {
			return cls, nil
		}
		if bs != nil {
			if tamper != nil {
				bs = tamper(bs)
			}
			rh, rerr, nrep := c07Retry(func() (*schema.TxHeader, error) { return x.db.ReplicateTx(ctx, bs, false, false) })
			c07CountRetries(r, "db", nrep)
			if c07StillTransient(r, c07Class(rerr), "db.ReplicateTx", nil) {
				return cls, nil // never examined by the store: no model line, no verdict
			}
			if x.model != "" {
				ans := c07Class(rerr)
				if rerr == nil {
					a := schema.TxHeaderFromProto(rh).Alh()
					ans = fmt.Sprintf("ok %d %s", rh.Id, hx.Hex(a[:]))
				}
				r.Corr(fmt.Sprintf("c07 rep %s %s 0", x.model, hx.Hex(bs)), ans)
			}
			if err := rerr; err != nil && !errors.Is(err, store.ErrTxAlreadyCommitted) {
				r.Count("db.replicate." + c07Class(err))
				if tamper == nil {
					r.Fail("C07:replica:genuine-export-rejected", fmt.Sprintf("db.ReplicateTx of an untouched ExportTxByID answer failed: %v", err), nil)
				}
			} else {
				r.Count("db.replicate.ok")
			}
		}
		if mayID > st.TxId {
			err := x.db.AllowCommitUpto(mayID, mayAlh)
			r.Count("db.allow." + c07DBClass(err))
			if x.model != "" {
				r.Corr(fmt.Sprintf("c07 dballow %s %d %s", x.model, mayID, hx.Hex(mayAlh[:])), c07DBClass(err))
			}
			if err != nil && tamper == nil && stale == nil {
				r.Fail("C07:sync:allow-commit-failed", fmt.Sprintf("AllowCommitUpto(%d) on an untampered replica failed: %v", mayID, err), nil)
			}
		}
		// ORACLE: a replica never has more committed than the primary (replica read first)
		rs, _ := x.db.CurrentState()
		ps2, _ := prim.CurrentState()
		r.OracleChecks++
		if rs.TxId > ps2.TxId {
			r.Fail("C07:sync:replica-committed-before-primary", fmt.Sprintf("replica %s has committed %d, the primary %d", x.uuid, rs.TxId, ps2.TxId), map[string]interface{}{"replicas": nRep, "syncAcks": acks})
		}
		return cls, nil
	}
	// replicas that sat out the previous scenario catch up first
	for k := 0; k < 40; k++ {
		behind := false
		for _, x := range reps {
			rs, _ := x.db.CurrentState()
			if rs.TxId < c0 {
				behind = true
				if _, err := round(x, nil, nil); err != nil {
					return err
				}
			}
		}
		if !behind {
			break
		}
	}
	for n := c0 + 1; n <= c0+uint64(nTx); n++ {
		type setRes struct {
			hdr     *schema.TxHeader
			err     error
			ackedAt int
		}
		done := make(chan setRes, 1)
		go func(n uint64) {
			h, err := prim.raw.Set(ctx, &schema.SetRequest{NoWait: true, KVs: []*schema.KeyValue{{Key: []byte(fmt.Sprintf("k%d", n%5)), Value: []byte(fmt.Sprintf("v%d", n))}}})
			mu.Lock()
			a := ackers(n)
			mu.Unlock()
			done <- setRes{h, err, a}
		}(n)
		// wait for the precommit on the primary
		tw := time.Now()
		for i := 0; ; i++ {
			ps, _ := prim.CurrentState()
			if ps.PrecommittedTxId >= n {
				break
			}
			if i > 200000 {
				return fmt.Errorf("primary did not precommit tx %d", n)
			}
			time.Sleep(50 * time.Microsecond)
		}
		c07T("db.Set(primary tx=%d) started on a client goroutine; precommitted", n)
		c07Lap(fmt.Sprintf("tx %d precommitted after %v", n, time.Since(tw)))
		// ORACLE (deterministic part): nothing has been shown for n yet, so it must not be committed
		ps, _ := prim.CurrentState()
		r.OracleChecks++
		if ps.TxId >= n {
			r.Fail("C07:sync:primary-committed-without-acks", fmt.Sprintf("tx %d committed on the primary before any replica was asked", n), nil)
		}
		finished := false
		var res setRes
		for rounds := 0; rounds < 12*nRep && !finished; rounds++ {
			x := reps[rng.Intn(nRep)]
			var stale *schema.ImmutableState
			if rng.Chance(7) && x.reported > 1 {
				// a stale state (an older report re-sent): the primary must refuse a lagging report or treat it as nothing new
				cs, _ := x.db.CurrentState()
				if cs.TxId > 1 {
					old := cs.TxId - 1
					oh, _, _, err := x.db.ExportTxByID(ctx, &schema.ExportTxRequest{Tx: old})
					if err == nil && len(oh) > 0 {
						hdr := &store.TxHeader{}
						if hdr.ReadFrom(oh[4:4+int(uint32(oh[0])<<24|uint32(oh[1])<<16|uint32(oh[2])<<8|uint32(oh[3]))]) == nil {
							alh := hdr.Alh()
							stale = &schema.ImmutableState{TxId: old, TxHash: alh[:], PrecommittedTxId: old, PrecommittedTxHash: alh[:]}
							r.Count("db.stale-report")
						}
					}
				}
			}
			if _, err := round(x, nil, stale); err != nil {
				return err
			}
			select {
			case res = <-done:
				finished = true
			default:
			}
			r.Eval(fmt.Sprintf("db:%d:%d:%d:%s", nRep, acks, n, x.uuid), true)
		}
		if !finished {
			select {
			case res = <-done:
			case <-time.After(c07Bound()):
				c07T("db.Set(primary tx=%d) [client goroutine, started before the fetch rounds above]", n)
				c07ReportHang(r, "db.Set", fmt.Sprintf(" (tx %d: %d fetch rounds served every replica, replicas=%d syncAcks=%d)", n, 12*nRep, nRep, acks))
				panic(c07Hang{"db.Set"})
			}
		}
		c07Lap(fmt.Sprintf("tx %d set returned after %v", n, time.Since(tw)))
		if res.err != nil {
			return fmt.Errorf("primary.Set: %w", res.err)
		}
		r.OracleChecks++
		if res.ackedAt < acks {
			r.Fail("C07:sync:primary-committed-without-acks", fmt.Sprintf("Set returned for tx %d when %d of %d required replicas had informed a durable precommit", n, res.ackedAt, acks), map[string]interface{}{"replicas": nRep, "syncAcks": acks})
		}
		r.Count("db.set-returned")
	}
	c07Lap("db txs done")
	// drain: every replica catches up and commits
	for k := 0; k < 4*nTx+12; k++ {
		behind := false
		pcs, _ := prim.CurrentState()
		for _, x := range reps {
			rs, _ := x.db.CurrentState()
			if k < 3 || rs.TxId < pcs.TxId {
				behind = true
				if _, err := round(x, nil, nil); err != nil {
					return err
				}
			}
		}
		if !behind {
			break
		}
	}
	ps, _ := prim.CurrentState()
	for _, x := range reps {
		rs, _ := x.db.CurrentState()
		r.OracleChecks++
		if rs.TxId != ps.TxId || !bytes.Equal(rs.TxHash, ps.TxHash) {
			r.Fail("C07:replica:history-differs", fmt.Sprintf("after draining, replica %s is at %d/%x, primary at %d/%x", x.uuid, rs.TxId, rs.TxHash[:4], ps.TxId, ps.TxHash[:4]), nil)
		}
		for id := c0 + 1; id <= ps.TxId && id <= rs.TxId; id++ {
			cctx, ccancel := context.WithTimeout(ctx, 10*time.Second)
			pb, _, _, e1 := prim.ExportTxByID(cctx, &schema.ExportTxRequest{Tx: id})
			rb, _, _, e2 := x.db.ExportTxByID(cctx, &schema.ExportTxRequest{Tx: id})
			ccancel()
			r.OracleChecks++
			if e1 != nil || e2 != nil || !bytes.Equal(pb, rb) {
				r.Fail("C07:replica:history-differs", fmt.Sprintf("ExportTxByID(%d) differs between primary and replica %s (%v, %v)", id, x.uuid, e1, e2), nil)
			}
		}
		// queries
		for k := 0; k < 5; k++ {
			key := []byte(fmt.Sprintf("k%d", k))
			pe, e1 := prim.Get(ctx, &schema.KeyRequest{Key: key})
			re, e2 := x.db.Get(ctx, &schema.KeyRequest{Key: key, SinceTx: ps.TxId})
			r.OracleChecks++
			if (e1 == nil) != (e2 == nil) || (e1 == nil && (pe.Tx != re.Tx || !bytes.Equal(pe.Value, re.Value))) {
				r.Fail("C07:replica:query-differs", fmt.Sprintf("db.Get(%s) differs: %v/%v", key, e1, e2), nil)
			}
		}
	}
	r.Count(fmt.Sprintf("db.sync.replicas=%d.acks=%d", nRep, acks))

	c07Lap("db drained+compared")
	// K3 downstream at database level: a replica precommits an export whose Ts was altered on the way.
	// It must never be allowed to commit it, and the primary must tell it that it diverged.
	k3Set := make(chan error, 1)
	go func() {
		_, err := prim.raw.Set(ctx, &schema.SetRequest{NoWait: true, KVs: []*schema.KeyValue{{Key: []byte("k3"), Value: []byte("v")}}})
		k3Set <- err
	}()
	c07T("db.Set(primary, key k3) started on a client goroutine")
	// whatever happens below, the client's Set has to come back in the end: every replica (the victim after discarding
	// and replicating the genuine tx again) acknowledges the tx. A Set that stays blocked keeps the database's lock and
	// the next scenario would hang in AsReplica.
	defer func() {
		if x := recover(); x != nil {
			panic(x) // a hang was reported already (or the code under test panicked): keep unwinding
		}
		for k := 0; k < 6; k++ {
			select {
			case <-k3Set:
				return
			default:
			}
			for _, x := range reps {
				round(x, nil, nil)
			}
		}
		select {
		case <-k3Set:
		case <-time.After(c07Bound()):
			c07T("db.Set(primary, key k3) [client goroutine started above]")
			c07ReportHang(r, "db.Set", fmt.Sprintf(" (the tx after which one replica precommitted an altered copy, discarded it and replicated the genuine one; every replica was served 6 more fetch rounds; replicas=%d syncAcks=%d)", nRep, acks))
			panic(c07Hang{"db.Set"})
		}
	}()
	last := ps.TxId + 1
	for i := 0; ; i++ {
		s, _ := prim.CurrentState()
		if s.PrecommittedTxId >= last {
			break
		}
		if i > 200000 {
			return fmt.Errorf("primary did not precommit the K3 probe tx")
		}
		time.Sleep(50 * time.Microsecond)
	}
	victim := reps[0]
	tamper := func(b []byte) []byte {
		l := c07Layout(b)
		return c07ReHdr(b, l, func(h *store.TxHeader) bool { h.Ts += 3600; return true })
	}
	if _, err := round(victim, tamper, nil); err != nil {
		return err
	}
	vs, _ := victim.db.CurrentState()
	if vs.PrecommittedTxId == last {
		r.Count("db.k3.altered-ts-precommitted")
		// honest replicas acknowledge, the primary commits
		for k := 0; k < 4; k++ {
			for _, x := range reps[1:] {
				round(x, nil, nil)
			}
		}
		// the announcement a primary would make for `last`, given directly: the replica must refuse (its Alh differs)
		if pcs, _ := prim.CurrentState(); pcs.TxId == last {
			var pa [32]byte
			copy(pa[:], pcs.TxHash)
			err := victim.db.AllowCommitUpto(last, pa)
			r.OracleChecks++
			if err == nil {
				r.Fail("C07:sync:replica-committed-altered-tx", fmt.Sprintf("AllowCommitUpto(%d, primary's Alh) succeeded on a replica holding an altered tx %d", last, last), nil)
			}
			r.Count("db.k3.allow-refused." + c07DBClass(err))
			if victim.model != "" {
				r.Corr(fmt.Sprintf("c07 dballow %s %d %s", victim.model, last, hx.Hex(pa[:])), c07DBClass(err))
			}
		}
		victim.noCorr = true
		cls, _ := round(victim, nil, nil)
		victim.noCorr = false
		vs2, _ := victim.db.CurrentState()
		r.OracleChecks++
		if vs2.TxId >= last {
			r.Fail("C07:sync:replica-committed-altered-tx", fmt.Sprintf("replica committed tx %d whose header was altered in transit", last), nil)
		}
		if cls != "diverged" {
			r.Fail("C07:sync:diverged-replica-not-told", fmt.Sprintf("primary answered %q to a replica whose precommitted Alh differs", cls), nil)
		}
		r.Count("db.k3.detected-by-primary." + cls)
		// the replicator's reaction: discard, then replicate the genuine tx
		if err := victim.db.DiscardPrecommittedTxsSince(vs2.TxId + 1); err != nil {
			r.Fail("C07:sync:discard-failed", err.Error(), nil)
		} else if victim.model != "" {
			r.Corr(fmt.Sprintf("c07 discard %s %d", victim.model, vs2.TxId+1), fmt.Sprintf("ok %d", vs2.PrecommittedTxId-vs2.TxId))
		}
		for k := 0; k < 4; k++ {
			round(victim, nil, nil)
		}
		vs3, _ := victim.db.CurrentState()
		p3, _ := prim.CurrentState()
		r.OracleChecks++
		if nRep > acks || acks == 1 {
			// the primary could commit without the victim
			if vs3.TxId != p3.TxId || !bytes.Equal(vs3.TxHash, p3.TxHash) {
				r.Fail("C07:replica:history-differs", fmt.Sprintf("after discard and re-replication the replica is at %d, the primary at %d", vs3.TxId, p3.TxId), nil)
			}
		}
	}
	return nil
}

// asynchronous replication at database level
func c07DBAsync(r *hx.Result, rng *hx.Rng, nTx int) error {
	r.NextCase()
	dir := hx.TempDir("c07a")
	defer os.RemoveAll(dir)
	primRaw, err := c07NewDB(dir, "prim", false, false, 0)
	if err != nil {
		return err
	}
	prim := c07WrapDB(r, primRaw, "async-primary")
	defer prim.Close()
	repRaw, err := c07NewDB(dir, "rep", true, false, 0)
	if err != nil {
		return err
	}
	rep := c07WrapDB(r, repRaw, "async-replica")
	defer rep.Close()
	ctx := context.Background()
	for n := 1; n <= nTx; n++ {
		kvs := []*schema.KeyValue{}
		for e := 0; e <= rng.Intn(3); e++ {
			kvs = append(kvs, &schema.KeyValue{Key: []byte(fmt.Sprintf("key%d-%d", n%4, e)), Value: rng.Bytes(rng.Size(50))})
		}
		if _, err := prim.Set(ctx, &schema.SetRequest{KVs: kvs}); err != nil {
			return err
		}
	}
	if _, err := rep.Set(ctx, &schema.SetRequest{KVs: []*schema.KeyValue{{Key: []byte("x"), Value: []byte("y")}}}); !errors.Is(err, database.ErrIsReplica) {
		r.Fail("C07:replica:accepts-direct-writes", fmt.Sprintf("Set on a replica database answered %v", err), nil)
	}
	order := make([]int, nTx)
	for i := range order {
		order[i] = i + 1
	}
	for id := 1; id <= nTx; id++ {
		// a duplicate of an earlier tx now and then
		if id > 1 && rng.Chance(25) {
			ob, _, _, _ := prim.ExportTxByID(ctx, &schema.ExportTxRequest{Tx: uint64(1 + rng.Intn(id-1))})
			_, err, nrep := c07Retry(func() (*schema.TxHeader, error) { return rep.ReplicateTx(ctx, ob, false, false) })
			c07CountRetries(r, "db", nrep)
			r.OracleChecks++
			if !errors.Is(err, store.ErrTxAlreadyCommitted) && !c07StillTransient(r, c07Class(err), "db.ReplicateTx (duplicate)", nil) {
				r.Fail("C07:replica:rejected-delivery-changed-state", fmt.Sprintf("duplicate delivery at db level answered %v", err), nil)
			}
		}
		b, _, _, err := prim.ExportTxByID(ctx, &schema.ExportTxRequest{Tx: uint64(id)})
		if err != nil {
			return err
		}
		skipCheck := rng.Chance(30)
		h, err, nrep := c07Retry(func() (*schema.TxHeader, error) { return rep.ReplicateTx(ctx, b, skipCheck, true) })
		c07CountRetries(r, "db", nrep)
		r.OracleChecks++
		if c07StillTransient(r, c07Class(err), "async db replication", nil) {
			return nil
		}
		if err != nil || h.Id != uint64(id) {
			r.Fail("C07:replica:genuine-export-rejected", fmt.Sprintf("async db replication of tx %d: %v", id, err), nil)
			return nil
		}
		r.Eval(fmt.Sprintf("dbasync:%d", id), true)
	}
	ps, _ := prim.CurrentState()
	rs, _ := rep.CurrentState()
	r.OracleChecks++
	if ps.TxId != rs.TxId || !bytes.Equal(ps.TxHash, rs.TxHash) {
		r.Fail("C07:replica:history-differs", "async db replication: final states differ", nil)
	}
	if err := prim.AllowCommitUpto(1, sha256.Sum256(nil)); !errors.Is(err, database.ErrNotReplica) {
		r.Fail("C07:sync:allow-commit-on-primary", fmt.Sprintf("AllowCommitUpto on a primary answered %v", err), nil)
	}
	r.Count("db.async")
	return nil
}

func c07DB(r *hx.Result, rng *hx.Rng, thorough bool) error {
	nTx := 6
	if thorough {
		nTx = 25
	}
	c, err := c07NewCluster(r)
	defer c.close()
	if err != nil {
		return err
	}
	c07Lap("db cluster created")
cluster:
	for nRep := 1; nRep <= 3; nRep++ {
		for acks := 1; acks <= nRep; acks++ {
			err, hung := c07Run(r, fmt.Sprintf("db-sync replicas=%d syncAcks=%d", nRep, acks), func() error { return c07DBSync(r, rng.Fork(), c, nRep, acks, nTx) })
			if err != nil {
				return fmt.Errorf("db sync (replicas=%d acks=%d): %w", nRep, acks, err)
			}
			if hung {
				// a stuck call holds locks of the shared databases: the cluster cannot be used any more
				r.Count("db.cluster-abandoned-after-hang")
				break cluster
			}
			// no Flush here: the driver process (and with it the model of replica 0's store) lives for one batch
			c07Lap(fmt.Sprintf("db sync %d %d", nRep, acks))
		}
	}
	if !c07TooManyHangs() {
		err, _ := c07Run(r, "db-async", func() error { return c07DBAsync(r, rng.Fork(), 3*nTx) })
		if err != nil {
			return err
		}
	}
	return r.Flush()
}

// ------------------------------------------------------------------ targeted store-level probes

func c07Probes(r *hx.Result, rng *hx.Rng) error {
	p, err := c07BuildPrimary(r, rng.Fork(), c07PrimSpec{n: 8, ver: 1})
	if err != nil {
		if p != nil {
			p.close()
		}
		return err
	}
	defer p.close()
	// (1) K3 downstream at store level: after an altered-Ts tx was precommitted the genuine successor is refused
	{
		r.NextCase()
		rp, err := c07OpenReplica(r, p, false, true, 8)
		if err != nil {
			return err
		}
		for id := uint64(1); id <= 3; id++ {
			rp.deliver(p.exp[id], false)
		}
		alt := c07ReHdr(p.exp[4], c07Layout(p.exp[4]), func(h *store.TxHeader) bool { h.Ts++; return true })
		out := rp.deliver(alt, false)
		if strings.HasPrefix(out.ans, "ok ") {
			r.Count("probe.k3.altered-ts-accepted")
			r.Fail("C07:ReplicateTx:altered-header-precommitted-locally", "export of tx 4 with Ts+1 was precommitted by the replica", map[string]interface{}{"export": hx.Hex(alt), "genuine": hx.Hex(p.exp[4])})
			r.OracleChecks++
			if out.hdr.Alh() == p.alhs[4] {
				r.Fail("C07:replica:accepted-altered-export:coh.hdr.ts", "altered Ts but the Alh equals the primary's", nil)
			}
			before := rp.state()
			out5 := rp.deliver(p.exp[5], false)
			r.OracleChecks++
			if out5.ans != "err:illegal" || rp.state() != before {
				r.Fail("C07:replica:genuine-successor-accepted-after-altered-tx", fmt.Sprintf("genuine tx 5 on top of the altered tx 4 answered %s", out5.ans), nil)
			}
			r.Count("probe.k3.successor-" + out5.ans)
			rp.discard(4)
			out4 := rp.deliver(p.exp[4], false)
			if !strings.HasPrefix(out4.ans, "ok ") {
				c07GenuineRejected(r, out4.ans, "after discarding the altered tx the genuine one answered "+out4.ans, nil)
			}
			rp.checkTx(p, 4, "k3-probe")
		}
		rp.corrState()
		rp.close()
	}
	// (1b) the same without external commit allowance (asynchronous replication): the altered tx is COMMITTED
	{
		r.NextCase()
		rp, err := c07OpenReplica(r, p, false, false, 8)
		if err != nil {
			return err
		}
		for id := uint64(1); id <= 3; id++ {
			rp.deliver(p.exp[id], false)
		}
		alt := c07ReHdr(p.exp[4], c07Layout(p.exp[4]), func(h *store.TxHeader) bool { h.Ts++; return true })
		out := rp.deliver(alt, false)
		cid, calh := rp.st.CommittedAlh()
		r.OracleChecks++
		if strings.HasPrefix(out.ans, "ok ") && cid == 4 && calh != p.alhs[4] {
			r.Count("probe.k3.async-altered-ts-committed")
			r.Fail("C07:ReplicateTx:altered-header-precommitted-locally", "no external allowance: export of tx 4 with Ts+1 was precommitted AND committed by the replica", map[string]interface{}{"export": hx.Hex(alt), "genuine": hx.Hex(p.exp[4])})
			out5 := rp.deliver(p.exp[5], false)
			r.Count("probe.k3.async-successor-" + out5.ans)
		}
		rp.corrState()
		rp.close()
	}
	// (3) BlTxID = 0 beyond the first tx: the supplied zero BlRoot passes the check and the STORED header must carry it too
	// (before the repair of performPrecommit, which assigned tx.header.BlRoot only when blTxID > 0, the stored header kept
	// whatever BlRoot the pooled Tx object held: C07:ReplicateTx:stale-blroot-stored-when-bltxid-zero, stays armed)
	{
		r.NextCase()
		rp, err := c07OpenReplica(r, p, false, true, 8)
		if err != nil {
			return err
		}
		for id := uint64(1); id <= 3; id++ {
			rp.deliver(p.exp[id], false)
		}
		alt := c07ReHdr(p.exp[4], c07Layout(p.exp[4]), func(h *store.TxHeader) bool { h.BlTxID = 0; h.BlRoot = [32]byte{}; return true })
		out := rp.deliver(alt, false)
		if strings.HasPrefix(out.ans, "ok ") {
			r.Count("probe.bl-zero.accepted")
			r.Fail("C07:ReplicateTx:altered-header-precommitted-locally", "export of tx 4 with BlTxID=0/BlRoot=0 was precommitted by the replica", map[string]interface{}{"export": hx.Hex(alt), "genuine": hx.Hex(p.exp[4])})
			h, err := rp.st.ReadTxHeader(4, true, false)
			r.OracleChecks++
			if err == nil && h.BlTxID == 0 && h.BlRoot != ([32]byte{}) {
				r.Fail("C07:ReplicateTx:stale-blroot-stored-when-bltxid-zero", fmt.Sprintf("supplied header of tx 4 has BlTxID=0 and a zero BlRoot; the stored header has BlTxID=0 and BlRoot=%x… (the BlRoot of tx 3, left over in the pooled Tx); returned Alh %x…", h.BlRoot[:8], out.hdr.Alh()),
					map[string]interface{}{"primary": p.label, "export": hx.Hex(alt)})
			}
		}
		rp.corrState()
		rp.close()
	}
	// (5) the same with GENUINE exports only: tx 1 and 2 precommitted, both discarded, tx 1 delivered again: the replica
	// must hold the primary's tx 1 and accept tx 2 (before the repair tx 1 was stored with the BlRoot of tx 2, left in the
	// pooled Tx: its Alh was not the primary's and tx 2 was refused)
	{
		r.NextCase()
		rp, err := c07OpenReplica(r, p, false, true, 8)
		if err != nil {
			return err
		}
		rp.deliver(p.exp[1], false)
		rp.deliver(p.exp[2], false)
		rp.discard(1)
		out := rp.deliver(p.exp[1], false)
		r.OracleChecks++
		if strings.HasPrefix(out.ans, "ok ") && out.hdr.Alh() != p.alhs[1] {
			h, _ := rp.st.ReadTxHeader(1, true, false)
			out2 := rp.deliver(p.exp[2], false)
			r.Count("probe.stale-blroot.genuine-tx1-corrupted")
			r.Count("probe.stale-blroot.successor-" + out2.ans)
			r.Fail("C07:ReplicateTx:stale-blroot-stored-when-bltxid-zero", fmt.Sprintf("GENUINE exports only: ReplicateTx(tx1), ReplicateTx(tx2), DiscardPrecommittedTxsSince(1), ReplicateTx(tx1) => tx 1 stored with BlTxID=0 and BlRoot=%x… (that of tx 2), Alh %x… instead of the primary's %x…; ReplicateTx(tx2) then answers %s", h.BlRoot[:8], out.hdr.Alh(), p.alhs[1], out2.ans),
				map[string]interface{}{"primary": p.label})
		} else if strings.HasPrefix(out.ans, "ok ") {
			r.Count("probe.stale-blroot.genuine-tx1-intact")
			out2 := rp.deliver(p.exp[2], false)
			r.Count("probe.stale-blroot.successor-" + out2.ans)
			r.OracleChecks++
			if !strings.HasPrefix(out2.ans, "ok ") || out2.hdr.Alh() != p.alhs[2] {
				r.Fail("C07:replica:history-differs", fmt.Sprintf("re-replication from genesis: tx 1 restored, but ReplicateTx(tx2) answers %s", out2.ans), map[string]interface{}{"primary": p.label})
			}
		}
		rp.corrState()
		rp.close()
	}
	// (4) a delivery rejected with ErrBufferIsFull has already been written to the tx log: after close/reopen it is precommitted
	{
		r.NextCase()
		rp, err := c07OpenReplica(r, p, false, true, 2)
		if err != nil {
			return err
		}
		rp.deliver(p.exp[1], false)
		rp.deliver(p.exp[2], false)
		before := rp.state()
		out := rp.deliver(p.exp[3], false)
		r.OracleChecks++
		if out.ans == "err:buffer-full" && rp.state() == before {
			if err := rp.restart(); err != nil {
				return err
			}
			after := rp.corrState()
			if rp.st.LastPrecommittedTxID() == 3 {
				r.Count("probe.buffer-full.reloaded")
				r.Fail("C07:replica:buffer-full-rejection-reloaded-after-reopen", fmt.Sprintf("MaxActiveTransactions=2, external commit allowance: tx 1,2 precommitted, tx 3 answered ErrBufferIsFull (state unchanged: %s); after Close/Open the replica has tx 3 precommitted (%s)", before, after),
					map[string]interface{}{"primary": p.label})
			}
		} else {
			r.Count("probe.buffer-full.answer=" + out.ans)
		}
		rp.close()
	}
	// (2) Synced replica: allowance granted, discard before the sync commits, a FORKED history takes the allowed ids
	{
		r.NextCase()
		rp, err := c07OpenReplica(r, p, true, true, 16)
		if err != nil {
			return err
		}
		for id := uint64(1); id <= 6; id++ {
			rp.deliver(p.exp[id], false)
		}
		rp.allow(2)
		rp.sync()
		rp.allow(5) // tx 3..5 of history p may be committed; Synced: the commit happens at the next sync
		rp.discard(3)
		rp.corrState()
		alhs := [][32]byte{p.alhs[0], p.alhs[1], p.alhs[2]}
		forkOK := true
		for id := uint64(3); id <= 5 && forkOK; id++ {
			leaves := make([][32]byte, id-1)
			for i := range leaves {
				leaves[i] = refLeaf(alhs[i+1][:])
			}
			alt := c07ReHdr(p.exp[id], c07Layout(p.exp[id]), func(h *store.TxHeader) bool {
				h.Ts += 77
				h.PrevAlh = alhs[id-1]
				h.BlTxID = id - 1
				h.BlRoot = refMth(leaves)
				return true
			})
			out := rp.deliver(alt, false)
			if !strings.HasPrefix(out.ans, "ok ") {
				forkOK = false
				r.Notes = append(r.Notes, "allow/discard probe: forked tx answered "+out.ans)
				break
			}
			alhs = append(alhs, out.hdr.Alh())
		}
		rp.sync()
		st := rp.corrState()
		cid, calh := rp.st.CommittedAlh()
		r.OracleChecks++
		if forkOK && cid >= 3 && calh != p.alhs[cid] {
			r.Count("probe.allow-discard.forked-tx-committed")
			r.Fail("C07:sync:allowance-survives-discard", fmt.Sprintf("Synced replica: AllowCommitUpto(5), then DiscardPrecommittedTxsSince(3) before the sync; three transactions of a forked history were then precommitted as 3..5 and COMMITTED under the old allowance without any new AllowCommitUpto (state %s)", st),
				map[string]interface{}{"primary": p.label})
		} else {
			r.Count(fmt.Sprintf("probe.allow-discard.committed=%d", cid))
		}
		rp.close()
	}
	return nil
}
