package main

// C04 — runner, deterministic probes of the known defects, and the pkg/database stage.

import (
	"context"
	"crypto/sha256"
	"encoding/json"
	"errors"
	"fmt"
	"os"
	"os/exec"
	"sort"
	"strings"
	"time"

	"github.com/codenotary/immudb/embedded/store"
	"github.com/codenotary/immudb/pkg/api/schema"
	"github.com/codenotary/immudb/pkg/database"

	"verif/harness/internal/hx"
)

func c04BaseCfg(mode, layout string, bulk int) c04Cfg {
	c := c04Cfg{Mode: mode, Bulk: bulk, Adaptive: true, TimeoutMs: 10000, FlushThld: 100000, SyncThld: 100000,
		MaxKeyLen: 32, CacheSize: 100000, MaxBuffered: 1 << 20, MaxGlobalBuffered: 1 << 30, MaxTxEntries: 16,
		Writers: 2, Layout: layout}
	c.NodeSize = 4096
	return c
}

// F1 — the recipe of DESIGN §9: MaxBulkSize = 8, 20 single-key transactions with distinct keys, then
// WaitForIndexingUpto(20); every key must be readable.  The indexer is started after the commits
// (multi-indexing store, InitIndexing afterwards) so that it sees full bulks deterministically.
// Returns whether the aliasing is present in this build of /repo.
func c04ProbeF1(r *hx.Result) (present bool, err error) {
	defer func() {
		if p := recover(); p != nil {
			r.Fail("C04:panic:probe-f1", fmt.Sprint(p), nil)
		}
	}()
	dir := hx.TempDir("c04f1")
	defer os.RemoveAll(dir)
	cfg := c04BaseCfg("backlog", "default", 8)
	st, err := store.Open(dir, cfg.options())
	if err != nil {
		return false, err
	}
	defer st.Close()
	const n = 20
	for i := 0; i < n; i++ {
		tx := c04Tx{Ents: []c04Ent{{Key: []byte(fmt.Sprintf("key%02d", i)), Val: []byte(fmt.Sprintf("val%02d", i))}}}
		if _, err := c04Commit(st, tx, false); err != nil {
			return false, err
		}
	}
	if err := st.InitIndexing(&store.IndexSpec{}); err != nil {
		return false, err
	}
	ctx, cancel := context.WithTimeout(context.Background(), 60*time.Second)
	defer cancel()
	if err := st.WaitForIndexingUpto(ctx, n); err != nil {
		return false, err
	}
	var missing []string
	for i := 0; i < n; i++ {
		k := []byte(fmt.Sprintf("key%02d", i))
		v, err := st.Get(context.Background(), k)
		if err != nil || v.Tx() != uint64(i+1) {
			missing = append(missing, string(k))
		}
	}
	r.OracleChecks += n
	r.Eval("probe.f1", true)
	if len(missing) > 0 {
		present = true
		r.Fail(c04SigAlias, fmt.Sprintf("MaxBulkSize=8, 20 single-key txs (key00..key19), indexer started after the commits, WaitForIndexingUpto(20): %d keys not found by Get: %s", len(missing), strings.Join(missing, ",")),
			c04Replay{Kind: "probe-f1", Detail: "store.Open(MultiIndexing, IndexOptions.MaxBulkSize=8); 20x {Set(keyNN,valNN); Commit}; InitIndexing(&IndexSpec{}); WaitForIndexingUpto(20); Get(keyNN)"})
	}
	r.Extra["f1_aliasing_present"] = present
	r.Extra["f1_probe_missing_keys"] = missing
	return present, nil
}

// tbtree leafValue.lastUpdateBetween walks the history-log chain of a key `hCount` CHUNKS far although a chunk
// holds several versions; past the oldest chunk it follows the initial back pointer (offset 0) into the first chunk
// ever written — another key's history.  Recipe: two keys written three times each, one flush, then
// GetBetween(secondKey, 1, 3): the key did not exist at tx 3, yet the first key's version of tx 2 is returned.
func c04ProbeOverrun(r *hx.Result) {
	defer func() {
		if p := recover(); p != nil {
			r.Fail("C04:panic:probe-overrun", fmt.Sprint(p), nil)
		}
	}()
	dir := hx.TempDir("c04ovr")
	defer os.RemoveAll(dir)
	cfg := c04BaseCfg("sync", "rows+inj", 1)
	st, err := store.Open(dir, cfg.options())
	if err != nil {
		r.Fail("C04:harness:open", err.Error(), nil)
		return
	}
	defer st.Close()
	defs := c04Layout("rows+inj")
	if err := st.InitIndexing(defs[0].spec()); err != nil {
		r.Fail("C04:harness:open", err.Error(), nil)
		return
	}
	for _, kv := range [][2]string{{"rA", "a1"}, {"rA", "b2"}, {"rA", "c3"}, {"rB", "a4"}, {"rB", "b5"}, {"rB", "c6"}} {
		if _, err := c04Commit(st, c04Tx{Ents: []c04Ent{ent(kv[0], kv[1])}}, false); err != nil {
			r.Fail("C04:harness:commit", err.Error(), nil)
			return
		}
	}
	if err := st.FlushIndexes(0, false); err != nil {
		r.Fail("C04:maintenance:error", err.Error(), nil)
		return
	}
	got := realGetBetween(st, []byte("rB"), 1, 3)
	r.OracleChecks++
	r.Eval("probe.overrun", true)
	if got == "err:notfound" {
		r.Extra["getbetween_overrun_present"] = false
		return
	}
	r.Extra["getbetween_overrun_present"] = true
	desc := fmt.Sprintf("tx1..3 write rA, tx4..6 write rB, FlushIndexes, GetBetween(rB, 1, 3): the key has no version <= 3 but %q (rA's version of tx 2, revision 0) was returned", got)
	// consequence for a secondary index created afterwards
	if err := st.InitIndexing(defs[1].spec()); err == nil {
		ctx, cancel := context.WithTimeout(context.Background(), 3*time.Second)
		werr := st.WaitForIndexingUpto(ctx, 6)
		cancel()
		if werr != nil {
			desc += "; an injective secondary index initialised afterwards never gets past tx 3 (its lookup of the previous row version answers tx 2, ReadTxEntry(2, rB) fails, indexSince retries forever)"
			r.Extra["getbetween_overrun_stalls_secondary_index"] = true
		}
	}
	r.Fail(c04SigGetBtwHL, desc, c04Replay{Kind: "probe-overrun", Detail: "store.Open(MultiIndexing); InitIndexing({r,r}); 3x Set(rA), 3x Set(rB) (one tx each); FlushIndexes(0,false); GetBetween(rB,1,3)"})
}

// which variant of the code is /repo running?  Three tiny deterministic scenarios of defects that were repaired
// (lookup at the bulk start, tombstone without the deleted flag, Snapshot.History revisions).  The answers are
// told to the Lean driver (`c04 quirks`), whose model has the repaired code only: a returning defect shows up as
// `unsupported-variant` mismatches AND as oracle failures under its old signature (the defects themselves are
// reported by the probes/oracles, not here).
type c04Quirks struct {
	LookupAtBulkStart bool // injective branch looks the previous row version up as of the first tx of the bulk
	TombKeepsPrevMd   bool // tombstone of the previous mapped key keeps the (read-only) metadata, no deleted flag
	SnapHistCountsDown bool // Snapshot.History numbers revisions hCount-i
}

func (q c04Quirks) line() string {
	return fmt.Sprintf("c04 quirks %s %s", b01(q.LookupAtBulkStart), b01(q.TombKeepsPrevMd))
}

func c04DetectQuirks(r *hx.Result) (q c04Quirks, err error) {
	defer func() {
		if p := recover(); p != nil {
			err = fmt.Errorf("panic: %v", p)
		}
	}()
	live := func(st *store.ImmuStore, k string) bool {
		_, err := st.Get(context.Background(), []byte(k))
		return err == nil
	}
	defs := c04Layout("rows+inj")
	// (1) r1=a (indexed), then r1=b, r1=c indexed as one bulk: is "b" tombstoned?
	{
		dir := hx.TempDir("c04q1")
		defer os.RemoveAll(dir)
		st, err := store.Open(dir, c04BaseCfg("backlog", "rows+inj", 4).options())
		if err != nil {
			return q, err
		}
		for _, d := range defs {
			if err := st.InitIndexing(d.spec()); err != nil {
				return q, err
			}
		}
		if _, err := c04Commit(st, c04Tx{Ents: []c04Ent{ent("r1", "a1")}}, false); err != nil {
			return q, err
		}
		for _, d := range defs {
			st.CloseIndexing(d.Tgt)
		}
		for _, v := range []string{"b2", "c3"} {
			if _, err := c04Commit(st, c04Tx{Ents: []c04Ent{ent("r1", v)}}, false); err != nil {
				return q, err
			}
		}
		for _, d := range defs {
			if err := st.InitIndexing(d.spec()); err != nil {
				return q, err
			}
		}
		ctx, cancel := context.WithTimeout(context.Background(), 30*time.Second)
		err = st.WaitForIndexingUpto(ctx, 3)
		cancel()
		if err != nil {
			st.Close()
			return q, err
		}
		q.LookupAtBulkStart = live(st, "mbr1")
		st.Close()
	}
	// (2) r2 with an expiration, then updated: is the old mapped key tombstoned?  (3) Snapshot.History numbering
	{
		dir := hx.TempDir("c04q2")
		defer os.RemoveAll(dir)
		st, err := store.Open(dir, c04BaseCfg("sync", "rows+inj", 1).options())
		if err != nil {
			return q, err
		}
		defer st.Close()
		for _, d := range defs {
			if err := st.InitIndexing(d.spec()); err != nil {
				return q, err
			}
		}
		e := ent("r2", "a1")
		e.Exp = c04Now() + 1000000
		for _, tx := range []c04Tx{{Ents: []c04Ent{e}}, {Ents: []c04Ent{ent("r2", "b2")}}, {Ents: []c04Ent{ent("r2", "c3")}}} {
			if _, err := c04Commit(st, tx, false); err != nil {
				return q, err
			}
		}
		q.TombKeepsPrevMd = live(st, "mar2")
		snap, err := st.Snapshot([]byte("r"))
		if err != nil {
			return q, err
		}
		vs, _, err := snap.History([]byte("r2"), 1, false, 1)
		snap.Close()
		if err != nil || len(vs) != 1 {
			return q, fmt.Errorf("Snapshot.History: %v", err)
		}
		q.SnapHistCountsDown = vs[0].HC() != 2
	}
	r.Extra["quirks"] = q
	return q, nil
}

const c04SigKvsPanic = "C04:indexer.indexSince:panic-kvs-overflow-injective-tombstones"

// child process: MaxTxEntries=4, MaxBulkSize=1, rows + injective secondary index; tx 2 updates four rows.
func c04ChildKvsOverflow() {
	dir := hx.TempDir("c04kvs")
	defer os.RemoveAll(dir)
	cfg := c04BaseCfg("sync", "rows+inj", 1)
	cfg.MaxTxEntries = 4
	st, err := store.Open(dir, cfg.options())
	if err != nil {
		fmt.Println("CHILD-ERROR", err)
		os.Exit(0)
	}
	for _, d := range c04Layout("rows+inj") {
		if err := st.InitIndexing(d.spec()); err != nil {
			fmt.Println("CHILD-ERROR", err)
			os.Exit(0)
		}
	}
	for _, v := range []string{"a", "b"} {
		tx := c04Tx{Ents: []c04Ent{ent("r1", v), ent("r2", v), ent("r3", v), ent("r4", v)}}
		if _, err := c04Commit(st, tx, true); err != nil {
			fmt.Println("CHILD-ERROR", err)
			os.Exit(0)
		}
	}
	ctx, cancel := context.WithTimeout(context.Background(), 10*time.Second)
	defer cancel()
	err = st.WaitForIndexingUpto(ctx, 2)
	fmt.Println("NO-PANIC", err)
	st.Close()
	os.RemoveAll(dir)
	os.Exit(0)
}

func c04ProbeKvsOverflow(r *hx.Result) {
	cmd := exec.Command(os.Args[0], "C04")
	cmd.Env = append(os.Environ(), "C04_CHILD=kvs-overflow")
	done := make(chan struct{})
	var out []byte
	go func() { out, _ = cmd.CombinedOutput(); close(done) }()
	select {
	case <-done:
	case <-time.After(40 * time.Second):
		if cmd.Process != nil {
			cmd.Process.Kill()
		}
		<-done
	}
	r.OracleChecks++
	r.Eval("probe.kvs-overflow", true)
	r.NextCase()
	r.Corr("c04 new", "ok")
	r.Corr(c04Q.line(), "ok")
	for i, d := range c04Layout("rows+inj") {
		r.Corr(d.line(), fmt.Sprint(i))
	}
	for id, v := range []string{"a", "b"} {
		tx := c04Tx{ID: uint64(id + 1), Ents: []c04Ent{ent("r1", v), ent("r2", v), ent("r3", v), ent("r4", v)}}
		r.Corr(tx.line(), "ok 4")
	}
	so := string(out)
	if strings.Contains(so, "index out of range") && strings.Contains(so, "indexer.go") {
		r.Extra["kvs_overflow_panic_present"] = true
		c04KvsPanicPresent = true
		line := ""
		for _, l := range strings.Split(so, "\n") {
			if strings.Contains(l, "panic:") {
				line = l
			}
		}
		r.Fail(c04SigKvsPanic, fmt.Sprintf("MaxTxEntries=4, MaxBulkSize=1, plain index on r + injective secondary index: tx1 sets r1..r4, tx2 sets r1..r4 to another value => the indexer goroutine dies with %q (indexSince writes 4 new keys + 4 tombstones into idx._kvs of length MaxTxEntries*MaxBulkSize = 4); the process exits", line),
			c04Replay{Kind: "probe-kvs-overflow", Detail: "child process: C04_CHILD=kvs-overflow vh C04"})
		r.Corr("c04 index owned 1 4", "panic@1")
		return
	}
	r.Extra["kvs_overflow_panic_present"] = false
	if !strings.Contains(so, "NO-PANIC <nil>") {
		r.Fail("C04:harness:child", "kvs-overflow child: "+so, nil)
		return
	}
	// the model with the bounded buffer of the code: kvsLen(MaxTxEntries=4, MaxBulkSize=1) = 8 slots
	r.Corr("c04 index owned 1 8", "ok 2,2")
}

// set by c04ProbeKvsOverflow: the tree under test still has the short idx._kvs (the generator then keeps the
// transactions of injective layouts below MaxTxEntries/2 so that the harness process survives)
var c04KvsPanicPresent = false

func ent(k, v string) c04Ent { return c04Ent{Key: []byte(k), Val: []byte(v)} }

// deterministic scripted cases for the known defects (tie: the Lean model as-is predicts them exactly)
func c04ScriptedProbes(r *hx.Result, rng *hx.Rng, f1 bool) {
	// (1) F1 with keys of different lengths and several entries per tx, bulk 3, backlog (exact partition)
	cfg := c04BaseCfg("backlog", "default", 3)
	c04StoreCase(r, rng, 1, false, f1, &cfg, [][]c04Tx{{
		{Ents: []c04Ent{ent("alpha", "a1"), ent("b", "b1")}},
		{Ents: []c04Ent{ent("be", "a2")}},
		{Ents: []c04Ent{ent("gamma-long-key", "c3"), ent("dd", "d3"), ent("e", "e3")}},
		{Ents: []c04Ent{ent("alpha", "a4")}},
		{Ents: []c04Ent{ent("zz", "z5"), ent("b", "b5")}},
		{Ents: []c04Ent{ent("q", "q6")}},
		{Ents: []c04Ent{ent("alpha", "a7")}},
	}})
	// (2) injective mapping, a row updated in consecutive txs of one bulk
	cfg = c04BaseCfg("backlog", "rows+inj", 4)
	c04StoreCase(r, rng, 1, false, f1, &cfg, [][]c04Tx{
		{{Ents: []c04Ent{ent("rx", "z0")}}, {Ents: []c04Ent{ent("ry", "z0")}}, {Ents: []c04Ent{ent("rz", "z0")}}},
		{{Ents: []c04Ent{ent("r1", "a1")}}, {Ents: []c04Ent{ent("r1", "b2")}}, {Ents: []c04Ent{ent("r1", "c3")}}, {Ents: []c04Ent{ent("r1", "d4")}}},
	})
	// (3) injective mapping, previous version with an expiration, bulk size 1, synchronous commits
	cfg = c04BaseCfg("sync", "rows+inj", 1)
	e := ent("r2", "a1")
	e.Exp = c04Now() + 1000000
	c04StoreCase(r, rng, 0, false, f1, &cfg, [][]c04Tx{
		{{Ents: []c04Ent{e}}, {Ents: []c04Ent{ent("r2", "b2")}}, {Ents: []c04Ent{ent("r2", "c3")}}},
	})
}

// variant observed by c04DetectQuirks (all false = the repaired code, the only variant the Lean model has)
var c04Q = c04Quirks{}

func runC04(r *hx.Result, rng *hx.Rng, thorough bool, replay string) error {
	if os.Getenv("C04_CHILD") == "kvs-overflow" {
		c04ChildKvsOverflow()
	}
	r.Rule = "a case is non-trivial when the index content it checks holds more than one key; distinct by (mode, layout, bulk size, index)"
	r.Extra["case_seeds"] = map[string]interface{}{}
	f1, err := c04ProbeF1(r)
	if err != nil {
		return fmt.Errorf("F1 probe: %w", err)
	}
	q, err := c04DetectQuirks(r)
	if err != nil {
		return fmt.Errorf("quirk detection: %w", err)
	}
	c04Q = q
	c04ProbeKvsOverflow(r)
	if replay != "" {
		return c04Replay1(r, replay, thorough, f1)
	}
	if os.Getenv("VH_C04_STAGE") == "compact" { // development switch: the interleaved-compaction stage alone
		n := 15
		if thorough {
			n = 150
		}
		return c04CompactStage(r, rng.Fork(), thorough, f1, time.Now().Add(10*time.Minute), n)
	}
	c04ProbeOverrun(r)
	c04ScriptedProbes(r, rng.Fork(), f1)
	if err := r.Flush(); err != nil {
		return err
	}
	nStore, nDB := 36, 6
	if thorough {
		nStore, nDB = 400, 40
	}
	deadline := time.Now().Add(50 * time.Second)
	if thorough {
		deadline = time.Now().Add(10 * time.Minute)
	}
	srng := rng.Fork()
	for i := 0; i < nStore && time.Now().Before(deadline); i++ {
		c04StoreCase(r, srng, i, thorough, f1, nil, nil)
		if i%8 == 7 {
			if err := r.Flush(); err != nil {
				return err
			}
		}
	}
	if err := r.Flush(); err != nil {
		return err
	}
	drng := rng.Fork()
	// compaction interleaved with writers (c04compact.go); forked after drng so that the older stages keep their inputs
	nCompact, compactFor := 15, 25*time.Second
	if thorough {
		nCompact, compactFor = 80, 2*time.Minute
	}
	if err := c04CompactStage(r, rng.Fork(), thorough, f1, time.Now().Add(compactFor), nCompact); err != nil {
		return err
	}
	dbDeadline := time.Now().Add(20 * time.Second)
	if thorough {
		dbDeadline = time.Now().Add(3 * time.Minute)
	}
	for i := 0; i < nDB && (i < 2 || time.Now().Before(dbDeadline)); i++ {
		c04DBCase(r, drng, i, thorough, f1)
	}
	if err := r.Flush(); err != nil {
		return err
	}
	// distribution collapse => inconclusive
	for _, k := range []string{"store.case.sync", "store.case.backlog", "store.case.burst", "store.read.get.ok", "store.read.get.err:notfound",
		"store.read.get.err:expired", "store.read.history.ok", "store.read.scan", "db.read.get"} {
		if r.Distribution[k] == 0 {
			r.Inconclusive = append(r.Inconclusive, "generator never produced "+k)
		}
	}
	return nil
}

// ---------------------------------------------------------------- pkg/database stage

type c04DBCaseT struct {
	r     *hx.Result
	rng   *hx.Rng
	no    int
	seed  uint64
	cfg   c04Cfg
	db    database.DB
	ref   *c04Ref
	lines [][2]string
	n     uint64
	f1    bool
}

func (c *c04DBCaseT) emit(op, impl string) { c.lines = append(c.lines, [2]string{op, impl}) }
func (c *c04DBCaseT) fail(sig, desc string) {
	c.r.Fail(sig, desc, c04Replay{Kind: "db-case", Case: c.no, Seed: c.seed, Cfg: c.cfg, Detail: desc})
}

func wrapKey(k []byte) []byte { return append([]byte{database.SetKeyPrefix}, k...) }
func wrapVal(v []byte) []byte { return append([]byte{database.PlainValuePrefix}, v...) }

// canonical answer of an entry returned by pkg/database (same format as a store ValueRef)
func dbEntryRef(e *schema.Entry, blankValue bool) string {
	v := c04Ver{Tx: e.Tx, VLen: len(e.Value) + 1, HVal: sha256.Sum256(wrapVal(e.Value))}
	if e.Metadata != nil {
		v.Deleted = e.Metadata.Deleted
		v.NonIdx = e.Metadata.NonIndexable
		if e.Metadata.Expiration != nil {
			v.Exp = e.Metadata.Expiration.ExpiresAt
		}
	}
	if blankValue {
		return fmt.Sprintf("%d:%d:x:x:%s", v.Tx, e.Revision, v.md())
	}
	return v.ref(int(e.Revision))
}

func dbErr(err error) string {
	switch {
	case errors.Is(err, database.ErrInvalidRevision):
		return "err:invalidrevision"
	case errors.Is(err, database.ErrIllegalArguments):
		return "err:illegal"
	}
	return c04Err(err)
}

func c04DBCase(r *hx.Result, rng *hx.Rng, caseNo int, thorough bool, f1 bool) {
	seed := rng.U64()
	crng := hx.NewRng(seed)
	cfg := c04GenCfg(crng, 0) // sync mode: database.Set waits for the indexer
	cfg.Mode = "sync"
	cfg.MaxKeyLen = 64
	cfg.NodeSize = c04RequiredNodeSize(1024) + []int{0, 1, 500}[crng.Intn(3)] // sql engine needs the default key length
	cfg.Layout = "database"
	c := &c04DBCaseT{r: r, rng: crng, no: r.NextCase(), seed: seed, cfg: cfg, f1: f1}
	defs := []c04IdxDef{{Src: []byte{database.SetKeyPrefix}, Tgt: []byte{database.SetKeyPrefix}, SMap: "none", TMap: "none"}}
	c.ref = newC04Ref(defs)
	dir := hx.TempDir("c04db")
	defer os.RemoveAll(dir)
	r.Count("db.case")
	r.Count(fmt.Sprintf("db.cfg.bulk.%02d", cfg.Bulk))
	defer func() {
		if p := recover(); p != nil {
			c.fail("C04:panic:db-case", fmt.Sprintf("panic: %v", p))
		}
		if c.db != nil {
			c.db.Close()
		}
		for _, l := range c.lines {
			r.Corr(l[0], l[1])
		}
	}()
	sopts := cfg.options().WithMaxKeyLen(1024).WithMaxTxEntries(64)
	opts := database.DefaultOptions().WithDBRootPath(dir).WithStoreOptions(sopts)
	db, err := database.NewDB("c04db", nil, opts, quietLogger())
	if err != nil {
		c.fail("C04:harness:db-open", err.Error())
		return
	}
	c.db = db
	c.emit("c04 new", "ok")
	c.emit(c04Q.line(), "ok")
	c.emit(defs[0].line(), "0")
	ctx := context.Background()
	// NewDB itself commits transactions (sql catalog)? find the current tx count
	st0, err := db.CurrentState()
	if err != nil {
		c.fail("C04:harness:db-state", err.Error())
		return
	}
	c.n = st0.TxId
	// key universe
	var keys [][]byte
	for _, s := range []string{"a", "ab", "abc", "b", "b\x00", "k1", "k2", "k3", "zz", "prefix/long/shared/key/1", "prefix/long/shared/key/2", "prefix/long/shared/kez"} {
		keys = append(keys, []byte(s))
	}
	now0 := c04Now()
	nOps := 12 + crng.Intn(25)
	if thorough {
		nOps = 30 + crng.Intn(80)
	}
	for op := 0; op < nOps; op++ {
		if crng.Chance(15) {
			// Delete
			k := keys[crng.Intn(len(keys))]
			hdr, err := db.Delete(ctx, &schema.DeleteKeysRequest{Keys: [][]byte{k}})
			if err != nil {
				if errors.Is(err, store.ErrKeyNotFound) {
					c.r.Count("db.delete.notfound")
					// oracle: Delete refuses keys that are not live
					if g := c04Get(c.ref.idx[0], c04Now(), wrapKey(k)); g[:4] != "err:" {
						c.fail("C04:db.Delete:refused-live-key", fmt.Sprintf("Delete(%q): %v but the key is live: %s", k, err, g))
					}
					continue
				}
				c.fail("C04:harness:db-delete", err.Error())
				return
			}
			c.r.Count("db.delete.ok")
			tx := c04Tx{ID: hdr.Id, Ents: []c04Ent{{Key: wrapKey(k), Val: wrapVal(nil), Deleted: true}}}
			c.commitRef(tx)
			continue
		}
		nk := 1
		if crng.Chance(25) {
			nk = 2 + crng.Intn(5)
		}
		perm := c04Perm(crng, len(keys))
		req := &schema.SetRequest{}
		tx := c04Tx{}
		for _, i := range perm[:nk] {
			v := crng.Bytes(crng.Intn(20))
			kv := &schema.KeyValue{Key: keys[i], Value: v}
			e := c04Ent{Key: wrapKey(keys[i]), Val: wrapVal(v)}
			if crng.Chance(12) {
				e.Exp = now0 + 1000000
				if crng.Bool() {
					e.Exp = now0 - 1000000
				}
				kv.Metadata = &schema.KVMetadata{Expiration: &schema.Expiration{ExpiresAt: e.Exp}}
			} else if crng.Chance(6) {
				e.NonIdx = true
				kv.Metadata = &schema.KVMetadata{NonIndexable: true}
			}
			req.KVs = append(req.KVs, kv)
			tx.Ents = append(tx.Ents, e)
		}
		hdr, err := db.Set(ctx, req)
		if err != nil {
			c.fail("C04:harness:db-set", err.Error())
			return
		}
		tx.ID = hdr.Id
		c.commitRef(tx)
		c.r.Count("db.set")
		if crng.Chance(10) {
			if err := db.FlushIndex(&schema.FlushIndexRequest{CleanupPercentage: 50, Synced: crng.Bool()}); err != nil {
				c.fail("C04:maintenance:error", "db.FlushIndex: "+err.Error())
				return
			}
		}
	}
	if err := db.WaitForIndexingUpto(ctx, c.n); err != nil {
		c.fail(c04SigStuck, "db.WaitForIndexingUpto: "+err.Error())
		return
	}
	c.emit("c04 index "+map[bool]string{true: "aliased", false: "owned"}[f1]+" 1", fmt.Sprintf("ok %d", c.n))
	c.readAll(keys)
}

func (c *c04DBCaseT) commitRef(tx c04Tx) {
	// transactions committed by the database itself between ours (none expected) would break the id sequence
	if tx.ID != c.n+1 {
		// fill the gap with empty-for-us transactions
		for id := c.n + 1; id < tx.ID; id++ {
			filler := c04Tx{ID: id}
			c.ref.apply(filler)
			c.emit(fmt.Sprintf("c04 tx %d", id), "ok 0")
		}
	}
	c.n = tx.ID
	c.ref.apply(tx)
	c.emit(tx.line(), fmt.Sprintf("ok %d", len(tx.Ents)))
}

func (c *c04DBCaseT) readAll(keys [][]byte) {
	ctx := context.Background()
	db := c.db
	cont := c.ref.idx[0]
	now := c04Now()
	rng := c.rng
	allKeys := append([][]byte{}, keys...)
	allKeys = append(allKeys, []byte("absent"))
	for _, k := range allKeys {
		wk := wrapKey(k)
		// Get
		e, err := db.Get(ctx, &schema.KeyRequest{Key: k})
		got := ""
		if err != nil {
			got = dbErr(err)
		} else {
			got = dbEntryRef(e, false)
		}
		c.r.OracleChecks++
		if want := c04Get(cont, now, wk); got != want {
			c.fail(c04SigGet, fmt.Sprintf("db.Get(%q): got %q, the log says %q", k, got, want))
		}
		c.emit(fmt.Sprintf("c04 get 0 %d %s", now, hx.Hex(wk)), got)
		c.r.Count("db.read.get")
		// Get at revision
		vs := cont[string(wk)]
		for _, rev := range []int64{1, int64(len(vs)), int64(len(vs)) + 1, -1} {
			if rev == 0 {
				continue
			}
			e, err := db.Get(ctx, &schema.KeyRequest{Key: k, AtRevision: rev})
			c.r.OracleChecks++
			abs := rev
			if rev < 0 {
				abs = int64(len(vs)) + rev
			}
			if abs >= 1 && abs <= int64(len(vs)) {
				v := vs[abs-1]
				switch {
				case v.Deleted || v.expiredAt(now):
					if err == nil {
						c.fail("C04:db.Get:at-revision", fmt.Sprintf("db.Get(%q, AtRevision=%d) returned a deleted/expired revision", k, rev))
					}
				case err != nil:
					c.fail("C04:db.Get:at-revision", fmt.Sprintf("db.Get(%q, AtRevision=%d): %v, expected tx %d", k, rev, err, v.Tx))
				case e.Tx != v.Tx || int64(e.Revision) != abs || sha256.Sum256(wrapVal(e.Value)) != v.HVal:
					c.fail("C04:db.Get:at-revision", fmt.Sprintf("db.Get(%q, AtRevision=%d): tx %d rev %d, expected tx %d rev %d", k, rev, e.Tx, e.Revision, v.Tx, abs))
				}
			} else if err == nil && len(vs) > 0 {
				c.fail("C04:db.Get:at-revision", fmt.Sprintf("db.Get(%q, AtRevision=%d) succeeded with %d revisions", k, rev, len(vs)))
			}
			c.r.Count("db.read.get-at-revision")
		}
		// History
		for _, q := range []struct {
			off  uint64
			desc bool
			lim  int32
		}{{0, false, 0}, {0, true, 2}, {1, false, 2}, {uint64(len(vs)), false, 1}, {uint64(len(vs)) + 1, true, 1}, {uint64(rng.Intn(len(vs) + 1)), rng.Bool(), int32(1 + rng.Intn(3))}} {
			es, err := db.History(ctx, &schema.HistoryRequest{Key: k, Offset: q.off, Desc: q.desc, Limit: q.lim})
			lim := int(q.lim)
			if lim == 0 {
				lim = 1000
			}
			want := c04History(cont, wk, q.off, q.desc, lim)
			got := ""
			if err != nil {
				got = dbErr(err)
			} else {
				// db.History swallows ErrOffsetOutOfRange (empty list) and gives no hCount
				if len(es.Entries) == 0 {
					got = "err:offset"
				} else {
					var xs []string
					for _, e := range es.Entries {
						xs = append(xs, dbEntryRef(e, e.Expired))
					}
					got = c04List(xs)
				}
			}
			// blank the values of expired entries in the expectation
			want = blankExpired(want, cont[string(wk)], now)
			if sp := strings.SplitN(want, " ", 2); len(sp) == 2 && !strings.HasPrefix(want, "err:") {
				want = sp[1]
			}
			c.r.OracleChecks++
			if got != want {
				c.fail(c04SigHist, fmt.Sprintf("db.History(%q,off=%d,desc=%v,limit=%d): got %q, the log says %q", k, q.off, q.desc, q.lim, got, want))
			}
			c.emit(fmt.Sprintf("c04 dbhist 0 %d %s %d %s %d", now, hx.Hex(wk), q.off, b01(q.desc), lim), got)
			c.r.Count("db.read.history")
		}
	}
	// GetAll
	{
		perm := c04Perm(rng, len(allKeys))
		var ks [][]byte
		for _, i := range perm[:1+rng.Intn(len(allKeys))] {
			ks = append(ks, allKeys[i])
		}
		es, err := db.GetAll(ctx, &schema.KeyListRequest{Keys: ks})
		got := ""
		if err != nil {
			got = dbErr(err)
		} else {
			var xs []string
			for _, e := range es.Entries {
				xs = append(xs, hx.Hex(wrapKey(e.Key))+"="+dbEntryRef(e, false))
			}
			got = c04List(xs)
		}
		var ws, hk []string
		for _, k := range ks {
			hk = append(hk, hx.Hex(wrapKey(k)))
			if g := c04Get(cont, now, wrapKey(k)); g[:4] != "err:" {
				ws = append(ws, hx.Hex(wrapKey(k))+"="+g)
			}
		}
		c.r.OracleChecks++
		if got != c04List(ws) {
			c.fail(c04SigGet, fmt.Sprintf("db.GetAll: got %q, the log says %q", got, c04List(ws)))
		}
		c.emit(fmt.Sprintf("c04 getall 0 %d %s", now, strings.Join(hk, ",")), got)
		c.r.Count("db.read.getall")
	}
	// Scan
	for s := 0; s < 10; s++ {
		req := &schema.ScanRequest{Desc: rng.Bool(), InclusiveSeek: rng.Bool(), InclusiveEnd: rng.Bool()}
		if s > 0 {
			if rng.Bool() {
				req.SeekKey = allKeys[rng.Intn(len(allKeys))]
			}
			if rng.Bool() {
				req.EndKey = allKeys[rng.Intn(len(allKeys))]
			}
			if rng.Chance(40) {
				k := allKeys[rng.Intn(len(allKeys))]
				req.Prefix = k[:1+rng.Intn(len(k))]
			}
			if rng.Chance(30) {
				req.Limit = uint64(1 + rng.Intn(4))
			}
			if rng.Chance(30) {
				req.Offset = uint64(rng.Intn(4))
			}
		}
		es, err := db.Scan(ctx, req)
		got := ""
		if err != nil {
			got = dbErr(err)
		} else {
			var xs []string
			for _, e := range es.Entries {
				xs = append(xs, hx.Hex(wrapKey(e.Key))+"="+dbEntryRef(e, false))
			}
			got = c04List(xs)
		}
		rg := c04Range{Pfx: wrapKey(req.Prefix), Desc: req.Desc, InclSeek: req.InclusiveSeek, InclEnd: req.InclusiveEnd, Filters: "ed", Offset: req.Offset}
		if len(req.SeekKey) > 0 {
			rg.Seek = wrapKey(req.SeekKey)
		}
		if len(req.EndKey) > 0 {
			rg.End = wrapKey(req.EndKey)
		}
		want := c04Scan(cont, now, rg)
		if req.Limit > 0 && want != "_" {
			xs := strings.Split(want, ",")
			if uint64(len(xs)) > req.Limit {
				xs = xs[:req.Limit]
			}
			want = strings.Join(xs, ",")
		}
		c.r.OracleChecks++
		if got != want {
			c.fail(c04SigScan, fmt.Sprintf("db.Scan(%+v): got %q, the log says %q", req, got, want))
		}
		c.emit(fmt.Sprintf("%s %d", rg.line(0, now), req.Limit), got)
		c.r.Count("db.read.scan")
	}
	// Count
	for _, p := range [][]byte{nil, []byte("a"), []byte("prefix/"), []byte("k"), []byte("nothing")} {
		cnt, err := db.Count(ctx, &schema.KeyPrefix{Prefix: p})
		if err != nil {
			c.fail("C04:db.Count:error", err.Error())
			continue
		}
		rgAll := c04Range{Pfx: wrapKey(p)}
		rgLive := c04Range{Pfx: wrapKey(p), Filters: "ed"}
		nAll := countList(c04Scan(cont, now, rgAll))
		nLive := countList(c04Scan(cont, now, rgLive))
		c.r.OracleChecks++
		switch {
		case int(cnt.Count) == nLive:
		case int(cnt.Count) == nAll:
			c.r.Fail(c04SigDbCount, fmt.Sprintf("db.Count(prefix %q) = %d counts deleted/expired keys; Scan returns %d live keys", p, cnt.Count, nLive),
				c04Replay{Kind: "db-case", Case: c.no, Seed: c.seed, Detail: "Set(k); Delete(k); Count(prefix of k) still counts k"})
		default:
			c.fail("C04:db.Count:wrong", fmt.Sprintf("db.Count(%q) = %d, keys with the prefix: %d (live %d)", p, cnt.Count, nAll, nLive))
		}
		fs := "-"
		if int(cnt.Count) != nAll {
			fs = "ed"
		}
		c.emit(fmt.Sprintf("c04 count 0 %d %s %s", now, hx.Hex(wrapKey(p)), fs), fmt.Sprint(cnt.Count))
		c.r.Count("db.read.count")
	}
	c.r.Eval(fmt.Sprintf("db/b%d", c.cfg.Bulk), len(cont) > 1)
}

func countList(s string) int {
	if s == "_" {
		return 0
	}
	return len(strings.Split(s, ","))
}

// replaces vlen:hval by x:x for the entries of a history answer that are expired at now (db.History cannot resolve them)
func blankExpired(want string, vs []c04Ver, now int64) string {
	if len(want) >= 4 && want[:4] == "err:" {
		return want
	}
	sp := strings.SplitN(want, " ", 2)
	if len(sp) != 2 || sp[1] == "_" {
		return want
	}
	items := strings.Split(sp[1], ",")
	for i, it := range items {
		f := strings.Split(it, ":")
		// tx:rev:vlen:hval:flags:exp
		if len(f) == 6 && f[5] != "-" {
			var exp int64
			fmt.Sscan(f[5], &exp)
			if exp <= now {
				f[2], f[3] = "x", "x"
				items[i] = strings.Join(f, ":")
			}
		}
	}
	sort.SliceStable(items, func(i, j int) bool { return false })
	return sp[0] + " " + strings.Join(items, ",")
}

// replay of one store case: the replay file (written by ./check on a VIOLATION, or by hand) carries the case seed
// and the case number (which fixes the commit mode); the configuration is re-derived from the seed.
func c04Replay1(r *hx.Result, path string, thorough bool, f1 bool) error {
	b, err := os.ReadFile(path)
	if err != nil {
		return err
	}
	var f struct {
		Replay struct {
			Kind string `json:"kind"`
			Seed uint64 `json:"case_seed"`
			CaseNo int  `json:"caseNo"`
			Cfg  *c04Cfg `json:"cfg"`
		} `json:"replay"`
		Seed   string `json:"seed_str"`
		CaseNo int    `json:"caseNo"`
	}
	if err := json.Unmarshal(b, &f); err != nil {
		return err
	}
	seed := f.Replay.Seed
	if f.Seed != "" {
		fmt.Sscan(f.Seed, &seed)
	}
	if f.Replay.Kind == "db-case" {
		c04DBCase(r, hx.NewRng(0), 0, thorough, f1) // db cases are re-derived from the run seed; replay the stage
		return r.Flush()
	}
	if strings.HasPrefix(f.Replay.Kind, "compact-probe") {
		c04CompactProbes(r)
		return r.Flush()
	}
	if f.Replay.Kind == "compact-case" {
		c04CompactCaseSeed(r, seed, f.Replay.CaseNo, thorough, f1)
		return r.Flush()
	}
	caseNo := f.CaseNo
	if f.Replay.Cfg != nil {
		caseNo = map[string]int{"sync": 0, "backlog": 1, "burst": 2}[f.Replay.Cfg.Mode]
	}
	c04StoreCaseSeed(r, seed, caseNo, thorough, f1, nil, nil)
	return r.Flush()
}
