package main

// C07 — acknowledgements only cover durable state.
//
// What a replica tells its primary in synchronous replication is `PrecommittedAlh()` (pkg/database CurrentState ->
// ReplicaState of the next ExportTxRequest; mayUpdateReplicaState / AllowCommitUpto on the primary count it as an
// ack); locally `ReplicateTx` returns and `WaitForTx(id, allowPrecommitted)` passes only once the same watermark
// (`durablePrecommitWHub`) has reached the tx. This file checks, at EVERY point of a history, that none of these
// acknowledgements runs ahead of the disk.
//
// Histories: a family of FORKED primaries (trunk, a fork of the trunk at tx k, a fork of that fork …: what promoted
// replicas write after primary changes). One Synced replica with external commit allowance on the crash-simulating file
// system (internal/crashfs); the syncer never runs on its own (SyncFrequency 4 h), so the only fsyncs are those the
// schedule asks for. Steps: ReplicateTx of the next tx of the current primary (left pending on its own goroutine: the
// call returns only after a sync), Sync, AllowCommitUpto, DiscardPrecommittedTxsSince + switch to another primary of
// the family (also back and forth, also the same one again), Close/Open, crash (power loss: only fsynced bytes survive)
// and reopen. After every step:
//
//	ORACLE (model independent; ground truth = the crash image of crashfs + the real store.Open on it)
//	  acks  := { PrecommittedAlh() } ∪ { (id, Alh) of every ReplicateTx call that returned nil and was not discarded since }
//	           ∪ { (id, held Alh) for which WaitForTx(id, allowPrecommitted) passes }
//	  every ack: committed ≤ id ≤ in-memory precommitted, Alh = the Alh of the tx the harness delivered under that id;
//	  the tx record (it ends with its Alh) lies in the FSYNCED part of the tx log;
//	  a store opened on the power-loss image holds the tx under that id with that Alh and exports the delivered bytes;
//	  the reported committed state is in the image too.
//
// Model tie (replicas with default buffer/file sizes, where an fsync happens only inside sync()): the same steps on
// Store/Replica.lean + Store/ReplicaDisk.lean (`c07 rep|sync|allow|discard|restart|crash|state|wait`): the watermark
// value, its Alh and the outcome of the watermark wait after every step, the state after a crash.

import (
	"bytes"
	"context"
	"crypto/sha256"
	"errors"
	"fmt"
	"os"
	"path/filepath"
	"sort"
	"strings"
	"time"

	"github.com/codenotary/immudb/embedded/store"

	"verif/harness/internal/crashfs"
	"verif/harness/internal/hx"
)

// ------------------------------------------------------------------ forked primaries

type c07Fam struct {
	lines  []*c07Prim
	parent []int    // -1 for the trunk
	fork   []uint64 // lines[i] shares txs 1..fork[i] with lines[parent[i]]
}

func (f *c07Fam) close() {
	for _, p := range f.lines {
		if p != nil {
			p.close()
		}
	}
}

func (f *c07Fam) describe() []string {
	var o []string
	for i, p := range f.lines {
		if f.parent[i] < 0 {
			o = append(o, fmt.Sprintf("L%d: %d txs (%s)", i, p.n, p.label))
		} else {
			o = append(o, fmt.Sprintf("L%d: fork of L%d after tx %d, %d txs", i, f.parent[i], f.fork[i], p.n))
		}
	}
	return o
}

func c07BuildFamily(r *hx.Result, rng *hx.Rng, nLines int, embedded bool) (*c07Fam, error) {
	fam := &c07Fam{}
	n0 := 8 + rng.Intn(4)
	trunk, err := c07BuildLineage(r, rng.Fork(), c07PrimSpec{n: n0, ver: 1, embedded: embedded, small: true}, nil, 0)
	if trunk != nil {
		fam.lines, fam.parent, fam.fork = append(fam.lines, trunk), append(fam.parent, -1), append(fam.fork, 0)
	}
	if err != nil {
		return fam, err
	}
	for len(fam.lines) < nLines {
		pi := rng.Intn(len(fam.lines))
		base := fam.lines[pi]
		if base.n < 4 {
			pi, base = 0, fam.lines[0]
		}
		fork := uint64(2 + rng.Intn(int(base.n)-3)) // 2 ≤ fork ≤ n-2: something in common, something to diverge on
		n := int(fork) + 3 + rng.Intn(5)
		p, err := c07BuildLineage(r, rng.Fork(), c07PrimSpec{n: n, ver: 1, embedded: embedded, small: true, clock0: base.clock + int64(1000*len(fam.lines))}, base, fork)
		if p != nil {
			fam.lines, fam.parent, fam.fork = append(fam.lines, p), append(fam.parent, pi), append(fam.fork, fork)
		}
		if err != nil {
			return fam, err
		}
		// the fork must really diverge right after the fork point and agree before it
		if p.alhs[fork] != base.alhs[fork] || (uint64(len(base.alhs)) > fork+1 && p.alhs[fork+1] == base.alhs[fork+1]) {
			return fam, fmt.Errorf("forked history L%d does not fork after tx %d", len(fam.lines)-1, fork)
		}
		r.Count("acks.family.fork")
	}
	return fam, nil
}

// ------------------------------------------------------------------ the replica on crashfs

type c07AckCfg struct {
	maxActive int
	embedded  bool
	fileSize  int // 0 = default
	writeBuf  int // 0 = default
	tie       bool // default sizes: an fsync happens only inside sync(), the Lean model can follow
}

func (c c07AckCfg) String() string {
	return fmt.Sprintf("Synced=true externalCommitAllowance=true SyncFrequency=4h MaxActiveTransactions=%d embeddedValues=%v fileSize=%d writeBufferSize=%d", c.maxActive, c.embedded, c.fileSize, c.writeBuf)
}

type c07Held struct {
	alh  [32]byte
	line int // lineage whose export was delivered under this id (-1: unknown, re-loaded at open)
}

type c07Pend struct {
	id       uint64
	alh      [32]byte
	line     int
	done     chan struct{}
	cancel   context.CancelFunc
	hdr      *store.TxHeader
	err      error
	panicked bool
	seen     bool // its return has been evaluated
	voided   bool // discarded (or the store was closed / crashed) after the call was made
}

type c07AckRep struct {
	r    *hx.Result
	rng  *hx.Rng
	fam  *c07Fam
	cfg  c07AckCfg
	name string
	dir  string
	fs   *crashfs.FS
	st   *c07Store
	cur  int
	held []c07Held // held[id], index 0 unused
	pend []*c07Pend
	acks map[uint64][32]byte // ReplicateTx calls that returned nil: id -> Alh of the returned header
	// Alhs of transactions that were discarded (they stay in the tx log and are re-loaded by the next Open)
	discarded map[[32]byte]bool
	allowed   uint64
	// ids ≤ reloaded were precommitted txs found in the tx log by the last Open; noSyncSinceOpen: no Sync() since then
	reloaded          uint64
	noSyncSinceOpen   bool
	reloadedDiscarded bool // the last Open re-loaded a transaction that had been discarded
	opens             int  // reopen count (close+open, crash+open)
	ops             []string // the schedule so far (replay)
	checked         map[string]bool
	dirs            []string
	stopped         bool
}

func (a *c07AckRep) opts(fs *crashfs.FS) *store.Options {
	p := a.fam.lines[0]
	idx := store.DefaultIndexOptions().WithFlushThld(16).WithSyncThld(64).WithCacheSize(1 << 12).
		WithFlushBufferSize(256).WithMaxBufferedDataSize(1 << 16).WithMaxGlobalBufferedDataSize(1 << 20).
		WithBulkPreparationTimeout(100 * time.Microsecond)
	o := store.DefaultOptions().WithSynced(true).WithSyncFrequency(4 * time.Hour).WithExternalCommitAllowance(true).
		WithMaxActiveTransactions(a.cfg.maxActive).WithMaxConcurrency(6).WithMaxWaitees(256).WithLogger(quietLogger()).
		WithMaxKeyLen(p.maxKey).WithMaxValueLen(p.maxVal).WithMaxTxEntries(p.maxEnt).WithEmbeddedValues(a.cfg.embedded).
		WithTxLogCacheSize(8).WithIndexOptions(idx).
		WithAppFactory(fs.Factory()).WithAppRemoveFunc(fs.Remove())
	if a.cfg.fileSize > 0 {
		o = o.WithFileSize(a.cfg.fileSize)
	}
	if a.cfg.writeBuf > 0 {
		o = o.WithWriteBufferSize(a.cfg.writeBuf)
	}
	return o
}

var c07AckOpenTime, c07AckImgTime time.Duration

func (a *c07AckRep) openOn(img *crashfs.Image, tag string) (*c07Store, *crashfs.FS, error) {
	t0 := time.Now()
	defer func() { c07AckOpenTime += time.Since(t0) }()
	dir := hx.TempDir(tag)
	a.dirs = append(a.dirs, dir)
	db := filepath.Join(dir, "db")
	if err := os.MkdirAll(db, 0o755); err != nil {
		return nil, nil, err
	}
	fs, err := crashfs.New(db, img, true)
	if err != nil {
		return nil, nil, err
	}
	fs.PollSide = tag != "c07o" // (the oracle's throw-away stores are only read)
	st, err := c07OpenStore(a.r, db, a.opts(fs))
	return st, fs, err
}

func (a *c07AckRep) op(format string, args ...interface{}) {
	s := fmt.Sprintf(format, args...)
	a.ops = append(a.ops, s)
	c07T("acks: %s", s)
}

func (a *c07AckRep) replay(extra map[string]interface{}) map[string]interface{} {
	m := map[string]interface{}{"replica": a.cfg.String(), "primaries": a.fam.describe(), "schedule": append([]string(nil), a.ops...),
		"how": "every step is a call on the replica store; 'rep k (Li)' = ReplicateTx(ExportTx(k) of primary Li) on its own goroutine, the others are the store calls of the same name; the failing observation follows the last step"}
	for k, v := range extra {
		m[k] = v
	}
	return m
}

func (a *c07AckRep) fail(sig, desc string, extra map[string]interface{}) {
	a.r.Fail(sig, desc, a.replay(extra))
}

func (a *c07AckRep) corr(op, ans string) {
	if a.cfg.tie {
		a.r.Corr(op, ans)
	}
}

func (a *c07AckRep) inmem() uint64 { return uint64(len(a.held) - 1) }

// abandon: the pending calls belong to a store that is being closed / has crashed
func (a *c07AckRep) abandon() {
	for _, pd := range a.pend {
		pd.voided = true
		pd.cancel()
	}
	a.pend = nil
	a.acks = map[uint64][32]byte{}
}

func (a *c07AckRep) close() {
	a.stopped = true
	for _, pd := range a.pend {
		pd.cancel()
	}
	if a.st != nil {
		a.st.Close()
	}
	for _, d := range a.dirs {
		os.RemoveAll(d)
	}
}

// poll evaluates the ReplicateTx calls that have returned.
func (a *c07AckRep) poll() {
	for _, pd := range a.pend {
		if pd.seen {
			continue
		}
		select {
		case <-pd.done:
		default:
			continue
		}
		pd.seen = true
		switch {
		case pd.panicked:
			a.fail("C07:ReplicateTx:panic-on-malformed-export", fmt.Sprintf("ReplicateTx of the genuine export of tx %d panicked", pd.id), nil)
		case pd.err == nil && pd.voided:
			// the call was still waiting for durability when its tx was discarded; it was woken when ANOTHER tx with the same
			// id became durable and answers nil with the header of the discarded tx
			a.r.Count("acks.returned-ok-for-discarded-tx")
			ha := pd.hdr.Alh()
			a.fail("C07:ReplicateTx:returns-ok-for-discarded-tx", fmt.Sprintf("ReplicateTx(tx %d of L%d, Alh %x…) was waiting for the sync when DiscardPrecommittedTxsSince removed its tx; after a DIFFERENT tx %d was replicated and synced the call returned nil with the header of the discarded tx (Alh %x…): success and a header for a transaction the store does not hold", pd.id, pd.line, pd.alh[:6], pd.id, ha[:6]), nil)
		case pd.err == nil:
			ha := pd.hdr.Alh()
			a.r.OracleChecks++
			if pd.hdr.ID != pd.id || ha != pd.alh {
				a.fail("C07:replica:history-differs", fmt.Sprintf("ReplicateTx of tx %d of L%d returned header id=%d Alh=%x…, the primary's Alh is %x…", pd.id, pd.line, pd.hdr.ID, ha[:6], pd.alh[:6]), nil)
			}
			a.acks[pd.id] = ha
			a.r.Count("acks.replicate-returned")
		case pd.voided && (errors.Is(pd.err, store.ErrAlreadyClosed) || errors.Is(pd.err, context.Canceled) || errors.Is(pd.err, context.DeadlineExceeded)):
			a.r.Count("acks.pending-call-ended-with-its-store")
		case pd.voided:
			a.r.Count("acks.pending-call-of-discarded-tx." + c07Class(pd.err))
		default:
			c07GenuineRejected(a.r, c07Class(pd.err), fmt.Sprintf("acks: ReplicateTx of the next genuine tx %d of L%d answered %v", pd.id, pd.line, pd.err), a.replay(nil))
			a.stopped = true
		}
	}
}

// rep: ReplicateTx of the next tx of the current primary, on its own goroutine (it returns after a sync only).
func (a *c07AckRep) rep() {
	L := a.fam.lines[a.cur]
	id := a.inmem() + 1
	b := L.exp[id]
	a.op("rep %d (L%d)", id, a.cur)
	ctx, cancel := context.WithTimeout(context.Background(), 40*c07Bound())
	pd := &c07Pend{id: id, alh: L.alhs[id], line: a.cur, done: make(chan struct{}), cancel: cancel}
	raw := a.st.raw
	go func() {
		defer close(pd.done)
		defer func() {
			if recover() != nil {
				pd.panicked = true
			}
		}()
		pd.hdr, pd.err, _ = c07Retry(func() (*store.TxHeader, error) { return raw.ReplicateTx(ctx, b, false, false) })
	}()
	a.pend = append(a.pend, pd)
	deadline := time.Now().Add(c07Bound())
	returned := false
	for a.st.LastPrecommittedTxID() < id && !returned {
		select {
		case <-pd.done:
			returned = true
		default:
			if time.Now().After(deadline) {
				c07ReportHang(a.r, "ReplicateTx", fmt.Sprintf(" (acks: tx %d of L%d was neither precommitted nor answered)", id, a.cur))
				panic(c07Hang{"ReplicateTx"})
			}
			time.Sleep(100 * time.Microsecond)
		}
	}
	if a.st.LastPrecommittedTxID() < id {
		// answered without a precommit: an error
		if a.opens > 0 && pd.err != nil && strings.Contains(pd.err.Error(), "invalid blRoot") && a.blRootMatchesHeldChain(L.hdrs[id]) {
			// the header's binary-linking root IS the Merkle root over the Alhs of the chain the store holds (computed here
			// with the reference MTH), yet the store's own hash tree (aht) gives another root: since a reopen the tree on disk
			// holds leaves of transactions that were discarded / replaced (Open only compares aht.Size() with the tx count)
			pd.seen = true
			a.fail("C07:replica:stale-aht-after-reopen", fmt.Sprintf("acks: the genuine successor tx %d of L%d is refused: %v — its BlRoot (BlTxID %d) equals the reference Merkle root over the Alhs of the %d transactions the store holds, so the store's accumulative hash tree does not belong to the store's own chain (stale leaves of discarded/replaced transactions after a reopen; last Open re-loaded discarded txs: %v)", id, a.cur, pd.err, L.hdrs[id].BlTxID, a.inmem(), a.reloadedDiscarded), nil)
			a.stopped = true
			return
		}
		a.corr(fmt.Sprintf("c07 rep %s %s 0", a.name, hx.Hex(b)), c07Class(pd.err))
		a.poll()
		if !a.stopped {
			a.fail("C07:replica:genuine-export-rejected", fmt.Sprintf("acks: ReplicateTx(tx %d of L%d) returned (%v) without precommitting", id, a.cur, pd.err), nil)
			a.stopped = true
		}
		return
	}
	h, err := a.st.ReadTxHeader(id, true, false)
	a.r.OracleChecks++
	if err != nil {
		a.fail("C07:replica:history-differs", fmt.Sprintf("acks: tx %d is precommitted in memory but ReadTxHeader(allowPrecommitted) answers %v", id, err), nil)
		a.stopped = true
		return
	}
	ha := h.Alh()
	a.corr(fmt.Sprintf("c07 rep %s %s 0", a.name, hx.Hex(b)), fmt.Sprintf("ok %d %s", h.ID, hx.Hex(ha[:])))
	if ha != L.alhs[id] {
		if L.hdrs[id].BlTxID == 0 && h.BlTxID == 0 && h.BlRoot != ([32]byte{}) {
			// repaired (the signature stays armed): performPrecommit left the BlRoot of the pooled Tx in a header with BlTxID = 0
			// (tx 1 replicated again into a store that came back empty from a reopen: the pool's first Tx has read a record at Open)
			a.r.Count("acks.stale-blroot-on-tx1-after-reopen")
			a.fail("C07:ReplicateTx:stale-blroot-stored-when-bltxid-zero", fmt.Sprintf("acks: tx %d (BlTxID=0, zero BlRoot in the export of L%d) is stored with BlRoot=%x… (left over in the pooled Tx; reopens so far: %d): Alh %x… instead of the primary's %x…", id, a.cur, h.BlRoot[:8], a.opens, ha[:6], L.alhs[id][:6]), nil)
		} else {
			a.fail("C07:replica:history-differs", fmt.Sprintf("acks: tx %d precommitted from the export of L%d has Alh %x…, the primary's is %x…", id, a.cur, ha[:6], L.alhs[id][:6]), nil)
		}
		a.stopped = true // what the store holds is no longer a prefix of any primary: nothing to go on with
		return
	}
	a.held = append(a.held, c07Held{alh: ha, line: a.cur})
	a.r.Count("acks.step.rep")
	// a call that (wrongly) does not wait gets the chance to come back before the check
	time.Sleep(400 * time.Microsecond)
}

// blRootMatchesHeldChain: is h.BlRoot the reference Merkle root over the first h.BlTxID accumulated hashes the store holds?
func (a *c07AckRep) blRootMatchesHeldChain(h *store.TxHeader) bool {
	if h == nil || h.BlTxID == 0 || h.BlTxID > a.inmem() {
		return false
	}
	leaves := make([][32]byte, h.BlTxID)
	for i := range leaves {
		leaves[i] = refLeaf(a.held[i+1].alh[:])
	}
	return refMth(leaves) == h.BlRoot
}

func (a *c07AckRep) sync() {
	a.op("sync")
	err := a.st.Sync()
	a.corr("c07 sync "+a.name, c07Class(err))
	if err != nil {
		a.r.Count("acks.sync." + c07Class(err))
	} else {
		a.noSyncSinceOpen = false
	}
	a.r.Count("acks.step.sync")
	// every call whose tx the watermark has reached comes back
	did, _ := a.st.PrecommittedAlh()
	for _, pd := range a.pend {
		if pd.seen || pd.id > did {
			continue
		}
		select {
		case <-pd.done:
		case <-time.After(c07Bound()):
			c07T("ReplicateTx(tx=%d of L%d) [pending since its 'rep' step]", pd.id, pd.line)
			c07ReportHang(a.r, "ReplicateTx", fmt.Sprintf(" (acks: the call for tx %d is still waiting although Sync() returned and PrecommittedAlh() reports %d)", pd.id, did))
			panic(c07Hang{"ReplicateTx"})
		}
	}
}

func (a *c07AckRep) allow(k uint64) {
	a.op("allow %d", k)
	err := a.st.AllowCommitUpto(k)
	a.corr(fmt.Sprintf("c07 allow %s %d", a.name, k), c07Class(err))
	if err == nil {
		if k > a.inmem() {
			k = a.inmem()
		}
		if k > a.allowed {
			a.allowed = k
		}
	}
	a.r.Count("acks.step.allow")
}

// common: how many leading transactions the replica holds that primary t has too
func (a *c07AckRep) common(t int) uint64 {
	L := a.fam.lines[t]
	c := uint64(0)
	for id := uint64(1); id <= a.inmem() && id <= L.n; id++ {
		if a.held[id].alh != L.alhs[id] {
			break
		}
		c = id
	}
	return c
}

// discardTo: DiscardPrecommittedTxsSince(id) and follow primary t from now on
func (a *c07AckRep) discardTo(id uint64, t int) {
	pre := a.inmem()
	a.op("discard %d (follow L%d)", id, t)
	n, err := a.st.DiscardPrecommittedTxsSince(id)
	ans := c07Class(err)
	if err == nil {
		ans = fmt.Sprintf("ok %d", n)
	}
	a.corr(fmt.Sprintf("c07 discard %s %d", a.name, id), ans)
	a.r.OracleChecks++
	want := 0
	if id <= pre {
		want = int(pre + 1 - id)
	}
	if err != nil || n != want {
		a.fail("C07:DiscardPrecommittedTxsSince:wrong-answer", fmt.Sprintf("DiscardPrecommittedTxsSince(%d) with %d precommitted in memory answered (%d, %v), expected (%d, nil)", id, pre, n, err, want), nil)
		a.stopped = true
		return
	}
	if id <= pre {
		for k := id; k <= pre; k++ {
			a.discarded[a.held[k].alh] = true
			delete(a.acks, k)
		}
		for _, pd := range a.pend {
			if pd.id >= id {
				pd.voided = true
			}
		}
		a.held = a.held[:id]
		a.r.Count("acks.step.discard")
	} else {
		a.r.Count("acks.step.discard-nothing")
	}
	if now := a.st.LastPrecommittedTxID(); now != a.inmem() {
		a.fail("C07:DiscardPrecommittedTxsSince:wrong-answer", fmt.Sprintf("after DiscardPrecommittedTxsSince(%d) the store has %d precommitted, expected %d", id, now, a.inmem()), nil)
		a.stopped = true
	}
	a.cur = t
}

// lower bound of a discard: committed txs cannot be discarded and allowed ones are not (discarding them leaves a stale
// allowance behind: known finding C07:sync:allowance-survives-discard, exercised by its own probe)
func (a *c07AckRep) floor() uint64 {
	cid, _ := a.st.CommittedAlh()
	if a.allowed > cid {
		return a.allowed
	}
	return cid
}

// switchPrimary: the primary changed; what the replica holds beyond the common part is discarded (what the replicator does
// when ExportTxByID answers "replica precommit state diverged")
func (a *c07AckRep) switchPrimary() bool {
	fl := a.floor()
	var cands []int
	for t := range a.fam.lines {
		if a.common(t) >= fl && a.common(t) >= 1 {
			cands = append(cands, t)
		}
	}
	if len(cands) == 0 {
		return false
	}
	t := cands[a.rng.Intn(len(cands))]
	id := a.common(t) + 1
	if a.rng.Chance(30) && id-1 > fl {
		// more than necessary
		id = fl + 1 + uint64(a.rng.Intn(int(id-1-fl)+1))
	}
	// (id may be 1: since the repair of performPrecommit a tx 1 replicated again, BlTxID = 0, gets the zero BlRoot)
	if id > a.inmem() && a.rng.Chance(50) {
		a.op("follow L%d (nothing to discard)", t)
		a.cur = t
		return true
	}
	a.discardTo(id, t)
	return true
}

// afterOpen: the store was (re)opened: what does it hold?
func (a *c07AckRep) afterOpen() {
	pre := a.st.LastPrecommittedTxID()
	old := a.held
	a.held = []c07Held{{}}
	for id := uint64(1); id <= pre; id++ {
		h, err := a.st.ReadTxHeader(id, true, false)
		if err != nil {
			a.fail("C07:replica:history-differs", fmt.Sprintf("acks: after open the store reports %d precommitted but ReadTxHeader(%d) answers %v", pre, id, err), nil)
			a.stopped = true
			return
		}
		ha := h.Alh()
		line := -1
		if id < uint64(len(old)) && old[id].alh == ha {
			line = old[id].line
		} else {
			for t, L := range a.fam.lines {
				if id <= L.n && L.alhs[id] == ha {
					line = t
					break
				}
			}
		}
		if line < 0 {
			a.fail("C07:replica:history-differs", fmt.Sprintf("acks: after open tx %d has Alh %x…, which no primary of the family ever exported", id, ha[:6]), nil)
			a.stopped = true
			return
		}
		a.held = append(a.held, c07Held{alh: ha, line: line})
	}
	cid, _ := a.st.CommittedAlh()
	a.allowed = cid
	a.reloaded = pre
	a.noSyncSinceOpen = true
	a.opens++
	a.reloadedDiscarded = false
	for id := cid + 1; id <= pre; id++ {
		if a.discarded[a.held[id].alh] {
			a.reloadedDiscarded = true
			a.r.Count("acks.open.discarded-tx-reloaded")
		}
	}
	// what is there may be a mix (re-loaded discarded txs): follow a primary that has all of it, or discard down to one
	if a.common(a.cur) < a.inmem() {
		for t := range a.fam.lines {
			if a.common(t) == a.inmem() {
				a.op("follow L%d (it has everything the store re-loaded)", t)
				a.cur = t
				return
			}
		}
		id := a.common(a.cur) + 1
		if id <= cid {
			// committed txs of another primary: cannot happen unless commits were lost or invented
			a.fail("C07:replica:history-differs", fmt.Sprintf("acks: after open the committed txs (%d) are not those of the followed primary L%d (common part %d)", cid, a.cur, id-1), nil)
			a.stopped = true
			return
		}
		if id < 2 {
			id = 2
		}
		a.discardTo(id, a.cur)
	}
}

func (a *c07AckRep) restart() {
	a.op("close+open")
	a.abandon()
	if err := a.st.Close(); err != nil {
		a.r.Notes = append(a.r.Notes, "acks: Close: "+err.Error())
	}
	a.poll()
	st, err := c07OpenStore(a.r, filepath.Join(a.fs.Root), a.opts(a.fs))
	if err != nil {
		a.st = nil
		a.fail("C07:replica:reopen-fails", fmt.Sprintf("acks: Open after a graceful Close answers %v", err), nil)
		a.stopped = true
		return
	}
	a.st = st
	a.corr("c07 restart "+a.name, "ok")
	a.r.Count("acks.step.restart")
	a.afterOpen()
}

// crash: power loss now (only fsynced bytes survive), the replica comes back on what is left
func (a *c07AckRep) crash() {
	a.op("crash (power loss: un-fsynced writes are gone) + open")
	img := a.fs.ImageDurableOnly()
	a.abandon()
	old := a.st
	c07Quiet(3*time.Second, func() { old.raw.Close() }) // frees the goroutines of the dead process; its files are not the image's
	a.poll()
	st, fs, err := a.openOn(img, "c07k")
	if err != nil {
		a.st = nil
		a.fail("C07:ack:crash-image-does-not-open", fmt.Sprintf("acks: Open on the power-loss image answers %v", err), nil)
		a.stopped = true
		return
	}
	a.st, a.fs = st, fs
	a.corr("c07 crash "+a.name, "ok")
	a.r.Count("acks.step.crash")
	a.afterOpen()
}

// ------------------------------------------------------------------ the oracle

func (a *c07AckRep) check(point string) {
	if a.stopped || a.st == nil {
		return
	}
	r := a.r
	a.poll()
	cid, calh := a.st.CommittedAlh()
	did, dalh := a.st.PrecommittedAlh()
	pre := a.st.LastPrecommittedTxID()
	r.OracleChecks++
	r.Eval(fmt.Sprintf("acks:%s:%d:%d:%d", strings.SplitN(point, " ", 2)[0], cid, did, pre), true)
	if pre != a.inmem() {
		a.fail("C07:replica:history-differs", fmt.Sprintf("acks: after %q the store has %d precommitted in memory, the schedule accounts for %d", point, pre, a.inmem()), nil)
		a.stopped = true
		return
	}
	a.corr("c07 state "+a.name, a.state(cid, calh, did, dalh, pre))
	// (1) the reported durable precommit lies between committed and in-memory precommitted and names the delivered tx
	switch {
	case did < cid:
		a.fail("C07:PrecommittedAlh:below-committed", fmt.Sprintf("after %q PrecommittedAlh() = (%d, %x…) although CommittedAlh() = (%d, %x…): the durable-precommit state a replica sends to its primary is behind its own committed state (in-memory precommitted: %d)", point, did, dalh[:6], cid, calh[:6], pre), nil)
	case did > pre:
		a.fail("C07:PrecommittedAlh:beyond-precommitted", fmt.Sprintf("after %q PrecommittedAlh() reports tx %d, only %d are precommitted in memory", point, did, pre), nil)
	case did > 0 && dalh != a.held[did].alh:
		a.fail("C07:PrecommittedAlh:alh-differs", fmt.Sprintf("after %q PrecommittedAlh() = (%d, %x…), the tx delivered under id %d has Alh %x…", point, did, dalh[:6], did, a.held[did].alh[:6]), nil)
	}
	// (2) the watermark wait agrees with the reported watermark
	acks := map[uint64][32]byte{}
	probe := map[uint64]bool{did: true, did + 1: true, pre: true}
	if pre > 0 {
		probe[uint64(1+a.rng.Intn(int(pre)))] = true
	}
	var ids []uint64
	for id := range probe {
		if id > 0 {
			ids = append(ids, id)
		}
	}
	sort.Slice(ids, func(i, j int) bool { return ids[i] < ids[j] })
	for _, id := range ids {
		ok, err := a.st.Reached(id, true)
		ans := "waiting"
		if ok {
			ans = "ok"
		}
		if err != nil {
			ans = c07Class(err)
		}
		a.corr(fmt.Sprintf("c07 wait %s %d", a.name, id), ans)
		r.OracleChecks++
		if err == nil && ok != (id <= did) && did <= pre && did >= cid {
			a.fail("C07:WaitForTx:disagrees-with-PrecommittedAlh", fmt.Sprintf("after %q WaitForTx(%d, allowPrecommitted) passes=%v while PrecommittedAlh() reports %d", point, id, ok, did), nil)
		}
		if ok && id <= pre {
			acks[id] = a.held[id].alh
		}
	}
	// (3) every acknowledgement is on disk
	if did > 0 && did <= pre {
		acks[did] = dalh
	}
	for id, alh := range a.acks {
		acks[id] = alh
	}
	t0 := time.Now()
	img := a.fs.ImageDurableOnly()
	ih := img.Hash()
	c07AckImgTime += time.Since(t0)
	var aids []uint64
	for id := range acks {
		aids = append(aids, id)
	}
	sort.Slice(aids, func(i, j int) bool { return aids[i] < aids[j] })
	key := fmt.Sprintf("%x|%d|%x", ih[:8], cid, calh[:4])
	for _, id := range aids {
		al := acks[id]
		key += fmt.Sprintf("|%d:%x", id, al[:6])
	}
	if a.checked[key] {
		r.Count("acks.oracle.same-image-and-acks")
		return
	}
	a.checked[key] = true
	var txc []byte
	if f := img.Files["tx"]; f != nil {
		txc = f.Content
	}
	notFsynced := map[uint64]bool{}
	for _, id := range aids {
		al := acks[id]
		r.OracleChecks++
		if id <= cid && id <= uint64(len(a.held)-1) && al == a.held[id].alh {
			continue // committed: checked on the reopened store
		}
		if !bytes.Contains(txc, al[:]) {
			notFsynced[id] = true
			desc := fmt.Sprintf("after %q the replica acknowledges tx %d (Alh %x…) as durably precommitted (PrecommittedAlh() = (%d, %x…); ReplicateTx returned for %v) but the record of that tx is not in the fsynced part of its transaction log (%d fsynced bytes): a power loss now loses an acknowledged transaction", point, id, al[:6], did, dalh[:6], a.returnedIDs(), len(txc))
			if id <= a.reloaded && (a.noSyncSinceOpen || a.cfg.fileSize > 0) {
				// (chunked tx log: Sync() only fsyncs the CURRENT chunk, so records that Open re-loaded from earlier chunks are never
				// fsynced by a later sync either)
				a.fail("C07:ack:reloaded-precommit-reported-durable-without-fsync", desc+" — the tx was found in the tx log by Open (written, never fsynced, by the previous run) and Open marks everything it re-loads as durable", nil)
			} else {
				a.fail("C07:ack:not-fsynced", desc, nil)
			}
		}
	}
	// (4) … and a store opened on what a power loss leaves holds it
	st2, _, err := a.openOn(img, "c07o")
	r.OracleChecks++
	if err != nil {
		a.fail("C07:ack:crash-image-does-not-open", fmt.Sprintf("after %q: Open on the power-loss image answers %v", point, err), nil)
		return
	}
	defer st2.Close()
	r.Count("acks.oracle.crash-image-reopened")
	pre2 := st2.LastPrecommittedTxID()
	cid2, _ := st2.CommittedAlh()
	alh2 := make([][32]byte, pre2+1)
	for id := uint64(1); id <= pre2; id++ {
		h, err := st2.ReadTxHeader(id, true, false)
		if err != nil {
			a.fail("C07:ack:crash-image-does-not-open", fmt.Sprintf("after %q: the store opened on the power-loss image reports %d precommitted, ReadTxHeader(%d) answers %v", point, pre2, id, err), nil)
			return
		}
		alh2[id] = h.Alh()
	}
	// Open re-loaded a transaction that had been discarded (it is still in the tx log, in front of what replaced it)
	shadow := false
	shadowID := uint64(0)
	for id := cid2 + 1; id <= pre2 && !shadow; id++ {
		if a.discarded[alh2[id]] {
			shadow, shadowID = true, id
		}
	}
	r.OracleChecks++
	if cid2 < cid || (cid > 0 && alh2[cid] != calh) {
		a.fail("C07:sync:reported-commit-not-durable", fmt.Sprintf("after %q CommittedAlh() = (%d, %x…); the store opened on the power-loss image has %d committed", point, cid, calh[:6], cid2), nil)
	}
	holder := store.NewTx(a.fam.lines[0].maxEnt, a.fam.lines[0].maxKey)
	for _, id := range aids {
		al := acks[id]
		r.OracleChecks++
		if notFsynced[id] {
			continue
		}
		if id <= pre2 && alh2[id] == al {
			if line := a.held[id].line; id <= pre && line >= 0 && a.held[id].alh == al {
				b, err := st2.ExportTx(id, true, false, holder)
				if want := a.fam.lines[line].exp[id]; err != nil || !bytes.Equal(b, want) {
					diff := 0
					for diff < len(b) && diff < len(want) && b[diff] == want[diff] {
						diff++
					}
					sig := "C07:ack:values-not-durable"
					if a.cfg.fileSize > 0 || a.cfg.writeBuf > 0 {
						// small write buffer / chunk size: a buffer-full or chunk-rotation fsync makes tx-log records durable on their
						// own, before the value log (C03:recovery:recovered-tx-values-unreadable); ExportTx then answers an error or the
						// by-digest form
						sig += ":implicit-txlog-fsync"
					}
					a.fail(sig, fmt.Sprintf("after %q tx %d is acknowledged; on the power-loss image ExportTx(%d) answers err=%v, %d bytes (the primary's export: %d bytes, first difference at %d)", point, id, id, err, len(b), len(want), diff),
						map[string]interface{}{"got": hx.Hex(b), "want": hx.Hex(want)})
				}
			}
			r.Count("acks.oracle.ack-survives-crash")
			continue
		}
		got := "nothing"
		if id <= pre2 {
			got = fmt.Sprintf("Alh %x…", alh2[id][:6])
		}
		desc := fmt.Sprintf("after %q the replica acknowledges tx %d with Alh %x… as durably precommitted (PrecommittedAlh() = (%d, %x…)); its record is fsynced, but a store opened after a power loss now holds %s under id %d (it re-loads %d precommitted txs)", point, id, al[:6], did, dalh[:6], got, id, pre2)
		if shadow && shadowID <= id {
			a.fail("C07:ack:discarded-txs-reloaded-in-place-of-acked-txs", desc+fmt.Sprintf(": Open re-loads the DISCARDED tx %d (Alh %x…), which is still in the tx log in front of the acknowledged ones, and stops at the first record that does not chain", shadowID, alh2[shadowID][:6]), nil)
		} else if a.cfg.embedded && pre2 == cid2 && id > pre2 {
			a.fail("C07:ack:embedded-values-precommit-not-reloaded", desc+" — EmbeddedValues=true: performPrecommit writes [values length][values] in front of every tx record, Open reads the precommitted records as if a tx header started right after the last committed tx, finds none and re-loads NO precommitted transaction", nil)
		} else if id <= a.reloaded && (a.noSyncSinceOpen || a.cfg.fileSize > 0) {
			// the Alh was found in the fsynced bytes only because an older, discarded copy of the same tx lies there; the live
			// record was written after the last fsync, re-loaded by Open and marked durable
			a.fail("C07:ack:reloaded-precommit-reported-durable-without-fsync", desc+" — the tx was re-loaded by the last Open from written, never fsynced bytes (the fsynced bytes hold an older, discarded copy of the same record) and Open marks everything it re-loads as durable", nil)
		} else {
			if os.Getenv("C07_DEBUG") != "" {
				for n, f := range img.Files {
					holes := 0
					for _, m := range f.Mask {
						if m == 0 {
							holes++
						}
					}
					fmt.Fprintf(os.Stderr, "DEBUG lost-after-crash: file %s durable=%d holes=%d idx(alh)=%d\n", n, len(f.Content), holes, bytes.Index(f.Content, al[:]))
				}
				fmt.Fprintf(os.Stderr, "DEBUG pending=%v buffered=%v ops=%v\n", "", "", a.ops)
			}
			a.fail("C07:ack:lost-after-crash", desc, nil)
		}
	}
}

func (a *c07AckRep) returnedIDs() []uint64 {
	var o []uint64
	for id := range a.acks {
		o = append(o, id)
	}
	sort.Slice(o, func(i, j int) bool { return o[i] < o[j] })
	return o
}

func (a *c07AckRep) state(cid uint64, calh [32]byte, did uint64, dalh [32]byte, pre uint64) string {
	palh := sha256.Sum256(nil)
	if pre > 0 {
		palh = a.held[pre].alh
	}
	return fmt.Sprintf("%d %s %d %s %d %s", cid, hx.Hex(calh[:]), did, hx.Hex(dalh[:]), pre, hx.Hex(palh[:]))
}

// ------------------------------------------------------------------ schedules

func c07AckOpen(r *hx.Result, rng *hx.Rng, fam *c07Fam, cfg c07AckCfg) (*c07AckRep, error) {
	c07NameSeq++
	a := &c07AckRep{r: r, rng: rng, fam: fam, cfg: cfg, name: fmt.Sprintf("a%d", c07NameSeq), held: []c07Held{{}}, acks: map[uint64][32]byte{},
		discarded: map[[32]byte]bool{}, checked: map[string]bool{}}
	st, fs, err := a.openOn(nil, "c07a")
	if err != nil {
		a.close()
		return nil, err
	}
	a.st, a.fs = st, fs
	p := fam.lines[0]
	a.corr(fmt.Sprintf("c07 new %s %d %d %d %d 1 1", a.name, cfg.maxActive, p.maxKey, p.maxVal, p.maxEnt), "ok")
	a.op("open a fresh replica store: %s", cfg.String())
	return a, nil
}

func (a *c07AckRep) canRep() bool {
	cid, _ := a.st.CommittedAlh()
	return a.common(a.cur) == a.inmem() && a.inmem() < a.fam.lines[a.cur].n && a.inmem()-cid < uint64(a.cfg.maxActive)
}

// one step of the schedule followed by the oracle
func (a *c07AckRep) step(kind string) {
	if a.stopped {
		return
	}
	switch kind {
	case "rep":
		if !a.canRep() {
			return
		}
		a.rep()
	case "sync":
		a.sync()
	case "allow":
		cid, _ := a.st.CommittedAlh()
		a.allow(cid + uint64(a.rng.Intn(int(a.inmem()-cid)+2)))
	case "switch":
		if !a.switchPrimary() {
			return
		}
	case "restart":
		a.restart()
	case "crash":
		a.crash()
	default:
		return
	}
	a.check(a.ops[len(a.ops)-1])
}

// c07AckScripted: the plain life of a synchronous replica through a primary change — follow a primary, get some txs
// precommitted and fsynced, part of them committed, the primary changes, the diverged precommitted txs are discarded
// and those of the new primary replicated — with the oracle after every single step.
func c07AckScripted(r *hx.Result, rng *hx.Rng, fam *c07Fam, cfg c07AckCfg, from, to int) error {
	r.NextCase()
	a, err := c07AckOpen(r, rng, fam, cfg)
	if err != nil {
		return err
	}
	defer a.close()
	a.cur = from
	A, B := fam.lines[from], fam.lines[to]
	fork := uint64(0)
	for id := uint64(1); id <= A.n && id <= B.n && A.alhs[id] == B.alhs[id]; id++ {
		fork = id
	}
	upto := fork + 1 + uint64(rng.Intn(3))
	if upto > A.n {
		upto = A.n
	}
	if int(upto) > cfg.maxActive {
		upto = uint64(cfg.maxActive)
	}
	for a.inmem() < upto && !a.stopped {
		a.step("rep")
		if rng.Chance(35) {
			a.step("sync")
		}
	}
	a.step("sync")
	if !a.stopped && fork >= 1 {
		a.allow(uint64(1 + rng.Intn(int(fork))))
		a.check("allow")
		a.step("sync")
	}
	if !a.stopped && a.common(to) >= a.floor() {
		id := a.common(to) + 1
		if id < 2 {
			id = 2
		}
		a.discardTo(id, to)
		a.check(a.ops[len(a.ops)-1])
	}
	for k := 0; k < 4 && !a.stopped && a.canRep(); k++ {
		a.step("rep")
		if rng.Chance(25) {
			a.step("sync")
		}
	}
	a.step("sync")
	if !a.stopped {
		a.allow(a.inmem())
		a.check("allow")
		a.step("sync")
	}
	for !a.stopped && a.canRep() && rng.Chance(80) {
		a.step("rep")
	}
	a.step("sync")
	r.Count("acks.schedule.scripted")
	return nil
}

// c07AckReopenProbes: two short fixed schedules around Close/Open (values in value logs: with embedded values Open re-loads
// nothing): (1) precommitted, never fsynced, Close, Open; (2) precommitted on A, discarded, B's txs replicated in their
// place, Close, Open (A's discarded tx is re-loaded), A's genuine successor delivered.
func c07AckReopenProbes(r *hx.Result, rng *hx.Rng, fam *c07Fam, cfg c07AckCfg, from, to int) error {
	A, B := fam.lines[from], fam.lines[to]
	fork := uint64(0)
	for id := uint64(1); id <= A.n && id <= B.n && A.alhs[id] == B.alhs[id]; id++ {
		fork = id
	}
	if fork < 1 || fork+2 > A.n || fork+2 > B.n || int(fork)+2 > cfg.maxActive {
		return nil
	}
	{
		r.NextCase()
		a, err := c07AckOpen(r, rng, fam, cfg)
		if err != nil {
			return err
		}
		a.cur = from
		for a.inmem() < fork+1 && !a.stopped {
			a.step("rep")
		}
		a.step("restart")
		a.step("sync")
		a.step("rep")
		a.step("sync")
		a.close()
		r.Count("acks.schedule.probe.unsynced-close-open")
	}
	{
		r.NextCase()
		a, err := c07AckOpen(r, rng, fam, cfg)
		if err != nil {
			return err
		}
		defer a.close()
		a.cur = from
		for a.inmem() < fork+1 && !a.stopped {
			a.step("rep")
		}
		a.step("sync")
		if !a.stopped {
			a.discardTo(fork+1, to)
			a.check(a.ops[len(a.ops)-1])
		}
		a.step("rep")
		a.step("rep")
		a.step("sync")
		a.step("restart") // re-loads A's discarded tx fork+1 and follows A again
		if !a.stopped && a.cur == from && a.canRep() {
			a.step("rep") // A's tx fork+2: links to the re-loaded chain
		}
		r.Count("acks.schedule.probe.discard-close-open")
	}
	return nil
}

func c07AckWalk(r *hx.Result, rng *hx.Rng, fam *c07Fam, cfg c07AckCfg, steps int, withReopen bool) error {
	r.NextCase()
	a, err := c07AckOpen(r, rng, fam, cfg)
	if err != nil {
		return err
	}
	defer a.close()
	a.cur = rng.Intn(len(fam.lines))
	for s := 0; s < steps && !a.stopped; s++ {
		if withReopen && s == steps/2 {
			a.step("crash") // at least one of each in every such walk
			continue
		}
		if withReopen && s == 3*steps/4 {
			a.step("restart")
			continue
		}
		switch c := rng.Intn(100); {
		case c < 42:
			if a.canRep() {
				a.step("rep")
			} else if rng.Bool() {
				a.step("switch")
			} else {
				a.step("sync")
			}
		case c < 60:
			a.step("sync")
		case c < 70:
			a.step("allow")
		case c < 88:
			a.step("switch")
		case c < 94:
			if withReopen {
				a.step("restart")
			} else {
				a.step("sync")
			}
		default:
			if withReopen {
				a.step("crash")
			} else {
				a.step("rep")
			}
		}
	}
	a.step("sync")
	r.Count(fmt.Sprintf("acks.schedule.walk.reopen=%v.tie=%v", withReopen, cfg.tie))
	return nil
}

// c07Acks: the runner of this part.
func c07Acks(r *hx.Result, rng *hx.Rng, thorough bool) error {
	fams, walks, steps := 2, 3, 45
	if thorough {
		fams, walks, steps = 5, 6, 90
	}
	defer func() { c07Lap(fmt.Sprintf("acks: %v in store.Open on crash images, %v taking images", c07AckOpenTime, c07AckImgTime)) }()
	for f := 0; f < fams; f++ {
		if c07TooManyHangs() {
			return nil
		}
		c07Lap("acks family")
		var fam *c07Fam
		embedded := f%2 == 0
		err, hung := c07Run(r, "acks build-family", func() (err error) { fam, err = c07BuildFamily(r, rng.Fork(), 3+f%2, embedded); return err })
		if hung || err != nil {
			if fam != nil {
				fam.close()
			}
			if hung {
				continue
			}
			return fmt.Errorf("acks: family: %w", err)
		}
		err = func() error {
			defer fam.close()
			run := func(name string, fn func() error) error {
				if c07TooManyHangs() {
					return nil
				}
				err, _ := c07Run(r, name, fn)
				return err
			}
			tied := c07AckCfg{maxActive: 6 + rng.Intn(6), embedded: embedded, tie: true}
			// every ordered pair (old primary, new primary) of the family once, scripted
			scripted := 0
			for from := range fam.lines {
				for to := range fam.lines {
					if from == to || (!thorough && (scripted >= 4 || rng.Chance(35))) {
						continue
					}
					scripted++
					if err := run(fmt.Sprintf("acks scripted L%d->L%d", from, to), func() error { return c07AckScripted(r, rng.Fork(), fam, tied, from, to) }); err != nil {
						return err
					}
				}
			}
			if !embedded && len(fam.lines) > 1 {
				to := 1
				from := fam.parent[to]
				if err := run("acks reopen-probes", func() error { return c07AckReopenProbes(r, rng.Fork(), fam, tied, from, to) }); err != nil {
					return err
				}
			}
			for w := 0; w < walks; w++ {
				cfg := tied
				cfg.maxActive = 3 + rng.Intn(8)
				if w%3 == 2 {
					// small chunks and write buffers: chunk rotation and buffer-full flushes/fsyncs inside the schedule (oracle only)
					cfg.tie = false
					cfg.fileSize = 256 << rng.Intn(4)
					cfg.writeBuf = 128 << rng.Intn(4)
				}
				reopen := w%2 == 1
				if reopen && cfg.embedded {
					// Open does not re-load precommitted txs of a store with embedded values (known finding): the model does
					cfg.tie = false
				}
				if err := run("acks walk", func() error { return c07AckWalk(r, rng.Fork(), fam, cfg, steps, reopen) }); err != nil {
					return err
				}
			}
			return r.Flush()
		}()
		if err != nil {
			return err
		}
	}
	return nil
}
