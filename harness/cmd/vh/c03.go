package main

// C03 — Crash durability: acknowledged commits survive; recovery is a consistent prefix.
//
// A real store.Open runs on crashfs (every log of the store, of its ahtree and of its index lives there),
// a workload is executed, every storage operation is recorded, and then for crash points between any two
// recorded operations crash images are materialised (which un-fsynced writes reached the disk is chosen
// per file) and the REAL store.Open is run on each image.  The oracle is evaluated on the reopened store.

import (
	"bytes"
	"context"
	"crypto/sha256"
	"encoding/binary"
	"errors"
	"fmt"
	"os"
	"path/filepath"
	"runtime/pprof"
	"sort"
	"strings"
	"sync"
	"sync/atomic"
	"time"

	"github.com/codenotary/immudb/embedded/ahtree"
	"github.com/codenotary/immudb/embedded/store"

	"verif/harness/internal/crashfs"
	"verif/harness/internal/hx"
)

func init() { runners["C03"] = runC03 }

// ---------------------------------------------------------------------------------------------

type c03Cfg struct {
	Name        string
	Embedded    bool
	FileSize    int
	WriteBuf    int
	MaxActive   int
	AhtSyncThld int
	AhtWriteBuf int
	IdxFlush    int
	IdxSync     int
	IOConc      int
	Allowance   bool // precommitted-but-uncommitted backlog via external commit allowance
	Committers  int
	NTx         int
	HdrVersion  int
	FlushIdx    bool // explicit FlushIndexes calls
	CleanClose  bool // the workload ends with Close (crash points inside Close are enumerated too)
	Discard     bool // DiscardPrecommittedTxsSince in the workload (replica behaviour)
	KeySpace    int
	MaxVal      int
	FixedVal    int           // >0: every value has exactly this size and every tx exactly one entry
	SyncFreq    time.Duration // 0: default
	IdxNodeSize int           // 0: default
	BreakSync   string        // self-test: Sync() of this file degrades to Flush() during the workload
	Sched       *c03Sched     // scheduled workload: late committers are started from a storage op of a durability round
	AckOnly     bool          // crash images only right after every acknowledgement (+ end of the log); the trace oracles run in full
	// index-flush-heavy workloads (c03_index.go)
	IdxHeavy  bool // sequential commits, each one indexed before the next; un-fsynced index flushes in between (IdxFlush small, IdxSync large)
	FreshPct  int  // IdxHeavy: chance (%) that a tx writes only keys never written before (its index snapshot appends no history)
	IdxBulk   int  // IndexOptions.MaxBulkSize (0: default)
	MultiIdx  bool // MultiIndexing: no default index, two plain secondary indexes on the prefixes key-0 / key-1 (keys key-2x are not indexed)
	IdxPoints bool // crash points only where an index log was flushed/fsynced (+ the mandatory ones); index-specific survival choices in full
	// Script: deterministic templates: the workload is this function (sequential; IdxHeavy plumbing: every commit is indexed before it returns)
	Script func(s *c03Script)
}

// c03Script: what a scripted workload may do
type c03Script struct {
	Commit func(ki int, val []byte) // one tx {key-ki: val}, acknowledged and indexed
	Flush  func(synced bool)        // FlushIndexes(0, synced)
}

// c03Sched: interleaving control through the storage layer.  When the store (its syncer, inside sync()) is about to perform
// (Pre) / has just performed (!Pre) the op Kind on File, Late fresh committers are started and the op does not return before
// each of them has either precommitted its tx (tx record appended) or stopped making progress (blocked on a lock of the store).
type c03Sched struct {
	File   string
	Kind   crashfs.Kind
	Pre    bool
	Late   int
	Prime  int // sequential commits before the first armed round (rotates the list of unlocked value logs)
	Rounds int // armed commits
}

func (sc *c03Sched) String() string {
	if sc == nil {
		return "-"
	}
	ph := "after"
	if sc.Pre {
		ph = "before"
	}
	return fmt.Sprintf("%d-late-committers-%s-%s-of-%s(prime=%d,rounds=%d)", sc.Late, ph, sc.Kind, sc.File, sc.Prime, sc.Rounds)
}

func (c c03Cfg) String() string {
	sched := ""
	if c.Sched != nil {
		sched = " sched=" + c.Sched.String()
	}
	idx := ""
	if c.IdxHeavy || c.MultiIdx {
		idx = fmt.Sprintf(" idxHeavy=%v fresh=%d%% bulk=%d multiIdx=%v keys=%d", c.IdxHeavy, c.FreshPct, c.IdxBulk, c.MultiIdx, c.KeySpace)
	}
	return fmt.Sprintf("%s{emb=%v fsz=%d wbuf=%d maxActive=%d ahtSync=%d idxFlush=%d/%d ioc=%d allowance=%v committers=%d ntx=%d v%d discard=%v%s%s}",
		c.Name, c.Embedded, c.FileSize, c.WriteBuf, c.MaxActive, c.AhtSyncThld, c.IdxFlush, c.IdxSync, c.IOConc, c.Allowance, c.Committers, c.NTx, c.HdrVersion, c.Discard, sched, idx)
}

var c03Clock int64

func c03Opts(cfg c03Cfg, fs *crashfs.FS, allowance bool) *store.Options {
	idx := store.DefaultIndexOptions().WithFlushThld(cfg.IdxFlush).WithSyncThld(cfg.IdxSync).WithCacheSize(1 << 16).
		WithFlushBufferSize(256).WithMaxBufferedDataSize(1 << 16).WithMaxGlobalBufferedDataSize(1 << 20).
		WithBulkPreparationTimeout(100 * time.Microsecond)
	if cfg.IdxNodeSize > 0 {
		idx.WithMaxNodeSize(cfg.IdxNodeSize)
	}
	if cfg.IdxBulk > 0 {
		idx.WithMaxBulkSize(cfg.IdxBulk)
	}
	aht := store.DefaultAHTOptions().WithSyncThld(cfg.AhtSyncThld).WithWriteBufferSize(cfg.AhtWriteBuf)
	sf := 200 * time.Microsecond
	if cfg.Allowance {
		sf = 2 * time.Millisecond // the syncer re-syncs the logs every SyncFrequency/4 while a backlog waits for its allowance
	}
	if cfg.SyncFreq > 0 {
		sf = cfg.SyncFreq
	}
	return store.DefaultOptions().WithSynced(true).WithSyncFrequency(sf).
		WithWriteBufferSize(cfg.WriteBuf).WithFileSize(cfg.FileSize).WithMaxActiveTransactions(cfg.MaxActive).
		WithMaxConcurrency(4).WithMaxIOConcurrency(cfg.IOConc).WithMaxTxEntries(4).WithMaxKeyLen(16).WithMaxValueLen(128).
		WithEmbeddedValues(cfg.Embedded).WithWriteTxHeaderVersion(cfg.HdrVersion).WithLogger(quietLogger()).
		WithTxLogCacheSize(8).WithMaxWaitees(16).
		WithAppFactory(fs.Factory()).WithAppRemoveFunc(fs.Remove()).
		WithExternalCommitAllowance(allowance).WithMultiIndexing(cfg.MultiIdx).
		WithTimeFunc(func() time.Time { return time.Unix(1700000000+atomic.AddInt64(&c03Clock, 1), 0) }).
		WithIndexOptions(idx).WithAHTOptions(aht)
}

// what the harness knows about a tx whose Commit returned nil (taken at ack time)
type c03Tx struct {
	ID   uint64
	Hdr  store.TxHeader
	Alh  [32]byte
	Keys [][]byte
	Vals [][]byte
}

type c03Run struct {
	Cfg      c03Cfg
	Base     *crashfs.Image
	Log      []crashfs.Op
	Acked    map[uint64]*c03Tx // acked in this run or inherited (acked before the image the run started from)
	Inherit  map[uint64]bool   // ids acked before this run started
	Universe map[[32]byte]bool // Alh of every tx ever precommitted (aht leaf appends), inherited included
	Notes    []string
	Lineage  string
}

func c03Key(i int) []byte { return []byte(fmt.Sprintf("key-%02d", i)) }

// c03Open opens the real store on a crashfs rooted in a fresh scratch dir holding img.
func c03Open(cfg c03Cfg, img *crashfs.Image, allowance bool, tag string) (st *store.ImmuStore, fs *crashfs.FS, dir string, err error) {
	dir = hx.TempDir(tag)
	db := filepath.Join(dir, "db")
	if err = os.MkdirAll(db, 0o755); err != nil {
		return nil, nil, dir, err
	}
	fs, err = crashfs.New(db, img, true)
	if err != nil {
		return nil, nil, dir, err
	}
	fs.PollSide = true
	type res struct {
		st  *store.ImmuStore
		err error
	}
	ch := make(chan res, 1)
	go func() {
		defer func() {
			if e := recover(); e != nil {
				ch <- res{nil, fmt.Errorf("panic: %v", e)}
			}
		}()
		s, e := store.Open(db, c03Opts(cfg, fs, allowance))
		if e == nil && cfg.MultiIdx {
			for _, d := range c03IdxDefs(cfg) {
				if e = s.InitIndexing(d.spec()); e != nil {
					s.Close()
					s, e = nil, fmt.Errorf("InitIndexing(%s): %w", d.Tgt, e)
					break
				}
			}
		}
		ch <- res{s, e}
	}()
	select {
	case x := <-ch:
		return x.st, fs, dir, x.err
	case <-time.After(30 * time.Second):
		return nil, fs, dir, errors.New("open-hangs")
	}
}

// ---------------------------------------------------------------------------------------------
// workload

func c03Workload(r *hx.Result, rng *hx.Rng, cfg c03Cfg, base *crashfs.Image, inherit map[uint64]*c03Tx, universe map[[32]byte]bool, lineage string) (*c03Run, error) {
	run := &c03Run{Cfg: cfg, Base: base, Acked: map[uint64]*c03Tx{}, Inherit: map[uint64]bool{}, Universe: map[[32]byte]bool{}, Lineage: lineage}
	for id, t := range inherit {
		run.Acked[id] = t
		run.Inherit[id] = true
	}
	for a := range universe {
		run.Universe[a] = true
	}
	st, fs, dir, err := c03Open(cfg, base, cfg.Allowance, "c03w")
	defer os.RemoveAll(dir)
	if err != nil {
		return nil, fmt.Errorf("workload store does not open (%s): %w", lineage, err)
	}
	if cfg.BreakSync != "" {
		fs.SetBreakSync(cfg.BreakSync)
	}
	fs.Mark("opened", 0)
	var mu sync.Mutex
	ctx, cancel := context.WithCancel(context.Background())
	defer cancel()

	// IdxHeavy: which keys have been written so far in the life of this directory (inherited txs included)
	used := map[int]bool{}
	for _, t := range inherit {
		for _, k := range t.Keys {
			var ki int
			if _, e := fmt.Sscanf(string(k), "key-%02d", &ki); e == nil {
				used[ki] = true
			}
		}
	}
	// pickKeys: the key indexes of the next tx.  FreshPct% of the txs of an IdxHeavy workload write only never-written keys
	// (nothing is appended to the index history log by the snapshot that holds them), the others update written keys.
	pickKeys := func(rg *hx.Rng, ne int) []int {
		var out []int
		seen := map[int]bool{}
		if !cfg.IdxHeavy {
			for e := 0; e < ne; e++ {
				if ki := rg.Intn(cfg.KeySpace); !seen[ki] {
					seen[ki] = true
					out = append(out, ki)
				}
			}
			return out
		}
		mu.Lock()
		defer mu.Unlock()
		var old, fresh []int
		for ki := 0; ki < cfg.KeySpace; ki++ {
			if used[ki] {
				old = append(old, ki)
			} else {
				fresh = append(fresh, ki)
			}
		}
		pool := old
		if len(old) == 0 || (len(fresh) > 0 && rg.Chance(cfg.FreshPct)) {
			pool = fresh
		}
		for e := 0; e < ne && len(pool) > 0; e++ {
			if ki := pool[rg.Intn(len(pool))]; !seen[ki] {
				seen[ki] = true
				used[ki] = true
				out = append(out, ki)
			}
		}
		return out
	}
	var lastAckedID uint64
	var scripted *struct {
		ki  int
		val []byte
	}
	var onCommitCall func() // scheduled workloads: invoked right before Commit/AsyncCommit is called
	commitOne := func(rg *hx.Rng, cctx context.Context) {
		signalled := false
		signal := func() {
			if !signalled && onCommitCall != nil {
				onCommitCall()
			}
			signalled = true
		}
		defer signal()
		tx, err := st.NewWriteOnlyTx(cctx)
		if err != nil {
			return
		}
		ne := 1 + rg.Intn(3)
		if cfg.FixedVal > 0 {
			ne = 1
		}
		var keys, vals [][]byte
		kis := pickKeys(rg, ne)
		if scripted != nil {
			kis = []int{scripted.ki}
		}
		for _, ki := range kis {
			v := rg.Bytes(rg.Size(cfg.MaxVal))
			if cfg.FixedVal > 0 {
				v = rg.Bytes(cfg.FixedVal)
			}
			if scripted != nil {
				v = scripted.val
			}
			if tx.Set(c03Key(ki), nil, v) != nil {
				return
			}
			keys = append(keys, c03Key(ki))
			vals = append(vals, v)
		}
		if cfg.HdrVersion == 1 && cfg.FixedVal == 0 && rg.Chance(15) {
			md := store.NewTxMetadata()
			md.WithExtra(rg.Bytes(1 + rg.Intn(6)))
			tx.WithMetadata(md)
		}
		var hdr *store.TxHeader
		signal()
		if cfg.FixedVal == 0 && rg.Chance(30) {
			hdr, err = tx.Commit(cctx)
		} else {
			hdr, err = tx.AsyncCommit(cctx)
		}
		if err != nil {
			mu.Lock()
			switch {
			case errors.Is(err, store.ErrMaxActiveTransactionsLimitExceeded):
				r.Count("workload.commit.max-active-exceeded")
			case errors.Is(err, context.Canceled):
				r.Count("workload.commit.left-precommitted")
			default:
				r.Count("workload.commit.other-error")
				run.Notes = append(run.Notes, "commit error: "+err.Error())
			}
			mu.Unlock()
			return
		}
		if cfg.Discard {
			// a committer whose precommitted tx was discarded is woken up when ANOTHER tx is committed under its id:
			// that is not an acknowledgement of its own tx
			if h2, e2 := st.ReadTxHeader(hdr.ID, false, false); e2 != nil || h2.Alh() != hdr.Alh() {
				mu.Lock()
				r.Count("workload.commit.superseded-after-discard")
				mu.Unlock()
				return
			}
		}
		t := &c03Tx{ID: hdr.ID, Hdr: *hdr, Alh: hdr.Alh(), Keys: keys, Vals: vals}
		mu.Lock()
		run.Acked[hdr.ID] = t
		if hdr.ID > lastAckedID {
			lastAckedID = hdr.ID
		}
		mu.Unlock()
		fs.Mark("ack", hdr.ID)
		mu.Lock()
		r.Count("workload.commit.acked")
		mu.Unlock()
	}

	if cfg.Script != nil {
		rg := rng.Fork()
		waitIdx := func() {
			if lastAckedID > 0 {
				wctx, wcancel := context.WithTimeout(ctx, 20*time.Second)
				st.WaitForIndexingUpto(wctx, lastAckedID)
				wcancel()
			}
		}
		waitIdx() // recovered txs are re-indexed before the script starts
		if p := st.LastCommittedTxID(); p > 0 {
			wctx, wcancel := context.WithTimeout(ctx, 20*time.Second)
			st.WaitForIndexingUpto(wctx, p)
			wcancel()
		}
		cfg.Script(&c03Script{
			Commit: func(ki int, val []byte) {
				scripted = &struct {
					ki  int
					val []byte
				}{ki, val}
				commitOne(rg, ctx)
				scripted = nil
				waitIdx()
			},
			Flush: func(synced bool) {
				st.FlushIndexes(0, synced)
				fs.Mark("index-flushed", 0)
			},
		})
	} else if cfg.Sched != nil {
		c03Scheduled(r, rng, cfg, fs, ctx, &mu, commitOne, &onCommitCall)
	} else if cfg.IdxHeavy {
		// one tx at a time, indexed before the next one is committed; index flushes by FlushThld and on demand, almost never
		// fsynced: between two fsyncs the index commit log collects several snapshots, some with and some without a history append
		rg := rng.Fork()
		wait := func() {
			mu.Lock()
			id := lastAckedID
			mu.Unlock()
			if id > 0 {
				wctx, wcancel := context.WithTimeout(ctx, 5*time.Second)
				if st.WaitForIndexingUpto(wctx, id) != nil {
					r.Count("workload.idx-heavy.indexing-not-caught-up")
				}
				wcancel()
			}
		}
		// the store may have re-indexed recovered txs while opening: put them into a snapshot of their own first
		if len(inherit) > 0 && rg.Chance(70) {
			wait()
			st.FlushIndexes(0, false)
			fs.Mark("index-flushed", 0)
		}
		for i := 0; i < cfg.NTx; i++ {
			commitOne(rg, ctx)
			if rg.Chance(85) {
				wait()
			}
			switch {
			case rg.Chance(55):
				st.FlushIndexes(0, false)
				fs.Mark("index-flushed", 0)
			case rg.Chance(6):
				st.FlushIndexes(0, true)
				fs.Mark("index-synced", 0)
			}
		}
	} else if !cfg.Allowance {
		var wg sync.WaitGroup
		per := cfg.NTx / cfg.Committers
		for c := 0; c < cfg.Committers; c++ {
			wg.Add(1)
			rg := rng.Fork()
			go func() {
				defer wg.Done()
				for i := 0; i < per; i++ {
					commitOne(rg, ctx)
					if cfg.FlushIdx && rg.Chance(12) {
						st.FlushIndexes(0, rg.Bool())
					}
				}
			}()
		}
		wg.Wait()
	} else {
		// committers block in Commit until the allowance reaches their tx: a backlog of precommitted txs builds up
		var wg sync.WaitGroup
		lag := 1 + rng.Intn(cfg.MaxActive)
		for i := 0; i < cfg.NTx; i++ {
			before := st.LastPrecommittedTxID()
			wg.Add(1)
			rg := rng.Fork()
			go func() {
				defer wg.Done()
				commitOne(rg, ctx)
			}()
			dl := time.Now().Add(2 * time.Second)
			for st.LastPrecommittedTxID() == before && time.Now().Before(dl) {
				time.Sleep(50 * time.Microsecond)
			}
			p := st.LastPrecommittedTxID()
			if cfg.Discard && rng.Chance(15) && p > st.LastCommittedTxID()+1 {
				// replica behaviour: drop the newest precommitted tx(s); their committers stay blocked until cancelled
				if n, err := st.DiscardPrecommittedTxsSince(p); err == nil && n > 0 {
					r.Count("workload.discard-precommitted")
					fs.Mark("discard", p)
				}
				continue
			}
			if int(p) > lag && rng.Chance(60) {
				st.AllowCommitUpto(p - uint64(lag))
			}
			if cfg.FlushIdx && rng.Chance(10) {
				st.FlushIndexes(0, rng.Bool())
			}
		}
		// let the allowed ones finish, leave the rest precommitted
		time.Sleep(3 * time.Millisecond)
		cancel()
		wg.Wait()
	}
	fs.Mark("end", 0)
	if cfg.CleanClose {
		if err := st.Close(); err != nil {
			run.Notes = append(run.Notes, "close: "+err.Error())
		}
		fs.Mark("closed", 0)
	}
	run.Log = fs.Log()
	if !cfg.CleanClose {
		st.Close()
	}
	for _, op := range run.Log {
		if op.Kind == crashfs.KAppend && op.File == "aht/data" && op.Len == 32 {
			var a [32]byte
			copy(a[:], op.Data)
			run.Universe[a] = true
		}
	}
	// crash-independent ordering oracle on the recorded trace (c03_order.go)
	c03Ordering(r, run)
	return run, nil
}

// c03Scheduled: the workload of a c03Sched configuration.  Every armed round: one commit is issued; when the durability round
// it triggers reaches the scheduling point, Late more committers are started from INSIDE that storage op, and the op waits
// until each of them has appended its tx record (it got through performPrecommit) or nothing moves any more (they are blocked
// on a lock the round holds).  No timing assumption decides about a verdict: a committer that is slow only makes the
// interleaving less adversarial.
func c03Scheduled(r *hx.Result, rng *hx.Rng, cfg c03Cfg, fs *crashfs.FS, ctx context.Context, mu *sync.Mutex,
	commitOne func(*hx.Rng, context.Context), onCommitCall *func()) {
	sc := cfg.Sched
	for i := 0; i < sc.Prime; i++ {
		commitOne(rng.Fork(), ctx)
	}
	var armed, started int32
	var lateWG sync.WaitGroup
	var lateRngs []*hx.Rng
	*onCommitCall = func() { atomic.AddInt32(&started, 1) }
	isRecord := func(op *crashfs.Op) bool { return op.File == "tx" && op.Kind == crashfs.KAppend && op.Len >= 124 }
	fs.SetHook(func(pre bool, file string, kind crashfs.Kind) {
		if pre != sc.Pre || file != sc.File || kind != sc.Kind || !atomic.CompareAndSwapInt32(&armed, 1, 0) {
			return
		}
		from := fs.Mark("sched-point", uint64(len(lateRngs)))
		base := atomic.LoadInt32(&started)
		for _, rg := range lateRngs {
			lateWG.Add(1)
			rg := rg
			go func() {
				defer lateWG.Done()
				commitOne(rg, ctx)
			}()
		}
		const quiet, limit = 12 * time.Millisecond, 400 * time.Millisecond
		t0 := time.Now()
		lastLen, lastMove := fs.LogLen(), t0
		for {
			n := 0
			for _, op := range fs.OpsSince(from) {
				if isRecord(&op) {
					n++
				}
			}
			now := time.Now()
			if l := fs.LogLen(); l != lastLen {
				lastLen, lastMove = l, now
			}
			allStarted := atomic.LoadInt32(&started)-base >= int32(len(lateRngs))
			if !allStarted {
				lastMove = now // the quiet period starts when every late committer has reached its Commit call
			}
			switch {
			case n >= len(lateRngs):
				mu.Lock()
				r.Count("sched.late-committers-precommitted-inside-the-storage-op")
				mu.Unlock()
				fs.Mark("sched-resume-precommitted", uint64(n))
				return
			case now.Sub(lastMove) > quiet || now.Sub(t0) > limit:
				mu.Lock()
				r.Count(fmt.Sprintf("sched.late-committers-blocked-by-the-round.precommitted=%d/%d", n, len(lateRngs)))
				mu.Unlock()
				fs.Mark("sched-resume-blocked", uint64(n))
				return
			}
			time.Sleep(100 * time.Microsecond)
		}
	})
	for round := 0; round < sc.Rounds; round++ {
		lateRngs = lateRngs[:0]
		for i := 0; i < sc.Late; i++ {
			lateRngs = append(lateRngs, rng.Fork())
		}
		atomic.StoreInt32(&armed, 1)
		commitOne(rng.Fork(), ctx)
		lateWG.Wait()
		if atomic.CompareAndSwapInt32(&armed, 1, 0) {
			mu.Lock()
			r.Count("sched.point-not-reached-in-the-round")
			mu.Unlock()
		}
	}
	fs.SetHook(nil)
	*onCommitCall = nil
}

// ---------------------------------------------------------------------------------------------
// oracle on one crash image

type c03Point struct {
	K      int    // crash after the first K recorded ops
	Choice string // survival choice description
}

type c03Obs struct {
	OpenErr   string
	Committed uint64
	Precomm   uint64
	Failed    []string
	RecLog    []crashfs.Op   // ops performed by recovery (up to the "opened" mark)
	PostAck   *crashfs.Image // power loss right after the fresh commit was acknowledged (durable data only)
	SessLog   []crashfs.Op   // every storage op of the oracle's own session up to PostAck (recovery of the image included)
	FinalImg  *crashfs.Image
	AckedNew  map[uint64]*c03Tx
}

func ahtLeaf(alh [32]byte) [32]byte {
	return sha256.Sum256(append([]byte{ahtree.LeafPrefix}, alh[:]...))
}

func lastOps(log []crashfs.Op, k, n int) []string {
	var o []string
	for i := k - n; i < k; i++ {
		if i >= 0 && i < len(log) {
			o = append(o, log[i].String())
		}
	}
	return o
}

// c03Check: watchdog around c03CheckInner (a deadlock of the code under test is an oracle failure, not a hung check).
func c03Check(r *hx.Result, run *c03Run, img *crashfs.Image, acked []*c03Tx, pt c03Point, depth int) *c03Obs {
	ch := make(chan *c03Obs, 1)
	go func() {
		defer func() {
			if e := recover(); e != nil {
				ch <- &c03Obs{OpenErr: fmt.Sprintf("panic: %v", e), Failed: []string{"C03:recovery:panic"}}
			}
		}()
		ch <- c03CheckInner(r, run, img, acked, pt, depth)
	}()
	select {
	case o := <-ch:
		if len(o.Failed) == 1 && o.Failed[0] == "C03:recovery:panic" {
			r.Fail("C03:recovery:panic", o.OpenErr+" | "+run.Cfg.String()+" crash@"+fmt.Sprint(pt.K)+" "+pt.Choice, map[string]interface{}{"lineage": run.Lineage})
		}
		return o
	case <-time.After(90 * time.Second):
		r.Fail("C03:recovery:hangs", "the oracle on the recovered store did not finish within 90 s | "+run.Cfg.String()+" crash@"+fmt.Sprint(pt.K)+" "+pt.Choice,
			map[string]interface{}{"lineage": run.Lineage, "crash_after_op": pt.K, "survival": pt.Choice})
		return &c03Obs{OpenErr: "hangs", Failed: []string{"C03:recovery:hangs"}}
	}
}

// c03CheckInner runs the real store.Open on img and evaluates clauses (1)-(6).  acked: what must have survived.
func c03CheckInner(r *hx.Result, run *c03Run, img *crashfs.Image, acked []*c03Tx, pt c03Point, depth int) *c03Obs {
	obs := &c03Obs{}
	cfg := run.Cfg
	replay := func(extra string) interface{} {
		return map[string]interface{}{"cfg": cfg.String(), "lineage": run.Lineage, "crash_after_op": pt.K, "survival": pt.Choice,
			"ops_before_crash": lastOps(run.Log, pt.K, 14), "image_sizes": img.Sizes(), "depth": depth, "detail": extra,
			"acked_max": func() uint64 {
				var m uint64
				for _, t := range acked {
					if t.ID > m {
						m = t.ID
					}
				}
				return m
			}()}
	}
	fail := func(sig, desc string) {
		obs.Failed = append(obs.Failed, sig)
		r.Fail(sig, desc+" | "+cfg.String()+" crash@"+fmt.Sprint(pt.K)+" "+pt.Choice, replay(desc))
		if os.Getenv("VERIF_C03_DEBUG") != "" && strings.Contains(sig, "index-inconsistent") {
			c03IndexDebug(run, img, obs)
		}
	}
	r.OracleChecks++
	// reopened with the external commit allowance ON so that the recovered (committed, precommitted) pair is stable
	st, fs, dir, err := c03Open(cfg, img, true, "c03r")
	defer os.RemoveAll(dir)
	if err != nil {
		obs.OpenErr = err.Error()
		fail("C03:recovery:open-fails", "store.Open on the crash image: "+err.Error())
		return obs
	}
	closed := false
	defer func() {
		if !closed {
			st.Close()
		}
	}()
	fs.Mark("opened", 0)
	obs.RecLog = fs.Log()
	cid, calh := st.CommittedAlh()
	pid := st.LastPrecommittedTxID()
	obs.Committed, obs.Precomm = cid, pid
	ctx, cancel := context.WithTimeout(context.Background(), 10*time.Second)
	defer cancel()

	var maxAcked *c03Tx
	for _, t := range acked {
		if maxAcked == nil || t.ID > maxAcked.ID {
			maxAcked = t
		}
	}
	// (2) acked txs present and identical
	if maxAcked != nil && cid < maxAcked.ID {
		fail("C03:recovery:acked-tx-lost", fmt.Sprintf("acked tx %d but recovered committed id is %d (precommitted %d)", maxAcked.ID, cid, pid))
	}
	tx := store.NewTx(4, 16)
	for _, t := range acked {
		if t.ID > cid {
			continue
		}
		if err := st.ReadTx(t.ID, false, tx); err != nil {
			fail("C03:recovery:acked-tx-lost", fmt.Sprintf("acked tx %d unreadable: %v", t.ID, err))
			continue
		}
		h := tx.Header()
		if h.Alh() != t.Alh || h.ID != t.Hdr.ID || h.Ts != t.Hdr.Ts || h.BlTxID != t.Hdr.BlTxID || h.BlRoot != t.Hdr.BlRoot ||
			h.PrevAlh != t.Hdr.PrevAlh || h.Eh != t.Hdr.Eh || h.NEntries != t.Hdr.NEntries || h.Version != t.Hdr.Version {
			fail("C03:recovery:acked-tx-altered", fmt.Sprintf("acked tx %d header differs", t.ID))
			continue
		}
		es := tx.Entries()
		if len(es) != len(t.Keys) {
			fail("C03:recovery:acked-tx-altered", fmt.Sprintf("acked tx %d entry count differs", t.ID))
			continue
		}
		want := map[string][]byte{}
		for i := range t.Keys {
			want[string(t.Keys[i])] = t.Vals[i]
		}
		for _, e := range es {
			w, ok := want[string(e.Key())]
			if !ok {
				fail("C03:recovery:acked-tx-altered", fmt.Sprintf("acked tx %d has an unknown key", t.ID))
				continue
			}
			v, err := st.ReadValue(e)
			if err != nil {
				fail("C03:recovery:acked-tx-lost", fmt.Sprintf("acked tx %d value of %s unreadable: %v", t.ID, e.Key(), err))
			} else if !bytes.Equal(v, w) {
				fail("C03:recovery:acked-tx-altered", fmt.Sprintf("acked tx %d value of %s differs", t.ID, e.Key()))
			}
		}
	}
	// (3) recovered history: dense ids, PrevAlh chain, BlRoot, nothing invented, values of recovered txs readable
	alhs := make([][32]byte, pid+1)
	hdrs := make([]*store.TxHeader, pid+1)
	alhs[0] = sha256.Sum256(nil)
	var recTxs []c04Tx // the recovered committed history, as read back from the tx log + value logs (input of the index comprehension)
	valuesOK := true
	chainOK := true
	for id := uint64(1); id <= pid; id++ {
		h, err := st.ReadTxHeader(id, id > cid, false)
		if err != nil {
			fail("C03:recovery:chain-broken", fmt.Sprintf("recovered tx %d (committed %d, precommitted %d) header unreadable: %v", id, cid, pid, err))
			chainOK = false
			break
		}
		hdrs[id] = h
		alhs[id] = h.Alh()
		if h.ID != id || h.PrevAlh != alhs[id-1] {
			fail("C03:recovery:chain-broken", fmt.Sprintf("recovered tx %d: id=%d / PrevAlh chain broken", id, h.ID))
			chainOK = false
			break
		}
		if h.BlTxID >= id {
			fail("C03:recovery:chain-broken", fmt.Sprintf("recovered tx %d: BlTxID=%d", id, h.BlTxID))
			chainOK = false
			break
		}
		var root [32]byte
		if h.BlTxID > 0 {
			leaves := make([][32]byte, h.BlTxID)
			for i := uint64(1); i <= h.BlTxID; i++ {
				leaves[i-1] = ahtLeaf(alhs[i])
			}
			root = refMth(leaves)
		}
		if root != h.BlRoot {
			fail("C03:recovery:chain-broken:blroot-not-root-of-recovered-alhs", fmt.Sprintf("recovered tx %d: BlRoot is not the Merkle root of the first %d recovered Alhs", id, h.BlTxID))
			chainOK = false
		}
		if !run.Universe[alhs[id]] {
			fail("C03:recovery:chain-broken", fmt.Sprintf("recovered tx %d was never precommitted before the crash (invented)", id))
			chainOK = false
		}
		// body + values
		if id <= cid {
			if err := st.ReadTx(id, false, tx); err != nil {
				fail("C03:recovery:chain-broken", fmt.Sprintf("recovered committed tx %d unreadable: %v", id, err))
				chainOK = false
				continue
			}
			rt := c04Tx{ID: id}
			for _, e := range tx.Entries() {
				v, err := st.ReadValue(e)
				if err != nil {
					fail("C03:recovery:recovered-tx-values-unreadable", fmt.Sprintf("recovered committed tx %d (acked max %v): value of %s unreadable: %v", id, maxAckedID(maxAcked), e.Key(), err))
					valuesOK = false
					continue
				}
				rt.Ents = append(rt.Ents, c04Ent{Key: append([]byte{}, e.Key()...), Val: v})
			}
			recTxs = append(recTxs, rt)
		}
		// (precommitted txs: their bodies/values are checked below, once they are committed.  ExportTx(allowPrecommitted) is not
		//  used: it maps an unreadable value to a "truncated" one and, on "partially truncated transaction", returns with
		//  _valBsMux still locked so that the next ExportTx blocks for ever — DESIGN F4, property C14)
	}
	if cid > 0 && chainOK && calh != alhs[cid] {
		fail("C03:recovery:chain-broken", "CommittedAlh differs from the Alh of the last committed tx")
	}
	// (4) a client holding an acked state can prove consistency against the recovered state
	if maxAcked != nil && chainOK && cid >= maxAcked.ID {
		src := maxAcked.Hdr
		proof, err := st.DualProof(&src, hdrs[cid])
		if err != nil {
			fail("C03:recovery:proof-fails", fmt.Sprintf("DualProof(%d -> %d): %v", src.ID, cid, err))
		} else if !store.VerifyDualProof(proof, src.ID, cid, maxAcked.Alh, alhs[cid]) {
			fail("C03:recovery:proof-fails", fmt.Sprintf("DualProof(%d -> %d) does not verify", src.ID, cid))
		}
	}
	// recovered precommitted txs can be committed
	st.SetExternalCommitAllowance(false)
	if pid > cid {
		if err := st.WaitForTx(ctx, pid, false); err != nil {
			fail("C03:recovery:cannot-commit", fmt.Sprintf("recovered precommitted txs %d..%d do not get committed: %v", cid+1, pid, err))
		} else {
			for id := cid + 1; id <= pid; id++ {
				if err := st.ReadTx(id, false, tx); err != nil {
					fail("C03:recovery:chain-broken", fmt.Sprintf("tx %d unreadable after committing the recovered precommitted txs: %v", id, err))
					continue
				}
				rt := c04Tx{ID: id}
				for _, e := range tx.Entries() {
					if v, err := st.ReadValue(e); err == nil {
						rt.Ents = append(rt.Ents, c04Ent{Key: append([]byte{}, e.Key()...), Val: v})
					} else {
						fail("C03:recovery:recovered-tx-values-unreadable", fmt.Sprintf("tx %d committed after recovery: value of %s unreadable: %v", id, e.Key(), err))
						valuesOK = false
					}
				}
				recTxs = append(recTxs, rt)
			}
		}
	}
	// (5) index: every index of the store = the comprehension of the recovered committed history (c03_index.go)
	if chainOK && len(obs.Failed) == 0 && valuesOK {
		// cause attribution of READ ERRORS inside the index: known finding 4 needs a never-fsynced tail of an EARLIER chunk file of
		// an index log to be lost (a hole in the image); a read error on an image without such a hole is a different defect
		readErrSig := "C03:recovery:index-inconsistent:read-error"
		if c03IndexLostChunkTail(img) && c03RecoveryFollowsSpec(cfg, img, obs.RecLog) {
			// finding 4: whatever the index returns (an error where the range is a hole, older bytes where a stale tail lies under
			// the lost range) is explained by the lost chunk tail, provided the recovery kept what the documented walk keeps
			readErrSig = "C03:recovery:index-inconsistent:get-error"
			r.Count("recovered.index-log-lost-a-never-fsynced-tail-of-an-earlier-chunk")
			inner := fail
			fail = func(sig, desc string) {
				switch sig {
				case "C03:recovery:index-inconsistent", "C03:recovery:index-inconsistent:history-differs-from-log",
					"C03:recovery:index-inconsistent:scan-differs-from-log", "C03:recovery:index-inconsistent:read-error":
					sig, desc = "C03:recovery:index-inconsistent:get-error", desc+" | cause: an index log lost written, never-fsynced bytes of an earlier chunk file (multiapp.Sync reaches the current chunk only)"
				}
				inner(sig, desc)
			}
		}
		// ... and known findings 5 / 6 need an index commit entry among the snapshots the recovery kept that was never written as a
		// whole (torn over a stale entry) / that is a stale entry of an earlier life past the rewound end
		{
			if csig, why := c03IndexEntryCause(run, img, pt.K, obs.RecLog); csig != "" {
				r.Count("recovered.index-commit-entry-kept-by-recovery." + csig)
				inner := fail
				fail = func(sig, desc string) {
					if strings.HasPrefix(sig, "C03:recovery:index-inconsistent") {
						sig, desc = "C03:recovery:index-inconsistent:"+csig, desc+" | cause: "+why
					}
					inner(sig, desc)
				}
				readErrSig = "C03:recovery:index-inconsistent:" + csig
			}
		}
		ictx, icancel := context.WithTimeout(ctx, 3*time.Second)
		ierr := st.WaitForIndexingUpto(ictx, pid)
		icancel()
		if err := ierr; err != nil {
			// the indexer is stuck: if the index cannot read one of its own nodes this is the read-error class
			probe := ""
			for k := 0; k < cfg.KeySpace && probe == ""; k++ {
				c2, cancel2 := context.WithTimeout(context.Background(), time.Second)
				if _, gerr := st.Get(c2, c03Key(k)); gerr != nil && !errors.Is(gerr, store.ErrKeyNotFound) && !errors.Is(gerr, context.DeadlineExceeded) {
					probe = fmt.Sprintf("Get(%s): %v", c03Key(k), gerr)
				}
				cancel2()
			}
			if probe != "" {
				fail(readErrSig, fmt.Sprintf("indexing stalls (WaitForIndexingUpto(%d): %v) and %s: the recovered index cannot read one of its nodes", pid, err, probe))
			} else {
				// no evidence of a broken index: maybe only a slow machine; give it much more time before calling it a stall
				ictx2, icancel2 := context.WithTimeout(context.Background(), 30*time.Second)
				err2 := st.WaitForIndexingUpto(ictx2, pid)
				icancel2()
				if err2 != nil {
					fail("C03:recovery:index-inconsistent:indexing-stalls", fmt.Sprintf("WaitForIndexingUpto(%d): %v", pid, err2))
				} else {
					r.Count("recovered.indexing-slow-but-completed")
					c03IndexOracle(r, st, cfg, recTxs, pid, maxAckedID(maxAcked), readErrSig, fail)
				}
			}
		} else {
			c03IndexOracle(r, st, cfg, recTxs, pid, maxAckedID(maxAcked), readErrSig, fail)
		}
	}
	// (6) a fresh commit succeeds, is readable and extends the chain
	obs.AckedNew = map[uint64]*c03Tx{}
	if len(obs.Failed) == 0 {
		ntx, err := st.NewWriteOnlyTx(ctx)
		if err == nil {
			val := []byte(fmt.Sprintf("fresh-%d-%d", pt.K, depth))
			err = ntx.Set(c03Key(0), nil, val)
			var hdr *store.TxHeader
			if err == nil {
				hdr, err = ntx.Commit(ctx)
			}
			if err == nil {
				obs.AckedNew[hdr.ID] = &c03Tx{ID: hdr.ID, Hdr: *hdr, Alh: hdr.Alh(), Keys: [][]byte{c03Key(0)}, Vals: [][]byte{val}}
				var root [32]byte
				if hdr.BlTxID > 0 && hdr.BlTxID <= pid {
					leaves := make([][32]byte, hdr.BlTxID)
					for i := uint64(1); i <= hdr.BlTxID; i++ {
						leaves[i-1] = ahtLeaf(alhs[i])
					}
					root = refMth(leaves)
				}
				vr, gerr := st.Get(ctx, c03Key(0))
				switch {
				case hdr.ID != pid+1 || hdr.PrevAlh != alhs[pid]:
					fail("C03:recovery:cannot-commit", fmt.Sprintf("fresh commit got id %d after recovered %d / PrevAlh mismatch", hdr.ID, pid))
				case hdr.BlTxID == 0 && hdr.BlRoot != [32]byte{}:
					fail("C03:recovery:chain-broken:first-tx-blroot-nonzero", fmt.Sprintf("fresh tx %d has BlTxID=0 but BlRoot=%x (left over in the pooled tx holder by the recovery scan)", hdr.ID, hdr.BlRoot[:6]))
				case hdr.BlTxID > 0 && hdr.BlTxID <= pid && root != hdr.BlRoot:
					fail("C03:recovery:chain-broken:fresh-tx-blroot-stale-aht-leaf", fmt.Sprintf("fresh tx %d: BlRoot is not the Merkle root of the first %d recovered Alhs (the hash tree holds a leaf that is not the Alh of the recovered tx)", hdr.ID, hdr.BlTxID))
				case gerr != nil:
					fail("C03:recovery:cannot-commit", fmt.Sprintf("fresh commit unreadable: %v", gerr))
				default:
					if v, e := vr.Resolve(); e != nil || !bytes.Equal(v, val) {
						fail("C03:recovery:cannot-commit", "fresh commit reads back a different value")
					}
				}
			}
		}
		if err != nil {
			fail("C03:recovery:cannot-commit", fmt.Sprintf("fresh commit after recovery: %v", err))
		}
	}
	if len(obs.AckedNew) > 0 {
		obs.PostAck = fs.ImageDurableOnly()
		obs.SessLog = fs.Log()
	}
	closed = true
	if err := st.Close(); err != nil {
		r.Count("recovered.close-error")
	}
	obs.FinalImg = fs.ImageAllWritten()
	return obs
}

func maxAckedID(t *c03Tx) uint64 {
	if t == nil {
		return 0
	}
	return t.ID
}

// ---------------------------------------------------------------------------------------------
// enumeration of crash points and survival choices

type c03Choice struct {
	Name string
	Surv map[string]crashfs.Surv
	All  bool
}

func fileClass(n string) string {
	switch {
	case n == "tx", n == "commit":
		return n
	case strings.HasPrefix(n, "val_"):
		return "val"
	case strings.HasPrefix(n, "aht/"):
		return "aht"
	case strings.HasPrefix(n, "index"):
		return "index"
	}
	return "other"
}

// choices for one crash point. pend: per file the sizes of the written, un-fsynced append fragments.
func c03Choices(rng *hx.Rng, pend map[string][]int, thorough bool, nSample int, idxPct int) []c03Choice {
	out := []c03Choice{{Name: "none-survive"}}
	if len(pend) == 0 {
		return out
	}
	out = append(out, c03Choice{Name: "all-survive", All: true})
	names := make([]string, 0, len(pend))
	for n := range pend {
		names = append(names, n)
	}
	sort.Strings(names)
	full := func(n string) crashfs.Surv { return crashfs.Surv{Segs: len(pend[n])} }
	// adversarial class choices: exactly one class of files survives / is lost
	classes := map[string]bool{}
	for _, n := range names {
		classes[fileClass(n)] = true
	}
	if len(classes) > 1 {
		for c := range classes {
			only := map[string]crashfs.Surv{}
			but := map[string]crashfs.Surv{}
			for _, n := range names {
				if fileClass(n) == c {
					only[n] = full(n)
				} else {
					but[n] = full(n)
				}
			}
			out = append(out, c03Choice{Name: "only-" + c, Surv: only}, c03Choice{Name: "all-but-" + c, Surv: but})
		}
	}
	// torn last write per file (others complete)
	for _, n := range names {
		l := pend[n]
		last := l[len(l)-1]
		if last > 1 && (fileClass(n) != "index" || rng.Chance(10)) {
			s := map[string]crashfs.Surv{}
			for _, m := range names {
				s[m] = full(m)
			}
			s[n] = crashfs.Surv{Segs: len(l) - 1, Torn: 1 + rng.Intn(last-1)}
			out = append(out, c03Choice{Name: "torn-tail-" + fileClass(n), Surv: s})
		}
	}
	if thorough {
		// every per-file prefix at append granularity for the principal logs, the others complete / lost
		for _, n := range names {
			if c := fileClass(n); c != "tx" && c != "commit" && c != "val" && c != "aht" {
				continue
			}
			for k := 0; k < len(pend[n]); k++ {
				for _, others := range []bool{true, false} {
					s := map[string]crashfs.Surv{}
					if others {
						for _, m := range names {
							s[m] = full(m)
						}
					}
					s[n] = crashfs.Surv{Segs: k}
					out = append(out, c03Choice{Name: fmt.Sprintf("prefix-%s-others-%v", fileClass(n), others), Surv: s})
					if pend[n][k] > 1 {
						s2 := map[string]crashfs.Surv{}
						for m, v := range s {
							s2[m] = v
						}
						s2[n] = crashfs.Surv{Segs: k, Torn: 1 + rng.Intn(pend[n][k]-1)}
						out = append(out, c03Choice{Name: fmt.Sprintf("torn-%s-others-%v", fileClass(n), others), Surv: s2})
					}
				}
			}
		}
	}
	// the logs of one index lose their un-fsynced suffixes independently of each other (c03_index.go)
	out = append(out, c03IndexChoices(rng, pend, names, idxPct)...)
	for i := 0; i < nSample; i++ {
		s := map[string]crashfs.Surv{}
		for _, n := range names {
			k := rng.Intn(len(pend[n]) + 1)
			sv := crashfs.Surv{Segs: k}
			if k < len(pend[n]) && pend[n][k] > 1 && rng.Chance(25) {
				sv.Torn = 1 + rng.Intn(pend[n][k]-1)
			}
			s[n] = sv
		}
		out = append(out, c03Choice{Name: "random-prefixes", Surv: s})
	}
	return out
}

type c03Picked struct {
	Img       *crashfs.Image
	Acked     map[uint64]*c03Tx
	Universe  map[[32]byte]bool
	Lineage   string
	Choice    string
	StaleTail [3]int // bytes of the index history / nodes / commit logs past the logical ends the recovery of this image set
}

type c03Stats struct {
	Points, Images, Opened, Dups int
}

// c03Enumerate walks the recorded log, producing and checking crash images.  every: check each every-th crash point (1 = all).
// pick: optionally collects some recovered final images (after the fresh commit) to start a follow-up workload from (double crash).
func c03Enumerate(r *hx.Result, rng *hx.Rng, run *c03Run, thorough bool, nSample int, every int, recurse int, deadline time.Time, pick *[]c03Picked, tr *c03Trace) c03Stats {
	return c03EnumerateL(r, rng, run, thorough, nSample, every, recurse, deadline, pick, tr, nil)
}

// c03EnumerateL: lives != nil collects the crash images themselves (not the cleanly closed store after recovery) that were
// produced by an index-specific survival choice and passed the oracle: the next life of the directory starts from one of them.
func c03EnumerateL(r *hx.Result, rng *hx.Rng, run *c03Run, thorough bool, nSample int, every int, recurse int, deadline time.Time, pick *[]c03Picked, tr *c03Trace, lives *[]c03Picked) c03Stats {
	var stt c03Stats
	state := crashfs.NewState(run.Base, true)
	if run.Cfg.BreakSync != "" {
		state.BreakSync = map[string]bool{run.Cfg.BreakSync: true}
	}
	acked := map[uint64]*c03Tx{}
	for id := range run.Inherit {
		acked[id] = run.Acked[id]
	}
	seen := map[string]bool{}
	ackedList := func() []*c03Tx {
		l := make([]*c03Tx, 0, len(acked))
		for _, t := range acked {
			l = append(l, t)
		}
		return l
	}
	maxAcked := func() uint64 {
		var m uint64
		for id := range acked {
			if id > m {
				m = id
			}
		}
		return m
	}
	// Crash points right after an acknowledgement (and the end of the log) are ALWAYS evaluated, at least with the image in
	// which every un-fsynced write is lost: "every acknowledged tx is present with readable, byte-identical values" must
	// not depend on the time budget, on the stride, or on the survival choices sampled at that point.
	ackOnly := run.Cfg.AckOnly
	for k := 0; k <= len(run.Log); k++ {
		if !ackOnly && time.Now().After(deadline) {
			r.Count("enumeration.stopped-by-time-budget.ack-points-continue")
			ackOnly = true
		}
		afterAck := k > 0 && run.Log[k-1].Kind == crashfs.KMark && run.Log[k-1].Note == "ack" && acked[run.Log[k-1].Arg] != nil
		idxPoint := !run.Cfg.IdxPoints || (k > 0 && c03IsIndexFlushPoint(&run.Log[k-1]))
		if (ackOnly || !idxPoint) && !afterAck && k != len(run.Log) {
			// not a mandatory point
		} else if k%every == 0 || k == len(run.Log) || afterAck || run.Cfg.IdxPoints {
			stt.Points++
			r.Count("crash.points")
			if afterAck {
				r.Count("crash.points.right-after-ack")
			}
			pend := state.Pending()
			idxPct := 12
			if thorough {
				idxPct = 40
			}
			if run.Cfg.IdxPoints {
				idxPct = 100
			}
			if os.Getenv("VERIF_C03_ONLY") == "first-version" {
				idxPct = 0 // measurement aid: the enumeration of the first version of the check (no per-index-log choices, no lives)
			}
			choices := c03Choices(rng, pend, thorough, nSample, idxPct)
			if run.Cfg.IdxPoints && !ackOnly {
				// index-focused enumeration: the class choices and the torn tails of the principal logs are covered by the regular workloads
				kept := choices[:0:0]
				for _, ch := range choices {
					if ch.Name == "none-survive" || ch.Name == "all-survive" || strings.HasPrefix(ch.Name, "idx-") || ch.Name == "random-prefixes" {
						kept = append(kept, ch)
					}
				}
				choices = kept
			}
			if ackOnly {
				choices = choices[:1] // none-survive
				if k == len(run.Log) && len(pend) > 0 {
					choices = append(choices, c03Choice{Name: "all-survive", All: true})
				}
			}
			for _, ch := range choices {
				img := state.Image(ch.Surv, ch.All)
				stt.Images++
				h := img.Hash()
				key := fmt.Sprintf("%x-%d", h[:12], maxAcked())
				if seen[key] {
					stt.Dups++
					r.Count("crash.images.duplicate-of-checked-image")
					continue
				}
				seen[key] = true
				if run.Cfg.IdxPoints && !afterAck && k != len(run.Log) {
					// lives: one image per (crash point, fate of the principal logs, pattern the index recovery will see)
					core := "part"
					if ch.All {
						core = "all"
					} else if len(ch.Surv) == 0 {
						core = "none"
					} else {
						for n, sv := range ch.Surv {
							if c03IdxLogOf(n) == "" {
								core = fmt.Sprintf("%v", sv.Segs >= len(pend[n]) && sv.Torn == 0)
								break
							}
						}
					}
					pk := fmt.Sprintf("pat-%d-%s-%s", k, core, c03IndexPattern(run.Cfg, img))
					if seen[pk] {
						r.Count("crash.images.same-index-recovery-pattern-as-a-checked-image")
						continue
					}
					seen[pk] = true
				}
				r.Count("crash.choice." + strings.Split(ch.Name, "-others")[0])
				pt := c03Point{K: k, Choice: ch.Name}
				obs := c03Check(r, run, img, ackedList(), pt, 0)
				stt.Opened++
				r.Count("crash.images.opened")
				r.Eval(key, true)
				// what this image does to the index logs (counters) + which snapshot the real recovery selected vs the model's walk
				staleTail := c03IndexMeasure(r, run, state, img, ch, obs)
				if lives != nil && obs.OpenErr == "" && len(obs.Failed) == 0 && strings.HasPrefix(ch.Name, "idx-") {
					a := map[uint64]*c03Tx{}
					for id, t := range acked {
						a[id] = t
					}
					u := map[[32]byte]bool{}
					for x := range run.Universe {
						u[x] = true
					}
					*lives = append(*lives, c03Picked{Img: img, Acked: a, Universe: u, Choice: ch.Name, StaleTail: staleTail,
						Lineage: run.Lineage + fmt.Sprintf(" -> crash@%d[%s]", k, ch.Name)})
				}
				if obs.OpenErr == "" {
					r.Count(fmt.Sprintf("recovered.lost-unacked=%v", obs.Precomm < c03MaxPrecommitted(run, k)))
					if obs.Precomm > obs.Committed {
						r.Count("recovered.with-precommitted-backlog")
					}
				}
				if tr != nil {
					tr.image(r, run, k, img, obs)
				}
				// second crash DURING recovery: enumerate the recovery's own storage ops
				if recurse > 0 && !ackOnly && obs.OpenErr == "" && len(obs.RecLog) > 0 && (thorough || rng.Chance(recurse)) {
					sub := &c03Run{Cfg: run.Cfg, Base: img, Log: obs.RecLog, Acked: run.Acked, Inherit: map[uint64]bool{}, Universe: run.Universe,
						Lineage: run.Lineage + fmt.Sprintf(" -> crash@%d[%s] -> crash during recovery", k, ch.Name)}
					for id := range acked {
						sub.Inherit[id] = true
					}
					s2 := c03Enumerate(r, rng, sub, false, 1, 1, 0, deadline, nil, nil)
					r.CountN("crash.during-recovery.images-opened", s2.Opened)
					stt.Opened += s2.Opened
					stt.Images += s2.Images
				}
				// second crash right after the recovered store acknowledged a fresh commit (only durable data survives)
				if recurse > 0 && !ackOnly && obs.PostAck != nil && len(obs.Failed) == 0 && (thorough || rng.Chance(4*recurse)) {
					a2 := ackedList()
					for _, t := range obs.AckedNew {
						a2 = append(a2, t)
						run.Universe[t.Alh] = true
					}
					// the life that produced this image is the oracle's own session on img: its ops are the log of the sub-run
					sub := &c03Run{Cfg: run.Cfg, Base: img, Log: obs.SessLog, Acked: run.Acked, Universe: run.Universe,
						Lineage: run.Lineage + fmt.Sprintf(" -> crash@%d[%s] -> recovered, 1 fresh commit acked -> power loss", k, ch.Name)}
					o2 := c03Check(r, sub, obs.PostAck, a2, c03Point{K: len(obs.SessLog), Choice: ch.Name + " then durable-only after fresh commit"}, 1)
					r.Count("crash.after-recovery-and-commit.images-opened")
					stt.Opened++
					_ = o2
				}
				if pick != nil && obs.OpenErr == "" && len(obs.Failed) == 0 && obs.FinalImg != nil && len(*pick) < 64 && rng.Chance(8) {
					a := map[uint64]*c03Tx{}
					for id, t := range acked {
						a[id] = t
					}
					for id, t := range obs.AckedNew {
						a[id] = t
					}
					u := map[[32]byte]bool{}
					for x := range run.Universe {
						u[x] = true
					}
					for _, t := range obs.AckedNew {
						u[t.Alh] = true
					}
					*pick = append(*pick, c03Picked{Img: obs.FinalImg, Acked: a, Universe: u,
						Lineage: run.Lineage + fmt.Sprintf(" -> crash@%d[%s] -> recovered+1 commit", k, ch.Name)})
				}
			}
		}
		if k < len(run.Log) {
			op := run.Log[k]
			if op.Kind == crashfs.KMark {
				if op.Note == "ack" {
					if t := run.Acked[op.Arg]; t != nil {
						acked[op.Arg] = t
					}
				}
			} else {
				op.Auto = ""
				state.Apply(&op)
				if op.Kind == crashfs.KSync {
					if p := state.Pending()[op.File]; len(p) > 0 {
						// Sync() reached only the current chunk: an earlier chunk still holds written, never fsynced bytes
						r.Count("crash.sync-left-unsynced-bytes-in-earlier-chunk." + fileClass(op.File))
						if os.Getenv("VERIF_C03_DEBUG") != "" {
							fmt.Fprintf(os.Stderr, "DEBUG %s k=%d file=%s pending=%v size=%d\n", run.Cfg.Name, k, op.File, p, state.LogicalSize(op.File))
						}
					}
				}
			}
			if tr != nil {
				tr.step(r, run, k)
			}
		}
	}
	return stt
}

// highest id precommitted (tx record appended) within the first k ops of the run (0 when unknown)
func c03MaxPrecommitted(run *c03Run, k int) uint64 {
	var m uint64
	for i := 0; i < k && i < len(run.Log); i++ {
		op := run.Log[i]
		if op.Kind == crashfs.KAppend && op.File == "tx" && op.Len >= 124 {
			if id := binary.BigEndian.Uint64(op.Data); id == m+1 {
				m = id
			}
		}
	}
	return m
}

// ---------------------------------------------------------------------------------------------

func c03Configs(rng *hx.Rng, thorough bool) []c03Cfg {
	base := c03Cfg{FileSize: 1 << 20, WriteBuf: 4096, MaxActive: 8, AhtSyncThld: 1000, AhtWriteBuf: 4096, IdxFlush: 3, IdxSync: 6, IOConc: 1,
		Committers: 1, NTx: 6, HdrVersion: 1, KeySpace: 5, MaxVal: 40}
	mk := func(name string, f func(c *c03Cfg)) c03Cfg {
		c := base
		c.Name = name
		f(&c)
		return c
	}
	cfgs := []c03Cfg{
		mk("seq-vlog", func(c *c03Cfg) { c.FlushIdx = true }),
		mk("seq-embedded", func(c *c03Cfg) { c.Embedded = true; c.HdrVersion = 0 }),
		mk("seq-small-buffers", func(c *c03Cfg) { c.WriteBuf = 96; c.AhtWriteBuf = 64; c.MaxVal = 100; c.NTx = 7 }),
		mk("seq-chunk-rotation", func(c *c03Cfg) { c.FileSize = 300; c.NTx = 8; c.FlushIdx = true }),
		mk("seq-aht-sync-2", func(c *c03Cfg) { c.AhtSyncThld = 2; c.NTx = 7 }),
		mk("concurrent-3", func(c *c03Cfg) { c.Committers = 3; c.NTx = 9; c.IOConc = 2; c.MaxActive = 4 }),
		mk("concurrent-small-buffers", func(c *c03Cfg) { c.Committers = 3; c.NTx = 9; c.WriteBuf = 128; c.MaxVal = 90; c.MaxActive = 3 }),
		mk("allowance-backlog", func(c *c03Cfg) { c.Allowance = true; c.NTx = 8; c.MaxActive = 4 }),
		mk("allowance-embedded-rotation", func(c *c03Cfg) { c.Allowance = true; c.Embedded = true; c.FileSize = 400; c.NTx = 8; c.MaxActive = 3 }),
		mk("clean-close", func(c *c03Cfg) { c.CleanClose = true; c.NTx = 5; c.FlushIdx = true }),
		mk("allowance-discard", func(c *c03Cfg) { c.Allowance = true; c.Discard = true; c.NTx = 9; c.MaxActive = 4; c.AhtSyncThld = 1 }),
	}
	if thorough {
		// concurrent committers with 1..3 value logs under full enumeration
		for ioc := 1; ioc <= 3; ioc++ {
			ioc := ioc
			cfgs = append(cfgs, mk(fmt.Sprintf("concurrent-4-ioc%d", ioc), func(c *c03Cfg) { c.Committers = 4; c.NTx = 12; c.IOConc = ioc; c.MaxActive = 6 }))
		}
		for i := 0; i < 10; i++ {
			cfgs = append(cfgs, mk(fmt.Sprintf("random-%d", i), func(c *c03Cfg) {
				c.Embedded = rng.Bool()
				c.FileSize = []int{256, 400, 1000, 1 << 20}[rng.Intn(4)]
				c.WriteBuf = []int{64, 128, 300, 4096}[rng.Intn(4)]
				c.AhtWriteBuf = []int{48, 128, 4096}[rng.Intn(3)]
				c.MaxActive = 2 + rng.Intn(6)
				c.AhtSyncThld = []int{1, 2, 3, 1000}[rng.Intn(4)]
				c.IdxFlush = 1 + rng.Intn(5)
				c.IdxSync = c.IdxFlush * (1 + rng.Intn(3))
				c.Committers = 1 + rng.Intn(3)
				if !c.Embedded {
					c.IOConc = 1 + rng.Intn(3)
				}
				c.Allowance = rng.Chance(35)
				c.Discard = c.Allowance && rng.Chance(40)
				c.NTx = 6 + rng.Intn(8)
				c.HdrVersion = rng.Intn(2)
				c.FlushIdx = rng.Bool()
				c.CleanClose = rng.Chance(30)
				c.MaxVal = 20 + rng.Intn(100)
			}))
		}
	}
	return cfgs
}

// c03SchedConfigs: concurrent committers whose interleaving with the durability round is controlled through the storage layer.
// For MaxIOConcurrency 1..3 and every log the round touches (each value log, the tx log, the commit log) the two boundaries of
// that log's part of the round (before its Flush, after its Sync) are used as scheduling points: 1-2 late committers are
// started there and run as far as the store lets them.  The position of the late committers' values relative to the value-log
// fsyncs of the round varies with the point, with MaxIOConcurrency and with the rotation of the unlocked value logs (Prime).
func c03SchedConfigs(rng *hx.Rng, thorough bool) []c03Cfg {
	var cfgs []c03Cfg
	for ioc := 1; ioc <= 3; ioc++ {
		files := []string{"tx", "commit"}
		for i := 0; i < ioc; i++ {
			files = append(files, fmt.Sprintf("val_%d", i))
		}
		for _, f := range files {
			for _, pre := range []bool{true, false} {
				kind, ph := crashfs.KSync, "after-sync"
				if pre {
					kind, ph = crashfs.KFlush, "before-flush"
				}
				reps := 1
				if thorough {
					reps = 3
				}
				for rep := 0; rep < reps; rep++ {
					c := c03Cfg{Name: fmt.Sprintf("sched-ioc%d-%s-%s", ioc, ph, f), FileSize: 1 << 20, WriteBuf: 4096, MaxActive: 8, AhtSyncThld: 1000, AhtWriteBuf: 4096,
						IdxFlush: 3, IdxSync: 6, IOConc: ioc, Committers: 1, HdrVersion: 1, KeySpace: 5, MaxVal: 40, AckOnly: !(thorough && rng.Chance(15)),
						Sched: &c03Sched{File: f, Kind: kind, Pre: pre, Late: 1 + rng.Intn(2), Prime: rng.Intn(3), Rounds: 2}}
					if rng.Chance(25) {
						c.WriteBuf = 128 // buffer-full auto-syncs inside the appends of the late committers
					}
					c.NTx = c.Sched.Prime + c.Sched.Rounds*(1+c.Sched.Late)
					cfgs = append(cfgs, c)
				}
			}
		}
	}
	return cfgs
}

func runC03(r *hx.Result, rng *hx.Rng, thorough bool, replay string) error {
	r.Rule = "part A: random op sequences on crashfs vs the real multiapp (every answer compared). part B: workloads on a real store.Open (synced, small buffers / chunks / " +
		"MaxActiveTransactions, concurrent committers, external-allowance backlog, discards, index flushes, clean close) recorded on crashfs; for every crash point between two storage ops " +
		"a set of survival choices (none, all, one file class only / all but one class, torn tail per file, random per-file prefixes; thorough: every per-file prefix at append granularity " +
		"+ torn) is materialised and the REAL store.Open is run on it; clauses (1)-(6) are evaluated; sampled images are crashed again during recovery and after recovery+commit (double crash). " +
		"An evaluation is non-trivial when the image was actually opened; distinct by image hash + acked frontier. part C (c03_index.go): the three logs of every index are cut " +
		"independently (one log loses all / keeps all alone / keeps a proper prefix, random prefixes, torn), index-flush-heavy workloads (several un-fsynced snapshots with and without " +
		"history append, secondary indexes, clean close), trees of lives of one directory (the next life starts from a crash image with stale tails; up to 3 crashes); on every index " +
		"Get / History / full history scan = comprehension of the recovered tx log; the commit-log walk of OpenWith is tied to the Lean model (c03 idxwalk)."
	if pf := os.Getenv("VERIF_C03_PROF"); pf != "" {
		f, _ := os.Create(pf)
		pprof.StartCPUProfile(f)
		defer pprof.StopCPUProfile()
	}
	// scratch on tmpfs when available: the real multiapp of part A fsyncs constantly, the stores of part B create/remove directories
	if fi, err := os.Stat("/dev/shm"); err == nil && fi.IsDir() {
		if base, err := os.MkdirTemp("/dev/shm", "vh-c03-"); err == nil {
			old := os.Getenv("VERIF_SCRATCH")
			os.Setenv("VERIF_SCRATCH", base)
			defer func() { os.Setenv("VERIF_SCRATCH", old); os.RemoveAll(base) }()
		}
	}
	start := time.Now()
	budget := 36 * time.Second
	livesBudget := 20 * time.Second
	if thorough {
		budget = 9 * time.Minute
		livesBudget = 2 * time.Minute
	}
	deadline := start.Add(budget)

	// ---- part A
	nA := 80
	if thorough {
		nA = 600
	}
	only := os.Getenv("VERIF_C03_ONLY") // debugging aid: "targeted" | "sched"
	if only == "sched" || only == "idxlives" {
		nA = 0
	}
	for i := 0; i < nA; i++ {
		r.NextCase()
		if err := c03FsDiffCase(r, rng.Fork(), 120); err != nil {
			return err
		}
	}

	r.Extra["part_a_seconds"] = time.Since(start).Seconds()
	deadline = time.Now().Add(budget)

	// ---- part B
	cfgs := c03Configs(rng, thorough)
	if strings.HasPrefix(only, "cfg=") {
		// debugging aid: only the part B workload of that name (same configuration stream as a full run of the tier)
		var keep []c03Cfg
		for _, c := range cfgs {
			if c.Name == strings.TrimPrefix(only, "cfg=") {
				keep = append(keep, c)
			}
		}
		cfgs = keep
	} else if only != "" && only != "first-version" {
		cfgs = nil
	}
	var tot c03Stats
	var picked []c03Picked
	perCfg := time.Until(deadline) * 7 / 10 / time.Duration(len(cfgs)+1)
	for ci, cfg := range cfgs {
		r.NextCase()
		r.Count("workload." + cfg.Name)
		wr := rng.Fork()
		run, err := c03Workload(r, wr, cfg, nil, nil, nil, cfg.Name)
		if err != nil {
			return err
		}
		if len(run.Notes) > 0 {
			r.Notes = append(r.Notes, cfg.Name+": "+strings.Join(run.Notes, "; "))
		}
		r.CountN("workload.storage-ops", len(run.Log))
		var tr *c03Trace
		if !cfg.Discard {
			tr = newC03Trace(cfg)
		}
		nSample, rec := 1, 3
		if thorough {
			nSample, rec = 3, 5
		}
		dl := time.Now().Add(perCfg)
		if dl.After(deadline) {
			dl = deadline
		}
		s := c03Enumerate(r, rng.Fork(), run, thorough, nSample, 1, rec, dl, &picked, tr)
		tot.Points += s.Points
		tot.Images += s.Images
		tot.Opened += s.Opened
		tot.Dups += s.Dups
		if ci < 6 {
			r.Sample(map[string]interface{}{"workload": cfg.String(), "storage_ops": len(run.Log), "crash_points": s.Points, "images": s.Images, "opened": s.Opened, "acked": len(run.Acked)})
		}
	}
	// ---- scheduled concurrent committers (interleaving controlled through the storage layer)
	schedStart := time.Now()
	scfgs := c03SchedConfigs(rng.Fork(), thorough)
	if only == "targeted" || only == "idxlives" || strings.HasPrefix(only, "cfg=") {
		scfgs = nil
	}
	for _, cfg := range scfgs {
		r.NextCase()
		r.Count("workload.sched")
		run, err := c03Workload(r, rng.Fork(), cfg, nil, nil, nil, cfg.Name)
		if err != nil {
			return err
		}
		if len(run.Notes) > 0 {
			r.Notes = append(r.Notes, cfg.Name+": "+strings.Join(run.Notes, "; "))
		}
		r.CountN("workload.storage-ops", len(run.Log))
		dl := deadline
		if thorough {
			dl = time.Now().Add(6 * time.Second) // only the (sampled) fully enumerated ones use it
		}
		s := c03Enumerate(r, rng.Fork(), run, false, 0, 1, 0, dl, nil, newC03Trace(cfg))
		r.CountN("sched.images-opened", s.Opened)
		tot.Points += s.Points
		tot.Images += s.Images
		tot.Opened += s.Opened
		tot.Dups += s.Dups
	}
	r.Extra["sched_workloads"] = len(scfgs)
	r.Extra["sched_seconds"] = time.Since(schedStart).Seconds()
	// ---- double crash: a workload started from a recovered image (recovered after a crash + one fresh commit), crashed again
	nD := 0
	for _, p := range picked {
		if time.Now().After(deadline) {
			r.Count("double-crash.skipped-by-time-budget")
			continue
		}
		r.NextCase()
		cfg := cfgs[0]
		for _, c := range cfgs {
			if strings.HasPrefix(p.Lineage, c.Name) {
				cfg = c
			}
		}
		cfg.NTx = 3
		cfg.Committers = 1
		cfg.Allowance, cfg.Discard, cfg.CleanClose = false, false, false
		run, err := c03Workload(r, rng.Fork(), cfg, p.Img, p.Acked, p.Universe, p.Lineage+" -> workload")
		if err != nil {
			r.Fail("C03:recovery:open-fails", err.Error(), map[string]interface{}{"lineage": p.Lineage})
			continue
		}
		nD++
		r.Count("double-crash.workloads")
		every := 1
		if !thorough {
			every = 2
		}
		s := c03Enumerate(r, rng.Fork(), run, false, 1, every, 0, deadline, nil, nil)
		r.CountN("double-crash.images-opened", s.Opened)
		tot.Points += s.Points
		tot.Images += s.Images
		tot.Opened += s.Opened
		tot.Dups += s.Dups
	}
	// ---- lives of a directory with several crashes, index-flush-heavy workloads, index logs cut independently (c03_index.go)
	if strings.HasPrefix(only, "cfg=") {
		return nil
	}
	if only == "" || only == "idxlives" {
		s := c03IndexLives(r, rng.Fork(), thorough, time.Now().Add(livesBudget))
		tot.Points += s.Points
		tot.Images += s.Images
		tot.Opened += s.Opened
		tot.Dups += s.Dups
	}
	if only == "idxlives" {
		return nil
	}
	if only == "sched" {
		return nil
	}
	// ---- self-test: the oracle must notice a missing fsync
	if err := c03SelfTest(r); err != nil {
		return err
	}
	// ---- targeted scenarios
	if err := c03Targeted(r, rng.Fork(), thorough); err != nil {
		return err
	}
	r.Extra["crash_points"] = tot.Points
	r.Extra["images_generated"] = tot.Images
	r.Extra["images_opened"] = tot.Opened
	r.Extra["images_duplicate"] = tot.Dups
	r.Extra["double_crash_workloads"] = nD
	if tot.Opened < 300 && os.Getenv("VERIF_C03_ONLY") == "" {
		r.Inconclusive = append(r.Inconclusive, fmt.Sprintf("only %d crash images were opened", tot.Opened))
	}
	return nil
}
