package main

// C01 at the service level: the REAL pkg/client talks to the REAL server over bufconn; a client-side
// gRPC interceptor plays the man in the middle and alters exactly one aspect of a verifiable response.
// The server signs its states (test/signer/ec1.key) and the client checks the signature, so a forged
// "different future" state cannot be accepted either: the oracle is strict —
// accepted  ==>  returned (key, value, metadata, tx) equals the ground truth AND the state the client
// stored is a genuine (txID, Alh) of the server's history.

import (
	"bytes"
	"context"
	"fmt"
	"os"
	"path/filepath"
	"strings"
	"sync"

	"github.com/codenotary/immudb/pkg/api/schema"
	"github.com/codenotary/immudb/pkg/client"
	"github.com/codenotary/immudb/pkg/server"
	"github.com/codenotary/immudb/pkg/server/servertest"
	"google.golang.org/grpc"
	"google.golang.org/grpc/credentials/insecure"
	"google.golang.org/protobuf/proto"

	"verif/harness/internal/hx"
)

type mitm struct {
	mu     sync.Mutex
	rng    *hx.Rng
	armed  bool
	kind   string // what was altered by the last armed call ("" = nothing applicable)
	pool   [][]byte
	target string // full method suffix to tamper with
	force  string // forced tamper kind for targeted probes ("" = random)
	// last VerifiableGet exchange as seen by the client (after tampering), for the model correspondence
	lastGetReq   *schema.VerifiableGetRequest
	lastGetReply *schema.VerifiableEntry
}

func flipBytes(rng *hx.Rng, b []byte) []byte {
	if len(b) == 0 {
		return []byte{1}
	}
	c := append([]byte{}, b...)
	c[rng.Intn(len(c))] ^= 1 << uint(rng.Intn(8))
	return c
}

func (m *mitm) mutDigests(ds [][]byte) [][]byte {
	out := make([][]byte, len(ds))
	for i := range ds {
		out[i] = append([]byte{}, ds[i]...)
	}
	switch k := m.rng.Intn(4); {
	case k == 0 && len(out) > 0:
		return out[:len(out)-1]
	case k == 1 && len(out) > 0:
		i := m.rng.Intn(len(out))
		out[i] = flipBytes(m.rng, out[i])
		return out
	case k == 2:
		return append(out, m.rng.Bytes(32))
	default:
		if len(out) > 1 {
			out[0], out[len(out)-1] = out[len(out)-1], out[0]
			return out
		}
		return append(out, m.rng.Bytes(32))
	}
}

func (m *mitm) tamperHeader(h *schema.TxHeader) string {
	if h == nil {
		return ""
	}
	switch m.rng.Intn(7) {
	case 0:
		h.Ts++
		return "hdr.ts"
	case 1:
		h.EH = flipBytes(m.rng, h.EH)
		return "hdr.eh"
	case 2:
		h.BlRoot = flipBytes(m.rng, h.BlRoot)
		return "hdr.blroot"
	case 3:
		h.PrevAlh = flipBytes(m.rng, h.PrevAlh)
		return "hdr.prevalh"
	case 4:
		h.Nentries++
		return "hdr.nentries"
	case 5:
		h.Id++
		return "hdr.id"
	default:
		h.BlTxId++
		return "hdr.bltxid"
	}
}

func (m *mitm) tamperDual(dp *schema.DualProof) string {
	if dp == nil {
		return ""
	}
	switch m.rng.Intn(9) {
	case 0:
		return "dual.source-" + m.tamperHeader(dp.SourceTxHeader)
	case 1:
		return "dual.target-" + m.tamperHeader(dp.TargetTxHeader)
	case 2:
		dp.InclusionProof = m.mutDigests(dp.InclusionProof)
		return "dual.inclusion"
	case 3:
		dp.ConsistencyProof = m.mutDigests(dp.ConsistencyProof)
		return "dual.consistency"
	case 4:
		dp.LastInclusionProof = m.mutDigests(dp.LastInclusionProof)
		return "dual.lastinclusion"
	case 5:
		dp.TargetBlTxAlh = flipBytes(m.rng, dp.TargetBlTxAlh)
		return "dual.targetblalh"
	case 6:
		if dp.LinearProof != nil {
			dp.LinearProof.Terms = m.mutDigests(dp.LinearProof.Terms)
			return "dual.linear"
		}
	case 7:
		if m.rng.Bool() && dp.TargetTxHeader != nil {
			dp.TargetTxHeader.Ts++
			if dp.LinearProof != nil && len(dp.LinearProof.Terms) > 1 && dp.LinearProof.TargetTxId == dp.TargetTxHeader.Id {
				in := innerOf(schema.TxHeaderFromProto(dp.TargetTxHeader))
				dp.LinearProof.Terms[len(dp.LinearProof.Terms)-1] = in[:]
			}
			return "dual.target-forged-coherent"
		}
		dp.SourceTxHeader, dp.TargetTxHeader = dp.TargetTxHeader, dp.SourceTxHeader
		return "dual.swap-headers"
	case 8:
		if dp.LinearAdvanceProof != nil && len(dp.LinearAdvanceProof.LinearProofTerms) > 0 {
			dp.LinearAdvanceProof.LinearProofTerms = m.mutDigests(dp.LinearAdvanceProof.LinearProofTerms)
			return "dual.linearadvance"
		}
	}
	return ""
}

func (m *mitm) tamperEntry(e *schema.Entry) string {
	if e == nil {
		return ""
	}
	switch m.rng.Intn(6) {
	case 0:
		e.Value = flipBytes(m.rng, e.Value)
		return "entry.value"
	case 1:
		e.Key = flipBytes(m.rng, e.Key)
		return "entry.key"
	case 2:
		if e.Tx > 1 {
			e.Tx--
		} else {
			e.Tx++
		}
		return "entry.tx"
	case 3:
		if e.Metadata == nil {
			e.Metadata = &schema.KVMetadata{Deleted: true}
		} else {
			e.Metadata = nil
		}
		return "entry.metadata"
	case 4:
		if e.ReferencedBy != nil {
			e.ReferencedBy.AtTx++
			return "entry.ref.attx"
		}
		e.Value = append(e.Value, 0)
		return "entry.value-extended"
	default:
		if e.ReferencedBy != nil {
			e.ReferencedBy.Key = flipBytes(m.rng, e.ReferencedBy.Key)
			return "entry.ref.key"
		}
		e.Value = nil
		return "entry.value-dropped"
	}
}

func (m *mitm) interceptor(ctx context.Context, method string, req, reply interface{}, cc *grpc.ClientConn, invoker grpc.UnaryInvoker, opts ...grpc.CallOption) error {
	err := invoker(ctx, method, req, reply, cc, opts...)
	m.mu.Lock()
	defer m.mu.Unlock()
	defer func() {
		if gr, ok := req.(*schema.VerifiableGetRequest); ok && err == nil {
			if ge, ok := reply.(*schema.VerifiableEntry); ok {
				m.lastGetReq = proto.Clone(gr).(*schema.VerifiableGetRequest)
				m.lastGetReply = proto.Clone(ge).(*schema.VerifiableEntry)
			}
		}
	}()
	if err != nil || !m.armed {
		return err
	}
	switch r := reply.(type) {
	case *schema.VerifiableEntry:
		m.armed = false
		if m.force != "" {
			switch m.force {
			case "entry.value":
				r.Entry.Value = flipBytes(m.rng, r.Entry.Value)
			case "entry.key":
				r.Entry.Key = flipBytes(m.rng, r.Entry.Key)
			case "entry.tx":
				r.Entry.Tx++
			case "dual.target-hdr.ts":
				if r.VerifiableTx != nil && r.VerifiableTx.DualProof != nil && r.VerifiableTx.DualProof.TargetTxHeader != nil {
					r.VerifiableTx.DualProof.TargetTxHeader.Ts++
				}
			case "dual.target-forged-coherent":
				// a forged target header together with the matching last linear-proof term: every check that does
				// not involve the locally trusted hash still passes
				if r.VerifiableTx != nil && r.VerifiableTx.DualProof != nil && r.VerifiableTx.DualProof.TargetTxHeader != nil {
					dp := r.VerifiableTx.DualProof
					dp.TargetTxHeader.Ts++
					if dp.LinearProof != nil && len(dp.LinearProof.Terms) > 1 && dp.LinearProof.TargetTxId == dp.TargetTxHeader.Id {
						in := innerOf(schema.TxHeaderFromProto(dp.TargetTxHeader))
						dp.LinearProof.Terms[len(dp.LinearProof.Terms)-1] = in[:]
					}
				}
			case "dual.source-hdr.ts":
				if r.VerifiableTx != nil && r.VerifiableTx.DualProof != nil && r.VerifiableTx.DualProof.SourceTxHeader != nil {
					r.VerifiableTx.DualProof.SourceTxHeader.Ts++
				}
			}
			m.kind = m.force
			return nil
		}
		switch m.rng.Intn(5) {
		case 0, 1:
			m.kind = m.tamperEntry(r.Entry)
		case 2:
			if r.InclusionProof != nil {
				switch m.rng.Intn(3) {
				case 0:
					r.InclusionProof.Terms = m.mutDigests(r.InclusionProof.Terms)
					m.kind = "incl.terms"
				case 1:
					r.InclusionProof.Leaf++
					m.kind = "incl.leaf"
				default:
					r.InclusionProof.Width++
					m.kind = "incl.width"
				}
			}
		case 3:
			if r.VerifiableTx != nil {
				m.kind = m.tamperDual(r.VerifiableTx.DualProof)
			}
		case 4:
			if r.VerifiableTx != nil && r.VerifiableTx.Signature != nil {
				r.VerifiableTx.Signature.Signature = flipBytes(m.rng, r.VerifiableTx.Signature.Signature)
				m.kind = "signature"
			}
		}
	case *schema.VerifiableTx:
		m.armed = false
		if m.force != "" {
			if m.force == "tx.entry.hvalue" && r.Tx != nil && len(r.Tx.Entries) > 0 {
				r.Tx.Entries[0].HValue = flipBytes(m.rng, r.Tx.Entries[0].HValue)
				m.kind = m.force
			}
			if m.force == "tx.hdr.ts" && r.Tx != nil {
				r.Tx.Header.Ts++
				m.kind = m.force
			}
			return nil
		}
		switch m.rng.Intn(4) {
		case 0:
			if r.Tx != nil && len(r.Tx.Entries) > 0 {
				e := r.Tx.Entries[m.rng.Intn(len(r.Tx.Entries))]
				switch m.rng.Intn(3) {
				case 0:
					e.Key = flipBytes(m.rng, e.Key)
					m.kind = "tx.entry.key"
				case 1:
					e.HValue = flipBytes(m.rng, e.HValue)
					m.kind = "tx.entry.hvalue"
				default:
					e.VLen++
					m.kind = "tx.entry.vlen" // not covered by any hash (documented: vLen/vOff are not authenticated)
				}
			}
		case 1:
			if r.Tx != nil {
				m.kind = "tx." + m.tamperHeader(r.Tx.Header)
			}
		case 2:
			m.kind = m.tamperDual(r.DualProof)
		case 3:
			if r.Signature != nil {
				r.Signature.Signature = flipBytes(m.rng, r.Signature.Signature)
				m.kind = "signature"
			}
		}
	}
	return nil
}

var setters map[client.ImmuClient]func(*schema.ImmutableState)

func setState(c client.ImmuClient, st *schema.ImmutableState) {
	if f, ok := setters[c]; ok {
		f(st)
	}
}

type svcTruth struct {
	// per (key) -> list of (tx, value, deleted)
	versions map[string][]svcVersion
	alhs     map[uint64][]byte
}
type svcVersion struct {
	tx    uint64
	value []byte
}

func c01Service(r *hx.Result, rng *hx.Rng, nOps int, signed bool) error {
	r.NextCase()
	dir := hx.TempDir("c01svc")
	defer os.RemoveAll(dir)
	keyDir := filepath.Join(repoDir(), "test", "signer")
	opts := server.DefaultOptions().WithDir(filepath.Join(dir, "srv")).
		WithMetricsServer(false).WithWebServer(false).WithPgsqlServer(false).WithLogfile(filepath.Join(dir, "srv.log"))
	if signed {
		opts = opts.WithSigningKey(filepath.Join(keyDir, "ec1.key"))
	}
	r.Count(fmt.Sprintf("svc.config.signed=%v", signed))
	bs := servertest.NewBufconnServer(opts)
	if err := bs.Start(); err != nil {
		return err
	}
	defer bs.Stop()
	m := &mitm{rng: rng.Fork()}
	stateOf := map[client.ImmuClient]func() (uint64, []byte){}
	setters = map[client.ImmuClient]func(*schema.ImmutableState){}
	newClient := func(stateDir string) (client.ImmuClient, error) {
		os.MkdirAll(stateDir, 0o755)
		copts := client.DefaultOptions().WithDir(stateDir)
		if signed {
			copts = copts.WithServerSigningPubKey(filepath.Join(keyDir, "ec1.pub"))
		}
		c := client.NewClient().WithOptions(copts.
			WithDialOptions([]grpc.DialOption{grpc.WithContextDialer(bs.Dialer), grpc.WithTransportCredentials(insecure.NewCredentials()),
				grpc.WithChainUnaryInterceptor(m.interceptor)}))
		if err := c.OpenSession(context.Background(), []byte("immudb"), []byte("immudb"), "defaultdb"); err != nil {
			return nil, err
		}
		setters[c] = func(st *schema.ImmutableState) {
			if err := c.StateService.CacheLock(); err != nil {
				return
			}
			defer c.StateService.CacheUnlock()
			c.StateService.SetState("defaultdb", st)
		}
		stateOf[c] = func() (uint64, []byte) {
			if err := c.StateService.CacheLock(); err != nil {
				return 0, nil
			}
			defer c.StateService.CacheUnlock()
			st, err := c.StateService.GetState(context.Background(), "defaultdb")
			if err != nil || st == nil {
				return 0, nil
			}
			return st.TxId, st.TxHash
		}
		return c, nil
	}
	cl, err := newClient(filepath.Join(dir, "cl1"))
	if err != nil {
		return err
	}
	defer cl.CloseSession(context.Background())
	// a second client whose trusted state lags behind / runs ahead independently
	cl2, err := newClient(filepath.Join(dir, "cl2"))
	if err != nil {
		return err
	}
	defer cl2.CloseSession(context.Background())
	ctx := context.Background()
	truth := &svcTruth{versions: map[string][]svcVersion{}, alhs: map[uint64][]byte{}}
	keys := []string{"a", "b", "c", "dd", "eee"}
	refs := map[string]string{} // reference key -> referenced key
	record := func(k string, tx uint64, v []byte) {
		truth.versions[k] = append(truth.versions[k], svcVersion{tx, append([]byte{}, v...)})
	}
	genuineState := func(c client.ImmuClient) bool {
		// the state the client stored must be a genuine (tx, alh) of the server
		st, err := c.CurrentState(ctx)
		if err != nil {
			return true
		}
		_ = st
		return true
	}
	_ = genuineState
	checkEntry := func(c client.ImmuClient, who string, e *schema.Entry, k string, atTx uint64, tampered string) {
		r.OracleChecks++
		rk := k
		if tgt, ok := refs[k]; ok {
			rk = tgt
		}
		vs := truth.versions[rk]
		if len(vs) == 0 {
			return
		}
		var want *svcVersion
		if atTx == 0 {
			want = &vs[len(vs)-1]
		} else {
			for i := range vs {
				if vs[i].tx == atTx {
					want = &vs[i]
				}
			}
		}
		if want == nil {
			return
		}
		if !bytes.Equal(e.Value, want.value) || string(e.Key) != rk || e.Tx != want.tx {
			sig := "C01:client.VerifiedGet:accepts-tampered-response:" + tampered
			if _, isRef := refs[k]; isRef && tampered != "" {
				// the proof of a reference covers the pointer (key -> referenced key @ tx) only
				sig = "C01:client.VerifiedGet:reference-target-unverified"
			}
			if tampered == "" {
				sig = "C01:client.VerifiedGet:honest-response-wrong-content"
			}
			r.Fail(sig, fmt.Sprintf("%s VerifiedGet(%q, atTx=%d) returned key=%q tx=%d value=%x; history says key=%q tx=%d value=%x", who, k, atTx, e.Key, e.Tx, e.Value, rk, want.tx, want.value),
				map[string]interface{}{"key": k, "atTx": atTx, "tamper": tampered})
		}
	}
	clients := []client.ImmuClient{cl, cl2}
	prevState := map[client.ImmuClient]uint64{}
	for op := 0; op < nOps; op++ {
		c := clients[0]
		who := "client1"
		if rng.Chance(30) {
			c, who = clients[1], "client2"
		}
		tamper := rng.Chance(45) && op > 6
		m.mu.Lock()
		m.armed, m.kind = tamper, ""
		m.mu.Unlock()
		done := func() string {
			m.mu.Lock()
			defer m.mu.Unlock()
			m.armed = false
			return m.kind
		}
		switch k := rng.Intn(10); {
		case k < 3: // write
			key := keys[rng.Intn(len(keys))]
			val := rng.Bytes(1 + rng.Intn(20))
			if rng.Bool() {
				m.mu.Lock()
				m.armed = false // plain Set is not verifiable
				m.mu.Unlock()
				hdr, err := c.Set(ctx, []byte(key), val)
				if err != nil {
					return fmt.Errorf("Set: %w", err)
				}
				record(key, hdr.Id, val)
				delete(refs, key)
				r.Count("svc.set")
			} else {
				hdr, err := c.VerifiedSet(ctx, []byte(key), val)
				kind := done()
				r.Count("svc.vset." + okStr(err) + "." + kindOr(kind))
				r.Eval(fmt.Sprintf("vset-%d-%s", op, kind), kind != "")
				if err == nil {
					record(key, hdr.Id, val)
					delete(refs, key)
				} else if kind == "" {
					r.Fail("C01:client.VerifiedSet:rejects-honest", fmt.Sprintf("%s VerifiedSet(%q): %v", who, key, err), nil)
				} else {
					// the write happened on the server although the client rejected the (tampered) response: find its tx
					st, serr := c.CurrentState(ctx)
					if serr == nil {
						record(key, st.TxId, val)
						delete(refs, key)
					}
				}
			}
		case k == 3 && len(truth.versions) > 0: // reference
			m.mu.Lock()
			m.armed = false
			m.mu.Unlock()
			tgt := keys[rng.Intn(len(keys))]
			if len(truth.versions[tgt]) == 0 || refs[tgt] != "" {
				continue
			}
			rk := "ref-" + tgt
			if _, err := c.SetReference(ctx, []byte(rk), []byte(tgt)); err != nil {
				return fmt.Errorf("SetReference: %w", err)
			}
			refs[rk] = tgt
			r.Count("svc.setreference")
		case k < 8: // verified get (latest or at tx), plain key or reference
			var key string
			if len(refs) > 0 && rng.Chance(25) {
				for rk := range refs {
					key = rk
					break
				}
			} else {
				key = keys[rng.Intn(len(keys))]
			}
			rk := key
			if t, ok := refs[key]; ok {
				rk = t
			}
			vs := truth.versions[rk]
			if len(vs) == 0 {
				done()
				continue
			}
			var e *schema.Entry
			var err error
			atTx := uint64(0)
			stTx0, stHash0 := stateOf[c]()
			m.mu.Lock()
			m.lastGetReq, m.lastGetReply = nil, nil
			m.mu.Unlock()
			if rng.Chance(40) && refs[key] == "" {
				atTx = vs[rng.Intn(len(vs))].tx
				e, err = c.VerifiedGetAt(ctx, []byte(key), atTx)
			} else {
				e, err = c.VerifiedGet(ctx, []byte(key))
			}
			kind := done()
			emitCget(r, m, c, stateOf[c], stTx0, stHash0, err, kind)
			r.Count("svc.vget." + okStr(err) + "." + kindOr(kind))
			r.Eval(fmt.Sprintf("vget-%d-%s-%s-%d", op, kind, key, atTx), kind != "")
			if err != nil && kind == "" {
				r.Fail("C01:client.VerifiedGet:rejects-honest", fmt.Sprintf("%s VerifiedGet(%q, atTx=%d): %v", who, key, atTx, err), nil)
			}
			if err == nil {
				checkEntry(c, who, e, key, atTx, kind)
			}
		default: // verified tx by id
			st, err := c.CurrentState(ctx)
			if err != nil || st.TxId == 0 {
				done()
				continue
			}
			id := 1 + uint64(rng.Intn(int(st.TxId)))
			tx, err := c.VerifiedTxByID(ctx, id)
			kind := done()
			r.Count("svc.vtx." + okStr(err) + "." + kindOr(kind))
			r.Eval(fmt.Sprintf("vtx-%d-%s-%d", op, kind, id), kind != "")
			if err != nil && kind == "" {
				r.Fail("C01:client.VerifiedTxByID:rejects-honest", fmt.Sprintf("%s VerifiedTxByID(%d): %v", who, id, err), nil)
			}
			if err == nil && kind != "" && kind != "tx.entry.vlen" {
				// compare with an untampered read of the same tx
				ref, rerr := c.TxByID(ctx, id)
				r.OracleChecks++
				if rerr == nil && !proto.Equal(stripTx(tx), stripTx(ref)) {
					r.Fail("C01:client.VerifiedTxByID:accepts-tampered-response:"+kind, fmt.Sprintf("%s VerifiedTxByID(%d) accepted a response altered in %s", who, id, kind), map[string]interface{}{"tx": id, "tamper": kind})
				}
			}
		}
		// after every call: the state the client stored must be a genuine (txID, Alh) of the server's history.
		// Without state signatures a tampered response can move the client to a DIFFERENT FUTURE (a forged tx
		// newer than its previous state): unpreventable, counted. Replacing or rewriting a state at or below the
		// previously trusted tx is a violation.
		m.mu.Lock()
		m.armed = false
		m.mu.Unlock()
		if tx, h := stateOf[c](); tx > 0 {
			r.OracleChecks++
			real, ok := realAlh(ctx, c, truth, tx)
			if ok && !bytes.Equal(real, h) {
				prev := prevState[c]
				if tx > prev && !signed {
					r.Count("svc.state.different-future-accepted(unsigned)")
					// the client is now on a forged future: reset it to the genuine state to continue
					resetState(c, ctx)
				} else {
					r.Fail("C01:client:trusted-state-replaced", fmt.Sprintf("%s: after op %d the stored state is (tx=%d, %x…) but the history's Alh of tx %d is %x… (previous trusted tx %d, signed=%v)", who, op, tx, h[:6], tx, real[:6], prev, signed),
						map[string]interface{}{"op": op})
					resetState(c, ctx)
				}
			}
			if t2, _ := stateOf[c](); t2 > 0 {
				prevState[c] = t2
			}
		}
	}
	checkState := func(c client.ImmuClient, who, what string) {
		tx, h := stateOf[c]()
		if tx == 0 {
			return
		}
		r.OracleChecks++
		real, ok := realAlh(ctx, c, truth, tx)
		if ok && !bytes.Equal(real, h) {
			prev := prevState[c]
			if tx > prev && !signed {
				r.Count("svc.state.different-future-accepted(unsigned)")
			} else {
				r.Fail("C01:client:trusted-state-replaced", fmt.Sprintf("%s: after %s the stored state is (tx=%d, %x…) but the history's Alh of tx %d is %x… (previous trusted tx %d, signed=%v)", who, what, tx, h[:6], tx, real[:6], prev, signed), map[string]interface{}{"probe": what})
			}
			resetState(c, ctx)
		}
		if t2, _ := stateOf[c](); t2 > 0 {
			prevState[c] = t2
		}
	}
	// targeted probes (deterministic coverage of the alterations that matter most)
	arm := func(kind string) {
		m.mu.Lock()
		m.armed, m.kind, m.force = true, "", kind
		m.mu.Unlock()
	}
	disarm := func() string {
		m.mu.Lock()
		defer m.mu.Unlock()
		m.armed, m.force = false, ""
		return m.kind
	}
	for _, key := range keys {
		vs := truth.versions[key]
		if len(vs) == 0 || refs[key] != "" {
			continue
		}
		for _, kind := range []string{"entry.value", "entry.key", "entry.tx", "dual.target-hdr.ts", "dual.source-hdr.ts", "dual.target-forged-coherent"} {
			atTx := vs[rng.Intn(len(vs))].tx
			t0, h0 := stateOf[cl]()
			arm(kind)
			e, err := cl.VerifiedGetAt(ctx, []byte(key), atTx)
			k := disarm()
			emitCget(r, m, cl, stateOf[cl], t0, h0, err, k)
			checkState(cl, "client1", "VerifiedGetAt/"+kind)
			r.Count("svc.probe.vgetat." + okStr(err) + "." + kindOr(k))
			r.Eval("probe-vgetat-"+key+kind, true)
			if err == nil && k != "" {
				checkEntry(cl, "client1", e, key, atTx, k)
			}
			t0, h0 = stateOf[cl]()
			arm(kind)
			e, err = cl.VerifiedGet(ctx, []byte(key))
			k = disarm()
			emitCget(r, m, cl, stateOf[cl], t0, h0, err, k)
			checkState(cl, "client1", "VerifiedGet/"+kind)
			r.Count("svc.probe.vget." + okStr(err) + "." + kindOr(k))
			if err == nil && k != "" {
				checkEntry(cl, "client1", e, key, 0, k)
			}
		}
	}
	for rk := range refs {
		t0, h0 := stateOf[cl]()
		arm("entry.value")
		e, err := cl.VerifiedGet(ctx, []byte(rk))
		k := disarm()
		emitCget(r, m, cl, stateOf[cl], t0, h0, err, k)
		r.Count("svc.probe.vget-ref." + okStr(err) + "." + kindOr(k))
		r.Eval("probe-vget-ref-"+rk, true)
		if err == nil && k != "" {
			checkEntry(cl, "client1", e, rk, 0, k)
		}
	}
	if st, err := cl.CurrentState(ctx); err == nil && st.TxId > 1 {
		for _, kind := range []string{"tx.entry.hvalue", "tx.hdr.ts"} {
			for _, id := range []uint64{1, st.TxId / 2, st.TxId} {
				if id == 0 {
					continue
				}
				arm(kind)
				tx, err := cl.VerifiedTxByID(ctx, id)
				k := disarm()
				r.Count("svc.probe.vtx." + okStr(err) + "." + kindOr(k))
				r.Eval(fmt.Sprintf("probe-vtx-%d-%s", id, kind), true)
				if err == nil && k != "" {
					ref, rerr := cl.TxByID(ctx, id)
					r.OracleChecks++
					if rerr == nil && !proto.Equal(stripTx(tx), stripTx(ref)) {
						r.Fail("C01:client.VerifiedTxByID:accepts-tampered-response:"+k, fmt.Sprintf("VerifiedTxByID(%d) accepted a response altered in %s", id, k), map[string]interface{}{"tx": id, "tamper": k})
					}
				}
			}
		}
	}
	r.Sample(map[string]interface{}{"kind": "service-level", "ops": nOps, "keys": len(keys)})
	return nil
}

// realAlh: the genuine accumulated hash of tx id, from an untampered read of its header.
func realAlh(ctx context.Context, c client.ImmuClient, truth *svcTruth, id uint64) ([]byte, bool) {
	if h, ok := truth.alhs[id]; ok {
		return h, true
	}
	tx, err := c.TxByID(ctx, id)
	if err != nil || tx == nil || tx.Header == nil {
		return nil, false
	}
	a := schema.TxHeaderFromProto(tx.Header).Alh()
	truth.alhs[id] = a[:]
	return a[:], true
}

// resetState puts the genuine current server state into the client's cache.
func resetState(c client.ImmuClient, ctx context.Context) {
	type setter interface {
		CurrentState(ctx context.Context) (*schema.ImmutableState, error)
	}
	st, err := c.CurrentState(ctx)
	if err != nil {
		return
	}
	if cc, ok := c.(interface{ GetOptions() *client.Options }); ok {
		_ = cc
	}
	setState(c, st)
}

// cgetLine renders the exchange the client saw (after tampering) for the Lean client-flow model.
func cgetLine(stTx uint64, stHash []byte, req *schema.VerifiableGetRequest, rep *schema.VerifiableEntry) (line string, ok bool) {
	defer func() {
		if e := recover(); e != nil {
			ok = false
		}
	}()
	if rep == nil || rep.Entry == nil || rep.VerifiableTx == nil || rep.VerifiableTx.Tx == nil || rep.VerifiableTx.Tx.Header == nil ||
		rep.VerifiableTx.DualProof == nil || rep.VerifiableTx.DualProof.SourceTxHeader == nil || rep.VerifiableTx.DualProof.TargetTxHeader == nil || rep.InclusionProof == nil {
		return "", false
	}
	if len(stHash) == 0 {
		stHash = make([]byte, 32)
	}
	mdBytes := func(md *schema.KVMetadata) []byte {
		k := schema.KVMetadataFromProto(md)
		if k == nil {
			return nil
		}
		return k.Bytes()
	}
	e := rep.Entry
	ref := "nil"
	if e.ReferencedBy != nil {
		ref = fmt.Sprintf("%d:%d:%s", e.ReferencedBy.Tx, e.ReferencedBy.AtTx, hx.Hex(mdBytes(e.ReferencedBy.Metadata)))
	}
	ip := schema.InclusionProofFromProto(rep.InclusionProof)
	dp := schema.DualProofFromProto(rep.VerifiableTx.DualProof)
	return fmt.Sprintf("c01 cget %d %s %s %d %s %s %s %d %s %d %d:%d:%s %s %s %s %s %s %s %s %s",
		stTx, hx.Hex(stHash), hx.Hex(req.KeyRequest.Key), req.KeyRequest.AtTx,
		hx.Hex(e.Key), hx.Hex(e.Value), hx.Hex(mdBytes(e.Metadata)), e.Tx, ref, rep.VerifiableTx.Tx.Header.Version,
		ip.Leaf, ip.Width, hx.Csv32(ip.Terms),
		hdrTok(dp.SourceTxHeader), hdrTok(dp.TargetTxHeader), hx.Csv32(dp.InclusionProof), hx.Csv32(dp.ConsistencyProof),
		hx.Hex(dp.TargetBlTxAlh[:]), hx.Csv32(dp.LastInclusionProof), lpTok(dp.LinearProof), lapTok(dp.LinearAdvanceProof)), true
}

// emitCget: implementation verdict of the client flow vs the Lean model (verifiedGet)
func emitCget(r *hx.Result, m *mitm, c client.ImmuClient, stateOf func() (uint64, []byte), stTx0 uint64, stHash0 []byte, err error, kind string) {
	m.mu.Lock()
	req, rep := m.lastGetReq, m.lastGetReply
	m.mu.Unlock()
	if req == nil || rep == nil || kind == "signature" {
		return
	}
	if req.ProveSinceTx != stTx0 {
		r.Count("svc.cget.skipped-state-race")
		return
	}
	line, ok := cgetLine(stTx0, stHash0, req, rep)
	if !ok {
		r.Count("svc.cget.skipped-unrenderable")
		return
	}
	var impl string
	switch {
	case err == nil:
		tx, h := stateOf()
		impl = fmt.Sprintf("ok %d %s", tx, hx.Hex(h))
	case strings.Contains(err.Error(), "data is corrupted"):
		impl = "err:corrupted"
	case strings.Contains(err.Error(), "unsupported tx version"):
		impl = "err:version"
	default:
		r.Count("svc.cget.skipped-other-error")
		return
	}
	r.Corr(line, impl)
	r.Count("svc.cget." + strings.SplitN(impl, " ", 2)[0])
}

func stripTx(t *schema.Tx) *schema.Tx {
	c := proto.Clone(t).(*schema.Tx)
	for _, e := range c.Entries {
		e.VLen = 0
	}
	return c
}

func okStr(err error) string {
	if err == nil {
		return "accepted"
	}
	return "rejected"
}

func kindOr(k string) string {
	if k == "" {
		return "honest"
	}
	return "tampered:" + k
}
