package main

// C14, database level — "… and the SQL catalog and document collections keep working after truncation and restart".
//
// The store-level families (c14.go, c14b.go, c14c.go) exercise embedded/store.TruncateUptoTx.  The mechanism that
// keeps the SQL / document catalog alive lives one layer up: pkg/database vlogTruncator.TruncateUptoTx first copies
// the whole catalog into a fresh transaction (CopySQLCatalog) and only then truncates.  Whether that copy SUCCEEDS
// depends on the configuration and on what runs next to it, so this family explores exactly that:
//
//   - the catalog (tables, secondary indexes, added columns, document collections; every DDL its own tx) against a
//     small MaxTxEntries: the copy needs ONE tx holding every catalog entry, so it fails once the catalog outgrew it;
//   - the context handed to the truncator: plain, already cancelled, or expiring at its k-th poll (every k:
//     before the copy tx exists, between two catalog entries, just before the commit);
//   - DDL racing the truncation, scheduled deterministically: a CREATE TABLE / ALTER TABLE executed at the k-th
//     context poll of the copy, i.e. between two reads of the copy tx (read conflict at its commit), and a
//     free-running DDL writer next to repeated truncations;
//   - cuts around the value-log chunks that hold the original catalog values (filler txs of one chunk each push them
//     below the cut), ascending cuts, repeats, last and last+1, writes and DDL between truncations, Close/OpenDB.
//
// ORACLE (model independent; the harness keeps its own reference catalog and the rows / documents / KV pairs with the
// tx that wrote them).  WHATEVER the truncator answered, on the live database and after Close/OpenDB:
//   (a) ListTables / DescribeTable / GetCollections list the reference schema; for every table the rows written at
//       tx >= cut come back by primary-key range (exactly) and through the secondary index; documents written at
//       tx >= cut come back through the indexed field; a new INSERT into every table and a new DDL (+ INSERT into the new
//       table, which needs a catalog reload) succeed;
//   (b) every KV pair written at tx >= cut is returned by Get with its value and tx;
//   (c) the truncator answered an error  =>  no value-log chunk file was removed;
//       the truncator answered nil       =>  a tx carrying the truncation metadata for that cut exists (the copy).
// CORRESPONDENCE with lean/ImmuModel/Store/TruncateDb.lean (`c14 dbtrunc <copy outcome>`): given whether the copy
// committed (observed: a new tx with TruncatedTxID = cut), the model says whether the store truncation may run;
// the implementation's side is whether the store logged `truncating vlog …` / returned nil.

import (
	"bytes"
	"context"
	"fmt"
	"os"
	"path/filepath"
	"sort"
	"strings"
	"sync"
	"sync/atomic"
	"time"

	"github.com/codenotary/immudb/embedded/store"
	"github.com/codenotary/immudb/pkg/api/protomodel"
	"github.com/codenotary/immudb/pkg/api/schema"
	"github.com/codenotary/immudb/pkg/database"
	"google.golang.org/protobuf/types/known/structpb"

	"verif/harness/internal/hx"
)

const (
	c14dSigCloseLeak = "C14:database.Close:snapshots-not-closed-after-failed-catalog-copy"
	c14dSigSnapsOut  = "C14:database.CopySQLCatalog:failed-copies-exhaust-snapshots"
)

// ---------- logger: did the store truncation run, did the truncator say the copy committed ----------

type c14dLogger struct {
	storeTrunc atomic.Int64 // "truncating vlog '%d' at offset '%d'" lines of embedded/store
}

func (l *c14dLogger) Errorf(string, ...interface{})   {}
func (l *c14dLogger) Warningf(string, ...interface{}) {}
func (l *c14dLogger) Debugf(string, ...interface{})   {}
func (l *c14dLogger) Close() error                    { return nil }
func (l *c14dLogger) Infof(f string, a ...interface{}) {
	if f == "truncating vlog '%d' at offset '%d'" {
		l.storeTrunc.Add(1)
	}
}

// ---------- a context that acts at its k-th poll ----------

// c14dCtx counts the calls of Err() (the store polls it in NewTx, before every entry a key reader returns and before
// Commit).  At poll number `at` it either expires (from then on Err() = DeadlineExceeded, Done() closed) or runs
// `action` synchronously — a deterministic interleaving point inside CopySQLCatalog.
type c14dCtx struct {
	mu      sync.Mutex
	polls   int
	at      int
	expire  bool
	action  func()
	fired   bool
	expired bool
	done    chan struct{}
}

func newC14dCtx(at int, expire bool, action func()) *c14dCtx {
	return &c14dCtx{at: at, expire: expire, action: action, done: make(chan struct{})}
}
func (c *c14dCtx) Deadline() (time.Time, bool)       { return time.Time{}, false }
func (c *c14dCtx) Value(key interface{}) interface{} { return nil }
func (c *c14dCtx) Done() <-chan struct{}             { return c.done }
func (c *c14dCtx) Err() error {
	c.mu.Lock()
	p := c.polls
	c.polls++
	fire := !c.fired && p == c.at
	if fire {
		c.fired = true
		if c.expire {
			c.expired = true
			close(c.done)
		}
	}
	exp := c.expired
	c.mu.Unlock()
	if fire && !c.expire && c.action != nil {
		c.action()
	}
	if exp {
		return context.DeadlineExceeded
	}
	return nil
}
func (c *c14dCtx) stats() (polls int, fired bool) {
	c.mu.Lock()
	defer c.mu.Unlock()
	return c.polls, c.fired
}

// ---------- reference state ----------

type c14dRow struct {
	id   int
	name string
	tx   uint64
}
type c14dTable struct {
	name    string
	cols    []string // all column names, in order
	indexed bool     // secondary index on (name)
	nextID  int
	rows    []c14dRow
}
type c14dDoc struct {
	n  int
	tx uint64
}
type c14dColl struct {
	name  string
	nextN int
	docs  []c14dDoc
}
type c14dKV struct {
	key string
	val []byte
	tx  uint64
}

type c14dCase struct {
	r      *hx.Result
	rng    *hx.Rng
	label  string
	script []string
	root   string
	F, io  int
	mte    int
	lg     *c14dLogger
	db     database.DB
	closed bool
	tr     database.Truncator

	mu     sync.Mutex // reference catalog (the DDL hook runs on the truncator's goroutine)
	tables []*c14dTable
	colls  []*c14dColl
	kvs    []c14dKV
	nExtra int
	effCut uint64 // highest cut requested so far: everything written at tx >= effCut must be there
	failed bool

	failedCopies int // truncations whose catalog copy did not commit, since the last OpenDB
}

func (c *c14dCase) replay() string {
	s := c.script
	if len(s) > 14 {
		s = append([]string{"…"}, s[len(s)-14:]...)
	}
	return c.label + " :: " + strings.Join(s, " ; ")
}
func (c *c14dCase) fail(sig, desc string) {
	c.failed = true
	c.r.Fail(sig, desc, c.replay())
}
func (c *c14dCase) step(f string, a ...interface{}) { c.script = append(c.script, fmt.Sprintf(f, a...)) }

func (c *c14dCase) mkOpts() *database.Options {
	so := c14Options(c.F, c.io, false, nil, false, nil).WithMaxTxEntries(c.mte).WithMaxKeyLen(store.DefaultMaxKeyLen).
		WithIndexOptions(store.DefaultIndexOptions().WithCompactionThld(2))
	return database.DefaultOptions().WithDBRootPath(c.root).WithStoreOptions(so)
}

func (c *c14dCase) lastTx() uint64 {
	st, err := c.db.CurrentState()
	if err != nil {
		return 0
	}
	return st.TxId
}

// exec runs one statement in its own tx; returns the id of the last committed tx afterwards.
func (c *c14dCase) exec(phase, stmt string) (uint64, bool) {
	c.r.OracleChecks++
	_, _, err := c.db.SQLExec(context.Background(), nil, &schema.SQLExecRequest{Sql: stmt})
	if err != nil {
		c.fail("C14:database.SQLExec:fails-"+phase, fmt.Sprintf("%s: %v", stmt, err))
		return 0, false
	}
	return c.lastTx(), true
}

func (c *c14dCase) createTable(phase, name string, indexed bool) bool {
	if _, ok := c.exec(phase, fmt.Sprintf("CREATE TABLE %s (id INTEGER, name VARCHAR[48], PRIMARY KEY id)", name)); !ok {
		return false
	}
	t := &c14dTable{name: name, cols: []string{"id", "name"}, nextID: 1}
	if indexed {
		if _, ok := c.exec(phase, fmt.Sprintf("CREATE INDEX ON %s (name)", name)); !ok {
			return false
		}
		t.indexed = true
	}
	c.mu.Lock()
	c.tables = append(c.tables, t)
	c.mu.Unlock()
	return true
}

func (c *c14dCase) addColumn(phase string, t *c14dTable) bool {
	col := fmt.Sprintf("x%d", len(t.cols))
	if _, ok := c.exec(phase, fmt.Sprintf("ALTER TABLE %s ADD COLUMN %s VARCHAR[8]", t.name, col)); !ok {
		return false
	}
	c.mu.Lock()
	t.cols = append(t.cols, col)
	c.mu.Unlock()
	return true
}

func (c *c14dCase) createColl(phase, name string) bool {
	c.r.OracleChecks++
	_, err := c.db.CreateCollection(context.Background(), "admin", &protomodel.CreateCollectionRequest{Name: name,
		Fields:  []*protomodel.Field{{Name: "n", Type: protomodel.FieldType_DOUBLE}, {Name: "pad", Type: protomodel.FieldType_STRING}},
		Indexes: []*protomodel.Index{{Fields: []string{"n"}}}})
	if err != nil {
		c.fail("C14:database.CreateCollection:fails-"+phase, fmt.Sprintf("%s: %v", name, err))
		return false
	}
	c.mu.Lock()
	c.colls = append(c.colls, &c14dColl{name: name})
	c.mu.Unlock()
	return true
}

func (c *c14dCase) insertRow(phase string, t *c14dTable) bool {
	id := t.nextID
	name := fmt.Sprintf("%s-n%d-%s", t.name, id, strings.Repeat("r", c.rng.Intn(12)))
	tx, ok := c.exec(phase, fmt.Sprintf("INSERT INTO %s (id, name) VALUES (%d, '%s')", t.name, id, name))
	if !ok {
		return false
	}
	t.nextID++
	t.rows = append(t.rows, c14dRow{id: id, name: name, tx: tx})
	return true
}

func (c *c14dCase) insertDoc(phase string, cl *c14dColl) bool {
	c.r.OracleChecks++
	n := cl.nextN
	res, err := c.db.InsertDocuments(context.Background(), "admin", &protomodel.InsertDocumentsRequest{CollectionName: cl.name,
		Documents: []*structpb.Struct{{Fields: map[string]*structpb.Value{"n": structpb.NewNumberValue(float64(n)),
			"pad": structpb.NewStringValue(fmt.Sprintf("doc-%d-%s", n, strings.Repeat("d", c.rng.Intn(40))))}}}})
	if err != nil {
		c.fail("C14:database.InsertDocuments:fails-"+phase, fmt.Sprintf("%s n=%d: %v", cl.name, n, err))
		return false
	}
	cl.nextN++
	cl.docs = append(cl.docs, c14dDoc{n: n, tx: res.TransactionId})
	return true
}

func (c *c14dCase) setKV(phase, key string, val []byte) (uint64, bool) {
	c.r.OracleChecks++
	hdr, err := c.db.Set(context.Background(), &schema.SetRequest{KVs: []*schema.KeyValue{{Key: []byte(key), Value: val}}})
	if err != nil {
		c.fail("C14:database.Set:fails-"+phase, fmt.Sprintf("%s: %v", key, err))
		return 0, false
	}
	c.kvs = append(c.kvs, c14dKV{key: key, val: val, tx: hdr.Id})
	return hdr.Id, true
}

// chunk files of every value log of the database
func (c *c14dCase) chunks() map[string]bool {
	out := map[string]bool{}
	dirs, _ := filepath.Glob(filepath.Join(c.root, "db", "val_*"))
	for _, d := range dirs {
		es, _ := os.ReadDir(d)
		for _, e := range es {
			out[filepath.Base(d)+"/"+e.Name()] = true
		}
	}
	return out
}

// ---------- the oracle ----------

func (c *c14dCase) verify(phase string) bool {
	ctx := context.Background()
	c.mu.Lock()
	tables := append([]*c14dTable(nil), c.tables...)
	colls := append([]*c14dColl(nil), c.colls...)
	c.mu.Unlock()
	// (a) catalog functions list the reference schema
	c.r.OracleChecks++
	lt, err := c.db.ListTables(ctx, nil)
	if err != nil {
		c.fail("C14:database.ListTables:fails-"+phase, err.Error())
		return false
	}
	got := map[string]bool{}
	for _, row := range lt.Rows {
		got[row.Values[0].GetS()] = true
	}
	for _, t := range tables {
		if !got[t.name] {
			c.fail("C14:database.ListTables:table-missing-"+phase, fmt.Sprintf("table %s not listed (listed: %d tables)", t.name, len(got)))
			return false
		}
	}
	for _, t := range tables {
		c.r.OracleChecks++
		dt, err := c.db.DescribeTable(ctx, nil, t.name)
		if err != nil {
			c.fail("C14:database.DescribeTable:fails-"+phase, fmt.Sprintf("%s: %v", t.name, err))
			return false
		}
		var cols []string
		for _, row := range dt.Rows {
			cols = append(cols, row.Values[0].GetS())
		}
		sort.Strings(cols)
		want := append([]string(nil), t.cols...)
		sort.Strings(want)
		if strings.Join(cols, ",") != strings.Join(want, ",") {
			c.fail("C14:database.DescribeTable:wrong-columns-"+phase, fmt.Sprintf("%s: got %v want %v", t.name, cols, want))
			return false
		}
		// rows written at tx >= effCut, by primary-key range (ids grow with the tx id)
		wantRows := map[int64]string{}
		minID := t.nextID
		var last *c14dRow
		for i := range t.rows {
			if t.rows[i].tx >= c.effCut {
				wantRows[int64(t.rows[i].id)] = t.rows[i].name
				if t.rows[i].id < minID {
					minID = t.rows[i].id
				}
				last = &t.rows[i]
			}
		}
		c.r.OracleChecks++
		q := fmt.Sprintf("SELECT id, name FROM %s WHERE id >= %d", t.name, minID)
		res, err := c.db.SQLQueryAll(ctx, nil, &schema.SQLQueryRequest{Sql: q})
		if err != nil {
			c.fail("C14:database.SQLQuery:fails-"+phase, fmt.Sprintf("%s: %v", q, err))
			return false
		}
		gotRows := map[int64]string{}
		for _, row := range res {
			id, _ := row.ValuesByPosition[0].RawValue().(int64)
			nm, _ := row.ValuesByPosition[1].RawValue().(string)
			gotRows[id] = nm
		}
		if len(gotRows) != len(wantRows) {
			c.fail("C14:database.SQLQuery:wrong-rows-"+phase, fmt.Sprintf("%s: %d rows, want %d (rows written at tx >= %d)", q, len(gotRows), len(wantRows), c.effCut))
			return false
		}
		for id, nm := range wantRows {
			if gotRows[id] != nm {
				c.fail("C14:database.SQLQuery:wrong-rows-"+phase, fmt.Sprintf("%s: row %d = %q, want %q", q, id, gotRows[id], nm))
				return false
			}
		}
		if t.indexed && last != nil {
			c.r.OracleChecks++
			q := fmt.Sprintf("SELECT id FROM %s WHERE name = '%s'", t.name, last.name)
			res, err := c.db.SQLQueryAll(ctx, nil, &schema.SQLQueryRequest{Sql: q})
			if err != nil {
				c.fail("C14:database.SQLQuery:fails-"+phase, fmt.Sprintf("%s: %v", q, err))
				return false
			}
			if len(res) != 1 {
				c.fail("C14:database.SQLQuery:wrong-rows-"+phase, fmt.Sprintf("%s: %d rows, want 1", q, len(res)))
				return false
			}
		}
	}
	// collections
	if len(colls) > 0 {
		c.r.OracleChecks++
		gc, err := c.db.GetCollections(ctx, &protomodel.GetCollectionsRequest{})
		if err != nil {
			c.fail("C14:database.GetCollections:fails-"+phase, err.Error())
			return false
		}
		have := map[string]bool{}
		for _, ci := range gc.Collections {
			have[ci.Name] = true
		}
		for _, cl := range colls {
			if !have[cl.name] {
				c.fail("C14:database.GetCollections:collection-missing-"+phase, cl.name)
				return false
			}
		}
	}
	for _, cl := range colls {
		lo, cnt := cl.nextN, 0
		for _, d := range cl.docs {
			if d.tx >= c.effCut {
				if d.n < lo {
					lo = d.n
				}
				cnt++
			}
		}
		c.r.OracleChecks++
		rd, err := c.db.SearchDocuments(ctx, &protomodel.Query{CollectionName: cl.name, Expressions: []*protomodel.QueryExpression{{FieldComparisons: []*protomodel.FieldComparison{
			{Field: "n", Operator: protomodel.ComparisonOperator_GE, Value: structpb.NewNumberValue(float64(lo))}}}},
			OrderBy: []*protomodel.OrderByClause{{Field: "n"}}}, 0)
		if err != nil {
			c.fail("C14:database.SearchDocuments:fails-"+phase, fmt.Sprintf("%s n>=%d: %v", cl.name, lo, err))
			return false
		}
		docs, err := rd.ReadN(ctx, cnt+3)
		rd.Close()
		if len(docs) != cnt {
			c.fail("C14:database.SearchDocuments:wrong-docs-"+phase, fmt.Sprintf("%s n>=%d: %d docs (%v), want %d", cl.name, lo, len(docs), err, cnt))
			return false
		}
		for _, d := range docs {
			n := int(d.Document.Fields["n"].GetNumberValue())
			if n < lo || !strings.HasPrefix(d.Document.Fields["pad"].GetStringValue(), fmt.Sprintf("doc-%d-", n)) {
				c.fail("C14:database.SearchDocuments:wrong-docs-"+phase, fmt.Sprintf("%s: doc n=%d", cl.name, n))
				return false
			}
		}
	}
	// (b) KV
	for _, kv := range c.kvs {
		if kv.tx < c.effCut {
			continue
		}
		c.r.OracleChecks++
		e, err := c.db.Get(ctx, &schema.KeyRequest{Key: []byte(kv.key)})
		if err != nil {
			c.fail("C14:database.Get:fails-"+phase, fmt.Sprintf("%s (tx %d >= cut %d): %v", kv.key, kv.tx, c.effCut, err))
			return false
		}
		if e.Tx != kv.tx || !bytes.Equal(e.Value, kv.val) {
			c.fail("C14:database.Get:wrong-"+phase, fmt.Sprintf("%s: tx %d len %d, want tx %d len %d", kv.key, e.Tx, len(e.Value), kv.tx, len(kv.val)))
			return false
		}
	}
	return true
}

// new rows in every table / collection, a KV pair, and a new DDL whose table is used at once (catalog reload)
func (c *c14dCase) newWrites(phase string) bool {
	c.mu.Lock()
	tables := append([]*c14dTable(nil), c.tables...)
	colls := append([]*c14dColl(nil), c.colls...)
	c.mu.Unlock()
	for _, t := range tables {
		if !c.insertRow(phase, t) {
			return false
		}
	}
	for _, cl := range colls {
		if !c.insertDoc(phase, cl) {
			return false
		}
	}
	if _, ok := c.setKV(phase, fmt.Sprintf("kv-%d", len(c.kvs)), []byte(strings.Repeat("v", 1+c.rng.Intn(2*c.F)))); !ok {
		return false
	}
	switch c.rng.Intn(3) {
	case 0:
		if len(tables) > 0 {
			if !c.addColumn(phase, tables[c.rng.Intn(len(tables))]) {
				return false
			}
			break
		}
		fallthrough
	default:
		c.nExtra++
		name := fmt.Sprintf("extra%d", c.nExtra)
		if !c.createTable(phase, name, c.rng.Chance(40)) {
			return false
		}
		c.mu.Lock()
		t := c.tables[len(c.tables)-1]
		c.mu.Unlock()
		if !c.insertRow(phase, t) {
			return false
		}
	}
	return true
}

func (c *c14dCase) restart(phase string) bool {
	c.r.OracleChecks++
	err := c.db.Close()
	c.closed = true
	if err != nil {
		if strings.Contains(err.Error(), "snapshots not closed") && c.failedCopies > 0 {
			// a catalog copy that failed after its first read leaves its snapshot open (CopySQLCatalog: `defer tx.Cancel()`
			// stands AFTER the error return of CopyCatalogToTx)
			c.r.Fail(c14dSigCloseLeak, fmt.Sprintf("Close after %d truncation(s) whose catalog copy failed: %v", c.failedCopies, err), c.replay())
		} else {
			c.fail("C14:database.Close:fails-"+phase, err.Error())
		}
	}
	db, err := database.OpenDB("db", c14MultiDB{}, c.mkOpts(), c.lg)
	if err != nil {
		c.fail("C14:database.OpenDB:fails-"+phase, err.Error())
		return false
	}
	c.db, c.closed, c.failedCopies = db, false, 0
	c.tr = database.NewVlogTruncator(db, c.lg)
	c.step("restart")
	return true
}

// ---------- one truncation ----------

type c14dMode int

const (
	c14dPlain c14dMode = iota
	c14dCancelled
	c14dExpire
	c14dDDLAt
	c14dNModes
)

func (m c14dMode) String() string {
	return [...]string{"plain", "cancelled", "expire", "ddl-at"}[m]
}

// truncate runs vlogTruncator.TruncateUptoTx(cut) under `mode` and checks (c); returns the truncator's answer.
func (c *c14dCase) truncate(mode c14dMode, k int, cut uint64) error {
	var ctx context.Context = context.Background()
	var hc *c14dCtx
	desc := mode.String()
	switch mode {
	case c14dCancelled:
		cc, cancel := context.WithCancel(context.Background())
		cancel()
		ctx = cc
	case c14dExpire:
		hc = newC14dCtx(k, true, nil)
		ctx = hc
		desc = fmt.Sprintf("expire@%d", k)
	case c14dDDLAt:
		kind := c.rng.Intn(2)
		hc = newC14dCtx(k, false, func() {
			// a DDL committing between two reads of the catalog copy
			c.mu.Lock()
			nt := len(c.tables)
			c.mu.Unlock()
			if kind == 0 && nt > 0 {
				c.mu.Lock()
				t := c.tables[k%nt]
				c.mu.Unlock()
				c.addColumn("inside-copy", t)
			} else {
				c.nExtra++
				c.createTable("inside-copy", fmt.Sprintf("extra%d", c.nExtra), false)
			}
		})
		ctx = hc
		desc = fmt.Sprintf("ddl@%d", k)
	}
	before := c.chunks()
	last0 := c.lastTx()
	logged0 := c.lg.storeTrunc.Load()
	c.r.OracleChecks++
	done := make(chan error, 1)
	go func() {
		defer func() {
			if p := recover(); p != nil {
				done <- fmt.Errorf("panic: %v", p)
			}
		}()
		done <- c.tr.TruncateUptoTx(ctx, cut)
	}()
	var terr error
	select {
	case terr = <-done:
	case <-time.After(c14Liveness):
		c.step("trunc %s cut=%d -> BLOCKS", desc, cut)
		c.fail("C14:database.TruncateUptoTx:blocks", fmt.Sprintf("TruncateUptoTx(%d) mode %s", cut, desc))
		return fmt.Errorf("blocked")
	}
	if terr != nil && strings.HasPrefix(terr.Error(), "panic:") {
		c.step("trunc %s cut=%d -> %v", desc, cut, terr)
		c.fail("C14:database.TruncateUptoTx:panic", terr.Error())
		return terr
	}
	after := c.chunks()
	removed := 0
	for f := range before {
		if !after[f] {
			removed++
		}
	}
	polls, fired := 0, false
	if hc != nil {
		polls, fired = hc.stats()
	}
	c.step("trunc %s cut=%d (last=%d) -> %v, %d chunk files removed", desc, cut, last0, terr, removed)
	if cut > c.effCut {
		c.effCut = cut
	}
	// did a catalog copy commit? = a tx after last0 carrying the truncation metadata for this cut
	copied := false
	for id := last0 + 1; id <= c.lastTx(); id++ {
		tx, err := c.db.TxByID(context.Background(), &schema.TxRequest{Tx: id})
		if err == nil && tx.Header != nil && tx.Header.Metadata != nil && tx.Header.Metadata.TruncatedTxID == cut {
			copied = true
		}
	}
	storeRan := c.lg.storeTrunc.Load() > logged0
	// (c)
	c.r.OracleChecks += 2
	if !copied {
		c.failedCopies++
	}
	if terr != nil {
		c.r.Count("dbcat.trunc.refused." + mode.String())
		if removed > 0 {
			// recorded, and the case goes on: what is lost shows in the checks that follow
			c.r.Fail("C14:database.TruncateUptoTx:error-but-chunks-removed", fmt.Sprintf("TruncateUptoTx(%d) mode %s answered %v and %d chunk files are gone", cut, desc, terr, removed), c.replay())
		}
	} else {
		c.r.Count("dbcat.trunc.done." + mode.String())
		if !copied {
			c.r.Fail("C14:database.TruncateUptoTx:ok-without-catalog-copy", fmt.Sprintf("TruncateUptoTx(%d) mode %s answered nil, %d chunk files removed, but no tx with TruncatedTxID=%d was committed (last %d -> %d)", cut, desc, removed, cut, last0, c.lastTx()), c.replay())
		}
	}
	if removed > 0 {
		c.r.Count("dbcat.trunc.removed-chunks")
		if !after["val_0/00000000.val"] && before["val_0/00000000.val"] {
			c.r.Count("dbcat.trunc.removed-first-chunk(original catalog values)")
		}
	}
	if hc != nil {
		c.r.Count(fmt.Sprintf("dbcat.hook.fired=%v", fired))
		c.r.Extra["dbcat.polls.max"] = maxInt(polls, intOf(c.r.Extra["dbcat.polls.max"]))
	}
	// correspondence: the control flow of vlogTruncator.TruncateUptoTx given the outcome of the copy
	impl := "refused"
	if storeRan || removed > 0 || terr == nil {
		impl = "truncated"
		if terr != nil {
			impl = "truncated-with-error"
		}
	}
	cp := "fail"
	if copied {
		cp = "ok"
	}
	c.r.Corr("c14 dbtrunc "+cp, impl)
	c.r.Eval(fmt.Sprintf("%s trunc#%d", c.label, len(c.script)), removed > 0 || terr != nil)
	return terr
}

func maxInt(a, b int) int {
	if a > b {
		return a
	}
	return b
}
func intOf(v interface{}) int {
	if i, ok := v.(int); ok {
		return i
	}
	return 0
}

// ---------- the case ----------

func c14CatalogCase(r *hx.Result, rng *hx.Rng, thorough bool, no int) (err error) {
	r.NextCase()
	c := &c14dCase{r: r, rng: rng, lg: &c14dLogger{}}
	defer func() {
		if p := recover(); p != nil {
			r.Fail("C14:database:panic", fmt.Sprint(p), c.replay())
		}
	}()
	c.F = []int{256, 512, 1024}[rng.Intn(3)]
	c.io = 1
	if rng.Chance(25) {
		c.io = 2
	}
	nColl := 0
	if rng.Chance(45) {
		nColl = 1 + rng.Intn(2)
	}
	c.mte = []int{8, 12, 16, 24, 40, store.DefaultMaxTxEntries, store.DefaultMaxTxEntries, store.DefaultMaxTxEntries}[rng.Intn(8)]
	if nColl > 0 && c.mte < 12 {
		c.mte = 12 // one CreateCollection writes ~8 catalog entries
	}
	nTab := 1 + rng.Intn(6)
	c.root = hx.TempDir("c14dbcat")
	defer os.RemoveAll(c.root)
	c.label = fmt.Sprintf("dbcat-case#%d F=%d io=%d MaxTxEntries=%d tables=%d collections=%d", no, c.F, c.io, c.mte, nTab, nColl)
	r.Count(fmt.Sprintf("dbcat.MaxTxEntries=%d", c.mte))
	r.Count(fmt.Sprintf("dbcat.tables=%d", nTab))
	r.Count(fmt.Sprintf("dbcat.collections=%d", nColl))
	db, err := database.NewDB("db", c14MultiDB{}, c.mkOpts(), c.lg)
	if err != nil {
		return err
	}
	c.db = db
	c.tr = database.NewVlogTruncator(db, c.lg)
	defer func() {
		if !c.closed {
			c.db.Close()
		}
	}()
	// 1. the catalog, every DDL its own tx
	for i := 0; i < nTab; i++ {
		if !c.createTable("setup", fmt.Sprintf("t%d", i), rng.Chance(50)) {
			return nil
		}
		if rng.Chance(35) {
			if !c.addColumn("setup", c.tables[i]) {
				return nil
			}
		}
	}
	for i := 0; i < nColl; i++ {
		if !c.createColl("setup", fmt.Sprintf("coll%d", i)) {
			return nil
		}
	}
	c.step("schema: %d tables (%d indexed), %d collections", nTab, func() int {
		n := 0
		for _, t := range c.tables {
			if t.indexed {
				n++
			}
		}
		return n
	}(), nColl)
	// some early rows (they end up below the cut)
	for _, t := range c.tables {
		if rng.Chance(50) {
			c.insertRow("setup", t)
		}
	}
	// 2. fillers, one chunk each: the original catalog values end up in chunks wholly below the cut
	nFill := 3 + rng.Intn(8)
	var fillTx []uint64
	for i := 0; i < nFill; i++ {
		id, ok := c.setKV("setup", fmt.Sprintf("filler-%02d", i), bytes.Repeat([]byte{byte('a' + i)}, c.F))
		if !ok {
			return nil
		}
		fillTx = append(fillTx, id)
	}
	c.step("fillers: %d x %d bytes (tx %d..%d)", nFill, c.F, fillTx[0], fillTx[nFill-1])
	// 3. content from the cut on
	for round := 0; round < 1+rng.Intn(2); round++ {
		for _, t := range c.tables {
			if !c.insertRow("setup", t) {
				return nil
			}
		}
		for _, cl := range c.colls {
			if !c.insertDoc("setup", cl) {
				return nil
			}
		}
		if _, ok := c.setKV("setup", fmt.Sprintf("kv-%d", len(c.kvs)), []byte(strings.Repeat("k", 1+rng.Intn(c.F)))); !ok {
			return nil
		}
	}
	if !c.verify("before") {
		return nil
	}
	// 4. truncations
	nEv := 2 + rng.Intn(3)
	if thorough {
		nEv += 2
	}
	estPolls := 6*len(c.tables) + 10*len(c.colls) + 6
	cut := fillTx[nFill-1-rng.Intn(minInt(3, nFill))]
	for ev := 0; ev < nEv && !c.failed; ev++ {
		mode := c14dMode((no + ev) % int(c14dNModes)) // every mode in every run
		if ev > 0 && rng.Chance(30) {
			mode = c14dMode(rng.Intn(int(c14dNModes)))
		}
		k := 0
		switch rng.Intn(4) {
		case 0:
			k = rng.Intn(3)
		default:
			k = rng.Intn(estPolls)
		}
		last := c.lastTx()
		switch {
		case ev == 0:
		case rng.Chance(20): // repeat the cut
		case rng.Chance(12):
			cut = last + 1
		default:
			if cut < last {
				cut += 1 + uint64(rng.Intn(int(last-cut)))
			}
		}
		r.Count("dbcat.mode." + mode.String())
		c.truncate(mode, k, cut)
		if c.failed {
			break
		}
		ph := "after-truncation"
		if !c.verify(ph) {
			break
		}
		if rng.Chance(70) || ev == nEv-1 {
			if !c.newWrites(ph) || !c.verify(ph + "-and-writes") {
				break
			}
		}
		if rng.Chance(50) || ev == nEv-1 {
			if !c.restart(ph) {
				break
			}
			ph = "after-truncation-and-restart"
			if !c.verify(ph) || !c.newWrites(ph) || !c.verify(ph+"-and-writes") {
				break
			}
		}
	}
	r.Count("dbcat.cases")
	if c.failed {
		r.Count("dbcat.cases.failed")
	}
	return nil
}

// c14CatalogRaceCase: a free-running DDL writer next to repeated truncations (statistical twin of the `ddl-at` mode).
func c14CatalogRaceCase(r *hx.Result, rng *hx.Rng, thorough bool, no int) (err error) {
	r.NextCase()
	c := &c14dCase{r: r, rng: rng, lg: &c14dLogger{}}
	defer func() {
		if p := recover(); p != nil {
			r.Fail("C14:database:panic", fmt.Sprint(p), c.replay())
		}
	}()
	c.F, c.io, c.mte = 512, 1+rng.Intn(2), store.DefaultMaxTxEntries
	c.root = hx.TempDir("c14dbrace")
	defer os.RemoveAll(c.root)
	nTab := 3 + rng.Intn(4)
	c.label = fmt.Sprintf("dbcat-race#%d F=%d io=%d tables=%d", no, c.F, c.io, nTab)
	db, err := database.NewDB("db", c14MultiDB{}, c.mkOpts(), c.lg)
	if err != nil {
		return err
	}
	c.db = db
	c.tr = database.NewVlogTruncator(db, c.lg)
	defer func() {
		if !c.closed {
			c.db.Close()
		}
	}()
	for i := 0; i < nTab; i++ {
		if !c.createTable("setup", fmt.Sprintf("t%d", i), i%2 == 0) {
			return nil
		}
	}
	var cut uint64
	for i := 0; i < 6; i++ {
		id, ok := c.setKV("setup", fmt.Sprintf("filler-%02d", i), bytes.Repeat([]byte{byte('a' + i)}, c.F))
		if !ok {
			return nil
		}
		cut = id
	}
	for _, t := range c.tables {
		if !c.insertRow("setup", t) {
			return nil
		}
	}
	c.step("schema: %d tables; 6 fillers; rows", nTab)
	rounds := 3
	if thorough {
		rounds = 8
	}
	for round := 0; round < rounds && !c.failed; round++ {
		stop := make(chan struct{})
		var ddlOK, ddlErr atomic.Int64
		var wg sync.WaitGroup
		wg.Add(1)
		go func() {
			defer wg.Done()
			for i := 0; i < 40; i++ {
				select {
				case <-stop:
					return
				default:
				}
				// raw DDL (the Result is not touched from this goroutine); a refused DDL (conflict with the copy tx) is fine
				c.mu.Lock()
				t := c.tables[i%len(c.tables)]
				col := fmt.Sprintf("x%d", len(t.cols))
				c.mu.Unlock()
				_, _, err := c.db.SQLExec(context.Background(), nil, &schema.SQLExecRequest{Sql: fmt.Sprintf("ALTER TABLE %s ADD COLUMN %s VARCHAR[8]", t.name, col)})
				if err == nil {
					c.mu.Lock()
					t.cols = append(t.cols, col)
					c.mu.Unlock()
					ddlOK.Add(1)
				} else {
					ddlErr.Add(1)
				}
			}
		}()
		for i := 0; i < 3; i++ {
			c.truncate(c14dPlain, 0, cut)
		}
		close(stop)
		wg.Wait()
		r.CountN("dbcat.race.ddl-committed", int(ddlOK.Load()))
		r.CountN("dbcat.race.ddl-refused", int(ddlErr.Load()))
		if c.failed {
			break
		}
		if !c.verify("after-racing-truncation") || !c.newWrites("after-racing-truncation") {
			break
		}
		if !c.restart("after-racing-truncation") || !c.verify("after-racing-truncation-and-restart") {
			break
		}
		if id, ok := c.setKV("race", fmt.Sprintf("cut-%d", round), []byte("m")); ok {
			cut = id
		}
	}
	r.Count("dbcat.race.cases")
	return nil
}

// c14SnapshotLeakProbe: every catalog copy that fails after its first read keeps one index snapshot; with
// MaxActiveSnapshots = n, n refused truncations leave the database unable to open any snapshot.
func c14SnapshotLeakProbe(r *hx.Result) error {
	r.NextCase()
	root := hx.TempDir("c14dbleak")
	defer os.RemoveAll(root)
	const maxSnaps = 4
	lg := &c14dLogger{}
	so := c14Options(512, 1, false, nil, false, nil).WithMaxTxEntries(8).WithMaxKeyLen(store.DefaultMaxKeyLen).
		WithIndexOptions(store.DefaultIndexOptions().WithMaxActiveSnapshots(maxSnaps))
	db, err := database.NewDB("db", c14MultiDB{}, database.DefaultOptions().WithDBRootPath(root).WithStoreOptions(so), lg)
	if err != nil {
		return err
	}
	defer db.Close()
	ctx := context.Background()
	label := fmt.Sprintf("snapshot-leak-probe: MaxTxEntries=8 MaxActiveSnapshots=%d; 3 tables (12 catalog entries); %d x TruncateUptoTx(last) refused; SELECT", maxSnaps, maxSnaps+1)
	for i := 0; i < 3; i++ {
		if _, _, err := db.SQLExec(ctx, nil, &schema.SQLExecRequest{Sql: fmt.Sprintf("CREATE TABLE t%d (id INTEGER, name VARCHAR[8], PRIMARY KEY id)", i)}); err != nil {
			return err
		}
	}
	if _, _, err := db.SQLExec(ctx, nil, &schema.SQLExecRequest{Sql: "INSERT INTO t0 (id, name) VALUES (1, 'a')"}); err != nil {
		return err
	}
	st, _ := db.CurrentState()
	tr := database.NewVlogTruncator(db, lg)
	refused := 0 // truncations whose catalog copy did not commit (no new tx)
	for i := 0; i < maxSnaps+1; i++ {
		err := tr.TruncateUptoTx(ctx, st.TxId)
		if st1, _ := db.CurrentState(); st1 != nil && st1.TxId == st.TxId {
			refused++
		}
		if os.Getenv("VH_C14_DEBUG") != "" {
			fmt.Fprintf(os.Stderr, "leak-probe trunc#%d -> %v\n", i, err)
		}
	}
	r.OracleChecks++
	_, qerr := db.SQLQueryAll(ctx, nil, &schema.SQLQueryRequest{Sql: "SELECT id FROM t0 WHERE id >= 1"})
	if qerr == nil {
		_, _, qerr = db.SQLExec(ctx, nil, &schema.SQLExecRequest{Sql: "INSERT INTO t0 (id, name) VALUES (2, 'b')"})
	}
	r.Count("probe.snapshot-leak")
	if os.Getenv("VH_C14_DEBUG") != "" {
		fmt.Fprintf(os.Stderr, "leak-probe refused=%d select -> %v\n", refused, qerr)
	}
	if qerr != nil && refused > 0 {
		r.Fail(c14dSigSnapsOut, fmt.Sprintf("after %d truncations whose catalog copy failed: SELECT / INSERT -> %v", refused, qerr), label)
	} else if qerr != nil {
		r.Fail("C14:database.SQLQuery:fails-in-snapshot-probe", qerr.Error(), label)
	}
	r.Eval(label, refused > 0)
	return nil
}
