package main

// C05 — read-write transactions are serializable in commit order (MVCC).
//
// Real embedded/store, 1..2 indexes, 4..12 keys.  Three kinds of cases:
//   * deterministic scenarios (phantom templates, the K8 two-index schedule, …): every step is ordered by the
//     scheduler goroutine through channels (each transaction runs in its own goroutine and executes one API call
//     per token),
//   * scripted-random: a seeded random interleaving of API calls of 2..8 transactions, write-only commits and
//     snapshot-root refreshes (stale snapshots are obtained deterministically with SnapshotMustIncludeTxID),
//   * free-running: the same programs in parallel goroutines with write-only committers, snapshot readers and a
//     throttled indexer (MaxBulkSize 1).
// ORACLE (c05oracle.go, independent of the Lean model): serial replay in tx-id order; aborted transactions leave no
// trace; snapshots never show part of a transaction.
// CORRESPONDENCE: the observed scheduling facts (commit ids, snapshot ts per index, SnapshotMustIncludeTxID values,
// conflict windows) are replayed through the Lean driver (`c05 …`), which must reproduce every read result and every
// commit verdict; `c05 solo` ties the Lean serial reference to the Go serial oracle.

import (
	"bytes"
	"context"
	"errors"
	"fmt"
	"os"
	"sort"
	"sync"
	"sync/atomic"
	"time"

	"github.com/codenotary/immudb/embedded/store"

	"verif/harness/internal/hx"
)

func init() { runners["C05"] = runC05 }

func removeAll(d string) { os.RemoveAll(d) }

// ---------- a case ----------

type c5act struct {
	Kind    string // w (write-only commit) | t (tx op) | refresh
	Tx      int
	Op      c5op
	Entries []c5row
	Idx     int
}

type c5case struct {
	Name   string
	Idxs   [][]byte
	U      [][]byte
	Txs    []*c5tx
	Script []c5act // nil => free-running
	Free   struct {
		Committers [][]([]c5row)
		Readers    int
		MaxBulk    int
		Synced     bool
	}
}

type c5snapObs struct {
	Idx  int
	Ts   uint64
	Rows []c5row
}

type c5outcome struct {
	s       *c5store
	obs     []c5snapObs
	wids    []uint64 // ids of the script's write-only commits, in script order
	panics  []string
	harnErr error
}

// txWorker: one goroutine per transaction, one API call per token
type c5cmd struct {
	op   c5op
	done chan c5res
}

func runScripted(c *c5case) *c5outcome {
	out := &c5outcome{}
	s, err := c5open("c05", c.Idxs, 4, false)
	if err != nil {
		out.harnErr = err
		return out
	}
	out.s = s
	chans := make([]chan c5cmd, len(c.Txs))
	var wg sync.WaitGroup
	for i := range c.Txs {
		chans[i] = make(chan c5cmd)
		wg.Add(1)
		go func(i int) {
			defer wg.Done()
			var r *c5runner
			for cmd := range chans[i] {
				if r == nil {
					var err error
					r, err = s.begin(c.Txs[i])
					if err != nil {
						cmd.done <- c5res{Kind: "err", Err: err.Error()}
						continue
					}
				}
				cmd.done <- r.exec(cmd.op)
			}
			if r != nil && c.Txs[i].Final == "open" {
				r.tx.Cancel()
			}
		}(i)
	}
	for _, a := range c.Script {
		switch a.Kind {
		case "w":
			id, err := s.wcommit(a.Entries)
			if err != nil {
				out.harnErr = err
			}
			out.wids = append(out.wids, id)
		case "refresh":
			if _, err := s.refreshRoot(a.Idx); err != nil {
				out.harnErr = err
			}
		case "t":
			if c.Txs[a.Tx].Final != "" && c.Txs[a.Tx].Final != "open" {
				continue
			}
			cmd := c5cmd{op: a.Op, done: make(chan c5res, 1)}
			chans[a.Tx] <- cmd
			res := <-cmd.done
			if res.Kind == "panic" {
				out.panics = append(out.panics, fmt.Sprintf("tx %d %s: %s", a.Tx, a.Op.String(), res.Err))
			}
		}
	}
	for _, ch := range chans {
		close(ch)
	}
	wg.Wait()
	return out
}

func runFree(c *c5case) *c5outcome {
	out := &c5outcome{}
	s, err := c5open("c05f", c.Idxs, c.Free.MaxBulk, c.Free.Synced)
	if err != nil {
		out.harnErr = err
		return out
	}
	out.s = s
	var wg sync.WaitGroup
	var mu sync.Mutex
	var stop int32
	start := make(chan struct{})
	for i := range c.Txs {
		wg.Add(1)
		go func(t *c5tx) {
			defer wg.Done()
			<-start
			r, err := s.begin(t)
			if err != nil {
				mu.Lock()
				out.harnErr = err
				mu.Unlock()
				return
			}
			for _, op := range t.Prog {
				res := r.exec(op)
				if res.Kind == "panic" {
					mu.Lock()
					out.panics = append(out.panics, fmt.Sprintf("tx %d %s: %s", t.ID, op.String(), res.Err))
					mu.Unlock()
				}
				if op.Kind == "commit" || op.Kind == "cancel" {
					break
				}
			}
			if t.Final == "open" {
				r.tx.Cancel()
			}
		}(c.Txs[i])
	}
	for _, batch := range c.Free.Committers {
		wg.Add(1)
		go func(batch [][]c5row) {
			defer wg.Done()
			<-start
			for _, es := range batch {
				if _, err := s.wcommit(es); err != nil {
					mu.Lock()
					out.harnErr = err
					mu.Unlock()
				}
			}
		}(batch)
	}
	var rwg sync.WaitGroup
	for ri := 0; ri < c.Free.Readers; ri++ {
		rwg.Add(1)
		go func(ri int) {
			defer rwg.Done()
			<-start
			for n := 0; atomic.LoadInt32(&stop) == 0 && n < 200; n++ {
				idx := (ri + n) % len(c.Idxs)
				o, err := s.observeSnapshot(idx)
				if err != nil {
					continue
				}
				mu.Lock()
				out.obs = append(out.obs, *o)
				mu.Unlock()
				time.Sleep(time.Duration(50+n%7*30) * time.Microsecond)
			}
		}(ri)
	}
	close(start)
	wg.Wait()
	atomic.StoreInt32(&stop, 1)
	rwg.Wait()
	return out
}

// a plain snapshot of one index (re-usable root allowed) and everything in it
func (s *c5store) observeSnapshot(idx int) (*c5snapObs, error) {
	ctx := context.Background()
	sn, err := s.st.SnapshotMustIncludeTxID(ctx, s.idxs[idx], 0)
	if err != nil {
		return nil, err
	}
	defer sn.Close()
	o := &c5snapObs{Idx: idx, Ts: sn.Ts()}
	kr, err := sn.NewKeyReader(store.KeyReaderSpec{Prefix: s.idxs[idx]})
	if err != nil {
		return nil, err
	}
	defer kr.Close()
	for {
		k, v, err := kr.Read(ctx)
		if errors.Is(err, store.ErrNoMoreEntries) {
			break
		}
		if err != nil {
			return nil, err
		}
		md := v.KVMetadata()
		o.Rows = append(o.Rows, c5row{Key: append([]byte{}, k...), Tx: v.Tx(), Del: md != nil && md.Deleted()})
	}
	return o, nil
}

// ---------- evaluation of one finished case ----------

func evalC05(r *hx.Result, c *c5case, out *c5outcome) {
	r.NextCase()
	defer func() {
		if out.s != nil {
			out.s.close()
		}
	}()
	replay := map[string]interface{}{"case": c.Name, "idxs": hxList(c.Idxs), "script": scriptStrings(c), "programs": progStrings(c)}
	if out.harnErr != nil {
		r.Notes = append(r.Notes, "harness error in "+c.Name+": "+out.harnErr.Error())
		r.Count("harness.error")
		return
	}
	for _, p := range out.panics {
		r.Fail("C05:panic:store-api", p, replay)
	}
	s := out.s
	st, maxID := newC5State(s.log)
	if uint64(len(s.log)) != maxID || s.st.LastCommittedTxID() != maxID {
		r.Fail("C05:abort:left-trace", fmt.Sprintf("%s: %d commits acknowledged but the store has %d transactions (max id seen %d)",
			c.Name, len(s.log), s.st.LastCommittedTxID(), maxID), replay)
	}
	// (1) serial replay of every committed read-write transaction
	nontrivial := false
	for _, t := range c.Txs {
		r.Count("tx.final." + t.Final)
		if t.Final == "committed" {
			r.OracleChecks++
			for _, v := range st.checkSerializable(t) {
				r.Fail(v.Sig, c.Name+": "+v.Desc, replay)
			}
			if t.CommitID-1 > minBase(t) {
				nontrivial = true
				r.Count("tx.committed-with-stale-snapshot")
			}
		}
		if t.Final == "conflict" {
			nontrivial = true
		}
		for _, stp := range t.Steps {
			r.Count("op." + stp.Op.Kind)
			if stp.Acq != nil && stp.Acq.Base < stp.Acq.LastPre {
				r.Count("snapshot.stale-at-acquisition")
			}
		}
	}
	// (2) aborted / cancelled transactions leave no trace: final content of every index = replay of committed txs
	s.st.WaitForIndexingUpto(context.Background(), maxID)
	for idx := range c.Idxs {
		o, err := s.observeFresh(idx, maxID)
		if err != nil {
			r.Notes = append(r.Notes, "final scan: "+err.Error())
			continue
		}
		r.OracleChecks++
		var want []c5row
		for _, k := range st.keys() {
			if bytes.HasPrefix(k, c.Idxs[idx]) {
				v := st.at(maxID, k)
				want = append(want, c5row{Key: k, Tx: v.Tx, Del: v.Del})
			}
		}
		if fmtRows(o.Rows) != fmtRows(want) {
			r.Fail("C05:abort:left-trace", fmt.Sprintf("%s: final content of index %q is %s, replay of the committed transactions gives %s",
				c.Name, c.Idxs[idx], fmtRows(o.Rows), fmtRows(want)), replay)
		}
	}
	// (3) snapshots observed concurrently: all or none of a transaction's entries, and exactly the prefix view
	for _, o := range out.obs {
		r.OracleChecks++
		seen := map[string]uint64{}
		for _, row := range o.Rows {
			seen[string(row.Key)] = row.Tx
		}
		bad := ""
		for id, es := range s.log {
			any, all := false, true
			for _, e := range es {
				if !bytes.HasPrefix(e.Key, c.Idxs[o.Idx]) {
					continue
				}
				if seen[string(e.Key)] >= id {
					any = true
				} else {
					all = false
				}
			}
			if any && !all {
				bad = fmt.Sprintf("tx %d partially visible in a snapshot with ts %d of index %q: %s", id, o.Ts, c.Idxs[o.Idx], fmtRows(o.Rows))
			}
		}
		if bad != "" {
			r.Fail("C05:atomic-visibility:partial-tx-seen", c.Name+": "+bad, replay)
			continue
		}
		for _, k := range st.keys() {
			if !bytes.HasPrefix(k, c.Idxs[o.Idx]) {
				continue
			}
			v := st.at(o.Ts, k)
			var w uint64
			if v != nil {
				w = v.Tx
			}
			if seen[string(k)] != w {
				r.Fail("C05:snapshot:not-a-prefix-view", fmt.Sprintf("%s: snapshot ts %d shows %q at tx %d, the log says %d", c.Name, o.Ts, k, seen[string(k)], w), replay)
				break
			}
		}
	}
	r.CountN("snapshot.observations", len(out.obs))
	// (4) correspondence with the Lean model
	emitC05Lines(r, c, out, st, maxID)
	key := c.Name
	if len(key) > 4 && (key[:4] == "rand" || key[:4] == "free") {
		key = fmt.Sprintf("%s/%d", key, r.Case())
	}
	r.Eval(key, nontrivial)
}

func minBase(t *c5tx) uint64 {
	m := ^uint64(0)
	for _, b := range t.SnapBase {
		if b < m {
			m = b
		}
	}
	return m
}

// up-to-date snapshot of an index, all rows (no filters)
func (s *c5store) observeFresh(idx int, upto uint64) (*c5snapObs, error) {
	ctx := context.Background()
	sn, err := s.st.SnapshotMustIncludeTxID(ctx, s.idxs[idx], upto)
	if err != nil {
		return nil, err
	}
	defer sn.Close()
	o := &c5snapObs{Idx: idx, Ts: sn.Ts()}
	kr, err := sn.NewKeyReader(store.KeyReaderSpec{Prefix: s.idxs[idx]})
	if err != nil {
		return nil, err
	}
	defer kr.Close()
	for {
		k, v, err := kr.Read(ctx)
		if errors.Is(err, store.ErrNoMoreEntries) {
			break
		}
		if err != nil {
			return nil, err
		}
		md := v.KVMetadata()
		o.Rows = append(o.Rows, c5row{Key: append([]byte{}, k...), Tx: v.Tx(), Del: md != nil && md.Deleted()})
	}
	return o, nil
}

// ---------- correspondence ----------

func emitC05Lines(r *hx.Result, c *c5case, out *c5outcome, st *c5state, maxID uint64) {
	s := out.s
	r.Corr(fmt.Sprintf("c05 new %s %s %d", hx.Csv(c.Idxs), hx.Csv(sortedKeys(c.U)), len(c.Txs)), "ok")
	byID := map[uint64]*c5tx{}
	for _, t := range c.Txs {
		if t.Final == "committed" {
			byID[t.CommitID] = t
		}
	}
	emitOps := func(t *c5tx) {
		for _, stp := range t.Steps {
			if stp.Op.Kind == "commit" || stp.Op.Kind == "cancel" {
				continue
			}
			mi, choice := "d", uint64(0)
			if stp.Acq != nil {
				r.Corr(fmt.Sprintf("c05 index %d %d", stp.Acq.Idx, stp.Acq.Base), "ok")
				mi, choice = fmt.Sprint(stp.Acq.MI), stp.Acq.Base
			}
			r.Corr(fmt.Sprintf("c05 op %d %s %d %s", t.ID, mi, choice, stp.Op.line()), stp.Res.String())
		}
	}
	for id := uint64(1); id <= maxID; id++ {
		if t, ok := byID[id]; ok {
			emitOps(t)
			r.Corr(fmt.Sprintf("c05 op %d d 0 commit", t.ID), fmt.Sprintf("committed %d", id))
		} else {
			r.Corr("c05 wcommit "+c5EntriesTok(s.log[id]), fmt.Sprint(id))
		}
	}
	for _, t := range c.Txs {
		switch t.Final {
		case "conflict":
			emitOps(t)
			r.Corr(fmt.Sprintf("c05 verdict %d %d %d", t.ID, t.CommitLo, t.CommitHi), "conflict")
			r.Count("verdict.conflict")
			if t.CommitLo != t.CommitHi {
				r.Count("verdict.conflict.window>1")
			}
		case "cancelled":
			emitOps(t)
			r.Corr(fmt.Sprintf("c05 op %d d 0 cancel", t.ID), "cancelled")
		case "noentries":
			emitOps(t)
			r.Corr(fmt.Sprintf("c05 op %d d 0 commit", t.ID), "noentries")
		}
	}
	// the Lean serial reference (soloTrace) against the Go serial oracle
	for _, t := range c.Txs {
		if t.Final != "committed" {
			continue
		}
		var parts []string
		for i, stp := range t.Steps {
			if stp.Op.Kind == "commit" {
				parts = append(parts, fmt.Sprintf("committed %d", t.CommitID))
				continue
			}
			if want, isRead := st.serialExec(t.CommitID-1, t.ownAt(i), stp.Op); isRead {
				parts = append(parts, want.String())
			} else {
				parts = append(parts, stp.Res.String())
			}
		}
		r.Corr(fmt.Sprintf("c05 solo %d %d", t.ID, t.CommitID-1), joinSlash(parts))
	}
}

func joinSlash(p []string) string {
	out := ""
	for i, s := range p {
		if i > 0 {
			out += " / "
		}
		out += s
	}
	return out
}

func hxList(bs [][]byte) []string {
	o := make([]string, len(bs))
	for i, b := range bs {
		o[i] = string(b)
	}
	return o
}

func progStrings(c *c5case) map[string][]string {
	m := map[string][]string{}
	for _, t := range c.Txs {
		var ss []string
		for _, o := range t.Prog {
			ss = append(ss, o.String())
		}
		m[fmt.Sprintf("tx%d(stale=%d)", t.ID, t.Stale)] = ss
	}
	return m
}

func scriptStrings(c *c5case) []string {
	var ss []string
	for _, a := range c.Script {
		switch a.Kind {
		case "w":
			ss = append(ss, "wcommit "+c5EntriesTok(a.Entries))
		case "refresh":
			ss = append(ss, fmt.Sprintf("refresh-root idx%d", a.Idx))
		case "t":
			ss = append(ss, fmt.Sprintf("tx%d %s", a.Tx, a.Op.String()))
		}
	}
	return ss
}

// ---------- deterministic scenarios ----------

func kv(k, v string) c5row { return c5row{Key: []byte(k), Val: []byte(v)} }
func kdel(k string) c5row  { return c5row{Key: []byte(k), Del: true} }
func W(es ...c5row) c5act  { return c5act{Kind: "w", Entries: es} }
func T(tx int, op c5op) c5act {
	return c5act{Kind: "t", Tx: tx, Op: op}
}
func opGet(k string) c5op    { return c5op{Kind: "get", Key: []byte(k), Ign: true} }
func opSet(k, v string) c5op { return c5op{Kind: "set", Key: []byte(k), Val: []byte(v)} }
func opDel(k string) c5op    { return c5op{Kind: "del", Key: []byte(k)} }
func opPget(p, neq string) c5op {
	return c5op{Kind: "pget", Key: []byte(p), Neq: []byte(neq), Ign: true}
}
func opScan(sp c5spec, segs ...int) c5op { return c5op{Kind: "scan", Spec: sp, Segs: segs} }
func opMark(p string) c5op               { return c5op{Kind: "mark", Spec: c5spec{Pfx: []byte(p)}} }

var opCommit = c5op{Kind: "commit"}
var opCancel = c5op{Kind: "cancel"}

func scenario(name string, idxs []string, keys []string, stale []int, script ...c5act) *c5case {
	c := &c5case{Name: name}
	for _, p := range idxs {
		c.Idxs = append(c.Idxs, []byte(p))
	}
	for _, k := range keys {
		c.U = append(c.U, []byte(k))
	}
	for i, s := range stale {
		c.Txs = append(c.Txs, &c5tx{ID: i, Stale: s})
	}
	c.Script = script
	for _, a := range script {
		if a.Kind == "t" {
			c.Txs[a.Tx].Prog = append(c.Txs[a.Tx].Prog, a.Op)
		}
	}
	return c
}

const c5K8Scenario = "stale/K8-two-indexes-later-snapshot-detected"

func c5Scenarios() []*c5case {
	pk := c5spec{Pfx: []byte("k"), IgnDel: true}
	ks := []string{"ka", "kb", "kc", "kd", "ke", "km", "kz"}
	var cs []*c5case
	// --- phantom templates: each MUST end in a read conflict ---
	cs = append(cs,
		scenario("phantom/insert-between-two-rows-read", []string{"k"}, ks, []int{-1},
			W(kv("ka", "1"), kv("kc", "3")), T(0, opScan(pk, 2)), T(0, opSet("kz", "w")), W(kv("kb", "2")), T(0, opCommit)),
		scenario("phantom/insert-past-last-row-read-exhausted", []string{"k"}, ks, []int{-1},
			W(kv("ka", "1"), kv("kc", "3")), T(0, opScan(pk, 100)), T(0, opSet("kz", "w")), W(kv("kd", "4")), T(0, opCommit)),
		scenario("phantom/insert-past-last-row-read-early-stop-commits", []string{"k"}, ks, []int{-1},
			// the scan stopped after 2 rows: an insert behind them is NOT a conflict and the commit must succeed
			W(kv("ka", "1"), kv("kc", "3"), kv("ke", "5")), T(0, opScan(pk, 2)), T(0, opSet("kz", "w")), W(kv("kd", "4")), T(0, opCommit)),
		scenario("phantom/insert-under-exclusion-key", []string{"k"}, ks, []int{-1},
			W(kv("ka", "1"), kv("kd", "4")), T(0, opPget("k", "ka")), T(0, opSet("kz", "w")), W(kv("kb", "2")), T(0, opCommit)),
		scenario("phantom/prefix-get-not-found-then-insert", []string{"k"}, ks, []int{-1},
			W(kv("ka", "1")), T(0, opPget("k", "ka")), T(0, opSet("kz", "w")), W(kv("kb", "2")), T(0, opCommit)),
		scenario("phantom/delete-then-reinsert", []string{"k"}, ks, []int{-1},
			W(kv("ka", "1"), kv("kb", "2")), T(0, opScan(pk, 100)), T(0, opSet("kz", "w")), W(kdel("kb")), W(kv("kb", "2")), T(0, opCommit)),
		scenario("phantom/delete-then-reinsert-point", []string{"k"}, ks, []int{-1},
			W(kv("kb", "2")), T(0, opGet("kb")), T(0, opSet("kz", "w")), W(kdel("kb")), W(kv("kb", "2")), T(0, opCommit)),
		scenario("phantom/not-found-then-insert-point", []string{"k"}, ks, []int{-1},
			W(kv("ka", "1")), T(0, opGet("kb")), T(0, opSet("kz", "w")), W(kv("kb", "2")), T(0, opCommit)),
		scenario("phantom/desc-scan-insert-between", []string{"k"}, ks, []int{-1},
			W(kv("ka", "1"), kv("kc", "3")), T(0, opScan(c5spec{Pfx: []byte("k"), Desc: true, IgnDel: true}, 2)), T(0, opSet("kz", "w")), W(kv("kb", "2")), T(0, opCommit)),
		scenario("phantom/fingerprint-insert", []string{"k"}, ks, []int{-1},
			W(kv("ka", "1"), kv("kc", "3")), T(0, opMark("k")), T(0, opSet("kz", "w")), W(kv("kb", "2")), T(0, opCommit)),
		scenario("phantom/reset-second-segment", []string{"k"}, ks, []int{-1},
			W(kv("ka", "1"), kv("kc", "3")), T(0, opScan(pk, 1, 2)), T(0, opSet("kz", "w")), W(kv("kb", "2")), T(0, opCommit)),
		scenario("stale/read-then-concurrent-update", []string{"k"}, ks, []int{-1},
			W(kv("ka", "1")), T(0, opGet("ka")), T(0, opSet("kb", "x")), W(kv("ka", "2")), T(0, opCommit)),
		scenario("stale/disjoint-keys-commit", []string{"k"}, ks, []int{-1},
			W(kv("ka", "1"), kv("kb", "1")), T(0, opGet("ka")), T(0, opSet("kc", "x")), W(kv("kb", "2")), T(0, opCommit)),
		scenario("stale/two-rw-first-committer-wins", []string{"k"}, ks, []int{-1, -1},
			W(kv("ka", "1")), T(0, opGet("ka")), T(1, opGet("ka")), T(0, opSet("ka", "t0")), T(1, opSet("ka", "t1")), T(0, opCommit), T(1, opCommit)),
		scenario("stale/write-skew-detected", []string{"k"}, ks, []int{-1, -1},
			W(kv("ka", "1"), kv("kb", "1")), T(0, opGet("ka")), T(0, opGet("kb")), T(1, opGet("ka")), T(1, opGet("kb")),
			T(0, opSet("ka", "0")), T(1, opSet("kb", "0")), T(0, opCommit), T(1, opCommit)),
		scenario("abort/cancel-leaves-nothing", []string{"k"}, ks, []int{-1},
			W(kv("ka", "1")), T(0, opSet("kb", "x")), T(0, opDel("ka")), T(0, opCancel), W(kv("kc", "3"))),
		scenario("ryow/own-writes-visible", []string{"k"}, ks, []int{-1},
			W(kv("ka", "1"), kv("kc", "3")), T(0, opSet("kb", "own")), T(0, opGet("kb")), T(0, opDel("ka")), T(0, opGet("ka")),
			T(0, opScan(pk, 100)), T(0, opPget("k", "")), T(0, opCommit)),
		scenario("stale/old-snapshot-reused-detected", []string{"k"}, ks, []int{0},
			W(kv("ka", "1")), c5act{Kind: "refresh", Idx: 0}, W(kv("ka", "2")), T(0, opGet("ka")), T(0, opSet("kb", "x")), T(0, opCommit)),
	)
	// --- repaired finding K8 (checkPreconditions did `return nil` at the first snapshot with Ts() > lastPrecommitted and so
	// skipped the validation of a later, stale snapshot of another index): MUST end in a read conflict ---
	cs = append(cs,
		scenario(c5K8Scenario, []string{"a", "b"}, []string{"a1", "a2", "b1"}, []int{0},
			W(kv("a1", "x"), kv("b1", "v1")), c5act{Kind: "refresh", Idx: 1}, W(kv("b1", "v2")), c5act{Kind: "refresh", Idx: 0},
			T(0, opSet("a2", "w")), T(0, opGet("b1")), T(0, opCommit)),
	)
	// --- findings (each reproduces on the tree as it is; registered in known_findings.json) ---
	cs = append(cs,
		// a scan that stops on a row written by the tx itself: the row held by the validator is dropped uncompared
		scenario("finding/scan-own-write-tail", []string{"k"}, ks, []int{-1},
			W(kv("ka", "1"), kv("kz", "9")), T(0, opSet("km", "own")), T(0, opScan(pk, 2)), W(kv("kc", "phantom")), T(0, opCommit)),
		// GetWithPrefix answered by an own write records nothing
		scenario("finding/prefix-get-own-write", []string{"k"}, ks, []int{-1},
			W(kv("kz", "9")), T(0, opSet("km", "own")), T(0, opPget("k", "")), W(kv("ka", "phantom")), T(0, opCommit)),
	)
	return cs
}

// what each deterministic scenario must end with (checked in addition to the oracle)
var c5Expect = map[string][]string{
	"phantom/insert-between-two-rows-read":                 {"conflict"},
	"phantom/insert-past-last-row-read-exhausted":          {"conflict"},
	"phantom/insert-past-last-row-read-early-stop-commits": {"committed"},
	"phantom/insert-under-exclusion-key":                   {"conflict"},
	"phantom/prefix-get-not-found-then-insert":             {"conflict"},
	"phantom/delete-then-reinsert":                         {"conflict"},
	"phantom/delete-then-reinsert-point":                   {"conflict"},
	"phantom/not-found-then-insert-point":                  {"conflict"},
	"phantom/desc-scan-insert-between":                     {"conflict"},
	"phantom/fingerprint-insert":                           {"conflict"},
	"phantom/reset-second-segment":                         {"conflict"},
	"stale/read-then-concurrent-update":                    {"conflict"},
	"stale/disjoint-keys-commit":                           {"committed"},
	"stale/two-rw-first-committer-wins":                    {"committed", "conflict"},
	"stale/write-skew-detected":                            {"committed", "conflict"},
	"abort/cancel-leaves-nothing":                          {"cancelled"},
	"ryow/own-writes-visible":                              {"committed"},
	"stale/old-snapshot-reused-detected":                   {"conflict"},
	c5K8Scenario:                                           {"conflict"},
}

// ---------- random generation ----------

type c5gen struct {
	rng  *hx.Rng
	idxs [][]byte
	U    [][]byte
}

func newC5Gen(rng *hx.Rng) *c5gen {
	g := &c5gen{rng: rng}
	switch rng.Intn(3) {
	case 0:
		g.idxs = [][]byte{[]byte("k")}
	case 1:
		g.idxs = [][]byte{[]byte("a"), []byte("b")}
	default:
		g.idxs = [][]byte{[]byte("p/"), []byte("q")}
	}
	n := 4 + rng.Intn(9)
	suffix := []string{"", "0", "1", "10", "2", "a", "ab", "b", "\xff", "z", "m", "m0"}
	seen := map[string]bool{}
	for len(g.U) < n {
		k := string(g.idxs[rng.Intn(len(g.idxs))]) + suffix[rng.Intn(len(suffix))]
		if len(k) == 0 || seen[k] {
			continue
		}
		seen[k] = true
		g.U = append(g.U, []byte(k))
	}
	return g
}

func (g *c5gen) key() []byte { return g.U[g.rng.Intn(len(g.U))] }

func (g *c5gen) bound() []byte {
	switch g.rng.Intn(5) {
	case 0:
		return nil
	case 1:
		return append(append([]byte{}, g.key()...), 0)
	case 2:
		k := g.key()
		return k[:len(k)-g.rng.Intn(2)]
	default:
		return g.key()
	}
}

func (g *c5gen) spec() c5spec {
	p := g.idxs[g.rng.Intn(len(g.idxs))]
	if g.rng.Chance(25) {
		k := g.key()
		if len(k) > len(p) && bytes.HasPrefix(k, p) {
			p = k[:len(p)+1]
		}
	}
	sp := c5spec{Pfx: p, InclSeek: g.rng.Bool(), InclEnd: g.rng.Bool(), Desc: g.rng.Chance(35), IgnDel: g.rng.Chance(75)}
	if g.rng.Chance(50) {
		sp.Seek = g.bound()
	}
	if g.rng.Chance(40) {
		sp.End = g.bound()
	}
	if g.rng.Chance(25) {
		sp.Offset = 1 + g.rng.Intn(2)
	}
	return sp
}

func (g *c5gen) op() c5op {
	switch x := g.rng.Intn(100); {
	case x < 22:
		return c5op{Kind: "get", Key: g.key(), Ign: g.rng.Chance(80)}
	case x < 34:
		o := c5op{Kind: "pget", Key: g.spec().Pfx, Ign: g.rng.Chance(80)}
		if g.rng.Chance(50) {
			o.Neq = g.key()
		}
		return o
	case x < 58:
		o := c5op{Kind: "scan", Spec: g.spec()}
		for n := 1 + g.rng.Intn(2); n > 0; n-- {
			if g.rng.Chance(40) {
				o.Segs = append(o.Segs, 100)
			} else {
				o.Segs = append(o.Segs, g.rng.Intn(4))
			}
		}
		return o
	case x < 63:
		sp := g.spec()
		sp.Offset, sp.IgnDel = 0, true
		return c5op{Kind: "mark", Spec: sp}
	case x < 88:
		return c5op{Kind: "set", Key: g.key(), Val: []byte(fmt.Sprintf("v%d", g.rng.Intn(1000)))}
	default:
		return c5op{Kind: "del", Key: g.key()}
	}
}

func (g *c5gen) prog() []c5op {
	var p []c5op
	for n := 1 + g.rng.Intn(6); n > 0; n-- {
		p = append(p, g.op())
	}
	if g.rng.Chance(70) {
		p = append(p, c5op{Kind: "set", Key: g.key(), Val: []byte("w")}) // make most programs committable
	}
	if g.rng.Chance(90) {
		p = append(p, opCommit)
	} else {
		p = append(p, opCancel)
	}
	return p
}

func (g *c5gen) entries() []c5row {
	var es []c5row
	seen := map[string]bool{}
	for n := 1 + g.rng.Intn(3); n > 0; n-- {
		k := g.key()
		if seen[string(k)] {
			continue
		}
		seen[string(k)] = true
		if g.rng.Chance(20) {
			es = append(es, c5row{Key: k, Del: true})
		} else {
			es = append(es, c5row{Key: k, Val: []byte(fmt.Sprintf("c%d", g.rng.Intn(1000)))})
		}
	}
	return es
}

func (g *c5gen) txs() []*c5tx {
	var txs []*c5tx
	for i, n := 0, 2+g.rng.Intn(7); i < n; i++ {
		t := &c5tx{ID: i, Stale: -1, Prog: g.prog()}
		if g.rng.Chance(45) {
			t.Stale = g.rng.Intn(4)
		}
		txs = append(txs, t)
	}
	return txs
}

func (g *c5gen) scripted(name string) *c5case {
	c := &c5case{Name: name, Idxs: g.idxs, U: g.U, Txs: g.txs()}
	pc := make([]int, len(c.Txs))
	c.Script = append(c.Script, W(g.entries()...))
	for {
		var live []int
		for i, t := range c.Txs {
			if pc[i] < len(t.Prog) {
				live = append(live, i)
			}
		}
		if len(live) == 0 {
			break
		}
		switch x := g.rng.Intn(100); {
		case x < 22:
			c.Script = append(c.Script, W(g.entries()...))
		case x < 30:
			c.Script = append(c.Script, c5act{Kind: "refresh", Idx: g.rng.Intn(len(g.idxs))})
		default:
			i := live[g.rng.Intn(len(live))]
			c.Script = append(c.Script, T(i, c.Txs[i].Prog[pc[i]]))
			pc[i]++
		}
	}
	return c
}

func (g *c5gen) free(name string) *c5case {
	c := &c5case{Name: name, Idxs: g.idxs, U: g.U, Txs: g.txs()}
	for n := 1 + g.rng.Intn(3); n > 0; n-- {
		var batch [][]c5row
		for m := 2 + g.rng.Intn(6); m > 0; m-- {
			batch = append(batch, g.entries())
		}
		c.Free.Committers = append(c.Free.Committers, batch)
	}
	c.Free.Readers = 1 + g.rng.Intn(2)
	c.Free.MaxBulk = 1 // bulks > 1 hit the indexer key-aliasing defect F1 (owned by C04): keys of one bulk overwrite each other
	c.Free.Synced = g.rng.Chance(20)
	return c
}

// ---------- runner ----------

func runC05(r *hx.Result, rng *hx.Rng, thorough bool, replay string) error {
	r.Rule = "evaluation = one set of 1..8 concurrent transaction programs run on the real store, checked by serial replay in tx-id order, " +
		"final-content replay, snapshot atomicity, and replayed through the Lean model; non-trivial = some transaction committed from a stale " +
		"snapshot or was rejected with a read conflict"
	for _, c := range c5Scenarios() {
		out := runScripted(c)
		if exp, ok := c5Expect[c.Name]; ok && out.harnErr == nil {
			for i, t := range c.Txs {
				r.OracleChecks++
				if i < len(exp) && t.Final != exp[i] {
					sig := "C05:scenario:unexpected-verdict"
					if exp[i] == "conflict" && t.Final == "committed" {
						sig = "C05:phantom:range-scan-missed-insert"
						if len(c.Name) > 5 && c.Name[:5] == "stale" {
							sig = "C05:serializability:stale-read-committed"
						}
						if c.Name == c5K8Scenario {
							sig = "C05:serializability:stale-read-committed:later-snapshot-unvalidated"
						}
					}
					r.Fail(sig, fmt.Sprintf("%s: tx %d ended %q, expected %q", c.Name, i, t.Final, exp[i]),
						map[string]interface{}{"case": c.Name, "script": scriptStrings(c)})
				}
			}
		}
		if (len(c.Name) > 7 && c.Name[:7] == "finding") || c.Name == c5K8Scenario {
			r.Sample(map[string]interface{}{"scenario": c.Name, "script": scriptStrings(c), "verdict": c.Txs[0].Final, "id": c.Txs[0].CommitID,
				"snapshots": fmt.Sprintf("base=%v ts=%v", c.Txs[0].SnapBase, c.Txs[0].SnapTs)})
		}
		r.Count("case.scenario")
		evalC05(r, c, out)
	}
	nScripted, nFree := 260, 40
	if thorough {
		nScripted, nFree = 3000, 400
	}
	deadline := time.Now().Add(55 * time.Second)
	if thorough {
		deadline = time.Now().Add(13 * time.Minute)
	}
	// cases are executed by a small pool (each on its own store) and evaluated in order
	type job struct {
		c    *c5case
		out  *c5outcome
		done chan struct{}
	}
	runPool := func(jobs []*job, workers int, free bool) error {
		sem := make(chan struct{}, workers)
		go func() {
			for _, j := range jobs {
				sem <- struct{}{}
				if !time.Now().Before(deadline) {
					j.c = nil
					close(j.done)
					<-sem
					continue
				}
				go func(j *job) {
					if free {
						j.out = runFree(j.c)
					} else {
						j.out = runScripted(j.c)
					}
					close(j.done)
					<-sem
				}(j)
			}
		}()
		for i, j := range jobs {
			<-j.done
			if j.c == nil {
				continue
			}
			if free {
				r.Count("case.free")
			} else {
				r.Count("case.scripted")
				r.Count(fmt.Sprintf("case.indexes.%d", len(j.c.Idxs)))
			}
			r.Count(fmt.Sprintf("case.txs.%d", len(j.c.Txs)))
			evalC05(r, j.c, j.out)
			if i%40 == 39 {
				if err := r.Flush(); err != nil {
					return err
				}
			}
		}
		return nil
	}
	var sj, fj []*job
	for i := 0; i < nScripted; i++ {
		g := newC5Gen(rng.Fork())
		sj = append(sj, &job{c: g.scripted(fmt.Sprintf("rand-scripted-%d", i)), done: make(chan struct{})})
	}
	for i := 0; i < nFree; i++ {
		g := newC5Gen(rng.Fork())
		fj = append(fj, &job{c: g.free(fmt.Sprintf("free-%d", i)), done: make(chan struct{})})
	}
	if err := runPool(sj, 6, false); err != nil {
		return err
	}
	if err := runPool(fj, 2, true); err != nil {
		return err
	}
	if err := r.Flush(); err != nil {
		return err
	}
	if r.Distribution["tx.final.conflict"] == 0 || r.Distribution["tx.final.committed"] == 0 || r.Distribution["tx.committed-with-stale-snapshot"] == 0 {
		r.Inconclusive = append(r.Inconclusive, "generator collapse: no conflicts / no commits / no commit from a stale snapshot")
	}
	r.Extra["programs"] = r.Distribution["tx.final.committed"] + r.Distribution["tx.final.conflict"] + r.Distribution["tx.final.cancelled"] + r.Distribution["tx.final.noentries"]
	r.Extra["schedules"] = r.Distribution["case.scenario"] + r.Distribution["case.scripted"] + r.Distribution["case.free"]
	r.Extra["conflicts_observed"] = r.Distribution["tx.final.conflict"]
	_ = sort.Strings
	return nil
}
