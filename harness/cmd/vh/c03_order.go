package main

// C03 ordering oracle: a crash-independent check of the write protocol on the recorded storage-op trace itself.
//
// The trace knows, after every storage op, which bytes of every file are durable (fsynced).  Recovery treats tx N as
// COMMITTED as soon as the commit-log entry of N is on disk, and a client may rely on N once its commit was acknowledged.
// Hence, at the moment
//
//	(a) the commit-log entry of tx N becomes durable (any op on the commit log: Sync, buffer-full auto-sync, rotation), and
//	(b) the commit of tx N is acknowledged to the caller (harness mark "ack N"),
//
// the following must ALREADY be durable for every tx n <= N that was written in this run:
//
//	the tx record of n in the tx log (at the offset/size the commit-log entry names, with the Alh of the entry),
//	every value byte range the record references (value log val_<id-1> at the decoded offset, or the tx log itself with
//	embedded values), with the SHA-256 the record holds for it,
//	and, for (b), the commit-log entry of n itself.
//
// Nothing here depends on the Lean model or on crash images: only on the on-disk formats (tx record, commit-log entry).
// The known finding K7 (tx log fsynced alone by a full write buffer) concerns PRECOMMITTED, never acknowledged txs whose
// commit-log entry does not exist yet: it does not show up here.

import (
	"bytes"
	"crypto/sha256"
	"encoding/binary"
	"fmt"
	"os"
	"strings"

	"verif/harness/internal/crashfs"
	"verif/harness/internal/hx"
)

type c03ValRef struct {
	File string
	Off  int64
	Len  int
	HVal [32]byte
	Key  []byte
}

type c03TxRec struct {
	ID   uint64
	Alh  [32]byte
	Off  int64 // offset of the record in the tx log
	Data []byte
	Refs []c03ValRef
	Seq  int
}

// c03ParseTxRecord parses one tx record as serialised by performPrecommit (header v0/v1, entries, trailing Alh).
func c03ParseTxRecord(data []byte) (rec *c03TxRec, ok bool) {
	const hdrFixed = 8 + 8 + 8 + 32 + 32 + 2
	if len(data) < hdrFixed+2+32 {
		return nil, false
	}
	rec = &c03TxRec{ID: binary.BigEndian.Uint64(data), Data: data}
	p := hdrFixed
	version := binary.BigEndian.Uint16(data[p-2:])
	need := func(n int) bool { return n >= 0 && p+n <= len(data) }
	var nEntries int
	switch version {
	case 0:
		if !need(2) {
			return nil, false
		}
		nEntries = int(binary.BigEndian.Uint16(data[p:]))
		p += 2
	case 1:
		if !need(2) {
			return nil, false
		}
		mdLen := int(binary.BigEndian.Uint16(data[p:]))
		p += 2
		if !need(mdLen + 4) {
			return nil, false
		}
		p += mdLen
		nEntries = int(binary.BigEndian.Uint32(data[p:]))
		p += 4
	default:
		return nil, false
	}
	if nEntries <= 0 || nEntries > 1<<16 {
		return nil, false
	}
	for i := 0; i < nEntries; i++ {
		if !need(2) {
			return nil, false
		}
		mdLen := int(binary.BigEndian.Uint16(data[p:]))
		p += 2
		if !need(mdLen + 2) {
			return nil, false
		}
		p += mdLen
		kLen := int(binary.BigEndian.Uint16(data[p:]))
		p += 2
		if !need(kLen + 4 + 8 + 32) {
			return nil, false
		}
		key := data[p : p+kLen]
		p += kLen
		vLen := int(binary.BigEndian.Uint32(data[p:]))
		p += 4
		vOff := int64(binary.BigEndian.Uint64(data[p:]))
		p += 8
		var h [32]byte
		copy(h[:], data[p:])
		p += 32
		if vLen > 0 {
			vLogID := byte(vOff >> 56)
			off := vOff & ((1 << 56) - 1)
			file := "tx" // embedded values live in the tx log itself
			if vLogID > 0 {
				file = fmt.Sprintf("val_%d", int(vLogID)-1)
			}
			rec.Refs = append(rec.Refs, c03ValRef{File: file, Off: off, Len: vLen, HVal: h, Key: key})
		}
	}
	if p+32 != len(data) {
		return nil, false
	}
	copy(rec.Alh[:], data[p:])
	return rec, true
}

type c03OrderStats struct {
	TxRecords, CommitEntries, DurableMoments, AckMoments, ValueRanges, Violations int
}

// c03Ordering replays run.Log and evaluates the ordering clauses.  Returns the statistics of what was checked.
func c03Ordering(r *hx.Result, run *c03Run) c03OrderStats {
	var st c03OrderStats
	state := crashfs.NewState(run.Base, true)
	if run.Cfg.BreakSync != "" {
		state.BreakSync = map[string]bool{run.Cfg.BreakSync: true}
	}
	type centry struct {
		raw   []byte
		txOff int64
		txLen int
		alh   [32]byte
		seq   int
	}
	recs := map[[32]byte]*c03TxRec{} // by Alh
	entries := map[uint64]*centry{}  // commit-log entries written in this run, by tx id (the latest one wins)
	reported := map[string]bool{}
	valuesOK := map[uint64]bool{} // tx whose record and values were found durable (durable data stays durable)
	var firstID uint64            // lowest tx id with a commit-log entry written in this run
	var durableUpto uint64        // commit-log entries firstID..durableUpto are durable

	fail := func(sig string, k int, id uint64, moment, desc string) {
		st.Violations++
		key := fmt.Sprintf("%s/%d", sig, id)
		if reported[key] {
			return
		}
		reported[key] = true
		r.Fail(sig, fmt.Sprintf("%s: tx %d: %s | %s", moment, id, desc, run.Cfg.String()),
			map[string]interface{}{"cfg": run.Cfg.String(), "lineage": run.Lineage, "trace_position": k, "moment": moment, "tx": id, "detail": desc,
				"ops_before": lastOps(run.Log, k+1, c03OrderCtx())})
	}
	// record + values of tx id durable?  (sig suffix chosen by the caller's moment)
	checkTx := func(k int, id uint64, moment string) {
		if valuesOK[id] {
			return
		}
		e := entries[id]
		if e == nil {
			return // committed before this run started (inherited from the base image)
		}
		rec := recs[e.alh]
		if rec == nil {
			if run.Base == nil {
				fail("C03:ordering:commit-entry-without-tx-record", k, id, moment, "the commit-log entry names an Alh that no tx record appended so far carries")
			}
			return
		}
		ok := true
		if rec.Off != e.txOff || len(rec.Data) != e.txLen {
			fail("C03:ordering:commit-entry-without-tx-record", k, id, moment, fmt.Sprintf("commit-log entry says offset %d size %d, the record was appended at %d with size %d", e.txOff, e.txLen, rec.Off, len(rec.Data)))
			ok = false
		}
		if d, dur := state.DurableRange("tx", rec.Off, len(rec.Data)); !dur || !bytes.Equal(d, rec.Data) {
			fail("C03:ordering:acked-tx-record-not-durable", k, id, moment, fmt.Sprintf("tx record [%d,+%d) of the tx log is not durable (fsynced=%v)", rec.Off, len(rec.Data), dur))
			ok = false
		}
		for _, ref := range rec.Refs {
			st.ValueRanges++
			d, dur := state.DurableRange(ref.File, ref.Off, ref.Len)
			switch {
			case !dur:
				fail("C03:ordering:acked-tx-values-not-durable", k, id, moment, fmt.Sprintf("value of %s = %s[%d,+%d) has not been fsynced (tx record appended at op #%d, commit-log entry at op #%d)", ref.Key, ref.File, ref.Off, ref.Len, rec.Seq, e.seq))
				ok = false
			case sha256.Sum256(d) != ref.HVal:
				fail("C03:ordering:acked-tx-values-not-durable", k, id, moment, fmt.Sprintf("the fsynced bytes of %s[%d,+%d) (value of %s) do not have the digest of the tx record (stale bytes)", ref.File, ref.Off, ref.Len, ref.Key))
				ok = false
			}
		}
		if ok {
			valuesOK[id] = true
		}
	}
	entryDurable := func(id uint64) bool {
		e := entries[id]
		if e == nil {
			return false
		}
		d, dur := state.DurableRange("commit", int64(id-1)*c03CLogEntry, c03CLogEntry)
		return dur && bytes.Equal(d, e.raw)
	}

	// exploration statistics: how often did the workload put a precommit INSIDE a durability round (between the first value-log
	// Flush/Sync of the round and its tx-log Sync)?  With the commit lock held for the whole round this is impossible.
	inRound, roundHit := false, false
	kind := "free-running"
	if run.Cfg.Sched != nil {
		kind = "scheduled"
	}
	for k := 0; k < len(run.Log); k++ {
		op := run.Log[k]
		switch {
		case strings.HasPrefix(op.File, "val_") && (op.Kind == crashfs.KFlush || op.Kind == crashfs.KSync):
			if !inRound {
				inRound, roundHit = true, false
				r.Count("ordering.durability-rounds." + kind)
			}
		case op.File == "tx" && op.Kind == crashfs.KSync:
			inRound = false
		case op.File == "tx" && op.Kind == crashfs.KAppend && op.Len >= 124 && inRound && !roundHit:
			roundHit = true
			r.Count("ordering.durability-rounds-with-a-precommit-inside." + kind)
		}
		if op.Kind == crashfs.KMark {
			if op.Note == "ack" && run.Acked[op.Arg] != nil && !run.Inherit[op.Arg] {
				st.AckMoments++
				n := op.Arg
				moment := fmt.Sprintf("at the acknowledgement of tx %d (op #%d)", n, k)
				if e := entries[n]; e != nil {
					if e.alh != run.Acked[n].Alh || !entryDurable(n) {
						fail("C03:ordering:acked-tx-commit-entry-not-durable", k, n, moment, "the commit-log entry of the acknowledged tx is not durable (or holds another Alh)")
					}
				} else if run.Base == nil {
					fail("C03:ordering:acked-tx-commit-entry-not-durable", k, n, moment, "no commit-log entry was ever written for the acknowledged tx")
				}
				for id := firstID; id != 0 && id <= n; id++ {
					checkTx(k, id, moment)
				}
			}
			continue
		}
		op.Auto = ""
		off, _, _ := state.Apply(&op)
		switch {
		case op.File == "tx" && op.Kind == crashfs.KAppend:
			if rec, ok := c03ParseTxRecord(op.Data); ok && run.Universe[rec.Alh] {
				rec.Off, rec.Seq = off, k
				recs[rec.Alh] = rec
				st.TxRecords++
			}
		case op.File == "commit" && op.Kind == crashfs.KAppend:
			for i := 0; i+c03CLogEntry <= op.Len && off%c03CLogEntry == 0; i += c03CLogEntry {
				raw := op.Data[i : i+c03CLogEntry]
				id := uint64((off+int64(i))/c03CLogEntry) + 1
				e := &centry{raw: raw, txOff: int64(binary.BigEndian.Uint64(raw)), txLen: int(binary.BigEndian.Uint32(raw[8:])), seq: k}
				copy(e.alh[:], raw[12:])
				entries[id] = e
				delete(valuesOK, id)
				st.CommitEntries++
				if firstID == 0 || id < firstID {
					firstID = id
					durableUpto = id - 1
				}
				if id <= durableUpto {
					durableUpto = id - 1 // rewritten
				}
			}
		}
		if op.File == "commit" && firstID != 0 {
			// (a) which commit-log entries became durable through this op?
			for entryDurable(durableUpto + 1) {
				durableUpto++
				st.DurableMoments++
				checkTx(k, durableUpto, fmt.Sprintf("when the commit-log entry of tx %d became durable (op #%d: %s)", durableUpto, k, op.String()))
			}
		}
	}
	r.CountN("ordering.tx-records", st.TxRecords)
	r.CountN("ordering.commit-entries", st.CommitEntries)
	r.CountN("ordering.entries-becoming-durable-checked", st.DurableMoments)
	r.CountN("ordering.acks-checked", st.AckMoments)
	r.CountN("ordering.value-ranges-checked", st.ValueRanges)
	r.CountN("ordering.violations", st.Violations)
	if st.DurableMoments+st.AckMoments > 0 {
		r.OracleChecks++
		r.Eval("ordering:"+run.Lineage, st.ValueRanges > 0)
	}
	return st
}

func c03OrderCtx() int {
	if os.Getenv("VERIF_C03_DEBUG") != "" {
		return 400
	}
	return 32
}
